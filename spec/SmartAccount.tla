---------------------------- MODULE SmartAccount ----------------------------
(***************************************************************************)
(* x/smart-account: the account-authenticator registry, the composition of *)
(* authenticators (AllOf / AnyOf trees over leaf authenticators) and the   *)
(* per-transaction flow authenticate -> track -> execute -> confirm.       *)
(* Extra check X05.                                                        *)
(*                                                                         *)
(* What a user of this module relies on (from x/smart-account/README.md,   *)
(* the doc comments of authenticator/iface.go, keeper/msg_server.go,       *)
(* ante/ante.go, post/post.go and the evident intent of the tests), each   *)
(* as a for-all statement:                                                 *)
(*                                                                         *)
(*  P1 owner-only.  For all accounts A, B with A # B: no message sent by B *)
(*     and no transaction in which A signs no message ever changes A's     *)
(*     authenticator list.  RemoveAuthenticator(id) by A succeeds only if  *)
(*     id is currently in A's own list.                                    *)
(*  P2 ids.  Every id handed out is strictly greater than every id handed  *)
(*     out before (globally: across accounts, removals, failed operations  *)
(*     and a genesis export/import); hence an id is never reused and never *)
(*     names two authenticators.                                           *)
(*  P3 registry = adds - removes.  At all times the list reported for A    *)
(*     (GetAuthenticators / GetAuthenticator) is exactly the set of A's    *)
(*     successful adds minus A's successful removes; a refused or reverted *)
(*     operation leaves no trace (neither in the list, nor in the id       *)
(*     counter, nor in authenticator-owned state).                         *)
(*  P4 validation.  AddAuthenticator succeeds iff the module is active and *)
(*     the tree is well formed: every type registered, every composite has *)
(*     at least two children and a parsable configuration, every leaf      *)
(*     accepts its configuration (OnAuthenticatorAdded is consulted on     *)
(*     every leaf, with its composite id).  An authenticator that was      *)
(*     accepted can always be initialised when selected later.             *)
(*     RemoveAuthenticator succeeds iff active, present and no leaf vetoes.*)
(*  P5 circuit breaker.  While is_smart_account_active is false: add and   *)
(*     remove are refused, no authenticator is consulted by any            *)
(*     transaction (classic authentication decides), nothing owned by the  *)
(*     module changes.  Only the governor can switch it on, only a         *)
(*     registered controller can switch it off.                            *)
(*  P6 composition.  AllOf authenticates (confirms) iff all children do,   *)
(*     AnyOf iff at least one does, recursively for any nesting; children  *)
(*     are consulted left to right and never after the verdict is decided  *)
(*     (README "Confirm Execution call order"); the child at position i of *)
(*     a composite called with id a is called with id a.i (README          *)
(*     "Composite Ids"), i counted from 0.                                 *)
(*  P7 Authenticate is pure.  No state written during Authenticate ever    *)
(*     persists (iface.go: "Any state changes made by this function will   *)
(*     be discarded").                                                     *)
(*  P8 Track.  Track is called only after every message of the transaction *)
(*     was authenticated; then on every leaf of every selected             *)
(*     authenticator, once per message, in order, with its composite id;   *)
(*     its writes persist iff the whole ante phase succeeds, and then      *)
(*     whatever happens to execution and confirmation.                     *)
(*  P9 Confirm.  ConfirmExecution is called only after all messages were   *)
(*     executed successfully; the transaction succeeds iff every selected  *)
(*     authenticator confirms; if one rejects, every write of the          *)
(*     execution and of the confirmations is discarded while fee, sequence *)
(*     numbers and Track writes stay.  Inside AnyOf only the writes of the *)
(*     confirming child are kept.                                          *)
(*  P10 selection.  A message is authenticated only by an authenticator    *)
(*     that is, at that moment, in the list of the message's own signer:   *)
(*     selecting a foreign, removed or never allocated id always rejects   *)
(*     the transaction, as does a number of selected authenticators        *)
(*     different from the number of messages.  The authenticator is looked *)
(*     up again after execution (README: "an account and authenticator are *)
(*     selected again"): a transaction that removes the authenticator it   *)
(*     selected fails as a whole.                                          *)
(*  P11 fee and replay.  The fee is charged at most once per transaction,  *)
(*     to the signer of the first message, and never unless that message   *)
(*     was authenticated; once the ante phase succeeded it stays charged   *)
(*     whatever happens later.  The sequence number of every signer grows  *)
(*     by exactly one iff the ante phase succeeds; a signature carrying    *)
(*     another sequence number is never accepted; and the same signed      *)
(*     bytes are never charged twice: a transaction that charges a fee     *)
(*     consumes the fee payer's sequence number (replay protection,        *)
(*     authenticator/replay_protection.go).  When the payer's message is   *)
(*     authenticated and the ante phase still fails (a later message is    *)
(*     refused, a Track call fails) the statement leaves open whether the  *)
(*     fee is kept (and the payer's sequence consumed) or nothing is       *)
(*     charged.                                                            *)
(*  P12 genesis.  ExportGenesis followed by InitGenesis reproduces the     *)
(*     lists, the active flag and the id counter (P2 continues to hold)    *)
(*     and changes nothing else.                                           *)
(*                                                                         *)
(* A transaction is several actions: TxBegin, TxAnte, TxExec, TxPost,      *)
(* TxEnd; `fl` holds the transaction in flight, the state the execution    *)
(* works on (written only if everything succeeds) and the calls made to    *)
(* leaf authenticators so far.                                             *)
(*                                                                         *)
(* Trees: uniform records [k, n, va, vt, vc, oa, orm, ch, impl];           *)
(*   k = "leaf": n = name of the store the leaf writes to, va / vt / vc =  *)
(*       verdict of Authenticate / Track / ConfirmExecution, oa / orm =    *)
(*       verdict of OnAuthenticatorAdded / OnAuthenticatorRemoved;         *)
(*   k = "all" | "any": ch = children;   anything else is malformed.       *)
(* Ids handed out by the code are inputs; paths are sequences <<id,i,j>>.  *)
(***************************************************************************)
EXTENDS Integers, Sequences, FiniteSets

CONSTANTS ConfirmAfterFailedExec,  \* FALSE = P9 as stated.  TRUE additionally allows the tree as it is (finding X05-1):
                                   \* the post handler also runs after a failed execution.
          FeeWithoutSequence       \* FALSE = P11 as stated.  TRUE additionally allows the tree as it is (finding X05-2):
                                   \* when a later message is refused the fee is kept and no sequence number is consumed.

VARIABLES
    conf,    \* [accts : set, names : set, ctrl : set of accounts]   (constant within a history)
    active,  \* circuit breaker parameter
    reg,     \* [accts -> set of [id, t]]
    used,    \* ghost: every id ever handed out (and kept)
    ls,      \* [names -> leaf store]: committed writes of the leaf authenticators
    seq,     \* [accts -> Nat] account sequence numbers (relative)
    sent,    \* [accts -> Nat] messages of kind "send" executed and kept
    fee,     \* [accts -> Nat] fee units charged
    fl,      \* transaction in flight
    op       \* last operation: [k, by : set of accounts acting]

vars == <<conf, active, reg, used, ls, seq, sent, fee, fl, op>>

Gov == "gov"
NoId == <<>>
Leaf0 == [na |-> 0, nt |-> 0, nc |-> 0, nad |-> 0, nrm |-> 0, lt |-> NoId, lc |-> NoId, lad |-> NoId, lrm |-> NoId]
Idle == [ph |-> "idle"]

MaxOf(S) == IF S = {} THEN 0 ELSE CHOOSE x \in S : \A y \in S : y <= x
MinOf(S) == CHOOSE x \in S : \A y \in S : x <= y
Min2(a, b) == IF a < b THEN a ELSE b

RECURSIVE Flat(_)
Flat(ss) == IF ss = <<>> THEN <<>> ELSE Head(ss) \o Flat(Tail(ss))

---------------------------------------------------------------------------
(* trees *)
IsLeaf(t) == t.k = "leaf"
IsComp(t) == t.k \in {"all", "any"}

RECURSIVE WellFormed(_)
WellFormed(t) == CASE IsLeaf(t) -> t.oa
                   [] IsComp(t) -> Len(t.ch) >= 2 /\ \A i \in 1..Len(t.ch) : WellFormed(t.ch[i])
                   [] OTHER -> FALSE

\* every leaf of a well-formed tree, left to right, with its composite id
RECURSIVE Leaves(_, _)
Leaves(t, id) == IF IsLeaf(t) THEN << [n |-> t.n, id |-> id, lf |-> t] >>
                 ELSE Flat([i \in 1..Len(t.ch) |-> Leaves(t.ch[i], Append(id, i - 1))])

Verdict(lf, f) == CASE f = "va" -> lf.va [] f = "vt" -> lf.vt [] f = "vc" -> lf.vc

\* P6: the verdict of a tree
RECURSIVE Eval(_, _)
Eval(t, f) == CASE IsLeaf(t) -> Verdict(t, f)
              [] t.k = "all" -> \A i \in 1..Len(t.ch) : Eval(t.ch[i], f)
              [] t.k = "any" -> \E i \in 1..Len(t.ch) : Eval(t.ch[i], f)

\* P6: children consulted under left-to-right evaluation that stops once the verdict is decided
Consulted(t, f) == LET dec == {i \in 1..Len(t.ch) : Eval(t.ch[i], f) = (t.k = "any")}
                   IN IF dec = {} THEN Len(t.ch) ELSE MinOf(dec)

RECURSIVE Visit(_, _, _)
Visit(t, id, f) == IF IsLeaf(t) THEN << [n |-> t.n, id |-> id] >>
                   ELSE Flat([i \in 1..Consulted(t, f) |-> Visit(t.ch[i], Append(id, i - 1), f)])

\* P9: the confirmations whose writes are kept when the tree confirms
RECURSIVE Kept(_, _)
Kept(t, id) == CASE IsLeaf(t) -> << [n |-> t.n, id |-> id] >>
                 [] t.k = "all" -> Flat([i \in 1..Len(t.ch) |-> Kept(t.ch[i], Append(id, i - 1))])
                 [] t.k = "any" -> LET j == MinOf({i \in 1..Len(t.ch) : Eval(t.ch[i], "vc")})
                                   IN Kept(t.ch[j], Append(id, j - 1))

Calls(ph, cs) == [i \in 1..Len(cs) |-> [ph |-> ph, n |-> cs[i].n, id |-> cs[i].id]]

\* committed writes of leaves
Bump(l, ph, c) ==
    [l EXCEPT ![c.n] = CASE ph = "track"   -> [@ EXCEPT !.nt = @ + 1, !.lt = c.id]
                         [] ph = "confirm" -> [@ EXCEPT !.nc = @ + 1, !.lc = c.id]
                         [] ph = "added"   -> [@ EXCEPT !.nad = @ + 1, !.lad = c.id]
                         [] ph = "removed" -> [@ EXCEPT !.nrm = @ + 1, !.lrm = c.id]]
RECURSIVE Apply(_, _, _)
Apply(l, ph, cs) == IF cs = <<>> THEN l ELSE Apply(Bump(l, ph, Head(cs)), ph, Tail(cs))

---------------------------------------------------------------------------
(* the state as a value, so that an execution can work on a copy *)
St == [active |-> active, reg |-> reg, used |-> used, ls |-> ls, seq |-> seq, sent |-> sent, fee |-> fee]
Becomes(S) == /\ active' = S.active /\ reg' = S.reg /\ used' = S.used /\ ls' = S.ls
              /\ seq' = S.seq /\ sent' = S.sent /\ fee' = S.fee

HasEntry(S, a, id) == a \in DOMAIN S.reg /\ \E e \in S.reg[a] : e.id = id
EntryOf(S, a, id) == CHOOSE e \in S.reg[a] : e.id = id

\* P2: the id the code hands out
Fresh(S, id) == id > MaxOf(S.used)

\* P4
CanAdd(S, t) == S.active /\ WellFormed(t)
Added(S, a, t, id) == [S EXCEPT !.reg[a] = @ \cup {[id |-> id, t |-> t]}, !.used = @ \cup {id},
                                !.ls = Apply(@, "added", Leaves(t, <<id>>))]
CanRm(S, a, id) == /\ S.active /\ HasEntry(S, a, id)
                   /\ LET L == Leaves(EntryOf(S, a, id).t, <<id>>) IN \A i \in 1..Len(L) : L[i].lf.orm
Removed(S, a, id) == LET e == EntryOf(S, a, id) IN
                     [S EXCEPT !.reg[a] = @ \ {e}, !.ls = Apply(@, "removed", Leaves(e.t, <<id>>))]

InitWith(c) ==
    /\ conf = c
    /\ active = TRUE
    /\ reg = [a \in c.accts |-> {}]
    /\ used = {}
    /\ ls = [n \in c.names |-> Leaf0]
    /\ seq = [a \in c.accts |-> 0]
    /\ sent = [a \in c.accts |-> 0]
    /\ fee = [a \in c.accts |-> 0]
    /\ fl = Idle
    /\ op = [k |-> "init", by |-> {}]

---------------------------------------------------------------------------
(* message-server entry points *)
AddAuthenticator(a, t, id, ok) ==
    /\ fl.ph = "idle" /\ a \in conf.accts
    /\ ok = CanAdd(St, t)
    /\ IF ok THEN Fresh(St, id) /\ Becomes(Added(St, a, t, id)) ELSE Becomes(St)
    /\ op' = [k |-> "add", by |-> {a}]
    /\ UNCHANGED <<conf, fl>>

RemoveAuthenticator(a, id, ok) ==
    /\ fl.ph = "idle" /\ a \in conf.accts
    /\ ok = CanRm(St, a, id)
    /\ IF ok THEN Becomes(Removed(St, a, id)) ELSE Becomes(St)
    /\ op' = [k |-> "rm", by |-> {a}]
    /\ UNCHANGED <<conf, fl>>

SetActiveState(by, on, ok) ==
    /\ fl.ph = "idle"
    /\ ok = IF on THEN by = Gov ELSE by \in conf.ctrl
    /\ active' = IF ok THEN on ELSE active
    /\ op' = [k |-> "act", by |-> {by}]
    /\ UNCHANGED <<conf, reg, used, ls, seq, sent, fee, fl>>

\* P3: queries answer from the registry and change nothing
QueryAnswer(a, id) == IF HasEntry(St, a, id) THEN [found |-> TRUE, t |-> EntryOf(St, a, id).t]
                      ELSE [found |-> FALSE]
Query == /\ fl.ph = "idle"
         /\ op' = [k |-> "query", by |-> {}]
         /\ UNCHANGED <<conf, active, reg, used, ls, seq, sent, fee, fl>>

\* P12: export + import; a new block: nothing changes
Reimport == /\ fl.ph = "idle"
            /\ op' = [k |-> "reimport", by |-> {}]
            /\ UNCHANGED <<conf, active, reg, used, ls, seq, sent, fee, fl>>
NewBlock == /\ fl.ph = "idle"
            /\ op' = [k |-> "block", by |-> {}]
            /\ UNCHANGED <<conf, active, reg, used, ls, seq, sent, fee, fl>>

---------------------------------------------------------------------------
(* transactions.  tx = [msgs : Seq([a, sel, m]), ext : "ok" | "none" | "long", stale : account or "",   *)
(*   fee : Nat, ids : ids handed out to the add messages, in order]                                      *)
(*   m = [k |-> "send"] | [k |-> "bad"] | [k |-> "add", t |-> tree] | [k |-> "rm", id |-> id]            *)
NMsgs(tx) == Len(tx.msgs)
Signers(tx) == {tx.msgs[i].a : i \in 1..NMsgs(tx)}
Payer(tx) == tx.msgs[1].a
\* P5: the circuit breaker routes; without selected authenticators the classic flow decides
UseAuth(S, tx) == S.active /\ tx.ext # "none"

\* --- ante, authenticator flow
Reaches(S, tx, i) == LET m == tx.msgs[i] IN HasEntry(S, m.a, m.sel) /\ m.a # tx.stale     \* P10, P11
Passes(S, tx, i) == LET m == tx.msgs[i] IN Reaches(S, tx, i) /\ Eval(EntryOf(S, m.a, m.sel).t, "va")
FirstFail(S, tx) == MinOf({i \in 1..NMsgs(tx) : ~Passes(S, tx, i)} \cup {NMsgs(tx) + 1})
AllAuth(S, tx) == tx.ext = "ok" /\ FirstFail(S, tx) = NMsgs(tx) + 1
AuthCalls(S, tx) ==
    IF tx.ext # "ok" THEN <<>>
    ELSE Flat([i \in 1..Min2(FirstFail(S, tx), NMsgs(tx)) |->
                 IF Reaches(S, tx, i)
                 THEN Visit(EntryOf(S, tx.msgs[i].a, tx.msgs[i].sel).t, <<tx.msgs[i].sel>>, "va") ELSE <<>>])
FeeCharged(S, tx) == tx.ext = "ok" /\ Passes(S, tx, 1)                                       \* P11
TrackAll(S, tx) == Flat([i \in 1..NMsgs(tx) |->
                           Leaves(EntryOf(S, tx.msgs[i].a, tx.msgs[i].sel).t, <<tx.msgs[i].sel>>)])
TrackBad(S, tx) == {j \in 1..Len(TrackAll(S, tx)) : ~TrackAll(S, tx)[j].lf.vt}
TrackCalls(S, tx) == IF ~AllAuth(S, tx) THEN <<>>                                            \* P8
                     ELSE SubSeq(TrackAll(S, tx), 1, IF TrackBad(S, tx) = {} THEN Len(TrackAll(S, tx))
                                                     ELSE MinOf(TrackBad(S, tx)))
AnteOKAuth(S, tx) == AllAuth(S, tx) /\ TrackBad(S, tx) = {}
BumpSeq(S, tx) == [S EXCEPT !.seq = [a \in DOMAIN @ |-> IF a \in Signers(tx) THEN @[a] + 1 ELSE @[a]]]
Charge(S, tx) == [S EXCEPT !.fee[Payer(tx)] = @ + tx.fee]
BumpPayer(S, tx) == [S EXCEPT !.seq[Payer(tx)] = @ + 1]
\* what the ante phase leaves behind (a set: P11 leaves one case open)
AnteOutcomesAuth(S, tx) ==
    IF AnteOKAuth(S, tx)
    THEN {BumpSeq([Charge(S, tx) EXCEPT !.ls = Apply(@, "track", TrackCalls(S, tx))], tx)}
    ELSE IF ~FeeCharged(S, tx) THEN {S}
    ELSE {BumpPayer(Charge(S, tx), tx), S} \cup (IF FeeWithoutSequence THEN {Charge(S, tx)} ELSE {})

\* --- ante, classic flow: the accounts' own signatures decide, no authenticator is consulted
AnteOKClassic(S, tx) == tx.stale = ""
AfterAnteClassic(S, tx) == IF AnteOKClassic(S, tx) THEN BumpSeq(Charge(S, tx), tx) ELSE S

AnteOK(S, tx) == IF UseAuth(S, tx) THEN AnteOKAuth(S, tx) ELSE AnteOKClassic(S, tx)
AnteOutcomes(S, tx) == IF UseAuth(S, tx) THEN AnteOutcomesAuth(S, tx) ELSE {AfterAnteClassic(S, tx)}
AnteCalls(S, tx) == IF UseAuth(S, tx) THEN Calls("auth", AuthCalls(S, tx)) \o Calls("track", TrackCalls(S, tx)) ELSE <<>>

\* --- execution on a copy X of the state; all or nothing
\* the id the k-th add message received: an input (the ids of a reverted transaction are never seen: any fresh one)
IdFor(X, tx, k) == IF k <= Len(tx.ids) THEN tx.ids[k] ELSE MaxOf(X.used) + 1
RECURSIVE ExecFrom(_, _, _, _, _)
ExecFrom(X, tx, i, k, cs) ==
    IF i > NMsgs(tx) THEN [ok |-> TRUE, X |-> X, calls |-> cs, fresh |-> TRUE]
    ELSE LET m == tx.msgs[i]
             Fail == [ok |-> FALSE, X |-> X, calls |-> cs, fresh |-> TRUE]
         IN CASE m.m.k = "send" -> ExecFrom([X EXCEPT !.sent[m.a] = @ + 1], tx, i + 1, k, cs)
              [] m.m.k = "bad" -> Fail
              [] m.m.k = "add" ->
                    IF ~CanAdd(X, m.m.t) THEN Fail
                    ELSE IF ~Fresh(X, IdFor(X, tx, k)) THEN [Fail EXCEPT !.fresh = FALSE]
                    ELSE ExecFrom(Added(X, m.a, m.m.t, IdFor(X, tx, k)), tx, i + 1, k + 1,
                                  cs \o Calls("added", Leaves(m.m.t, <<IdFor(X, tx, k)>>)))
              [] m.m.k = "rm" ->
                    IF ~CanRm(X, m.a, m.m.id) THEN Fail
                    ELSE ExecFrom(Removed(X, m.a, m.m.id), tx, i + 1, k,
                                  cs \o Calls("removed", Leaves(EntryOf(X, m.a, m.m.id).t, <<m.m.id>>)))
Exec(S, tx) == ExecFrom(S, tx, 1, 1, <<>>)

\* --- post: the selected authenticators confirm, looked up in the state the execution produced
UsePost(X, tx) == X.active /\ tx.ext # "none"
PReaches(X, tx, i) == HasEntry(X, tx.msgs[i].a, tx.msgs[i].sel)
PPasses(X, tx, i) == PReaches(X, tx, i) /\ Eval(EntryOf(X, tx.msgs[i].a, tx.msgs[i].sel).t, "vc")
PFirstFail(X, tx) == MinOf({i \in 1..NMsgs(tx) : ~PPasses(X, tx, i)} \cup {NMsgs(tx) + 1})
PostOK(X, tx) == PFirstFail(X, tx) = NMsgs(tx) + 1
ConfCalls(X, tx) == Flat([i \in 1..Min2(PFirstFail(X, tx), NMsgs(tx)) |->
                            IF PReaches(X, tx, i)
                            THEN Visit(EntryOf(X, tx.msgs[i].a, tx.msgs[i].sel).t, <<tx.msgs[i].sel>>, "vc") ELSE <<>>])
ConfKept(X, tx) == Flat([i \in 1..NMsgs(tx) |-> Kept(EntryOf(X, tx.msgs[i].a, tx.msgs[i].sel).t, <<tx.msgs[i].sel>>)])
AfterPost(X, tx) == [X EXCEPT !.ls = Apply(@, "confirm", ConfKept(X, tx))]

\* --- the phases as actions
TxBegin(tx) ==
    /\ fl.ph = "idle"
    /\ NMsgs(tx) >= 1 /\ Signers(tx) \subseteq conf.accts
    /\ fl' = [ph |-> "ante", tx |-> tx, act0 |-> active, S0 |-> St, X |-> St, ok |-> TRUE, execok |-> FALSE,
              fresh |-> TRUE, calls |-> <<>>]
    /\ op' = [k |-> "tx", by |-> Signers(tx)]
    /\ UNCHANGED <<conf, active, reg, used, ls, seq, sent, fee>>

TxAnte ==
    /\ fl.ph = "ante"
    /\ LET tx == fl.tx  ok == AnteOK(St, tx) IN
        /\ \E R \in AnteOutcomes(St, tx) : Becomes(R)
        /\ fl' = [fl EXCEPT !.ph = IF ok THEN "exec" ELSE "done", !.ok = ok, !.calls = AnteCalls(St, tx)]
    /\ UNCHANGED <<conf, op>>

TxExec ==
    /\ fl.ph = "exec"
    /\ LET r == Exec(St, fl.tx)
           lates == {<<>>} \cup (IF ConfirmAfterFailedExec /\ ~r.ok /\ UsePost(r.X, fl.tx)
                                THEN {Calls("confirm", ConfCalls(r.X, fl.tx))} ELSE {})
       IN \E late \in lates :
            fl' = [fl EXCEPT !.ph = IF r.ok THEN "post" ELSE "done", !.ok = r.ok, !.execok = r.ok, !.X = r.X,
                             !.fresh = r.fresh, !.calls = @ \o r.calls \o late]
    /\ UNCHANGED <<conf, active, reg, used, ls, seq, sent, fee, op>>

TxPost ==
    /\ fl.ph = "post"
    /\ LET tx == fl.tx  X == fl.X IN
        IF ~UsePost(X, tx) THEN Becomes(X) /\ fl' = [fl EXCEPT !.ph = "done"]
        ELSE /\ fl' = [fl EXCEPT !.ph = "done", !.ok = PostOK(X, tx), !.calls = @ \o Calls("confirm", ConfCalls(X, tx))]
             /\ IF PostOK(X, tx) THEN Becomes(AfterPost(X, tx)) ELSE Becomes(St)
    /\ UNCHANGED <<conf, op>>

TxEnd ==
    /\ fl.ph = "done"
    /\ fl' = Idle
    /\ UNCHANGED <<conf, active, reg, used, ls, seq, sent, fee, op>>

---------------------------------------------------------------------------
(* properties *)
AllEntries == UNION {reg[a] : a \in conf.accts}
\* P2
IdsUnique == /\ \A a, b \in conf.accts : \A e \in reg[a] : \A g \in reg[b] : e.id = g.id => (a = b /\ e = g)
             /\ \A e \in AllEntries : e.id \in used
\* P4
RegWellFormed == \A e \in AllEntries : WellFormed(e.t)
\* P7
AuthenticatePure == \A n \in conf.names : ls[n].na = 0
\* committed leaf stores are consistent: a last id is there iff the count is positive
StoresConsistent == \A n \in conf.names :
    /\ (ls[n].nt = 0) = (ls[n].lt = NoId) /\ (ls[n].nc = 0) = (ls[n].lc = NoId)
    /\ (ls[n].nad = 0) = (ls[n].lad = NoId) /\ (ls[n].nrm = 0) = (ls[n].lrm = NoId)
HasCall(ph) == fl.ph # "idle" /\ \E i \in 1..Len(fl.calls) : fl.calls[i].ph = ph
\* P5
NoCallsWhileInactive == (fl.ph # "idle" /\ ~fl.act0) => ~(HasCall("auth") \/ HasCall("track") \/ HasCall("confirm"))
\* P9
ConfirmOnlyAfterExecution == HasCall("confirm") => fl.execok
\* P8: Track only when every message was authenticated
TrackOnlyAfterAuth == HasCall("track") => (UseAuth(fl.S0, fl.tx) /\ AllAuth(fl.S0, fl.tx))
\* P11: a transaction that charges a fee consumes the payer's sequence number
ChargedFeeConsumesSequence ==
    fl.ph = "done" => \A a \in conf.accts : fee[a] > fl.S0.fee[a] => seq[a] > fl.S0.seq[a]
\* the code handed out fresh ids inside the transaction
TxIdsFresh == fl.ph # "idle" => fl.fresh

SameHistory == conf' = conf /\ op'.k # "init"    \* trace specs concatenate histories with a reset step
\* P1
OwnerOnly == [][SameHistory => \A a \in conf.accts : reg'[a] # reg[a] => a \in op'.by]_vars
\* P2
IdsIncrease == [][SameHistory => \A i \in used' \ used : i > MaxOf(used)]_vars
IdsKept == [][SameHistory => used \subseteq used']_vars
\* P5
FrozenWhileInactive == [][(SameHistory /\ ~active /\ ~active') => (reg' = reg /\ ls' = ls /\ used' = used)]_vars
\* P8 / P11: what the ante phase commits is never taken back
NeverTakenBack == [][SameHistory => /\ \A a \in conf.accts : seq'[a] >= seq[a] /\ fee'[a] >= fee[a] /\ sent'[a] >= sent[a]
                                    /\ \A n \in conf.names : /\ ls'[n].nt >= ls[n].nt /\ ls'[n].nc >= ls[n].nc
                                                             /\ ls'[n].nad >= ls[n].nad /\ ls'[n].nrm >= ls[n].nrm]_vars
\* P9: a transaction that does not succeed keeps nothing of its execution
FailedTxKeepsNothing == [][(SameHistory /\ fl.ph \in {"exec", "post"} /\ fl'.ph = "done" /\ ~fl'.ok) =>
                              (reg' = reg /\ used' = used /\ sent' = sent /\ ls' = ls /\ seq' = seq /\ fee' = fee)]_vars
=============================================================================
