------------------------------- MODULE MCTwap -------------------------------
(* Bounded model of Twap with native integers: one pool / pair, prices       *)
(* {1, 2, 4} (p1 = 4 / p0, so both series move) plus the spot price error,   *)
(* irregular block times within 0..MaxT, pool creation at any block, at most *)
(* one price change per block (also in the creation block), pruning started  *)
(* at any block (at most MaxEpochs times) with a bounded pass per block.     *)
(*  - mc cfg: the mechanism's answers to ALL intervals 0 <= s <= e <= now    *)
(*    equal the ghost definition in every reachable state (exact);           *)
(*  - gen cfg: every maximal behaviour is printed with, per step, the        *)
(*    records that must / may be stored and the required outcome of every    *)
(*    interval query; harness/app/twap TestReplay executes them on the real  *)
(*    keeper code with a scripted spot price source.                         *)
EXTENDS Twap, TLC, Json

CONSTANTS MaxT, Ticks, MaxEpochs
VARIABLES hist, nep, nt

IAdd(a, b) == a + b
ISub(a, b) == a - b
IMulT(a, k) == a * k
ILe(a, b) == a <= b
ILog(p) == CASE p = 1 -> 0 [] p = 2 -> 1 [] p = 4 -> 2 [] OTHER -> NoLog

Choices == {[p0 |-> 1, p1 |-> 4, err |-> FALSE], [p0 |-> 2, p1 |-> 2, err |-> FALSE],
            [p0 |-> 4, p1 |-> 1, err |-> FALSE], [p0 |-> 0, p1 |-> 0, err |-> TRUE]}

Step(a, c, d) == [a |-> a, p0 |-> c.p0, p1 |-> c.p1, err |-> c.err, d |-> d,
                  now |-> now', glen |-> Len(ghost'), w |-> W', ever |-> ever', taint |-> taint']
Log(a, c, d) == hist' = Append(hist, Step(a, c, d))
NoC == [p0 |-> 0, p1 |-> 0, err |-> FALSE]

MCInit == Init /\ hist = <<>> /\ nep = 0 /\ nt = 0

MCCreate == \E c \in Choices : CreatePool(c.p0, c.p1, c.err) /\ Log("create", c, 0) /\ UNCHANGED <<nep, nt>>
MCTrade  == \E c \in Choices : /\ nt = 0 /\ c # cur
                               /\ Trade(c.p0, c.p1, c.err) /\ Log("trade", c, 0) /\ nt' = 1 /\ UNCHANGED nep
MCEpoch  == /\ nep < MaxEpochs /\ nt = 0 /\ ~(prune.on /\ prune.keep = now - KeepPeriod)
            /\ EpochEnd /\ Log("epoch", NoC, 0) /\ nep' = nep + 1 /\ UNCHANGED nt
MCEnd    == EndBlock /\ Log("end", NoC, 0) /\ UNCHANGED <<nep, nt>>
MCTick   == \E d \in Ticks : now + d <= MaxT /\ Tick(d) /\ Log("tick", NoC, d) /\ nt' = 0 /\ UNCHANGED nep

MCNext == MCCreate \/ MCTrade \/ MCEpoch \/ MCEnd \/ MCTick
MCSpec == MCInit /\ [][MCNext]_<<vars, hist, nep, nt>>

View == <<vars, nep, nt>>

---------------------------------------------------------------------------
(* behaviour generator *)

RecJ(r) == [t |-> r.t, p0 |-> r.p0, p1 |-> r.p1, a0 |-> r.a0, a1 |-> r.a1, g |-> r.g, le |-> r.le]

\* records that must still be stored: inside the window, plus the newest older one
Must(ev, w) ==
    LET old == {r \in ev : r.t < w} IN
    {r \in ev : r.t >= w} \cup (IF old = {} THEN {} ELSE {CHOOSE r \in old : \A q \in old : q.t <= r.t})

RECURSIVE SetToSeq(_)
SetToSeq(S) == IF S = {} THEN <<>>
               ELSE LET x == CHOOSE x \in S : \A y \in S : x.t <= y.t IN <<x>> \o SetToSeq(S \ {x})

Expect(g, nw, w, tn, s, e) ==
    IF s < Born(g) THEN [s |-> s, e |-> e, c |-> "old", a0 |-> 0, a1 |-> 0, g |-> 0]
    ELSE IF s < w THEN [s |-> s, e |-> e, c |-> "free", a0 |-> 0, a1 |-> 0, g |-> 0]
    ELSE [s |-> s, e |-> e, c |-> IF ErrTouches(g, s, e) THEN "flag" ELSE IF Tainted(tn, s) THEN "free" ELSE "ok",
          a0 |-> IF s = e THEN g[IdxAt(g, s)].p0 ELSE Sum0(g, s, e),
          a1 |-> IF s = e THEN g[IdxAt(g, s)].p1 ELSE Sum1(g, s, e),
          g  |-> IF s = e THEN 0 ELSE SumG(g, s, e)]

RECURSIVE Cat(_, _)
Cat(s, n) == IF s > n THEN <<>> ELSE [i \in 1..(n - s + 1) |-> <<s, s + i - 1>>] \o Cat(s + 1, n)
PairsUpTo(n) == Cat(0, n)

StepJ(h) ==
    LET g == SubSeq(ghost, 1, h.glen)
        pairs == IF h.glen = 0 \/ h.a \notin {"end", "tick"} THEN <<>> ELSE PairsUpTo(h.now)
    IN [a |-> h.a, p0 |-> h.p0, p1 |-> h.p1, err |-> h.err, d |-> h.d, now |-> h.now,
        must |-> [i \in 1..Cardinality(Must(h.ever, h.w)) |-> RecJ(SetToSeq(Must(h.ever, h.w))[i])],
        may  |-> [i \in 1..Cardinality(h.ever) |-> RecJ(SetToSeq(h.ever)[i])],
        ans  |-> [i \in 1..Len(pairs) |-> Expect(g, h.now, h.w, h.taint, pairs[i][1], pairs[i][2])]]

Terminal == phase = "closed" /\ now = MaxT
Emit == Terminal => PrintT(<<"GEN", ToJson([keep |-> KeepPeriod, limit |-> PruneLimit,
                                             steps |-> [i \in 1..Len(hist) |-> StepJ(hist[i])]])>>)
=============================================================================
