------------------------------ MODULE MCRouter ------------------------------
(* Bounded model of Router: three integer constant-product pools               *)
(*   1: {a, b}   2: {b, c}   3: {a, b, c}                                       *)
(* over three denoms, every route shape of up to MaxHops hops (pools may be     *)
(* revisited), exact-in / exact-out / two-leg split routes, limits at           *)
(* result-1, result, result+1, taker fees in tenths, whitelist.                 *)
(* Checked: limits, atomicity, estimates (pure; exact on routes that visit      *)
(* every pool at most once), conservation of funds, and the composition laws    *)
(*   - a route is the composition of its prefix and its suffix,                  *)
(*   - exact-out (backward pre-computation + forward execution) equals chaining  *)
(*     single-pool exact-out swaps from the last hop backwards and leaves no     *)
(*     intermediate amounts with the sender, when no pool is visited twice,      *)
(*   - a split route is the sum of its legs executed one after another.          *)
(* The same model generates the behaviours replayed on the real router          *)
(* (hist / Emit).                                                               *)
EXTENDS Router, TLC, Json

CONSTANTS MaxHops, Amts, Fees, MaxSteps, GenMode, Profiles

IAdd(a, b) == a + b
ISub(a, b) == a - b
IMul(a, b) == a * b
ILe(a, b)  == a <= b
IFloorDiv(a, b) == a \div b
ICeilDiv(a, b)  == (a + b - 1) \div b

Denoms == {"a", "b", "c"}
PoolDenoms == [p \in 1..3 |-> IF p = 1 THEN {"a", "b"} ELSE IF p = 2 THEN {"b", "c"} ELSE {"a", "b", "c"}]
Users == {1, 2}

\* integer constant product x * y = k, rounded in the pool's favour
ToyFail(pst) == [ok |-> FALSE, y |-> 0, used |-> 0, got |-> 0, st |-> pst, miss |-> FALSE, o |-> 0]
ToyIn(pst, din, dout, x) ==
    IF x < 1 \/ din = dout \/ din \notin DOMAIN pst.r \/ dout \notin DOMAIN pst.r THEN ToyFail(pst)
    ELSE LET y == (pst.r[dout] * x) \div (pst.r[din] + x)
         IN  [ok |-> TRUE, y |-> y, used |-> x, st |-> [r |-> [pst.r EXCEPT ![din] = @ + x, ![dout] = @ - y]], miss |-> FALSE, o |-> 0]
ToyOut(pst, din, dout, y) ==
    IF y < 1 \/ din = dout \/ din \notin DOMAIN pst.r \/ dout \notin DOMAIN pst.r THEN ToyFail(pst)
    ELSE IF y >= pst.r[dout] THEN ToyFail(pst)
    ELSE LET x == (pst.r[din] * y + (pst.r[dout] - y) - 1) \div (pst.r[dout] - y)
         IN  [ok |-> TRUE, y |-> x, got |-> y, st |-> [r |-> [pst.r EXCEPT ![din] = @ + x, ![dout] = @ - y]], miss |-> FALSE, o |-> 0]

VARIABLES hist,   \* behaviour so far: Seq of [kind, legs, off, ok]  (replay generator)
          aux,    \* ghost of the last swap: composition-law witnesses
          steps,
          tot0    \* ghost: total amount of every denom at the start

mcvars == <<vars, hist, aux, steps, tot0>>

Hop(p, din, dout) == [pool |-> p, din |-> din, dout |-> dout]
HopsFrom(d) == { Hop(p, d, e) : p \in {q \in 1..3 : d \in PoolDenoms[q]}, e \in Denoms }
ValidHop(h) == h.din # h.dout /\ h.din \in PoolDenoms[h.pool] /\ h.dout \in PoolDenoms[h.pool]
AllHops == { h \in UNION {HopsFrom(d) : d \in Denoms} : ValidHop(h) }
RECURSIVE RoutesOfLen(_)
RoutesOfLen(n) == IF n = 1 THEN { <<h>> : h \in AllHops }
                  ELSE { Append(r, h) : r \in RoutesOfLen(n - 1), h \in AllHops }
Linked(r) == \A i \in 1..(Len(r) - 1) : r[i].dout = r[i + 1].din
Routes == UNION { { r \in RoutesOfLen(n) : Linked(r) } : n \in 1..MaxHops }
ShortRoutes == { r \in Routes : Len(r) <= 2 }

Leg(r, a) == [route |-> r, amt |-> a]
SingleLegs == { <<Leg(r, a)>> : r \in Routes, a \in Amts }
\* two different legs between the same denoms (duplicates are refused by the message validation)
SplitLegs == { <<Leg(r1, a1), Leg(r2, a2)>> : r1 \in ShortRoutes, r2 \in ShortRoutes, a1 \in Amts, a2 \in Amts }
SplitOK(ls) == /\ ls[1].route # ls[2].route
               /\ ls[1].route[1].din = ls[2].route[1].din
               /\ ls[1].route[Len(ls[1].route)].dout = ls[2].route[Len(ls[2].route)].dout
LegsOf(kind) == IF kind \in {"swapIn", "swapOut"} THEN SingleLegs ELSE { ls \in SplitLegs : SplitOK(ls) }

\* initial reserves: 1 balanced, 2 skewed prices, 3 one shallow pool
Reserves0(k) == [p \in 1..3 |-> [r |-> [d \in PoolDenoms[p] |->
                   IF k = 1 THEN (IF p = 2 /\ d = "c" THEN 30 ELSE 20 + 4 * p)
                   ELSE IF k = 2 THEN (IF d = "a" THEN 12 ELSE IF d = "b" THEN 25 + p ELSE 40)
                   ELSE (IF p = 1 THEN 6 ELSE 35 - p)]]]
NoOver == [p \in {} |-> 0]

PoolSum(ps, d) == LET RECURSIVE PS(_) PS(p) == IF p > 3 THEN 0 ELSE (IF d \in PoolDenoms[p] THEN ps[p].r[d] ELSE 0) + PS(p + 1)
                  IN  PS(1)

\* ov: the ordered pair (a, b) carries its own taker fee (the other member of Fees), b -> a does not
OtherFee(f) == IF \E g \in Fees : g # f THEN CHOOSE g \in Fees : g # f ELSE f
MCInit == \E f \in Fees, w \in {{}, {1}}, k \in Profiles, ov \in BOOLEAN :
    /\ pools = Reserves0(k)
    /\ tot0 = [d \in Denoms |-> 200 + PoolSum(Reserves0(k), d)]
    /\ bal = [u \in Users |-> [d \in Denoms |-> 100]]
    /\ coll = [d \in Denoms |-> 0]
    /\ cfg = [def |-> f, over |-> IF ov /\ OtherFee(f) # f THEN [p \in {<<"a", "b">>} |-> OtherFee(f)] ELSE NoOver, wl |-> w]
    /\ (ov => OtherFee(f) # f)
    /\ last = [kind |-> "init", ok |-> TRUE, amt |-> 0, lim |-> 0]
    /\ hist = <<[kind |-> "init", fee |-> f, free |-> 1 \in w, ovab |-> IF ov THEN OtherFee(f) ELSE -1]>>
    /\ aux = [none |-> TRUE]
    /\ steps = 0

---------------------------------------------------------------------------
(* composition-law witnesses, computed on the state before the swap *)
\* exact-out by chaining single-pool exact-out swaps from the last hop backwards, each one
\* executed (state threaded backwards)
RECURSIVE BackChain(_, _, _, _, _, _)
BackChain(ps, route, i, want, c, free) ==
    IF i = 0 THEN [ok |-> TRUE, amt |-> want]
    ELSE LET r == RunOut(ps, <<route[i]>>, want, c, free, free)
         IN  IF ~r.ok THEN [ok |-> FALSE, amt |-> 0] ELSE BackChain(r.ps, route, i - 1, r.amt, c, free)

\* a route = its suffix after its prefix
PrefixLaw(ps, route, a, c, free) ==
    LET whole == RunIn(ps, route, a, c, free, FALSE)
    IN  \A k \in 1..(Len(route) - 1) :
          LET pre == RunIn(ps, SubSeq(route, 1, k), a, c, free, FALSE)
              suf == RunIn(pre.ps, SubSeq(route, k + 1, Len(route)), pre.amt, c, free, FALSE)
          IN  IF pre.ok THEN whole.ok = suf.ok /\ (whole.ok => (whole.amt = suf.amt /\ whole.ps = suf.ps))
              ELSE ~whole.ok

\* intermediate denoms: everything a hop delivers is consumed by the next one
NoDust(hops) == \A i \in 1..(Len(hops) - 1) : hops[i].gout = hops[i + 1].gin

Witness(kind, u, legs) ==
    LET free == u \in cfg.wl
        r    == Compose(kind, pools, legs, cfg, free, free)
        one  == legs[1]
    IN  [none |-> FALSE, kind |-> kind, distinct |-> Distinct(legs), ok |-> r.ok, amt |-> r.amt,
         prefix |-> IF kind = "swapIn" THEN PrefixLaw(pools, one.route, one.amt, cfg, free) ELSE TRUE,
         back |-> IF kind = "swapOut" THEN BackChain(pools, one.route, Len(one.route), one.amt, cfg, free) ELSE [ok |-> r.ok, amt |-> r.amt],
         dust |-> IF kind \in {"swapIn", "swapOut"} /\ r.ok THEN NoDust(r.hops) ELSE TRUE,
         sum |-> IF kind \in {"splitIn", "splitOut"} /\ r.ok
                 THEN LET l1 == Compose(kind, pools, <<legs[1]>>, cfg, free, free)
                          l2 == Compose(kind, l1.ps, <<legs[2]>>, cfg, free, free)
                      IN  l1.ok /\ l2.ok /\ r.amt = l1.amt + l2.amt /\ r.ps = l2.ps
                 ELSE TRUE]

MCSwap == \E kind \in SwapKinds, u \in (IF GenMode THEN {1} ELSE Users), off \in {-1, 0, 1} : \E legs \in LegsOf(kind) :
    LET free == u \in cfg.wl
        r    == Compose(kind, pools, legs, cfg, free, free)
        lim  == IF r.ok THEN r.amt + off ELSE 1
    IN  /\ steps < MaxSteps
        /\ lim >= 1
        /\ (GenMode => r.ok)
        /\ (~r.ok => off = 0)
        \* only plain successful swaps of user 1 serve as prior activity of a longer behaviour
        /\ (steps < MaxSteps - 1 => (r.ok /\ off = 0 /\ u = 1 /\ kind \in {"swapIn", "swapOut"}))
        /\ Swap(kind, u, legs, lim)
        /\ aux' = Witness(kind, u, legs)
        /\ hist' = Append(hist, [kind |-> kind, legs |-> legs, off |-> off, ok |-> r.ok /\ Accept(kind, r.amt, lim)])
        /\ steps' = steps + 1
        /\ UNCHANGED tot0

MCEst == \E kind \in EstKinds, u \in Users, r \in Routes, a \in Amts :
    /\ ~GenMode
    /\ steps < MaxSteps
    /\ steps = MaxSteps - 1
    /\ Estimate(kind, u, r, a)
    /\ aux' = [none |-> TRUE]
    /\ UNCHANGED <<hist, tot0>>
    /\ steps' = steps + 1

MCConfig ==
    /\ ~GenMode
    /\ steps < MaxSteps - 1
    /\ \/ \E f \in Fees : SetDefaultFee(f)
       \/ \E f \in Fees : SetPairFee("a", "b", f)
       \/ \E s \in SUBSET Users : SetWhitelist(s)
    /\ aux' = [none |-> TRUE]
    /\ UNCHANGED <<hist, tot0>>
    /\ steps' = steps + 1

MCNext == MCSwap \/ MCEst \/ MCConfig
MCSpec == MCInit /\ [][MCNext]_mcvars

View == <<vars, steps>>

---------------------------------------------------------------------------
(* invariants of the bounded model *)
\* every unit is with a trader, in a pool or with the fee collector
Total(d) == bal[1][d] + bal[2][d] + coll[d] + PoolSum(pools, d)
Conservation == \A d \in Denoms : Total(d) = tot0[d]

CompositionLaws == ~aux.none =>
    /\ aux.prefix
    /\ aux.sum
    /\ (aux.distinct => aux.dust)
    /\ (aux.distinct /\ aux.kind = "swapOut") => (aux.back.ok = aux.ok /\ (aux.ok => aux.back.amt = aux.amt))

\* the carve-out of the property is not vacuous: some route that revisits a pool is estimated
\* differently from what it executes (checked as "this never happens" being FALSE is not possible
\* with an invariant; the check module requires TLC to find a violation of NoRevisitDifference)
NoRevisitDifference == (last.kind \in EstKinds /\ ~Distinct(last.legs) /\ ~last.free) =>
                          (last.ok = last.execOk /\ (last.ok => last.amt = last.execAmt))

\* replay generator: one behaviour per distinct state reached by a swap
Emit == (GenMode /\ Len(hist) > 1 /\ steps = MaxSteps) => PrintT(<<"GEN", ToJson([fee |-> hist[1].fee, free |-> hist[1].free, ovab |-> hist[1].ovab, steps |-> Tail(hist)])>>)
=============================================================================
