--------------------------- MODULE MCSmartAccount ---------------------------
(* Bounded model of SmartAccount (X05).  Two uses of the same module:          *)
(*  "life": registry / circuit breaker / transaction lifecycle over a small set *)
(*          of trees (well formed and malformed), every operation of the        *)
(*          alphabet in every reachable state, MaxOps operations deep;          *)
(*  "sem":  tree semantics: the history starts with one authenticator out of    *)
(*          SemTrees (every shape up to SemLeaves leaves, every verdict         *)
(*          assignment of its leaves) and runs one transaction through it.      *)
(* With HistOn every distinct (state, last operation) contributes the shortest  *)
(* history reaching it, printed as JSON and replayed on the real code.          *)
EXTENDS SmartAccount, TLC, Json

CONSTANTS Accts, Ctrl,
          Mode,        \* "life" | "sem"
          MaxOps,      \* operations per history
          AddSet,      \* indices into LifeTrees offered to AddAuthenticator
          TxAddSet,    \* indices into LifeTrees offered to add messages inside transactions
          TwoMsg,      \* two-message transactions on
          Variants,    \* extension / stale-signature variants on
          SemLeaves,   \* 1..3: largest shapes in SemTrees
          SemTrack,    \* vary the Track verdict in SemTrees
          HistOn

B == BOOLEAN
Nd(k, n, va, vt, vc, oa, orm, ch) == [k |-> k, n |-> n, va |-> va, vt |-> vt, vc |-> vc, oa |-> oa, orm |-> orm, ch |-> ch, impl |-> ""]
L(n, va, vt, vc) == Nd("leaf", n, va, vt, vc, TRUE, TRUE, <<>>)
AllOf(ch) == Nd("all", "", TRUE, TRUE, TRUE, TRUE, TRUE, ch)
AnyOf(ch) == Nd("any", "", TRUE, TRUE, TRUE, TRUE, TRUE, ch)
Bad == Nd("bad", "", TRUE, TRUE, TRUE, TRUE, TRUE, <<>>)
Nil == Nd("nil", "", TRUE, TRUE, TRUE, TRUE, TRUE, <<>>)

MCNames == {"p1", "p2", "p3"}

LifeTrees == <<
    L("p1", TRUE, TRUE, TRUE),                                              \* 1 accepts everything
    AnyOf(<<L("p1", FALSE, TRUE, TRUE), L("p2", TRUE, TRUE, FALSE)>>),        \* 2 authenticates by the 2nd, confirms by the 1st
    AllOf(<<L("p1", TRUE, TRUE, TRUE), L("p2", TRUE, TRUE, FALSE)>>),         \* 3 confirmation rejected
    AllOf(<<L("p1", TRUE, TRUE, TRUE), L("p2", TRUE, FALSE, TRUE)>>),         \* 4 Track fails
    L("p2", FALSE, TRUE, TRUE),                                             \* 5 never authenticates
    Nd("leaf", "p3", TRUE, TRUE, TRUE, TRUE, FALSE, <<>>),                  \* 6 vetoes its removal
    AllOf(<<L("p1", TRUE, TRUE, TRUE)>>),                                     \* 7 malformed: one child
    AnyOf(<<L("p1", TRUE, TRUE, TRUE), Bad>>),                                \* 8 malformed: unknown type / garbage below
    AllOf(<<L("p1", TRUE, TRUE, TRUE), Nd("leaf", "p2", TRUE, TRUE, TRUE, FALSE, TRUE, <<>>)>>),  \* 9 a leaf refuses its config
    AnyOf(<<AllOf(<<L("p1", TRUE, TRUE, FALSE), L("p2", TRUE, TRUE, TRUE)>>), L("p3", TRUE, TRUE, TRUE)>>)  \* 10 nested
>>

\* --- SemTrees: shapes with named leaf positions, every verdict assignment
VT == IF SemTrack THEN B ELSE {TRUE}
Leafs(n) == {L(n, a, t, c) : a \in B, t \in VT, c \in B}
Ops == {"all", "any"}
C(o, ch) == Nd(o, "", TRUE, TRUE, TRUE, TRUE, TRUE, ch)
Sem1 == Leafs("p1")
Sem2 == {C(o, <<x, y>>) : o \in Ops, x \in Leafs("p1"), y \in Leafs("p2")}
Sem3 == {C(o, <<x, y, z>>) : o \in Ops, x \in Leafs("p1"), y \in Leafs("p2"), z \in Leafs("p3")}
        \cup {C(o, <<C(q, <<x, y>>), z>>) : o \in Ops, q \in Ops, x \in Leafs("p1"), y \in Leafs("p2"), z \in Leafs("p3")}
        \cup {C(o, <<x, C(q, <<y, z>>)>>) : o \in Ops, q \in Ops, x \in Leafs("p1"), y \in Leafs("p2"), z \in Leafs("p3")}
SemTrees == Sem1 \cup (IF SemLeaves >= 2 THEN Sem2 ELSE {}) \cup (IF SemLeaves >= 3 THEN Sem3 ELSE {})

VARIABLES hist,    \* Seq of completed operations, in the wire format of the recorded traces
          nops     \* operations begun

MCConf == [accts |-> Accts, names |-> MCNames, ctrl |-> Ctrl]
StP == [active |-> active', reg |-> reg', ls |-> ls', seq |-> seq', sent |-> sent', fee |-> fee']
StNow == [active |-> active, reg |-> reg, ls |-> ls, seq |-> seq, sent |-> sent, fee |-> fee]
Rec(r) == IF HistOn THEN Append(hist, r) ELSE hist

MCInit ==
    IF Mode = "life" THEN InitWith(MCConf) /\ hist = <<>> /\ nops = 0
    ELSE \E t \in SemTrees :
        /\ conf = MCConf /\ active = TRUE /\ used = {1}
        /\ reg = [a \in Accts |-> IF a = "A1" THEN {[id |-> 1, t |-> t]} ELSE {}]
        /\ ls = Apply([n \in MCNames |-> Leaf0], "added", Leaves(t, <<1>>))
        /\ seq = [a \in Accts |-> 0] /\ sent = [a \in Accts |-> 0] /\ fee = [a \in Accts |-> 0]
        /\ fl = Idle /\ op = [k |-> "add", by |-> {"A1"}] /\ nops = 1
        /\ hist = << [e |-> "add", a |-> "A1", t |-> t, ok |-> TRUE, id |-> 1,
                      calls |-> Calls("added", Leaves(t, <<1>>)),
                      st |-> [active |-> TRUE, reg |-> reg, ls |-> ls, seq |-> seq, sent |-> sent, fee |-> fee]] >>

Room == fl.ph = "idle" /\ nops < MaxOps /\ nops' = nops + 1
Life == Mode = "life"

MCAdd == /\ Room /\ Life
         /\ \E a \in Accts, k \in AddSet :
              LET t == LifeTrees[k]  ok == CanAdd(St, t)  id == MaxOf(used) + 1 IN
              /\ AddAuthenticator(a, t, id, ok)
              /\ hist' = Rec([e |-> "add", a |-> a, t |-> t, ok |-> ok, id |-> IF ok THEN id ELSE 0,
                              calls |-> IF ok THEN Calls("added", Leaves(t, <<id>>)) ELSE <<>>, st |-> StP])

MCRm == /\ Room /\ Life
        /\ \E a \in Accts, id \in used \cup {MaxOf(used) + 1} :
              LET ok == CanRm(St, a, id) IN
              /\ RemoveAuthenticator(a, id, ok)
              /\ hist' = Rec([e |-> "rm", a |-> a, id |-> id, ok |-> ok,
                              calls |-> IF ok THEN Calls("removed", Leaves(EntryOf(St, a, id).t, <<id>>)) ELSE <<>>, st |-> StP])

MCAct == /\ Room /\ Life
         /\ \E by \in Accts \cup {Gov}, on \in B :
              LET ok == IF on THEN by = Gov ELSE by \in conf.ctrl IN
              /\ SetActiveState(by, on, ok)
              /\ hist' = Rec([e |-> "act", by |-> by, on |-> on, ok |-> ok, st |-> StP])

MCReimport == /\ Room /\ Life /\ op.k \notin {"reimport", "block", "query"}
              /\ Reimport
              /\ hist' = Rec([e |-> "reimport", st |-> StP])

\* queries are pure: asking them right after a state-changing operation loses nothing
MCQuery == /\ Room /\ Life /\ op.k \notin {"reimport", "block", "query"}
           /\ Query
           /\ hist' = Rec([e |-> "q", qs |-> [a \in Accts |-> [i \in 1..(MaxOf(used) + 1) |-> QueryAnswer(a, i).found]], st |-> StP])

\* --- transactions
Msg(k, t, id) == [k |-> k, t |-> t, id |-> id]
SelIds == used \cup {MaxOf(used) + 3}          \* own, foreign, removed and never handed out
Kinds == {Msg("send", Nil, 0), Msg("bad", Nil, 0)}
         \cup {Msg("add", LifeTrees[k], 0) : k \in TxAddSet}
         \cup {Msg("rm", Nil, i) : i \in used}
M(a, s, m) == [a |-> a, sel |-> s, m |-> m]
NAdds(ms) == Cardinality({i \in 1..Len(ms) : ms[i].m.k = "add"})
Tx(ms, e, s) == [msgs |-> ms, ext |-> e, stale |-> s, fee |-> 1, ids |-> [k \in 1..NAdds(ms) |-> MaxOf(used) + k]]
Sends == {<<M(a, s, Msg("send", Nil, 0))>> : a \in Accts, s \in SelIds}
LifeTxs ==
    {Tx(<<M(a, s, m)>>, "ok", "") : a \in Accts, s \in SelIds, m \in Kinds}
    \cup (IF TwoMsg THEN {Tx(<<M(a, s, Msg("send", Nil, 0)), M(b, r, m)>>, "ok", "") :
                             a \in Accts, s \in SelIds, b \in Accts, r \in SelIds, m \in {Msg("send", Nil, 0), Msg("bad", Nil, 0)}}
          ELSE {})
    \cup (IF Variants THEN {Tx(ms, e, "") : ms \in Sends, e \in {"none", "long"}}
                           \cup {Tx(ms, e, ms[1].a) : ms \in Sends, e \in {"ok", "none"}}
          ELSE {})
SemTxs == {Tx(<<M("A1", 1, m)>>, "ok", "") : m \in {Msg("send", Nil, 0), Msg("bad", Nil, 0)}}

MCTxBegin == /\ Room
             /\ \E tx \in (IF Life THEN LifeTxs ELSE SemTxs) : TxBegin(tx)
             /\ UNCHANGED hist
MCTxAnte == TxAnte /\ UNCHANGED <<hist, nops>>
MCTxExec == TxExec /\ UNCHANGED <<hist, nops>>
MCTxPost == TxPost /\ UNCHANGED <<hist, nops>>
MCTxEnd == /\ TxEnd /\ UNCHANGED nops
           /\ hist' = Rec([e |-> "tx", msgs |-> fl.tx.msgs, ext |-> fl.tx.ext, stale |-> fl.tx.stale, fee |-> fl.tx.fee,
                           ids |-> IF fl.ok THEN fl.tx.ids ELSE <<>>, ok |-> fl.ok, calls |-> fl.calls, st |-> StNow])

MCNext == MCAdd \/ MCRm \/ MCAct \/ MCReimport \/ MCQuery \/ MCTxBegin \/ MCTxAnte \/ MCTxExec \/ MCTxPost \/ MCTxEnd
MCSpec == MCInit /\ [][MCNext]_<<vars, hist, nops>>

\* every distinct (state, last operation) is a state of the search
View == <<vars, nops, IF hist = <<>> THEN <<>> ELSE hist[Len(hist)]>>

Emit == (HistOn /\ fl.ph = "idle" /\ hist # <<>>) =>
            PrintT(<<"GEN", ToJson([accts |-> Accts, ctrl |-> Ctrl, names |-> MCNames, steps |-> hist])>>)
=============================================================================
