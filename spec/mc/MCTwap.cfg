SPECIFICATION MCSpec
CONSTANTS
  NZero = 0
  NAdd <- IAdd
  NSub <- ISub
  NMulT <- IMulT
  NLe <- ILe
  NLog <- ILog
  NoLog = NoLog
  KeepPeriod = 2
  PruneLimit = 1
  MaxT = 4
  Ticks = {1, 2, 3}
  MaxEpochs = 2
VIEW View
INVARIANTS AnswersMatchGhost RecordsArePrefixSums PruneKeeps BetweenMinMax
CHECK_DEADLOCK FALSE
