SPECIFICATION MCSpec
CONSTANTS
  CConf <- CfgB
  Deltas = {0, 1, 3, 7}
  MaxT = 8
  Writes = {1}
  MaxH = 6
VIEW View
INVARIANTS Emit
CHECK_DEADLOCK FALSE
