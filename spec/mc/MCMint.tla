------------------------------- MODULE MCMint -------------------------------
(* Bounded model of Mint for exhaustive checking (native integers, scale 10^2, *)
(* proportions and weights in tenths, two weight entries one of which has the  *)
(* empty address) and for behaviour generation: every complete behaviour whose *)
(* reductions are all exact at scale 10^2 is printed as JSON and replayed on    *)
(* the real keeper (exact behaviours are scale independent).                   *)
EXTENDS Mint, TLC, Json

CONSTANTS Provs,      \* initial provisions (raw, scale 100)
          Starts, Periods, Factors, Tenths, Pis,
          PropStep,   \* proportions are multiples of PropStep tenths
          MaxEpoch, Vest0

IAdd(a, b) == a + b
ISub(a, b) == a - b
IMul(a, b) == a * b
ILe(a, b)  == a <= b
S == 100

VARIABLE hist   \* Seq of [n, kind, prov, lastRed, bal, rcv, supply, offset, dust, dev]; hist[1] is the initial state

Props4 == { q \in (0..10) \X (0..10) \X (0..10) \X (0..10) :
              q[1] + q[2] + q[3] + q[4] = 10 /\ \A i \in 1..4 : q[i] % PropStep = 0 }

Confs == { [id |-> 0, start |-> s, period |-> p, factor |-> f,
            ps |-> q[1] * 10, pp |-> q[2] * 10, pd |-> q[3] * 10, pc |-> q[4] * 10,
            recv |-> << [w |-> a * 10, to |-> 1], [w |-> (10 - a) * 10, to |-> 0] >>,
            nrcv |-> 1, pi |-> x] :
           s \in Starts, p \in Periods, f \in Factors, q \in Props4, a \in Tenths, x \in Pis }

Bal0 == [mint |-> 0, fee |-> 0, pool |-> 0, inc |-> 0, comm |-> 0, vest |-> Vest0]

Entry(n, kind, dust, dev) == [n |-> n, kind |-> kind, prov |-> prov', lastRed |-> lastRed', bal |-> bal', rcv |-> rcv',
                              supply |-> supply', offset |-> offset', dust |-> dust, dev |-> dev]

MCInit == \E c \in Confs, p \in Provs :
    /\ InitWith(c, 0, p, 0, Bal0, <<0>>, 0, -Vest0)
    /\ hist = << [n |-> 0, kind |-> "init", prov |-> p, lastRed |-> 0, bal |-> Bal0, rcv |-> <<0>>,
                  supply |-> 0, offset |-> -Vest0, dust |-> 0, dev |-> 0] >>

\* the provision in force: unchanged, or the product rounded either way when a reduction is due
Cands(n) == IF Due(n)
            THEN LET pf == prov * conf.factor
                 IN  {pf \div S} \cup (IF pf % S = 0 THEN {} ELSE {pf \div S + 1})
            ELSE {prov}

\* the implementation-side values, computed (the specification re-verifies them relationally)
OutOf(np) ==
    LET minted == np \div S
        st  == (minted * conf.ps) \div S
        pl  == (minted * conf.pp) \div S
        dev == (minted * conf.pd) \div S
        p   == bal.pool + pl
    IN  [np |-> np, minted |-> minted, st |-> st, pl |-> pl, dev |-> dev,
         pay |-> [j \in 1..Len(conf.recv) |-> (dev * conf.recv[j].w) \div S],
         x |-> IF conf.pi = "none" THEN p ELSE 0,
         y |-> IF conf.pi = "none" THEN 0 ELSE p,      \* a single gauge record: everything goes to it
         kept |-> 0]                                   \* the property: no rounding remainder is withheld

MCSkip == /\ epoch < MaxEpoch
          /\ Skip(epoch + 1)
          /\ hist' = Append(hist, Entry(epoch + 1, "skip", 0, 0))

MCEnd == /\ epoch < MaxEpoch
         /\ \E np \in Cands(epoch + 1) : LET o == OutOf(np) IN
              \/ EpochEnd(epoch + 1, o) /\ hist' = Append(hist, Entry(epoch + 1, "end", DevDust(o), o.dev))
              \/ EpochFail(epoch + 1, o) /\ hist' = Append(hist, Entry(epoch + 1, "fail", 0, o.dev))

MCNext == MCSkip \/ MCEnd
MCSpec == MCInit /\ [][MCNext]_<<vars, hist>>

View == vars

\* in the bounded model every history sees the start epoch (or starts at 0 with the genesis anchor)
ScheduleFromStart == gh.fails = 0 => \A k \in 1..Len(gh.reds) : gh.reds[k] = conf.start + k * conf.period

Emit == (epoch = MaxEpoch /\ gh.exact) => PrintT(<<"GEN", ToJson([conf |-> conf, steps |-> hist])>>)
=============================================================================
