----------------------------- MODULE MCMathFns -----------------------------
(* Design-level check of MathFns (C13).                                       *)
(*                                                                            *)
(* 1. ASSUMEs (evaluated by TLC before the search):                           *)
(*    - Exp2Cert!TableOK / ConstOK: the certified table and constants;        *)
(*    - EnclosureSanity: the enclosures at exact points (2^k, 2^(1/2),        *)
(*      2^(1/3)): exact where the value is dyadic, bracketing and tight       *)
(*      (< 1e-47) otherwise, and discriminating at 1e-40;                     *)
(*    - RealScaleTests: the contracts of MathFns at the REAL scales (10^36,   *)
(*      10^18) on reference values computed independently (python decimal,    *)
(*      100 digits): the correct value is accepted, a value just beyond the   *)
(*      stated tolerance is rejected, domain violations must fail.            *)
(* 2. A bounded exhaustive model at a tiny scale (Dec: 2 decimals, BigDec: 4) *)
(*    with answers computed by NATIVE integer models of the documented        *)
(*    algorithms (least root by search, half-even significant-figure          *)
(*    rounding, bisection with the error-tolerance comparison):               *)
(*    - every sqrt input -2 .. XMax after every other one of its family:      *)
(*      Contract, SqrtMonotone; Discriminates: r-1, r+1, a refusal in the     *)
(*      domain and an answer outside it are all rejected;                     *)
(*    - every SigFigRound(d, 10^s), d <= DMax, s <= 3: the model answer is     *)
(*      accepted and, among the multiples of the unit, exactly the nearest    *)
(*      one(s) are;                                                           *)
(*    - bisection over c0 + c1 x + c2 x^2 for every target / tolerance /      *)
(*      direction / cap of a small grid: whatever the documented algorithm    *)
(*      returns satisfies the search contract; flipping the side of an        *)
(*      answer that is not exact is rejected;                                 *)
(*    - the comparison itself on a grid of (expected, actual) pairs.          *)
(* Events are independent calls: there is no behaviour generator / replay leg *)
(* (nothing to replay: the recorded calls ARE the behaviours).                *)
EXTENDS MathFns, TLC, FiniteSets

CONSTANTS XMax,     \* sqrt inputs -2 .. XMax (raw)
          DMax,     \* SigFigRound inputs 0 .. DMax (raw)
          TMax      \* search targets 0 .. TMax

---------------------------------------------------------------------------
(* numbers written as big-endian groups of four decimal digits *)
RECURSIVE Rev(_)
Rev(s) == IF s = <<>> THEN <<>> ELSE Rev(Tail(s)) \o <<Head(s)>>
BE(s)  == [s |-> 1, m |-> Rev(s)]
Ev(f, xs, ns, ok, r, ws) == [f |-> f, x |-> xs, n |-> ns, ok |-> ok, r |-> r, w |-> ws]

EnclosureSanity ==
    /\ \A k \in -12..12 :
          LET a == IF k >= 0 THEN B!Pow(BTwo, k) ELSE B!One
              b == IF k >= 0 THEN B!One ELSE B!Pow(BTwo, -k)
          IN  /\ PowLoLe(I(k), B!One, a, b) /\ PowHiGe(I(k), B!One, a, b)
              /\ PowHiLe(I(k), B!One, a, b) /\ PowLoGe(I(k), B!One, a, b)        \* exact at 2^k
              /\ ~PowLoLe(I(k), B!One, B!Sub(B!Mul(a, P10(40)), b), B!Mul(b, P10(40)))   \* 2^k > 2^k - 1e-40
              /\ ~PowHiGe(I(k), B!One, B!Add(B!Mul(a, P10(40)), b), B!Mul(b, P10(40)))
    /\ LET s == Enc(B!One, BTwo)
           lo == s.lo  hi == s.hi
       IN  /\ B!Le(B!Mul(lo, lo), B!Mul(TwoSD, SD)) /\ B!Ge(B!Mul(hi, hi), B!Mul(TwoSD, SD))   \* lo^2 <= 2 <= hi^2
           /\ B!Le(B!Sub(hi, lo), P10(D - 47))
    /\ LET s == Enc(B!One, I(3))
           lo == s.lo  hi == s.hi
       IN  /\ B!Le(B!Pow(lo, 3), B!Mul(TwoSD, B!Pow(SD, 2))) /\ B!Ge(B!Pow(hi, 3), B!Mul(TwoSD, B!Pow(SD, 2)))
           /\ B!Le(B!Sub(hi, lo), P10(D - 47))
    \* sqrt 2 to 40 digits: 1.4142135623730950488016887242096980785696...
    /\ LET r == BE(<<1, 4142, 1356, 2373, 950, 4880, 1688, 7242, 969, 8078, 5696>>)
       IN  /\ PowLoLe(B!One, BTwo, B!Add(r, B!One), P10(40)) /\ PowHiGe(B!One, BTwo, r, P10(40))
           /\ ~PowLoLe(B!One, BTwo, B!Sub(r, B!One), P10(40)) /\ ~PowHiGe(B!One, BTwo, B!Add(r, I(2)), P10(40))
    \* beyond 2^(+-6000) comparisons are decided without the table
    /\ ~PowLoLe(I(7000), B!One, P10(300), B!One) /\ PowHiGe(I(7000), B!One, P10(300), B!One)
    /\ PowLoLe(I(-7000), B!One, B!One, P10(300)) /\ ~PowHiGe(I(-7000), B!One, B!One, P10(300))

ASSUME EnclosureSanity

---------------------------------------------------------------------------
(* the contracts at the real scales, on independently computed references *)
R == INSTANCE MathFns WITH PBD <- 36, PDEC <- 18

Z == B!Zero
Ok(c)  == R!ContractFailures(c) = {}
Bad(c, clause) == clause \in R!ContractFailures(c)
E36 == P10(36)
E18 == P10(18)

Sqrt2x36   == BE(<<1, 4142, 1356, 2373, 950, 4880, 1688, 7242, 969, 8079>>)
Log2of1p5  == BE(<<5849, 6250, 721, 1561, 8145, 3738, 9439, 4781, 6509>>)
Log2of1p5W == BE(<<5849, 6250, 721, 1561, 8145, 3738, 9439, 4781, 6508, 7598, 1440, 7692, 4810, 6045, 5753>>)
Ln10       == BE(<<2, 3025, 8509, 2994, 456, 8401, 7991, 4546, 8436, 4208>>)
TickLog2   == BE(<<6931, 8183, 7341, 3795, 3551, 9596, 7849, 9998, 2678, 3528>>)
Log3of7    == BE(<<1, 7712, 4374, 9161, 4222, 6006, 7928, 3070, 8245, 7718>>)
Log2of3W   == BE(<<1, 5849, 6250, 721, 1561, 8145, 3738, 9439, 4781, 6508, 7598, 1440, 7692, 4810, 6045, 5753>>)
Sqrt1p5    == BE(<<122, 4744, 8713, 9158, 9049>>)
P1         == BE(<<105, 1331, 4624, 935, 9139>>)              \* 1.5^0.123456789
P2         == BE(<<3, 8746, 458, 2249, 4080>>)                \* 0.3^2.7
Log2of0p3W == B!Neg(BE(<<1, 7369, 6559, 4166, 2061, 6641, 6580, 4855, 4157, 3667, 1050, 1698, 5332, 995, 5159, 9004>>))
Exp2of100  == BE(<<159, 7276, 2544, 37, 1229, 3734, 9693, 1116, 5308, 7975, 2041, 6813, 1572, 2048, 2765, 8585, 9290>>)
Dec15 == B!Mul(I(15), P10(17))      \* 1.5
Dec03 == B!Mul(I(3), P10(17))       \* 0.3
X100  == B!Mul(BE(<<100, 3334, 5670>>), P10(28))     \* 100.3334567 at 10^36

TestExp2 ==
    /\ Ok(Ev("Exp2", <<B!QuoT(E36, BTwo)>>, <<>>, TRUE, Sqrt2x36, <<>>))
    /\ Ok(Ev("Exp2", <<B!QuoT(E36, BTwo)>>, <<>>, TRUE, B!Add(Sqrt2x36, P10(18)), <<>>))          \* + 0.7e-18 relative
    /\ Bad(Ev("Exp2", <<B!QuoT(E36, BTwo)>>, <<>>, TRUE, B!Add(Sqrt2x36, B!Mul(I(15), P10(17))), <<>>), "accuracy")  \* + 1.06e-18
    /\ Bad(Ev("Exp2", <<B!QuoT(E36, BTwo)>>, <<>>, TRUE, B!Sub(Sqrt2x36, B!Mul(I(15), P10(17))), <<>>), "accuracy")
    /\ Ok(Ev("Exp2", <<X100>>, <<>>, TRUE, Exp2of100, <<>>))
    /\ Bad(Ev("Exp2", <<X100>>, <<>>, TRUE, B!Add(Exp2of100, B!Mul(I(17), P10(47))), <<>>), "accuracy")   \* + 1.06e-18 relative
    /\ Ok(Ev("Exp2", <<Z>>, <<>>, TRUE, E36, <<>>))
    /\ Ok(Ev("Exp2", <<B!Mul(I(512), E36)>>, <<>>, TRUE, B!Mul(B!Pow(BTwo, 512), E36), <<>>))
    /\ Bad(Ev("Exp2", <<B!Mul(I(512), E36)>>, <<>>, FALSE, Z, <<>>), "refused")
    /\ Bad(Ev("Exp2", <<B!Add(B!Mul(I(512), E36), B!One)>>, <<>>, TRUE, B!Mul(B!Pow(BTwo, 512), E36), <<>>), "loud")
    /\ Ok(Ev("Exp2", <<B!Add(B!Mul(I(512), E36), B!One)>>, <<>>, FALSE, Z, <<>>))
    /\ Bad(Ev("Exp2", <<I(-1)>>, <<>>, TRUE, E36, <<>>), "loud")
TestLog ==
    /\ Ok(Ev("LogBase2", <<B!Mul(I(15), P10(35))>>, <<>>, TRUE, Log2of1p5, <<>>))
    /\ Ok(Ev("LogBase2", <<B!Mul(I(15), P10(35))>>, <<>>, TRUE, B!Sub(Log2of1p5, I(9000)), <<>>))          \* - 0.9e-32
    /\ Bad(Ev("LogBase2", <<B!Mul(I(15), P10(35))>>, <<>>, TRUE, B!Sub(Log2of1p5, I(10002)), <<>>), "accuracy")
    /\ Bad(Ev("LogBase2", <<B!Mul(I(15), P10(35))>>, <<>>, TRUE, B!Add(Log2of1p5, I(10002)), <<>>), "accuracy")
    /\ Ok(Ev("LogBase2", <<B!One>>, <<>>, TRUE, B!Neg(BE(<<119, 5894, 1141, 5945, 445, 2333, 1499, 4616, 1804, 6348>>)), <<>>))
    /\ Bad(Ev("LogBase2", <<Z>>, <<>>, TRUE, Z, <<>>), "loud")
    /\ Bad(Ev("LogBase2", <<E36>>, <<>>, FALSE, Z, <<>>), "refused")
    /\ Ok(Ev("LogBase2", <<E36>>, <<>>, TRUE, Z, <<>>))
    /\ Ok(Ev("Ln", <<B!Mul(I(10), E36)>>, <<>>, TRUE, Ln10, <<>>))
    /\ Bad(Ev("Ln", <<B!Mul(I(10), E36)>>, <<>>, TRUE, B!Add(Ln10, I(7000)), <<>>), "accuracy")      \* 0.7e-32 > 1e-32 ln 2
    /\ Ok(Ev("Ln", <<B!Mul(I(10), E36)>>, <<>>, TRUE, B!Add(Ln10, I(6800)), <<>>))
    /\ Ok(Ev("TickLog", <<B!Mul(I(2), E36)>>, <<>>, TRUE, TickLog2, <<>>))
    /\ Ok(Ev("TickLog", <<B!Mul(I(2), E36)>>, <<>>, TRUE, B!Add(TickLog2, P10(8)), <<>>))             \* 1e-28 < 1e-32/c + ...
    /\ Bad(Ev("TickLog", <<B!Mul(I(2), E36)>>, <<>>, TRUE, B!Add(TickLog2, P10(9)), <<>>), "accuracy")
    /\ Ok(Ev("CustomBaseLog", <<B!Mul(I(7), E36), B!Mul(I(3), E36)>>, <<>>, TRUE, Log3of7, <<Log2of3W>>))
    /\ Bad(Ev("CustomBaseLog", <<B!Mul(I(7), E36), B!Mul(I(3), E36)>>, <<>>, TRUE, B!Add(Log3of7, I(30000)), <<Log2of3W>>), "accuracy")
    /\ Bad(Ev("CustomBaseLog", <<B!Mul(I(7), E36), B!Mul(I(3), E36)>>, <<>>, TRUE, Log3of7, <<B!Add(Log2of3W, P10(20))>>), "witness")
    /\ Bad(Ev("CustomBaseLog", <<B!Mul(I(7), E36), E36>>, <<>>, TRUE, Log3of7, <<Z>>), "loud")
TestPow ==
    /\ Ok(Ev("Pow", <<Dec15, B!Mul(I(5), P10(17))>>, <<>>, TRUE, Sqrt1p5, <<Log2of1p5W>>))            \* 1.5^0.5: integer powers
    /\ Bad(Ev("Pow", <<Dec15, B!Mul(I(5), P10(17))>>, <<>>, TRUE, B!Add(Sqrt1p5, B!Mul(I(11), P10(9))), <<Log2of1p5W>>), "accuracy")
    /\ Ok(Ev("Pow", <<Dec15, B!Mul(I(5), P10(17))>>, <<>>, TRUE, B!Add(Sqrt1p5, B!Mul(I(9), P10(9))), <<Log2of1p5W>>))
    /\ Ok(Ev("Pow", <<Dec15, B!Mul(I(123456789), P10(9))>>, <<>>, TRUE, P1, <<Log2of1p5W>>))           \* witness path
    /\ Bad(Ev("Pow", <<Dec15, B!Mul(I(123456789), P10(9))>>, <<>>, TRUE, B!Add(P1, B!Mul(I(11), P10(9))), <<Log2of1p5W>>), "accuracy")
    /\ Bad(Ev("Pow", <<Dec15, B!Mul(I(123456789), P10(9))>>, <<>>, TRUE, B!Sub(P1, B!Mul(I(11), P10(9))), <<Log2of1p5W>>), "accuracy")
    /\ Bad(Ev("Pow", <<Dec15, B!Mul(I(123456789), P10(9))>>, <<>>, FALSE, Z, <<Log2of1p5W>>), "refused")
    /\ Bad(Ev("Pow", <<Dec15, B!Mul(I(123456789), P10(9))>>, <<>>, TRUE, P1, <<B!Add(Log2of1p5W, P10(20))>>), "witness")
    /\ Ok(Ev("Pow", <<Dec03, B!Mul(I(27), P10(17))>>, <<>>, TRUE, P2, <<Log2of0p3W>>))                  \* 0.3^2.7
    \* tolerance 0.09 * 1e-8 * 7/3 = 2.1e-9
    /\ Ok(Ev("Pow", <<Dec03, B!Mul(I(27), P10(17))>>, <<>>, TRUE, B!Add(P2, B!Mul(I(2), P10(9))), <<Log2of0p3W>>))
    /\ Bad(Ev("Pow", <<Dec03, B!Mul(I(27), P10(17))>>, <<>>, TRUE, B!Add(P2, B!Mul(I(22), P10(8))), <<Log2of0p3W>>), "accuracy")
    /\ Bad(Ev("Pow", <<B!Mul(I(2), E18), E18>>, <<>>, TRUE, B!Mul(I(2), E18), <<P10(60)>>), "loud")
    /\ Bad(Ev("Pow", <<Z, E18>>, <<>>, TRUE, Z, <<Z>>), "loud")
    \* 0.5^-1 = 2: a returned 0 is a wrong number; a refusal is fine
    /\ Bad(Ev("Pow", <<B!Mul(I(5), P10(17)), B!Neg(E18)>>, <<>>, TRUE, Z, <<B!Neg(P10(60))>>), "loud")
    /\ Ok(Ev("Pow", <<B!Mul(I(5), P10(17)), B!Neg(E18)>>, <<>>, FALSE, Z, <<B!Neg(P10(60))>>))
    /\ Ok(Ev("Pow", <<B!Mul(I(5), P10(17)), B!Neg(E18)>>, <<>>, TRUE, B!Mul(I(2), E18), <<B!Neg(P10(60))>>))
    /\ Ok(Ev("PowApprox", <<Dec15, B!Mul(I(123456789), P10(9)), P10(10)>>, <<>>, TRUE, P1, <<Log2of1p5W>>))
    /\ Bad(Ev("PowApprox", <<Dec15, B!Mul(I(123456789), P10(9)), P10(12)>>, <<>>, TRUE, B!Add(P1, P10(15)), <<Log2of1p5W>>), "accuracy")
    /\ Ok(Ev("PowApprox", <<Dec15, B!Mul(I(123456789), P10(9)), P10(12)>>, <<>>, TRUE, B!Add(P1, P10(11)), <<Log2of1p5W>>))
TestOther ==
    \* integer powers: 1.5^2 = 2.25
    /\ Ok(Ev("PowerInteger", <<B!Mul(I(15), P10(35))>>, <<2>>, TRUE, B!Mul(I(225), P10(34)), <<>>))
    /\ Bad(Ev("PowerInteger", <<B!Mul(I(15), P10(35))>>, <<2>>, TRUE, B!Add(B!Mul(I(225), P10(34)), I(5)), <<>>), "accuracy")
    /\ Ok(Ev("PowerInteger", <<B!Mul(I(15), P10(35))>>, <<0>>, TRUE, E36, <<>>))
    \* square roots at the real scale: sqrt(2) (Dec) = 1.414213562373095049 (rounded up)
    /\ Ok(Ev("MonotonicSqrt", <<B!Mul(I(2), E18)>>, <<>>, TRUE, BE(<<141, 4213, 5623, 7309, 5049>>), <<>>))
    /\ Bad(Ev("MonotonicSqrt", <<B!Mul(I(2), E18)>>, <<>>, TRUE, BE(<<141, 4213, 5623, 7309, 5048>>), <<>>), "least-root")
    /\ Bad(Ev("MonotonicSqrt", <<B!Mul(I(2), E18)>>, <<>>, TRUE, BE(<<141, 4213, 5623, 7309, 5050>>), <<>>), "least-root")
    /\ Ok(Ev("MonotonicSqrtBigDec", <<B!Mul(I(2), E36)>>, <<>>, TRUE, Sqrt2x36, <<>>))
    /\ Bad(Ev("MonotonicSqrtBigDec", <<B!Mul(I(2), E36)>>, <<>>, TRUE, B!Sub(Sqrt2x36, B!One), <<>>), "least-root")
    \* SigFigRound(0.0123456, 100) = 0.012; 0.013 is a full unit away
    /\ Ok(Ev("SigFigRound", <<B!Mul(I(123456), P10(11)), I(100)>>, <<>>, TRUE, B!Mul(I(12), P10(15)), <<>>))
    /\ Bad(Ev("SigFigRound", <<B!Mul(I(123456), P10(11)), I(100)>>, <<>>, TRUE, B!Mul(I(13), P10(15)), <<>>), "rounding")
    /\ R!Observations(Ev("OrderOfMagnitude", <<B!Mul(I(95), P10(17))>>, <<>>, TRUE, Z, <<>>)) = {}
    /\ R!Observations(Ev("OrderOfMagnitude", <<B!Mul(I(95), P10(17))>>, <<>>, TRUE, B!One, <<>>)) = {"order"}
    /\ R!Observations(Ev("OrderOfMagnitude", <<B!Mul(I(95), P10(14))>>, <<>>, TRUE, I(-3), <<>>)) = {}
    /\ Bad(Ev("OrderOfMagnitude", <<I(-5)>>, <<>>, TRUE, Z, <<>>), "loud")

ASSUME TestExp2
ASSUME TestLog
ASSUME TestPow
ASSUME TestOther

---------------------------------------------------------------------------
(* native models at the tiny scale *)
SD2 == 10 ^ PDEC
SB4 == 10 ^ PBD
NAbs(v) == IF v < 0 THEN -v ELSE v
NMin(a, b) == IF a < b THEN a ELSE b

RECURSIVE LeastGE(_, _, _)      \* least r in lo..hi with r*r >= v (hi qualifies)
LeastGE(v, lo, hi) == IF lo >= hi THEN hi
                      ELSE LET mid == (lo + hi) \div 2
                           IN  IF mid * mid >= v THEN LeastGE(v, lo, mid) ELSE LeastGE(v, mid + 1, hi)
CeilSqrt(v) == LeastGE(v, 0, 5000)

\* round half even of n/d, n >= 0, d > 0
RoundHE(n, d) == LET q == n \div d
                     t == 2 * (n - q * d)
                 IN  IF t < d THEN q ELSE IF t > d THEN q + 1 ELSE IF q % 2 = 0 THEN q ELSE q + 1

SqrtEv(f, x) == LET S == IF SqrtFamily(f) = "dec" THEN SD2 ELSE SB4
                IN  Ev(f, <<I(x)>>, <<>>, x >= 0, IF x >= 0 THEN I(CeilSqrt(x * S)) ELSE Z, <<>>)

RECURSIVE NLeadZ(_, _)
NLeadZ(d, k) == IF k >= PDEC \/ d * 10 ^ (k + 1) >= SD2 THEN k ELSE NLeadZ(d, k + 1)
\* the documented algorithm: round(d 10^k T) / (10^k T), final division truncated
SigFigModel(d, T) == IF d = 0 THEN 0
                     ELSE LET k == NLeadZ(d, 0)
                          IN  (RoundHE(d * 10 ^ k * T, SD2) * SD2) \div (T * 10 ^ k)
SigFigEv(d, T) == Ev("SigFigRound", <<I(d), I(T)>>, <<>>, TRUE, I(SigFigModel(d, T)), <<>>)

\* ErrTolerance.Compare on Ints as documented (the relative error is formed on the Dec grid)
CmpModel(t, a, p) ==
    LET diff == NAbs(t - a) * SD2
        sign == IF t > a THEN 1 ELSE -1
        mn   == NMin(NAbs(t), NAbs(a))
    IN  IF p.dir = 2 /\ t < a THEN -1
        ELSE IF p.dir = 1 /\ t > a THEN 1
        ELSE IF p.hasAdd = 1 /\ p.add = 0 /\ t = a THEN 0
        ELSE IF p.hasAdd = 1 /\ diff > p.add THEN sign
        ELSE IF p.hasMul = 1 /\ p.mul # 0
             THEN (IF mn = 0 THEN sign ELSE IF RoundHE(diff, mn) > p.mul THEN sign ELSE 0)
        ELSE 0

Poly(p, x) == p.c0 + p.c1 * x + p.c2 * x * x
RECURSIVE Bisect(_, _, _, _)
Bisect(p, lo, hi, it) ==
    IF it >= p.maxit THEN [ok |-> FALSE, est |-> 0, it |-> it, img |-> 0]
    ELSE LET est == (lo + hi) \div 2
             img == Poly(p, est)
             cr  == CmpModel(p.t, img, p)
         IN  IF cr < 0 THEN Bisect(p, lo, est, it + 1)
             ELSE IF cr > 0 THEN Bisect(p, est, hi, it + 1)
             ELSE [ok |-> TRUE, est |-> est, it |-> it + 1, img |-> img]
SearchEv(p) == LET b == Bisect(p, p.lo, p.hi, 0)
               IN  Ev("BinarySearch",
                      <<I(p.lo), I(p.hi), I(p.t), I(p.add), I(p.mul), I(p.c0), I(p.c1), I(p.c2)>>,
                      <<p.hasAdd, p.hasMul, p.dir, p.maxit, b.it>>, b.ok, I(b.est), <<I(b.img)>>)
CompareEv(t, a, p) == Ev("Compare", <<I(t), I(a), I(p.add), I(p.mul)>>, <<p.hasAdd, p.hasMul, p.dir>>,
                         TRUE, I(CmpModel(t, a, p)), <<>>)

Tols == {[hasAdd |-> ha, add |-> ad, hasMul |-> hm, mul |-> ml, dir |-> dr] :
            ha \in {0, 1}, ad \in {0, 150}, hm \in {0, 1}, ml \in {0, 10}, dr \in {0, 1, 2}}
Polys == {[c0 |-> 0, c1 |-> 1, c2 |-> 0], [c0 |-> 3, c1 |-> 2, c2 |-> 0], [c0 |-> 1, c1 |-> 0, c2 |-> 1]}
SearchParams == {[lo |-> 0, hi |-> h, t |-> t, maxit |-> mi, c0 |-> q.c0, c1 |-> q.c1, c2 |-> q.c2,
                  hasAdd |-> e.hasAdd, add |-> e.add, hasMul |-> e.hasMul, mul |-> e.mul, dir |-> e.dir] :
                    h \in {16, 40}, t \in 0..TMax, mi \in {0, 3, 8}, q \in Polys, e \in Tols}

Fresh == last = NoCall
MCSqrt == \E f \in {"MonotonicSqrt", "MonotonicSqrtBigDec"} : \E x \in (-2)..XMax :
             /\ (Fresh \/ last.f = f)
             /\ last' = SqrtEv(f, x)
MCSigFig == Fresh /\ \E d \in 0..DMax : \E s \in 0..3 : last' = SigFigEv(d, 10 ^ s)
MCSearch == Fresh /\ \E p \in SearchParams : last' = SearchEv(p)
MCCompare == Fresh /\ \E t \in 0..12 : \E a \in 0..12 : \E p \in Tols : last' = CompareEv(t, a, p)

MCInit == Init
MCNext == MCSqrt \/ MCSigFig \/ MCSearch \/ MCCompare
MCSpec == MCInit /\ [][MCNext]_vars

---------------------------------------------------------------------------
With(c, r) == [c EXCEPT !.r = r]
Rejected(c) == ContractFailures(c) # {}

\* the contract admits nothing but the least root / the nearest multiples / the requested side
Discriminates ==
    /\ (SqrtFamily(last.f) # "none" /\ last.ok) =>
          /\ Rejected(With(last, B!Add(last.r, B!One)))
          /\ (B!Sign(last.r) > 0 => Rejected(With(last, B!Sub(last.r, B!One))))
          /\ Rejected([last EXCEPT !.ok = FALSE])
    /\ (SqrtFamily(last.f) # "none" /\ ~last.ok) => Rejected([last EXCEPT !.ok = TRUE])
    /\ (last.f = "SigFigRound" /\ B!Sign(last.x[1]) > 0) =>
          LET d == B!ToInt(last.x[1])
              T == B!ToInt(last.x[2])
              den == T * 10 ^ NLeadZ(d, 0)
          IN  IF den > SD2 THEN B!Eq(last.r, last.x[1])              \* nothing to round away
              ELSE LET u == SD2 \div den                            \* the unit, in raw units
                       m == d \div u
                   IN  \A j \in (m - 2)..(m + 3) :
                          (j >= 0) => (Rejected(With(last, I(j * u))) <=> 2 * NAbs(j * u - d) > u)
    /\ (last.f = "BinarySearch" /\ last.ok) =>
          /\ (last.n[3] # 0 /\ ~B!Eq(last.w[1], last.x[3])) =>
                "side" \in ContractFailures([last EXCEPT !.n = [last.n EXCEPT ![3] = 3 - last.n[3]]])
          /\ "range" \in ContractFailures([last EXCEPT !.x = [last.x EXCEPT ![2] = B!Sub(last.r, B!One)]])
          /\ "harness" \in ContractFailures([last EXCEPT !.w = <<B!Add(last.w[1], B!One)>>])
    /\ (last.f = "BinarySearch" /\ ~last.ok) =>
          "iteration-cap" \in ContractFailures([last EXCEPT !.n = [last.n EXCEPT ![5] = last.n[4] + 1]])

=============================================================================
