--------------------------- MODULE MCTakerFeeDist ---------------------------
(* Bounded model of TakerFeeDist for exhaustive checking (native integers,    *)
(* fixed-point unit 4) and for behaviour generation: the shortest behaviour   *)
(* to every distinct idle state is printed as JSON and replayed on the real   *)
(* keepers.                                                                   *)
(* Denominations O (base), A, B and - with UseAlloy - the alloyed denomination *)
(* L whose pool holds A and B in the proportion `w` (quarters).               *)
(* SwapModel "free": every outcome of every collector swap (any subset fails,  *)
(* proceeds in or in - 1) - the design is checked against all of them;         *)
(* SwapModel "pool": the outcome of very deep equal-weight pools without       *)
(* spread (small amounts are exchanged one for one; a link to a pool that does *)
(* not hold the pair always fails) - deterministic, what the replay builds.    *)
(* AsBuilt: the collectors ("cpc", "buc", "stc") for which the model follows    *)
(* the current tree where it is known to deviate from E7 (the collector hands  *)
(* over the proceeds of its swaps only); used for generation only, and only    *)
(* for the collectors the recorded executions of the same run showed to        *)
(* deviate - E7 is checked with AsBuilt = {}.                                  *)
EXTENDS TakerFeeDist, TLC, Json

CONSTANTS MaxSwap, MaxDep, MaxEpoch, MaxAgr, MaxConf, MaxFail,
          Fees,        \* fee amounts a swap charges
          Pcts,        \* skim percentages (quarters)
          SwapModel,   \* "free" | "pool"
          AsBuilt,     \* subset of {"cpc", "buc", "stc"}
          UseAlloy,    \* BOOLEAN
          Family       \* which set of configurations

IAdd(a, b) == a + b
ISub(a, b) == a - b
IMul(a, b) == a * b
ILe(a, b)  == a <= b
IFloorDiv(a, b) == a \div b

VARIABLES cnt,    \* [swap, dep, epoch, agr, conf, fail : Nat]
          w,      \* weights (quarters) of A and B in the alloyed pool, <<wA, wB>>
          amb,    \* some skim phase had more than one admissible pay set (the order of payment is not specified)
          last,   \* what the last rejected transaction was (<<>> otherwise): keeps them apart for the generator
          cur,    \* the epoch step under construction
          hist    \* Seq of steps [a, ..., st : the state after]

Den == IF UseAlloy THEN {"O", "A", "B", "L"} ELSE {"O", "A", "B"}
Addrs == {"s1", "s2"}
T(s, c, u) == [st |-> s, cp |-> c, burn |-> u]
L(a, b) == {a, b}

Conf(o, n, wl, cpt, links, inter, smooth, blocked, broken) ==
    [id |-> 0, denoms |-> Den, base |-> "O", addrs |-> Addrs, blocked |-> blocked,
     osmo |-> o, non |-> n, wl |-> wl, cpt |-> cpt, smooth |-> smooth, inter |-> inter, links |-> links, broken |-> broken]

\* families of configurations (initial configuration and reconfigurations are drawn from one family)
ConfsA == { Conf(T(2, 1, 1), T(2, 1, 1), {}, "O", {L("O", "A"), L("O", "B")}, <<>>, 2, {}, {}),
            Conf(T(4, 0, 0), T(3, 1, 0), {"A"}, "A", {L("O", "A")}, <<"A">>, 1, {}, {}) }
\* (whether an address can receive is a fact about the address: the same in every configuration of a family)
ConfsB == { Conf(T(1, 1, 2), T(1, 2, 1), {"B"}, "A", {L("O", "A"), L("A", "B")}, <<"A">>, 2, {"s2"}, {}),
            \* (A -> O goes through B and fails at the second hop; B -> O and O -> B fail outright)
            Conf(T(0, 4, 0), T(0, 2, 2), {}, "B", {L("O", "B"), L("A", "B")}, <<"B">>, 1, {"s2"}, {L("O", "B")}) }
ConfsC == { Conf(T(2, 1, 1), T(2, 1, 1), {}, "A", {L("O", "A"), L("A", "B")}, <<"A">>, 2, {"s2"}, {}),
            Conf(T(2, 1, 1), T(1, 1, 2), {"B"}, "O", {L("O", "A"), L("O", "B"), L("A", "B")}, <<>>, 3, {"s2"}, {L("O", "B")}) }
ConfsD == { Conf(T(3, 1, 0), T(2, 2, 0), {}, "O", {L("O", "A"), L("O", "B")}, <<>>, 1, {}, {}) }
Confs == CASE Family = "A" -> ConfsA [] Family = "B" -> ConfsB [] Family = "C" -> ConfsC [] Family = "D" -> ConfsD
           [] Family = "AD" -> ConfsA \cup ConfsD [] Family = "BC" -> ConfsB \cup ConfsC

Rest0 == 50
Bal0 == [a \in Fixed \cup Addrs |-> [d \in Den |-> IF a = "rest" THEN Rest0 ELSE 0]]
Zero2 == [a \in Den |-> [d \in Den |-> 0]]
Trk0 == [st |-> [d \in Den |-> 0], cp |-> [d \in Den |-> 0], burn |-> [d \in Den |-> 0]]
Empty == [x \in {} |-> 0]
Cnt0 == [swap |-> 0, dep |-> 0, epoch |-> 0, agr |-> 0, conf |-> 0, fail |-> 0]

Snap == [cf |-> cf', agr |-> agr', seen |-> seen', alloy |-> alloy', bal |-> bal', accr |-> accr', trk |-> trk', w |-> w']

MCInit ==
    /\ \E c \in Confs : InitWith(c, Empty, Empty, Empty, Bal0, Zero2, Trk0)
    /\ cnt = Cnt0 /\ w = <<2, 2>> /\ amb = FALSE /\ last = <<>> /\ cur = <<>>
    /\ hist = << [a |-> "init", st |-> [cf |-> cf, agr |-> agr, seen |-> seen, alloy |-> alloy, bal |-> bal, accr |-> accr, trk |-> trk, w |-> w]] >>

Step(r) == hist' = Append(hist, r @@ [st |-> Snap])
Bump(f) == cnt' = [cnt EXCEPT ![f] = @ + 1]
Keep == UNCHANGED <<w, amb, cur>>
\* bound: a failed transaction is the last step of a behaviour
Alive == IF last = <<>> THEN TRUE ELSE last[1] # "failtx"

\* ------------------------------------------------------------------------
Routes == {r \in SUBSET Den : Cardinality(r) \in {2, 3}}

MCSwap ==
    /\ Alive
    /\ cnt.swap < MaxSwap /\ Keep
    /\ \E r \in Routes, fd \in Den, f \in Fees :
         /\ fd \in r
         /\ LET over == ~(SumPct(Applicable(r)) <= NUnit) IN
            /\ Swap(r, Only(fd, f), ~over)
            /\ last' = IF over THEN <<"swap", r>> ELSE <<>>
            /\ Step([a |-> "swap", route |-> SeqOfSet(r), fd |-> fd, f |-> f, ok |-> ~over])
    /\ Bump("swap")

\* the alloyed composition as the design computes it: the agreements of the underlying assets scaled by their weight
Composition(s, ws) ==
    LET ms == <<"A", "B">> IN
    Flat([i \in 1..2 |-> IF ms[i] \in DOMAIN s /\ ws[i] > 0
                         THEN << [a |-> ms[i], pct |-> (ws[i] * s[ms[i]].pct) \div NUnit, addr |-> s[ms[i]].addr] >>
                         ELSE <<>>])
Recomputed(s, ws) == [l \in DOMAIN alloy |-> Composition(s, ws)]

MCAgr ==
    /\ Alive
    /\ cnt.agr < MaxAgr /\ Keep
    /\ \E d \in Den \ {"L"}, p \in Pcts, ad \in Addrs :
         LET s1 == [x \in DOMAIN seen \cup {d} |-> IF x = d THEN [pct |-> p, addr |-> ad] ELSE seen[x]] IN
         /\ SetAgreement(d, p, ad, TRUE, IF d \in {"A", "B"} THEN Recomputed(s1, w) ELSE alloy)
         /\ Step([a |-> "agr", d |-> d, pct |-> p, addr |-> ad, ok |-> TRUE])
    /\ last' = <<>> /\ Bump("agr")

\* a transaction that sets an agreement and then fails (a later message of the same proposal fails)
MCFailedTx ==
    /\ Alive
    /\ cnt.fail < MaxFail /\ Keep
    /\ phase = "idle" /\ cnt.swap = 0 /\ cnt.epoch = 0 /\ cnt.dep = 0 /\ cnt.conf = 0      \* (they are all alike)
    /\ \E d \in Den \ {"L"}, p \in Pcts :
         /\ Rejected
         /\ last' = <<"failtx", d, p>>
         /\ Step([a |-> "agr", d |-> d, pct |-> p, addr |-> "s1", ok |-> FALSE])
    /\ Bump("fail")

MCRegister ==
    /\ Alive
    /\ UseAlloy /\ "L" \notin DOMAIN alloy /\ Keep
    /\ phase = "idle"
    /\ SetAlloy([l \in {"L"} |-> Composition(seen, w)])
    /\ Step([a |-> "register"])
    /\ last' = <<>> /\ UNCHANGED cnt

\* the liquidity of the alloyed pool changes (nothing the specification sees) and the compositions are recalculated
MCReweigh ==
    /\ Alive
    /\ UseAlloy /\ "L" \in DOMAIN alloy /\ w = <<2, 2>>
    /\ phase = "idle"
    /\ \E nw \in {<<1, 3>>, <<4, 0>>} :
         /\ w' = nw
         /\ SetAlloy(Recomputed(seen, nw))
         /\ Step([a |-> "reweigh", w |-> nw])
    /\ last' = <<>> /\ UNCHANGED <<cnt, amb, cur>>

MCConf ==
    /\ Alive
    /\ cnt.conf < MaxConf /\ Keep
    /\ \E c \in Confs : c # cf /\ Reconfigure(c) /\ Step([a |-> "conf"])
    /\ last' = <<>> /\ Bump("conf")

MCDep ==
    /\ Alive
    /\ cnt.dep < MaxDep /\ Keep
    /\ \E d \in Den \ {"L"}, x \in {2, 3} :
         /\ Deposit("nn", Only(d, x))
         /\ Step([a |-> "dep", acct |-> "nn", d |-> d, x |-> x])
    /\ last' = <<>> /\ Bump("dep")

\* ------------------------------------------------------------------------
\* the outcome of the swaps of collector c into t
Hops(d, t) == IF Linked(d, t) THEN << {d, t} >>
              ELSE LET i == CHOOSE j \in 1..Len(cf.inter) :
                              /\ cf.inter[j] \notin {d, t} /\ Linked(d, cf.inter[j]) /\ Linked(cf.inter[j], t)
                              /\ \A k \in 1..(j - 1) : ~(cf.inter[k] \notin {d, t} /\ Linked(d, cf.inter[k]) /\ Linked(cf.inter[k], t))
                   IN  << {d, cf.inter[i]}, {cf.inter[i], t} >>
Swappable(c, t) == {d \in Den \ {t} : bal[c][d] > 0 /\ HasRoute(d, t)}
PoolSw(c, t) == {d \in Swappable(c, t) : \A i \in 1..Len(Hops(d, t)) : Hops(d, t)[i] \notin cf.broken}
PoolOut(c, t) == [d \in Den |-> IF d \in PoolSw(c, t) THEN bal[c][d] ELSE 0]
FreeOuts(c, t, sw) ==
    { [d \in Den |-> IF d \in sw THEN (IF ch[d] /\ bal[c][d] > 1 THEN bal[c][d] - 1 ELSE bal[c][d]) ELSE 0] : ch \in [sw -> BOOLEAN] }
Pairs(c, t) == IF SwapModel = "pool" THEN { <<PoolSw(c, t), PoolOut(c, t)>> }
               ELSE UNION { { <<sw, out>> : out \in FreeOuts(c, t, sw) } : sw \in SUBSET Swappable(c, t) }

Held(c) == c \notin AsBuilt
Note(c, p) == cur' = Append(cur, [c |-> c, sw |-> SeqOfSet(p[1]), out |-> p[2]])

MCEpochStart ==
    /\ Alive
    /\ cnt.epoch < MaxEpoch
    /\ \E id \in {"day", "week"} : EpochStart(id) /\ cur' = << [ident |-> id] >>
    /\ last' = <<>> /\ Bump("epoch") /\ UNCHANGED <<w, amb, hist>>
MCNonNative == \E p \in Pairs("nn", "O") : NonNative(p[1], p[2]) /\ Note("nn", p) /\ UNCHANGED <<cnt, w, amb, last, hist>>
MCSkim ==
    /\ \E P \in SUBSET Den : Skim(P)
    /\ amb' = (amb \/ Cardinality({P \in SUBSET Den : PaySet(P)}) > 1)
    /\ UNCHANGED <<cnt, w, last, cur, hist>>
MCBase == BaseSplit /\ UNCHANGED <<cnt, w, amb, last, cur, hist>>
MCOther == OtherSplit /\ UNCHANGED <<cnt, w, amb, last, cur, hist>>
MCCommunity == \E p \in Pairs("cpc", cf.cpt) : CommunityPool(p[1], p[2], Held("cpc")) /\ Note("cpc", p) /\ UNCHANGED <<cnt, w, amb, last, hist>>
MCBurn == \E p \in Pairs("buc", "O") : Burn(p[1], p[2], Held("buc")) /\ Note("buc", p) /\ UNCHANGED <<cnt, w, amb, last, hist>>
MCStakers == \E p \in Pairs("stc", "O") : Stakers(p[1], p[2], Held("stc")) /\ Note("stc", p) /\ UNCHANGED <<cnt, w, amb, last, hist>>
MCSmooth == /\ Smooth
            /\ cur' = <<>>
            /\ UNCHANGED <<cnt, w, amb, last>>
            /\ Step([a |-> "epoch", ident |-> cur[1].ident, swaps |-> Tail(cur)])

MCStep == \/ MCSwap \/ MCAgr \/ MCFailedTx \/ MCRegister \/ MCReweigh \/ MCConf \/ MCDep
          \/ MCEpochStart \/ MCNonNative \/ MCSkim \/ MCBase \/ MCOther \/ MCCommunity \/ MCBurn \/ MCStakers \/ MCSmooth
MCNext == MCStep
MCSpec == MCInit /\ [][MCNext]_<<vars, cnt, w, amb, last, cur, hist>>

View == <<vars, cnt, w, amb, last>>

TypeOK == /\ phase \in {"idle", "nn", "skim", "osmo", "non", "cpc", "buc", "stc", "smooth"}
          /\ DOMAIN bal = Fixed \cup Addrs
          /\ DOMAIN agr \subseteq Den /\ DOMAIN seen \subseteq Den

\* one behaviour for every distinct state right after an epoch end, a refused swap or a failed transaction
\* (the other idle states are prefixes of these)
Emit == (phase = "idle" /\ Len(hist) > 1 /\ ~amb /\ (hist[Len(hist)].a = "epoch" \/ last # <<>>))
            => PrintT(<<"GEN", ToJson([steps |-> hist])>>)
=============================================================================
