\* stand-alone copy of the quick-tier bounded model (bin/checks/c18.py writes the tier-dependent variants)
SPECIFICATION MCSpec
CONSTANTS
  NAdd <- IAdd
  NSub <- ISub
  NMul <- IMul
  NLe <- ILe
  NZero = 0
  NOne = 1
  NScale = 100
  Provs = {1000, 1300, 1700, 2000}
  Starts = {0, 1, 3}
  Periods = {2, 3}
  Factors = {50, 67}
  Tenths = {3, 5}
  Pis = {"none", "gauges"}
  PropStep = 1
  MaxEpoch = 8
  Vest0 = 1000
VIEW View
INVARIANTS MintEmpty Conservation SupplyExact Schedule ScheduleFromStart
PROPERTIES ReductionOnlyWhenDue GrowthIsMinted NothingBeforeStart
CHECK_DEADLOCK FALSE
