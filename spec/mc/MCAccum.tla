------------------------------ MODULE MCAccum ------------------------------
(* Bounded model of Accum with native integers.                              *)
(*  - exhaustive check of the properties (mc cfg);                           *)
(*  - "round" cfg: share values that are not multiples of Unit, so the       *)
(*    folded amounts are genuinely rounded and TLC tries EVERY rounding to   *)
(*    nearest (both neighbours on ties): the tolerance of TracksIdeal /      *)
(*    ClaimPaysIdeal is proved for the bounded model, not guessed;           *)
(*  - behaviour generator (gen cfg): share values are multiples of Unit, all *)
(*    products are exact, the model is deterministic and each TRANSITION of  *)
(*    the reduced state graph (VIEW without hist) is printed with a shortest *)
(*    path leading to it; harness/lite/accum replays them on the real code.  *)
EXTENDS Accum, TLC, Json

CONSTANTS Names,        \* position names
          NDen,         \* number of denoms
          GrowSet,      \* growth vectors (raw)
          NewShares,    \* share amounts for creation (raw)
          DeltaShares,  \* share amounts for add / remove / update (raw, positive)
          RewardSet,    \* vectors for AddToUnclaimedRewards
          MaxAcc,       \* bound on every accumulator component
          MaxDepth      \* bound on the number of calls

VARIABLE hist           \* the calls made so far: Seq([op, n, s, v, g, ok, res])

IAdd(a, b) == a + b
ISub(a, b) == a - b
IMul(a, b) == a * b
ILe(a, b)  == a <= b
IOfNat(n)  == n

GrowA == {<<1, 0>>, <<0, 3>>, <<2, 1>>, <<0, 0>>}
GrowB == {<<1, 0>>, <<0, 3>>, <<2, 1>>}
GrowC == {<<1, 2>>, <<3, 0>>}
RewA  == {<<1, 0>>}
RewB  == {<<1, 3>>}
NamesA == {"p1", "p2"}
NamesB == {"p1", "p2", "p3"}

Vec(f) == [i \in 1..NDen |-> f[i]]

MCInit == InitWith(NDen) /\ hist = <<>>

\* interval values tried besides the current accumulator value
HalfV == [d \in Den |-> acc[d] \div 2]
IvC(n) == ({ZeroV, HalfV} \cup (IF Has(n) THEN {pos[n].snap} ELSE {})) \ {acc}

\* every rounding to nearest of x / Unit (x >= 0)
RC(x) == {q \in {x \div Unit, (x \div Unit) + 1} : IsRounded(q, x)}
QSet(xv) == {q \in [Den -> UNION {RC(xv[d]) : d \in Den}] : \A d \in Den : q[d] \in RC(xv[d])}
FloorV(t) == [d \in Den |-> t[d] \div Unit]

Rec(o, n, s, v, g) ==
    hist' = Append(hist, [op |-> o, n |-> n, s |-> s, v |-> v, g |-> g, ok |-> last'.ok, res |-> last'.res])

Room == Len(hist) < MaxDepth

MCGrow == \E g \in GrowSet :
    /\ Room
    /\ \A d \in Den : acc[d] + g[d] <= MaxAcc
    /\ Grow(g)
    /\ Rec("grow", "", 0, <<>>, g)

MCCreate == \E n \in Names : \E s \in NewShares :
    /\ Room
    /\ \/ Create("new", n, s, acc) /\ Rec("new", n, s, <<>>, <<>>)
       \/ \E v \in IvC(n) : Create("newi", n, s, v) /\ Rec("newi", n, s, Vec(v), <<>>)

\* the amounts tried for a share operation: the configured ones, plus the ones that must fail
Amounts(o, n) ==
    LET held == IF Has(n) THEN pos[n].shares ELSE 0 IN
    CASE o \in {"add", "addi"} -> DeltaShares \cup {0, -1}
      [] o \in {"rem", "remi"} -> DeltaShares \cup {0, -1, held, held + 1}
      [] o \in {"upd", "updi"} -> DeltaShares \cup {-x : x \in DeltaShares} \cup {0, -held, -(held + 1)}

MCChange == \E n \in Names : \E o \in ShareOps : \E s \in Amounts(o, n) :
    /\ Room
    /\ \/ /\ Has(n) /\ SharesOk(o, n, s)
          /\ \E q \in QSet(Outstanding(pos[n])) :
                IF o \in PlainShareOps
                THEN Change(o, n, s, acc, q) /\ Rec(o, n, s, <<>>, <<>>)
                ELSE \E v \in IvC(n) : Change(o, n, s, v, q) /\ Rec(o, n, s, Vec(v), <<>>)
       \/ /\ Fail(o, n, s)
          /\ Rec(o, n, s, IF o \in PlainShareOps THEN <<>> ELSE Vec(ZeroV), <<>>)

MCSet == \E n \in Names :
    /\ Room
    /\ \/ \E v \in IvC(n) \cup {acc} : SetIv(n, v) /\ Rec("set", n, 0, Vec(v), <<>>)
       \/ Fail("set", n, 0) /\ Rec("set", n, 0, Vec(ZeroV), <<>>)

MCAddUnc == \E n \in Names : \E r \in RewardSet :
    /\ Room
    /\ \/ AddUnc(n, r) /\ Rec("addunc", n, 0, <<>>, r)
       \/ Fail("addunc", n, 0) /\ Rec("addunc", n, 0, <<>>, r)

MCClaim == \E n \in Names :
    /\ Room
    /\ \/ /\ Has(n)
          /\ \E q \in QSet(Outstanding(pos[n])) : Claim(n, q, FloorV(VAdd(pos[n].unc, q)))
          /\ Rec("claim", n, 0, <<>>, <<>>)
       \/ Fail("claim", n, 0) /\ Rec("claim", n, 0, <<>>, <<>>)

MCDelete == \E n \in Names :
    /\ Room
    /\ \/ /\ Has(n)
          /\ \E q \in QSet(Outstanding(pos[n])) : Delete(n, q)
          /\ Rec("delete", n, 0, <<>>, <<>>)
       \/ Fail("delete", n, 0) /\ Rec("delete", n, 0, <<>>, <<>>)

MCNext == MCGrow \/ MCCreate \/ MCChange \/ MCSet \/ MCAddUnc \/ MCClaim \/ MCDelete
MCSpec == MCInit /\ [][MCNext]_<<vars, hist>>

\* `last` is read by the action properties only (they are checked on every transition)
View == <<acc, total, pos, ideal, nUpd, Len(hist)>>

\* with share values that are multiples of Unit nothing is ever rounded
ExactTracks == \A n \in DOMAIN pos : \A d \in Den : Claimable(pos[n])[d] = ideal[n][d]

\* generator: one behaviour per transition of the reduced graph
EmitEdge == PrintT(<<"GEN", ToJson([ops |-> hist',
                                    st |-> [acc |-> Vec(acc'), total |-> total', pos |-> pos']])>>)
=============================================================================
