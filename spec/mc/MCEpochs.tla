------------------------------ MODULE MCEpochs ------------------------------
(* Bounded model of Epochs for exhaustive checking (MCEpochs.cfg) and for    *)
(* behaviour generation (GenEpochs.cfg: one behaviour per distinct idle      *)
(* state, printed as JSON and replayed into the real keeper).                *)
EXTENDS Epochs, TLC, Json

CONSTANTS CConf, Deltas, MaxT, MaxH, Writes

CfgA == [start |-> <<0, 3>>, dur |-> <<2, 3>>, nsubs |-> 2]
CfgB == [start |-> <<1, 2>>, dur |-> <<2, 3>>, nsubs |-> 2]
CfgC == [start |-> <<2>>, dur |-> <<1>>, nsubs |-> 3]

VARIABLE hist   \* Seq of blocks [t, calls : Seq([k,id,n,sub,o,w]), end : "end"|"abort", ep, store]

MCInit == /\ InitWith(CConf, 0, 0)
          /\ hist = <<>>

LastIx == Len(hist)

MCStart == \E d \in Deltas :
    /\ now + d <= MaxT
    /\ height < MaxH
    /\ StartBlock(now + d)
    /\ hist' = Append(hist, [t |-> now + d, calls |-> <<>>, end |-> "", ep |-> <<>>, store |-> <<>>])

MCCall == \E o \in Outcomes : \E w \in Writes :
    /\ Call(o, w)
    /\ hist' = [hist EXCEPT ![LastIx].calls =
                   Append(@, [k |-> Head(pend)[1], id |-> Head(pend)[2], n |-> Head(pend)[3],
                              sub |-> Head(pend)[4], o |-> o, w |-> w])]

MCEnd == /\ EndBlock
         /\ hist' = [hist EXCEPT ![LastIx].end = "end", ![LastIx].ep = ep, ![LastIx].store = store]

MCAbort == /\ Abort
           /\ hist' = [hist EXCEPT ![LastIx].end = "abort", ![LastIx].ep = pre.ep, ![LastIx].store = pre.store]

MCNext == MCStart \/ MCCall \/ MCEnd \/ MCAbort
MCSpec == MCInit /\ [][MCNext]_<<vars, hist>>

View == vars

\* emission for the replay generator: every distinct idle state contributes the
\* (shortest) block sequence that reaches it
Emit == (mode = "idle" /\ hist # <<>>) => PrintT(<<"GEN", ToJson([conf |-> conf, blocks |-> hist])>>)
=============================================================================
