------------------------------ MODULE MCBigNum ------------------------------
(* Self-check of the numeric layer.                                         *)
(*  (1) the pure TLA+ definitions (BigNumPure = generated copy of BigNum    *)
(*      under another module name, so no override applies) agree with TLC's *)
(*      native integers on every pair in -R..R;                             *)
(*  (2) the Java override (module BigNum) agrees with the pure definitions  *)
(*      on a grid of large numbers of both signs around limb boundaries.    *)
EXTENDS Integers, Sequences, TLC, FiniteSets
P == INSTANCE BigNumPure
J == INSTANCE BigNum

R == 60
Small == (-R)..R

NativeOK ==
    \A x \in Small : \A y \in Small :
        /\ P!ToInt(P!Add(P!OfInt(x), P!OfInt(y))) = x + y
        /\ P!ToInt(P!Sub(P!OfInt(x), P!OfInt(y))) = x - y
        /\ P!ToInt(P!Mul(P!OfInt(x * 97), P!OfInt(y * 89))) = x * 97 * y * 89
        /\ P!Cmp(P!OfInt(x), P!OfInt(y)) = (IF x > y THEN 1 ELSE IF x < y THEN -1 ELSE 0)
        /\ y > 0 => /\ P!ToInt(P!FloorDiv(P!OfInt(x * 1009), P!OfInt(y))) = (x * 1009) \div y
                    /\ P!ToInt(P!FloorDiv(P!OfInt(-x * 1009), P!OfInt(-y))) = (x * 1009) \div y
                    /\ P!ToInt(P!CeilDiv(P!OfInt(x * 1009), P!OfInt(y))) = -((-(x * 1009)) \div y)
                    /\ P!IsFloorDiv(P!OfInt((x * 1009) \div y), P!OfInt(x * 1009), P!OfInt(y))
                    /\ P!IsCeilDiv(P!OfInt(-((-(x * 1009)) \div y)), P!OfInt(x * 1009), P!OfInt(y))
                    /\ ~P!IsFloorDiv(P!OfInt(((x * 1009) \div y) + 1), P!OfInt(x * 1009), P!OfInt(y))
                    /\ ~P!IsCeilDiv(P!OfInt(-((-(x * 1009)) \div y) - 1), P!OfInt(x * 1009), P!OfInt(y))
        /\ P!IsBig(P!OfInt(x * 10007))

Bases == {-2147483647, -99999, -10000, -3, 0, 1, 7, 9999, 10000, 12345678, 2147483647}
Exps  == {1, 2, 9}
Grid  == {P!Pow(P!OfInt(b), k) : b \in Bases, k \in Exps}
        \cup {P!Add(P!Pow(P!OfInt(b), k), P!OfInt(d)) : b \in {-10000, 10000}, k \in {2, 9}, d \in {-1, 1}}

OverrideOK ==
    \A x \in Grid : \A y \in Grid :
        /\ J!Add(x, y) = P!Add(x, y)
        /\ J!Sub(x, y) = P!Sub(x, y)
        /\ J!Mul(x, y) = P!Mul(x, y)
        /\ J!Cmp(x, y) = P!Cmp(x, y)
        /\ P!IsBig(J!Mul(x, y))
        /\ J!Gcd(x, y) = P!Gcd(x, y)
        /\ y.s # 0 => /\ J!QuoT(x, y) = P!QuoT(x, y)
                      /\ J!RemT(x, y) = P!RemT(x, y)
                      /\ J!FloorDiv(x, y) = P!FloorDiv(x, y)
                      /\ J!CeilDiv(x, y) = P!CeilDiv(x, y)
                      /\ J!IsFloorDiv(J!FloorDiv(x, y), x, y)
                      /\ P!IsFloorDiv(P!FloorDiv(x, y), x, y)
                      /\ J!IsCeilDiv(J!CeilDiv(x, y), x, y)
                      /\ P!IsCeilDiv(P!CeilDiv(x, y), x, y)
                      /\ J!IsFloorDiv(x, x, y) = P!IsFloorDiv(x, x, y)
                      /\ J!IsCeilDiv(y, x, y) = P!IsCeilDiv(y, x, y)
                      /\ P!Add(P!Mul(P!QuoT(x, y), y), P!RemT(x, y)) = x

PowOK == \A b \in Bases : \A k \in Exps : J!Pow(J!OfInt(b), k) = P!Pow(P!OfInt(b), k)

ASSUME PrintT(<<"MCBigNum grid size", Cardinality(Grid)>>)
ASSUME NativeOK
ASSUME OverrideOK
ASSUME PowOK

VARIABLE x
Init == x = 0
Next == UNCHANGED x
Spec == Init /\ [][Next]_x
=============================================================================
