--------------------------- MODULE MCValsetPref ---------------------------
(* Bounded model of ValsetPref for exhaustive checking (native integers,      *)
(* weights in thousandths, rewards in whole coins) and for behaviour          *)
(* generation.  Every call is answered by a REFERENCE DESIGN (the outcome     *)
(* record the actions of ValsetPref.tla take): TLC checks that the reference  *)
(* satisfies every stated requirement (a failing requirement is a TLC error)  *)
(* and every property.  The shortest behaviour to every distinct state whose  *)
(* outcomes are uniquely determined by the stated properties (flag `exact`)   *)
(* is printed as JSON and executed on the real chain.                         *)
(* A refused call ends a behaviour; its shape is part of the state, so that   *)
(* every kind of refusal is generated.                                        *)
EXTENDS ValsetPref, TLC, Json

CONSTANTS Bal0,      \* initial balances, one per delegator
          NVal,      \* validators
          Amounts,   \* amounts of delegate / undelegate
          EnvAmounts, \* amounts of stake / unstake / lock
          Lists,     \* the preference lists submitted
          Lim        \* [kind -> calls of that kind per behaviour] and steps

IAdd(a, b) == a + b
ISub(a, b) == a - b
IMul(a, b) == a * b
ILe(a, b)  == a <= b
IDiv(a, b) == a \div b
IOfInt(n)  == n
MCReq(name, cond) == Assert(cond, <<"the reference design violates", name>>)

VARIABLES cnt,     \* [kind -> calls made]
          exact,   \* every outcome so far is the only one the stated properties allow, and lies
                   \* outside the deviations of the current tree recorded in docs/findings_x04.json
          rej,     \* <<kind, delegator, reason>> of the call just refused (<<>> otherwise)
          hist     \* Seq of steps [e, d, ok, ..., st : the state after]

mcvars == <<vars, cnt, exact, rej, hist>>

ND == Len(Bal0)
P(v, w) == [v |-> v, w |-> w]

\* the lists a delegator may submit: well formed ones with one to three validators, weights with two and
\* three digits, and one list per way of being malformed
Bad == { <<>>, <<P(1, 500), P(1, 500)>>, <<P(1, 500), P(4, 500)>>, <<P(1, 400), P(2, 500)>>, <<P(1, 600), P(2, 500)>>,
         <<P(1, 1000), P(2, 0)>>, <<P(1, 1250), P(2, -250)>> }
ListsA == { <<P(1, 1000)>>, <<P(1, 500), P(2, 500)>>, <<P(2, 250), P(3, 750)>>, <<P(3, 1000)>> } \cup Bad
ListsB == { <<P(1, 1000)>>, <<P(2, 1000)>>, <<P(1, 333), P(2, 667)>>, <<P(1, 60), P(3, 940)>>, <<P(1, 200), P(2, 300), P(3, 500)>>,
            <<P(1, 12), P(2, 988)>>, <<P(1, 334), P(2, 333), P(3, 333)>>, <<P(1, 505), P(2, 495)>> } \cup Bad
ListsC == { <<P(1, 1000)>>, <<P(1, 500), P(2, 500)>>, <<P(2, 1000)>>, <<P(1, 400), P(2, 500)>> }

Kinds == {"set", "delegate", "undel_old", "undelegate", "redelegate", "withdraw", "bonded",
          "stake", "unstake", "lock", "unlock", "synth", "accrue", "mature"}
LimOf(two, none, steps) == [k \in Kinds |-> IF k \in two THEN 2 ELSE IF k \in none THEN 0 ELSE 1] @@ [steps |-> steps]
\* A: preferences, delegation, undelegation, redelegation, rewards (no locks)
LimA == LimOf({"delegate"}, {"lock", "unlock", "synth", "bonded", "unstake"}, 6)
LimA7 == LimOf({"delegate", "undelegate"}, {"lock", "unlock", "synth", "bonded"}, 7)
\* B: the shapes of preference lists (rounding, malformed lists) with one delegation
LimB == LimOf({"set"}, {"lock", "unlock", "synth", "bonded", "stake", "unstake", "accrue", "mature", "withdraw", "undelegate", "undel_old"}, 4)
LimB2 == LimOf({"set", "delegate"}, {"lock", "unlock", "synth", "bonded", "stake", "unstake", "accrue", "mature", "withdraw", "undel_old"}, 5)
\* C: locks and DelegateBondedTokens
LimC == LimOf({"lock", "bonded"}, {"undelegate", "undel_old", "redelegate", "accrue", "withdraw", "mature"}, 5)
LimC6 == LimOf({"lock", "bonded"}, {"undel_old", "redelegate", "mature"}, 6)
\* D: two delegators
LimD == LimOf({"delegate", "set"}, {"lock", "unlock", "synth", "bonded", "undel_old", "mature"}, 5)
B1 == <<4>>
B2 == <<4, 2>>
B3 == <<8>>

Steps == Len(hist)

MCInit ==
    /\ conf = [id |-> 0, nd |-> ND, nv |-> NVal, maxEntries |-> 7]
    /\ pref = [d \in 1..ND |-> <<>>]
    /\ bal = Bal0
    /\ del = [d \in 1..ND |-> [v \in 1..NVal |-> 0]]
    /\ rec = [d \in 1..ND |-> [v \in 1..NVal |-> FALSE]]
    /\ unb = [d \in 1..ND |-> [v \in 1..NVal |-> [n |-> 0, t |-> 0]]]
    /\ rin = [d \in 1..ND |-> [v \in 1..NVal |-> 0]]
    /\ pend = [d \in 1..ND |-> [v \in 1..NVal |-> 0]]
    /\ locks = <<>>
    /\ gh = [in |-> Bal0]
    /\ ev = [e |-> "init", d |-> 0, ok |-> TRUE]
    /\ cnt = [k \in Kinds |-> 0]
    /\ exact = TRUE
    /\ rej = <<>>
    /\ hist = <<>>

Snap == [pref |-> pref', bal |-> bal', del |-> del', rec |-> rec', unb |-> unb', rin |-> rin', pend |-> pend', locks |-> locks']

\* bookkeeping common to every call c: counters, refusal shape, history
Book(c, reason, ex) ==
    /\ rej = <<>> /\ Steps < Lim.steps /\ cnt[c.e] < Lim[c.e]
    /\ cnt' = [cnt EXCEPT ![c.e] = @ + 1]
    /\ rej' = IF c.ok THEN <<>> ELSE <<c.e, c.d, reason>>
    /\ exact' = (exact /\ ex)
    /\ hist' = Append(hist, c @@ [st |-> Snap])

\* ------------------------------------------------------------------------
\* reference design

\* rounding to two significant digits; a tie (third digit 5) is rounded up here and marks the outcome inexact
Unit(g) == IF g >= 100 THEN 10 ELSE 1
Round2(g) == IF g <= 0 THEN g ELSE ((g + Unit(g) \div 2) \div Unit(g)) * Unit(g)
Tie(g) == g > 0 /\ Unit(g) = 10 /\ g % 10 = 5
RefStored(p) == [i \in 1..Len(p) |-> P(p[i].v, Round2(p[i].w))]
Perms(s) == { [i \in 1..Len(s) |-> s[f[i]]] : f \in { g \in [1..Len(s) -> 1..Len(s)] : \A i, j \in 1..Len(s) : i # j => g[i] # g[j] } }

ShapeOf(p) ==
    IF Len(p) = 0 THEN "empty"
    ELSE IF \E i \in 1..Len(p) : p[i].w < 0 THEN "negative-weight"
    ELSE IF \E i \in 1..Len(p) : p[i].w = 0 THEN "zero-weight"
    ELSE IF ~NoDup(p) THEN "duplicate"
    ELSE IF ~(PrefVals(p) \subseteq Vals) THEN "unknown"
    ELSE IF ~SumRoundsToOne(p) THEN "sum"
    ELSE "fine"

\* the design accepts a list iff it is well formed, new, and its ROUNDED weights sum to exactly one (S1)
ListAccepted(d, p) == ListOK(p, TRUE) /\ ~SameList(p, pref[d]) /\ SumW(RefStored(p)) = WUnit
\* ... the current tree also accepts when only the submitted weights do (docs/findings_x04.json): not replayed
ListUnclear(d, p) == ListOK(p, TRUE) /\ ~SameList(p, pref[d]) /\ SumW(RefStored(p)) # WUnit
WhyNot(d, p) == IF ShapeOf(p) # "fine" THEN ShapeOf(p) ELSE IF SameList(p, pref[d]) THEN "same" ELSE "rounded-sum"

\* rewards: the distribution module pays what is pending with v whenever d's delegation to v is touched
PayOut(d, S) == [pend EXCEPT ![d] = [v \in Vals |-> IF v \in S /\ rec[d][v] THEN 0 ELSE pend[d][v]]]

\* n has no prime factor other than 2 and 5: s/n has a finite decimal expansion
RECURSIVE Only25(_)
Only25(n) == IF n = 1 THEN TRUE ELSE IF n % 2 = 0 THEN Only25(n \div 2) ELSE IF n % 5 = 0 THEN Only25(n \div 5) ELSE FALSE
RECURSIVE Gcd(_, _)
Gcd(a, b) == IF b = 0 THEN a ELSE Gcd(b, a % b)
\* x * s / S is a whole number whatever the decimal precision of the ratio s / S
ExactPart(x, s, S) == s = 0 \/ ((x * s) % S = 0 /\ Only25(S \div Gcd(S, s)))

\* pro rata, rounded down; the units left over go, one each, to the first validators whose part is not whole
\* (used by delegate without preference and by undelegate; never more than the stake when x <= total stake)
ProRata(d, x) ==
    LET S == Stake(d)
        fl == [v \in Vals |-> IF rec[d][v] THEN (x * del[d][v]) \div S ELSE 0]
        left == x - SumN(fl)
        frac == {v \in Vals : rec[d][v] /\ (x * del[d][v]) % S # 0}
    IN  [v \in Vals |-> fl[v] + (IF v \in frac /\ Cardinality({u \in frac : u < v}) < left THEN 1 ELSE 0)]
ProRataExact(d, x) == \A v \in Vals : rec[d][v] => ExactPart(x, del[d][v], Stake(d))

\* D2: how x is split
SplitOf(d, x) ==
    IF pref[d] # <<>>
    THEN LET p == pref[d]
             fl == [v \in Vals |-> IF v \in PrefVals(p) THEN FloorShare(WeightOf(p, v), x) ELSE 0]
             last == p[Len(p)].v
         IN  [v \in Vals |-> IF v = last THEN x - (SumN(fl) - fl[v]) ELSE fl[v]]
    ELSE ProRata(d, x)
\* no validator without record would receive nothing (the current tree then leaves an empty record, D3)
SplitClean(d, x) == /\ \A v \in Touched(d) : SplitOf(d, x)[v] > 0 \/ rec[d][v]
                    \* whether a validator that receives nothing is touched (and pays its pending rewards) is left open
                    /\ \A v \in Touched(d) : SplitOf(d, x)[v] > 0 \/ pend[d][v] = 0
                    /\ pref[d] = <<>> => ProRataExact(d, x)

DelegateOutcome(d, x) ==
    LET inc == SplitOf(d, x) IN
    [inc |-> inc, rec |-> [v \in Vals |-> rec[d][v] \/ inc[v] > 0], pn |-> PayOut(d, Touched(d))]

Orders(d, p) == IF ListAccepted(d, p) THEN Perms(RefStored(p)) ELSE {RefStored(p)}

MCSet == \E d \in Dels, p \in Lists : \E s \in Orders(d, p) :
    LET c == [e |-> "set", d |-> d, ok |-> ListAccepted(d, p), prefs |-> p, shape |-> ShapeOf(p)] IN
    /\ SetPref(c, [stored |-> s])
    /\ Book(c, WhyNot(d, p), ~ListUnclear(d, p) /\ \A i \in 1..Len(p) : ~Tie(p[i].w))

MCDelegate == \E d \in Dels, x \in Amounts :
    LET ok == Basis(d) /\ x <= bal[d]
        c == [e |-> "delegate", d |-> d, ok |-> ok, x |-> x] IN
    /\ Delegate(c, IF ok THEN DelegateOutcome(d, x) ELSE [none |-> 0])
    \* balance < x <= balance + pending rewards: whether it works depends on the order of the payouts
    /\ Book(c, IF ~Basis(d) THEN "no-basis" ELSE "balance",
            (ok => SplitClean(d, x)) /\ (x <= bal[d] \/ x > bal[d] + Payable(d)))

MCUndelOld == \E d \in Dels, x \in EnvAmounts :
    LET c == [e |-> "undel_old", d |-> d, ok |-> FALSE, x |-> x] IN
    /\ UndelegateDisabled(c, [none |-> 0])
    /\ Book(c, "disabled", TRUE)

MCUndelegate == \E d \in Dels, x \in Amounts :
    LET ok == HasRec(d) /\ x <= Stake(d)
        dec == ProRata(d, x)
        c == [e |-> "undelegate", d |-> d, ok |-> ok, x |-> x] IN
    /\ Undelegate(c, IF ok THEN [dec |-> dec, rec |-> [v \in Vals |-> del[d][v] - dec[v] > 0],
                                 un |-> [v \in Vals |-> unb[d][v].n + (IF dec[v] > 0 THEN 1 ELSE 0)],
                                 pn |-> PayOut(d, {v \in Vals : rec[d][v]})]
                     ELSE [none |-> 0])
    \* without delegations the current tree answers differently with and without preference, both refuse
    /\ Book(c, IF ~HasRec(d) THEN "no-delegation" ELSE "too-much", ok => ProRataExact(d, x))

\* R2: every validator of the new list gets floor(weight * T), the rest goes to its last validator
RedelegateOutcome(d, p, s) ==
    LET E == ExistingSet(d)
        T == SetStake(d)
        fl == [v \in Vals |-> IF v \in PrefVals(s) THEN FloorShare(WeightOf(s, v), T) ELSE 0]
        last == s[Len(s)].v
        tg == [v \in Vals |-> IF v = last THEN T - (SumN(fl) - fl[v]) ELSE fl[v]]
        nd == [v \in Vals |-> (IF v \in E THEN 0 ELSE del[d][v]) + tg[v]]
    IN  [stored |-> s, nd |-> nd, rec |-> [v \in Vals |-> nd[v] > 0],
         ri |-> [v \in Vals |-> rin[d][v] + (IF nd[v] > del[d][v] THEN 1 ELSE 0)],
         pn |-> PayOut(d, {v \in Vals : nd[v] # del[d][v]})]
RedelegateExact(d, p, s) ==
    /\ ExistingSet(d) \cap PrefVals(p) = {}        \* overlapping sets: the current tree refuses (findings), not replayed
    /\ \A i \in 1..Len(s) : (s[i].w * SetStake(d)) % WUnit = 0
    /\ \A v \in ExistingSet(d) : del[d][v] > 0

MCRedelegate == \E d \in Dels, p \in Lists : \E s \in Orders(d, p) :
    LET E == ExistingSet(d)
        o == RedelegateOutcome(d, p, s)
        based == E # {} /\ \A v \in E : rec[d][v]
        free == \A v \in Vals : o.nd[v] < del[d][v] => rin[d][v] = 0
        ok == ListAccepted(d, p) /\ based /\ free
        c == [e |-> "redelegate", d |-> d, ok |-> ok, prefs |-> p, shape |-> ShapeOf(p)] IN
    /\ Redelegate(c, IF ok THEN o ELSE [none |-> 0])
    /\ Book(c, IF ~ListAccepted(d, p) THEN WhyNot(d, p) ELSE IF ~based THEN "no-existing-set" ELSE "blocked",
            /\ ~ListUnclear(d, p) /\ \A i \in 1..Len(p) : ~Tie(p[i].w)
            /\ ShapeOf(p) # "zero-weight"          \* the current tree accepts a weight of zero here (findings): not replayed
            /\ ok => RedelegateExact(d, p, s)
            \* a well-formed list on top of a blocked or missing existing set: both refuse, for sure
            /\ (ListAccepted(d, p) /\ based /\ ~free) => RedelegateExact(d, p, s))

MCWithdraw == \E d \in Dels :
    LET ok == HasRec(d)
        c == [e |-> "withdraw", d |-> d, ok |-> ok] IN
    /\ Withdraw(c, IF ok THEN [pn |-> PayOut(d, Vals)] ELSE [none |-> 0])
    /\ Book(c, "no-delegation", TRUE)

LockIds == {locks[i].id : i \in 1..Len(locks)}
WhyNotLock(d, id) ==
    LET i == LockIx(id) IN
    IF i = 0 THEN "unknown" ELSE IF locks[i].owner # d THEN "owner" ELSE IF ~locks[i].base THEN "denom"
    ELSE IF locks[i].long THEN "long" ELSE IF locks[i].unlocking THEN "unlocking" ELSE IF locks[i].synth THEN "synthetic"
    ELSE "no-basis"

MCBonded == \E d \in Dels, id \in LockIds \cup {9} :
    LET ok == Eligible(d, id) /\ Basis(d)
        x == locks[LockIx(id)].amt
        c == [e |-> "bonded", d |-> d, ok |-> ok, lock |-> id] IN
    /\ DelegateBonded(c, IF ok THEN DelegateOutcome(d, x) ELSE [none |-> 0])
    /\ Book(c, WhyNotLock(d, id), ok => SplitClean(d, x))

MCStake == \E d \in Dels, v \in Vals, x \in EnvAmounts :
    LET ok == x <= bal[d]
        c == [e |-> "stake", d |-> d, ok |-> ok, v |-> v, x |-> x] IN
    /\ DirectStake(c, IF ok THEN [rec |-> [rec[d] EXCEPT ![v] = TRUE], pn |-> PayOut(d, {v})] ELSE [none |-> 0])
    /\ Book(c, "balance", x <= bal[d] \/ x > bal[d] + Payable(d))

MCUnstake == \E d \in Dels, v \in Vals, x \in EnvAmounts :
    LET ok == rec[d][v] /\ x <= del[d][v]
        c == [e |-> "unstake", d |-> d, ok |-> ok, v |-> v, x |-> x] IN
    /\ rec[d][v]                                   \* unstaking from nobody: not interesting
    /\ DirectUnstake(c, IF ok THEN [rec |-> [rec[d] EXCEPT ![v] = del[d][v] - x > 0], pn |-> PayOut(d, {v})] ELSE [none |-> 0])
    /\ Book(c, "too-much", TRUE)

\* one lock per (owner, denomination, duration): a second one would be merged into the first by x/lockup
MCLock == \E d \in Dels, base \in BOOLEAN, long \in BOOLEAN, x \in EnvAmounts :
    LET ok == base => x <= bal[d]
        c == [e |-> "lock", d |-> d, ok |-> ok, x |-> x, base |-> base, long |-> long, lock |-> cnt["lock"] + 1] IN
    /\ ok
    /\ ~\E i \in 1..Len(locks) : locks[i].owner = d /\ locks[i].base = base /\ locks[i].long = long
    /\ Lock(c, [id |-> c.lock])
    /\ Book(c, "", TRUE)

MCUnlock == \E id \in LockIds :
    LET c == [e |-> "unlock", d |-> 0, ok |-> TRUE, lock |-> id] IN
    /\ ~locks[LockIx(id)].unlocking /\ ~locks[LockIx(id)].synth
    /\ BeginUnlock(c, [none |-> 0])
    /\ Book(c, "", TRUE)

MCSynth == \E id \in LockIds :
    LET c == [e |-> "synth", d |-> 0, ok |-> TRUE, lock |-> id] IN
    /\ ~locks[LockIx(id)].unlocking /\ ~locks[LockIx(id)].synth
    /\ Synth(c, [none |-> 0])
    /\ Book(c, "", TRUE)

\* validator v earns k coins per staked token
MCAccrue == \E v \in Vals :
    LET c == [e |-> "accrue", d |-> 0, ok |-> TRUE, v |-> v, k |-> 1] IN
    /\ \E d \in Dels : rec[d][v]
    /\ Accrue(c, [pn |-> [d \in Dels |-> [u \in Vals |-> IF u = v /\ rec[d][u] THEN pend[d][u] + del[d][u] ELSE pend[d][u]]]])
    /\ Book(c, "", TRUE)

MCMature ==
    LET c == [e |-> "mature", d |-> 0, ok |-> TRUE] IN
    /\ \E d \in Dels, v \in Vals : unb[d][v].n > 0 \/ rin[d][v] > 0
    /\ Mature(c)
    /\ Book(c, "", TRUE)

MCNext == MCSet \/ MCDelegate \/ MCUndelOld \/ MCUndelegate \/ MCRedelegate \/ MCWithdraw \/ MCBonded
          \/ MCStake \/ MCUnstake \/ MCLock \/ MCUnlock \/ MCSynth \/ MCAccrue \/ MCMature
MCSpec == MCInit /\ [][MCNext]_mcvars

\* ev is the label of the last transition: not part of the identity of a state
View == <<conf, pref, bal, del, rec, unb, rin, pend, locks, cnt, exact, rej>>

Emit == (hist # <<>> /\ exact) => PrintT(<<"GEN", ToJson([conf |-> conf, bal0 |-> Bal0, steps |-> hist])>>)
=============================================================================
