------------------------------ MODULE MCLockup ------------------------------
(* Bounded model of Lockup for exhaustive checking and for behaviour          *)
(* generation: every distinct state contributes the (shortest) action         *)
(* sequence that reaches it, the state the specification expects there, and   *)
(* the calls the specification refuses there; the Go harness executes them on *)
(* the real msg server / keeper (each action once: the behaviours form a      *)
(* prefix tree).                                                              *)
EXTENDS Lockup, Sequences, TLC, Json

CONSTANTS MOwners, MDenoms, Durs, Amts, Fund, MaxLocks, MaxT, MaxSteps, Dts, Allowed

VARIABLE hist

MCInit == /\ InitWith([o \in MOwners |-> [d \in MDenoms |-> Fund]], 0, 0)
          /\ hist = <<>>

MinOf(S) == CHOOSE x \in S : \A y \in S : x <= y
Room == Cardinality(Ids) < MaxLocks
Other(o) == CHOOSE p \in Owners : p # o
DenomOf(id) == CHOOSE d \in Denoms : locks[id].coins[d] > 0

\* an action instance: <<name, owner, denom, x, amount, id, receiver>> ("" / 0 where not applicable;
\* x = duration / time step / expected id of the lock that starts unlocking)
Act(a, o, d, x, amt, id, r) == <<a, o, d, x, amt, id, r>>
Rec(h) == hist' = Append(hist, h)

MCLock == \E o \in Owners, d \in Denoms, dur \in Durs, amt \in Amts :
    LET M == Matching(o, d, dur)
        id == IF M = {} THEN lastId + 1 ELSE MinOf(M) IN
    /\ M = {} => Room
    /\ LockTokens(o, d, dur, amt, id)
    /\ Rec(Act("lock", o, d, dur, amt, id, ""))

MCAdd == \E id \in Ids, amt \in Amts :
    /\ AddTokens(id, locks[id].owner, DenomOf(id), amt)
    /\ Rec(Act("add", locks[id].owner, DenomOf(id), 0, amt, id, ""))

MCBegin == \E id \in Ids, amt \in {0} \cup Amts :
    LET d == DenomOf(id)
        c == One(d, amt)
        nid == IF IsWhole(id, c) THEN id ELSE lastId + 1 IN
    /\ ~IsWhole(id, c) => Room
    /\ BeginUnlock(id, locks[id].owner, c, nid)
    /\ Rec(Act("begin", locks[id].owner, d, nid, amt, id, ""))

MCBeginAll == \E o \in Owners :
    /\ \E id \in Ids : locks[id].owner = o /\ ~Unlocking(locks[id])
    /\ BeginUnlockAll(o)
    /\ Rec(Act("beginall", o, "", 0, 0, 0, ""))

MCUnlock == \E id \in Ids :
    /\ UnlockMatured(id)
    /\ Rec(Act("unlock", "", "", 0, 0, id, ""))

MCWithdraw ==
    /\ MaturedIds # {}
    /\ WithdrawMatured(MaturedIds)
    /\ Rec(Act("withdraw", "", "", 0, 0, 0, ""))

MCExtend == \E id \in Ids, nd \in Durs :
    /\ ExtendLockup(id, locks[id].owner, nd)
    /\ Rec(Act("extend", locks[id].owner, "", nd, 0, id, ""))

MCSetRR == \E id \in Ids, r \in Owners :
    /\ SetRewardReceiver(id, locks[id].owner, r)
    /\ Rec(Act("setrr", locks[id].owner, "", 0, 0, id, r))

MCForce == \E id \in Ids, amt \in {0} \cup Amts :
    LET d == DenomOf(id)
        c == One(d, amt)
        nid == IF IsWhole(id, c) THEN id ELSE lastId + 1 IN
    /\ ForceUnlock(id, locks[id].owner, c, nid, Allowed)
    /\ Rec(Act("force", locks[id].owner, d, 0, amt, id, ""))

MCAdvance == \E dt \in Dts :
    /\ now + dt <= MaxT
    /\ AdvanceTime(dt)
    /\ Rec(Act("advance", "", "", dt, 0, 0, ""))

MCNext == /\ Len(hist) < MaxSteps
          \* (rarer actions first: a state reachable by several actions is credited to the first one)
          /\ (MCUnlock \/ MCWithdraw \/ MCAdd \/ MCForce \/ MCExtend \/ MCBeginAll \/ MCBegin \/ MCSetRR
                \/ MCAdvance \/ MCLock)
MCSpec == MCInit /\ [][MCNext]_<<vars, hist>>

\* the step count is part of the view: with several workers the search is not strictly breadth
\* first, and the bound on Len(hist) would otherwise make the explored set vary from run to run
View == <<locks, bal, modBal, now, lastId, refs, accum, Len(hist)>>
\* for behaviour generation the last action is part of the view as well: confluent actions (a matured
\* lock withdrawn by its owner / force-unlocked by a listed owner / swept) each get their behaviour
GenView == <<locks, bal, modBal, now, lastId, refs, accum, Len(hist), op>>

---------------------------------------------------------------------------
(* design-level invariants specific to the bounded model *)
ScansAgreeMC == ScansAgree((now - 1)..(now + 4), 0..4)

---------------------------------------------------------------------------
(* calls the specification refuses in the current state (a fixed family of    *)
(* near misses: wrong owner, overdraft, not longer, not matured, ...)         *)
Refusals ==
    {Act("lock", o, d, 1, bal[o][d] + 1, 0, "") : o \in Owners, d \in Denoms}
    \cup {Act("begin", Other(locks[id].owner), DenomOf(id), 0, 0, id, "") : id \in Ids}
    \cup {Act("begin", locks[id].owner, DenomOf(id), 0, locks[id].coins[DenomOf(id)] + 1, id, "") : id \in Ids}
    \cup {Act("begin", locks[id].owner, DenomOf(id), 0, 0, id, "") : id \in {i \in Ids : Unlocking(locks[i])}}
    \cup {Act("begin", o, CHOOSE d \in Denoms : TRUE, 0, 0, lastId + 1, "") : o \in Owners}
    \cup {Act("extend", Other(locks[id].owner), "", locks[id].dur + 1, 0, id, "") : id \in Ids}
    \cup {Act("extend", locks[id].owner, "", locks[id].dur, 0, id, "") : id \in Ids}
    \cup {Act("extend", locks[id].owner, "", locks[id].dur - 1, 0, id, "") : id \in {i \in Ids : locks[i].dur > 1}}
    \cup {Act("extend", locks[id].owner, "", locks[id].dur + 1, 0, id, "") : id \in {i \in Ids : Unlocking(locks[i])}}
    \cup {Act("unlock", "", "", 0, 0, id, "") : id \in {i \in Ids : ~Matured(i)}}
    \cup {Act("unlock", "", "", 0, 0, lastId + 1, "")}
    \cup {Act("setrr", Other(locks[id].owner), "", 0, 0, id, locks[id].owner) : id \in Ids}
    \cup {Act("setrr", locks[id].owner, "", 0, 0, id, IF locks[id].rr = "" THEN locks[id].owner ELSE locks[id].rr) : id \in Ids}
    \cup {Act("force", locks[id].owner, DenomOf(id), 0, 0, id, "") : id \in {i \in Ids : locks[i].owner \notin Allowed}}
    \cup {Act("force", Other(locks[id].owner), DenomOf(id), 0, 0, id, "") : id \in Ids}
    \cup {Act("add", Other(locks[id].owner), DenomOf(id), 0, 1, id, "")
            : id \in {i \in Ids : bal[Other(locks[i].owner)][DenomOf(i)] > 0}}
    \cup {Act("add", locks[id].owner, DenomOf(id), 0, bal[locks[id].owner][DenomOf(id)] + 1, id, "") : id \in Ids}

\* every member of Refusals really is refused by the specification
RefusalsAreRefused == \A r \in Refusals :
    LET a == r[1]  o == r[2]  d == r[3]  x == r[4]  amt == r[5]  id == r[6]  rc == r[7] IN
    CASE a = "lock"   -> ~CanLock(o, d, x, amt)
      [] a = "begin"  -> ~CanBegin(id, o, One(d, amt))
      [] a = "extend" -> ~CanExtend(id, o, x)
      [] a = "unlock" -> ~CanUnlock(id)
      [] a = "setrr"  -> ~CanSetReceiver(id, o, rc)
      [] a = "force"  -> ~CanForce(id, o, One(d, amt), Allowed)
      [] a = "add"    -> ~CanAdd(id, o, d, amt)

---------------------------------------------------------------------------
(* emission for the replay generator *)
\* (the reference index the specification expects is DerivedRefs(locks) - invariant RefsExact -,
\* recomputed by the harness from the expected lock records to keep the documents small)
StateDoc ==
    [locks |-> {[id |-> id, o |-> locks[id].owner, dur |-> locks[id].dur, end |-> locks[id].end,
                 c |-> locks[id].coins, rr |-> locks[id].rr] : id \in Ids},
     bal |-> bal, mod |-> modBal, now |-> now, lastId |-> lastId, allowed |-> Allowed,
     acc |-> [d \in Denoms |-> [x \in 1..5 |-> AccAtLeast(accum, d, x - 1)]]]

\* refusals are tried in the interior states only (the leaves are 95% of the states and add
\* no new lock situations)
Emit ==
    PrintT(<<"GEN", ToJson([h |-> hist, st |-> StateDoc,
                            refused |-> IF Len(hist) < MaxSteps THEN Refusals ELSE {}])>>)
=============================================================================
