SPECIFICATION MCSpec
CONSTANTS
  CConf <- CfgA
  Deltas = {0, 1, 2, 5}
  MaxT = 9
  Writes = {1}
  MaxH = 6
VIEW View
INVARIANTS Grid NotBeforeStart SignalOrder
PROPERTIES AtMostOneTick TickExactlyWhenDue AbortRestores NobodySkipped
CHECK_DEADLOCK FALSE
