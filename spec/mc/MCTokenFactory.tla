--------------------------- MODULE MCTokenFactory ---------------------------
(* Bounded model of TokenFactory: exhaustive checking of the authorisation    *)
(* properties, and the behaviour generator.  The alphabet is the same in      *)
(* every state (every sender x every message kind x every argument), so the   *)
(* generator prints, for every distinct reachable state, the shortest         *)
(* message sequence that reaches it, the state the specification expects      *)
(* there and the table of messages the specification ACCEPTS there with       *)
(* their effect; every other message of the alphabet must be refused and      *)
(* must change nothing.  The Go harness walks the prefix tree of these        *)
(* sequences on the real msg server and tries the whole alphabet at every     *)
(* node: every edge of the reduced state graph is executed on the real code.  *)
EXTENDS TokenFactory, Sequences, TLC, Json

CONSTANTS Senders,    \* who sends messages (ordinary and module accounts)
          Creators,   \* senders that try to create denominations
          Subs, Amts, Metas,
          BadHooks,   \* addresses that are not contracts
          MaxSteps

VARIABLE hist

Universe == Creators \X Subs

Alphabet ==
    {Msg("create", s, "", sub, 0, "", "") : s \in Creators, sub \in Subs}
    \cup UNION {
         {Msg("mint", s, d[1], d[2], a, x, "") : s \in Senders, a \in Amts, x \in Holders \cup {""}}
         \cup {Msg("burn", s, d[1], d[2], a, x, "") : s \in Senders, a \in Amts, x \in Holders \cup {""}}
         \cup {Msg("force", s, d[1], d[2], a, x, y) : s \in Senders, a \in Amts, x \in Holders, y \in Holders}
         \cup {Msg("admin", s, d[1], d[2], 0, x, "") : s \in Senders, x \in Holders \cup {""}}
         \cup {Msg("meta", s, d[1], d[2], 0, x, "") : s \in Senders, x \in Metas}
         \cup {Msg("hook", s, d[1], d[2], 0, x, "") : s \in Senders, x \in Hooks \cup BadHooks \cup {""}}
         \cup UNION {{Msg("send", s, d[1], d[2], a, x, "") : a \in Amts, x \in Holders \ {s}} : s \in Accts}
       : d \in Universe}

MCInit == InitEmpty /\ hist = <<>>

MCNext == /\ Len(hist) < MaxSteps
          /\ \E m \in Alphabet :
                /\ Deliver(m, Can(St, m), FALSE)
                /\ hist' = Append(hist, m)
MCSpec == MCInit /\ [][MCNext]_<<vars, hist>>

\* model checking: the step count is part of the view (search with several workers is not strictly
\* breadth first); generation runs with one worker and identifies states regardless of depth
View    == <<state, Len(hist)>>
GenView == state

---------------------------------------------------------------------------
DenomDoc(s, d) == [c |-> d[1], sub |-> d[2], admin |-> s.admin[d], bal |-> s.bal[d], supply |-> s.supply[d],
                   meta |-> s.meta[d], hook |-> s.hook[d]]
StDoc(s) == {DenomDoc(s, d) : d \in DOMAIN s.admin}
Accepted == {m \in Alphabet : Can(St, m)}
Doc == [path |-> hist,
        st |-> StDoc(St),
        nalpha |-> Cardinality(Alphabet),
        ok |-> {[m |-> m, post |-> DenomDoc(Eff(St, m), DenomOf(m))] : m \in Accepted}]
Emit == PrintT(<<"GEN", ToJson(Doc)>>)
Header == [accts |-> Accts, mods |-> Mods, hooks |-> Hooks, badhooks |-> BadHooks, broke |-> Broke, senders |-> Senders,
           creators |-> Creators, subs |-> Subs, amts |-> Amts, metas |-> Metas, maxsteps |-> MaxSteps]
ASSUME PrintT(<<"HDR", ToJson(Header)>>)
=============================================================================
