------------------------------ MODULE MCTxFees ------------------------------
(* Bounded model of TxFees for exhaustive checking (native integers, gas      *)
(* prices in halves) and for behaviour generation: the shortest behaviour to  *)
(* every distinct (state, last call) is printed as JSON and replayed on the   *)
(* real application (real signed transactions through CheckTx / FinalizeBlock).*)
(* Denominations o (base), f, g, z (held by no pool).  Pools 1 {o, f},        *)
(* 2 {o, g}, 3 {f, g} (no base denomination), 5 {o, f} (a second market for   *)
(* f with another price); pool id 4 does not exist.  A model gas unit is 10^6 *)
(* units of gas of the code, a model price p is p / (2 * 10^6) per unit of gas.*)
(* Ties (a fee worth exactly half a unit less than required) follow the        *)
(* reference design round-half-to-even, which is what the replay expects.      *)
EXTENDS TxFees, TLC, Json

CONSTANTS Family,      \* node / chain price settings, see Opts
          MaxTx, MaxReg, MaxTrade, MaxCommit, MaxConv,
          ModesOn,     \* subset of Modes
          RegSet,      \* "all" | "few": the lists offered to governance / the message
          FeeSet,      \* "all" | "few"
          TwoSigners,  \* BOOLEAN
          HistOn       \* BOOLEAN: behaviour generation

IAdd(a, b) == a + b
ISub(a, b) == a - b
IMul(a, b) == a * b
ILe(a, b)  == a <= b
IFloorDiv(a, b) == a \div b

VARIABLES cnt,    \* [tx, reg, trade, commit, conv, recheck : Nat]
          mem,    \* <<>> or <<[t : the first transaction CheckTx let into the node's mempool that is still there,
                  \*           c : a block was committed since]>> - the candidate for RecheckTx
          tag,    \* the shape of the last call (entry point, mode, outcome class, fee denominations, gas class, ...):
                  \* the generator emits one behaviour per distinct (state, shape of the call that led to it), so that
                  \* neither refused calls nor different calls with the same effect are collapsed into one
          hist    \* Seq of steps

Den == {"o", "f", "g", "z"}
Pay2 == {"A", "B"}

\* [min, arb, high, cmin] in halves per model gas unit; hthr = 3 and maxgas = 5 model gas units
Opts == CASE Family = "std"  -> [min |-> 1, arb |-> 3, high |-> 2, cmin |-> 1]     \* node at the consensus minimum, surcharges
          [] Family = "free" -> [min |-> 0, arb |-> 0, high |-> 0, cmin |-> 0]     \* everything free: fee-less transactions pass
          [] Family = "node" -> [min |-> 3, arb |-> 0, high |-> 0, cmin |-> 1]     \* node asks more than consensus
          [] Family = "cons" -> [min |-> 0, arb |-> 2, high |-> 0, cmin |-> 2]     \* consensus minimum above the node's

Conf == [id |-> 0, denoms |-> Den, payers |-> Pay2, setters |-> {"B"},
         min |-> Opts.min, arb |-> Opts.arb, high |-> Opts.high, cmin |-> Opts.cmin, hthr |-> 3, maxgas |-> 5]

Q(n, d) == <<n, d>>
Pools0 == [p \in {1, 2, 3, 5} |->
            CASE p = 1 -> [denoms |-> {"o", "f"}, q |-> [d \in {"f"} |-> Q(3, 2)]]
              [] p = 2 -> [denoms |-> {"o", "g"}, q |-> [d \in {"g"} |-> Q(2, 1)]]
              [] p = 3 -> [denoms |-> {"f", "g"}, q |-> [d \in {} |-> Q(1, 1)]]
              [] p = 5 -> [denoms |-> {"o", "f"}, q |-> [d \in {"f"} |-> Q(1, 1)]]]
\* the quotes a trade can move a pool to
TradeQ(p) == CASE p = 1 -> {Q(3, 2), Q(1, 2)} [] p = 2 -> {Q(2, 1), Q(1, 2)} [] p = 5 -> {Q(1, 1), Q(5, 2)} [] OTHER -> {}

F0 == [d \in Den |-> 0]
Bal0 == [a \in Pay2 \cup {"coll", "nn", "rest"} |->
            CASE a = "A" -> [d \in Den |-> CASE d = "o" -> 6 [] d = "f" -> 5 [] d = "g" -> 2 [] OTHER -> 1]
              [] a = "B" -> [d \in Den |-> CASE d = "o" -> 1 [] d = "f" -> 2 [] OTHER -> 0]
              [] OTHER -> F0]

FT(d, p) == [d |-> d, p |-> p]
RegListsAll ==
    { <<FT(d, p)>> : d \in {"f", "g"}, p \in {0, 1, 2, 3, 4, 5} }
    \cup { <<FT("o", 1)>>, <<FT("o", 0)>>, <<FT("z", 1)>>, <<FT("z", 0)>>, <<>> }
    \cup { <<FT("f", 1), FT("g", 2)>>, <<FT("f", 1), FT("g", 3)>>, <<FT("g", 4), FT("f", 1)>>,
           <<FT("f", 1), FT("f", 0)>>, <<FT("f", 0), FT("f", 5)>>, <<FT("f", 1), FT("f", 5)>>, <<FT("g", 2), FT("z", 0)>> }

RegLists == IF RegSet = "all" THEN RegListsAll
            ELSE { <<FT("f", 1), FT("g", 2)>>, <<FT("f", 5)>>, <<FT("f", 0)>>, <<FT("g", 3)>> }

C(d, x) == [d |-> d, x |-> x]
Fees == IF FeeSet = "few" THEN { <<>>, <<C("o", 1)>>, <<C("o", 2)>>, <<C("f", 1)>>, <<C("f", 2)>>, <<C("g", 1)>>, <<C("f", 1), C("o", 1)>> } ELSE
        { <<>>, <<C("o", 1)>>, <<C("o", 2)>>, <<C("o", 3)>>, <<C("o", 5)>>, <<C("f", 1)>>, <<C("f", 2)>>, <<C("f", 3)>>,
          <<C("g", 1)>>, <<C("g", 3)>>, <<C("z", 1)>>, <<C("f", 1), C("o", 1)>>, <<C("f", 2), C("g", 1)>> }
Whos == IF TwoSigners THEN {<<"A">>, <<"B">>, <<"B", "A">>} ELSE {<<"A">>, <<"B">>}
\* exec : what the messages do once the ante phase is passed (an input of the specification)
Txs == { [who |-> w, fee |-> f, gas |-> g, arb |-> ar, sig |-> s, exec |-> x] :
            w \in Whos, f \in Fees, g \in {2, 3, 6}, ar \in BOOLEAN, s \in {"good", "bad"}, x \in {"ok", "exec"} }
\* sub-alphabet: an arbitrage-looking transaction is built from swaps that fail; bad signatures and failing
\* messages only on plain transactions
TxOK(t) == /\ (t.arb => t.exec = "exec" /\ t.sig = "good" /\ t.gas = 2)
           /\ (t.sig = "bad" => t.exec = "ok" /\ t.gas = 2)
           /\ (t.exec = "exec" /\ ~t.arb => t.gas = 2)
           /\ (Len(t.who) = 2 => t.gas = 2 /\ ~t.arb /\ t.sig = "good")

Strip(t) == [who |-> t.who, fee |-> t.fee, gas |-> t.gas, arb |-> t.arb, sig |-> t.sig]

\* reference design for ties: round half to even, i.e. x n / d = r - 1/2 rounds up to r iff r is even
TieHE(tx, mode) ==
    LET p == PriceFor(Strip(tx), mode) IN
    IF p = 0 \/ Len(tx.fee) # 1 THEN FALSE ELSE Required(p, tx.gas) % 2 = 0

MCInit ==
    /\ cf = Conf /\ base = "o"
    /\ reg = [d \in Den |-> 0]
    /\ pools = Pools0
    /\ bal = Bal0 /\ chk = Bal0
    /\ sent = [a \in Pay2 |-> 0]
    /\ last = Call("init", [x |-> 0], [ok |-> TRUE])
    /\ cnt = [tx |-> 0, reg |-> 0, trade |-> 0, commit |-> 0, conv |-> 0, recheck |-> 0]
    /\ mem = <<>>
    /\ tag = <<"chg">>
    /\ hist = <<>>

\* JSON-friendly form of the pools (ids are not 1..n)
PJ(ps) == {[id |-> p, denoms |-> ps[p].denoms,
            q |-> {[d |-> d, n |-> ps[p].q[d][1], m |-> ps[p].q[d][2]] : d \in DOMAIN ps[p].q}] : p \in DOMAIN ps}
Core == <<reg, pools, bal, chk, sent>>
Rec0(step) == hist' = IF HistOn THEN Append(hist, step @@ [st |-> [reg |-> reg', bal |-> bal', chk |-> chk', sent |-> sent']]) ELSE hist
\* shape : what distinguishes this call from other calls that change nothing in the same state
Rec(step, shape) == Rec0(step) /\ tag' = shape
Bump(f) == cnt' = [cnt EXCEPT ![f] = @ + 1]

\* why the ante phase refuses (first failing requirement, in the order of the specification)
Reason(t, mode, tie) ==
    IF ~OneDenom(t) THEN "many" ELSE IF ~DenomAllowed(t) THEN "denom" ELSE IF ~GasOK(t, mode) THEN "gas"
    ELSE IF ~FloorMet(t, mode, tie) THEN "floor" ELSE IF ~CanPay(t, IF mode = "deliver" THEN bal ELSE chk) THEN "funds"
    ELSE IF mode # "recheck" /\ t.sig # "good" THEN "sig" ELSE "pass"
FeeDenoms(t) == [i \in 1..Len(t.fee) |-> t.fee[i].d]
TxShape(t, mode, tie) == <<"tx", mode, Reason(Strip(t), mode, tie), FeeDenoms(t), t.gas, t.arb, t.exec>>

\* a later transaction of one of its signers takes the candidate's place in the mempool (same account sequence)
Overlap(t) == mem # <<>> /\ Signers(Strip(t)) \cap Signers(Strip(mem[1].t)) # {}
Aged == IF mem = <<>> THEN mem ELSE <<[mem[1] EXCEPT !.c = TRUE]>>

MCGov == \E fts \in RegLists : \E ok \in BOOLEAN :
    /\ cnt.reg < MaxReg
    /\ Gov(fts, ok) /\ Bump("reg") /\ mem' = Aged
    /\ Rec([e |-> "gov", fts |-> fts, ok |-> ok], <<"gov", fts>>)

MCSetMsg == \E by \in Pay2 : \E fts \in RegLists \ {<<>>} : \E ok \in BOOLEAN :
    /\ cnt.reg < MaxReg
    /\ SetMsg(by, fts, ok) /\ Bump("reg") /\ mem' = Aged
    /\ Rec([e |-> "setmsg", by |-> by, fts |-> fts, ok |-> ok], <<"setmsg", by, fts>>)

MCTrade == \E p \in DOMAIN pools : \E q \in TradeQ(p) :
    /\ cnt.trade < MaxTrade
    /\ q # pools[p].q[CHOOSE d \in DOMAIN pools[p].q : TRUE]
    /\ Trade(p, [d \in DOMAIN pools[p].q |-> q]) /\ Bump("trade") /\ mem' = Aged
    /\ Rec([e |-> "trade", p |-> p, q |-> q], <<"trade">>)

MCDeliver == \E t \in Txs :
    /\ TxOK(t) /\ "deliver" \in ModesOn /\ cnt.tx < MaxTx
    /\ LET res == IF AnteOK(Strip(t), "deliver", TieHE(t, "deliver")) THEN t.exec ELSE "ante" IN
        /\ Deliver(Strip(t), res, TieHE(t, "deliver")) /\ Bump("tx")
        /\ mem' = IF res # "ante" /\ Overlap(t) THEN <<>> ELSE Aged
        /\ Rec([e |-> "tx", mode |-> "deliver", tx |-> t, res |-> res], TxShape(t, "deliver", TieHE(t, "deliver")))

MCCheck == \E t \in Txs :
    /\ TxOK(t) /\ "check" \in ModesOn /\ cnt.tx < MaxTx
    /\ t.exec = "ok"                               \* messages are not executed in this mode
    /\ LET res == IF AnteOK(Strip(t), "check", TieHE(t, "check")) THEN "ok" ELSE "ante" IN
        /\ Check(Strip(t), "check", res, TieHE(t, "check")) /\ Bump("tx")
        /\ mem' = IF res # "ok" THEN mem
                  ELSE IF mem = <<>> THEN <<[t |-> t, c |-> FALSE]>>
                  ELSE IF mem[1].c /\ Overlap(t) THEN <<>> ELSE mem
        /\ Rec([e |-> "tx", mode |-> "check", tx |-> t, res |-> res], TxShape(t, "check", TieHE(t, "check")))

\* the node rechecks what sits in its mempool after a block was committed (signatures are not looked at again)
MCRecheck ==
    /\ mem # <<>> /\ mem[1].c /\ chk = bal /\ "recheck" \in ModesOn /\ cnt.recheck < 1
    /\ LET t == mem[1].t
           res == IF AnteOK(Strip(t), "recheck", TieHE(t, "recheck")) THEN "ok" ELSE "ante" IN
        /\ Check(Strip(t), "recheck", res, TieHE(t, "recheck")) /\ Bump("recheck")
        /\ mem' = IF res = "ok" THEN mem ELSE <<>>
        /\ Rec([e |-> "tx", mode |-> "recheck", tx |-> t, res |-> res], TxShape(t, "recheck", TieHE(t, "recheck")))

\* simulation: the specification only says when it cannot succeed; "any" = the outcome is left open
MCSim == \E t \in Txs :
    /\ TxOK(t) /\ "sim" \in ModesOn /\ cnt.tx < MaxTx
    /\ t.exec = "ok" /\ t.sig = "good" /\ t.gas = 2 /\ ~t.arb
    /\ LET open == OneDenom(Strip(t)) /\ DenomAllowed(Strip(t)) IN
        /\ Simulate(Strip(t), IF open THEN "ok" ELSE "fail") /\ Bump("tx") /\ mem' = mem
        /\ Rec([e |-> "tx", mode |-> "sim", tx |-> t, res |-> IF open THEN "any" ELSE "fail"], <<"sim", FeeDenoms(t)>>)

MCCommit ==
    /\ cnt.commit < MaxCommit
    /\ (chk # bal \/ (mem # <<>> /\ ~mem[1].c))
    /\ Commit /\ Bump("commit") /\ mem' = Aged
    /\ Rec([e |-> "commit"], <<"commit">>)

\* ConvertToBaseToken with the reference rounding (half to even)
HalfEven(x, q) ==
    LET n == x * q[1]  k == n \div q[2]  r == n % q[2] IN
    IF 2 * r < q[2] THEN k ELSE IF 2 * r > q[2] THEN k + 1 ELSE IF k % 2 = 0 THEN k ELSE k + 1
MCConvert == \E c \in {C(d, x) : d \in Den, x \in {1, 2, 3}} :
    /\ cnt.conv < MaxConv
    /\ LET ok == ConvertOK(c)
           w  == IF ~ok THEN 0 ELSE IF c.d = base THEN c.x ELSE HalfEven(c.x, Quote(c.d)) IN
        /\ Convert(c, ok, w) /\ Bump("conv") /\ mem' = mem
        /\ Rec([e |-> "conv", coin |-> c, ok |-> ok, w |-> w], <<"conv", c>>)

MCNext == MCGov \/ MCSetMsg \/ MCTrade \/ MCDeliver \/ MCCheck \/ MCRecheck \/ MCSim \/ MCCommit \/ MCConvert
MCSpec == MCInit /\ [][MCNext]_<<vars, cnt, mem, tag, hist>>

\* model checking: calls that change nothing are self-loops; generation: one state per refusal shape
View == <<cf, base, reg, pools, bal, chk, sent, cnt, mem>>
GenView == <<cf, base, reg, pools, bal, chk, sent, cnt, mem, tag>>

\* queries in every state: the registry answers are well defined (sanity of the model itself)
QueriesDefined == \A d \in Den : QPoolId(d).ok = (reg[d] # 0)

Emit == (HistOn /\ hist # <<>>) => PrintT(<<"GEN", ToJson([family |-> Family, cf |-> cf, bal0 |-> Bal0, pools0 |-> PJ(Pools0), steps |-> hist])>>)
=============================================================================
