SPECIFICATION MCSpec
CONSTANTS
  NAdd <- IAdd
  NSub <- ISub
  NMul <- IMul
  NNeg <- INeg
  NCmp <- ICmp
  NQuoT <- IQuoT
  NEven <- IEven
  NOfInt <- IOfInt
  NPow10 <- IPow10
  Digits <- MCDigits
  Bounds <- MCBounds
  R = 40
  W = 3
  Fams = {"bd", "dec"}
  Sel = {}
INVARIANTS Exact ModelOK
PROPERTIES TwinAgree
CHECK_DEADLOCK FALSE
