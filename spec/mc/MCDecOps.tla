------------------------------ MODULE MCDecOps ------------------------------
(* Bounded exhaustive model of DecOps (C12) over TLC's native integers:      *)
(* BigDec has 2 decimals (scale 100), Dec has 1 (scale 10), operands are all *)
(* raw values in -R..R (every tie, both signs, all sign combinations).       *)
(*                                                                           *)
(* From every seed operand a, every operation of both families is applied to *)
(* every second operand b (and precision p); the outcome is chosen           *)
(* NONDETERMINISTICALLY among ok/failed and the results within W of the      *)
(* directly computed one, constrained only by the action Call of DecOps.     *)
(* Then the mutating twin of the call is taken the same way.  Checked:       *)
(*   Exact, TwinAgree   the properties of DecOps;                            *)
(*   Unique             the relational predicate admits no second result;    *)
(*   AgreesDirect       it is the result computed from the truncated         *)
(*                      quotient (RoundDiv) AND the one defined with \div;   *)
(*   Brackets           |r*d - n| < |d|, exact whenever d divides n;         *)
(*   FailJustified      a failed call had no representable result.           *)
(* Existence (every defined call has an admitted outcome) is checked by the  *)
(* orchestrator: the number of distinct states must equal the number of      *)
(* operand combinations printed by the DOM lines below.                      *)
EXTENDS DecOps, TLC, FiniteSets

CONSTANTS R,      \* operands are the raw values -R..R
          W,      \* uniqueness is checked among the results within W of the direct one
          Fams,   \* receiver families explored, subset of {"bd", "dec"}
          Sel     \* operations explored ({} = all of them)

\* native bindings of the number interface (MCDecOps.cfg: NAdd <- IAdd, ...)
IAdd(x, y) == x + y
ISub(x, y) == x - y
IMul(x, y) == x * y
INeg(x)    == -x
ICmp(x, y) == IF x < y THEN -1 ELSE IF x > y THEN 1 ELSE 0
\* definitions by \div (which rounds toward minus infinity for a positive divisor)
DFloor(n, d) == IF d > 0 THEN n \div d ELSE (-n) \div (-d)
DCeil(n, d)  == -DFloor(-n, d)
DTrunc(n, d) == IF (IF d > 0 THEN n ELSE -n) >= 0 THEN DFloor(n, d) ELSE DCeil(n, d)
DHalfEven(n, d) ==
    LET nn == IF d > 0 THEN n ELSE -n
        dd == IF d > 0 THEN d ELSE -d
        f  == nn \div dd
        t  == 2 * (nn - f * dd)
    IN  IF t < dd THEN f ELSE IF t > dd THEN f + 1 ELSE IF f % 2 = 0 THEN f ELSE f + 1
IQuoT(x, y) == DTrunc(x, y)
IEven(x)    == x % 2 = 0
IOfInt(k)   == k
IPow10(k)   == 10 ^ k

MCDigits == [bd |-> 2, dec |-> 1]
MCBounds == [bd     |-> [lo |-> -25000, hi |-> 25000],
             dec    |-> [lo |-> -2500,  hi |-> 2500],
             bigint |-> [lo |-> -1000,  hi |-> 1000],
             sdkint |-> [lo |-> -500,   hi |-> 500],
             i64    |-> [lo |-> -128,   hi |-> 127],
             u64    |-> [lo |-> 0,      hi |-> 255]]

VARIABLE stage   \* 0 seed, 1 after the call, 2 after its mutating twin

Range == (-R)..R
ADom(t, o) == {x \in Range : InRange(x, TyA(t, o))}
BDom(t, o) == IF TyB(t, o) = "none" THEN {0} ELSE {x \in Range : InRange(x, TyB(t, o))}
PDom(o)    == IF o \in HasPrec THEN 0..3 ELSE {0}
Twins(o)   == {m \in DOMAIN MutTwin : MutTwin[m] = o}
Ops(t)     == IF Sel = {} THEN BaseOps(t) ELSE BaseOps(t) \cap Sel

Seed(x) == /\ call = [NoCall EXCEPT !.a = x]
           /\ out = [ok |-> TRUE, r |-> -x, a2 |-> x, b2 |-> 0]
MCInit == stage = 0 /\ \E x \in Range : Seed(x)

Window(sem, w) == IF sem.def THEN {Direct(sem) + k : k \in (-w)..w} ELSE {0}

Try(c) == \E okk \in BOOLEAN :
            \E rr \in (IF okk THEN Window(Sem(c.t, Base(c.op), c.a, c.b, c.p), 1) ELSE {0}) :
               Call(c, [ok |-> okk, r |-> rr, a2 |-> IF IsMut(c.op) /\ okk THEN rr ELSE c.a, b2 |-> c.b])

MCCall == /\ stage = 0
          /\ stage' = 1
          /\ \E t \in Fams : \E o \in Ops(t) :
               /\ call.a \in ADom(t, o)
               /\ \E bb \in BDom(t, o) : \E pp \in PDom(o) :
                    Try([t |-> t, op |-> o, a |-> call.a, b |-> bb, p |-> pp, alias |-> FALSE, pair |-> FALSE])

MCTwin == /\ stage = 1
          /\ stage' = 2
          /\ \E m \in Twins(call.op) : Try([call EXCEPT !.op = m, !.pair = TRUE])

MCNext == MCCall \/ MCTwin
MCSpec == MCInit /\ [][MCNext]_<<vars, stage>>

---------------------------------------------------------------------------
CurSem == Sem(call.t, Base(call.op), call.a, call.b, call.p)

DivDef(sem) == sem.k * (CASE sem.mode = "exact" -> sem.n
                          [] sem.mode = "trunc" -> DTrunc(sem.n, sem.d)
                          [] sem.mode = "ceil"  -> DCeil(sem.n, sem.d)
                          [] sem.mode = "floor" -> DFloor(sem.n, sem.d)
                          [] sem.mode = "he"    -> DHalfEven(sem.n, sem.d))

\* (the operators below take the meaning s of the current call, computed once per state)
Live(s) == out.ok /\ s.def /\ Base(call.op) \notin Codecs

UniqueS(s) == \A r2 \in Window(s, W) : PostR(s, r2) => r2 = out.r

AgreesDirectS(s) == out.r = Direct(s) /\ out.r = DivDef(s)

BracketsS(s) ==
    LET q == out.r \div s.k
        e == q * s.d - s.n
        ad == IF s.d < 0 THEN -s.d ELSE s.d
    IN  /\ q * s.k = out.r
        /\ -ad < e /\ e < ad
        /\ (s.n % ad = 0 => e = 0)

\* the two-step meaning of Quo (nearest-even of the quotient truncated at 2P digits) stays
\* within half a unit plus one unit of the 2P-digit grid of the exact quotient
QuoNearestS(s) == Base(call.op) = "Quo" =>
    LET S == Scale(call.t)
        e == out.r * call.b - call.a * S
        ab == IF call.b < 0 THEN -call.b ELSE call.b
    IN  2 * S * (IF e < 0 THEN -e ELSE e) <= ab * (S + 2)

FailJustifiedS(s) == (~out.ok /\ s.def) => ~InRange(DivDef(s), TyR(call.t, Base(call.op)))

Unique        == LET s == CurSem IN Live(s) => UniqueS(s)
AgreesDirect  == LET s == CurSem IN Live(s) => AgreesDirectS(s)
Brackets      == LET s == CurSem IN Live(s) => BracketsS(s)
QuoNearest    == LET s == CurSem IN Live(s) => QuoNearestS(s)
FailJustified == FailJustifiedS(CurSem)
\* all of the above with one evaluation of the meaning (used by bin/check; the separate
\* invariants are for diagnosis)
ModelOK == LET s == CurSem
           IN  /\ FailJustifiedS(s)
               /\ Live(s) => UniqueS(s) /\ AgreesDirectS(s) /\ BracketsS(s) /\ QuoNearestS(s)

\* the rounding modes on a standalone grid: every candidate in a wide range, not only the window
ModesOK ==
    \A n \in (-31)..31 : \A d \in ((-8)..8) \ {0} : \A m \in Modes \ {"exact"} :
        /\ Cardinality({q \in (-33)..33 : Rounds(m, q, n, d)}) = 1
        /\ Rounds(m, RoundDiv(m, n, d), n, d)
ASSUME ModesOK

\* operand-combination counts, summed by the orchestrator and compared with TLC's distinct states
ASSUME \A t \in Fams : \A o \in Ops(t) :
    PrintT(<<"DOM", t, o, Cardinality(ADom(t, o)), Cardinality(BDom(t, o)), Cardinality(PDom(o)),
             Cardinality(Twins(o))>>)
=============================================================================
