SPECIFICATION Spec
CONSTANTS
  Liqs = {1, 3}
  FeeTenths = {0, 1}
INVARIANT Laws
CHECK_DEADLOCK FALSE
