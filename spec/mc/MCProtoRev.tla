----------------------------- MODULE MCProtoRev -----------------------------
(* Bounded model of ProtoRev for exhaustive checking and for behaviour       *)
(* generation (one behaviour per distinct state, replayed on the real app).  *)
(*                                                                           *)
(* World (the replayer builds exactly this): pools 1 bal uosmo/axa, 2 bal    *)
(* uosmo/bxb (deep), 3 bal axa/bxb (shallow: the pool users swap on), 4 cl   *)
(* uosmo/axa (less liquid than 1 until the liquidity provider adds to it),   *)
(* 5 bal uosmo/cxc, 6 bal cxc/axa, 7 bal cxc/bxb (deep; cxc can become a     *)
(* second base denomination), 8 stable axa/bxb.                              *)
(* Whether an arbitrage exists is the environment's business: a big swap     *)
(* leaves its pool skewed (`skew`), a route is profitable iff it crosses a   *)
(* skewed pool against the skew and none with it; a back-run levels the      *)
(* pools it crosses.  Profits are the symbolic amount 100.                   *)
EXTENDS ProtoRev, Json

CONSTANTS MaxOps,     \* operations per behaviour (a transaction is one)
          MaxH,       \* blocks per behaviour
          TxIds,      \* enabled transaction templates
          Days0,      \* days since module genesis at the start
          Idents,     \* epoch identifiers that may end
          Gov,        \* governance actions enabled
          Env         \* environment actions (liquidity, new pool) enabled

VARIABLES skew,   \* pool id -> -2..2 : > 0 excess of the pool's first denomination
          left,   \* swaps of an earlier transaction of this block are still noted (known deviation of the tree)
          dirty,  \* pools a back-run crossed as a side hop although they are not deep: their skew is no longer known
          edge,   \* pool id -> 0 | 1 | 2 : a back-run levelled this user pool just to where it stops paying (1);
                  \* other back-runs have moved the side pools since (2): a further swap on it may or may not pay
          lid,    \* the template of the last transaction (so that every refused shape is a state of its own for the generator)
          hist, nops, clean, open

D == {"uosmo", "axa", "bxb", "cxc"}
P(k, a, b, l) == [kind |-> k, a |-> a, b |-> b, liq |-> l]
Pools0 == << P("bal", "uosmo", "axa", 50), P("bal", "uosmo", "bxb", 50), P("bal", "axa", "bxb", 20), P("cl", "uosmo", "axa", 30),
             P("bal", "uosmo", "cxc", 50), P("bal", "cxc", "axa", 50), P("bal", "cxc", "bxb", 50), P("stable", "axa", "bxb", 10) >>
Step0 == 1000000
Cfg0 == [enabled |-> TRUE, admin |-> "admin", dev |-> "", maxTx |-> 18, maxBlock |-> 100,
         w |-> [bal |-> 2, stable |-> 5, cl |-> 7], ticks |-> 5,
         bases |-> << [d |-> "uosmo", step |-> Step0] >>, hot |-> <<>>, days |-> Days0]
ZeroU == [u \in UserNames |-> Zero]

---------------------------------------------------------------------------
(* messages *)
NoInfo == [bal |-> 0, stable |-> 0, cl |-> 0, ticks |-> 0]
NoArg == [n |-> 0, acct |-> "", hot |-> <<>>, bases |-> <<>>, info |-> NoInfo]
Msg(k, by, hops, amt, arg) == [k |-> k, by |-> by, ok |-> TRUE, hops |-> hops, amt |-> amt, arg |-> arg]
Big == 100000000
Big4 == 400000000       \* what it takes to skew the concentrated pool 4
Tiny == 1000
Sw(by, p, i, o, amt) == Msg("swapin", by, <<Hop(p, i, o)>>, amt, NoArg)
Fund(d, x) == Msg("fund", "u2", <<Hop(0, d, d)>>, x, NoArg)
Fail == Msg("fail", "u1", <<>>, 0, NoArg)
Send == Msg("send", "u2", <<>>, 0, NoArg)
AdminMsg(k, by, arg) == Msg(k, by, <<>>, 0, arg)
N(n) == [NoArg EXCEPT !.n = n]
Ac(a) == [NoArg EXCEPT !.acct = a]
Inf(b, s, c, t) == [NoArg EXCEPT !.info = [bal |-> b, stable |-> s, cl |-> c, ticks |-> t]]
Bs(bs) == [NoArg EXCEPT !.bases = bs]
Bd(d, s) == [d |-> d, step |-> s]
Ht(h) == [NoArg EXCEPT !.hot = h]
Rt(tr, s) == [trades |-> tr, step |-> s]
Pr(i, o, rs) == [in |-> i, out |-> o, routes |-> rs]
\* the hot route of (axa -> bxb): uosmo -> bxb on 2, bxb -> axa on the user's pool, axa -> uosmo on the concentrated pool 4
H1 == Rt(<<Hop(2, "uosmo", "bxb"), Hop(0, "bxb", "axa"), Hop(4, "axa", "uosmo")>>, Step0)

Admin == [
    mt6   |-> AdminMsg("maxtx", "admin", N(6)),
    mt12  |-> AdminMsg("maxtx", "admin", N(12)),
    mt0   |-> AdminMsg("maxtx", "admin", N(0)),
    mt51  |-> AdminMsg("maxtx", "admin", N(51)),
    mt6e  |-> AdminMsg("maxtx", "eve", N(6)),
    mb8   |-> AdminMsg("maxblock", "admin", N(8)),
    mb20  |-> AdminMsg("maxblock", "admin", N(20)),
    mb201 |-> AdminMsg("maxblock", "admin", N(201)),
    mb0   |-> AdminMsg("maxblock", "admin", N(0)),
    mb20e |-> AdminMsg("maxblock", "eve", N(20)),
    dv    |-> AdminMsg("devacct", "admin", Ac("dev")),
    dv2   |-> AdminMsg("devacct", "admin", Ac("dev2")),
    dvx   |-> AdminMsg("devacct", "admin", Ac("notanaddress")),
    dve   |-> AdminMsg("devacct", "eve", Ac("dev2")),
    in1   |-> AdminMsg("info", "admin", Inf(3, 4, 9, 2)),
    inz   |-> AdminMsg("info", "admin", Inf(3, 0, 9, 2)),
    int   |-> AdminMsg("info", "admin", Inf(3, 4, 9, 11)),
    ine   |-> AdminMsg("info", "eve", Inf(3, 4, 9, 2)),
    bs2   |-> AdminMsg("bases", "admin", Bs(<<Bd("uosmo", Step0), Bd("cxc", Step0)>>)),
    bs1   |-> AdminMsg("bases", "admin", Bs(<<Bd("uosmo", Step0)>>)),
    bsx   |-> AdminMsg("bases", "admin", Bs(<<Bd("cxc", Step0), Bd("uosmo", Step0)>>)),
    bsd   |-> AdminMsg("bases", "admin", Bs(<<Bd("uosmo", Step0), Bd("cxc", Step0), Bd("cxc", Step0)>>)),
    bsz   |-> AdminMsg("bases", "admin", Bs(<<Bd("uosmo", Step0), Bd("cxc", 0)>>)),
    bs2e  |-> AdminMsg("bases", "eve", Bs(<<Bd("uosmo", Step0), Bd("cxc", Step0)>>)),
    h1    |-> AdminMsg("hot", "admin", Ht(<<Pr("axa", "bxb", <<H1>>)>>)),
    hone  |-> AdminMsg("hot", "admin", Ht(<<Pr("axa", "bxb", <<Rt(<<Hop(0, "bxb", "axa")>>, Step0)>>)>>)),
    hend  |-> AdminMsg("hot", "admin", Ht(<<Pr("axa", "bxb", <<Rt(<<Hop(2, "uosmo", "bxb"), Hop(0, "bxb", "axa")>>, Step0)>>)>>)),
    hchn  |-> AdminMsg("hot", "admin", Ht(<<Pr("axa", "bxb", <<Rt(<<Hop(2, "uosmo", "bxb"), Hop(0, "bxb", "axa"), Hop(5, "cxc", "uosmo")>>, Step0)>>)>>)),
    hplc  |-> AdminMsg("hot", "admin", Ht(<<Pr("axa", "bxb", <<Rt(<<Hop(2, "uosmo", "bxb"), Hop(3, "bxb", "axa"), Hop(4, "axa", "uosmo")>>, Step0)>>)>>)),
    hstp  |-> AdminMsg("hot", "admin", Ht(<<Pr("axa", "bxb", <<Rt(H1.trades, 0)>>)>>)),
    hdup  |-> AdminMsg("hot", "admin", Ht(<<Pr("axa", "bxb", <<H1>>), Pr("axa", "bxb", <<H1>>)>>)),
    h1e   |-> AdminMsg("hot", "eve", Ht(<<Pr("axa", "bxb", <<H1>>)>>))
]
AdminIds == DOMAIN Admin

SAB == Sw("u1", 3, "axa", "bxb", Big)
Templates == [
    s1  |-> <<SAB>>,
    s2  |-> <<Sw("u1", 3, "axa", "bxb", Tiny)>>,
    s3  |-> <<Sw("u2", 3, "bxb", "axa", Big)>>,
    s4  |-> <<SAB, Sw("u1", 4, "uosmo", "axa", Big4)>>,
    s5  |-> <<SAB, Fail>>,
    s6  |-> <<Sw("u2", 4, "uosmo", "axa", Big4)>>,
    s7  |-> <<Send>>,
    s8  |-> <<SAB, Admin["mt6e"]>>,
    f4  |-> <<Fund("uosmo", 4)>>,
    f7  |-> <<Fund("uosmo", 7)>>,
    f9  |-> <<Fund("uosmo", 1000)>>,
    fc  |-> <<Fund("cxc", 150)>>,
    fa  |-> <<Fund("axa", 50)>>,
    x1  |-> <<Admin["mt6"], SAB>>,
    x2  |-> <<Admin["mb8"], SAB>>,
    x3  |-> <<Admin["bs2"], SAB>>
]
TxOf(id) == IF id \in AdminIds THEN <<Admin[id]>> ELSE Templates[id]

---------------------------------------------------------------------------
MCInit ==
    /\ pools = Pools0
    /\ cfg = Cfg0
    /\ idx = Refresh(Pools0, {"uosmo"})
    /\ blk = [h |-> 1, used |-> 0]
    /\ stats = [n |-> 0, byDenom |-> Zero, routes |-> {}]
    /\ bank = [mod |-> Zero, null |-> Zero, cp |-> Zero, dev |-> [n \in DevNames |-> Zero], usr |-> ZeroU, sup |-> Zero]
    /\ funded = Zero
    /\ tx = NoTx
    /\ last = [a |-> "init"]
    /\ skew = [p \in DOMAIN Pools0 |-> 0]
    /\ left = FALSE /\ dirty = {} /\ edge = [p \in DOMAIN Pools0 |-> 0]
    /\ hist = <<>> /\ nops = 0 /\ clean = TRUE /\ open = FALSE /\ lid = ""

Expect == [cfg |-> cfg', idx |-> idx', used |-> blk'.used, stats |-> stats',
           bank |-> [mod |-> bank'.mod, null |-> bank'.null, cp |-> bank'.cp, dev |-> bank'.dev]]

Clip(x) == IF x > 2 THEN 2 ELSE IF x < -2 THEN -2 ELSE x
RECURSIVE SkewAfter(_, _)
SkewAfter(sk, ms) ==
    IF ms = <<>> THEN sk
    ELSE LET m == Head(ms) IN
         IF m.k \in SwapKinds /\ m.amt >= Big /\ pools[m.hops[1].pool].liq < 50      \* deep pools do not notice
         THEN LET p == m.hops[1].pool IN
              SkewAfter([sk EXCEPT ![p] = Clip(@ + (IF m.hops[1].in = pools[p].a THEN 1 ELSE -1))], Tail(ms))
         ELSE SkewAfter(sk, Tail(ms))

\* other routes come into play (base denominations, hot routes, the index): a pool levelled for the old ones may pay again
Stale(e) == [p \in DOMAIN e |-> IF e[p] > 0 THEN 2 ELSE 0]
Rerouted == cfg'.bases # cfg.bases \/ cfg'.hot # cfg.hot \/ idx' # idx

MCDeliver == \E id \in TxIds :
    /\ nops < MaxOps
    /\ Deliver(TxOf(id), ZeroU)
    /\ pools' = pools
    /\ skew' = IF AfterMsgs(TxOf(id)).ok THEN SkewAfter(skew, TxOf(id)) ELSE skew
    /\ nops' = nops + 1 /\ lid' = id
    /\ hist' = Append(hist, [op |-> "tx", id |-> id, msgs |-> TxOf(id), ok |-> FALSE, ntrades |-> 0, expect |-> 0])
    /\ edge' = IF Rerouted THEN Stale(edge) ELSE edge
    \* a pool that was levelled while shallow and is deep now: whether a big swap on it pays is beyond this model
    /\ clean' = (clean /\ ~\E i \in DOMAIN TxOf(id) : LET m == TxOf(id)[i] IN
                                m.k \in SwapKinds /\ m.amt >= Big /\ pools[m.hops[1].pool].liq >= 50 /\ edge[m.hops[1].pool] > 0)
    /\ UNCHANGED <<left, dirty, open>>

\* the environment's verdict on a route
Fav(sk, h) == (sk[h.pool] > 0 /\ h.out = pools[h.pool].a) \/ (sk[h.pool] < 0 /\ h.out = pools[h.pool].b)
Unfav(sk, h) == (sk[h.pool] > 0 /\ h.in = pools[h.pool].a) \/ (sk[h.pool] < 0 /\ h.in = pools[h.pool].b)
Prof(sk, r) == (\E i \in DOMAIN r : Fav(sk, r[i])) /\ ~(\E i \in DOMAIN r : Unfav(sk, r[i]))
Ambig(sk, r) == (\E i \in DOMAIN r : Fav(sk, r[i])) /\ (\E i \in DOMAIN r : Unfav(sk, r[i]))

RECURSIVE Consume(_, _, _, _)
Consume(cs, i, rem, sk) ==
    IF i > Len(cs) THEN <<>>
    ELSE IF Pts(cfg, cs[i]) <= rem /\ Prof(sk, cs[i]) THEN <<i>> \o Consume(cs, i + 1, rem - Pts(cfg, cs[i]), sk)
    ELSE Consume(cs, i + 1, rem, sk)

MkTrade(sw, r) == [hops |-> r, denom |-> r[1].in, in |-> 1000, out |-> 1100, profit |-> 100,
                   upool |-> sw.pool, uin |-> sw.in, uout |-> sw.out]

\* the reference design: every outcome the post handler may produce for the noted swaps
RECURSIVE Design(_, _, _)
Design(sws, rem, sk) ==
    IF sws = <<>> THEN {[trades |-> <<>>, delta |-> 0, sk |-> sk, multi |-> FALSE, many |-> FALSE]}
    ELSE LET sw == Head(sws)
             cs == Cands(cfg, idx, sw)
             con == Consume(cs, 1, rem, sk)
             used == SumSeq([j \in DOMAIN con |-> Pts(cfg, cs[con[j]])])
         IN IF con = <<>> THEN Design(Tail(sws), rem, sk)
            ELSE UNION {
                   LET r == cs[con[j]]
                       sk2 == [p \in DOMAIN sk |-> IF p \in {r[i].pool : i \in DOMAIN r} THEN 0 ELSE sk[p]]
                   IN {[trades |-> <<MkTrade(sw, r)>> \o rest.trades, delta |-> used + rest.delta, sk |-> rest.sk,
                        multi |-> rest.multi \/ Len(con) > 1, many |-> rest.many \/ Len(cs) > 1] : rest \in Design(Tail(sws), rem - used, sk2)}
                   : j \in DOMAIN con}

SideHops(trades) == UNION {{t.hops[i].pool : i \in DOMAIN t.hops} \ {t.upool} : t \in Range(trades)}
Shallow == {p \in DOMAIN pools : pools[p].liq < 50}
SwapPools == {tx.swaps[i].pool : i \in DOMAIN tx.swaps}
AnyAmbig == \E i \in DOMAIN tx.swaps : \E j \in DOMAIN Cands(cfg, idx, tx.swaps[i]) : Ambig(skew, Cands(cfg, idx, tx.swaps[i])[j])
Runs == cfg.enabled /\ blk.used < cfg.maxBlock      \* the post handler gets past its entry check

MCPost ==
    /\ tx.on
    /\ IF tx.ok /\ Runs /\ tx.swaps # <<>>
       THEN \E o \in Design(tx.swaps, Budget(cfg, blk), skew) :
              /\ Assert(PostOK(cfg, idx, blk, tx.swaps, [trades |-> o.trades, delta |-> o.delta]), <<"the reference design leaves PostOK", o>>)
              /\ PostHandle([trades |-> o.trades, delta |-> o.delta])
              /\ skew' = o.sk
              /\ open' = (open \/ o.multi)
              /\ dirty' = dirty \cup (SideHops(o.trades) \cap Shallow)
              /\ edge' = LET ups == {t.upool : t \in Range(o.trades)} IN
                         [p \in DOMAIN edge |-> IF p \in ups THEN (IF Len(o.trades) > 1 \/ o.many THEN 2 ELSE 1) ELSE IF o.trades # <<>> /\ edge[p] > 0 THEN 2 ELSE edge[p]]
              /\ hist' = [hist EXCEPT ![Len(hist)] = [@ EXCEPT !.ok = TRUE, !.ntrades = Len(o.trades), !.expect = Expect]]
       ELSE /\ PostHandle([trades |-> <<>>, delta |-> 0])
            /\ hist' = [hist EXCEPT ![Len(hist)] = [@ EXCEPT !.ok = tx.ok, !.ntrades = 0, !.expect = Expect]]
            /\ UNCHANGED <<skew, open, dirty, edge>>
    /\ pools' = pools
    /\ left' = IF tx.ok /\ Runs THEN FALSE ELSE (left \/ (tx.ok /\ tx.swaps # <<>>))
    \* not replayed: known deviation (left), and situations in which this model of the pools cannot tell whether an
    \* arbitrage exists (a route with and against a skew; a pool of unknown skew; after a back-run chosen among several
    \* routes the others may still pay)
    /\ clean' = (clean /\ ~(tx.ok /\ Runs /\ left) /\ ~(tx.ok /\ Runs /\ AnyAmbig)
                       /\ ~(tx.ok /\ Runs /\ tx.swaps # <<>> /\ (open \/ SwapPools \cap dirty # {}))
                       /\ ~(tx.ok /\ Runs /\ \E q \in SwapPools : skew[q] = 0 /\ (edge[q] = 2 \/ (edge[q] = 1 /\ Len(tx.swaps) > 1))))
    /\ UNCHANGED <<nops, lid>>

MCBlock ==
    /\ nops < MaxOps /\ blk.h < MaxH
    /\ NextBlock
    /\ pools' = pools
    /\ left' = FALSE
    /\ nops' = nops + 1 /\ lid' = ""
    /\ hist' = Append(hist, [op |-> "block", expect |-> Expect])
    /\ UNCHANGED <<skew, dirty, edge, clean, open>>

\* situations in which the tree is known to deviate from P7 / P9 (docs/findings_x08.json): not generated for replay
EpochDeviates == cfg.enabled /\ (cfg.dev \notin DevNames
                                 \/ \E d \in BaseDenoms(cfg) : bank.mod[d] > 0 /\ DevShare(bank.mod[d], cfg.days) = 0)
MCEpoch == \E ident \in Idents :
    /\ nops < MaxOps
    /\ EpochEnd(ident)
    /\ pools' = pools
    /\ clean' = (clean /\ ~(ident = "day" /\ EpochDeviates))
    /\ nops' = nops + 1 /\ lid' = ""
    /\ hist' = Append(hist, [op |-> "epoch", ident |-> ident, expect |-> Expect])
    /\ edge' = IF Rerouted THEN Stale(edge) ELSE edge
    /\ UNCHANGED <<skew, left, dirty, open>>

MCEnable == \E on \in BOOLEAN :
    /\ Gov /\ nops < MaxOps /\ on # cfg.enabled
    /\ SetEnabled(on)
    /\ pools' = pools
    /\ nops' = nops + 1 /\ lid' = ""
    /\ hist' = Append(hist, [op |-> "enable", on |-> on, expect |-> Expect])
    /\ UNCHANGED <<skew, left, dirty, edge, clean, open>>

MCSetAdmin == \E who \in {"admin", "eve"} :
    /\ Gov /\ nops < MaxOps /\ who # cfg.admin
    /\ SetAdmin(who)
    /\ pools' = pools
    /\ nops' = nops + 1 /\ lid' = ""
    /\ hist' = Append(hist, [op |-> "setadmin", who |-> who, expect |-> Expect])
    /\ UNCHANGED <<skew, left, dirty, edge, clean, open>>

\* the liquidity provider adds to pool 4, which then is the most liquid uosmo/axa pool
MCLp ==
    /\ Env /\ nops < MaxOps /\ pools[4].liq < 90
    /\ Liquidity([pools EXCEPT ![4].liq = 90])
    /\ nops' = nops + 1 /\ lid' = ""
    /\ hist' = Append(hist, [op |-> "lp", pool |-> 4, expect |-> Expect])
    /\ UNCHANGED <<skew, left, dirty, edge, clean, open>>

\* a ninth pool appears: uosmo/bxb, more or less liquid than pool 2
MCPool == \E l \in {40, 60} :
    /\ Env /\ nops < MaxOps /\ Len(pools) = 8
    /\ CreatePool(Append(pools, P("bal", "uosmo", "bxb", l)))
    /\ skew' = [p \in 1..9 |-> IF p \in DOMAIN skew THEN skew[p] ELSE 0]
    /\ edge' = [p \in 1..9 |-> IF p \in DOMAIN edge THEN (IF Rerouted THEN Stale(edge) ELSE edge)[p] ELSE 0]
    /\ nops' = nops + 1 /\ lid' = ""
    /\ hist' = Append(hist, [op |-> "pool", liq |-> l, expect |-> Expect])
    /\ UNCHANGED <<left, dirty, clean, open>>

MCNext == MCDeliver \/ MCPost \/ MCBlock \/ MCEpoch \/ MCEnable \/ MCSetAdmin \/ MCLp \/ MCPool
MCSpec == MCInit /\ [][MCNext]_<<vars, skew, left, dirty, edge, lid, hist, nops, clean, open>>

View == <<vars, skew, left, dirty, edge, lid, nops, clean, open>>

\* the reference design stays within what the stated properties allow (PostOK is a conjunct of PostHandle), and
\* one behaviour per distinct state between transactions is printed for the replayer
Emit == (~tx.on /\ hist # <<>> /\ clean) => PrintT(<<"GEN", ToJson([days0 |-> Days0, open |-> open, steps |-> hist])>>)
=============================================================================
