---------------------------- MODULE MCSuperfluid ----------------------------
(* Bounded model of Superfluid for exhaustive checking.  Stake, supply and     *)
(* multipliers are native integers (Scale raw units per 1.0); the new *)
(* stake after every conversion is computed the way the code does it (the      *)
(* separately rounded value of the lock concerned is minted / burnt; an        *)
(* undelegation that would burn more than is staked is refused, one that finds *)
(* no stake burns nothing), so TracksExpected is proved here as a theorem      *)
(* about that arithmetic, and the marker / bonding / withdrawal properties for *)
(* every interleaving of the entry points.                                     *)
EXTENDS Superfluid, TLC, Json

CONSTANTS MOwners, MVals, MDenoms, Durs, Amts, Fund, MaxLocks, MaxT, MaxSteps, Dts,
          Unbond, RiskRaw, PoolNums, PoolDen

VARIABLE hist

IAdd(a, b) == a + b
ISub(a, b) == a - b
IMul(a, b) == a * b
ILe(a, b)  == a <= b
IOfNat(n)  == n
IFloorDiv(a, b) == a \div b

mvars == <<allvars, hist>>

MEnv == [vals |-> MVals, unbond |-> Unbond, risk |-> RiskRaw, unit |-> [d \in MDenoms |-> 1], cl |-> {}]
MultOfPool(p) == RoundHE(p.num * Scale, p.den)
Pool0 == [d \in MDenoms |-> [num |-> CHOOSE n \in PoolNums : \A m \in PoolNums : n <= m, den |-> PoolDen]]

MCInit ==
    /\ SFInitWith([o \in MOwners |-> [d \in MDenoms |-> Fund]], 0, 0, MEnv,
                  [d \in MDenoms |-> MultOfPool(Pool0[d])], Pool0, [raw |-> 100, off |-> 0])
    /\ hist = <<>>

MinOf(S) == CHOOSE x \in S : \A y \in S : x <= y
Room == Cardinality(Ids) < MaxLocks
Rec(h) == hist' = Append(hist, h)
Act(a, o, d, x, amt, id, v) == <<a, o, d, x, amt, id, v>>

\* bank supply after minting (x > 0) or burning (x < 0) x with the matching offset
Minted(x) == [raw |-> supply.raw + x, off |-> supply.off - x]
Stake(a) == Get(deleg, a, 0)
NextGauge == 1 + Cardinality(DOMAIN ias)
AmtOf(id) == locks[id].coins[DenomOfLock(id)]

MCLock == \E o \in Owners, d \in Denoms, dur \in Durs, amt \in Amts :
    LET M == Matching(o, d, dur)
        id == IF M = {} THEN lastId + 1 ELSE MinOf(M)
        x == IF id \in DOMAIN conn THEN Value(d, amt) ELSE 0 IN
    /\ M = {} => Room
    /\ SFLockTokens(o, d, dur, amt, id, IF id \in DOMAIN conn THEN Stake(conn[id]) + x ELSE 0, Minted(x))
    /\ Rec(Act("lock", o, d, dur, amt, id, ""))

MCDelegate == \E id \in Ids, v \in MVals :
    LET d == DenomOfLock(id)
        x == Value(d, AmtOf(id)) IN
    /\ x > 0                                   \* a lock worth nothing is refused
    /\ SFDelegate(id, locks[id].owner, v, NextGauge, Stake(<<d, v>>) + x, Minted(x))
    /\ Rec(Act("sfdelegate", locks[id].owner, d, 0, 0, id, v))

\* what an undelegation of n units burns from account a: nothing when nothing is staked;
\* refused (-1) when it would burn more than is staked
Burn(a, n) == LET x == Value(a[1], n) IN
    IF Stake(a) = 0 THEN 0 ELSE IF x > Stake(a) THEN -1 ELSE x

MCUndelegate == \E id \in DOMAIN conn :
    LET a == conn[id]
        x == Burn(a, AmtOf(id)) IN
    /\ x >= 0
    /\ SFUndelegate(id, locks[id].owner, Stake(a) - x, Minted(-x))
    /\ Rec(Act("sfundelegate", locks[id].owner, a[1], 0, 0, id, a[2]))

MCUnbond == \E id \in Ids :
    /\ SFUnbondLock(id, locks[id].owner)
    /\ Rec(Act("sfunbond", locks[id].owner, "", 0, 0, id, ""))

MCUndelegateAndUnbond == \E id \in DOMAIN conn, amt \in Amts :
    LET a == conn[id]
        whole == amt = AmtOf(id)
        nid == IF whole THEN id ELSE lastId + 1
        x == Burn(a, AmtOf(id))
        y == IF whole THEN 0 ELSE Value(a[1], AmtOf(id) - amt) IN
    /\ amt <= AmtOf(id)
    /\ ~whole => (Room /\ y > 0)
    /\ x >= 0
    /\ SFUndelegateAndUnbond(id, locks[id].owner, amt, nid, Stake(a) - x + y, Minted(y - x))
    /\ Rec(Act("sfundelunbond", locks[id].owner, a[1], nid, amt, id, a[2]))

MCLockAndDelegate == \E o \in Owners, d \in Denoms, amt \in Amts, v \in MVals :
    LET M == Matching(o, d, Unbond)
        id == IF M = {} THEN lastId + 1 ELSE MinOf(M)
        tot == amt + (IF M = {} THEN 0 ELSE locks[id].coins[d])
        x == Value(d, tot) IN
    /\ M = {} => Room
    /\ x > 0
    /\ SFLockAndDelegate(o, d, amt, v, id, NextGauge, Stake(<<d, v>>) + x, Minted(x))
    /\ Rec(Act("locksfdelegate", o, d, 0, amt, id, v))

MCBegin == \E id \in Ids :
    /\ SFBeginUnlock(id, locks[id].owner, ZeroCoins, id)
    /\ Rec(Act("begin", locks[id].owner, "", 0, 0, id, ""))

MCBeginAll == \E o \in Owners :
    /\ \E id \in Ids : locks[id].owner = o /\ ~Unlocking(locks[id])
    /\ SFBeginUnlockAll(o)
    /\ Rec(Act("beginall", o, "", 0, 0, 0, ""))

MCUnlock == \E id \in Ids :
    /\ SFUnlock(id)
    /\ Rec(Act("unlock", "", "", 0, 0, id, ""))

MCSweep ==
    /\ (MaturedIds # {} \/ DeadMarkers # {})
    /\ SFSweep
    /\ Rec(Act("endblock", "", "", 0, 0, 0, ""))

MCPrice == \E d \in DOMAIN pool, n \in PoolNums :
    /\ n # pool[d].num
    /\ PriceMove(d, [num |-> n, den |-> PoolDen])
    /\ Rec(Act("swap", "", d, n, 0, 0, ""))

MCEpoch == \E dt \in Dts :
    LET nm == [d \in SFDenoms |-> MultOfPool(pool[d])]
        nd == [a \in DOMAIN deleg |-> ValueWith(nm, a[1], Total(a))]
        diff == SumF([a \in DOMAIN deleg |-> nd[a] - deleg[a]], DOMAIN deleg) IN
    /\ now + dt <= MaxT
    /\ Epoch(dt, nm, Minted(diff))
    /\ Rec(Act("epoch", "", "", dt, 0, 0, ""))

MCAdvance == \E dt \in Dts :
    /\ now + dt <= MaxT
    /\ SFAdvance(dt)
    /\ Rec(Act("advance", "", "", dt, 0, 0, ""))

MCNext == /\ Len(hist) < MaxSteps
          /\ (MCUnlock \/ MCSweep \/ MCUnbond \/ MCUndelegateAndUnbond \/ MCUndelegate \/ MCLockAndDelegate
                \/ MCDelegate \/ MCBeginAll \/ MCBegin \/ MCPrice \/ MCEpoch \/ MCAdvance \/ MCLock)
MCSpec == MCInit /\ [][MCNext]_mvars

View == <<locks, bal, modBal, now, lastId, refs, accum, synth, conn, ias, deleg, mult, pool, supply, slack, base, Len(hist)>>

---------------------------------------------------------------------------
(* design-level facts of the bounded model *)
\* the entry points the property says must be refused are not enabled
RefusedWhileHeld ==
    \A id \in Ids : MarkersOf(id) # {} =>
        /\ ~(Free(id))
        /\ (id \in DOMAIN conn => ~Unlocking(locks[id]))

\* the bank supply moved only by what was staked: raw - 100 = total stake
SupplyIsStake == supply.raw - 100 = SumF([a \in DOMAIN deleg |-> deleg[a]], DOMAIN deleg) /\ supply.off = 100 - supply.raw

\* non-vacuity witnesses (violated = reachable): used with -continue off in dedicated runs
NeverDrifts == \A a \in Accounts : deleg[a] = Expected(a)
\* the literal reading "one base unit per lock currently connected" is NOT a theorem of the
\* code's arithmetic (violated = the counterexample the derivation in Superfluid.tla describes)
StrictPerLock == \A a \in Accounts :
    LET n == Cardinality(ConnectedTo(conn, a)) d == deleg[a] - Expected(a) IN d <= n /\ -d <= n
NeverPartial == \A s \in synth : s.k = "U" => s.id <= 1
=============================================================================
