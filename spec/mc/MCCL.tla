-------------------------------- MODULE MCCL --------------------------------
(* Bounded model of CL.tla: ticks MinT..MaxT, liquidity amounts in Liqs, at   *)
(* most MaxPos positions alive, ids up to MaxId.  Sqrt prices live on the     *)
(* integer grid SqrtOf(t) = 2*(t - MinT + 1): even = exactly on a tick, odd =  *)
(* inside the bucket above it.                                                *)
(*                                                                            *)
(* Two uses:                                                                  *)
(*  - MCSpec (mc cfg): exhaustive check of the C07 invariants.  Swaps are      *)
(*    over-approximated: the price may stop anywhere in its direction.        *)
(*  - GenSpec (gen cfg): behaviour generator for the spec -> impl replay on a *)
(*    real pool (harness/app/cl/replay_test.go).  Its steps are a subset of   *)
(*    MCSpec's (so the invariants hold on them) restricted to what a price-    *)
(*    limited swap of the real keeper can do, plus calls the code must refuse  *)
(*    (state unchanged, ok = 0).  `hist` is outside the VIEW: every transition *)
(*    of the reduced graph is printed once, with a shortest path to it.       *)
EXTENDS CL, TLC, Json

CONSTANTS MinT, MaxT, Liqs, Owners, MaxPos, MaxId,
          Creators     \* owners that create positions (a subset of Owners; the others receive theirs by transfer)

VARIABLE hist     \* the calls made so far (see Op below)

MinTVal == -1
IntAdd(a, b) == a + b
IntSub(a, b) == a - b
IntLe(a, b)  == a <= b

SqrtOf(t) == 2 * (t - MinT + 1)
TickOfSqrt(s) == (s \div 2) + MinT - 1
Ticks == MinT..MaxT
Sqrts == SqrtOf(MinT)..SqrtOf(MaxT)

PriceAt(s) == [tick |-> TickOfSqrt(s), sqrt |-> s, curLo |-> SqrtOf(TickOfSqrt(s)), curHi |-> SqrtOf(TickOfSqrt(s) + 1)]

View == cl

\* one call: <<kind, by, id, lo, hi, dl, s, down, to, ok, nt>>, all integers (compact JSON)
\*   kind 1 create (id = the id the model gives the new position, s = initial grid point, first position only)
\*        2 withdraw  3 add (id = old position, to = id of the new one)  4 transfer  5 swap (s = target grid
\*        point, nt = model tick afterwards);  by = acting owner;  ok = 1 the code must accept / 0 must refuse
KCreate == 1  KWithdraw == 2  KAdd == 3  KTransfer == 4  KSwap == 5
Op(kind, by, id, lo, hi, dl, s, down, to, ok, nt) ==
    <<kind, by, id, lo, hi, dl, s, IF down THEN 1 ELSE 0, to, IF ok THEN 1 ELSE 0, nt>>
Rec(e) == hist' = Append(hist, e)

MCInit == cl = Empty /\ hist = <<>>

MCCreate == \E own \in Creators, lo \in Ticks, hi \in Ticks, dl \in Liqs, s0 \in Sqrts :
    /\ lo < hi
    /\ Cardinality(Ids(cl)) < MaxPos /\ cl.maxId < MaxId
    /\ (Ids(cl) # {} => s0 = SqrtOf(MinT))          \* initial price only matters for the first position
    /\ cl' = ApplyCreate(cl, cl.maxId + 1, own, lo, hi, dl, SqrtOf(lo), SqrtOf(hi), PriceAt(s0))
    /\ Rec(Op(KCreate, own, cl.maxId + 1, lo, hi, dl, IF Ids(cl) = {} THEN s0 ELSE 0, FALSE, 0, TRUE, 0))

MCWithdraw == \E id \in Ids(cl), dl \in Liqs :
    /\ WithdrawOK(cl, id, dl)
    /\ cl' = ApplyWithdraw(cl, id, dl)
    /\ Rec(Op(KWithdraw, cl.pos[id].own, id, 0, 0, dl, 0, FALSE, 0, TRUE, 0))

\* add-to-position = withdraw everything, then create a new position with more liquidity;
\* refused when it is the last position of the pool
MCAdd == \E id \in Ids(cl), dl \in Liqs :
    /\ Cardinality(Ids(cl)) > 1 /\ cl.maxId < MaxId
    /\ LET p == cl.pos[id]
           S1 == ApplyWithdraw(cl, id, p.liq)
       IN  cl' = ApplyCreate(S1, cl.maxId + 1, p.own, p.lo, p.hi, p.liq + dl, SqrtOf(p.lo), SqrtOf(p.hi), PriceAt(2))
    /\ Rec(Op(KAdd, cl.pos[id].own, id, 0, 0, dl, 0, FALSE, cl.maxId + 1, TRUE, 0))

\* (a transfer to oneself leaves the state as it is; the message is refused by its basic validation)
MCTransfer == \E id \in Ids(cl), to \in Owners :
    /\ Cardinality(Ids(cl)) > 1
    /\ cl' = ApplyTransfer(cl, id, to)
    /\ Rec(Op(KTransfer, cl.pos[id].own, id, 0, 0, 0, 0, FALSE, to, to # cl.pos[id].own, 0))

\* where a swap can stop: anywhere at or beyond the current price in its direction;
\* a downward swap that stops exactly on an initialised tick t has crossed it (tick = t - 1),
\* otherwise the tick is the bucket containing the price.
SwapTick(down, s) ==
    LET onInit == s % 2 = 0 /\ TickOfSqrt(s) \in DOMAIN cl.ticks
    IN  IF down /\ onInit /\ (s < cl.sqrt \/ cl.tick = TickOfSqrt(s)) THEN TickOfSqrt(s) - 1
        ELSE IF s = cl.sqrt THEN cl.tick ELSE TickOfSqrt(s)

SwapTo(down, s) ==
    /\ Ids(cl) # {}
    /\ IF down THEN s <= cl.sqrt ELSE s >= cl.sqrt
    /\ LET nt == SwapTick(down, s)
       IN  /\ SwapOK(cl, down, nt, s)
           /\ nt >= MinT - 1 /\ nt <= MaxT
           /\ cl' = ApplySwap(cl, down, nt, s, SqrtOf(nt), SqrtOf(nt + 1))
           /\ Rec(Op(KSwap, 0, 0, 0, 0, 0, s, down, 0, TRUE, nt))

MCSwap == \E down \in BOOLEAN, s \in Sqrts : SwapTo(down, s)

MCNext == MCCreate \/ MCWithdraw \/ MCAdd \/ MCTransfer \/ MCSwap
MCSpec == MCInit /\ [][MCNext]_<<cl, hist>>

ImmutableStep == [][Immutable(cl, cl', {i \in Ids(cl) \cap Ids(cl') : cl'.pos[i].own # cl.pos[i].own})]_cl

---------------------------------------------------------------------------
(* behaviour generator *)

\* What a swap of the real keeper with an ample input and the price limit on grid point s does
\* (x/concentrated-liquidity/swaps.go computeOutAmtGivenIn): it walks from initialised tick to
\* initialised tick - a stretch without liquidity is jumped at no cost - and needs a NEXT initialised
\* tick in its direction at every step, the last one included: the limit cannot lie beyond the
\* outermost initialised tick ("ran out of ticks").  A limit equal to the current price moves
\* nothing, and a swap that pays nothing out (no liquidity anywhere on the way) is refused.
Beyond(down, s) == IF down THEN \E t \in DOMAIN cl.ticks : SqrtOf(t) <= s
                           ELSE \E t \in DOMAIN cl.ticks : SqrtOf(t) >= s
Liquid(down, s) ==
    LET a == IF down THEN s ELSE cl.sqrt
        b == IF down THEN cl.sqrt ELSE s
    IN  \E i \in Ids(cl) : SqrtOf(cl.pos[i].lo) < b /\ a < SqrtOf(cl.pos[i].hi)
RealSwapOK(down, s) == s # cl.sqrt /\ Beyond(down, s) /\ Liquid(down, s)

Refused(e) == cl' = cl /\ Rec(e)

GenSwap == \E down \in BOOLEAN, s \in Sqrts :
    /\ Ids(cl) # {}
    /\ IF down THEN s <= cl.sqrt ELSE s >= cl.sqrt
    /\ IF RealSwapOK(down, s) THEN SwapTo(down, s)
       ELSE Refused(Op(KSwap, 0, 0, 0, 0, 0, s, down, 0, FALSE, cl.tick))

Other(o) == IF \E x \in Owners : x # o THEN CHOOSE x \in Owners : x # o ELSE 0
Somebody(o) == Other(o) # 0
Stranger == Cardinality(Owners) + 1     \* an account that never owns anything (Owners = 1..n)

\* calls the code must refuse: too much liquidity, somebody else's position, the last position of
\* the pool added to or transferred
GenRefused == \E id \in Ids(cl) :
    LET p == cl.pos[id] single == Cardinality(Ids(cl)) = 1 IN
    \/ \E dl \in Liqs : dl > p.liq /\ Refused(Op(KWithdraw, p.own, id, 0, 0, dl, 0, FALSE, 0, FALSE, 0))
    \/ Somebody(p.own) /\ Refused(Op(KWithdraw, Other(p.own), id, 0, 0, 1, 0, FALSE, 0, FALSE, 0))
    \/ single /\ Refused(Op(KAdd, p.own, id, 0, 0, 1, 0, FALSE, 0, FALSE, 0))
    \/ Somebody(p.own) /\ Refused(Op(KAdd, Other(p.own), id, 0, 0, 1, 0, FALSE, 0, FALSE, 0))
    \/ single /\ Somebody(p.own) /\ Refused(Op(KTransfer, p.own, id, 0, 0, 0, 0, FALSE, Other(p.own), FALSE, 0))
    \/ Somebody(p.own) /\ Refused(Op(KTransfer, Other(p.own), id, 0, 0, 0, 0, FALSE, Stranger, FALSE, 0))

GenNext == MCCreate \/ MCWithdraw \/ MCAdd \/ MCTransfer \/ GenSwap \/ GenRefused
GenSpec == MCInit /\ [][GenNext]_<<cl, hist>>

RECURSIVE SortInts(_)
SortInts(S) == IF S = {} THEN <<>>
               ELSE LET m == CHOOSE x \in S : \A y \in S : x <= y IN <<m>> \o SortInts(S \ {m})

StOf(S) ==
    LET ids == SortInts(Ids(S))
        tks == SortInts(DOMAIN S.ticks)
    IN  [pos   |-> [k \in 1..Len(ids) |-> <<ids[k], S.pos[ids[k]].own, S.pos[ids[k]].lo, S.pos[ids[k]].hi, S.pos[ids[k]].liq>>],
         ticks |-> [k \in 1..Len(tks) |-> <<tks[k], S.ticks[tks[k]].gross, S.ticks[tks[k]].net>>],
         cur   |-> <<S.tick, S.sqrt, S.liq>>]

\* one behaviour per transition of the reduced graph (ACTION_CONSTRAINT): the calls and the state
\* the specification expects after the last one (every proper prefix is printed by another transition)
EmitEdge == PrintT(<<"GEN", ToJson([ops |-> hist', st |-> StOf(cl')])>>)
\* one behaviour per distinct state (INVARIANT)
EmitState == hist = <<>> \/ PrintT(<<"GEN", ToJson([ops |-> hist, st |-> StOf(cl)])>>)
=============================================================================
