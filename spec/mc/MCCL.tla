-------------------------------- MODULE MCCL --------------------------------
(* Bounded model of CL.tla: ticks MinT..MaxT, liquidity amounts in Liqs, at   *)
(* most MaxPos positions alive, ids up to MaxId.  Sqrt prices live on the     *)
(* integer grid SqrtOf(t) = 2*(t - MinT + 1): even = exactly on a tick, odd =  *)
(* inside the bucket above it.                                                *)
EXTENDS CL, TLC

CONSTANTS MinT, MaxT, Liqs, Owners, MaxPos, MaxId

MinTVal == -1
IntAdd(a, b) == a + b
IntSub(a, b) == a - b
IntLe(a, b)  == a <= b

SqrtOf(t) == 2 * (t - MinT + 1)
TickOfSqrt(s) == (s \div 2) + MinT - 1
Ticks == MinT..MaxT
Sqrts == SqrtOf(MinT)..SqrtOf(MaxT)

PriceAt(s) == [tick |-> TickOfSqrt(s), sqrt |-> s, curLo |-> SqrtOf(TickOfSqrt(s)), curHi |-> SqrtOf(TickOfSqrt(s) + 1)]

MCInit == cl = Empty

MCCreate == \E own \in Owners, lo \in Ticks, hi \in Ticks, dl \in Liqs, s0 \in Sqrts :
    /\ lo < hi
    /\ Cardinality(Ids(cl)) < MaxPos /\ cl.maxId < MaxId
    /\ (Ids(cl) # {} => s0 = SqrtOf(MinT))          \* initial price only matters for the first position
    /\ cl' = ApplyCreate(cl, cl.maxId + 1, own, lo, hi, dl, SqrtOf(lo), SqrtOf(hi), PriceAt(s0))

MCWithdraw == \E id \in Ids(cl), dl \in Liqs :
    /\ WithdrawOK(cl, id, dl)
    /\ cl' = ApplyWithdraw(cl, id, dl)

\* add-to-position = withdraw everything, then create a new position with more liquidity;
\* refused when it is the last position of the pool
MCAdd == \E id \in Ids(cl), dl \in Liqs :
    /\ Cardinality(Ids(cl)) > 1 /\ cl.maxId < MaxId
    /\ LET p == cl.pos[id]
           S1 == ApplyWithdraw(cl, id, p.liq)
       IN  cl' = ApplyCreate(S1, cl.maxId + 1, p.own, p.lo, p.hi, p.liq + dl, SqrtOf(p.lo), SqrtOf(p.hi), PriceAt(2))

MCTransfer == \E id \in Ids(cl), to \in Owners :
    /\ Cardinality(Ids(cl)) > 1
    /\ cl' = ApplyTransfer(cl, id, to)

\* where a swap can stop: anywhere at or beyond the current price in its direction;
\* a downward swap that stops exactly on an initialised tick t has crossed it (tick = t - 1),
\* otherwise the tick is the bucket containing the price.
MCSwap == \E down \in BOOLEAN, s \in Sqrts :
    /\ Ids(cl) # {}
    /\ IF down THEN s <= cl.sqrt ELSE s >= cl.sqrt
    /\ LET onInit == s % 2 = 0 /\ TickOfSqrt(s) \in DOMAIN cl.ticks
           nt == IF down /\ onInit /\ (s < cl.sqrt \/ cl.tick = TickOfSqrt(s)) THEN TickOfSqrt(s) - 1
                 ELSE IF s = cl.sqrt THEN cl.tick ELSE TickOfSqrt(s)
       IN  /\ SwapOK(cl, down, nt, s)
           /\ nt >= MinT - 1 /\ nt <= MaxT
           /\ cl' = ApplySwap(cl, down, nt, s, SqrtOf(nt), SqrtOf(nt + 1))

MCNext == MCCreate \/ MCWithdraw \/ MCAdd \/ MCTransfer \/ MCSwap
MCSpec == MCInit /\ [][MCNext]_cl

ImmutableStep == [][Immutable(cl, cl', {i \in Ids(cl) \cap Ids(cl') : cl'.pos[i].own # cl.pos[i].own})]_cl
=============================================================================
