---------------------------- MODULE MCOwnership ----------------------------
(* Bounded model of Ownership.tla: a system that obeys the authorisation rule  *)
(* (Deliver) - every kind of message, every sender, committed or on a branch,   *)
(* accepted or refused, with or without writes - satisfies the six properties   *)
(* the recorded executions are judged by, and each of them is exercised         *)
(* non-trivially (design check and non-vacuity of the property formulas).       *)
EXTENDS Ownership, TLC

CONSTANTS Objs, Accts, Gov, Digests, Kinds

MCSpecial == {<<"transfer", Gov>>}
MCTransferKinds == {"transfer"}
MCListed(kind, sender) == kind = "force" => sender = CHOOSE a \in Accts : TRUE

OwnerMaps == UNION {[S -> Accts \cup {""}] : S \in SUBSET Objs}

MCInit ==
    /\ own \in {o \in OwnerMaps : DOMAIN o # {}}
    /\ prev = [x \in DOMAIN own |-> {}]
    /\ dg \in Digests
    /\ last = Last0

MCNext ==
    \E kind \in Kinds, obj \in Objs \cup {""}, sender \in Accts \cup {Gov}, to \in Accts \cup {""},
       commit \in BOOLEAN, ok \in BOOLEAN, dgb \in Digests, fg1 \in {"f", "g"}, own1 \in OwnerMaps, dg1 \in Digests :
        /\ obj # "" => obj \in DOMAIN own
        /\ (ok /\ commit) => dg1 = dgb
        /\ Deliver(Delivery(1 - last.n, commit, kind, obj, sender, to, ok, dgb, "f", fg1, FALSE), own1, dg1)

MCSpec == MCInit /\ [][MCNext]_vars

\* prev and last are history variables: the properties are action properties, checked on every transition
View == <<own, dg>>
=============================================================================
