---------------------------- MODULE MCIncentives ----------------------------
(* Bounded model of Incentives for exhaustive checking and for behaviour      *)
(* generation.  With Devs = {} the epoch end is the property's statement and  *)
(* TLC checks the invariants and step properties of Incentives.tla; with      *)
(* Devs = AllDeviations the model follows the code, and every distinct state  *)
(* contributes the (shortest) action sequence that reaches it, the state      *)
(* expected there, the calls refused there and the deviations that changed    *)
(* the outcome of its last step; the Go harness executes them on the real     *)
(* app (each action once: the behaviours form a prefix tree).                 *)
EXTENDS Incentives, Sequences, TLC, Json

CONSTANTS Devs,          \* deviations the epoch end follows: {} or AllDeviations
          GDurs, LDurs,  \* gauge / lock durations
          LAmts,         \* lock amounts
          Nums,          \* epochs to pay over (non-perpetual gauges)
          StartOffs,     \* start time of a new gauge, relative to now
          CoinKinds,     \* what a new gauge holds: subset of 1..3 (see GaugeCoin)
          SetupLen,      \* 0: everything is explored from the empty state; 4: every behaviour starts with a
                         \* non-perpetual gauge, a perpetual gauge, a lock of a1 and a lock of a2 (no interleaving)
          MaxGauges, MaxLocks, MaxEpochs, MaxT, MaxSteps,
          Unambiguous    \* TRUE: no epoch end while one owner has two paid locks with different receivers

VARIABLES hist, epochs, lastDev

mcvars == <<allvars, hist, epochs, lastDev>>

Accts == {"a1", "a2", "a3"}
Lockers == {"a1", "a2"}
Creator == "a1"
LockDenom == "lpa"
MDenoms == {"lpa", "stake", "uosmo"}
Coins3(l, s, u) == [d \in MDenoms |-> CASE d = "lpa" -> l [] d = "stake" -> s [] d = "uosmo" -> u]
FeeFund == 400000000
MCPar == [minAmt |-> Coins3(-1, 2, 3), creatable |-> {"stake", "uosmo"}, feeDenom |-> "uosmo",
          createFee |-> 50000000, addFee |-> 25000000, lockable |-> {1, 2, 3}, spamMax |-> 100, spamExempt |-> "stake"]
\* what a new gauge may hold / a top-up may add (amounts <= 12)
GaugeCoin(i) == CASE i = 1 -> Coins3(0, 12, 0) [] i = 2 -> Coins3(0, 0, 12) [] i = 3 -> Coins3(0, 7, 5)
GaugeCoins == {GaugeCoin(i) : i \in CoinKinds}
TopUps == {Coins3(0, 5, 0), Coins3(0, 0, 4)}

MCInit ==
    /\ InitWith([a \in Accts |-> IF a = "a3" THEN Coins3(0, 0, 0) ELSE Coins3(12, 30, IF a = Creator THEN FeeFund ELSE 0)], 0, 0)
    /\ InitIncentives(MCPar)
    /\ hist = <<>>
    /\ epochs = 0
    /\ lastDev = {}

MinOf(S) == CHOOSE x \in S : \A y \in S : x <= y
Room == Cardinality(Ids) < MaxLocks
Act(a, o, d, x, amt, id, r, perp, c, start, num) ==
    [a |-> a, o |-> o, d |-> d, x |-> x, amt |-> amt, id |-> id, r |-> r, perp |-> perp, c |-> c, start |-> start, num |-> num]
Simple(a, o, d, x, amt, id, r) == Act(a, o, d, x, amt, id, r, FALSE, ZeroCoins, 0, 0)
Rec(h) == hist' = Append(hist, h) /\ UNCHANGED epochs /\ lastDev' = {}

Create(perp) == \E dur \in GDurs, c \in GaugeCoins, off \in StartOffs, n \in (IF perp THEN {1} ELSE Nums) :
    /\ Cardinality(GIds) < MaxGauges
    /\ perp => ~\E g \in GIds : gauges[g].perp
    /\ ~perp => ~\E g \in GIds : ~gauges[g].perp
    /\ CreateGauge(Creator, perp, LockDenom, dur, c, now + off, n, lastGauge + 1)
    /\ Rec(Act("create", Creator, LockDenom, dur, 0, lastGauge + 1, "", perp, c, now + off, n))

MCAddG == \E id \in GIds, c \in TopUps :
    /\ AddToGauge(Creator, id, c)
    /\ Rec(Act("addg", Creator, "", 0, 0, id, "", FALSE, c, 0, 0))

MCCreate == \E perp \in BOOLEAN : Create(perp)

LockBy(o) == \E dur \in LDurs, amt \in LAmts :
    LET M == Matching(o, LockDenom, dur)
        id == IF M = {} THEN lastId + 1 ELSE MinOf(M) IN
    /\ M = {} => Room
    /\ LockStep(LockTokens(o, LockDenom, dur, amt, id))
    /\ Rec(Simple("lock", o, LockDenom, dur, amt, id, ""))

MCLock == \E o \in Lockers : LockBy(o)

MCSetup == CASE Len(hist) = 0 -> Create(FALSE) [] Len(hist) = 1 -> Create(TRUE)
             [] Len(hist) = 2 -> LockBy("a1") [] Len(hist) = 3 -> LockBy("a2")

MCBegin == \E id \in Ids, amt \in {0} \cup LAmts :
    LET c == One(LockDenom, amt)
        nid == IF IsWhole(id, c) THEN id ELSE lastId + 1 IN
    /\ ~IsWhole(id, c) => Room
    /\ LockStep(BeginUnlock(id, locks[id].owner, c, nid))
    /\ Rec(Simple("begin", locks[id].owner, LockDenom, nid, amt, id, ""))

MCUnlock == \E id \in Ids :
    /\ LockStep(UnlockMatured(id))
    /\ Rec(Simple("unlock", "", "", 0, 0, id, ""))

MCSetRR == \E id \in Ids, r \in Accts :
    /\ LockStep(SetRewardReceiver(id, locks[id].owner, r))
    /\ Rec(Simple("setrr", locks[id].owner, "", 0, 0, id, r))

MCAdvance ==
    /\ now + 1 <= MaxT
    /\ LockStep(AdvanceTime(1))
    /\ Rec(Simple("advance", "", "", 1, 0, 0, ""))

\* one owner, two paid locks, different receivers: the code sends both payments to one of them
Ambiguous ==
    LET P == {p \in AllPayments(Activated(gauges), Devs) : p[3] # ZeroCoins} IN
    \E p, q \in P : locks[p[2]].owner = locks[q[2]].owner /\ Receiver(locks[p[2]]) # Receiver(locks[q[2]])

MCEpoch ==
    /\ epochs < MaxEpochs
    /\ GIds # {}
    /\ Unambiguous => ~Ambiguous
    /\ EpochEnd(Devs, NoOverride)
    /\ lastDev' = (IF SpamEffective THEN {"spam"} ELSE {}) \cup (IF IdleFinishEffective THEN {"idlefinish"} ELSE {})
    /\ epochs' = epochs + 1
    /\ hist' = Append(hist, Simple("epoch", "", "", epochs + 1, 0, 0, ""))

MCNext == /\ Len(hist) < MaxSteps
          \* (rarer actions first: a state reachable by several actions is credited to the first one)
          /\ IF Len(hist) < SetupLen THEN MCSetup
             ELSE (MCEpoch \/ MCUnlock \/ MCAddG \/ MCBegin \/ MCSetRR \/ MCCreate \/ MCAdvance \/ MCLock)
MCSpec == MCInit /\ [][MCNext]_mcvars

\* the step count is part of the view: with several workers the search is not strictly breadth first,
\* and the bound on Len(hist) would otherwise make the explored set vary from run to run
View == <<locks, bal, modBal, now, lastId, gauges, incBal, lastGauge, epochs, excused, Len(hist)>>
GenView == <<locks, bal, modBal, now, lastId, gauges, incBal, lastGauge, epochs, excused, Len(hist), op, lastDev>>

---------------------------------------------------------------------------
(* calls the specification refuses in the current state *)
Refusals ==
    {Act("create", Creator, LockDenom, 4, 0, 0, "", FALSE, Coins3(0, 3, 0), now, 1),       \* not a lockable duration
     Act("create", Creator, LockDenom, 1, 0, 0, "", FALSE, Coins3(2, 0, 0), now, 1),       \* reward denomination without a route
     Act("create", Creator, LockDenom, 1, 0, 0, "", TRUE, Coins3(0, 3, 0), now, 2),        \* perpetual over two epochs
     Act("create", Creator, LockDenom, 1, 0, 0, "", FALSE, Coins3(0, 3, 0), now, 0),       \* no epochs
     Act("create", Creator, LockDenom, 1, 0, 0, "", FALSE, Coins3(0, bal[Creator]["stake"] + 1, 0), now, 1),   \* overdraft
     Act("create", "a2", LockDenom, 1, 0, 0, "", FALSE, Coins3(0, 3, 0), now, 1),          \* cannot pay the fee
     Act("addg", Creator, "", 0, 0, lastGauge + 1, "", FALSE, Coins3(0, 3, 0), 0, 0)}      \* no such gauge
    \cup (IF bal[Creator]["uosmo"] >= MCPar.createFee     \* fee not covered
          THEN {Act("create", Creator, LockDenom, 1, 0, 0, "", FALSE, Coins3(0, 0, bal[Creator]["uosmo"] - MCPar.createFee + 1), now, 1)}
          ELSE {})
    \cup {Act("addg", Creator, "", 0, 0, id, "", FALSE, Coins3(0, 3, 0), 0, 0) : id \in {g \in GIds : Exhausted(gauges[g])}}
    \cup {Act("addg", Creator, "", 0, 0, id, "", FALSE, Coins3(1, 0, 0), 0, 0) : id \in GIds}
    \cup {Act("addg", "a2", "", 0, 0, id, "", FALSE, Coins3(0, 3, 0), 0, 0) : id \in GIds}
    \cup {Act("addg", Creator, "", 0, 0, id, "", FALSE, Coins3(0, bal[Creator]["stake"] + 1, 0), 0, 0) : id \in GIds}

RefusalsAreRefused == \A r \in Refusals :
    CASE r.a = "create" -> ~CanCreate(r.o, r.perp, r.d, r.x, r.c, r.start, r.num)
      [] r.a = "addg"   -> ~CanAddToGauge(r.o, r.id, r.c)

---------------------------------------------------------------------------
(* emission for the replay generator *)
StateDoc ==
    [locks |-> {[id |-> id, o |-> locks[id].owner, dur |-> locks[id].dur, end |-> locks[id].end,
                 c |-> locks[id].coins, rr |-> locks[id].rr] : id \in Ids},
     gauges |-> {[id |-> id, perp |-> gauges[id].perp, d |-> gauges[id].denom, dur |-> gauges[id].dur,
                  c |-> gauges[id].coins, dist |-> gauges[id].dist, filled |-> gauges[id].filled, num |-> gauges[id].num,
                  start |-> gauges[id].start, status |-> gauges[id].status] : id \in GIds},
     bal |-> bal, mod |-> modBal, inc |-> incBal, now |-> now, lastId |-> lastId, lastGauge |-> lastGauge]

ParDoc == [minAmt |-> MCPar.minAmt, creatable |-> MCPar.creatable, feeDenom |-> MCPar.feeDenom,
           createFee |-> MCPar.createFee, addFee |-> MCPar.addFee, lockable |-> MCPar.lockable]

\* refusals are tried in the interior states only
Emit ==
    PrintT(<<"GEN", ToJson([h |-> hist, st |-> StateDoc, dev |-> lastDev, par |-> IF hist = <<>> THEN ParDoc ELSE [none |-> 0],
                            refused |-> IF Len(hist) < MaxSteps THEN Refusals ELSE {}])>>)
=============================================================================
