--------------------------- MODULE MCCLSwapIdeal ---------------------------
(* Exhaustive check of the ORACLE of C03 on a tiny tick grid: the exact curve *)
(* walker must satisfy the algebraic laws of a constant-liquidity curve.      *)
(*  Split      : swapping x1 then x2 gives exactly what swapping x1+x2 gives  *)
(*  Inverse    : exact-out of what exact-in paid costs exactly the input      *)
(*  RoundTrip  : there and straight back returns <= input (= iff no fee)      *)
(*  Monotone   : more in, at least as much out                                *)
(* Grid: ticks -2..2 with sqrt prices (4+t)/4; 1-2 positions with liquidity   *)
(* in Liqs; current price on a tick or in the middle of a bucket.             *)
EXTENDS CLSwapIdeal

CONSTANTS Liqs, FeeTenths

Amts == {<<1, 4>>, <<1, 1>>, <<3, 1>>}

VARIABLE cfg    \* [C, zfo, x]

GridTicks == {0 - 2, 0 - 1, 0, 1, 2}
Q(n, d) == <<B!OfInt(n), B!OfInt(d)>>
SqrtAt(t) == Q(4 + t, 4)
Ranges == {r \in GridTicks \X GridTicks : r[1] < r[2]}
PosSets == {<<p>> : p \in Ranges \X Liqs} \cup {<<p, q>> : p \in Ranges \X Liqs, q \in Ranges \X Liqs}

NetAt(ps, t) == LET RECURSIVE S(_)
                    S(i) == IF i > Len(ps) THEN 0
                            ELSE (IF ps[i][1][1] = t THEN ps[i][2] ELSE 0) - (IF ps[i][1][2] = t THEN ps[i][2] ELSE 0) + S(i + 1)
                IN S(1)
LiqAt(ps, tk) == LET RECURSIVE S(_)
                     S(i) == IF i > Len(ps) THEN 0
                             ELSE (IF ps[i][1][1] <= tk /\ tk < ps[i][1][2] THEN ps[i][2] ELSE 0) + S(i + 1)
                 IN S(1)
Bounds(ps) == {ps[i][1][1] : i \in 1..Len(ps)} \cup {ps[i][1][2] : i \in 1..Len(ps)}

\* price points: exactly on tick t (tick = t), or in the middle of bucket [t, t+1)
Prices == {<<t, SqrtAt(t)>> : t \in GridTicks} \cup {<<t, Q(2 * (4 + t) + 1, 8)>> : t \in GridTicks \ {2}}

Curve(ps, pr, ften) ==
    [sqrt |-> pr[2], liq |-> Q(LiqAt(ps, pr[1]), 1), tick |-> pr[1],
     ticks |-> [t \in Bounds(ps) |-> [net |-> Q(NetAt(ps, t), 1), sqrt |-> SqrtAt(t)]],
     f |-> Q(ften, 10), lo |-> SqrtAt(0 - 2), hi |-> SqrtAt(2)]

Init == \E ps \in PosSets, pr \in Prices, ften \in FeeTenths, zfo \in BOOLEAN, x \in Amts :
           cfg = [C |-> Curve(ps, pr, ften), zfo |-> zfo, x |-> Q(x[1], x[2])]
Next == UNCHANGED cfg
Spec == Init /\ [][Next]_cfg

Half(x) == <<x[1], B!Mul(x[2], B!OfInt(2))>>

Laws ==
    LET C == cfg.C  zfo == cfg.zfo  x == cfg.x
        W == IdealIn(C, zfo, x)
    IN  W.ok =>
        LET W1 == IdealIn(C, zfo, Half(x))
            W2 == IdealIn(W1.end, zfo, RSub(x, RSub(Half(x), W1.left)))   \* the rest, incl. what W1 left
            consumed == RSub(x, W.left)
            V  == IdealOut(C, zfo, W.out)
            Bk == IdealIn(W.end, ~zfo, W.out)
            Wm == IdealIn(C, zfo, RAdd(x, Q(1, 3)))
        IN  /\ REq(W.in, consumed)                                        \* accounting
            /\ W1.ok /\ W2.ok
            /\ REq(RAdd(W1.out, W2.out), W.out)                           \* Split
            /\ REq(W2.end.sqrt, W.end.sqrt)
            /\ (RPos(W.out) => (V.ok /\ REq(V.in, consumed)))             \* Inverse
            /\ (Bk.ok => RLe(Bk.out, consumed))                           \* RoundTrip
            /\ ((Bk.ok /\ RIsZero(C.f) /\ RIsZero(Bk.left)) => REq(Bk.out, consumed))
            /\ (Wm.ok => RLe(W.out, Wm.out))                              \* Monotone
=============================================================================
