------------------------------ MODULE MCDowntime ------------------------------
(* Bounded model of Downtime (X02) on native integers, time unit 30 s, with the *)
(* full documented ladder.  Used twice: exhaustive checking of the properties    *)
(* (query actions on), and behaviour generation (query actions off; every        *)
(* distinct state contributes the shortest history reaching it, each step with   *)
(* the expected state and a battery of expected query answers), replayed on the  *)
(* real module.                                                                  *)
EXTENDS Downtime, TLC, Json

CONSTANTS Gens,      \* genesis documents to start from (subset of 1..4)
          Deltas,    \* block gaps, in units of 30 s
          MaxB,      \* blocks per behaviour
          MaxI,      \* export/import round trips per behaviour
          QOn,       \* query actions enabled
          QIdx,      \* ladder indices queried
          QRec,      \* recovery durations queried (0 = refused)
          QDt,       \* query time = last block time + dt
          HistOn     \* record the history (behaviour generation)

ISub(a, b) == a - b
ILe(a, b)  == a <= b
MCLadder   == [i \in 1..Len(LadderSeconds) |-> LadderSeconds[i] \div 30]

\* recovery durations of the replay battery (units of 30 s), asked at the block time
BatR == <<1, 3, 20, 130, 5760>>
Battery(l, b) == [i \in Idx |-> [k \in 1..Len(BatR) |-> RecAnswer(l, i, BatR[k], b)]]

Gen(k) ==
    CASE k = 1 -> [lb |-> 0, ent |-> <<>>]                                    \* the default genesis
      [] k = 2 -> [lb |-> 10, ent |-> << [d |-> 2, t |-> 8], [d |-> 1, t |-> 10],
                                         [d |-> 4, t |-> 3], [d |-> 3, t |-> 8] >>]   \* partial, consistent
      [] k = 3 -> [lb |-> 5, ent |-> << [d |-> 3, t |-> 9], [d |-> 1, t |-> 2] >>]    \* inconsistent
      [] k = 4 -> [lb |-> 6000, ent |-> [i \in Idx |-> [d |-> N + 1 - i, t |-> 6000 - MCLadder[N + 1 - i]]]]  \* full, reversed order

VARIABLES hist,   \* Seq of steps [a, (gen | t), st]
          nb, ni

St(b, l) == [lb |-> b, last |-> l]

MCInit == \E k \in Gens :
    /\ InitWith(Gen(k))
    /\ nb = 0 /\ ni = 0
    /\ hist = IF HistOn THEN << [a |-> "init", gen |-> Gen(k), st |-> St(Gen(k).lb, GenLast(Gen(k)))] >>
               ELSE <<>>

MCBlock == \E d \in Deltas :
    /\ nb < MaxB
    /\ BeginBlock(lb + d)
    /\ nb' = nb + 1 /\ ni' = ni
    /\ hist' = IF HistOn THEN Append(hist, [a |-> "block", t |-> lb + d, st |-> St(lb', last')])
                ELSE hist

\* export the genesis and start a new chain from it
MCReimport ==
    /\ ni < MaxI
    /\ blocks # <<>>
    /\ InitGenesis(GenesisOf(lb, last))
    /\ ni' = ni + 1 /\ nb' = nb
    /\ hist' = IF HistOn THEN Append(hist, [a |-> "reimport", st |-> St(lb', last')])
                ELSE hist

\* queries are pure, so asking them right after a state-changing step loses nothing
Fresh == resp.q \in {"init", "block"}

MCGet == /\ QOn /\ Fresh
         /\ \E d \in QIdx \cup {0, N + 1} : GetLast(d, d \in Idx, IF d \in Idx THEN last[d] ELSE 0)
         /\ UNCHANGED <<hist, nb, ni>>

MCRec == /\ QOn /\ Fresh
         /\ \E d \in QIdx \cup {0}, r \in QRec, dt \in QDt :
               Recovered(d, r, lb + dt, RecValid(d, r), RecValid(d, r) /\ RecAnswer(last, d, r, lb + dt))
         /\ UNCHANGED <<hist, nb, ni>>

MCExport == /\ QOn /\ Fresh
            /\ Export(GenesisOf(lb, last))
            /\ UNCHANGED <<hist, nb, ni>>

MCNext == MCBlock \/ MCReimport \/ MCGet \/ MCRec \/ MCExport
MCSpec == MCInit /\ [][MCNext]_<<vars, hist, nb, ni>>

View == <<vars, nb, ni>>

\* one behaviour per distinct state: the shortest history reaching it (expected state after every step)
\* and the expected answers of the query battery in that state
Emit == PrintT(<<"GEN", ToJson([unit |-> 30, batr |-> BatR, steps |-> hist, rec |-> Battery(last, lb)])>>)
=============================================================================
