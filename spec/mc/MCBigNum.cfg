SPECIFICATION Spec
