------------------------------ MODULE MCSumTree ------------------------------
(* Bounded model of SumTree: exhaustive checking of both layers together and  *)
(* generation of behaviours for replay on the real tree.                       *)
(*  - MC, Fix = {} without "rem": the algorithms as transcribed refine the map *)
(*    (every query but the nil-nil total) and keep the aggregates consistent;  *)
(*  - MC, Fix = all proposed repairs, all operations: everything holds;        *)
(*  - Gen, Fix = {}: every transition of the reachable graph of <<map, store>> *)
(*    is printed with a shortest path to it (ops + the map expected after the  *)
(*    last op); the expected map comes from the abstract layer only.           *)
EXTENDS SumTree, Json

CONSTANTS KeySet,    \* keys the operations use (defined below, chosen by cfg)
          Vals,      \* values written by set
          Ops,       \* subset of {"set", "inc", "dec", "rem", "open"}
          MaxAbs,    \* inc / dec keep |value| <= MaxAbs
          MaxDepth,  \* behaviours are at most this long
          BeyondDefect, \* FALSE: behaviours are not extended from a structurally defective store (what
                     \* follows a defect is attributed to it anyway; the clean part of the graph is finite)
          WithTotal  \* whether the nil-nil total is part of the refinement invariant

VARIABLE hist        \* Seq of <<a, k, v>>

Keys5 == {<<>>, <<1>>, <<2>>, <<3>>, <<1, 0>>}
Keys6 == {<<>>, <<1>>, <<2>>, <<3>>, <<4>>, <<1, 0>>}
Keys7 == {<<>>, <<1>>, <<2>>, <<3>>, <<4>>, <<5>>, <<1, 0>>}
Keys4 == {<<>>, <<1>>, <<2>>, <<1, 0>>}
Keys9 == {<<>>, <<1>>, <<2>>, <<3>>, <<4>>, <<5>>, <<6>>, <<7>>, <<1, 0>>}
\* probes: every operation key plus keys in the gaps between them
ProbeOf(K) == K \cup {<<0>>, <<1, 1>>, <<9>>}
Probe == ProbeOf(KeySet)

AllFixes == {"total", "splitguard", "nilroot", "keepempty"}
NoFix == {}
QueryFixes == {"total", "splitguard", "nilroot"}

MCInit == Init /\ hist = <<>>

Step(a, k, v) == /\ Len(hist) < MaxDepth
                 /\ BeyondDefect \/ StructDefect(store) = ""
                 /\ Do(a, k, v)
                 /\ hist' = Append(hist, <<a, k, v>>)

MCNext ==
    \/ \E k \in KeySet : \E v \in Vals : "set" \in Ops /\ Step("set", k, v)
    \/ \E k \in KeySet : "inc" \in Ops /\ AVal(mp, k) + 1 <= MaxAbs /\ Step("inc", k, 1)
    \/ \E k \in KeySet : "dec" \in Ops /\ AVal(mp, k) - 1 >= -MaxAbs /\ Step("dec", k, 1)
    \/ \E k \in KeySet : "rem" \in Ops /\ Step("rem", k, 0)
    \/ "open" \in Ops /\ Step("open", <<>>, 0)

MCSpec == MCInit /\ [][MCNext]_<<svars, hist>>

View == svars

Refines  == LeavesAgree /\ QueriesAgreeOn(Probe, WithTotal)
Structure == Consistent

\* ---- behaviour generation ------------------------------------------------
MapAsSeq(f) == LET ks == SortKeys(DOMAIN f) IN [j \in 1..Len(ks) |-> <<ks[j], f[ks[j]]>>]

\* the model's store, for measuring how faithful the transcription is (never a verdict)
RECURSIVE SortPairs(_)
SortPairs(S) == IF S = {} THEN <<>>
                ELSE LET mn == CHOOSE x \in S : \A y \in S : x[1] < y[1] \/ (x[1] = y[1] /\ KeyLe(x[2], y[2]))
                     IN <<mn>> \o SortPairs(S \ {mn})
StoreAsSeq(s) == LET ds == SortPairs(Inner(s))
                 IN [j \in 1..Len(ds) |-> <<ds[j][1], ds[j][2],
                                             [c \in 1..Len(s[ds[j]]) |-> <<s[ds[j]][c].i, s[ds[j]][c].a>>]>>]

\* one behaviour per transition of the reduced graph (ACTION_CONSTRAINT)
EmitEdge == PrintT(<<"GEN", ToJson([ops |-> hist', st |-> MapAsSeq(mp'), nd |-> StoreAsSeq(store')])>>)
\* one behaviour per distinct state (INVARIANT)
EmitState == hist = <<>> \/ PrintT(<<"GEN", ToJson([ops |-> hist, st |-> MapAsSeq(mp), nd |-> StoreAsSeq(store)])>>)
=============================================================================
