------------------------------ MODULE MCCLRewards ------------------------------
(* Bounded model of CLRewards: ticks MinT..MaxT, <= MaxPos positions, growth in *)
(* Grow, total growth <= MaxG.  Exhaustive over every interleaving of creating   *)
(* positions (before / after crossings, in every tick / price relation),         *)
(* accruals, crossings in both directions, claims and withdrawals.               *)
EXTENDS CLRewards, TLC

CONSTANTS MinT, MaxT, Liqs, MaxPos, MaxId, Grow, MaxG

MinTVal == -1
IntAdd(a, b) == a + b
IntSub(a, b) == a - b
IntLe(a, b)  == a <= b
SqrtOf(t) == 2 * (t - MinT + 1)
TickOfSqrt(s) == (s \div 2) + MinT - 1
Ticks == MinT..MaxT
Sqrts == SqrtOf(MinT)..SqrtOf(MaxT)
PriceAt(s) == [tick |-> TickOfSqrt(s), sqrt |-> s, curLo |-> SqrtOf(TickOfSqrt(s)), curHi |-> SqrtOf(TickOfSqrt(s) + 1)]

MCCreate == \E lo \in Ticks, hi \in Ticks, dl \in Liqs, s0 \in Sqrts :
    /\ lo < hi /\ Cardinality(Ids(cl)) < MaxPos /\ cl.maxId < MaxId
    /\ (Ids(cl) # {} => s0 = SqrtOf(MinT))
    /\ RCreate(cl.maxId + 1, 1, lo, hi, dl, SqrtOf(lo), SqrtOf(hi), PriceAt(s0))

MCWithdraw == \E id \in Ids(cl), dl \in Liqs : RWithdraw(id, dl)
MCClaim == \E id \in Ids(cl) : Claimable(id) > 0 /\ RClaim(id)
MCAccrue == \E g \in Grow : fg + g <= MaxG /\ RAccrue(g)
MCSwap == \E down \in BOOLEAN, s \in Sqrts :
    /\ Ids(cl) # {}
    /\ IF down THEN s <= cl.sqrt ELSE s >= cl.sqrt
    /\ LET onInit == s % 2 = 0 /\ TickOfSqrt(s) \in DOMAIN cl.ticks
           nt == IF down /\ onInit /\ (s < cl.sqrt \/ cl.tick = TickOfSqrt(s)) THEN TickOfSqrt(s) - 1
                 ELSE IF s = cl.sqrt THEN cl.tick ELSE TickOfSqrt(s)
       IN  /\ nt >= MinT - 1 /\ nt <= MaxT
           /\ (nt # cl.tick \/ s # cl.sqrt)
           /\ RSwap(down, nt, s, SqrtOf(nt), SqrtOf(nt + 1))

MCNext == MCCreate \/ MCWithdraw \/ MCClaim \/ MCAccrue \/ MCSwap
MCSpec == RInit /\ [][MCNext]_rvars
=============================================================================
