---------------------------- MODULE MCPartialOrd ----------------------------
(* Bounded model of PartialOrd.                                               *)
(*  - MC  (cfg text in bin/checks/x01.py): every entry point with every       *)
(*    argument over a small universe, both outcomes, TotalOrdering answering   *)
(*    with ANY satisfying ordering; all properties of PartialOrd as            *)
(*    invariants / action properties; VIEW without hist.                       *)
(*  - Gen: the same next-state relation without the TotalOrdering action (the  *)
(*    replayer asks after every step itself); hist records, per call, the      *)
(*    outcome the model chose, the set of outcomes the specification allows     *)
(*    and what is in force afterwards.  With GenAll = TRUE the view includes    *)
(*    hist: EVERY call sequence of length MaxOps is printed (leaves only);      *)
(*    with GenAll = FALSE one shortest sequence per distinct abstract state.    *)
EXTENDS PartialOrd, TLC, Json

CONSTANTS
    NameSeqs,    \* the argument lists NewPartialOrdering is tried with
    Strangers,   \* names that are never elements (arguments of calls only)
    MaxOps,      \* calls after NewPartialOrdering per behaviour
    MaxDecl,     \* longest First/Last declaration tried
    DupDecl,     \* BOOLEAN: declarations may list a name twice
    Ops,         \* subset of {"before","after","seq","first","last","total"}
    Prune,       \* BOOLEAN: no First/Last call is tried once that declaration is sealed
    Gen,         \* BOOLEAN: hist is recorded (behaviour generation)
    GenAll,      \* BOOLEAN: see above
    Policy,      \* "none" | "direct": see PolicyPairs
    WellFormed,  \* BOOLEAN: Before/After are not tried with the same name twice
    AfterTotal   \* BOOLEAN: calls are explored from states that hold an answer of TotalOrdering

VARIABLES n,     \* calls made since NewPartialOrdering
          hist   \* [names, o, steps : Seq of step records]

N3 == {<<"b", "c", "a">>}
N3dup == {<<"b", "c", "a">>, <<"a", "b", "a">>}
N4 == {<<"c", "a", "d", "b">>}
N4dup == {<<"c", "a", "d", "b">>, <<"a", "b", "c", "b">>}
N5 == {<<"c", "e", "a", "d", "b">>}
NoStrangers == {}
OneStranger == {"z"}
AllOps == {"before", "after", "seq", "first", "last", "total"}
MutOps == {"before", "after", "seq", "first", "last"}
NoSeqOps == {"before", "after", "first", "last"}

Univ == elems \cup Strangers
\* what is directly declared at this moment
Direct == cons \cup FirstEdges(elems, first) \cup LastEdges(elems, last)

\* PermsOf tabulated once (a constant): cfg has Perms <- TabPerms
AllNames == UNION {Range(ns) : ns \in NameSeqs}
PermTable == [S \in SUBSET AllNames |-> PermsOf(S)]
TabPerms(S) == PermTable[S]
BeforeTable == [p \in UNION {PermTable[S] : S \in SUBSET AllNames} |-> BeforePairsOf(p)]
TabBefore(p) == IF p \in DOMAIN BeforeTable THEN BeforeTable[p] ELSE BeforePairsOf(p)

\* argument sequences of length 1..k over S (with or without repetition)
RECURSIVE SeqsUpTo(_, _)
SeqsUpTo(S, k) == IF k = 0 THEN {<<>>}
                  ELSE LET R == SeqsUpTo(S, k - 1) IN R \cup {Append(s, x) : s \in R, x \in S}
DeclArgs == {s \in SeqsUpTo(Univ, MaxDecl) : s # <<>> /\ (DupDecl \/ Distinct(s))}
\* Sequence(...) is tried with three names (two names are Before)
SeqArgs == {s \in SeqsUpTo(Univ, 3) : Len(s) = 3 /\ s[1] # s[2] /\ s[2] # s[3]}

MCInit == Init /\ n = 0 /\ hist = [names |-> <<>>, o |-> "", steps |-> <<>>]

ConsSeq(C) == C   \* ToJson prints a set of pairs as an array of arrays

\* the record of one call; evaluated with the primed state already determined
StepRec(op, a, b, s, o, may, P) ==
    [op |-> op, a |-> a, b |-> b, s |-> s, o |-> o, may |-> may,
     \* the call re-declares something that is directly declared already
     redund |-> P \cap Direct # {},
     cons |-> cons', first |-> first', last |-> last',
     sat |-> Satisfiable(elems', cons', first', last'),
     dconf |-> ~Satisfiable(elems', {}, first', last')]

MayPairs(P) == {"ok"} \cup (IF Satisfiable(elems, cons \cup P, first, last) THEN {} ELSE {"rej"})
MayFirst(s) == (IF fsealed THEN {} ELSE {"ok"}) \cup
               (IF fsealed \/ ~Satisfiable(elems, cons \ ContraFirst(cons, s), s, last) THEN {"rej"} ELSE {})
MayLast(s)  == (IF lsealed THEN {} ELSE {"ok"}) \cup
               (IF lsealed \/ ~Satisfiable(elems, cons \ ContraLast(cons, s), first, s) THEN {"rej"} ELSE {})

\* Generation only.  Where the specification leaves the outcome of a call open (a call after which no
\* ordering exists may be rejected at once or accepted and reported by TotalOrdering), Policy = "direct"
\* makes the model choose like this: reject iff the call contradicts itself (a name against itself, a
\* stranger, the same name twice in a row) or directly reverses something directly declared; accept otherwise.  This only prunes
\* behaviours the library does not follow anyway (the replayer counts a behaviour it cannot follow as
\* "diverged"); `may` still lists every outcome the specification allows.
SelfContra(P) == \E p \in P : p[1] = p[2] \/ p[1] \notin elems \/ p[2] \notin elems
PolicyPairs(P, o) == Policy = "none" \/
    ((o = "rej") <=> (SelfContra(P) \/ \E p \in P : <<p[2], p[1]>> \in Direct \cup P))
PolicyDecl(s, sealed, o) == Policy = "none" \/
    ((o = "rej") <=> (sealed \/ ~(Range(s) \subseteq elems) \/ \E i \in 1..(Len(s) - 1) : s[i] = s[i + 1]))

\* AfterTotal = FALSE: no call is explored from a state that holds an answer (such a call leads
\* where the same call leads from the state without the answer)
Budget == made /\ n < MaxOps /\ (AfterTotal \/ out.k = "none")
Count(op, a, b, s, o, may, P) ==
    /\ n' = n + 1
    /\ hist' = IF Gen THEN [hist EXCEPT !.steps = Append(@, StepRec(op, a, b, s, o, may, P))] ELSE hist

MCNew == \E names \in NameSeqs : \E o \in {"ok", "rej"} :
    /\ gen < (IF Gen THEN 1 ELSE 2)          \* model checking: one retry after a rejected constructor call
    /\ New(names, o)
    /\ n' = 0
    /\ hist' = [names |-> names, o |-> o, steps |-> <<>>]

MCBefore == "before" \in Ops /\ Budget /\ \E a, b \in Univ : \E o \in {"ok", "rej"} :
    /\ WellFormed => a # b
    /\ PolicyPairs({<<a, b>>}, o)
    /\ Before(a, b, o)
    /\ Count("before", a, b, <<>>, o, MayPairs({<<a, b>>}), {<<a, b>>})

MCAfter == "after" \in Ops /\ Budget /\ \E a, b \in Univ : \E o \in {"ok", "rej"} :
    /\ WellFormed => a # b
    /\ PolicyPairs({<<b, a>>}, o)
    /\ After(a, b, o)
    /\ Count("after", a, b, <<>>, o, MayPairs({<<b, a>>}), {<<b, a>>})

MCSequence == "seq" \in Ops /\ Budget /\ \E s \in SeqArgs : \E o \in {"ok", "rej"} :
    /\ PolicyPairs(PairsOfSeq(s), o)
    /\ Sequence(s, o)
    /\ Count("seq", "", "", s, o, MayPairs(PairsOfSeq(s)), PairsOfSeq(s))

MCFirst == "first" \in Ops /\ Budget /\ (Prune => ~fsealed) /\ \E s \in DeclArgs : \E o \in {"ok", "rej"} :
    /\ PolicyDecl(s, fsealed, o)
    /\ FirstElements(s, o)
    /\ Count("first", "", "", s, o, MayFirst(s), {})

MCLast == "last" \in Ops /\ Budget /\ (Prune => ~lsealed) /\ \E s \in DeclArgs : \E o \in {"ok", "rej"} :
    /\ PolicyDecl(s, lsealed, o)
    /\ LastElements(s, o)
    /\ Count("last", "", "", s, o, MayLast(s), {})

Answers == {Panicked} \cup {Ordered(p) : p \in Perms(elems)}
MCTotal == "total" \in Ops /\ made /\ \E r \in Answers :
    /\ TotalOrdering(r)
    /\ UNCHANGED <<n, hist>>

MCNext == MCNew \/ MCBefore \/ MCAfter \/ MCSequence \/ MCFirst \/ MCLast \/ MCTotal
MCSpec == MCInit /\ [][MCNext]_<<vars, n, hist>>

View == IF GenAll THEN <<vars, n, hist>> ELSE <<vars, n>>

\* behaviour emission
Emit == (made /\ hist.steps # <<>> /\ (GenAll => n = MaxOps)) => PrintT(<<"GEN", ToJson(hist)>>)
\* the rejected constructor call is a behaviour of its own
EmitNew == (~made /\ hist.o = "rej") => PrintT(<<"GEN", ToJson(hist)>>)
=============================================================================
