------------------------- MODULE MCPoolIncentives -------------------------
(* Bounded model of PoolIncentives for exhaustive checking (native integers)  *)
(* and for behaviour generation: the shortest behaviour to every distinct     *)
(* state whose allocations are exact at every decimal precision is printed as *)
(* JSON and replayed on the real keepers.                                     *)
(* Ids are allocated densely (pool n+1, gauge n+1), as a fresh chain does.    *)
EXTENDS PoolIncentives, TLC, Json

CONSTANTS MaxPools,    \* pools created per behaviour
          MaxExt,      \* user-created gauges per behaviour
          MaxGov,      \* proposals per behaviour
          MaxAlloc,    \* allocations (bare or through the mint hook) per behaviour
          MaxFund,     \* fundings per behaviour
          Weights,     \* weights of proposal records
          Funds,       \* amounts arriving in the module account
          Slack,       \* units a record's payment may stay below the exact floor (subset of {0, 1})
          MaxLen       \* records per proposal

IAdd(a, b) == a + b
ISub(a, b) == a - b
IMul(a, b) == a * b
ILe(a, b)  == a <= b

VARIABLES cnt,     \* [pool, ext, gov, alloc, fund : Nat] actions taken so far
          exact,   \* every allocation so far is the same at every decimal precision of the ratio
          rej,     \* <<kind, shape>> of the proposal just rejected (<<>> otherwise): keeps the rejections of
                   \* different shapes apart, so that the generator emits a behaviour for each of them
          hist     \* Seq of steps [a, ..., st : the state after]

Conf0 == [id |-> 0, durs |-> <<"d1", "d2">>, epoch |-> "ep"]
Led0 == [mod |-> 0, modo |-> 0, comm |-> 0, inc |-> 0]
Empty == [x \in {} |-> 0]

\* ------------------------------------------------------------------------
\* the state as the harness projects it (sequences instead of functions)
NG == Cardinality(GaugeIds)
NP == Cardinality(PoolIds)
Snap == [pools  |-> [p \in 1..Cardinality(DOMAIN pools') |-> [id |-> p, kind |-> pools'[p]]],
         gauges |-> [g \in 1..Cardinality(DOMAIN gauges') |->
                        [id |-> g, perp |-> gauges'[g].perp, kind |-> gauges'[g].kind, c |-> gauges'[g].c, o |-> gauges'[g].o]],
         p2g |-> p2g', g2p |-> g2p', nolock |-> nolock', recs |-> recs', tw |-> tw', led |-> led']

MCInit ==
    /\ InitWith(Conf0, Empty, Empty, {}, {}, {}, <<>>, 0, Led0)
    /\ cnt = [pool |-> 0, ext |-> 0, gov |-> 0, alloc |-> 0, fund |-> 0]
    /\ exact = TRUE
    /\ rej = <<>>
    /\ hist = <<>>

Step(r) == hist' = Append(hist, r @@ [st |-> Snap])
Bump(f) == cnt' = [cnt EXCEPT ![f] = @ + 1] /\ (f # "gov" => rej' = <<>>)

\* bound: a rejected proposal is the last proposal of a behaviour
GovDone(ok) == cnt' = [cnt EXCEPT !.gov = IF ok THEN @ + 1 ELSE MaxGov]

ShapeOf(rs) ==
    IF Len(rs) = 0 THEN "empty"
    ELSE IF \E i \in 1..Len(rs) : rs[i].w < 0 THEN "negative"
    ELSE IF \E i \in 1..(Len(rs) - 1) : rs[i].g > rs[i + 1].g THEN "descending"
    ELSE IF \E i \in 1..(Len(rs) - 1) : rs[i].g = rs[i + 1].g THEN "duplicate"
    ELSE IF \E i \in 1..Len(rs) : rs[i].g # 0 /\ rs[i].g \notin GaugeIds THEN "unknown-gauge"
    ELSE "non-perpetual"

MCClassic ==
    /\ cnt.pool < MaxPools
    /\ LET gs == [i \in 1..Len(conf.durs) |-> NG + i] IN
        /\ CreateClassicPool(NP + 1, gs, 0)
        /\ Step([a |-> "pool", kind |-> "cfmm", pool |-> NP + 1, gs |-> gs])
    /\ Bump("pool") /\ UNCHANGED exact

MCConcentrated ==
    /\ cnt.pool < MaxPools
    /\ CreateConcentratedPool(NP + 1, NG + 1, 0)
    /\ Step([a |-> "pool", kind |-> "cl", pool |-> NP + 1, gs |-> <<NG + 1>>])
    /\ Bump("pool") /\ UNCHANGED exact

MCExt ==
    /\ cnt.ext < MaxExt
    /\ \E p \in PoolIds, perp \in BOOLEAN :
         LET kind == IF pools[p] = "cfmm" THEN "dur" ELSE "nolock"
             d == IF kind = "dur" THEN conf.durs[1] ELSE "up"
             o == 0        \* other coins need a swap route on the real chain; the recorder covers them
         IN  /\ ExternalGauge(NG + 1, perp, kind, p, d, 1, o)
             /\ Step([a |-> "ext", g |-> NG + 1, perp |-> perp, kind |-> kind, pool |-> p, d |-> d, c |-> 1, o |-> o])
    /\ Bump("ext") /\ UNCHANGED exact

\* proposals: every list of at most MaxLen records over the known gauges, gauge 0 and one unknown id -
\* ascending ones with every weight, and for the malformed shapes (descending, duplicate) one each
Cand == (0..(NG + 1))
Rec(g, w) == [g |-> g, w |-> w]
Pairs == { <<Rec(g1, w1), Rec(g2, w2)>> : g1 \in Cand, g2 \in Cand, w1 \in Weights, w2 \in Weights }
Triples == { <<Rec(g1, 1), Rec(g2, w2), Rec(g3, w3)>> : g1 \in Cand, g2 \in Cand, g3 \in Cand,
                                                        w2 \in Weights \ {0}, w3 \in Weights \ {0} }
Proposals ==
    {<<>>} \cup { <<Rec(g, w)>> : g \in Cand, w \in Weights \cup {-1} }
    \cup (IF MaxLen < 2 THEN {} ELSE { p \in Pairs : p[1].g < p[2].g \/ (p[1].w = 1 /\ p[2].w = 1) })
    \cup (IF MaxLen < 3 THEN {} ELSE { p \in Triples : p[1].g < p[2].g /\ p[2].g < p[3].g })

\* the registry after an update, as the design computes it: overwrite / add, drop every zero weight, sort
RECURSIVE SortedFrom(_, _)
SortedFrom(S, rs) == IF S = {} THEN <<>>
                     ELSE LET g == CHOOSE x \in S : \A y \in S : x <= y
                          IN  << Rec(g, rs[g]) >> \o SortedFrom(S \ {g}, rs)
UpdateResult(rs) ==
    LET all == Mentioned(recs) \cup Mentioned(rs)
        wt  == [g \in all |-> IF g \in Mentioned(rs) THEN WeightOf(rs, g) ELSE WeightOf(recs, g)]
    IN  SortedFrom({g \in all : wt[g] # 0}, wt)

MCReplace ==
    /\ cnt.gov < MaxGov
    /\ \E rs \in Proposals : \E ok \in BOOLEAN :
         /\ Replace(rs, ok)
         /\ rej' = IF ok THEN <<>> ELSE <<"replace", ShapeOf(rs)>>
         /\ Step([a |-> "replace", recs |-> rs, ok |-> ok, shape |-> IF ok THEN "" ELSE ShapeOf(rs)])
         /\ GovDone(ok)
    /\ UNCHANGED exact

MCUpdate ==
    /\ cnt.gov < MaxGov
    /\ \E rs \in Proposals : \E ok \in BOOLEAN :
         /\ Update(rs, ok, IF WellFormed(rs) THEN UpdateResult(rs) ELSE recs)
         /\ rej' = IF ok THEN <<>> ELSE <<"update", ShapeOf(rs)>>
         /\ Step([a |-> "update", recs |-> rs, ok |-> ok, shape |-> IF ok THEN "" ELSE ShapeOf(rs)])
         /\ GovDone(ok)
    /\ UNCHANGED exact

MCFund ==
    /\ cnt.fund < MaxFund
    /\ \E x \in Funds \cup {0} : \E y \in {0, 1} :
         /\ x + y > 0 /\ (y = 1 => x = 0)
         /\ Fund(x, y)
         /\ Step([a |-> "fund", x |-> x, y |-> y])
    /\ Bump("fund") /\ UNCHANGED exact

\* n has no prime factor other than 2 and 5 (it divides a power of ten)
RECURSIVE Only25(_)
Only25(n) == IF n = 1 THEN TRUE ELSE IF n % 2 = 0 THEN Only25(n \div 2) ELSE IF n % 5 = 0 THEN Only25(n \div 5) ELSE FALSE
RECURSIVE Gcd(_, _)
Gcd(a, b) == IF b = 0 THEN a ELSE Gcd(b, a % b)
\* the share A*w/t is the same whatever the decimal precision of the ratio w/t is
ExactShare(A, w, t) == w = 0 \/ (A * w) % t # 0 \/ Only25(t \div Gcd(t, w))

Floors(A) == [i \in 1..Len(recs) |-> IF A = 0 \/ tw = 0 THEN 0 ELSE (A * recs[i].w) \div tw]
Pays(A) == { pay \in [1..Len(recs) -> 0..A] :
               \A i \in 1..Len(recs) : \E s \in Slack : pay[i] = Floors(A)[i] - s }

MCAllocate(name, xs) ==
    /\ cnt.alloc < MaxAlloc
    /\ \E x \in xs : LET A == led.mod + x IN \E pay \in Pays(A) :
         /\ Allocate(x, TRUE, pay)
         /\ exact' = (exact /\ pay = Floors(A) /\ (tw # 0 => \A i \in 1..Len(recs) : ExactShare(A, recs[i].w, tw)))
         /\ Step([a |-> name, x |-> x, ok |-> TRUE, pay |-> pay])
    /\ Bump("alloc")

MCAlloc == MCAllocate("alloc", {0})
MCMint == MCAllocate("mint", Funds)

MCNext == MCClassic \/ MCConcentrated \/ MCExt \/ MCReplace \/ MCUpdate \/ MCFund \/ MCAlloc \/ MCMint
MCSpec == MCInit /\ [][MCNext]_<<vars, cnt, exact, rej, hist>>

View == <<vars, cnt, exact, rej>>

\* the model never rejects a well-formed proposal and never fails an allocation by construction; these
\* are the design-level sanity checks of the bounded model
TypeOK == /\ \A g \in GaugeIds : gauges[g].c >= 0 /\ gauges[g].o >= 0
          /\ led.mod >= 0 /\ led.comm >= 0 /\ led.inc >= 0 /\ tw >= 0

Emit == (hist # <<>> /\ exact) => PrintT(<<"GEN", ToJson([conf |-> conf, steps |-> hist])>>)
=============================================================================
