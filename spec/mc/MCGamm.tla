------------------------------- MODULE MCGamm -------------------------------
(* Bounded model of Gamm (C02) with native integers and TOY prices.           *)
(* 2 actors, 2 pool slots (slot 1 a balancer pool, slot 2 a stableswap pool   *)
(* when replayed), 2 base denoms + the 2 share denoms.  Amounts out, shares   *)
(* minted etc. come from an integer constant-product toy (the property does   *)
(* not say what they are; any positive numbers would do) with the real        *)
(* code's rounding directions.  Rates are in quarters (U = 4): the pair       *)
(* (1,2) carries a 25% taker fee, (2,1) none; in CfgB actor 2 is fee exempt   *)
(* and exempt from the pool-creation fee.                                     *)
(*  - mc cfg: all paths up to MaxDepth actions, every invariant and action    *)
(*    property of Gamm.tla;                                                   *)
(*  - gen cfg: one behaviour (shortest action schedule) per distinct state,   *)
(*    printed as JSON; harness/app/gamm replays every schedule on the real    *)
(*    app (amounts scaled up), checks that what the model says cannot move    *)
(*    funds fails there too, and the recorded ledger is validated by          *)
(*    TraceGamm like any other trace.                                         *)
EXTENDS Gamm, TLC, Json

CONSTANTS CConf,      \* which configuration (CfgA / CfgB)
          Amts,       \* token amounts tried
          ShareAmts,  \* share amounts tried
          MaxDepth,
          MaxDirect   \* bound on the units sent directly to pool accounts

VARIABLES hist,       \* the schedule so far
          depth,
          ever        \* ever[t][p]: actor t acquired shares of slot p at some point

IAdd(a, b) == a + b
ISub(a, b) == a - b
IMul(a, b) == a * b
ILe(a, b)  == a <= b
IFloorDiv(a, b) == a \div b
ICeilDiv(a, b)  == (a + b - 1) \div b

NAc == 2
NPl == 2
NDn == 2
V4(a, b, c, d) == <<a, b, c, d>>
CfgA == [name |-> "A", na |-> NAc, np |-> NPl, nd |-> NDn, initShares |-> 4, createFee |-> V4(1, 0, 0, 0), free |-> {}, exempt |-> {}]
CfgB == [name |-> "B", na |-> NAc, np |-> NPl, nd |-> NDn, initShares |-> 4, createFee |-> V4(0, 1, 0, 0), free |-> {2}, exempt |-> {2}]

Bal0 == [a \in 1..(NAc + NPl + 2) |-> IF a <= NAc THEN V4(8, 8, 0, 0) ELSE V4(0, 0, 0, 0)]
Sup0 == V4(16, 16, 0, 0)

\* toy taker-fee table (raw rate, U = 4)
TF(di, do) == IF di = 1 /\ do = 2 THEN 1 ELSE 0
Ex(t) == t \in cfg.exempt

mcvars == <<vars, hist, depth, ever>>

MCInit == /\ InitWith(CConf, Bal0, Sup0)
          /\ hist = <<>> /\ depth = 0
          /\ ever = [t \in 1..NAc |-> [p \in 1..NPl |-> FALSE]]

Room == depth < MaxDepth
Step(h) == hist' = Append(hist, h) /\ depth' = depth + 1
\* shares of slot p may have reached t: t holds some afterwards, or t took something out of a pool
\* (slots qs) that holds them as an asset (the toy amount may round to 0 where the real one does not)
EverUpd(t, qs) == ever' = [ever EXCEPT ![t] = [p \in 1..NPl |-> \/ @[p] \/ L'.bal[t][NDn + p] > 0
                                                                \/ \E q \in qs : L.pools[q].res[NDn + p] > 0]]
Acquire(t, p) == EverUpd(t, {})

R(p, d) == L.pools[p].res[d]
S(p)    == L.pools[p].sh
Assets(p) == {d \in Den : R(p, d) > 0}
Vec(f)  == [d \in Den |-> f[d]]

\* --- liquidity ---------------------------------------------------------
NextSlot == IF \A p \in Slots : L.pools[p].on THEN 0 ELSE CHOOSE p \in Slots : ~L.pools[p].on /\ \A q \in Slots : q < p => L.pools[q].on

InitLiq(p) == IF p = 1 THEN {V4(4, 4, 0, 0), V4(2, 6, 0, 0)}
              ELSE {V4(4, 4, 0, 0), V4(3, 0, 2, 0)}      \* slot 2 may hold shares of slot 1 as an asset

MCCreate == \E t \in Actors : \E v \in InitLiq(NextSlot) :
    /\ Room /\ NextSlot # 0
    /\ CreatePool(t, NextSlot, v)
    /\ Acquire(t, NextSlot)
    /\ Step([a |-> "create", who |-> t, p |-> NextSlot, v |-> v, must |-> "any"])

MCJoin == \E t \in Actors, p \in Slots, s \in ShareAmts :
    /\ Room /\ L.pools[p].on
    /\ Join(t, p, [d \in Den |-> ICeilDiv(R(p, d) * s, S(p))], s)
    /\ Acquire(t, p)
    /\ Step([a |-> "join", who |-> t, p |-> p, s |-> s, must |-> "any"])

MCJoinIn == \E t \in Actors, p \in Slots, x \in Amts : \E d \in Assets(p) :
    /\ Room /\ L.pools[p].on
    /\ (S(p) * x) \div (2 * (R(p, d) + x)) > 0
    /\ Join(t, p, One(d, x), (S(p) * x) \div (2 * (R(p, d) + x)))
    /\ Acquire(t, p)
    /\ Step([a |-> "joinIn", who |-> t, p |-> p, d |-> d, x |-> x, must |-> "any"])

MCJoinOut == \E t \in Actors, p \in Slots, s \in ShareAmts : \E d \in Assets(p) :
    /\ Room /\ L.pools[p].on
    /\ IF p = 2 THEN /\ Noop("joinOut", t, FALSE) /\ UNCHANGED ever      \* stableswap does not support it
                     /\ Step([a |-> "joinOut", who |-> t, p |-> p, d |-> d, s |-> s, must |-> "fail"])
       ELSE /\ Join(t, p, One(d, ICeilDiv(2 * R(p, d) * s, S(p))), s)
            /\ Acquire(t, p)
            /\ Step([a |-> "joinOut", who |-> t, p |-> p, d |-> d, s |-> s, must |-> "any"])

MCExit == \E t \in Actors, p \in Slots, s \in ShareAmts :
    /\ Room /\ L.pools[p].on /\ s < S(p)
    /\ Exit(t, p, [d \in Den |-> (R(p, d) * s) \div S(p)], s)
    /\ EverUpd(t, {p})
    /\ Step([a |-> "exit", who |-> t, p |-> p, s |-> s, must |-> "any"])

MCExitIn == \E t \in Actors, p \in Slots, s \in ShareAmts : \E d \in Assets(p) :
    /\ Room /\ L.pools[p].on /\ s < S(p)
    /\ (R(p, d) * s) \div (2 * S(p)) > 0
    /\ Exit(t, p, One(d, (R(p, d) * s) \div (2 * S(p))), s)
    /\ EverUpd(t, {p})
    /\ Step([a |-> "exitIn", who |-> t, p |-> p, d |-> d, s |-> s, must |-> "any"])

MCExitOut == \E t \in Actors, p \in Slots, x \in Amts : \E d \in Assets(p) :
    /\ Room /\ L.pools[p].on /\ x < R(p, d)
    /\ IF p = 2 THEN /\ Noop("exitOut", t, FALSE) /\ UNCHANGED ever
                     /\ Step([a |-> "exitOut", who |-> t, p |-> p, d |-> d, x |-> x, must |-> "fail"])
       ELSE /\ ICeilDiv(2 * S(p) * x, R(p, d)) < S(p)
            /\ Exit(t, p, One(d, x), ICeilDiv(2 * S(p) * x, R(p, d)))
            /\ EverUpd(t, {p})
            /\ Step([a |-> "exitOut", who |-> t, p |-> p, d |-> d, x |-> x, must |-> "any"])

\* what the model says cannot move funds: exits by somebody who never held the share, anything on a slot without pool
MCMustFail == \E t \in Actors, p \in Slots, s \in ShareAmts :
    /\ Room
    /\ \/ L.pools[p].on /\ ~ever[t][p]
       \/ ~L.pools[p].on
    /\ Noop("exit", t, FALSE)
    /\ UNCHANGED ever
    /\ Step([a |-> "exit", who |-> t, p |-> p, s |-> s, must |-> "fail"])

\* --- swaps ---------------------------------------------------------------
\* toy constant product with the code's rounding directions, on the reserves rs (a function denom -> amount)
OutGivenIn(ri, ro, ai) == (ro * ai) \div (ri + ai)
InGivenOut(ri, ro, ao) == ICeilDiv(ri * ao, ro - ao)

HopIn(t, p, di, do, offered) ==          \* exact-in hop on the current reserves
    LET fee == IF Ex(t) THEN 0 ELSE FeeIn(offered, TF(di, do))
        ai  == offered - fee
    IN  [p |-> p, di |-> di, do |-> do, f |-> TF(di, do), ai |-> ai, ao |-> IF ai > 0 THEN OutGivenIn(R(p, di), R(p, do), ai) ELSE 0]
HopOut(p, di, do, ao) ==
    [p |-> p, di |-> di, do |-> do, f |-> TF(di, do), ai |-> IF ao < R(p, do) THEN InGivenOut(R(p, di), R(p, do), ao) ELSE 0, ao |-> ao]

Pairs(p) == {pr \in Assets(p) \X Assets(p) : pr[1] # pr[2]}

MCSwap1 == \E t \in Actors, p \in Slots, x \in Amts, exactIn \in BOOLEAN : \E pr \in Pairs(p) :
    /\ Room /\ L.pools[p].on
    /\ LET h  == IF exactIn THEN HopIn(t, p, pr[1], pr[2], x) ELSE HopOut(p, pr[1], pr[2], x)
           r  == [amt |-> x, hops |-> <<h>>]
           tot == IF exactIn THEN h.ao ELSE RouteIn(FALSE, Ex(t), r)
       IN  /\ h.ai > 0 /\ h.ao > 0
           /\ Swap(t, exactIn, Ex(t), <<r>>, tot)
           /\ Step([a |-> "swap", who |-> t, exactIn |-> exactIn, routes |-> << [amt |-> x, hops |-> << [p |-> p, di |-> pr[1], do |-> pr[2]] >>] >>, must |-> "any"])
    /\ EverUpd(t, {p})

\* two hops: out of slot p into slot q (different slots, so the toy may price hop 2 on the current reserves)
MCSwap2 == \E t \in Actors, p \in Slots, q \in Slots, x \in Amts : \E pr \in Pairs(p), qr \in Pairs(q) :
    /\ Room /\ p # q /\ L.pools[p].on /\ L.pools[q].on /\ qr[1] = pr[2]
    /\ LET h1 == HopIn(t, p, pr[1], pr[2], x)
           h2 == HopIn(t, q, qr[1], qr[2], h1.ao)
           r  == [amt |-> x, hops |-> <<h1, h2>>]
       IN  /\ h1.ai > 0 /\ h1.ao > 0 /\ h2.ai > 0 /\ h2.ao > 0
           /\ Swap(t, TRUE, Ex(t), <<r>>, h2.ao)
           /\ Step([a |-> "swap", who |-> t, exactIn |-> TRUE,
                    routes |-> << [amt |-> x, hops |-> << [p |-> p, di |-> pr[1], do |-> pr[2]], [p |-> q, di |-> qr[1], do |-> qr[2]] >>] >>, must |-> "any"])
    /\ EverUpd(t, {p, q})

\* split: the same pair through both slots
MCSplit == \E t \in Actors, x \in Amts, y \in Amts, exactIn \in BOOLEAN : \E pr \in Pairs(1) \cap Pairs(2) :
    /\ Room /\ L.pools[1].on /\ L.pools[2].on
    /\ LET h1 == IF exactIn THEN HopIn(t, 1, pr[1], pr[2], x) ELSE HopOut(1, pr[1], pr[2], x)
           h2 == IF exactIn THEN HopIn(t, 2, pr[1], pr[2], y) ELSE HopOut(2, pr[1], pr[2], y)
           rs == << [amt |-> x, hops |-> <<h1>>], [amt |-> y, hops |-> <<h2>>] >>
           tot == IF exactIn THEN h1.ao + h2.ao ELSE RouteIn(FALSE, Ex(t), rs[1]) + RouteIn(FALSE, Ex(t), rs[2])
       IN  /\ h1.ai > 0 /\ h1.ao > 0 /\ h2.ai > 0 /\ h2.ao > 0
           /\ Swap(t, exactIn, Ex(t), rs, tot)
           /\ Step([a |-> "swap", who |-> t, exactIn |-> exactIn,
                    routes |-> << [amt |-> x, hops |-> << [p |-> 1, di |-> pr[1], do |-> pr[2]] >>],
                                  [amt |-> y, hops |-> << [p |-> 2, di |-> pr[1], do |-> pr[2]] >>] >>, must |-> "any"])
    /\ EverUpd(t, {1, 2})

\* --- direct sends to pool accounts (created or not), of base denoms and of shares ------------
DirectTotal == LET RECURSIVE Tot(_, _)
                   Tot(p, d) == IF p = 0 THEN 0 ELSE IF d = 0 THEN Tot(p - 1, NDn + NPl) ELSE G.direct[p][d] + Tot(p, d - 1)
               IN  Tot(NPl, NDn + NPl)
MCSend == \E t \in Actors, p \in Slots, d \in Den, x \in {1} :
    /\ Room /\ L.bal[t][d] >= x /\ DirectTotal < MaxDirect
    /\ Send(t, PA(p), One(d, x))
    /\ UNCHANGED ever
    /\ Step([a |-> "send", who |-> t, to |-> p, d |-> d, x |-> x, must |-> "any"])

MCNext == \/ MCCreate \/ MCJoin \/ MCJoinIn \/ MCJoinOut \/ MCExit \/ MCExitIn \/ MCExitOut \/ MCMustFail
          \/ MCSwap1 \/ MCSwap2 \/ MCSplit \/ MCSend
MCSpec == MCInit /\ [][MCNext]_mcvars

View == <<cfg, L, G, depth, ever>>
\* for the generator: failed steps do not change the ledger, so tell them apart by what was attempted
ViewGen == <<cfg, L, G, depth, ever, IF last.ok THEN <<>> ELSE hist[Len(hist)]>>

\* non-vacuity witnesses checked by the orchestrator: these must be VIOLATED (reachable)
NeverFee     == \A d \in Den : L.bal[Fee][d] = 0
NeverDirect  == \A p \in Slots : \A d \in Den : G.direct[p][d] = 0
NeverTwoPools == ~(L.pools[1].on /\ L.pools[2].on)

Emit == (hist # <<>>) => PrintT(<<"GEN", ToJson([conf |-> cfg.name, steps |-> hist])>>)
=============================================================================
