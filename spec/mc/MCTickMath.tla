----------------------------- MODULE MCTickMath -----------------------------
(* Bounded, exhaustive model of TickMath in a reduced geometry (cfg: K = 0,   *)
(* i.e. 9 ticks per decade, decades -3 .. 3, prices with PD = 4 decimals,     *)
(* launch-range sqrt prices with SD = 2).  The answers fed to the actions of  *)
(* TickMath are the functional definitions, so TLC checks that                *)
(*   - the closed formula is strictly increasing and continuous across        *)
(*     decade boundaries, sqrt prices are monotone, in bounds, and the        *)
(*     relational and the functional sqrt contract agree (GeometryLaws);      *)
(*   - Phase "ticks": every tick (and a margin outside the range) after every *)
(*     other tick, with the probe battery, and RoundDown for every tick and   *)
(*     every spacing 1 .. MaxSpacing;                                         *)
(*   - Phase "sqrt": EVERY representable sqrt price from 0 to beyond the      *)
(*     maximum, in order: each lies in exactly one bucket, out-of-range ones   *)
(*     are refused, consecutive sqrt prices never skip a bucket.              *)
EXTENDS TickMath, TLC, FiniteSets

CONSTANTS Phase,        \* "ticks" | "sqrt"
          MaxSpacing,
          Block         \* length of the sweep segments of Phase "sqrt"

VARIABLE sc             \* Phase "sqrt": the raw sqrt price just answered

\* cfg files cannot hold negative numbers: MinDecade <- RMinDecade, LaunchDecade <- RLaunchDecade
RMinDecade == -3
RLaunchDecade == -1
RMinDecadeB == -2       \* second geometry (K = 1: 90 ticks per decade)

TickUniverse == (MinCurTickV2 - 2)..(MaxTick + 2)
Answerable(t) == MinCurTickV2 <= t /\ t <= MaxTick

\* the table of all sqrt prices, built once as an explicit tuple (a [t \in S |-> ...] value
\* would be re-evaluated by TLC at every application)
RECURSIVE BuildTab(_)
BuildTab(t) == IF t > MaxTick THEN <<>> ELSE <<SqrtPrice(t)>> \o BuildTab(t + 1)
SqrtSeq == BuildTab(MinCurTickV2)
SqrtAt(t) == IF Answerable(t) THEN SqrtSeq[t - MinCurTickV2 + 1] ELSE B!Zero

\* the tick of a sqrt price, by definition: the bucket that contains it
BucketsOf(s) == {T \in MinCurTick..MaxTick : InBucket(s, T, SqrtAt(T), SqrtAt(T + 1))}
\* ... found by bisection of the (monotone, see GeometryLaws) table: the last tick of the
\* current-tick range whose sqrt price is <= s.  OneBucket re-checks it against BucketsOf.
RECURSIVE LastLE(_, _, _)
LastLE(s, lo, hi) == IF lo >= hi THEN lo
                     ELSE LET mid == (lo + hi + 1) \div 2
                          IN  IF B!Le(SqrtAt(mid), s) THEN LastLE(s, mid, hi) ELSE LastLE(s, lo, mid - 1)
TickOf(s) == LastLE(s, MinCurTick, MaxTick)

ProbeAnswer(x) == LET ok == InSqrtRange(x)
                  IN  [x |-> x, ok |-> ok, T |-> IF ok THEN TickOf(x) ELSE 0]

\* the sqrt prices probed around tick t: on the tick, one ulp below / above, the middle of
\* the bucket, one ulp below the next tick
ProbesAt(t) ==
    LET s  == SqrtAt(t)
        sn == SqrtAt(t + 1)
        xs == <<s, B!Sub(s, One), B!Add(s, One)>> \o
              (IF t < MaxTick THEN <<B!FloorDiv(B!Add(s, sn), Two), B!Sub(sn, One)>> ELSE <<>>)
        inside(x) == /\ (t - 1 >= MinTickV2 => B!Le(SqrtAt(t - 1), x)) /\ (t - 1 < MinTickV2 => B!Le(s, x))
                     /\ (t < MaxTick => B!Lt(x, sn)) /\ (t = MaxTick => B!Le(x, s))
    IN  SelectSeq([i \in 1..Len(xs) |-> ProbeAnswer(xs[i])], LAMBDA pr : inside(pr.x))

\* the single-call actions do not depend on the state: taken from the initial state only;
\* batteries follow each other in every order (all pairs of ticks: monotonicity)
Fresh == last.op = "init"

MCBattery == \E t \in TickUniverse :
    LET ok == Answerable(t)
    IN  /\ last.op \in {"init", "tick"}
        /\ TickBattery(t, ok, IF ok THEN PriceOf(t) ELSE B!Zero, ok, SqrtAt(t),
                       Answerable(t - 1), SqrtAt(t - 1), Answerable(t + 1), SqrtAt(t + 1),
                       IF ok THEN ProbesAt(t) ELSE <<>>)
        /\ UNCHANGED sc

MCTickToPrice == \E t \in TickUniverse :
    /\ Fresh
    /\ TickToPrice(t, Answerable(t), IF Answerable(t) THEN PriceOf(t) ELSE B!Zero)
    /\ UNCHANGED sc

MCTickToSqrt == \E t \in TickUniverse :
    /\ Fresh
    /\ TickToSqrtPrice(t, Answerable(t), SqrtAt(t))
    /\ UNCHANGED sc

MCRound == \E t \in TickUniverse : \E sp \in 1..MaxSpacing :
    LET f == RoundDownOf(t, sp)
    IN  /\ Fresh
        /\ RoundDown(t, sp, InTickRange(f), f)
        /\ UNCHANGED sc

\* prices: every decade edge, one ulp outside the range, the range ends
PriceSamples == {MinSpotV2, B!Sub(MinSpotV2, One), MaxSpot, B!Add(MaxSpot, One), B!Zero, Unit}
MCPriceToTick == \E p \in PriceSamples :
    LET ok == B!Le(MinSpotV2, p) /\ B!Le(p, MaxSpot)
    IN  /\ Fresh
        /\ PriceToTick(p, ok, IF p = MaxSpot THEN MaxTick ELSE IF p = Unit THEN 0 ELSE MinTickV2)
        /\ UNCHANGED sc

\* every sqrt price, in order
SqrtTop == B!ToInt(MaxSqrt) + 5
MCSqrtStep ==
    /\ sc < SqrtTop
    /\ sc' = sc + 1
    /\ LET x  == B!OfInt(sc + 1)
           pr == ProbeAnswer(x)
       IN  SqrtPriceToTick(x, pr.ok, pr.T, SqrtAt(pr.T), SqrtAt(pr.T + 1))

MCSqrtRounded == \E sp \in {1, 2, 10} :
    /\ last.op = "s2t" /\ sc % 16 = 0
    /\ LET x  == B!OfInt(sc)
           pr == ProbeAnswer(x)
           f  == RoundDownOf(pr.T, sp)
       IN  SqrtToTickRounded(x, sp, pr.ok /\ InTickRange(f), f, pr.ok, pr.T, SqrtAt(pr.T), SqrtAt(pr.T + 1))
    /\ UNCHANGED sc

MCInit == /\ Init
          /\ IF Phase = "ticks" THEN sc = 0
             ELSE sc \in {b \in (-1)..SqrtTop : (b + 1) % Block = 0}

MCNext == IF Phase = "ticks"
          THEN MCBattery \/ MCTickToPrice \/ MCTickToSqrt \/ MCRound \/ MCPriceToTick
          ELSE MCSqrtStep \/ MCSqrtRounded

MCSpec == MCInit /\ [][MCNext]_<<vars, sc>>

---------------------------------------------------------------------------
\* laws of the specification's own functions in this geometry (evaluated in Phase "ticks")
GeometryLaws ==
    /\ \A t \in MinTickV2..(MaxTick - 1) :
          \* strictly increasing, by exactly the additive increment of the decade of t - also
          \* across a decade boundary, where the next tick is the next power of ten
          B!Sub(PriceRaw(t + 1), PriceRaw(t)) = Pow10(Decade(t) - K + PD)
    /\ \A d \in MinDecade..MaxDecade : PriceRaw(d * TicksPerDecade) = Pow10(d + PD)
    /\ PriceRaw(0) = Unit
    /\ \A t \in MinCurTickV2..MaxTick : IsSqrtPrice(SqrtAt(t), t)
    /\ \A t \in MinCurTickV2..(MaxTick - 1) : B!Le(SqrtAt(t), SqrtAt(t + 1))
    /\ \A t \in MinCurTick..(MaxTick - 1) : B!Lt(SqrtAt(t), SqrtAt(t + 1))   \* no empty bucket
    /\ \A t \in MinInitTick..MaxTick : BucketsOf(SqrtAt(t)) = {t}               \* round trip
Laws == (Phase = "ticks" /\ last.op = "init") => GeometryLaws

\* every accepted sqrt price lies in exactly one bucket
OneBucket == (Phase = "sqrt" /\ last.op = "s2t" /\ last.ok) => BucketsOf(B!OfInt(sc)) = {last.T}

\* consecutive sqrt prices: same bucket or the next one, and acceptance is an interval
BucketsContiguous ==
    [][(last.op = "s2t" /\ last'.op = "s2t" /\ sc' = sc + 1) =>
          /\ (last.ok /\ last'.ok) => last'.T \in {last.T, last.T + 1}
          /\ (last.ok /\ ~last'.ok) => B!OfInt(sc) = MaxSqrt
          /\ (~last.ok /\ last'.ok) => B!OfInt(sc') = MinCurTickSqrt]_<<vars, sc>>
=============================================================================
