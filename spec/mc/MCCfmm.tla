------------------------------ MODULE MCCfmm ------------------------------
(* Design-level model for C04: an integer constant-product pool (two assets, *)
(* weights 1:1, no fee - the case in which the ideal results of Cfmm.tla are  *)
(* rationals, so the model is exact) with the ROUNDING DIRECTIONS of the      *)
(* code:                                                                      *)
(*   swap exact in    out    = floor(Bo a / (Bi + a))        (TruncateInt)    *)
(*   swap exact out   in     = ceil (Bi out / (Bo - out))    (Ceil)           *)
(*   join with tokens shares = floor(S min_k(a_k/B_k)), the other asset is    *)
(*                    charged ceil(ratio B_k)     (MaximalExactRatioJoin)     *)
(*   join for shares  tokens = ceil (B_k s / S)   (getMaximalNoSwapLPAmount)  *)
(*   exit             paid_k = floor(B_k s / S)   (CalcExitPool)              *)
(* An actor with unlimited funds plays up to MaxSteps operations against      *)
(* every pool with reserves 1..MaxR and shares 1..MaxS.  Exhaustively:        *)
(*   NoFreeLunch      the actor never holds more of something and less of      *)
(*                    nothing than at the start;                               *)
(*   ProductPerShare  x y / S^2 never falls.                                   *)
(* Flip names one rounding direction to reverse; every flip must produce a    *)
(* free lunch (the check module requires the counterexample: non-vacuity).    *)
EXTENDS Integers, TLC

CONSTANTS MaxR, MaxS, MaxSteps, Flip

VARIABLES x, y, s,      \* reserves and total shares
          x0, y0, s0,   \* ... at the start
          step
vars == <<x, y, s, x0, y0, s0, step>>

Floor(a, b) == a \div b                 \* a >= 0, b > 0
Ceil(a, b)  == (a + b - 1) \div b
Down(name, a, b) == IF Flip = name THEN Ceil(a, b) ELSE Floor(a, b)    \* the code rounds down here
Up(name, a, b)   == IF Flip = name THEN Floor(a, b) ELSE Ceil(a, b)    \* the code rounds up here

Init == /\ x0 \in 1..MaxR /\ y0 \in 1..MaxR /\ s0 \in 1..MaxS
        /\ x = x0 /\ y = y0 /\ s = s0 /\ step = 0

InRange(nx, ny, ns) == nx \in 1..MaxR /\ ny \in 1..MaxR /\ ns \in 1..MaxS
Move(nx, ny, ns) == /\ step < MaxSteps /\ InRange(nx, ny, ns)
                    /\ x' = nx /\ y' = ny /\ s' = ns /\ step' = step + 1
                    /\ UNCHANGED <<x0, y0, s0>>

\* exact amount a of the first asset in (and symmetrically)
SwapInX(a) == LET out == Down("swapOutUp", y * a, x + a) IN out >= 1 /\ Move(x + a, y - out, s)
SwapInY(a) == LET out == Down("swapOutUp", x * a, y + a) IN out >= 1 /\ Move(x - out, y + a, s)
\* exact amount out of the second asset wanted, first asset charged (and symmetrically)
SwapOutY(out) == out < y /\ LET in == Up("swapInDown", x * out, y - out) IN in >= 1 /\ Move(x + in, y - out, s)
SwapOutX(out) == out < x /\ LET in == Up("swapInDown", y * out, x - out) IN in >= 1 /\ Move(x - out, y + in, s)

\* join with tokens (ax, ay): the smaller ratio decides
JoinTokens(ax, ay) ==
    IF ax * y <= ay * x
    THEN LET sh == Down("joinSharesUp", s * ax, x)  uy == Up("joinTokensDown", ax * y, x)
         IN  sh >= 1 /\ uy <= ay /\ Move(x + ax, y + uy, s + sh)
    ELSE LET sh == Down("joinSharesUp", s * ay, y)  ux == Up("joinTokensDown", ay * x, y)
         IN  sh >= 1 /\ ux <= ax /\ Move(x + ux, y + ay, s + sh)
\* join for k shares
JoinShares(k) == Move(x + Up("joinTokensDown", x * k, s), y + Up("joinTokensDown", y * k, s), s + k)
\* exit k shares (never all of them; an asset whose payout rounds to zero is skipped)
Exit(k) == /\ k < s
           /\ LET px == Down("exitUp", x * k, s)  py == Down("exitUp", y * k, s)
              IN  px < x /\ py < y /\ Move(x - px, y - py, s - k)

Next == \/ \E a \in 1..MaxR : SwapInX(a) \/ SwapInY(a) \/ SwapOutX(a) \/ SwapOutY(a)
        \/ \E ax \in 1..MaxR, ay \in 1..MaxR : JoinTokens(ax, ay)
        \/ \E k \in 1..MaxS : JoinShares(k) \/ Exit(k)

Spec == Init /\ [][Next]_vars

NoFreeLunch == ~ (/\ x <= x0 /\ y <= y0 /\ s >= s0
                  /\ (x < x0 \/ y < y0 \/ s > s0))
ProductPerShare == x * y * s0 * s0 >= x0 * y0 * s * s
=============================================================================
