SPECIFICATION MCSpec
CONSTANTS
  NZero = 0
  NAdd <- IntAdd
  NSub <- IntSub
  NLe <- IntLe
  MinT <- MinTVal
  MaxT = 2
  Liqs = {1, 2}
  Owners = {1, 2}
  Creators = {1, 2}
  MaxPos = 3
  MaxId = 4
VIEW View
INVARIANTS InvLiq InvTicks InvPrice InvEmpty InvWF
PROPERTIES ImmutableStep
CHECK_DEADLOCK FALSE
