------------------------------- MODULE DecOps -------------------------------
(***************************************************************************)
(* Property C12: the fixed-point types of osmomath -- BigDec (36 decimals,  *)
(* osmomath/decimal.go) and Dec = cosmossdk.io/math.LegacyDec (18 decimals, *)
(* osmomath/sdk_math_alias.go) -- are exactly rounded in the direction the  *)
(* NAME of each operation selects.                                          *)
(*                                                                         *)
(* A fixed-point value is its scaled integer ("raw" value, value * 10^P).   *)
(* The state of this specification is the most recent call of the public    *)
(* API (`call`: receiver family, method name, raw operands before the call) *)
(* and what it produced (`out`: success flag, raw result, raw operands      *)
(* after the call).  One action, Call(c, o), describes every legal          *)
(* call/outcome pair; CallOK is the property.                               *)
(*                                                                         *)
(* Numbers are abstract: the operators N* are CONSTANT parameters, bound to *)
(* TLC's native integers in the bounded model (spec/mc/MCDecOps, scale      *)
(* 10^2 / 10^1) and to spec/lib/BigNum on recorded executions of the real   *)
(* code (spec/trace/TraceDecOps, scale 10^36 / 10^18).                      *)
(*                                                                         *)
(* Rounding is specified RELATIONALLY (IsFloor, IsCeil, IsTrunc,            *)
(* IsHalfEven use only multiplication and comparison: "q is the rounded     *)
(* value of n/d"), so a logged result is verified, not recomputed.  The     *)
(* direct definitions (RoundDiv, from the truncated quotient NQuoT) are     *)
(* only used to decide whether a call that FAILED had a representable       *)
(* result.  MCDecOps proves on all operand pairs of the bounded model that  *)
(* each predicate singles out exactly one result, that it brackets the      *)
(* exact quotient, and that it agrees with RoundDiv and with a definition   *)
(* by \div.                                                                 *)
(***************************************************************************)
EXTENDS Integers, Sequences

CONSTANTS
    NAdd(_, _), NSub(_, _), NMul(_, _), NNeg(_), NCmp(_, _),
    NQuoT(_, _),    \* quotient truncated toward zero (divisor # 0)
    NEven(_),       \* parity
    NOfInt(_),      \* embedding of (small) native integers
    NPow10(_),      \* 10^k, k a native natural
    Digits,         \* [bd |-> 36, dec |-> 18]    (native)
    Bounds          \* type name |-> [lo, hi]: the representable raw values of each operand/result type

VARIABLES
    call,   \* [t, op, a, b, p, alias, pair]
    out     \* [ok, r, a2, b2]

vars == <<call, out>>

Zero == NOfInt(0)
One  == NOfInt(1)
Two  == NOfInt(2)

Eq(x, y) == NCmp(x, y) = 0
Lt(x, y) == NCmp(x, y) < 0
Le(x, y) == NCmp(x, y) <= 0
Sgn(x)   == NCmp(x, Zero)
NAbs(x)  == IF Sgn(x) < 0 THEN NNeg(x) ELSE x

ScaleBD  == NPow10(Digits["bd"])
ScaleDec == NPow10(Digits["dec"])
Scale(t) == IF t = "bd" THEN ScaleBD ELSE ScaleDec
\* 10^(36-18): one unit in the last place of Dec, in units of BigDec
Ratio == NPow10(Digits["bd"] - Digits["dec"])

---------------------------------------------------------------------------
(* Relational rounding predicates: q is n/d rounded ..., for d # 0.         *)
(* nn/dd is the same fraction with a positive denominator.                  *)
LOCAL DD(d)    == NAbs(d)
LOCAL NN(n, d) == IF Sgn(d) < 0 THEN NNeg(n) ELSE n

\* toward minus infinity:  q*dd <= nn < (q+1)*dd
IsFloor(q, n, d) == /\ Le(NMul(q, DD(d)), NN(n, d))
                    /\ Lt(NN(n, d), NMul(NAdd(q, One), DD(d)))
\* toward plus infinity:   (q-1)*dd < nn <= q*dd
IsCeil(q, n, d)  == /\ Lt(NMul(NSub(q, One), DD(d)), NN(n, d))
                    /\ Le(NN(n, d), NMul(q, DD(d)))
\* toward zero
IsTrunc(q, n, d) == IF Sgn(NN(n, d)) >= 0 THEN IsFloor(q, n, d) ELSE IsCeil(q, n, d)
\* nearest, ties to even:  2*|nn - q*dd| < dd, or = dd and q even
IsHalfEven(q, n, d) ==
    LET c == NCmp(NMul(Two, NAbs(NSub(NN(n, d), NMul(q, DD(d))))), DD(d))
    IN  c < 0 \/ (c = 0 /\ NEven(q))

Modes == {"exact", "trunc", "ceil", "floor", "he"}

Rounds(m, q, n, d) ==
    CASE m = "exact" -> Eq(NMul(q, d), n)
      [] m = "trunc" -> IsTrunc(q, n, d)
      [] m = "ceil"  -> IsCeil(q, n, d)
      [] m = "floor" -> IsFloor(q, n, d)
      [] m = "he"    -> IsHalfEven(q, n, d)

(* Direct definitions from the truncated quotient (used for failed calls;  *)
(* validated against the predicates by MCDecOps).                           *)
RoundDiv(m, n, d) ==
    LET q    == NQuoT(n, d)
        rem  == NSub(n, NMul(q, d))              \* sign of n (or zero)
        pos  == Sgn(n) * Sgn(d) >= 0             \* exact quotient >= 0
        away == IF pos THEN NAdd(q, One) ELSE NSub(q, One)
        c    == NCmp(NMul(Two, NAbs(rem)), NAbs(d))
    IN  CASE m = "exact" -> q
          [] m = "trunc" -> q
          [] m = "ceil"  -> IF Sgn(rem) # 0 /\ pos THEN away ELSE q
          [] m = "floor" -> IF Sgn(rem) # 0 /\ ~pos THEN away ELSE q
          [] m = "he"    -> IF c < 0 THEN q ELSE IF c > 0 THEN away
                            ELSE IF NEven(q) THEN q ELSE away

---------------------------------------------------------------------------
(* The operations.  Mutating forms have the meaning of their twin.          *)
MutTwin == [
    AddMut |-> "Add", SubMut |-> "Sub", MulMut |-> "Mul", MulDecMut |-> "MulDec",
    MulTruncateMut |-> "MulTruncate", MulRoundUpMut |-> "MulRoundUp",
    MulIntMut |-> "MulInt", MulInt64Mut |-> "MulInt64",
    QuoMut |-> "Quo", QuoTruncateMut |-> "QuoTruncate", QuoTruncateDecMut |-> "QuoTruncateDec",
    QuoRoundUpMut |-> "QuoRoundUp", QuoRoundupMut |-> "QuoRoundUp",
    QuoIntMut |-> "QuoInt", QuoInt64Mut |-> "QuoInt64",
    NegMut |-> "Neg", AbsMut |-> "Abs", CeilMut |-> "Ceil",
    ChopPrecisionMut |-> "ChopPrecision", BigDecFromDecMut |-> "BigDecFromDec" ]
MutOnly  == {"QuoRoundUpNextIntMut"}
MutNames == DOMAIN MutTwin
IsMut(op) == op \in MutNames \/ op \in MutOnly
Base(op)  == IF op \in MutNames THEN MutTwin[op] ELSE op

Codecs == {"RT.String", "RT.JSON", "RT.Marshal", "RT.MarshalTo", "RT.Amino", "RT.YAML"}

\* operations defined for both families with the same meaning at the family's own scale
Common == {"Add", "Sub", "Mul", "MulTruncate", "MulRoundUp", "MulInt", "MulInt64",
           "Quo", "QuoTruncate", "QuoRoundUp", "QuoInt", "QuoInt64", "Neg", "Abs",
           "Ceil", "TruncateDec", "TruncateInt", "TruncateInt64", "RoundInt", "RoundInt64"} \cup Codecs
BDOnly == {"MulDec", "MulTruncateDec", "MulRoundUpDec", "QuoRaw", "QuoTruncateDec", "QuoByDecRoundUp",
           "QuoRoundUpNextIntMut", "Dec", "DecRoundUp", "DecWithPrecision", "ChopPrecision",
           "BigDecFromDec", "BigDecFromSDKInt", "NewBigDecFromDecMulDec",
           "DivIntByU64.Up", "DivIntByU64.Down", "DivIntByU64.Bankers"}
AllBD == Common \cup BDOnly
BaseOps(t) == IF t = "bd" THEN AllBD ELSE Common
KnownOp(t, op) == t \in {"bd", "dec"} /\ Base(op) \in BaseOps(t)

Unary == {"Neg", "Abs", "Ceil", "TruncateDec", "TruncateInt", "TruncateInt64", "RoundInt", "RoundInt64",
          "Dec", "DecRoundUp", "DecWithPrecision", "ChopPrecision", "BigDecFromDec", "BigDecFromSDKInt"} \cup Codecs
HasPrec == {"DecWithPrecision", "ChopPrecision"}

IntTy(t) == IF t = "bd" THEN "bigint" ELSE "sdkint"    \* the arbitrary-size integer type of each family

\* type of the receiver / first argument
TyA(t, o) == CASE o \in {"BigDecFromDec", "NewBigDecFromDecMulDec"} -> "dec"
               [] o \in {"BigDecFromSDKInt", "DivIntByU64.Up", "DivIntByU64.Down", "DivIntByU64.Bankers"} -> "sdkint"
               [] OTHER -> t
\* type of the second argument
TyB(t, o) == CASE o \in Unary -> "none"
               [] o \in {"MulDec", "MulTruncateDec", "MulRoundUpDec", "QuoTruncateDec", "QuoByDecRoundUp",
                         "NewBigDecFromDecMulDec"} -> "dec"
               [] o \in {"MulInt", "QuoInt"} -> IntTy(t)
               [] o \in {"MulInt64", "QuoInt64", "QuoRaw"} -> "i64"
               [] o \in {"DivIntByU64.Up", "DivIntByU64.Down", "DivIntByU64.Bankers"} -> "u64"
               [] OTHER -> t
\* type of the result
TyR(t, o) == CASE o \in {"TruncateInt", "RoundInt"} -> IntTy(t)
               [] o \in {"TruncateInt64", "RoundInt64"} -> "i64"
               [] o \in {"Dec", "DecRoundUp", "DecWithPrecision"} -> "dec"
               [] OTHER -> t

InRange(x, ty) == ty = "none" \/ (Le(Bounds[ty].lo, x) /\ Le(x, Bounds[ty].hi))

(* Meaning: the result is k * (n/d rounded by mode); def = the operation is *)
(* defined for these operands (non-zero divisor, precision within range).   *)
Undef       == [def |-> FALSE, mode |-> "exact", n |-> Zero, d |-> One, k |-> One]
Ex(n)       == [def |-> TRUE, mode |-> "exact", n |-> n, d |-> One, k |-> One]
Rd(m, n, d) == IF Sgn(d) = 0 THEN Undef ELSE [def |-> TRUE, mode |-> m, n |-> n, d |-> d, k |-> One]
RdK(m, n, d, k) == IF Sgn(d) = 0 THEN Undef ELSE [def |-> TRUE, mode |-> m, n |-> n, d |-> d, k |-> k]
\* nearest-even of the quotient n/d TRUNCATED at `extra` further decimal digits (scale e)
HE2(n, d, e) == IF Sgn(d) = 0 THEN Undef ELSE Rd("he", NQuoT(NMul(n, e), d), e)

Sem(t, o, A, B, p) ==
    LET S  == Scale(t)
        SD == Scale("dec")
        PB == Digits["bd"]
        PD == Digits["dec"]
    IN
    CASE o = "Add" -> Ex(NAdd(A, B))
      [] o = "Sub" -> Ex(NSub(A, B))
      [] o = "Neg" -> Ex(NNeg(A))
      [] o = "Abs" -> Ex(NAbs(A))
      [] o \in {"MulInt", "MulInt64"} -> Ex(NMul(A, B))
      [] o = "Mul"            -> Rd("he", NMul(A, B), S)
      [] o = "MulDec"         -> Rd("he", NMul(A, B), SD)
      [] o = "MulTruncate"    -> Rd("trunc", NMul(A, B), S)
      [] o = "MulTruncateDec" -> Rd("trunc", NMul(A, B), SD)
      [] o = "MulRoundUp"     -> Rd("ceil", NMul(A, B), S)
      [] o = "MulRoundUpDec"  -> Rd("ceil", NMul(A, B), SD)
      \* value quotient a/b = (A*S)/B raw; taken at twice the precision, truncated, then half-even
      [] o = "Quo"            -> HE2(NMul(A, S), B, S)
      [] o = "QuoRaw"         -> HE2(A, B, S)
      [] o = "QuoTruncate"    -> Rd("trunc", NMul(A, S), B)
      [] o = "QuoTruncateDec" -> Rd("trunc", NMul(A, SD), B)
      [] o = "QuoRoundUp"     -> Rd("ceil", NMul(A, S), B)
      [] o = "QuoByDecRoundUp" -> Rd("ceil", NMul(A, SD), B)
      [] o = "QuoRoundUpNextIntMut" -> RdK("ceil", A, B, S)
      [] o \in {"QuoInt", "QuoInt64"} -> Rd("trunc", A, B)
      [] o = "Ceil"           -> RdK("ceil", A, S, S)
      [] o = "TruncateDec"    -> RdK("trunc", A, S, S)
      [] o \in {"TruncateInt", "TruncateInt64"} -> Rd("trunc", A, S)
      [] o \in {"RoundInt", "RoundInt64"}       -> Rd("he", A, S)
      [] o = "Dec"            -> Rd("trunc", A, Ratio)
      [] o = "DecRoundUp"     -> Rd("ceil", A, Ratio)
      [] o = "DecWithPrecision" -> IF p < 0 \/ p > PD THEN Undef
                                   ELSE RdK("trunc", A, NPow10(PB - p), NPow10(PD - p))
      [] o = "ChopPrecision"  -> IF p < 0 \/ p > PB THEN Undef
                                 ELSE RdK("trunc", A, NPow10(PB - p), NPow10(PB - p))
      [] o = "BigDecFromDec"    -> Ex(NMul(A, Ratio))
      [] o = "BigDecFromSDKInt" -> Ex(NMul(A, S))
      [] o = "NewBigDecFromDecMulDec" -> Ex(NMul(NMul(A, B), NPow10(PB - 2 * PD)))
      [] o = "DivIntByU64.Up"      -> Rd("ceil", NMul(A, S), B)
      [] o = "DivIntByU64.Down"    -> Rd("trunc", NMul(A, S), B)
      [] o = "DivIntByU64.Bankers" -> HE2(NMul(A, S), B, S)
      [] o \in Codecs -> Ex(A)

\* r is the result the meaning selects
PostR(sem, r) ==
    IF Eq(sem.k, One) THEN Rounds(sem.mode, r, sem.n, sem.d)
    ELSE LET q == NQuoT(r, sem.k)
         IN  Eq(NMul(q, sem.k), r) /\ Rounds(sem.mode, q, sem.n, sem.d)
\* the same result computed directly
Direct(sem) == NMul(RoundDiv(sem.mode, sem.n, sem.d), sem.k)

---------------------------------------------------------------------------
(* The property, per call.  Failures(c, o) is the set of clauses of the     *)
(* statement that the call/outcome pair violates:                           *)
(*   domain    an operand is not a representable value (harness error)      *)
(*   defined   a value was returned although none is defined (x/0, ...)     *)
(*   round     the returned value is not the exact / directed / nearest-    *)
(*             even value the name selects                                  *)
(*   bound     a value beyond the bound of the result type was returned     *)
(*   refused   the call failed although its result is representable         *)
(*   operand   a non-mutating form changed an operand (or a mutating form   *)
(*             changed its argument)                                        *)
(*   codec     encode/decode did not give the value back                    *)
Failures(c, o) ==
    IF ~KnownOp(c.t, c.op) THEN {"unknown-op"}
    ELSE
    LET b   == Base(c.op)
        ta  == TyA(c.t, b)
        tb  == TyB(c.t, b)
        tr  == TyR(c.t, b)
        dom == InRange(c.a, ta) /\ InRange(c.b, tb)
    IN
    IF ~dom THEN {"domain"}
    ELSE
    LET sem == Sem(c.t, b, c.a, c.b, c.p)
        res == IF b \in Codecs
               THEN (IF o.ok /\ Eq(o.r, c.a) THEN {} ELSE {"codec"})
               ELSE IF ~sem.def THEN (IF o.ok THEN {"defined"} ELSE {})
               ELSE IF o.ok
                    THEN (IF PostR(sem, o.r) THEN {} ELSE {"round"})
                         \cup (IF InRange(o.r, tr) THEN {} ELSE {"bound"})
                    ELSE (IF InRange(Direct(sem), tr) THEN {"refused"} ELSE {})
        keepA == IsMut(c.op) \/ Eq(o.a2, c.a)
        keepB == tb = "none" \/ (IsMut(c.op) /\ c.alias) \/ Eq(o.b2, c.b)
    IN  res \cup (IF keepA /\ keepB THEN {} ELSE {"operand"})

CallOK(c, o) == Failures(c, o) = {}

(* Mutating and non-mutating forms return the same value: a call marked     *)
(* `pair` is the mutating twin of the previous call on the same operands.   *)
TwinOK(pc, po, c, o) ==
    c.pair => /\ c.t = pc.t /\ IsMut(c.op) /\ Base(c.op) = pc.op /\ c.p = pc.p
              /\ Eq(c.a, pc.a) /\ Eq(c.b, pc.b)
              /\ o.ok = po.ok
              /\ (o.ok => Eq(o.r, po.r))

NoCall == [t |-> "bd", op |-> "Neg", a |-> Zero, b |-> Zero, p |-> 0, alias |-> FALSE, pair |-> FALSE]
NoOut  == [ok |-> TRUE, r |-> Zero, a2 |-> Zero, b2 |-> Zero]

Init == call = NoCall /\ out = NoOut

\* every public entry point is an instance of this action
Call(c, o) ==
    /\ CallOK(c, o)
    /\ TwinOK(call, out, c, o)
    /\ call' = c
    /\ out' = o

---------------------------------------------------------------------------
(* properties *)
Exact == CallOK(call, out)
TwinAgree == [][TwinOK(call, out, call', out')]_vars
=============================================================================
