------------------------------- MODULE Accum -------------------------------
(***************************************************************************)
(* osmoutils/accum: a reward accumulator ("value per share" that only       *)
(* grows) with named positions.  Property C15: what a position can claim    *)
(* equals the sum over time of the growth that occurred while it held       *)
(* shares times the shares it held then (truncation only at claim time),    *)
(* total shares = sum of position shares, a claim resets exactly the        *)
(* claimer, deleted / claimed-with-no-shares positions disappear, and       *)
(* operations on unknown positions or with non-positive share changes fail  *)
(* without effect.                                                          *)
(*                                                                         *)
(* Numbers.  Every quantity of the code is an 18-decimal Dec; the spec      *)
(* works on the raw integers (value * Unit, Unit = 10^18 on traces, a small *)
(* number in the bounded model) through the interface NZero/NAdd/NSub/      *)
(* NMul/NLe/NOfNat (native integers in MC, BigNum on traces).               *)
(*   acc, snap, unc, shares, total : raw Dec                (scale Unit)    *)
(*   ideal, Claimable, Outstanding : products of two of them (scale Unit^2) *)
(*                                                                         *)
(* The ghost `ideal` is the property's right-hand side, computed the naive  *)
(* way (never by the snapshot trick of the code):                           *)
(*   - every growth g adds g * shares(n) to every position n that exists;   *)
(*   - rewards handed over from outside (AddToUnclaimedRewards) add r;      *)
(*   - the *interval* entry points let the caller say "treat this position  *)
(*     as if its last accrual happened when the accumulator stood at v"     *)
(*     (concentrated liquidity passes the growth inside the position's      *)
(*     range): after such an operation the position has, in addition to     *)
(*     what it had earned, held its (new) shares while the accumulator grew *)
(*     from v to acc, so ideal grows by (acc - v) * newShares; the plain     *)
(*     entry points are the case v = acc.  SetPositionIntervalAccumulation  *)
(*     only moves the reference from the old one to v: the growth from the  *)
(*     old reference to v is declared not to have been earned,              *)
(*     ideal -= (v - snap) * shares;                                        *)
(*   - a claim pays floor(ideal) and restarts from zero.                    *)
(*                                                                         *)
(* Rounding the property leaves open.  The code folds the outstanding       *)
(* (acc - snap) * shares into `unc` with one Dec multiplication per denom   *)
(* (DecCoins.MulDec -> LegacyDec.Mul, round half even at 10^-18) on every   *)
(* share change and claim.  The spec takes the folded amount q from the     *)
(* log and demands |q * Unit - (acc - snap) * shares| <= Unit / 2 (IsRounded)*)
(* - any rounding to nearest; which way ties go is not the property's       *)
(* business.  nUpd[n] counts the roundings folded into unc since the last    *)
(* reset, so                                                                *)
(*      | Claimable(n) - ideal[n] |  <=  nUpd[n] * Unit / 2   (TracksIdeal)  *)
(* and a claim pays floor of a total that is within (nUpd[n] + 1) * Unit / 2 *)
(* of ideal[n] (ClaimPaysIdeal).  The bound is a theorem about rounding to   *)
(* nearest (TLC proves it for every rounding choice, both neighbours on      *)
(* ties, on the bounded model MCAccum/round); no safety factor is added.     *)
(* Calibration on the unchanged tree (exact python mirror in                 *)
(* bin/checks/c15.py; quick seeds 1..5 and thorough seed 1, 1.4e6 position   *)
(* x denom states): worst observed |Claimable - ideal| / (nUpd * Unit / 2)   *)
(* = 1.0 for nUpd <= 2 (the bound is attained: half shares x odd growth are  *)
(* exact ties), 0.94 for nUpd = 3, 0.93 for nUpd >= 4; all 5.8e4 claims paid *)
(* exactly floor(ideal).                                                     *)
(*                                                                         *)
(* Preconditions stated by the property / the code's contract are guards:   *)
(* a name is created at most once while it exists (NewPosition silently     *)
(* overwrites otherwise), interval values satisfy 0 <= v <= acc (the code   *)
(* panics in DecCoins.Sub otherwise), growth and rewards are non-negative.  *)
(***************************************************************************)
EXTENDS Integers, Sequences, FiniteSets

CONSTANTS Unit,                 \* raw units per 1.0
          NZero, NAdd(_, _), NSub(_, _), NMul(_, _), NLe(_, _), NOfNat(_)

VARIABLES
    acc,     \* Seq over denoms: accumulator value per share (raw)
    total,   \* recorded total shares (raw)
    pos,     \* [name -> [shares, snap : Seq over denoms, unc : Seq over denoms]] for the names that exist
    ideal,   \* ghost [name -> Seq over denoms] (scale Unit^2)
    nUpd,    \* ghost [name -> Nat]: roundings folded into unc since the last reset
    last     \* the call that led here: [op, n, ok, res, tot]

vars == <<acc, total, pos, ideal, nUpd, last>>

---------------------------------------------------------------------------
(* numbers and vectors over denoms *)
Den        == DOMAIN acc
NLt(a, b)  == ~NLe(b, a)
NEq(a, b)  == NLe(a, b) /\ NLe(b, a)
NNeg(a)    == NSub(NZero, a)
NAbs(a)    == IF NLe(NZero, a) THEN a ELSE NNeg(a)
Two        == NOfNat(2)
One        == NOfNat(1)

ZeroV        == [d \in Den |-> NZero]
IsVec(a)     == DOMAIN a = Den
VAdd(a, b)   == [d \in Den |-> NAdd(a[d], b[d])]
VSub(a, b)   == [d \in Den |-> NSub(a[d], b[d])]
VScale(a, k) == [d \in Den |-> NMul(a[d], k)]
VLe(a, b)    == \A d \in Den : NLe(a[d], b[d])
VEq(a, b)    == \A d \in Den : NEq(a[d], b[d])

Has(n)       == n \in DOMAIN pos
Put(f, n, x) == [m \in (DOMAIN f) \cup {n} |-> IF m = n THEN x ELSE f[m]]
Drop(f, n)   == [m \in (DOMAIN f) \ {n} |-> f[m]]

\* what the snapshot trick says position record p may still collect (scale Unit^2)
Outstanding(p) == VScale(VSub(acc, p.snap), p.shares)
Claimable(p)   == VAdd(VScale(p.unc, Unit), Outstanding(p))

\* q (scale Unit) is x (scale Unit^2) divided by Unit and rounded to a nearest integer
IsRounded(q, x)  == NLe(NMul(Two, NAbs(NSub(NMul(q, Unit), x))), Unit)
IsRoundedV(q, x) == IsVec(q) /\ \A d \in Den : IsRounded(q[d], x[d])
\* c whole coins = t (scale Unit) truncated
IsFloorV(c, t)   == IsVec(c) /\ \A d \in Den : /\ NLe(NMul(c[d], Unit), t[d])
                                               /\ NLt(t[d], NMul(NAdd(c[d], One), Unit))

ValidIv(v) == IsVec(v) /\ VLe(ZeroV, v) /\ VLe(v, acc)

Done(o, n, ok, res, tot) == last' = [op |-> o, n |-> n, ok |-> ok, res |-> res, tot |-> tot]

InitWith(nd) ==
    /\ acc = [d \in 1..nd |-> NZero]
    /\ total = NZero
    /\ pos = <<>> /\ ideal = <<>> /\ nUpd = <<>>
    /\ last = [op |-> "init", n |-> "", ok |-> TRUE, res |-> <<>>, tot |-> <<>>]

---------------------------------------------------------------------------
(* the exported entry points *)

\* AddToAccumulator(g)
Grow(g) ==
    /\ IsVec(g) /\ VLe(ZeroV, g)
    /\ acc' = VAdd(acc, g)
    /\ ideal' = [n \in DOMAIN pos |-> VAdd(ideal[n], VScale(g, pos[n].shares))]
    /\ UNCHANGED <<total, pos, nUpd>>
    /\ Done("grow", "", TRUE, <<>>, <<>>)

\* NewPosition (o = "new", v = acc) / NewPositionIntervalAccumulation (o = "newi")
Create(o, n, s, v) ==
    /\ o \in {"new", "newi"}
    /\ ~Has(n)
    /\ NLe(NZero, s)
    /\ ValidIv(v)
    /\ (o = "new") => VEq(v, acc)
    /\ pos' = Put(pos, n, [shares |-> s, snap |-> v, unc |-> ZeroV])
    /\ total' = NAdd(total, s)
    /\ ideal' = Put(ideal, n, VScale(VSub(acc, v), s))
    /\ nUpd' = Put(nUpd, n, 0)
    /\ UNCHANGED acc
    /\ Done(o, n, TRUE, <<>>, <<>>)

PlainShareOps    == {"add", "rem", "upd"}
IntervalShareOps == {"addi", "remi", "updi"}
ShareOps         == PlainShareOps \cup IntervalShareOps

\* the signed change of shares an operation asks for
Delta(o, s) == IF o \in {"rem", "remi"} THEN NNeg(s) ELSE s

\* when a share change is acceptable for an existing position
SharesOk(o, n, s) ==
    CASE o \in {"add", "addi"} -> NLt(NZero, s)
      [] o \in {"rem", "remi"} -> NLt(NZero, s) /\ NLe(s, pos[n].shares)
      [] o \in {"upd", "updi"} -> ~NEq(s, NZero) /\ NLe(NZero, NAdd(pos[n].shares, s))

\* AddToPosition / RemoveFromPosition / UpdatePosition and their ...IntervalAccumulation forms;
\* q = the outstanding rewards as folded into unc by the code
Change(o, n, s, v, q) ==
    /\ o \in ShareOps
    /\ Has(n)
    /\ SharesOk(o, n, s)
    /\ ValidIv(v)
    /\ (o \in PlainShareOps) => VEq(v, acc)
    /\ LET p  == pos[n]
           ns == NAdd(p.shares, Delta(o, s))
       IN  /\ IsRoundedV(q, Outstanding(p))
           /\ pos' = [pos EXCEPT ![n] = [shares |-> ns, snap |-> v, unc |-> VAdd(p.unc, q)]]
           /\ total' = NAdd(total, Delta(o, s))
           /\ ideal' = [ideal EXCEPT ![n] = VAdd(@, VScale(VSub(acc, v), ns))]
           /\ nUpd' = [nUpd EXCEPT ![n] = @ + 1]
    /\ UNCHANGED acc
    /\ Done(o, n, TRUE, <<>>, <<>>)

\* SetPositionIntervalAccumulation
SetIv(n, v) ==
    /\ Has(n)
    /\ ValidIv(v)
    /\ pos' = [pos EXCEPT ![n].snap = v]
    /\ ideal' = [ideal EXCEPT ![n] = VSub(@, VScale(VSub(v, pos[n].snap), pos[n].shares))]
    /\ UNCHANGED <<acc, total, nUpd>>
    /\ Done("set", n, TRUE, <<>>, <<>>)

\* AddToUnclaimedRewards
AddUnc(n, r) ==
    /\ Has(n)
    /\ IsVec(r) /\ VLe(ZeroV, r)
    /\ pos' = [pos EXCEPT ![n].unc = VAdd(@, r)]
    /\ ideal' = [ideal EXCEPT ![n] = VAdd(@, VScale(r, Unit))]
    /\ UNCHANGED <<acc, total, nUpd>>
    /\ Done("addunc", n, TRUE, <<>>, <<>>)

\* ClaimRewards: pays c whole coins per denom = the truncation of unc + q
Claim(n, q, c) ==
    /\ Has(n)
    /\ LET p   == pos[n]
           tot == VAdd(p.unc, q)
       IN  /\ IsRoundedV(q, Outstanding(p))
           /\ IsFloorV(c, tot)
           /\ IF NEq(p.shares, NZero)
              THEN /\ pos' = Drop(pos, n) /\ ideal' = Drop(ideal, n) /\ nUpd' = Drop(nUpd, n)
              ELSE /\ pos' = [pos EXCEPT ![n] = [shares |-> p.shares, snap |-> acc, unc |-> ZeroV]]
                   /\ ideal' = [ideal EXCEPT ![n] = ZeroV]
                   /\ nUpd' = [nUpd EXCEPT ![n] = 0]
           /\ Done("claim", n, TRUE, c, tot)
    /\ UNCHANGED <<acc, total>>

\* DeletePosition: returns everything that was claimable (whole coins + dust) and removes the position
Delete(n, q) ==
    /\ Has(n)
    /\ LET p   == pos[n]
           tot == VAdd(p.unc, q)
       IN  /\ IsRoundedV(q, Outstanding(p))
           /\ pos' = Drop(pos, n) /\ ideal' = Drop(ideal, n) /\ nUpd' = Drop(nUpd, n)
           /\ total' = NSub(total, p.shares)
           /\ Done("delete", n, TRUE, tot, tot)
    /\ UNCHANGED acc

\* every operation on a position other than its creation
PosOps == ShareOps \cup {"set", "addunc", "claim", "delete"}

\* ... must fail exactly in these situations, and then nothing changes
MustFail(o, n, s) ==
    /\ o \in PosOps
    /\ \/ ~Has(n)
       \/ Has(n) /\ o \in ShareOps /\ ~SharesOk(o, n, s)

Fail(o, n, s) ==
    /\ MustFail(o, n, s)
    /\ UNCHANGED <<acc, total, pos, ideal, nUpd>>
    /\ Done(o, n, FALSE, <<>>, <<>>)

---------------------------------------------------------------------------
(* properties *)

RECURSIVE SumShares(_)
SumShares(S) == IF S = {} THEN NZero
                ELSE LET n == CHOOSE x \in S : TRUE IN NAdd(pos[n].shares, SumShares(S \ {n}))

\* the recorded total shares equal the sum of position shares
TotalIsSum == NEq(total, SumShares(DOMAIN pos))

\* what a position can claim = sum over time of growth-while-held x shares
\* (up to half a unit of the 18th decimal per rounding the code performed)
TracksIdeal ==
    \A n \in DOMAIN pos : \A d \in Den :
        NLe(NMul(Two, NAbs(NSub(Claimable(pos[n])[d], ideal[n][d]))), NMul(NOfNat(nUpd[n]), Unit))

Sane ==
    /\ DOMAIN ideal = DOMAIN pos /\ DOMAIN nUpd = DOMAIN pos
    /\ \A n \in DOMAIN pos :
        /\ NLe(NZero, pos[n].shares)
        /\ IsVec(pos[n].snap) /\ IsVec(pos[n].unc)
        /\ VLe(ZeroV, pos[n].unc) /\ VLe(ZeroV, pos[n].snap) /\ VLe(pos[n].snap, acc)

Paid(o) == last'.op = o /\ last'.ok

\* a claim / deletion hands out the ideal amount: before truncation the amount is within
\* (nUpd + 1) half-units of ideal, a claim pays its floor, so that
\*    floor(ideal - tol) <= c <= floor(ideal + tol),   tol = (nUpd + 1) * Unit / 2   (scale Unit^2)
ClaimPaysIdeal ==
    [][ (Paid("claim") \/ Paid("delete")) =>
          LET n == last'.n
              k == NOfNat(nUpd[n] + 1)
              U2 == NMul(Unit, Unit)
          IN  \A d \in Den :
                /\ NLe(NMul(Two, NAbs(NSub(NMul(last'.tot[d], Unit), ideal[n][d]))), NMul(k, Unit))
                /\ Paid("claim") =>
                     /\ NLe(NMul(last'.res[d], Unit), last'.tot[d])
                     /\ NLt(last'.tot[d], NMul(NAdd(last'.res[d], One), Unit))
                     /\ NLe(NMul(Two, NMul(last'.res[d], U2)), NAdd(NMul(Two, ideal[n][d]), NMul(k, Unit)))
                     /\ NLt(NSub(NMul(Two, ideal[n][d]), NMul(k, Unit)), NMul(Two, NMul(NAdd(last'.res[d], One), U2)))
      ]_vars

\* claiming resets exactly the claimer and nobody else; claimed with no shares => disappears
ClaimResetsOnlyClaimer ==
    [][ Paid("claim") =>
          LET n == last'.n IN
          /\ acc' = acc /\ total' = total
          /\ DOMAIN pos' \subseteq DOMAIN pos
          /\ \A m \in (DOMAIN pos) \ {n} : m \in DOMAIN pos' /\ pos'[m] = pos[m] /\ ideal'[m] = ideal[m]
          /\ IF NEq(pos[n].shares, NZero) THEN n \notin DOMAIN pos'
             ELSE /\ n \in DOMAIN pos'
                  /\ pos'[n].shares = pos[n].shares
                  /\ VEq(pos'[n].unc, ZeroV)
                  /\ VEq(VScale(VSub(acc', pos'[n].snap), pos'[n].shares), ZeroV)
      ]_vars

\* a deleted position disappears (with its shares), nobody else is touched
DeleteRemoves ==
    [][ Paid("delete") =>
          LET n == last'.n IN
          /\ acc' = acc
          /\ DOMAIN pos' = (DOMAIN pos) \ {n}
          /\ \A m \in DOMAIN pos' : pos'[m] = pos[m]
          /\ NEq(total', NSub(total, pos[n].shares))
      ]_vars

\* operations on unknown positions or with non-positive share changes fail without effect
FailedNoEffect == [][ ~last'.ok => (acc' = acc /\ total' = total /\ pos' = pos) ]_vars

\* ... and they do fail: a successful operation on a position needed the position, a share change a positive amount
NoSuccessOutOfThinAir ==
    [][ (last'.ok /\ last'.op \in PosOps) => last'.n \in DOMAIN pos ]_vars
=============================================================================
