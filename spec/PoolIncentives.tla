--------------------------- MODULE PoolIncentives ---------------------------
(***************************************************************************)
(* x/pool-incentives: the distribution-record registry, the gauges created *)
(* for new pools with the pool <-> gauge links, and the allocation of the   *)
(* minted pool incentives to the registered gauges.  Extra check X03.       *)
(*                                                                         *)
(* WHAT A USER OF THIS MODULE RELIES ON (from README.md, the comments of    *)
(* proto/osmosis/poolincentives/v1beta1/gov.proto, keeper/distr.go,         *)
(* keeper/keeper.go and the evident intent; not from the implementation):   *)
(*                                                                         *)
(* Registry (DistrInfo)                                                     *)
(*  R1 ALWAYS well formed: the records are strictly ascending by gauge id   *)
(*     (hence no duplicates), no weight is negative, every gauge id is 0    *)
(*     (= community pool) or the id of an existing perpetual gauge, and     *)
(*     the stored total weight is EXACTLY the sum of the record weights.    *)
(*  R2 An accepted replace proposal makes the registry EXACTLY the proposed *)
(*     list ("the proposal's records override the existing DistrRecords").  *)
(*  R3 An accepted update proposal changes EXACTLY the gauges it mentions:  *)
(*     a mentioned gauge gets the proposed weight, weight 0 deletes its     *)
(*     record, every gauge not mentioned keeps its weight ("an existing     *)
(*     DistrRecord is not overridden unless explicitly included").          *)
(*  R4 A proposal is accepted IF AND ONLY IF it is well formed (not empty,  *)
(*     no negative weight, strictly ascending gauge ids, every id 0 or an   *)
(*     existing perpetual gauge); a rejected proposal changes NOTHING.      *)
(*  R5 ONLY governance proposals change the registry.                       *)
(*                                                                         *)
(* Gauges and links                                                         *)
(*  G1 Creating a classic (balancer / stableswap) pool creates EXACTLY one  *)
(*     new perpetual by-duration gauge per lockable duration, holding no    *)
(*     coins; creating a concentrated pool creates EXACTLY one new          *)
(*     perpetual no-lock gauge, linked under the incentives epoch duration  *)
(*     and listed among the pool's no-lock gauges.  Ids are fresh.          *)
(*  G2 The links are consistent both ways at ALL times: pool p has gauge g  *)
(*     for duration d  <=>  g is an internal gauge whose pool for d is p;   *)
(*     no gauge serves two pools; a classic pool has exactly its lockable-  *)
(*     duration links and a concentrated pool exactly one.                  *)
(*  G3 A link is NEVER removed or re-pointed.                               *)
(*  G4 A gauge created by a user NEVER becomes the internal gauge of a pool.*)
(*  Q1 The queries answer from these links: GaugeIds(p) lists p's internal  *)
(*     gauges in lockable-duration order, GetInternalGaugeIDForPool(p) is   *)
(*     the gauge of the longest lockable duration (classic) or the single   *)
(*     gauge (concentrated), the incentive percentage GaugeIds reports for  *)
(*     a gauge is 100*w/T of that gauge's OWN record (0 without one),       *)
(*     IncentivizedPools lists for every registry record with an internal   *)
(*     gauge its (pool, duration, gauge) in registry order - and the        *)
(*     queries ANSWER for every well-formed registry.                       *)
(*                                                                         *)
(* Allocation (AllocateAsset, run in the mint module's hook once per mint   *)
(* epoch over the whole balance A of the minted denomination held by the    *)
(* module account)                                                          *)
(*  A1 A = 0: NOTHING happens.                                              *)
(*  A2 Total weight 0 (no records, or only zero weights): the WHOLE balance *)
(*     goes to the community pool and NO gauge receives anything.           *)
(*  A3 Otherwise EVERY record (g, w) receives its pro-rata share A*w/T      *)
(*     rounded down, up to the 18-decimal precision of the ratio w/T:       *)
(*        A*w/T - 1 - A/(2*10^18)  <  paid  <=  A*w/T + A/(2*10^18);        *)
(*     the share of gauge 0 goes to the community pool; a gauge that is NOT *)
(*     in the registry NEVER receives anything.                             *)
(*  A4 The sum handed out NEVER exceeds A; the remainder stays in the       *)
(*     module account (it is part of the next epoch's A) and is less than   *)
(*     one unit (+ A/(2*10^18)) per record.                                 *)
(*  A5 ONLY the minted denomination moves: other coins of the module        *)
(*     account and other coins of the gauges are never touched.             *)
(*  A6 CONSERVED over every history: everything that ever entered the       *)
(*     module account = everything it handed out + what it holds; the       *)
(*     incentives module account holds exactly what the gauges record.      *)
(*  A7 Allocation NEVER fails for a well-formed registry (a failure panics  *)
(*     in the mint hook and reverts the whole mint epoch).                  *)
(*                                                                         *)
(* Ids allocated by the code (pool ids, gauge ids), the amounts paid (only  *)
(* constrained by A3/A4), error texts and the pool creation fee are inputs  *)
(* taken from the log.                                                      *)
(*                                                                         *)
(* Numbers (weights, amounts) are abstract (NAdd, NMul, ...): native        *)
(* integers in the bounded model, BigNum on recorded executions.            *)
(***************************************************************************)
EXTENDS Integers, Sequences, FiniteSets

CONSTANTS NAdd(_, _), NSub(_, _), NMul(_, _), NLe(_, _), NZero, NOne,
          NPrec2      \* 2 * 10^k, k = number of decimals of a weight ratio (k = 18 in the code)

VARIABLES
    conf,     \* [id, durs : Seq(Dur) lockable durations, epoch : Dur]   (constant within a history)
    pools,    \* [pool id -> "cfmm" | "cl"]
    gauges,   \* [gauge id -> [perp : BOOLEAN, kind : "dur" | "nolock", internal : BOOLEAN, pool, dur,
              \*               c : Num coins of the minted denomination, o : Num coins of other denominations]]
    p2g,      \* set of [p, d, g] : the internal gauge of pool p for duration d is g      (GetPoolGaugeId)
    g2p,      \* set of [g, d, p] : the pool of gauge g under duration d is p             (GetPoolIdFromGaugeId)
    nolock,   \* set of [p, g]    : g is a no-lock gauge of pool p                        (GetNoLockGaugeIdsFromPool)
    recs,     \* the registry: Seq([g : gauge id, w : Num])
    tw,       \* the stored total weight
    led,      \* ledgers of the minted denomination [mod : module account, comm : community pool,
              \*   inc : incentives module account] and [modo : other coins of the module account]
    gh        \* ghost [inflow, paid : Num, mod0 : Num, allocs, fails : Nat]

vars == <<conf, pools, gauges, p2g, g2p, nolock, recs, tw, led, gh>>

NLt(a, b) == ~NLe(b, a)

PoolIds == DOMAIN pools
GaugeIds == DOMAIN gauges
Range(s) == {s[i] : i \in 1..Len(s)}

RECURSIVE SumW(_, _)
SumW(rs, i) == IF i > Len(rs) THEN NZero ELSE NAdd(rs[i].w, SumW(rs, i + 1))
RECURSIVE SumSeq(_, _)
SumSeq(s, i) == IF i > Len(s) THEN NZero ELSE NAdd(s[i], SumSeq(s, i + 1))
\* sum of pay[i] over the records whose gauge is (comm = TRUE: gauge 0 / FALSE: a real gauge)
RECURSIVE SumPart(_, _, _, _)
SumPart(rs, pay, comm, i) ==
    IF i > Len(rs) THEN NZero
    ELSE NAdd(IF (rs[i].g = 0) = comm THEN pay[i] ELSE NZero, SumPart(rs, pay, comm, i + 1))

WeightOf(rs, g) == IF \E i \in 1..Len(rs) : rs[i].g = g
                   THEN (CHOOSE r \in Range(rs) : r.g = g).w ELSE NZero
Mentioned(rs) == {rs[i].g : i \in 1..Len(rs)}

Gh0(m) == [inflow |-> NZero, paid |-> NZero, mod0 |-> m, allocs |-> 0, fails |-> 0]

InitWith(c, ps, gs, a, b, n, rs, t, l) ==
    /\ conf = c /\ pools = ps /\ gauges = gs /\ p2g = a /\ g2p = b /\ nolock = n
    /\ recs = rs /\ tw = t /\ led = l /\ gh = Gh0(l.mod)

---------------------------------------------------------------------------
(* pool creation: the gamm / concentrated-liquidity hooks of the module     *)

NewGauge(kind, p, d) == [perp |-> TRUE, kind |-> kind, internal |-> TRUE, pool |-> p, dur |-> d,
                         c |-> NZero, o |-> NZero]

\* pid and gs (one gauge id per lockable duration, in that order) are allocated by the code;
\* fee is what the creator paid into the community pool
CreateClassicPool(pid, gs, fee) ==
    /\ pid \notin PoolIds
    /\ Len(gs) = Len(conf.durs)
    /\ \A i \in 1..Len(gs) : gs[i] \notin GaugeIds /\ gs[i] # 0
    /\ \A i, j \in 1..Len(gs) : i # j => gs[i] # gs[j]
    /\ pools' = [p \in PoolIds \cup {pid} |-> IF p = pid THEN "cfmm" ELSE pools[p]]
    /\ gauges' = [g \in GaugeIds \cup Range(gs) |->
                    IF g \in GaugeIds THEN gauges[g]
                    ELSE NewGauge("dur", pid, conf.durs[CHOOSE i \in 1..Len(gs) : gs[i] = g])]
    /\ p2g' = p2g \cup {[p |-> pid, d |-> conf.durs[i], g |-> gs[i]] : i \in 1..Len(gs)}
    /\ g2p' = g2p \cup {[g |-> gs[i], d |-> conf.durs[i], p |-> pid] : i \in 1..Len(gs)}
    /\ NLe(NZero, fee)
    /\ led' = [led EXCEPT !.comm = NAdd(@, fee)]
    /\ UNCHANGED <<conf, nolock, recs, tw, gh>>

CreateConcentratedPool(pid, g, fee) ==
    /\ pid \notin PoolIds
    /\ g \notin GaugeIds /\ g # 0
    /\ pools' = [p \in PoolIds \cup {pid} |-> IF p = pid THEN "cl" ELSE pools[p]]
    /\ gauges' = [x \in GaugeIds \cup {g} |-> IF x = g THEN NewGauge("nolock", pid, conf.epoch) ELSE gauges[x]]
    /\ p2g' = p2g \cup {[p |-> pid, d |-> conf.epoch, g |-> g]}
    /\ g2p' = g2p \cup {[g |-> g, d |-> conf.epoch, p |-> pid]}
    /\ nolock' = nolock \cup {[p |-> pid, g |-> g]}
    /\ NLe(NZero, fee)
    /\ led' = [led EXCEPT !.comm = NAdd(@, fee)]
    /\ UNCHANGED <<conf, recs, tw, gh>>

\* environment: a user creates a gauge through x/incentives with c coins of the minted denomination
\* and o coins of other denominations
\* (kind "dur": on the shares of classic pool p; kind "nolock": on concentrated pool p with uptime d)
ExternalGauge(g, perp, kind, p, d, c, o) ==
    /\ g \notin GaugeIds /\ g # 0
    /\ p \in PoolIds
    /\ pools[p] = (IF kind = "dur" THEN "cfmm" ELSE "cl")
    /\ gauges' = [x \in GaugeIds \cup {g} |->
                    IF x = g THEN [perp |-> perp, kind |-> kind, internal |-> FALSE, pool |-> p, dur |-> d,
                                   c |-> c, o |-> o]
                    ELSE gauges[x]]
    /\ g2p' = IF kind = "nolock" THEN g2p \cup {[g |-> g, d |-> d, p |-> p]} ELSE g2p
    /\ nolock' = IF kind = "nolock" THEN nolock \cup {[p |-> p, g |-> g]} ELSE nolock
    /\ led' = [led EXCEPT !.inc = NAdd(@, c)]
    /\ UNCHANGED <<conf, pools, p2g, recs, tw, gh>>           \* G4: no internal link

---------------------------------------------------------------------------
(* governance: replace / update the registry                                *)

WellFormed(rs) ==
    /\ Len(rs) > 0
    /\ \A i \in 1..Len(rs) : NLe(NZero, rs[i].w)
    /\ \A i \in 1..(Len(rs) - 1) : rs[i].g < rs[i + 1].g
    /\ \A i \in 1..Len(rs) : rs[i].g = 0 \/ (rs[i].g \in GaugeIds /\ gauges[rs[i].g].perp)

Rejected == UNCHANGED vars

Replace(rs, ok) ==
    /\ ok <=> WellFormed(rs)                                  \* R4
    /\ IF ok
       THEN /\ recs' = rs                                     \* R2
            /\ tw' = SumW(rs, 1)                              \* R1
            /\ UNCHANGED <<conf, pools, gauges, p2g, g2p, nolock, led, gh>>
       ELSE Rejected

\* R3, relationally: new is the registry after the update rs of old
IsUpdateOf(new, old, rs) ==
    /\ \A i \in 1..(Len(new) - 1) : new[i].g < new[i + 1].g
    /\ \A g \in Mentioned(rs) :
          /\ WeightOf(new, g) = WeightOf(rs, g)
          /\ WeightOf(rs, g) = NZero => g \notin Mentioned(new)      \* weight 0 deletes
    /\ \A g \in Mentioned(old) \ Mentioned(rs) : WeightOf(new, g) = WeightOf(old, g)
    /\ Mentioned(new) \subseteq Mentioned(old) \cup Mentioned(rs)

\* new: the registry read back after the call (a record of weight 0 that is not mentioned may stay or go)
Update(rs, ok, new) ==
    /\ ok <=> WellFormed(rs)
    /\ IF ok
       THEN /\ IsUpdateOf(new, recs, rs)
            /\ recs' = new
            /\ tw' = SumW(new, 1)
            /\ UNCHANGED <<conf, pools, gauges, p2g, g2p, nolock, led, gh>>
       ELSE Rejected

---------------------------------------------------------------------------
(* money: coins arrive in the module account; AllocateAsset hands them out  *)

\* environment: x of the minted denomination and y of other denominations arrive in the module account
Fund(x, y) ==
    /\ NLe(NZero, x) /\ NLe(NZero, y)
    /\ led' = [led EXCEPT !.mod = NAdd(@, x), !.modo = NAdd(@, y)]
    /\ gh' = [gh EXCEPT !.inflow = NAdd(@, x)]
    /\ UNCHANGED <<conf, pools, gauges, p2g, g2p, nolock, recs, tw>>

\* A3: a is the share of A for weight w out of total t, rounded down, up to the precision of the ratio w/t:
\*     A*w/t - 1 - A/NPrec2 < a <= A*w/t + A/NPrec2      (multiplied out by NPrec2 * t)
Within(a, A, w, t) ==
    LET lhs == NMul(NMul(NPrec2, t), a)
        mid == NMul(NMul(NPrec2, A), w)
        eps == NMul(A, t)
    IN  /\ NLe(lhs, NAdd(mid, eps))
        /\ NLt(NSub(NSub(mid, eps), NMul(NPrec2, t)), lhs)

PayOf(g, pay) == pay[CHOOSE i \in 1..Len(recs) : recs[i].g = g]

\* AllocateAsset over the balance the module account holds after x more coins of the minted
\* denomination have arrived in the same transaction (x = 0 for a bare call, x = the pool-incentives
\* share of the epoch's provision when it runs inside the mint hook).  pay[i] = what record i received.
Allocate(x, ok, pay) ==
    LET A == NAdd(led.mod, x) IN
    /\ NLe(NZero, x)
    /\ IF ~ok
       THEN /\ gh' = [gh EXCEPT !.fails = @ + 1]             \* A7 is the invariant NeverFails
            /\ UNCHANGED <<conf, pools, gauges, p2g, g2p, nolock, recs, tw, led>>
       ELSE /\ Len(pay) = Len(recs)
            /\ IF A = NZero \/ tw = NZero
               THEN /\ \A i \in 1..Len(pay) : pay[i] = NZero                    \* A1, A2
                    /\ led' = [led EXCEPT !.mod = NZero, !.comm = NAdd(@, A)]
                    /\ gauges' = gauges
                    /\ gh' = [gh EXCEPT !.inflow = NAdd(@, x), !.paid = NAdd(@, A), !.allocs = @ + 1]
               ELSE /\ \A i \in 1..Len(pay) : NLe(NZero, pay[i]) /\ Within(pay[i], A, recs[i].w, tw)   \* A3
                    /\ NLe(SumSeq(pay, 1), A)                                                          \* A4
                    /\ led' = [led EXCEPT !.mod = NSub(A, SumSeq(pay, 1)),
                                          !.comm = NAdd(@, SumPart(recs, pay, TRUE, 1)),
                                          !.inc = NAdd(@, SumPart(recs, pay, FALSE, 1))]
                    /\ gauges' = [g \in GaugeIds |->
                                    IF g \in Mentioned(recs) THEN [gauges[g] EXCEPT !.c = NAdd(@, PayOf(g, pay))]
                                    ELSE gauges[g]]
                    /\ gh' = [gh EXCEPT !.inflow = NAdd(@, x), !.paid = NAdd(@, SumSeq(pay, 1)), !.allocs = @ + 1]
            /\ UNCHANGED <<conf, pools, p2g, g2p, nolock, recs, tw>>

---------------------------------------------------------------------------
(* what the queries must answer                                             *)

LookupG(L, p, d) == IF \E l \in L : l.p = p /\ l.d = d THEN (CHOOSE l \in L : l.p = p /\ l.d = d).g ELSE 0
LookupP(L, g, d) == IF \E l \in L : l.g = g /\ l.d = d THEN (CHOOSE l \in L : l.g = g /\ l.d = d).p ELSE 0
InternalGaugeOf(p, d) == LookupG(p2g, p, d)
PoolOfGauge(g, d) == LookupP(g2p, g, d)

\* GaugeIds(p): the internal gauges in lockable-duration order (a concentrated pool: its single gauge)
QGaugeIdsOf(P, L, p) ==
    IF P[p] = "cl" THEN << [g |-> LookupG(L, p, conf.epoch), d |-> conf.epoch] >>
    ELSE [i \in 1..Len(conf.durs) |-> [g |-> LookupG(L, p, conf.durs[i]), d |-> conf.durs[i]]]
QGaugeIds(p) == QGaugeIdsOf(pools, p2g, p)

\* IncentivizedPools: (pool, duration, gauge) of every registry record with an internal gauge, in registry order
RECURSIVE SelectInternal(_, _, _)
SelectInternal(G, rs, i) ==
    IF i > Len(rs) THEN <<>>
    ELSE (IF rs[i].g # 0 /\ rs[i].g \in DOMAIN G /\ G[rs[i].g].internal
          THEN << [p |-> G[rs[i].g].pool, d |-> G[rs[i].g].dur, g |-> rs[i].g] >> ELSE <<>>)
         \o SelectInternal(G, rs, i + 1)
QIncentivizedPoolsOf(G, rs) == SelectInternal(G, rs, 1)
QIncentivizedPools == QIncentivizedPoolsOf(gauges, recs)

---------------------------------------------------------------------------
(* properties *)

\* R1
RegistryWellFormed ==
    /\ \A i \in 1..(Len(recs) - 1) : recs[i].g < recs[i + 1].g
    /\ \A i \in 1..Len(recs) :
          /\ NLe(NZero, recs[i].w)
          /\ recs[i].g = 0 \/ (recs[i].g \in GaugeIds /\ gauges[recs[i].g].perp)
TotalIsSum == tw = SumW(recs, 1)

\* G2
LinksConsistent ==
    /\ \A l \in p2g : /\ l.p \in PoolIds /\ l.g \in GaugeIds
                      /\ gauges[l.g].internal /\ gauges[l.g].pool = l.p /\ gauges[l.g].dur = l.d
                      /\ [g |-> l.g, d |-> l.d, p |-> l.p] \in g2p
    /\ \A l \in g2p : /\ l.g \in GaugeIds /\ l.p \in PoolIds /\ gauges[l.g].pool = l.p /\ gauges[l.g].dur = l.d
                      /\ gauges[l.g].internal => [p |-> l.p, d |-> l.d, g |-> l.g] \in p2g
    /\ \A a, b \in p2g : (a.p = b.p /\ a.d = b.d) \/ a.g = b.g => a = b        \* a function, and injective
    /\ \A a, b \in g2p : a.g = b.g => a = b
    /\ \A g \in GaugeIds : gauges[g].internal =>
          [p |-> gauges[g].pool, d |-> gauges[g].dur, g |-> g] \in p2g
    /\ \A p \in PoolIds :
          {l.d : l \in {x \in p2g : x.p = p}} = (IF pools[p] = "cl" THEN {conf.epoch} ELSE Range(conf.durs))
    /\ \A n \in nolock : n.p \in PoolIds /\ pools[n.p] = "cl" /\ n.g \in GaugeIds
                         /\ gauges[n.g].kind = "nolock" /\ gauges[n.g].pool = n.p
    /\ \A g \in GaugeIds : gauges[g].kind = "nolock" => [p |-> gauges[g].pool, g |-> g] \in nolock

\* internal gauges are perpetual and exist only for pools
InternalGaugesPerpetual == \A g \in GaugeIds : gauges[g].internal => gauges[g].perp /\ gauges[g].pool \in PoolIds

\* A6
RECURSIVE SumCoins(_)
SumCoins(S) == IF S = {} THEN NZero ELSE LET g == CHOOSE x \in S : TRUE IN NAdd(gauges[g].c, SumCoins(S \ {g}))
Conservation ==
    /\ NAdd(gh.mod0, gh.inflow) = NAdd(led.mod, gh.paid)
    /\ led.inc = SumCoins(GaugeIds)
    /\ NLe(NZero, led.mod)

\* A7 (Q1 "IncentivizedPools answers" is an invariant of the trace specification, which sees the queries)
NeverFails == gh.fails = 0

SameHistory == conf' = conf            \* trace specifications concatenate histories with a reset step

\* G3
LinksImmutable == [][SameHistory => (p2g \subseteq p2g' /\ g2p \subseteq g2p' /\ nolock \subseteq nolock'
                                     /\ \A p \in PoolIds : p \in DOMAIN pools' /\ pools'[p] = pools[p]
                                     /\ \A g \in GaugeIds : g \in DOMAIN gauges'
                                           /\ gauges'[g].perp = gauges[g].perp /\ gauges'[g].kind = gauges[g].kind)]_vars

\* A4: after an allocation over a positive total weight the module account keeps less than one unit
\* (+ A/NPrec2) per record:  NPrec2 * mod' < n * (NPrec2 + A)
RemainderSmall ==
    [][(SameHistory /\ gh'.allocs = gh.allocs + 1 /\ tw # NZero) =>
          LET A == NAdd(led.mod, NSub(gh'.inflow, gh.inflow))
              n == Len(recs)
              nn == IF n = 0 THEN NZero ELSE SumSeq([i \in 1..n |-> NOne], 1)
          IN  A = NZero \/ NLt(NMul(NPrec2, led'.mod), NMul(nn, NAdd(NPrec2, A)))]_vars

\* A2 / A3: a gauge outside the registry never gains coins by an allocation; A5: other coins never move
OnlyRegisteredReceive ==
    [][(SameHistory /\ gh'.allocs = gh.allocs + 1) =>
          /\ \A g \in GaugeIds : (g \notin Mentioned(recs) \/ tw = NZero) => gauges'[g].c = gauges[g].c
          /\ \A g \in GaugeIds : gauges'[g].o = gauges[g].o
          /\ led'.modo = led.modo
          /\ tw = NZero => led'.mod = NZero]_vars

\* R5: the registry changes only when the total weight or the records are rewritten by a proposal; in
\* particular an allocation, a funding or a pool creation leaves it alone
RegistryStable ==
    [][(SameHistory /\ (gh' # gh \/ led' # led \/ pools' # pools \/ gauges' # gauges)) => (recs' = recs /\ tw' = tw)]_vars
=============================================================================
