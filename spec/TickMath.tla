------------------------------ MODULE TickMath ------------------------------
(***************************************************************************)
(* Concentrated-liquidity tick / price conversions.  Property C14.          *)
(*                                                                         *)
(* Documented geometry (x/concentrated-liquidity/README.md, "Geometric     *)
(* Tick Spacing with Additive Ranges"), with exponentAtPriceOne = -K:       *)
(*   TicksPerDecade  = 9 * 10^K                                             *)
(*   d               = floor(tick / TicksPerDecade)   (geometric exponent) *)
(*   a               = tick - d * TicksPerDecade      (additive ticks)     *)
(*   price(tick)     = 10^d + a * 10^(d - K)                                *)
(* Prices and square-root prices are fixed-point numbers with PD decimals;  *)
(* everything below works on the raw integers (value * 10^PD) as BigNum.    *)
(* Square-root prices of the launch range (tick >= MinInitTick) are         *)
(* computed at SD < PD decimals, below it at PD decimals; in both regimes   *)
(* the documented contract (osmomath/sqrt.go) is: the least representable   *)
(* r with r^2 >= price.                                                     *)
(*                                                                         *)
(* The real geometry is K = 6, decades -30 .. 38, launch decade -12,        *)
(* PD = 36, SD = 18.  The bounded model (MCTickMath) uses K = 0 (9 ticks    *)
(* per decade), decades -3 .. 3, PD = 4, SD = 2.                            *)
(*                                                                         *)
(* One action per public entry point of x/concentrated-liquidity/math:      *)
(*   TickToPrice, TickToSqrtPrice, CalculateSqrtPriceToTick,                *)
(*   CalculatePriceToTick, RoundDownTickToSpacing,                          *)
(*   SqrtPriceToTickRoundDownSpacing, and TickBattery (the calls a swap     *)
(*   step makes around one tick, checked together).  Every action is a      *)
(*   RELATION between arguments and the answer: the bounded model feeds it  *)
(*   the answers of the functional definitions below, trace validation the  *)
(*   answers the real code gave.                                            *)
(***************************************************************************)
EXTENDS Integers, Sequences

CONSTANTS K,             \* -exponentAtPriceOne
          MinDecade,     \* lowest decade of the extended range   (10^MinDecade = MinSpotPriceV2)
          LaunchDecade,  \* lowest decade of the launch range     (10^LaunchDecade = MinSpotPrice)
          MaxDecade,     \* 10^MaxDecade = MaxSpotPrice
          PD,            \* decimals of prices and of low-range sqrt prices
          SD             \* decimals of launch-range sqrt prices

B == INSTANCE BigNum

ASSUME /\ K \in Nat /\ PD \in Nat /\ SD \in Nat /\ SD <= PD
       /\ MinDecade < LaunchDecade /\ LaunchDecade < 0 /\ 0 < MaxDecade
       /\ MinDecade - K + PD >= 0        \* every price of the range is representable
       /\ LaunchDecade - K + SD >= 0     \* launch-range prices are representable at SD decimals

---------------------------------------------------------------------------
(* geometry *)
TicksPerDecade == 9 * 10^K
MinTickV2    == MinDecade * TicksPerDecade       \* types.MinInitializedTickV2
MinCurTickV2 == MinTickV2 - 1                    \* types.MinCurrentTickV2
MinInitTick  == LaunchDecade * TicksPerDecade    \* types.MinInitializedTick
MinCurTick   == MinInitTick - 1                  \* types.MinCurrentTick
MaxTick      == MaxDecade * TicksPerDecade       \* types.MaxTick

InTickRange(t)  == MinTickV2 <= t /\ t <= MaxTick       \* the supported tick range
SwapReachable(t) == MinInitTick <= t /\ t <= MaxTick    \* ticks a position can use
\* ticks CalculateSqrtPriceToTick may answer (MinCurTick: all liquidity consumed downwards)
CurrentTickRange(t) == MinCurTick <= t /\ t <= MaxTick

Decade(t)   == t \div TicksPerDecade             \* floor division
Additive(t) == t % TicksPerDecade                \* in 0 .. TicksPerDecade-1

Pow10(k) == B!Pow(B!OfInt(10), k)
One  == B!OfInt(1)
Two  == B!OfInt(2)
Unit == Pow10(PD)                                \* raw value of 1.0

\* price(t) * 10^PD  =  (10^K + a) * 10^(d - K + PD)
PriceRaw(t) == B!Mul(B!OfInt(10^K + Additive(t)), Pow10(Decade(t) - K + PD))

\* documented special case: the tick below the lowest initializable tick (it can only be a
\* "current tick") is given the lowest price as well
PriceOf(t) == IF t = MinCurTickV2 THEN PriceRaw(MinTickV2) ELSE PriceRaw(t)

MinSpotV2 == Pow10(MinDecade + PD)
MinSpot   == Pow10(LaunchDecade + PD)
MaxSpot   == Pow10(MaxDecade + PD)

---------------------------------------------------------------------------
(* square roots *)
\* the grid on which the sqrt price of tick t lives
SqrtUlp(t) == IF t >= MinInitTick THEN Pow10(PD - SD) ELSE One

\* relational form: S is the least multiple r of u with (r/10^PD)^2 >= P/10^PD
IsCeilSqrtOnGrid(S, P, u) ==
    LET X == B!Mul(P, Unit) IN
    /\ B!Ge(S, B!Zero)
    /\ B!RemT(S, u).s = 0
    /\ B!Ge(B!Mul(S, S), X)
    /\ \/ B!Lt(S, u)                                   \* S = 0 (only for P = 0)
       \/ LET S1 == B!Sub(S, u) IN B!Lt(B!Mul(S1, S1), X)

IsSqrtPrice(S, t) == IsCeilSqrtOnGrid(S, PriceOf(t), SqrtUlp(t))

\* functional form (binary search; used by the bounded model and for a handful of constants)
RECURSIVE SqrtSearch(_, _, _)
SqrtSearch(n, lo, hi) ==       \* least r in lo..hi with r*r >= n, given hi*hi >= n
    IF B!Cmp(lo, hi) >= 0 THEN lo
    ELSE LET mid == B!FloorDiv(B!Add(lo, hi), Two)
         IN  IF B!Ge(B!Mul(mid, mid), n) THEN SqrtSearch(n, lo, mid)
                                         ELSE SqrtSearch(n, B!Add(mid, One), hi)
CeilSqrt(n) == SqrtSearch(n, B!Zero, Pow10(2 * Len(n.m) + 1))

SqrtPrice(t) == LET u == SqrtUlp(t)
                IN  B!Mul(u, CeilSqrt(B!CeilDiv(B!Mul(PriceOf(t), Unit), B!Mul(u, u))))

MaxSqrt        == SqrtPrice(MaxTick)        \* types.MaxSqrtPrice
MinSqrt        == SqrtPrice(MinInitTick)    \* types.MinSqrtPrice
MinSqrtV2      == SqrtPrice(MinTickV2)
MinCurTickSqrt == SqrtPrice(MinCurTick)

\* square-root prices CalculateSqrtPriceToTick must accept / must reject
InSqrtRange(s) == B!Le(MinCurTickSqrt, s) /\ B!Le(s, MaxSqrt)

\* bucket containment, lower edge inclusive, upper edge exclusive; lo / hi are the
\* square-root prices of T and T+1.  MaxTick's bucket is the single point MaxSqrt.
InBucket(s, T, lo, hi) ==
    IF T = MaxTick THEN B!Eq(s, lo)
    ELSE B!Le(lo, s) /\ B!Lt(s, hi)

---------------------------------------------------------------------------
(* rounding to a spacing: the greatest multiple of sp that is <= t *)
IsRoundDown(r, t, sp) == r <= t /\ t < r + sp /\ r % sp = 0
RoundDownOf(t, sp)    == (t \div sp) * sp

---------------------------------------------------------------------------
(* State: the last verified tick fact and the last call.  The "state machine"  *)
(* is degenerate (the functions are pure); the variables exist so that the      *)
(* relations BETWEEN calls (monotonicity) are action properties.                *)
VARIABLES
    cur,     \* [valid, t, p, s]: last tick whose price and sqrt price were answered
    last     \* summary of the last call, [op, ...]

vars == <<cur, last>>

NoFact == [valid |-> FALSE, t |-> 0, p |-> B!Zero, s |-> B!Zero]
Init == cur = NoFact /\ last = [op |-> "init"]

\* --- TickToPrice(t) = (ok, p)
PriceAnswerOK(t, ok, p) ==
    /\ InTickRange(t) => ok
    /\ (t < MinCurTickV2 \/ t > MaxTick) => ~ok
    /\ ok => B!Eq(p, PriceOf(t))               \* exact, including the documented special case

TickToPrice(t, ok, p) ==
    /\ PriceAnswerOK(t, ok, p)
    /\ last' = [op |-> "t2p", t |-> t, ok |-> ok]
    /\ UNCHANGED cur

\* --- TickToSqrtPrice(t) = (ok, s)
SqrtAnswerOK(t, ok, s) ==
    /\ InTickRange(t) => ok
    /\ (t < MinCurTickV2 \/ t > MaxTick) => ~ok
    /\ ok => IsSqrtPrice(s, t)

TickToSqrtPrice(t, ok, s) ==
    /\ SqrtAnswerOK(t, ok, s)
    /\ last' = [op |-> "t2s", t |-> t, ok |-> ok]
    /\ UNCHANGED cur

\* --- CalculateSqrtPriceToTick(s) = (ok, T); lo, hi = sqrt prices of T and T+1
SqrtToTickAnswerOK(s, ok, T, lo, hi) ==
    /\ InSqrtRange(s) <=> ok                   \* in range accepted, out of range rejected
    /\ ok => /\ CurrentTickRange(T)
             /\ IsSqrtPrice(lo, T)
             /\ T < MaxTick => IsSqrtPrice(hi, T + 1)
             /\ InBucket(s, T, lo, hi)

SqrtPriceToTick(s, ok, T, lo, hi) ==
    /\ SqrtToTickAnswerOK(s, ok, T, lo, hi)
    /\ last' = [op |-> "s2t", ok |-> ok, T |-> IF ok THEN T ELSE 0]
    /\ UNCHANGED cur

\* --- CalculatePriceToTick(p) = (ok, T): only the range contract is part of the property
PriceToTick(p, ok, T) ==
    /\ (B!Lt(p, MinSpotV2) \/ B!Gt(p, MaxSpot)) => ~ok
    /\ (B!Le(MinSpotV2, p) /\ B!Le(p, MaxSpot)) => ok
    /\ ok => InTickRange(T)
    /\ last' = [op |-> "p2t", ok |-> ok, T |-> IF ok THEN T ELSE 0]
    /\ UNCHANGED cur

\* --- RoundDownTickToSpacing(t, sp) = (ok, r)
RoundAnswerOK(t, sp, ok, r) ==
    /\ ok => IsRoundDown(r, t, sp) /\ InTickRange(r)
    /\ ~ok => ~InTickRange(RoundDownOf(t, sp))     \* only a result outside the range is refused

RoundDown(t, sp, ok, r) ==
    /\ sp >= 1
    /\ RoundAnswerOK(t, sp, ok, r)
    /\ last' = [op |-> "rd", t |-> t, sp |-> sp, ok |-> ok, r |-> IF ok THEN r ELSE 0]
    /\ UNCHANGED cur

\* --- SqrtPriceToTickRoundDownSpacing(s, sp) = (ok, r) = RoundDown(SqrtPriceToTick(s), sp)
\* T, lo, hi: the un-rounded tick and its bucket edges
SqrtToTickRounded(s, sp, ok, r, tok, T, lo, hi) ==
    /\ sp >= 1
    /\ SqrtToTickAnswerOK(s, tok, T, lo, hi)
    /\ ~tok => ~ok
    /\ tok => RoundAnswerOK(T, sp, ok, r)
    /\ last' = [op |-> "rd", t |-> IF tok THEN T ELSE 0, sp |-> sp, ok |-> ok, r |-> IF ok THEN r ELSE 0]
    /\ UNCHANGED cur

\* --- the calls made around one tick t, checked together:
\*   (pok, p) = TickToPrice(t), (sok, s) = TickToSqrtPrice(t),
\*   (hasm, sm) / (hasn, sn) = TickToSqrtPrice(t-1) / TickToSqrtPrice(t+1),
\*   probes = CalculateSqrtPriceToTick on sqrt prices x in [sm, sn): [x, ok, T].
\* The verified sqrt prices are the bucket edges, so each probe's bucket is decided by
\* comparison: x < s belongs to t-1, x >= s to t.
ProbeOK(pr, t, s, hasm, sm, hasn, sn) ==
    LET x == pr.x IN
    IF ~InSqrtRange(x) THEN ~pr.ok
    ELSE /\ pr.ok
         /\ \/ /\ pr.T = t     /\ InBucket(x, t, s, sn) /\ (t < MaxTick => hasn)
            \/ /\ pr.T = t - 1 /\ hasm /\ B!Le(sm, x) /\ B!Lt(x, s)

TickBattery(t, pok, p, sok, s, hasm, sm, hasn, sn, probes) ==
    LET ok == pok /\ sok IN
    /\ PriceAnswerOK(t, pok, p)
    /\ SqrtAnswerOK(t, sok, s)
    /\ SqrtAnswerOK(t - 1, hasm, sm)
    /\ SqrtAnswerOK(t + 1, hasn, sn)
    /\ ok => \A i \in 1..Len(probes) : ProbeOK(probes[i], t, s, hasm, sm, hasn, sn)
    /\ ~ok => probes = <<>>
    /\ cur' = IF ok /\ InTickRange(t) THEN [valid |-> TRUE, t |-> t, p |-> p, s |-> s] ELSE cur
    /\ last' = [op |-> "tick", t |-> t, ok |-> ok]

\* a new, unrelated series of calls
Reset == cur' = NoFact /\ last' = [op |-> "init"]

---------------------------------------------------------------------------
(* Properties *)

\* tick -> price and tick -> sqrt price stay inside the supported bounds
PriceInBounds == cur.valid => B!Le(MinSpotV2, cur.p) /\ B!Le(cur.p, MaxSpot)
SqrtInBounds  == cur.valid => /\ B!Le(MinSqrtV2, cur.s) /\ B!Le(cur.s, MaxSqrt)
                              /\ SwapReachable(cur.t) => B!Le(MinSqrt, cur.s)

\* rounding never moves a tick up, by less than one spacing, and never out of range
RoundNeverUp == (last.op = "rd" /\ last.ok) =>
                    /\ last.r <= last.t /\ last.t - last.r < last.sp /\ last.r % last.sp = 0
                    /\ InTickRange(last.r)

\* a tick answered for a sqrt price is a tick the pool's current tick may take
TickAnswerInRange == (last.op = "s2t" /\ last.ok) => CurrentTickRange(last.T)

\* between any two answered ticks: price strictly increasing, sqrt price non-decreasing
Sgn(n) == IF n > 0 THEN 1 ELSE IF n < 0 THEN -1 ELSE 0
PriceStrictlyIncreasing ==
    [][(cur.valid /\ cur'.valid) => B!Cmp(cur'.p, cur.p) = Sgn(cur'.t - cur.t)]_vars
SqrtNonDecreasing ==
    [][(cur.valid /\ cur'.valid) => /\ cur'.t > cur.t => B!Ge(cur'.s, cur.s)
                                    /\ cur'.t < cur.t => B!Le(cur'.s, cur.s)]_vars
=============================================================================
