-------------------------------- MODULE Twap --------------------------------
(***************************************************************************)
(* x/twap: time-weighted average prices of one (pool, asset pair).          *)
(* Property C10.                                                            *)
(*                                                                         *)
(* THE PROPERTY'S RIGHT-HAND SIDE is the ghost `ghost`: the sequence of the  *)
(* end-of-block spot prices, one entry [t, p0, p1, err] per block since the  *)
(* pair exists (p0: price series of quote = asset0, p1: of quote = asset1).  *)
(* The price of entry i is in force on [t_i, t_(i+1)) and the last one up to *)
(* now.  Every entry also carries the exact integrals up to t_i              *)
(*      c0 = SUM_{j<i} p0_j (t_(j+1) - t_j),  c1 likewise,                   *)
(*      cg = SUM_{j<i} log2(p0_j) (t_(j+1) - t_j)       (zero prices skipped) *)
(* so that the time-weighted sums over any [s, e] are differences            *)
(*      I0(e) - I0(s),   I0(x) = c0_i + p0_i (x - t_i),  t_i <= x < t_(i+1). *)
(* This is the definition of the integral of a step function, not the        *)
(* record mechanism of the code: entries exist for EVERY block (changed or    *)
(* not), are never deleted, and are only ever read by these formulas.        *)
(*   arithmetic TWAP over [s,e], s < e :  (I0(e) - I0(s)) / (e - s)          *)
(*   geometric  TWAP over [s,e], s < e :  2 ^ ((IG(e) - IG(s)) / (e - s))    *)
(*                       quote = asset1 :  the reciprocal of that            *)
(*   s = e                              :  the price in force at s           *)
(*   an interval TOUCHES a spot price error iff the closed interval [s,e]    *)
(*   meets some [t_i, t_(i+1)) whose entry has err (err: the spot price read *)
(*   failed, exceeded the maximum, or p0 = 0 - no logarithm).                *)
(*                                                                         *)
(* THE MECHANISM (what the code keeps) is modelled at design level:          *)
(*   recs  stored historical records [t, p0, p1, a0, a1, g, le]              *)
(*         (time, last spot prices, arithmetic accumulators, geometric       *)
(*         accumulator, last error time or -1),                              *)
(*   last  the most recent record (separate index in the code),              *)
(*   prune [on, keep] pruning state, W the retention horizon (largest keep   *)
(*         time of any pruning started so far, -1 = nothing pruned yet).     *)
(* Actions: CreatePool, Trade (a price-moving operation: marks the pool as   *)
(* changed), EpochEnd (starts a pruning with keep = now - KeepPeriod),       *)
(* EndBlock (changed pool: new record = last record advanced to now with the *)
(* LAST price, then the new spot prices; then one bounded pruning pass),     *)
(* Tick (next block).  Queries do not change the state: `Answer` is what the *)
(* mechanism returns, and the properties compare it with the ghost:          *)
(*                                                                         *)
(*  AnswersMatchGhost  for all 0 <= s <= e <= now with s inside the          *)
(*     retention window (s >= W, s >= creation): the answer is a number,     *)
(*     it is flagged iff [s,e] touches an error (or starts in the `taint`     *)
(*     interval of a pool created in error, see Tainted), and unflagged       *)
(*     answers have exactly the ghost's time-weighted sums (point queries:    *)
(*     the price in force).  Start before the creation or before the oldest kept record:   *)
(*     an error, never a number.  As the ghost ignores pruning, this also     *)
(*     says pruning never changes an answer inside the window.               *)
(*  RecordsArePrefixSums  every stored record holds the ghost's prices and    *)
(*     integrals at its time.                                                *)
(*  PruneKeeps  every record ever stored with time >= W, and the newest one   *)
(*     older than W, is still stored.                                        *)
(*  MinMax (BetweenMinMax) the sums lie between min and max price in force    *)
(*     times the length (a theorem of the definition; kept as a sanity        *)
(*     invariant of the ghost itself).                                       *)
(*                                                                         *)
(* Numbers: prices / accumulators go through NZero NAdd NSub NMulT NLe NLog  *)
(* (native integers in the bounded model, BigNum raw 10^-18 units on         *)
(* traces); times are native integers (ms offsets).  NLog(p) is the exact     *)
(* base-2 logarithm of p as a number (scaled like a price) or NoLog when p    *)
(* is not a power of two.                                                    *)
(***************************************************************************)
EXTENDS Integers, Sequences, FiniteSets

CONSTANTS NZero, NAdd(_, _), NSub(_, _), NMulT(_, _), NLe(_, _), NLog(_), NoLog,
          KeepPeriod,      \* RecordHistoryKeepPeriod (ms)
          PruneLimit       \* records deleted per block at most

VARIABLES now, phase, exists, cur, changed, ghost, recs, last, prune, W, ever, taint

vars == <<now, phase, exists, cur, changed, ghost, recs, last, prune, W, ever, taint>>

NEq(a, b) == NLe(a, b) /\ NLe(b, a)
NLt(a, b) == ~NLe(b, a)
IsZero(a) == NEq(a, NZero)
MaxOf(S) == CHOOSE x \in S : \A y \in S : y <= x
MinOf(S) == CHOOSE x \in S : \A y \in S : x <= y

---------------------------------------------------------------------------
(* the ghost: end-of-block prices in force and their exact integrals *)

LogOr0(p) == IF IsZero(p) THEN NZero ELSE NLog(p)       \* zero prices add nothing
LogKnown(p) == IsZero(p) \/ NLog(p) # NoLog

GhostAppend(g, t, p0, p1, err) ==
    IF g = <<>> THEN <<[t |-> t, p0 |-> p0, p1 |-> p1, err |-> err, c0 |-> NZero, c1 |-> NZero, cg |-> NZero, gok |-> TRUE]>>
    ELSE LET b == g[Len(g)]
             dt == t - b.t
             k == LogKnown(b.p0)
         IN Append(g, [t |-> t, p0 |-> p0, p1 |-> p1, err |-> err,
                       c0 |-> NAdd(b.c0, NMulT(b.p0, dt)),
                       c1 |-> NAdd(b.c1, NMulT(b.p1, dt)),
                       cg |-> IF k THEN NAdd(b.cg, NMulT(LogOr0(b.p0), dt)) ELSE b.cg,
                       gok |-> b.gok /\ k])

Born(g) == g[1].t
\* index of the entry in force at time x (x >= Born)
IdxAt(g, x) == MaxOf({i \in 1..Len(g) : g[i].t <= x})
I0(g, x) == LET b == g[IdxAt(g, x)] IN NAdd(b.c0, NMulT(b.p0, x - b.t))
I1(g, x) == LET b == g[IdxAt(g, x)] IN NAdd(b.c1, NMulT(b.p1, x - b.t))
IG(g, x) == LET b == g[IdxAt(g, x)] IN NAdd(b.cg, NMulT(LogOr0(b.p0), x - b.t))
\* the log integral up to x is exact (every price that contributes is a power of two)
IGKnown(g, x) == LET b == g[IdxAt(g, x)] IN b.gok /\ (x = b.t \/ LogKnown(b.p0))

NextT(g, i) == g[i + 1].t
\* entries whose interval of validity meets [s, e) - for s = e: contains s
InForce(g, s, e) ==
    {i \in 1..Len(g) : /\ IF s = e THEN g[i].t <= s ELSE g[i].t < e
                       /\ (i = Len(g) \/ s < NextT(g, i))}
\* the closed interval [s, e] meets the validity interval of an entry with err
ErrTouches(g, s, e) ==
    \E i \in 1..Len(g) : g[i].err /\ g[i].t <= e /\ (i = Len(g) \/ s < NextT(g, i))

Sum0(g, s, e) == NSub(I0(g, e), I0(g, s))
Sum1(g, s, e) == NSub(I1(g, e), I1(g, s))
SumG(g, s, e) == NSub(IG(g, e), IG(g, s))

\* min / max price in force (series 0 or 1) over [s, e]
NMinOf(S) == CHOOSE x \in S : \A y \in S : NLe(x, y)
NMaxOf(S) == CHOOSE x \in S : \A y \in S : NLe(y, x)
MinP0(g, s, e) == NMinOf({g[i].p0 : i \in InForce(g, s, e)})
MaxP0(g, s, e) == NMaxOf({g[i].p0 : i \in InForce(g, s, e)})
MinP1(g, s, e) == NMinOf({g[i].p1 : i \in InForce(g, s, e)})
MaxP1(g, s, e) == NMaxOf({g[i].p1 : i \in InForce(g, s, e)})

---------------------------------------------------------------------------
(* the mechanism *)

None == [t |-> -1]
\* A pool created while its spot price cannot be read (a concentrated pool before its first
\* position) whose price is valid at the end of that block: the code keeps the creation-time
\* error on the first record, so intervals starting in [from, to) - to = time of the next
\* record, -1 = none yet - are flagged although no erroneous price is in force.  The property
\* only demands flags, so this is allowed (and nothing else is).
NoTaint == [from |-> -1, to |-> -1]
Tainted(tn, s) == tn.from >= 0 /\ tn.from <= s /\ (tn.to = -1 \/ s < tn.to)
NewRec(t, p0, p1, err) ==
    [t |-> t, p0 |-> p0, p1 |-> p1, a0 |-> NZero, a1 |-> NZero, g |-> NZero, le |-> IF err THEN t ELSE -1]

\* a record advanced to time t with ITS OWN last prices ("interpolation")
Advance(r, t) ==
    IF r.t = t THEN r
    ELSE LET dt == t - r.t
             r1 == [r EXCEPT !.t = t, !.a0 = NAdd(r.a0, NMulT(r.p0, dt)), !.a1 = NAdd(r.a1, NMulT(r.p1, dt))]
         IN IF IsZero(r.p0) THEN [r1 EXCEPT !.le = t]
            ELSE [r1 EXCEPT !.g = NAdd(r.g, NMulT(NLog(r.p0), dt))]

AtOrBefore(rs, x) ==
    LET c == {r \in rs : r.t <= x} IN
    IF c = {} THEN None ELSE CHOOSE r \in c : \A q \in c : q.t <= r.t

Interp(rs, x) ==
    LET r == AtOrBefore(rs, x) IN
    IF r = None THEN None
    ELSE Advance(IF r.le = r.t THEN [r EXCEPT !.le = x] ELSE r, x)

\* what the four entry points compute for 0 <= s <= e <= now
\* (ToNow is the case e = now: the end record is the most recent one advanced to now)
Answer(rs, lst, nw, s, e) ==
    LET sr == Interp(rs, s)
        er == IF e = nw THEN Advance(lst, nw) ELSE Interp(rs, e)
    IN  IF sr = None \/ er = None THEN [c |-> "old"]
        ELSE [c  |-> IF er.le >= s \/ sr.le = sr.t THEN "flag" ELSE "ok",
              a0 |-> IF s = e THEN er.p0 ELSE NSub(er.a0, sr.a0),
              a1 |-> IF s = e THEN er.p1 ELSE NSub(er.a1, sr.a1),
              g  |-> IF s = e THEN NZero ELSE NSub(er.g, sr.g)]

\* one pruning pass: everything older than keep except the newest such record, newest first
Prunable(rs, keep) ==
    LET old == {r \in rs : r.t < keep} IN
    IF old = {} THEN {} ELSE old \ {CHOOSE r \in old : \A q \in old : q.t <= r.t}
RECURSIVE Newest(_, _)
Newest(S, n) == IF n = 0 \/ S = {} THEN {}
                ELSE LET r == CHOOSE r \in S : \A q \in S : q.t <= r.t IN {r} \cup Newest(S \ {r}, n - 1)

---------------------------------------------------------------------------
Init ==
    /\ now = 0 /\ phase = "open" /\ exists = FALSE /\ changed = FALSE
    /\ cur = [p0 |-> NZero, p1 |-> NZero, err |-> TRUE]
    /\ ghost = <<>> /\ recs = {} /\ last = None
    /\ prune = [on |-> FALSE, keep |-> -1] /\ W = -1 /\ ever = {}
    /\ taint = NoTaint

\* pool creation: a record with the creation-time prices exists at once
CreatePool(p0, p1, err) ==
    /\ phase = "open" /\ ~exists
    /\ exists' = TRUE /\ changed' = TRUE
    /\ cur' = [p0 |-> p0, p1 |-> p1, err |-> err]
    /\ LET r == NewRec(now, p0, p1, err) IN recs' = recs \cup {r} /\ last' = r /\ ever' = ever \cup {r}
    /\ taint' = IF err THEN [from |-> now, to |-> -1] ELSE NoTaint
    /\ UNCHANGED <<now, phase, ghost, prune, W>>

\* any price-moving operation (swap, join, exit, first / last position of a concentrated pool)
Trade(p0, p1, err) ==
    /\ phase = "open" /\ exists
    /\ cur' = [p0 |-> p0, p1 |-> p1, err |-> err]
    /\ changed' = TRUE
    /\ UNCHANGED <<now, phase, exists, ghost, recs, last, prune, W, ever, taint>>

EpochEnd ==
    /\ phase = "open" /\ exists
    /\ prune' = [on |-> TRUE, keep |-> now - KeepPeriod]
    /\ W' = IF now - KeepPeriod > W THEN now - KeepPeriod ELSE W
    /\ UNCHANGED <<now, phase, exists, cur, changed, ghost, recs, last, ever, taint>>

EndBlock ==
    /\ phase = "open"
    /\ phase' = "closed" /\ changed' = FALSE
    /\ ghost' = IF exists THEN GhostAppend(ghost, now, cur.p0, cur.p1, cur.err) ELSE ghost
    /\ LET upd == changed /\ (last.t < now \/ (IsZero(last.a0) \/ IsZero(last.a1)))
           nr  == [Advance(last, now) EXCEPT !.p0 = cur.p0, !.p1 = cur.p1,
                                             !.le = IF cur.err THEN now ELSE last.le]
           rs1 == IF upd THEN {r \in recs : r.t # now} \cup {nr} ELSE recs
           del == IF prune.on THEN Newest(Prunable(rs1, prune.keep), PruneLimit) ELSE {}
       IN /\ recs' = rs1 \ del
          /\ last' = IF upd THEN nr ELSE last
          /\ ever' = IF upd THEN {r \in ever : r.t # now} \cup {nr} ELSE ever
          /\ prune' = IF prune.on /\ Cardinality(del) < PruneLimit THEN [prune EXCEPT !.on = FALSE] ELSE prune
          /\ taint' = IF taint.from = now /\ cur.err THEN NoTaint          \* a plain end-of-block error
                      ELSE IF upd /\ taint.from >= 0 /\ taint.from < now /\ taint.to = -1 THEN [taint EXCEPT !.to = now]
                      ELSE taint
    /\ UNCHANGED <<now, exists, cur, W>>

Tick(d) ==
    /\ phase = "closed"
    /\ now' = now + d /\ phase' = "open"
    /\ UNCHANGED <<exists, cur, changed, ghost, recs, last, prune, W, ever, taint>>

---------------------------------------------------------------------------
(* properties *)

OldestKept == MinOf({r.t : r \in recs})

AnswerOK(s, e) ==
    LET m == Answer(recs, last, now, s, e) IN
    IF s < Born(ghost) \/ s < OldestKept THEN m.c = "old"         \* an error, never a number
    ELSE IF s < W THEN TRUE                                        \* outside the retention window: no claim
    ELSE /\ m.c # "old"
         /\ (m.c = "flag") = (ErrTouches(ghost, s, e) \/ Tainted(taint, s))
         /\ m.c = "ok" =>
              IF s = e THEN LET b == ghost[IdxAt(ghost, s)] IN NEq(m.a0, b.p0) /\ NEq(m.a1, b.p1)
              ELSE /\ NEq(m.a0, Sum0(ghost, s, e))
                   /\ NEq(m.a1, Sum1(ghost, s, e))
                   /\ NEq(m.g, SumG(ghost, s, e))

AnswersMatchGhost ==
    ghost # <<>> => \A s \in 0..now : \A e \in s..now : AnswerOK(s, e)

RecordsArePrefixSums ==
    ghost # <<>> =>
      \A r \in recs : r.t < now \/ phase = "closed" =>
          /\ \E i \in 1..Len(ghost) : ghost[i].t = r.t /\ NEq(ghost[i].p0, r.p0) /\ NEq(ghost[i].p1, r.p1)
          /\ NEq(r.a0, I0(ghost, r.t)) /\ NEq(r.a1, I1(ghost, r.t)) /\ NEq(r.g, IG(ghost, r.t))

PruneKeeps ==
    /\ \A r \in ever : r.t >= W => r \in recs
    /\ LET old == {r \in ever : r.t < W} IN
       old # {} => (CHOOSE r \in old : \A q \in old : q.t <= r.t) \in recs

BetweenMinMax ==
    ghost # <<>> =>
      \A s \in Born(ghost)..now : \A e \in s..now : s < e =>
          /\ NLe(NMulT(MinP0(ghost, s, e), e - s), Sum0(ghost, s, e))
          /\ NLe(Sum0(ghost, s, e), NMulT(MaxP0(ghost, s, e), e - s))
          /\ NLe(NMulT(MinP1(ghost, s, e), e - s), Sum1(ghost, s, e))
          /\ NLe(Sum1(ghost, s, e), NMulT(MaxP1(ghost, s, e), e - s))
=============================================================================
