------------------------------- MODULE Router -------------------------------
(***************************************************************************)
(* x/poolmanager router: routed swaps, split routes, estimates.  Property   *)
(* C05.                                                                     *)
(*                                                                         *)
(* The swap functions of the pools are UNINTERPRETED:                       *)
(*   PoolIn(pst, din, dout, x)   hand x of din to a pool in state pst:      *)
(*                               [ok, y, used, st, miss, o] - y units of    *)
(*                               dout come out, used <= x were consumed, st *)
(*                               is the pool afterwards;                    *)
(*   PoolOut(pst, din, dout, w)  ask for w of dout: [ok, y, got, st, miss,  *)
(*                               o] - the pool takes y of din and delivers  *)
(*                               got <= w.                                  *)
(* (a concentrated pool that runs out of liquidity consumes / delivers less *)
(* than asked without failing; miss / o are bookkeeping of the              *)
(* instantiation: "this point was never observed" and the observation.)     *)
(* The bounded model instantiates them with integer constant-product pools, *)
(* the trace specification with the single-pool executions of the real code *)
(* recorded next to every                                                   *)
(* routed message.                                                          *)
(*                                                                         *)
(* What the module fixes is everything the router adds on top of the pools: *)
(*   - the taker fee per hop: f of the ordered pair (din, dout) (override   *)
(*     or default), none for whitelisted senders;                           *)
(*       exact in : the pool is handed floor(a * (1 - f)), fee = the rest   *)
(*       exact out: the sender pays ceil(p / (1 - f)) for a pool input p    *)
(*   - exact in : Hop_n( ... Hop_1(a)), Hop = taker fee ; pool swap, every  *)
(*     hop must yield at least one unit, the caller's minimum applies to    *)
(*     the final output only;                                               *)
(*   - exact out: the required inputs are pre-computed backwards on the     *)
(*     pre-state (hop i must deliver what hop i+1 will be charged), then    *)
(*     the hops are executed forwards, a later hop may not take more than   *)
(*     the previous one delivered, the caller's maximum applies to what the *)
(*     sender is charged for the first hop;                                 *)
(*   - split route = the legs one after another, the limit applies to the   *)
(*     sum;                                                                 *)
(*   - estimates: the same chain evaluated on the pre-state of every pool   *)
(*     (no state is threaded: they can differ from the execution when a     *)
(*     pool is visited twice), with the taker fee of the pair; they change  *)
(*     nothing;                                                             *)
(*   - a routed swap that does not succeed changes nothing.                 *)
(*                                                                         *)
(* Numbers are abstract (NAdd, ...): native integers with fees in tenths in *)
(* the bounded model, BigNum with fees at scale 10^18 on recorded           *)
(* executions.                                                              *)
(***************************************************************************)
EXTENDS Integers, Sequences, FiniteSets

CONSTANTS NAdd(_, _), NSub(_, _), NMul(_, _), NLe(_, _), NFloorDiv(_, _), NCeilDiv(_, _),
          NZero, NOne, NScale,
          PoolIn(_, _, _, _), PoolOut(_, _, _, _)

VARIABLES
    pools,   \* pool id -> pool state (opaque)
    bal,     \* user -> denom -> amount
    coll,    \* denom -> amount held by the taker fee collector
    cfg,     \* [def : fee, over : <<din, dout>> -> fee (partial), wl : set of whitelisted users]
    last     \* outcome of the last call: [kind, ok, amt, lim, ...]

vars == <<pools, bal, coll, cfg, last>>

NLt(a, b) == ~NLe(b, a)
IsPos(a)  == NLt(NZero, a)

SwapKinds == {"swapIn", "swapOut", "splitIn", "splitOut"}
InKinds   == {"swapIn", "splitIn"}
OutKinds  == {"swapOut", "splitOut"}
EstKinds  == {"estIn", "estOut"}

---------------------------------------------------------------------------
(* taker fee *)
FeeOf(c, din, dout) == IF <<din, dout>> \in DOMAIN c.over THEN c.over[<<din, dout>>] ELSE c.def
HopFee(c, h, free)  == IF free THEN NZero ELSE FeeOf(c, h.din, h.dout)
NetIn(a, f)    == NFloorDiv(NMul(a, NSub(NScale, f)), NScale)      \* floor(a (1 - f))
GrossOut(p, f) == NCeilDiv(NMul(p, NScale), NSub(NScale, f))       \* ceil(p / (1 - f))

Failed(ps, m, hs) == [ok |-> FALSE, miss |-> m, amt |-> NZero, ps |-> ps, hops |-> hs]

\* one executed hop as the sender's bank account sees it
HopRec(h, gin, fee, x, y, gout, o) ==
    [pool |-> h.pool, din |-> h.din, dout |-> h.dout, gin |-> gin, fee |-> fee, x |-> x, y |-> y, gout |-> gout, o |-> o]

---------------------------------------------------------------------------
(* exact amount in: Hop_n( ... Hop_1(a)) *)
RECURSIVE RunInFrom(_, _, _, _, _, _, _, _)
RunInFrom(ps, route, i, a, c, free, zeroLast, acc) ==
    IF i > Len(route) THEN [ok |-> TRUE, miss |-> FALSE, amt |-> a, ps |-> ps, hops |-> acc]
    ELSE LET h   == route[i]
             net == NetIn(a, HopFee(c, h, free))
             r   == PoolIn(ps[h.pool], h.din, h.dout, net)
             hop == HopRec(h, NAdd(NSub(a, net), r.used), NSub(a, net), net, r.y, r.y, r.o)
             enough == IsPos(r.y) \/ (zeroLast /\ i = Len(route))    \* every hop must yield at least one unit
         IN  IF ~r.ok THEN Failed(ps, r.miss, Append(acc, hop))
             ELSE IF ~enough THEN Failed(ps, FALSE, Append(acc, hop))
             ELSE RunInFrom([ps EXCEPT ![h.pool] = r.st], route, i + 1, r.y, c, free, zeroLast, Append(acc, hop))
RunIn(ps, route, a, c, free, zeroLast) == RunInFrom(ps, route, 1, a, c, free, zeroLast, <<>>)

---------------------------------------------------------------------------
(* exact amount out *)
\* backwards on ps (no pool is updated): req[i] = what the sender is charged for hop i
RECURSIVE PreOutFrom(_, _, _, _, _, _, _)
PreOutFrom(ps, route, i, want, c, free, req) ==
    IF i = 0 THEN [ok |-> TRUE, miss |-> FALSE, req |-> req]
    ELSE LET h == route[i]
             r == PoolOut(ps[h.pool], h.din, h.dout, want)
             g == GrossOut(r.y, HopFee(c, h, free))
         IN  IF ~r.ok THEN [ok |-> FALSE, miss |-> r.miss, req |-> req]
             ELSE PreOutFrom(ps, route, i - 1, g, c, free, <<g>> \o req)
PreOut(ps, route, out, c, free) == PreOutFrom(ps, route, Len(route), out, c, free, <<>>)

\* forwards: hop i delivers what hop i+1 was computed to need
RECURSIVE FwdOutFrom(_, _, _, _, _, _, _, _)
FwdOutFrom(ps, route, i, out, req, c, free, acc) ==
    IF i > Len(route) THEN [ok |-> TRUE, miss |-> FALSE, amt |-> acc[1].gin, ps |-> ps, hops |-> acc]
    ELSE LET h    == route[i]
             want == IF i = Len(route) THEN out ELSE req[i + 1]
             r    == PoolOut(ps[h.pool], h.din, h.dout, want)
             g    == GrossOut(r.y, HopFee(c, h, free))
             hop  == HopRec(h, g, NSub(g, r.y), want, r.y, r.got, r.o)
         IN  IF ~r.ok THEN Failed(ps, r.miss, acc)
             ELSE IF i > 1 /\ NLt(req[i], r.y) THEN Failed(ps, FALSE, acc)    \* takes more than was delivered
             ELSE FwdOutFrom([ps EXCEPT ![h.pool] = r.st], route, i + 1, out, req, c, free, Append(acc, hop))

\* freePre: whether the pre-computation applies the sender's whitelist status (the property) -
\* kept as a parameter so that a pre-computation with the pair's nominal fee can be expressed
RunOut(ps, route, out, c, free, freePre) ==
    LET p == PreOut(ps, route, out, c, freePre)
    IN  IF ~p.ok THEN Failed(ps, p.miss, <<>>) ELSE FwdOutFrom(ps, route, 1, out, p.req, c, free, <<>>)

---------------------------------------------------------------------------
(* a routed operation: legs one after another, amounts summed *)
RECURSIVE RunLegs(_, _, _, _, _, _, _, _, _)
RunLegs(kind, ps, legs, j, c, free, freePre, total, acc) ==
    IF j > Len(legs) THEN [ok |-> TRUE, miss |-> FALSE, amt |-> total, ps |-> ps, hops |-> acc]
    ELSE LET r == IF kind \in InKinds THEN RunIn(ps, legs[j].route, legs[j].amt, c, free, kind = "splitIn")
                  ELSE RunOut(ps, legs[j].route, legs[j].amt, c, free, freePre)
         IN  IF ~r.ok THEN Failed(ps, r.miss, acc \o r.hops)
             ELSE RunLegs(kind, r.ps, legs, j + 1, c, free, freePre, NAdd(total, r.amt), acc \o r.hops)
Compose(kind, ps, legs, c, free, freePre) == RunLegs(kind, ps, legs, 1, c, free, freePre, NZero, <<>>)

\* the caller's limit
Accept(kind, amt, lim) == /\ IsPos(amt)
                          /\ IF kind \in InKinds THEN NLe(lim, amt) ELSE NLe(amt, lim)

\* estimates: chain on the pre-state of every pool, nominal taker fee of the pair
RECURSIVE EstInFrom(_, _, _, _, _)
EstInFrom(ps, route, i, a, c) ==
    IF i > Len(route) THEN [ok |-> TRUE, miss |-> FALSE, amt |-> a]
    ELSE LET h == route[i]
             r == PoolIn(ps[h.pool], h.din, h.dout, NetIn(a, FeeOf(c, h.din, h.dout)))
         IN  IF ~r.ok \/ ~IsPos(r.y) THEN [ok |-> FALSE, miss |-> r.miss, amt |-> NZero]
             ELSE EstInFrom(ps, route, i + 1, r.y, c)
EstIn(ps, route, a, c) == EstInFrom(ps, route, 1, a, c)
EstOut(ps, route, out, c) ==
    LET p == PreOut(ps, route, out, c, FALSE)
    IN  [ok |-> p.ok, miss |-> p.miss, amt |-> IF p.ok THEN p.req[1] ELSE NZero]

PoolsOf(legs) == UNION { {legs[j].route[i].pool : i \in 1..Len(legs[j].route)} : j \in 1..Len(legs) }
NHops(legs)   == LET RECURSIVE S(_) S(j) == IF j > Len(legs) THEN 0 ELSE Len(legs[j].route) + S(j + 1) IN S(1)
Distinct(legs) == Cardinality(PoolsOf(legs)) = NHops(legs)      \* every pool visited at most once

---------------------------------------------------------------------------
(* ledger effect of the executed hops *)
RECURSIVE Settle(_, _, _)
Settle(b, hops, i) ==
    IF i > Len(hops) THEN b
    ELSE LET h  == hops[i]
             b1 == [b EXCEPT ![h.din] = NSub(@, h.gin)]
         IN  Settle([b1 EXCEPT ![h.dout] = NAdd(@, h.gout)], hops, i + 1)
RECURSIVE Collect(_, _, _)
Collect(cl, hops, i) ==
    IF i > Len(hops) THEN cl ELSE Collect([cl EXCEPT ![hops[i].din] = NAdd(@, hops[i].fee)], hops, i + 1)

---------------------------------------------------------------------------
(* actions: one per public entry point *)
Swap(kind, u, legs, lim) ==
    LET free == u \in cfg.wl
        r    == Compose(kind, pools, legs, cfg, free, free)
        good == r.ok /\ Accept(kind, r.amt, lim)
    IN  /\ IF good THEN /\ pools' = r.ps
                        /\ bal'   = [bal EXCEPT ![u] = Settle(@, r.hops, 1)]
                        /\ coll'  = Collect(coll, r.hops, 1)
                   ELSE UNCHANGED <<pools, bal, coll>>
        /\ last' = [kind |-> kind, ok |-> good, amt |-> IF good THEN r.amt ELSE NZero, lim |-> lim,
                    who |-> u, legs |-> legs, free |-> free]
        /\ UNCHANGED cfg

\* u: the account that would send the swap (the query itself does not know it)
Estimate(kind, u, route, amt) ==
    LET e    == IF kind = "estIn" THEN EstIn(pools, route, amt, cfg) ELSE EstOut(pools, route, amt, cfg)
        free == u \in cfg.wl
        x    == Compose(IF kind = "estIn" THEN "swapIn" ELSE "swapOut", pools,
                        <<[route |-> route, amt |-> amt]>>, cfg, free, free)
    IN  /\ last' = [kind |-> kind, ok |-> e.ok, amt |-> e.amt, lim |-> NZero, who |-> u,
                    legs |-> <<[route |-> route, amt |-> amt]>>, free |-> free,
                    execOk |-> x.ok, execAmt |-> x.amt]
        /\ UNCHANGED <<pools, bal, coll, cfg>>

SetPairFee(din, dout, f) ==
    /\ cfg' = [cfg EXCEPT !.over = IF f = cfg.def THEN [p \in DOMAIN @ \ {<<din, dout>>} |-> @[p]]
                                   ELSE [p \in DOMAIN @ \cup {<<din, dout>>} |-> IF p = <<din, dout>> THEN f ELSE @[p]]]
    /\ last' = [kind |-> "config", ok |-> TRUE, amt |-> NZero, lim |-> NZero]
    /\ UNCHANGED <<pools, bal, coll>>
SetDefaultFee(f) ==
    /\ cfg' = [cfg EXCEPT !.def = f]
    /\ last' = [kind |-> "config", ok |-> TRUE, amt |-> NZero, lim |-> NZero]
    /\ UNCHANGED <<pools, bal, coll>>
SetWhitelist(s) ==
    /\ cfg' = [cfg EXCEPT !.wl = s]
    /\ last' = [kind |-> "config", ok |-> TRUE, amt |-> NZero, lim |-> NZero]
    /\ UNCHANGED <<pools, bal, coll>>

---------------------------------------------------------------------------
(* the property *)
\* a swap that succeeds never delivers less than the minimum nor charges more than the maximum
LimitsHold == (last.kind \in SwapKinds /\ last.ok) => Accept(last.kind, last.amt, last.lim)

\* otherwise it fails as a whole
Atomic == [][ (last'.kind \in SwapKinds /\ ~last'.ok) => UNCHANGED <<pools, bal, coll, cfg>> ]_vars

\* estimates change nothing ...
EstimatePure == [][ last'.kind \in EstKinds => UNCHANGED <<pools, bal, coll, cfg>> ]_vars
\* ... and return exactly the executed amount when every pool is visited at most once
\* (the query has no sender: stated for senders that pay the pair's taker fee)
EstimateExact == (last.kind \in EstKinds /\ Distinct(last.legs) /\ ~last.free) =>
                    /\ last.ok = last.execOk
                    /\ last.ok => last.amt = last.execAmt
=============================================================================
