------------------------------ MODULE ProtoRev ------------------------------
(***************************************************************************)
(* x/protorev: cyclic-arbitrage back-running in the post handler, its      *)
(* budgets, its profit accounting, its admin surface and its pool index.   *)
(* Extra check X08.                                                        *)
(*                                                                         *)
(* What a user of this module relies on (from x/protorev/protorev.md, the  *)
(* doc comments of posthandler.go / routes.go / rebalance.go /             *)
(* developer_fees.go / epoch_hook.go / hooks.go / msg_server.go, and the   *)
(* evident intent - not a transcription of the implementation):            *)
(*                                                                         *)
(* P1  containment.  For every transaction: whether it is accepted and     *)
(*     what it does to its signers is EXACTLY what its messages alone do;  *)
(*     the post handler never fails it and never alters its outcome.       *)
(* P2  scope.  The post handler changes nothing unless the module is       *)
(*     enabled AND the transaction succeeded AND it swapped; every         *)
(*     back-run answers a swap OF THIS transaction (at most one per swap); *)
(*     a failed transaction leaves no trace of any back-run.               *)
(* P3  budgets.  A route costs the sum over its pools of the points of the *)
(*     pool's type.  The points consumed after one transaction never       *)
(*     exceed max-points-per-tx, never lift the block's count above        *)
(*     max-points-per-block, are the cost of a set of candidate routes     *)
(*     that contains every executed route, and every block starts at 0.    *)
(* P4  route shape.  Every executed route is cyclic (each hop starts in    *)
(*     the denomination the previous one ended in, the last ends where the *)
(*     first started), crosses the user's pool in the direction OPPOSITE   *)
(*     to the user's swap, and is either a configured hot route of that    *)
(*     token pair (placeholder = the user's pool) or a 2/3-pool route      *)
(*     that starts and ends in a base denomination and otherwise uses only *)
(*     the indexed highest-liquidity pools of that base denomination.      *)
(* P5  trade.  Executed only if profitable (out > in); the module account  *)
(*     never ends a trade with less of the input denomination than it      *)
(*     started with; profit = out - in exactly; the module account gains   *)
(*     exactly the profit, in the input denomination only; nobody else's   *)
(*     protocol ledger moves; the supply of every denomination is          *)
(*     unchanged.                                                          *)
(* P6  statistics.  number-of-trades = trades ever executed; profits by    *)
(*     denomination = sum of their profits; per route: count and profits   *)
(*     by denomination, exactly; totals = sums over routes; the queries    *)
(*     answer exactly these counters (and the configuration).              *)
(* P7  distribution.  At EVERY day-epoch end while enabled, for every base *)
(*     denomination the module account's whole balance x is paid out (once *)
(*     a developer account has been named; until then everything stays in  *)
(*     the module account):                                                *)
(*     floor(x*s/100) to the developer account (s = 20 while fewer than    *)
(*     365 days since module genesis, 10 while fewer than 730, 5 after),   *)
(*     the rest of uosmo to the burn address, the rest of any other base   *)
(*     denomination to the community pool; other denominations stay; the   *)
(*     day counter advances by exactly one.  Other epochs and a disabled   *)
(*     module: nothing.  Always: profits made + deposits = module account  *)
(*     + developers + burnt + community pool (nothing appears or vanishes).*)
(* P8  admin.  SetHotRoutes / SetDeveloperAccount / SetMaxPoolPointsPerTx  *)
(*     / SetMaxPoolPointsPerBlock / SetInfoByPoolType / SetBaseDenoms take *)
(*     effect only when sent by the admin and well formed (see Accept);    *)
(*     then the effect is exactly the replacement of what they name; a     *)
(*     refused message (and every message of a failed transaction) changes *)
(*     nothing.  Hence always 1 <= maxTx <= 50, maxTx <= maxBlock <= 200,  *)
(*     points >= 1, first base denomination uosmo, no duplicates, steps    *)
(*     >= 1, every stored hot route cyclic with its placeholder.           *)
(* P9  index.  After every day-epoch end (enabled) and every accepted      *)
(*     SetBaseDenoms the index maps each (base, other) pair to a pool of   *)
(*     exactly that pair with the greatest liquidity, and has no other     *)
(*     entries; a new pool replaces an entry only if there was none or it  *)
(*     has strictly more liquidity; nothing else ever changes the index.   *)
(*                                                                         *)
(* Left open (inputs from the log): which of several profitable routes is  *)
(* taken and how much is put in (the binary search), event contents, error *)
(* texts, ties between pools of equal liquidity, a query refusing to       *)
(* answer a counter that is still zero.                                    *)
(*                                                                         *)
(* A transaction is two actions: Deliver (its messages, atomically) and    *)
(* PostHandle (the back-run with outcome o, or the rollback).  Numbers are *)
(* integers; liquidity of a pool is an ordinal (`liq`).                    *)
(***************************************************************************)
EXTENDS Integers, Sequences, FiniteSets, TLC

CONSTANT Denoms        \* the universe of denominations (strings); contains Osmo

Osmo == "uosmo"
TxCap == 50            \* hard limits of the two budgets and of max-ticks-crossed
BlockCap == 200
TicksCap == 10
Phase1 == 365
Phase2 == 730
Split(days) == IF days < Phase1 THEN 20 ELSE IF days < Phase2 THEN 10 ELSE 5
DevNames == {"dev", "dev2"}      \* accounts that may be named developer account
UserNames == {"u1", "u2"}

VARIABLES
    pools,   \* environment: Seq over pool ids of [kind : "bal"|"stable"|"cl", a, b : denominations, liq : ordinal]
    cfg,     \* [enabled, admin, dev ("" = unset), maxTx, maxBlock, w : [bal, stable, cl], ticks,
             \*  bases : Seq([d, step]), hot : Seq([in, out, routes : Seq([trades : Seq([pool,in,out]), step])]), days]
    idx,     \* the highest-liquidity index: set of [b, o, p]
    blk,     \* [h : height, used : points consumed in this block]
    stats,   \* [n, byDenom : Denoms -> Nat, routes : set of [route : Seq(pool id), n, p : Denoms -> Nat]]
    bank,    \* ledgers [mod, null, cp : Denoms -> Nat, dev : DevNames -> (Denoms -> Nat),
             \*          usr : UserNames -> (Denoms -> Int) (what the last transaction did to the users' accounts),
             \*          sup : Denoms -> Int (supply, relative to the start)]
    funded,  \* ghost: Denoms -> Nat, what was deposited into the module account from outside
    tx,      \* the transaction in flight between Deliver and PostHandle, or NoTx
    last     \* the last action and what it reported (read by the action properties)

vars == <<pools, cfg, idx, blk, stats, bank, funded, tx, last>>

NoTx == [on |-> FALSE]
Zero == [d \in Denoms |-> 0]
Range(s) == {s[i] : i \in DOMAIN s}
Min(a, b) == IF a < b THEN a ELSE b

RECURSIVE SumSeq(_)
SumSeq(s) == IF s = <<>> THEN 0 ELSE Head(s) + SumSeq(Tail(s))
RECURSIVE Flat(_)
Flat(ss) == IF ss = <<>> THEN <<>> ELSE Head(ss) \o Flat(Tail(ss))
RECURSIVE SumN(_)
SumN(S) == IF S = {} THEN 0 ELSE LET x == CHOOSE x \in S : TRUE IN x.n + SumN(S \ {x})
RECURSIVE SumP(_, _)
SumP(S, d) == IF S = {} THEN 0 ELSE LET x == CHOOSE x \in S : TRUE IN x.p[d] + SumP(S \ {x}, d)

---------------------------------------------------------------------------
(* the index *)
PoolIds == DOMAIN pools
Pairs(ps, p, x, y) == {ps[p].a, ps[p].b} = {x, y}
BaseDenoms(c) == {c.bases[i].d : i \in DOMAIN c.bases}
IdxOf(ix, b, o) == {e.p : e \in {x \in ix : x.b = b /\ x.o = o}}
Best(ps, b, o) == LET C == {p \in DOMAIN ps : Pairs(ps, p, b, o)} IN {p \in C : \A q \in C : ps[q].liq <= ps[p].liq}

\* P9: ix is a refreshed index for the pools ps and the base denominations B
IsRefreshed(ix, ps, B) ==
    /\ \A e \in ix : e.b \in B /\ e.o \in Denoms \ {e.b} /\ e.p \in Best(ps, e.b, e.o)
    /\ \A b \in B : \A o \in Denoms \ {b} :
          Cardinality({e \in ix : e.b = b /\ e.o = o}) = (IF Best(ps, b, o) = {} THEN 0 ELSE 1)

\* the refreshed index the design computes (ties: the lowest pool id; a tie is left open where it is compared)
Refresh(ps, B) ==
    {[b |-> b, o |-> o, p |-> CHOOSE p \in Best(ps, b, o) : \A q \in Best(ps, b, o) : p <= q] :
        <<b, o>> \in {x \in B \X Denoms : x[1] # x[2] /\ Best(ps, x[1], x[2]) # {}}}

\* a pool p was just created (ps already contains it)
AfterCreate(ix, ps, B, p) ==
    LET upd(s, b, o) ==
            IF b \notin B THEN s
            ELSE IF IdxOf(s, b, o) = {} THEN s \cup {[b |-> b, o |-> o, p |-> p]}
            ELSE LET q == CHOOSE q \in IdxOf(s, b, o) : TRUE IN
                 IF ps[p].liq > ps[q].liq THEN (s \ {[b |-> b, o |-> o, p |-> q]}) \cup {[b |-> b, o |-> o, p |-> p]} ELSE s
    IN upd(upd(ix, ps[p].a, ps[p].b), ps[p].b, ps[p].a)

---------------------------------------------------------------------------
(* P8: the admin messages.  m = [k, by, arg]; arg = [n, acct, hot, bases, info] *)
AdminKinds == {"hot", "devacct", "maxtx", "maxblock", "info", "bases"}
SwapKinds == {"swapin", "swapout", "gswap", "join"}

TradesChain(tr) == /\ Len(tr) >= 2
                   /\ tr[1].in = tr[Len(tr)].out
                   /\ \A i \in 1..(Len(tr) - 1) : tr[i].out = tr[i + 1].in
HasPlaceholder(pr, tr) == \E i \in DOMAIN tr : tr[i].in = pr.out /\ tr[i].out = pr.in /\ tr[i].pool = 0
RouteOK(pr, r) == r.step >= 1 /\ TradesChain(r.trades) /\ HasPlaceholder(pr, r.trades)
PairOK(pr) == /\ pr.in # "" /\ pr.out # ""
              /\ Len(pr.routes) >= 1
              /\ \A i \in DOMAIN pr.routes : RouteOK(pr, pr.routes[i])
HotOK(h) == /\ Len(h) >= 1
            /\ \A i \in DOMAIN h : PairOK(h[i])
            /\ \A i, j \in DOMAIN h : i # j => <<h[i].in, h[i].out>> # <<h[j].in, h[j].out>>
BasesOK(bs) == /\ Len(bs) >= 1 /\ bs[1].d = Osmo
               /\ \A i \in DOMAIN bs : bs[i].d # "" /\ bs[i].step >= 1
               /\ \A i, j \in DOMAIN bs : i # j => bs[i].d # bs[j].d
InfoOK(i) == i.bal >= 1 /\ i.stable >= 1 /\ i.cl >= 1 /\ i.ticks >= 1 /\ i.ticks <= TicksCap

WellFormed(c, m) ==
    CASE m.k = "hot"      -> HotOK(m.arg.hot)
      [] m.k = "devacct"  -> m.arg.acct \in DevNames        \* anything else the drivers send is not an address
      [] m.k = "maxtx"    -> m.arg.n >= 1 /\ m.arg.n <= TxCap /\ m.arg.n <= c.maxBlock
      [] m.k = "maxblock" -> m.arg.n >= 1 /\ m.arg.n <= BlockCap /\ m.arg.n >= c.maxTx
      [] m.k = "info"     -> InfoOK(m.arg.info)
      [] m.k = "bases"    -> BasesOK(m.arg.bases)
Accept(c, m) == m.by = c.admin /\ WellFormed(c, m)

CfgAfter(c, m) ==
    CASE m.k = "hot"      -> [c EXCEPT !.hot = m.arg.hot]
      [] m.k = "devacct"  -> [c EXCEPT !.dev = m.arg.acct]
      [] m.k = "maxtx"    -> [c EXCEPT !.maxTx = m.arg.n]
      [] m.k = "maxblock" -> [c EXCEPT !.maxBlock = m.arg.n]
      [] m.k = "info"     -> [c EXCEPT !.w = [bal |-> m.arg.info.bal, stable |-> m.arg.info.stable, cl |-> m.arg.info.cl],
                                       !.ticks = m.arg.info.ticks]
      [] m.k = "bases"    -> [c EXCEPT !.bases = m.arg.bases]

CfgWellFormed(c) ==
    /\ c.maxTx >= 1 /\ c.maxTx <= TxCap /\ c.maxTx <= c.maxBlock /\ c.maxBlock <= BlockCap
    /\ c.w.bal >= 1 /\ c.w.stable >= 1 /\ c.w.cl >= 1 /\ c.ticks >= 1 /\ c.ticks <= TicksCap
    /\ BasesOK(c.bases)
    /\ c.hot = <<>> \/ HotOK(c.hot)
    /\ c.dev \in DevNames \cup {""}

---------------------------------------------------------------------------
(* Deliver: the messages of a transaction, one after the other, all or nothing.   *)
(* A swap message carries what the pools answered (m.ok) and the hops it made;    *)
(* "fund" deposits into the module account, "send" is any other message, "fail"   *)
(* a message that is refused.  s = [cfg, idx, ok, swaps, dep]                      *)
MsgStep(s, m) ==
    IF m.k \in AdminKinds THEN
        IF Accept(s.cfg, m)
        THEN [s EXCEPT !.cfg = CfgAfter(s.cfg, m),
                       !.idx = IF m.k = "bases" THEN Refresh(pools, BaseDenoms(CfgAfter(s.cfg, m))) ELSE s.idx]
        ELSE [s EXCEPT !.ok = FALSE]
    ELSE IF m.k \in SwapKinds THEN
        IF m.ok THEN [s EXCEPT !.swaps = s.swaps \o m.hops] ELSE [s EXCEPT !.ok = FALSE]
    ELSE IF m.k = "fund" THEN
        IF m.ok THEN [s EXCEPT !.dep = [s.dep EXCEPT ![m.hops[1].in] = @ + m.amt]] ELSE [s EXCEPT !.ok = FALSE]
    ELSE IF m.k = "fail" THEN [s EXCEPT !.ok = FALSE]
    ELSE s

RECURSIVE RunMsgs(_, _)
RunMsgs(s, ms) == IF ms = <<>> \/ ~s.ok THEN s ELSE RunMsgs(MsgStep(s, Head(ms)), Tail(ms))

AfterMsgs(ms) == RunMsgs([cfg |-> cfg, idx |-> idx, ok |-> TRUE, swaps |-> <<>>, dep |-> Zero], ms)

\* ud: what the messages alone do to the users' ledgers (an input: the pools decide)
Deliver(ms, ud) ==
    /\ ~tx.on
    /\ LET s == AfterMsgs(ms) IN
        /\ tx' = [on |-> TRUE, ok |-> s.ok, swaps |-> s.swaps,
                  pre |-> [cfg |-> cfg, idx |-> idx, bank |-> bank, funded |-> funded]]
        /\ cfg' = s.cfg
        /\ idx' = s.idx
        /\ bank' = [bank EXCEPT !.mod = [d \in Denoms |-> @[d] + s.dep[d]],
                                !.usr = [u \in UserNames |-> [d \in Denoms |-> ud[u][d]]]]
        /\ funded' = [d \in Denoms |-> funded[d] + s.dep[d]]
    /\ last' = [a |-> "deliver", ok |-> AfterMsgs(ms).ok, msgs |-> ms]
    /\ UNCHANGED <<blk, stats>>

---------------------------------------------------------------------------
(* candidate routes of a swap sw = [pool, in, out] (README "Route Generation") *)
Hop(p, i, o) == [pool |-> p, in |-> i, out |-> o]

HotCands(c, sw) ==
    LET inst(r) == [i \in DOMAIN r.trades |-> Hop(IF r.trades[i].pool = 0 THEN sw.pool ELSE r.trades[i].pool,
                                                    r.trades[i].in, r.trades[i].out)]
        ofPair(pr) == IF pr.in = sw.in /\ pr.out = sw.out
                      THEN Flat([i \in DOMAIN pr.routes |->
                                   IF \A j \in DOMAIN pr.routes[i].trades : inst(pr.routes[i])[j].pool \in PoolIds
                                   THEN << inst(pr.routes[i]) >> ELSE <<>>])
                      ELSE <<>>
    IN Flat([i \in DOMAIN c.hot |-> ofPair(c.hot[i])])

ThreePool(ix, b, sw) ==
    IF IdxOf(ix, b, sw.out) # {} /\ IdxOf(ix, b, sw.in) # {}
    THEN << << Hop(CHOOSE p \in IdxOf(ix, b, sw.out) : TRUE, b, sw.out),
               Hop(sw.pool, sw.out, sw.in),
               Hop(CHOOSE p \in IdxOf(ix, b, sw.in) : TRUE, sw.in, b) >> >>
    ELSE <<>>

TwoPool(ix, b, sw) ==
    IF b = sw.out /\ IdxOf(ix, b, sw.in) \ {sw.pool} # {}
    THEN << << Hop(sw.pool, b, sw.in), Hop(CHOOSE p \in IdxOf(ix, b, sw.in) : TRUE, sw.in, b) >> >>
    ELSE IF b = sw.in /\ IdxOf(ix, b, sw.out) \ {sw.pool} # {}
    THEN << << Hop(CHOOSE p \in IdxOf(ix, b, sw.out) : TRUE, b, sw.out), Hop(sw.pool, sw.out, b) >> >>
    ELSE <<>>

Cands(c, ix, sw) == HotCands(c, sw) \o Flat([i \in DOMAIN c.bases |-> ThreePool(ix, c.bases[i].d, sw) \o TwoPool(ix, c.bases[i].d, sw)])

\* P3: the cost of a route
Pts(c, hops) == SumSeq([i \in DOMAIN hops |-> c.w[pools[hops[i].pool].kind]])

\* what the post handler may still spend after this transaction
Budget(c, b) == IF b.used >= c.maxBlock THEN 0 ELSE Min(c.maxTx, c.maxBlock - b.used)

RECURSIVE SubsetSums(_)
SubsetSums(s) == IF s = <<>> THEN {0} ELSE LET R == SubsetSums(Tail(s)) IN R \cup {x + Head(s) : x \in R}
RECURSIVE RemoveOne(_, _)
RemoveOne(s, x) == IF s = <<>> THEN <<>> ELSE IF Head(s) = x THEN Tail(s) ELSE <<Head(s)>> \o RemoveOne(Tail(s), x)
RECURSIVE RemoveAll(_, _)
RemoveAll(s, xs) == IF xs = <<>> THEN s ELSE RemoveAll(RemoveOne(s, Head(xs)), Tail(xs))
RECURSIVE Count(_, _)
Count(s, x) == IF s = <<>> THEN 0 ELSE (IF Head(s) = x THEN 1 ELSE 0) + Count(Tail(s), x)

\* P4: the shape of an executed route, by itself
Cyclic(t) == /\ Len(t.hops) >= 2
             /\ t.hops[1].in = t.denom /\ t.hops[Len(t.hops)].out = t.denom
             /\ \A i \in 1..(Len(t.hops) - 1) : t.hops[i].out = t.hops[i + 1].in
Opposite(t) == \E i \in DOMAIN t.hops : t.hops[i] = Hop(t.upool, t.uout, t.uin)
\* P5: the amounts of a trade
Profitable(t) == t.in >= 1 /\ t.out > t.in
ProfitExact(t) == t.profit = t.out - t.in
USwap(t) == Hop(t.upool, t.uin, t.uout)

(* P2-P5: o = [trades : Seq([hops, denom, in, out, profit, upool, uin, uout]), delta : points consumed] is an    *)
(* admissible outcome of the post handler for the swaps sws of a successful transaction                          *)
PostScope(c, sws, o) ==                                                      \* P2
    /\ (~c.enabled \/ sws = <<>>) => (o.trades = <<>> /\ o.delta = 0)
    /\ \A i \in DOMAIN o.trades :
          /\ USwap(o.trades[i]) \in Range(sws)
          /\ Count([j \in DOMAIN o.trades |-> USwap(o.trades[j])], USwap(o.trades[i])) <= Count(sws, USwap(o.trades[i]))
PostRoutes(c, ix, o) ==                                                      \* P4
    \A i \in DOMAIN o.trades : LET t == o.trades[i] IN
        Cyclic(t) /\ Opposite(t) /\ t.hops \in Range(Cands(c, ix, USwap(t)))
PostAmounts(o) == \A i \in DOMAIN o.trades : Profitable(o.trades[i]) /\ ProfitExact(o.trades[i])     \* P5
PostBudget(c, b, o) == o.delta >= 0 /\ o.delta <= Budget(c, b)                \* P3
PostPoints(c, ix, sws, o) ==                                                 \* P3
    LET all == Flat([i \in DOMAIN sws |-> Cands(c, ix, sws[i])])
        allPts == [i \in DOMAIN all |-> Pts(c, all[i])]
        exPts == [i \in DOMAIN o.trades |-> Pts(c, o.trades[i].hops)]
    IN (o.delta - SumSeq(exPts)) \in SubsetSums(RemoveAll(allPts, exPts))
PostOK(c, ix, b, sws, o) ==
    PostScope(c, sws, o) /\ PostRoutes(c, ix, o) /\ PostAmounts(o) /\ PostBudget(c, b, o) /\ PostPoints(c, ix, sws, o)

ProfitOf(trades, d) == SumSeq([i \in DOMAIN trades |-> IF trades[i].denom = d THEN trades[i].profit ELSE 0])
RouteOf(t) == [i \in DOMAIN t.hops |-> t.hops[i].pool]

RECURSIVE StatsAfter(_, _)
StatsAfter(st, trades) ==
    IF trades = <<>> THEN st
    ELSE LET t == Head(trades)
             r == RouteOf(t)
             old == {x \in st.routes : x.route = r}
             cur == IF old = {} THEN [route |-> r, n |-> 0, p |-> Zero] ELSE CHOOSE x \in old : TRUE
             new == [cur EXCEPT !.n = @ + 1, !.p[t.denom] = @ + t.profit]
         IN StatsAfter([n |-> st.n + 1, byDenom |-> [st.byDenom EXCEPT ![t.denom] = @ + t.profit],
                        routes |-> (st.routes \ old) \cup {new}], Tail(trades))

\* sws: the swaps the post handler answers - those of the transaction (PostHandle)
PostHandleWith(sws, o) ==
    /\ tx.on
    /\ IF tx.ok
       THEN /\ PostOK(cfg, idx, blk, sws, o)
            /\ stats' = StatsAfter(stats, o.trades)
            /\ bank' = [bank EXCEPT !.mod = [d \in Denoms |-> @[d] + ProfitOf(o.trades, d)]]
            /\ blk' = [blk EXCEPT !.used = @ + o.delta]
            /\ last' = [a |-> "post", ok |-> TRUE, trades |-> o.trades, delta |-> o.delta, budget |-> Budget(cfg, blk),
                        nswaps |-> Len(tx.swaps)]
            /\ UNCHANGED <<cfg, idx, funded>>
       ELSE \* the whole transaction - messages and anything the post handler did on top of them - is rolled back
            /\ cfg' = tx.pre.cfg /\ idx' = tx.pre.idx /\ funded' = tx.pre.funded
            /\ bank' = [tx.pre.bank EXCEPT !.usr = [u \in UserNames |-> Zero]]
            /\ last' = [a |-> "post", ok |-> FALSE, trades |-> <<>>, delta |-> 0, budget |-> 0, nswaps |-> 0]
            /\ UNCHANGED <<stats, blk>>
    /\ tx' = NoTx
PostHandle(o) == PostHandleWith(tx.swaps, o)

---------------------------------------------------------------------------
NextBlock ==
    /\ ~tx.on
    /\ blk' = [h |-> blk.h + 1, used |-> 0]
    /\ last' = [a |-> "block"]
    /\ UNCHANGED <<cfg, idx, stats, bank, funded, tx>>

\* P7 / P9: the day-epoch hook
\* floor(x * s / 100), written so that no intermediate result leaves TLC's 32-bit integers
DevShare(x, days) == (x \div 100) * Split(days) + ((x % 100) * Split(days)) \div 100
EpochEnd(ident) ==
    /\ ~tx.on
    /\ IF cfg.enabled /\ ident = "day"
       THEN LET B == BaseDenoms(cfg)
                share(d) == IF d \in B THEN DevShare(bank.mod[d], cfg.days) ELSE 0
                rest(d) == IF d \in B THEN bank.mod[d] - share(d) ELSE 0
            IN /\ bank' = IF cfg.dev \notin DevNames THEN bank     \* nobody to pay yet: everything stays in the module account
                          ELSE [bank EXCEPT
                            !.mod = [d \in Denoms |-> IF d \in B THEN 0 ELSE @[d]],
                            !.dev = [n \in DevNames |-> [d \in Denoms |-> @[n][d] + (IF n = cfg.dev THEN share(d) ELSE 0)]],
                            !.null = [d \in Denoms |-> @[d] + (IF d = Osmo THEN rest(d) ELSE 0)],
                            !.cp = [d \in Denoms |-> @[d] + (IF d # Osmo THEN rest(d) ELSE 0)]]
               /\ cfg' = [cfg EXCEPT !.days = @ + 1]
               /\ idx' = Refresh(pools, B)
       ELSE UNCHANGED <<bank, cfg, idx>>
    /\ last' = [a |-> "epoch", ident |-> ident]
    /\ UNCHANGED <<blk, stats, funded, tx>>

\* governance
SetEnabled(on) ==
    /\ ~tx.on
    /\ cfg' = [cfg EXCEPT !.enabled = on]
    /\ last' = [a |-> "enable", on |-> on]
    /\ UNCHANGED <<idx, blk, stats, bank, funded, tx>>
SetAdmin(who) ==
    /\ ~tx.on
    /\ cfg' = [cfg EXCEPT !.admin = who]
    /\ last' = [a |-> "setadmin", who |-> who]
    /\ UNCHANGED <<idx, blk, stats, bank, funded, tx>>

\* environment: a pool is created (np = the pools after it, the new pool last)
CreatePool(np) ==
    /\ ~tx.on
    /\ Len(np) = Len(pools) + 1
    /\ \A i \in DOMAIN pools : np[i].kind = pools[i].kind /\ np[i].a = pools[i].a /\ np[i].b = pools[i].b
    /\ pools' = np
    /\ idx' = AfterCreate(idx, np, BaseDenoms(cfg), Len(np))
    /\ last' = [a |-> "pool"]
    /\ UNCHANGED <<cfg, blk, stats, bank, funded, tx>>
\* environment: liquidity moves (liquidity providers, the swaps themselves)
Liquidity(np) ==
    /\ ~tx.on
    /\ Len(np) = Len(pools)
    /\ \A i \in DOMAIN pools : np[i].kind = pools[i].kind /\ np[i].a = pools[i].a /\ np[i].b = pools[i].b
    /\ pools' = np
    /\ last' = [a |-> "lp"]
    /\ UNCHANGED <<cfg, idx, blk, stats, bank, funded, tx>>

---------------------------------------------------------------------------
(* state properties *)
TypeOK ==
    /\ \A i \in DOMAIN pools : pools[i].kind \in {"bal", "stable", "cl"} /\ {pools[i].a, pools[i].b} \subseteq Denoms
    /\ blk.used >= 0 /\ stats.n >= 0
    /\ \A d \in Denoms : bank.mod[d] >= 0 /\ bank.null[d] >= 0 /\ bank.cp[d] >= 0 /\ stats.byDenom[d] >= 0 /\ funded[d] >= 0

ConfigWellFormed == CfgWellFormed(cfg)                                                     \* P8

IndexSound ==                                                                              \* P9
    /\ \A e \in idx : e.b \in BaseDenoms(cfg) /\ e.p \in PoolIds /\ Pairs(pools, e.p, e.b, e.o)
    /\ \A e, f \in idx : (e.b = f.b /\ e.o = f.o) => e = f

StatsAddUp ==                                                                              \* P6
    /\ stats.n = SumN(stats.routes)
    /\ \A d \in Denoms : stats.byDenom[d] = SumP(stats.routes, d)
    /\ \A x, y \in stats.routes : x.route = y.route => x = y
    /\ \A x \in stats.routes : x.n >= 1

ProfitsAccounted ==                                                                        \* P7 (conservation)
    \A d \in Denoms : stats.byDenom[d] + funded[d]
                        = bank.mod[d] + bank.null[d] + bank.cp[d] + bank.dev["dev"][d] + bank.dev["dev2"][d]

SupplyConstant == \A d \in Denoms : bank.sup[d] = 0                                        \* P5

(* action properties (a step to last.a = "init" starts another history: trace specs concatenate them) *)
Post == last'.a = "post"
Same == last'.a # "init"
PoolsStatic == [][ Same => /\ Len(pools') >= Len(pools)
                           /\ \A i \in DOMAIN pools : pools'[i].kind = pools[i].kind /\ pools'[i].a = pools[i].a /\ pools'[i].b = pools[i].b
                           /\ (Len(pools') > Len(pools) => last'.a = "pool") ]_vars
QuietWhenOff ==                                                                            \* P2 / P7
    [][ (~cfg.enabled /\ last'.a \in {"post", "epoch"} /\ (last'.a = "post" => last'.ok))
            => UNCHANGED <<stats, blk, idx>> /\ bank'.mod = bank.mod /\ bank'.dev = bank.dev ]_vars
FailedTxLeavesNothing ==                                                                   \* P2 / P8
    [][ (Post /\ ~last'.ok) => /\ cfg' = tx.pre.cfg /\ idx' = tx.pre.idx
                               /\ \A f \in {"mod", "null", "cp", "dev", "sup"} : bank'[f] = tx.pre.bank[f]
                               /\ \A u \in UserNames : \A d \in Denoms : bank'.usr[u][d] = 0
                               /\ UNCHANGED <<stats, blk>> ]_vars
BudgetRespected ==                                                                         \* P3
    [][ Post => /\ blk'.used - blk.used <= cfg.maxTx
                /\ (blk'.used > blk.used => blk'.used <= cfg.maxBlock) ]_vars
BlockStartsAtZero == [][ blk'.h # blk.h => (last'.a \in {"block", "init"} /\ blk'.used = 0) ]_vars                            \* P3
ModuleNeverLoses ==                                                                        \* P5
    [][ Post => \A d \in Denoms : bank'.mod[d] >= bank.mod[d] ]_vars
OnlyTradesCount ==                                                                         \* P6
    [][ (Same /\ stats' # stats) => (Post /\ stats'.n = stats.n + Len(last'.trades) /\ Len(last'.trades) >= 1) ]_vars
OthersUntouchedByPost ==                                                                   \* P5
    [][ (Post /\ last'.ok) => (bank'.dev = bank.dev /\ bank'.null = bank.null /\ bank'.cp = bank.cp /\ bank'.usr = bank.usr
                                /\ cfg' = cfg /\ idx' = idx) ]_vars
DaysCount ==                                                                               \* P7
    [][ (Same /\ cfg'.days # cfg.days) => (last'.a = "epoch" /\ last'.ident = "day" /\ cfg.enabled /\ cfg'.days = cfg.days + 1) ]_vars
EpochPaysEverything ==                                                                     \* P7
    [][ (last'.a = "epoch" /\ last'.ident = "day" /\ cfg.enabled)
            => /\ cfg.dev \in DevNames => \A d \in BaseDenoms(cfg) : bank'.mod[d] = 0
               /\ cfg'.days = cfg.days + 1
               /\ IsRefreshed(idx', pools, BaseDenoms(cfg)) ]_vars
IndexOnlyMovesWhenStated ==                                                                \* P9
    [][ (Same /\ idx' # idx) => \/ last'.a \in {"epoch", "pool"}
                      \/ (last'.a = "deliver" /\ \E i \in DOMAIN last'.msgs : last'.msgs[i].k = "bases")
                      \/ (Post /\ ~last'.ok) ]_vars
AdminOnly ==                                                                               \* P8
    [][ (last'.a = "deliver" /\ cfg' # cfg)
            => \E i \in DOMAIN last'.msgs : last'.msgs[i].k \in AdminKinds /\ last'.msgs[i].by = cfg.admin ]_vars
=============================================================================
