----------------------------- MODULE CLSolvency -----------------------------
(***************************************************************************)
(* C01 at design level: why pool-favouring rounding implies solvency.       *)
(* A ledger with a token reserve R (whole units, written in tenths so that  *)
(* fractions exist) and exact entitlements owed[i] (tenths).  Every entry   *)
(* point of the real pool moves an exact value v and rounds the token       *)
(* amount that actually changes hands:                                      *)
(*   on the way in  (create position, swap in, fund rewards) UP,            *)
(*   on the way out (withdraw, swap out, claim)              DOWN.          *)
(* InUp / OutDown are constants so that TLC can also show the invariant     *)
(* breaks when one direction is flipped (non-vacuity witness, run by the    *)
(* thorough tier with the expectation that it FAILS).                       *)
(***************************************************************************)
EXTENDS Integers, FiniteSets

CONSTANTS Users, Vals, MaxOwed, MaxDust, InUp, OutDown

VARIABLES R, owed

Ceil10(v)  == ((v + 9) \div 10) * 10
Floor10(v) == (v \div 10) * 10
RoundIn(v)  == IF InUp THEN Ceil10(v) ELSE Floor10(v)
RoundOut(v) == IF OutDown THEN Floor10(v) ELSE Ceil10(v)

RECURSIVE SumOver(_, _)
SumOver(f, S) == IF S = {} THEN 0 ELSE LET x == CHOOSE x \in S : TRUE IN f[x] + SumOver(f, S \ {x})

Init == R = 0 /\ owed = [u \in Users |-> 0]

\* value v enters for user u (position creation, or a swap/fee credited to u's liquidity)
Deposit(u, v) == /\ owed[u] + v <= MaxOwed
                 /\ R + RoundIn(v) - SumOver(owed, Users) - v <= MaxDust     \* model bound on accumulated dust
                 /\ R' = R + RoundIn(v)
                 /\ owed' = [owed EXCEPT ![u] = @ + v]

\* u takes out v of its entitlement (partial/full withdrawal, claim, swap out)
Withdraw(u, v) == /\ v <= owed[u]
                  /\ RoundOut(v) <= R          \* the bank refuses overdrafts
                  /\ R' = R - RoundOut(v)
                  /\ owed' = [owed EXCEPT ![u] = @ - v]

\* value moves between users without tokens moving (price moves, fee accrual re-attribution)
Shift(u, w, v) == /\ u # w /\ v <= owed[u] /\ owed[w] + v <= MaxOwed
                  /\ owed' = [owed EXCEPT ![u] = @ - v, ![w] = @ + v]
                  /\ UNCHANGED R

Next == \E u \in Users, v \in Vals : Deposit(u, v) \/ Withdraw(u, v) \/ (\E w \in Users : Shift(u, w, v))
Spec == Init /\ [][Next]_<<R, owed>>

\* the reserve covers every entitlement ...
Solvent == R >= SumOver(owed, Users)
\* ... hence everybody can exit in full, in any order, and what is left is non-negative dust
Drainable == R >= SumOver([u \in Users |-> RoundOut(owed[u])], Users)
=============================================================================
