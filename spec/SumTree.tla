------------------------------- MODULE SumTree -------------------------------
(***************************************************************************)
(* osmoutils/sumtree: a B+ tree with per-child accumulations kept in a KV   *)
(* store.  Property C16: after any sequence of Set / Increase / Decrease /  *)
(* Remove (and NewTree on an existing store) every query answers what a     *)
(* plain sorted map with the same contents would answer, for every fan-out, *)
(* and the accumulations stored in the nodes equal the sums of their        *)
(* subtrees.                                                                *)
(*                                                                         *)
(* Two layers.                                                              *)
(*   abstract  `mp`    : the sorted map, a function Key -> Int on a finite  *)
(*                       domain; queries are folds over it.  This is the    *)
(*                       oracle of both binding directions.                 *)
(*   concrete  `store` : <<level, key>> -> leaf value (level 0) or child    *)
(*                       list Seq([i : Key, a : Int]) (level >= 1), with    *)
(*                       push / updateAccumulation / pull / merge /         *)
(*                       accumulationSplit / parent / leftSibling /         *)
(*                       rightSibling transcribed from node.go and tree.go  *)
(*                       (including Go's nil-versus-empty key distinction   *)
(*                       where the code depends on it).  `Fix` switches the *)
(*                       proposed repairs on; Fix = {} is the code as it is. *)
(* Keys are finite sequences of naturals (bytes) in lexicographic order.    *)
(* An optional key (open range end, Go nil) is a sequence of length 0 or 1  *)
(* holding the key: <<>> = nil, <<k>> = key k.                              *)
(***************************************************************************)
EXTENDS Integers, Sequences, FiniteSets, TLC

CONSTANTS M,     \* fan-out (node capacity)
          Fix    \* subset of {"total", "splitguard", "nilroot", "keepempty"}

VARIABLES mp, store

svars == <<mp, store>>

---------------------------------------------------------------------------
(* keys *)
RECURSIVE KeyLt(_, _)
KeyLt(a, b) == IF b = <<>> THEN FALSE
               ELSE IF a = <<>> THEN TRUE
               ELSE IF a[1] # b[1] THEN a[1] < b[1]
               ELSE KeyLt(Tail(a), Tail(b))
KeyLe(a, b) == a = b \/ KeyLt(a, b)

MinKey(S) == CHOOSE x \in S : \A y \in S : KeyLe(x, y)
MaxKey(S) == CHOOSE x \in S : \A y \in S : KeyLe(y, x)

RECURSIVE SortKeys(_)
SortKeys(S) == IF S = {} THEN <<>> ELSE LET mn == MinKey(S) IN <<mn>> \o SortKeys(S \ {mn})

Nil == <<>>
Some(k) == <<k>>
GeOpt(k, s) == s = Nil \/ KeyLe(s[1], k)
LeOpt(k, e) == e = Nil \/ KeyLe(k, e[1])
LtOpt(k, e) == e = Nil \/ KeyLt(k, e[1])

RECURSIVE SumSet(_, _)
SumSet(f, S) == IF S = {} THEN 0 ELSE LET x == CHOOSE x \in S : TRUE IN f[x] + SumSet(f, S \ {x})

---------------------------------------------------------------------------
(* abstract layer: the sorted map and its queries *)
AKeys(f) == DOMAIN f
AVal(f, k) == IF k \in DOMAIN f THEN f[k] ELSE 0

AGet(f, k)       == AVal(f, k)
APrefix(f, k)    == SumSet(f, {x \in DOMAIN f : KeyLe(x, k)})
ASubset(f, s, e) == SumSet(f, {x \in DOMAIN f : GeOpt(x, s) /\ LeOpt(x, e)})
ASplit(f, k)     == << SumSet(f, {x \in DOMAIN f : KeyLt(x, k)}), AVal(f, k),
                       SumSet(f, {x \in DOMAIN f : KeyLt(k, x)}) >>
ATotal(f)        == SumSet(f, DOMAIN f)
\* ordered iteration from s (inclusive) to e (exclusive), as <<key, value>> pairs
AIter(f, s, e)   == LET ks == SortKeys({x \in DOMAIN f : GeOpt(x, s) /\ LtOpt(x, e)})
                    IN [j \in 1..Len(ks) |-> <<ks[j], f[ks[j]]>>]
Reverse(sq)      == [j \in 1..Len(sq) |-> sq[Len(sq) + 1 - j]]
\* "keys between start and end" presupposes start <= end; for an inverted range the
\* property states nothing (the specification leaves the answer open)
ProperRange(s, e) == s = Nil \/ e = Nil \/ KeyLe(s[1], e[1])

MapSet(f, k, v) == [x \in DOMAIN f \cup {k} |-> IF x = k THEN v ELSE f[x]]
MapRem(f, k)    == [x \in DOMAIN f \ {k} |-> f[x]]
MapOpen(f)      == IF <<>> \in DOMAIN f THEN f ELSE MapSet(f, <<>>, 0)

\* the effect of one public entry point on the map
AApply(f, a, k, v) ==
    CASE a = "set"  -> MapSet(f, k, v)
      [] a = "inc"  -> MapSet(f, k, AVal(f, k) + v)
      [] a = "dec"  -> MapSet(f, k, AVal(f, k) - v)
      [] a = "rem"  -> MapRem(f, k)
      [] a = "open" -> MapOpen(f)

EmptyMap == [x \in {} |-> 0]
Map0 == MapSet(EmptyMap, <<>>, 0)      \* NewTree on an empty store inserts the empty key with 0

---------------------------------------------------------------------------
(* concrete layer: the store and the tree algorithms *)

\* a panic inside an algorithm is a marker entry in the store value being threaded
PKey == <<-1, <<>>>>
Panicked(s) == PKey \in DOMAIN s
Panic(s) == IF Panicked(s) THEN s ELSE [x \in DOMAIN s \cup {PKey} |-> IF x = PKey THEN 0 ELSE s[x]]

Put(s, l, k, v) == [x \in DOMAIN s \cup {<<l, k>>} |-> IF x = <<l, k>> THEN v ELSE s[x]]
Del(s, l, k)    == [x \in DOMAIN s \ {<<l, k>>} |-> s[x]]

\* ptr: level, key, and whether the Go key slice is nil (matters for iterator bounds)
Ptr(l, k, n) == [l |-> l, k |-> k, n |-> n]
NoPtr == [l |-> -1, k |-> <<>>, n |-> TRUE]            \* Go: (*ptr)(nil)
Exists(s, p) == p.l >= 0 /\ <<p.l, p.k>> \in DOMAIN s
NodeOf(s, p) == IF Exists(s, p) THEN s[<<p.l, p.k>>] ELSE <<>>    \* ptr.node(): missing = no children
LevelKeys(s, l) == {d[2] : d \in {x \in DOMAIN s : x[1] = l}}

Acc(cs) == LET RECURSIVE A(_)
               A(j) == IF j = 0 THEN 0 ELSE cs[j].a + A(j - 1)
           IN A(Len(cs))

\* node.find: position of the first child that equals key or is greater (1-based);
\* Len+1 if none
FindPos(cs, k) == LET c == {j \in 1..Len(cs) : cs[j].i = k \/ KeyLt(k, cs[j].i)}
                  IN IF c = {} THEN Len(cs) + 1 ELSE CHOOSE j \in c : \A j2 \in c : j <= j2
FindMatch(cs, k) == LET j == FindPos(cs, k) IN j <= Len(cs) /\ cs[j].i = k

InsertAt(cs, j, c) == SubSeq(cs, 1, j - 1) \o <<c>> \o SubSeq(cs, j, Len(cs))
DeleteAt(cs, j)    == SubSeq(cs, 1, j - 1) \o SubSeq(cs, j + 1, Len(cs))

\* leftSibling: reverse iterator over [level start, key); a nil key means "to the end
\* of the level" in ptrReverseIterator, i.e. the whole level
LeftSibling(s, p) ==
    LET c == IF p.n THEN LevelKeys(s, p.l) ELSE {x \in LevelKeys(s, p.l) : KeyLt(x, p.k)}
    IN IF c = {} THEN NoPtr ELSE Ptr(p.l, MaxKey(c), FALSE)

\* rightSibling: iterator over [key, level end), skipping ptr itself if it exists
RightSibling(s, p) ==
    LET c == {x \in LevelKeys(s, p.l) : KeyLe(p.k, x)}
    IN IF c = {} THEN NoPtr
       ELSE IF Exists(s, p)
            THEN LET c2 == c \ {MinKey(c)} IN IF c2 = {} THEN NoPtr ELSE Ptr(p.l, MinKey(c2), FALSE)
            ELSE Ptr(p.l, MinKey(c), FALSE)

Parent(s, p) ==
    LET a == Ptr(p.l + 1, p.k, p.n) IN
    IF Exists(s, a) THEN a
    ELSE LET b == LeftSibling(s, a) IN
         IF Exists(s, b) THEN b ELSE Ptr(p.l + 1, <<>>, TRUE)

RECURSIVE UpdateAcc(_, _, _)
UpdateAcc(s, p, c) ==
    IF Panicked(s) \/ ~Exists(s, p) THEN s
    ELSE LET cs == s[<<p.l, p.k>>]
             j  == FindPos(cs, c.i)
         IN IF ~FindMatch(cs, c.i) THEN Panic(s)      \* "non existing key pushed from the child"
            ELSE LET cs2 == [cs EXCEPT ![j] = [i |-> cs[j].i, a |-> c.a]]
                     s2  == Put(s, p.l, p.k, cs2)
                 IN UpdateAcc(s2, Parent(s2, p), [i |-> p.k, a |-> Acc(cs2)])

RECURSIVE Push(_, _, _)
Push(s, p, c) ==
    IF Panicked(s) THEN s
    ELSE IF ~Exists(s, p) THEN Put(s, p.l, p.k, <<c>>)
    ELSE LET cs == s[<<p.l, p.k>>]
             j  == FindPos(cs, c.i)
         IN IF FindMatch(cs, c.i) THEN UpdateAcc(s, p, c)
            ELSE LET cs2    == InsertAt(cs, j, c)
                     parent == Parent(s, p)
                 IN IF Len(cs2) > M
                    THEN LET split == (M \div 2) + 1
                         IN IF split + 1 > Len(cs2) THEN Panic(s)    \* index out of range (M < 1 only)
                            ELSE
                            LET ln == SubSeq(cs2, 1, split)
                                rn == SubSeq(cs2, split + 1, Len(cs2))
                                rk == cs2[split + 1].i
                                s1 == Put(s, p.l, rk, rn)
                            IN IF ~Exists(s1, parent)
                               THEN Put(Put(s1, parent.l, parent.k,
                                            << [i |-> p.k, a |-> Acc(ln)], [i |-> rk, a |-> Acc(rn)] >>),
                                        p.l, p.k, ln)
                               ELSE LET s2 == Push(s1, parent, [i |-> rk, a |-> Acc(rn)])
                                        s3 == IF Panicked(s2) THEN s2
                                              ELSE UpdateAcc(s2, Parent(s2, p), [i |-> p.k, a |-> Acc(ln)])
                                    IN IF Panicked(s3) THEN s3 ELSE Put(s3, p.l, p.k, ln)
                    ELSE LET s2 == UpdateAcc(s, parent, [i |-> p.k, a |-> Acc(cs2)])
                         IN IF Panicked(s2) THEN s2 ELSE Put(s2, p.l, p.k, cs2)

RECURSIVE Pull(_, _, _)
Pull(s, p, k) ==
    IF Panicked(s) \/ ~Exists(s, p) THEN s
    ELSE LET cs == s[<<p.l, p.k>>]
             j  == FindPos(cs, k)
         IN IF ~FindMatch(cs, k) THEN Panic(s)         \* "pulling non existing child"
            ELSE LET cs2 == DeleteAt(cs, j) IN
                 IF Len(cs2) > 0 \/ "keepempty" \in Fix
                 THEN LET s1 == Put(s, p.l, p.k, cs2)
                      IN UpdateAcc(s1, Parent(s1, p), [i |-> p.k, a |-> Acc(cs2)])
                 ELSE LET left   == LeftSibling(s, p)
                          right  == RightSibling(s, p)
                          parent == Parent(s, p)
                          s2     == Pull(Del(s, p.l, p.k), parent, p.k)
                      IN IF Panicked(s2) \/ ~(Exists(s2, left) /\ Exists(s2, right)) THEN s2
                         ELSE LET par == Parent(s2, left)
                              IN IF par.k # Parent(s2, right).k THEN s2
                                 ELSE LET ln == NodeOf(s2, left)
                                          rn == NodeOf(s2, right)
                                      IN IF Len(ln) + Len(rn) >= M THEN s2
                                         ELSE LET s3 == Del(Put(s2, left.l, left.k, ln \o rn), right.l, right.k)
                                                  s4 == Pull(s3, par, right.k)
                                              IN \* the code passes leftnode.accumulate(), computed from the
                                                 \* child list before the merge
                                                 UpdateAcc(s4, par, [i |-> left.k, a |-> Acc(ln)])

\* public mutations; kn = the Go key is nil (only NewTree's Set(nil, 0))
CSet(s, k, kn, v) ==
    LET s1 == Put(s, 0, k, v)
        lp == Ptr(0, k, kn)
    IN Push(s1, Parent(s1, lp), [i |-> k, a |-> v])

CGet(s, k) == IF <<0, k>> \in DOMAIN s THEN s[<<0, k>>] ELSE 0

CRemove(s, k) ==
    IF <<0, k>> \notin DOMAIN s THEN s
    ELSE LET parent == Parent(s, Ptr(0, k, FALSE)) IN Pull(Del(s, 0, k), parent, k)

COpen(s) == IF <<0, <<>>>> \in DOMAIN s THEN s ELSE CSet(s, <<>>, TRUE, 0)

\* a panicking call is rolled back by the caller (transaction semantics)
Commit(s, s2) == IF Panicked(s2) THEN s ELSE s2

CApply(s, a, k, v) ==
    CASE a = "set"  -> CSet(s, k, FALSE, v)
      [] a = "inc"  -> CSet(s, k, FALSE, CGet(s, k) + v)
      [] a = "dec"  -> CSet(s, k, FALSE, CGet(s, k) - v)
      [] a = "rem"  -> CRemove(s, k)
      [] a = "open" -> COpen(s)

EmptyStore == [x \in {} |-> 0]
Store0 == COpen(EmptyStore)

\* queries; result [ok |-> FALSE] = the call panics
Levels(s) == {d[1] : d \in DOMAIN s}
Root(s) == IF DOMAIN s = {} THEN NoPtr
           ELSE LET top == CHOOSE l \in Levels(s) : \A l2 \in Levels(s) : l2 <= l
                IN Ptr(top, MaxKey(LevelKeys(s, top)), FALSE)

Bad == [ok |-> FALSE, l |-> 0, x |-> 0, r |-> 0]
RECURSIVE AccSplit(_, _, _, _)
AccSplit(s, lvl, nk, key) ==
    IF lvl = 0
    THEN IF <<0, nk>> \notin DOMAIN s THEN Bad                       \* nil leaf dereference
         ELSE LET v == s[<<0, nk>>] IN
              [ok |-> TRUE, l |-> IF KeyLt(nk, key) THEN v ELSE 0,
                            x |-> IF nk = key THEN v ELSE 0,
                            r |-> IF KeyLt(key, nk) THEN v ELSE 0]
    ELSE LET cs  == IF <<lvl, nk>> \in DOMAIN s THEN s[<<lvl, nk>>] ELSE <<>>
             j   == FindPos(cs, key)
             idx == IF FindMatch(cs, key) THEN j ELSE j - 1
         IN IF idx < 1
            THEN IF "splitguard" \in Fix
                 THEN [ok |-> TRUE, l |-> 0, x |-> 0, r |-> Acc(cs)]   \* every child is right of key
                 ELSE Bad                                              \* index out of range [-1]
            ELSE LET sub == AccSplit(s, lvl - 1, cs[idx].i, key)
                 IN IF ~sub.ok THEN Bad
                    ELSE [ok |-> TRUE,
                          l |-> sub.l + Acc(SubSeq(cs, 1, idx - 1)),
                          x |-> sub.x,
                          r |-> sub.r + Acc(SubSeq(cs, idx + 1, Len(cs)))]

RootSplit(s, key) ==
    LET rt == Root(s) IN
    IF rt = NoPtr
    THEN IF "nilroot" \in Fix THEN [ok |-> TRUE, l |-> 0, x |-> 0, r |-> 0] ELSE Bad
    ELSE AccSplit(s, rt.l, rt.k, key)

Num(okk, v) == [ok |-> okk, v |-> v]
CSplit(s, k) == LET a == RootSplit(s, k) IN Num(a.ok, <<a.l, a.x, a.r>>)
CSubset(s, st, en) ==
    IF st = Nil /\ en = Nil /\ "total" \in Fix
    THEN LET a == RootSplit(s, <<>>) IN Num(a.ok, a.l + a.x + a.r)
    ELSE IF st = Nil
    THEN LET a == RootSplit(s, IF en = Nil THEN <<>> ELSE en[1]) IN Num(a.ok, a.l + a.x)
    ELSE IF en = Nil
    THEN LET a == RootSplit(s, st[1]) IN Num(a.ok, a.x + a.r)
    ELSE LET a == RootSplit(s, st[1])
             b == RootSplit(s, en[1])
         IN Num(a.ok /\ b.ok, a.x + a.r - b.r)
CPrefix(s, k) == CSubset(s, Nil, Some(k))
CTotal(s)     == CSubset(s, Nil, Nil)
CLeaves(s)    == [k \in LevelKeys(s, 0) |-> s[<<0, k>>]]       \* what ordered iteration reads

---------------------------------------------------------------------------
(* structure of a store: consistency of the aggregates with the leaves *)
Inner(s) == {d \in DOMAIN s : d[1] >= 1}

RECURSIVE SubtreeSum(_, _, _)
SubtreeSum(s, l, k) ==       \* sum of the leaves below node <<l, k>> following child lists
    IF <<l, k>> \notin DOMAIN s THEN 0
    ELSE IF l = 0 THEN s[<<0, k>>]
    ELSE LET cs == s[<<l, k>>]
             RECURSIVE F(_)
             F(j) == IF j = 0 THEN 0 ELSE SubtreeSum(s, l - 1, cs[j].i) + F(j - 1)
         IN F(Len(cs))

\* the defects, from manifest to latent; "" = consistent.  With the "keepempty" repair
\* emptied nodes stay in the tree (with no children and accumulation 0), so they are legal.
StructDefect(s) ==
    LET inner == Inner(s)
        top   == IF inner = {} THEN 0 ELSE CHOOSE l \in Levels(s) : \A l2 \in Levels(s) : l2 <= l
        keep  == "keepempty" \in Fix
        full  == {d \in inner : Len(s[d]) > 0}
    IN
    IF LevelKeys(s, 0) = {} /\ ~keep THEN (IF inner = {} THEN "" ELSE "nodes-without-leaves")
    ELSE IF inner = {} THEN "leaves-without-root"
    ELSE IF \E l \in 1..top : LevelKeys(s, l) = {} THEN "level-gap"
    ELSE IF Cardinality(LevelKeys(s, top)) # 1 THEN "several-roots"
    ELSE IF ~keep /\ full # inner THEN "empty-node"
    ELSE IF \E d \in full : KeyLt(s[d][1].i, d[2]) THEN "child-below-node-key"
    ELSE IF \E d \in full : \E j \in 2..Len(s[d]) : ~KeyLt(s[d][j - 1].i, s[d][j].i) THEN "children-unsorted"
    ELSE IF \E d \in full : \E j \in 1..Len(s[d]) : <<d[1] - 1, s[d][j].i>> \notin DOMAIN s THEN "dangling-child"
    ELSE IF \E d1 \in full : \E d2 \in full : d1 # d2 /\ d1[1] = d2[1] /\
               \E j1 \in 1..Len(s[d1]) : \E j2 \in 1..Len(s[d2]) : s[d1][j1].i = s[d2][j2].i
         THEN "child-referenced-twice"
    ELSE IF \E d \in full : \E j \in 1..Len(s[d]) : s[d][j].a # SubtreeSum(s, d[1] - 1, s[d][j].i)
         THEN "accumulation-mismatch"
    ELSE IF \E l \in 0..(top - 1) : \E k \in LevelKeys(s, l) :
               ~\E d \in full : d[1] = l + 1 /\ \E j \in 1..Len(s[d]) : s[d][j].i = k
         THEN "orphan-node"
    ELSE IF \E d1 \in full : \E d2 \in inner : d1[1] = d2[1] /\ KeyLt(d1[2], d2[2]) /\
               ~KeyLt(s[d1][Len(s[d1])].i, d2[2])
         THEN "nodes-overlap"
    ELSE IF \E d \in inner : d[1] >= 2 /\ <<d[1] - 1, d[2]>> \notin DOMAIN s THEN "separator-without-node"
    ELSE ""

\* not a defect: a node whose key is smaller than its first child (first child removed)
StaleKey(s) == \E d \in Inner(s) : Len(s[d]) > 0 /\ s[d][1].i # d[2]

---------------------------------------------------------------------------
(* the specification: both layers move together *)
Init == mp = Map0 /\ store = Store0

Do(a, k, v) == /\ mp' = AApply(mp, a, k, v)
               /\ store' = Commit(store, CApply(store, a, k, v))

(* properties, over a finite set of probe keys *)
Opts(P) == {Nil} \cup {Some(k) : k \in P}

LeavesAgree == CLeaves(store) = mp

QueriesAgreeOn(P, withTotal) ==
    /\ \A k \in P : /\ CGet(store, k) = AGet(mp, k)
                    /\ CPrefix(store, k) = Num(TRUE, APrefix(mp, k))
                    /\ CSplit(store, k) = Num(TRUE, ASplit(mp, k))
    /\ \A st \in Opts(P) : \A en \in Opts(P) :
          (ProperRange(st, en) /\ (withTotal \/ ~(st = Nil /\ en = Nil)))
              => CSubset(store, st, en) = Num(TRUE, ASubset(mp, st, en))
    /\ withTotal => CTotal(store) = Num(TRUE, ATotal(mp))

Consistent == StructDefect(store) = ""
=============================================================================
