------------------------------- MODULE TxFees -------------------------------
(***************************************************************************)
(* x/txfees: the fee-token registry, the mempool / consensus fee floor of   *)
(* the ante handler and the accounting of collected transaction fees.       *)
(* Extra check X07.  (X06 / TakerFeeDist.tla specifies what happens to the   *)
(* collected fees at the end of an epoch; this specification stops there.)   *)
(*                                                                         *)
(* WHAT A USER OF THIS CODE RELIES ON (x/txfees/README.md, the doc comments *)
(* of keeper/feedecorator.go, feetokens.go, types/constants.go, options.go  *)
(* and the evident intent; not the implementation):                          *)
(*                                                                         *)
(* Registry                                                                  *)
(*  R1 EVERY registered fee token is a denomination other than the base      *)
(*     denomination, registered with a pool that EXISTS and holds BOTH the   *)
(*     token and the base denomination - in every reachable state.           *)
(*  R2 A governance update (UpdateFeeTokenProposal) and the MsgSetFeeTokens   *)
(*     message are applied entry by entry: pool id 0 REMOVES the entry (a     *)
(*     no-op when there is none), any other pool id REGISTERS or REPLACES it; *)
(*     a list with an entry that cannot be registered (R1) changes NOTHING,   *)
(*     a list of registrable entries is ALWAYS accepted.                      *)
(*  R3 ONLY governance and the senders whitelisted in the module parameters   *)
(*     change the registry; nothing else EVER does (transactions, prices,     *)
(*     blocks).                                                               *)
(*  R4 The base denomination is fixed at genesis and NEVER changes.           *)
(*  R5 The queries answer EXACTLY the registry: FeeTokens = all entries and   *)
(*     nothing else; DenomPoolId(d) = the registered pool, an error for every *)
(*     other denomination (the base denomination included); BaseDenom = the   *)
(*     base denomination; DenomSpotPrice(d) = the registered pool and ITS     *)
(*     current quote of one unit of d in base units.                          *)
(*                                                                         *)
(* Fee floor (ante handler)                                                  *)
(*  F1 A transaction that is let through NEVER carries fee coins of more than *)
(*     one denomination, and that denomination is ALWAYS the base denomination*)
(*     or a registered fee token ("any token not on this list cannot be       *)
(*     provided as a tx fee") - in every mode.                                *)
(*  F2 Mempool (CheckTx and the RecheckTx after every block): a transaction   *)
(*     enters / stays ONLY IF its fee, converted at the registered pool's     *)
(*     CURRENT quote, is worth at least ceil(price x gas) base units, where   *)
(*     price = max(consensus minimum, the node's min gas price for the base   *)
(*     denomination, the node's high-gas price when gas >= the high-gas       *)
(*     threshold, the node's arbitrage price when the messages look like an   *)
(*     arbitrage), and ONLY IF gas <= the node's per-transaction maximum; and *)
(*     EVERY transaction that meets this (and can pay, and is properly signed)*)
(*     is let in.  The conversion is to the nearest base unit: what is let    *)
(*     through is NEVER short by more than half a base unit.                  *)
(*  F3 Block execution (DeliverTx): ONLY the consensus minimum applies; the   *)
(*     node-local settings (min gas price, arbitrage / high-gas price,        *)
(*     maximum gas) NEVER decide whether a delivered transaction is valid.    *)
(*  F4 A transaction without a fee passes ONLY where the applicable price is  *)
(*     zero (simulation; a chain / node whose minimum is zero).               *)
(*                                                                         *)
(* Accounting                                                                *)
(*  A1 A transaction that passes the ante phase pays EXACTLY its stated fee,  *)
(*     EXACTLY once, from its FIRST signer; a base-denomination fee lands in  *)
(*     the fee collector, any other fee token in the non-native fee           *)
(*     collector; NOTHING is minted or lost (every ledger adds up to the same *)
(*     total before and after, no ledger is ever negative).                   *)
(*  A2 A transaction whose messages fail AFTER the ante phase still pays its  *)
(*     fee and has no other effect; a transaction refused IN the ante phase   *)
(*     (wrong denomination, too little, cannot pay, bad signature) pays       *)
(*     NOTHING and has no effect at all.                                      *)
(*  A3 CheckTx / RecheckTx / simulation NEVER change the committed state: an  *)
(*     accepted CheckTx reserves the fee in the node's mempool view only, and *)
(*     the view is reset to the committed state by every commit.              *)
(*                                                                         *)
(* Arithmetic                                                                *)
(*  C1 CalcFeeSpotPrice(d) is the registered pool's quote with the base       *)
(*     denomination as quote asset and d as base asset (units of base per     *)
(*     unit of d) - not the inverse, not another pool's.                      *)
(*  C2 ConvertToBaseToken: a base-denomination coin is returned unchanged; a  *)
(*     registered token x d is worth the integer nearest to x times the       *)
(*     quote (18 decimals, truncated); anything else is an error.             *)
(*                                                                         *)
(* Which messages execute successfully, the pools' own price arithmetic      *)
(* (C04), ids, error texts and events are INPUTS taken from the log.         *)
(*                                                                         *)
(* Numbers are abstract (NAdd, ...): native integers in the bounded model,   *)
(* BigNum on recorded executions.  Gas prices are fixed point with unit PUnit *)
(* (2 in the bounded model, 10^18 in the code); a quote is a pair <<n, d>>.  *)
(***************************************************************************)
EXTENDS Integers, Sequences, FiniteSets

CONSTANTS NAdd(_, _), NSub(_, _), NMul(_, _), NLe(_, _), NFloorDiv(_, _), NZero, NOne, PUnit

VARIABLES
    cf,      \* configuration of the history, never changes:
             \*   [id : number of the history, denoms : set of denominations, payers : set, setters : subset of payers (whitelisted),
             \*    min, arb, high, cmin : gas prices (unit PUnit), hthr, maxgas : gas]
    base,    \* the base denomination
    reg,     \* registry: [denoms -> pool id], 0 = not registered
    pools,   \* environment: [pool id -> [denoms : set, q : [denoms of the pool other than base -> <<n, d>>]]]
             \*   q[d] = the pool's current quote of one unit of d in base units (pools holding the base denomination)
    bal,     \* committed ledgers [Accts -> [denoms -> Num]]
    chk,     \* the same ledgers as the node's mempool (check state) sees them
    sent,    \* [payers -> Nat]: messages of that signer executed (the only effect of a message here)
    last     \* the last call and its outcome (so that properties can speak about it)

vars == <<cf, base, reg, pools, bal, chk, sent, last>>

Denoms == cf.denoms
Payers == cf.payers
Accts  == Payers \cup {"coll", "nn", "rest"}      \* fee collector, non-native fee collector, everybody else
Modes  == {"check", "recheck", "sim", "deliver"}

NLt(a, b) == ~NLe(b, a)
NMax(a, b) == IF NLe(a, b) THEN b ELSE a
NTwo == NAdd(NOne, NOne)
CeilDiv(a, b) == NFloorDiv(NAdd(a, NSub(b, NOne)), b)

RECURSIVE SumOver(_, _)
SumOver(S, f) == IF S = {} THEN NZero ELSE LET x == CHOOSE y \in S : TRUE IN NAdd(f[x], SumOver(S \ {x}, f))
Total(b, d) == SumOver(DOMAIN b, [a \in DOMAIN b |-> b[a][d]])

Move(b, from, to, d, x) ==
    [a \in DOMAIN b |-> [e \in DOMAIN b[a] |->
        IF e # d \/ from = to THEN b[a][e]
        ELSE IF a = from THEN NSub(b[a][e], x) ELSE IF a = to THEN NAdd(b[a][e], x) ELSE b[a][e]]]

---------------------------------------------------------------------------
(* registry *)
HoldsPair(p, d) == p \in DOMAIN pools /\ d \in pools[p].denoms /\ base \in pools[p].denoms
Registrable(ft) == ft.p = 0 \/ (ft.d # base /\ HoldsPair(ft.p, ft.d))
Registered(d) == d \in DOMAIN reg /\ reg[d] # 0
Allowed(d) == d = base \/ Registered(d)

RECURSIVE ApplyList(_, _)
ApplyList(r, fts) ==
    IF fts = <<>> THEN r
    ELSE LET ft == Head(fts) IN
         ApplyList(IF ft.d \in DOMAIN r THEN [r EXCEPT ![ft.d] = ft.p] ELSE r, Tail(fts))
AllRegistrable(fts) == \A i \in 1..Len(fts) : Registrable(fts[i])
\* entries naming a denomination outside cf.denoms can only be removals (nothing holds them)
Known(fts) == \A i \in 1..Len(fts) : fts[i].d \in Denoms \/ fts[i].p = 0

\* the current quote of a registered token
Quote(d) == pools[reg[d]].q[d]

Call(e, args, res) == [e |-> e, args |-> args, res |-> res]

Gov(fts, ok) ==
    /\ ok = (AllRegistrable(fts) /\ Known(fts))
    /\ reg' = IF ok THEN ApplyList(reg, fts) ELSE reg
    /\ last' = Call("gov", [fts |-> fts], [ok |-> ok])
    /\ chk' = bal                  \* a proposal is executed at the end of a block, which is then committed
    /\ UNCHANGED <<cf, base, pools, bal, sent>>

SetMsg(by, fts, ok) ==
    /\ ok = (by \in cf.setters /\ AllRegistrable(fts) /\ Known(fts))
    /\ reg' = IF ok THEN ApplyList(reg, fts) ELSE reg
    /\ last' = Call("setmsg", [by |-> by, fts |-> fts], [ok |-> ok])
    /\ chk' = bal                  \* (its own fee is not modelled: the message is delivered by the harness directly)
    /\ UNCHANGED <<cf, base, pools, bal, sent>>

\* environment: somebody trades against pool p, its quotes move
Trade(p, q) ==
    /\ p \in DOMAIN pools
    /\ DOMAIN q = DOMAIN pools[p].q
    /\ pools' = [pools EXCEPT ![p].q = q]
    /\ last' = Call("trade", [p |-> p], [ok |-> TRUE])
    /\ chk' = bal                  \* in some committed block
    /\ UNCHANGED <<cf, base, reg, bal, sent>>

---------------------------------------------------------------------------
(* fee floor.  tx = [who : Seq(payers), fee : Seq([d, x]), gas, arb : BOOLEAN, sig : "good" | "bad"] *)
Payer(tx) == tx.who[1]

PriceFor(tx, mode) ==
    IF mode = "sim" THEN NZero
    ELSE IF mode = "deliver" THEN cf.cmin
    ELSE LET p1 == NMax(cf.cmin, cf.min)
             p2 == IF NLe(cf.hthr, tx.gas) THEN NMax(p1, cf.high) ELSE p1
         IN IF tx.arb THEN NMax(p2, cf.arb) ELSE p2

Required(price, gas) == CeilDiv(NMul(price, gas), PUnit)

\* worth of a coin against a required amount r >= 1: "more" / "less" / "tie" (exactly r - 1/2)
Against(coin, r) ==
    IF coin.d = base THEN (IF NLe(r, coin.x) THEN "more" ELSE "less")
    ELSE LET q   == Quote(coin.d)
             lhs == NMul(NTwo, NMul(coin.x, q[1]))
             rhs == NMul(NSub(NMul(NTwo, r), NOne), q[2])
         IN IF lhs = rhs THEN "tie" ELSE IF NLe(rhs, lhs) THEN "more" ELSE "less"

OneDenom(tx) == Len(tx.fee) <= 1
DenomAllowed(tx) == Len(tx.fee) = 1 => Allowed(tx.fee[1].d)
CanPay(tx, view) == Len(tx.fee) = 1 => NLe(tx.fee[1].x, view[Payer(tx)][tx.fee[1].d])
GasOK(tx, mode) == mode \in {"check", "recheck"} => NLe(tx.gas, cf.maxgas)

\* tie : whether a fee worth exactly half a unit less than required counts as enough (nearest-integer conversion:
\* both answers are within the stated tolerance)
FloorMet(tx, mode, tie) ==
    LET p == PriceFor(tx, mode) IN
    \/ p = NZero
    \/ /\ Len(tx.fee) = 1
       /\ LET a == Against(tx.fee[1], Required(p, tx.gas)) IN a = "more" \/ (a = "tie" /\ tie)

AnteOK(tx, mode, tie) ==
    /\ OneDenom(tx) /\ DenomAllowed(tx) /\ GasOK(tx, mode)
    /\ FloorMet(tx, mode, tie)
    /\ CanPay(tx, IF mode = "deliver" THEN bal ELSE chk)
    /\ (mode # "recheck" => tx.sig = "good")

Pay(b, tx) ==
    IF Len(tx.fee) = 0 THEN b
    ELSE LET c == tx.fee[1] IN Move(b, Payer(tx), IF c.d = base THEN "coll" ELSE "nn", c.d, c.x)

Signers(tx) == {tx.who[i] : i \in 1..Len(tx.who)}

\* res : "ok" | "ante" (refused in the ante phase) | "exec" (the messages failed after the ante phase)
Deliver(tx, res, tie) ==
    /\ IF AnteOK(tx, "deliver", tie)
       THEN /\ res \in {"ok", "exec"}
            /\ bal' = Pay(bal, tx)
            /\ sent' = IF res = "ok" THEN [a \in Payers |-> IF a \in Signers(tx) THEN sent[a] + 1 ELSE sent[a]] ELSE sent
       ELSE /\ res = "ante"
            /\ UNCHANGED <<bal, sent>>
    /\ chk' = bal'                   \* the block is committed
    /\ last' = Call("tx", [mode |-> "deliver", tx |-> tx], [res |-> res])
    /\ UNCHANGED <<cf, base, reg, pools>>

Check(tx, mode, res, tie) ==
    /\ mode \in {"check", "recheck"}
    /\ IF AnteOK(tx, mode, tie)
       THEN res = "ok" /\ chk' = Pay(chk, tx)
       ELSE res = "ante" /\ chk' = chk
    /\ last' = Call("tx", [mode |-> mode, tx |-> tx], [res |-> res])
    /\ UNCHANGED <<cf, base, reg, pools, bal, sent>>

\* simulation: nothing is kept; it can only succeed for a transaction F1 lets through
Simulate(tx, res) ==
    /\ res \in {"ok", "fail"}
    /\ res = "ok" => OneDenom(tx) /\ DenomAllowed(tx)
    /\ last' = Call("tx", [mode |-> "sim", tx |-> tx], [res |-> res])
    /\ UNCHANGED <<cf, base, reg, pools, bal, chk, sent>>

\* an empty block is committed: the mempool view starts again from the committed state
Commit ==
    /\ chk' = bal
    /\ last' = Call("commit", [x |-> 0], [ok |-> TRUE])
    /\ UNCHANGED <<cf, base, reg, pools, bal, sent>>

---------------------------------------------------------------------------
(* pure entry points *)
\* ConvertToBaseToken(coin): ok and the value w
ConvertOK(coin) == coin.d = base \/ Registered(coin.d)
IsWorth(w, coin) ==
    IF coin.d = base THEN w = coin.x
    ELSE LET q == Quote(coin.d)   \* |w - x n / d| <= 1/2
             a == NMul(NTwo, NMul(coin.x, q[1]))
             b == NMul(NTwo, NMul(w, q[2]))
         IN NLe(NSub(a, q[2]), b) /\ NLe(b, NAdd(a, q[2]))

Convert(coin, ok, w) ==
    /\ ok = ConvertOK(coin)
    /\ ok => IsWorth(w, coin)
    /\ last' = Call("conv", [coin |-> coin], [ok |-> ok, w |-> IF ok THEN w ELSE NZero])
    /\ UNCHANGED <<cf, base, reg, pools, bal, chk, sent>>

\* what the queries must answer in the current state
QFeeTokensOf(r) == {[d |-> d, p |-> r[d]] : d \in {e \in DOMAIN r : r[e] # 0}}
QPoolIdOf(r, d) == IF d \in DOMAIN r /\ r[d] # 0 THEN [ok |-> TRUE, p |-> r[d]] ELSE [ok |-> FALSE, p |-> 0]
QFeeTokens == QFeeTokensOf(reg)
QPoolId(d) == QPoolIdOf(reg, d)

---------------------------------------------------------------------------
(* properties *)
RegistrySound ==                                            \* R1
    \A d \in DOMAIN reg : reg[d] # 0 => d # base /\ HoldsPair(reg[d], d)

NonNegative ==                                              \* A1
    \A a \in Accts : \A d \in Denoms : NLe(NZero, bal[a][d]) /\ NLe(NZero, chk[a][d])

SameHistory == cf' = cf      \* trace specifications concatenate histories with a reset step

BaseFixed == [][SameHistory => base' = base]_vars           \* R4

RegistryOnlyByAuthority ==                                   \* R3
    [][SameHistory /\ reg' # reg => last'.e \in {"gov", "setmsg"} /\ last'.res.ok
                                     /\ (last'.e = "setmsg" => last'.args.by \in cf.setters)]_vars

Conserved ==                                                 \* A1: nothing minted or lost
    [][SameHistory => \A d \in Denoms : Total(bal', d) = Total(bal, d)]_vars
MempoolViewConserved ==
    [][SameHistory => \A d \in Denoms : Total(chk', d) = Total(bal', d)]_vars

OnlyDeliveryChangesLedgers ==                                \* A3
    [][SameHistory /\ (bal' # bal \/ sent' # sent) => last'.e = "tx" /\ last'.args.mode = "deliver"
                                                      /\ last'.res.res # "ante"]_vars

RefusedPaysNothing ==                                        \* A2
    [][SameHistory /\ last'.e = "tx" /\ last'.res.res \in {"ante", "fail"} => bal' = bal /\ sent' = sent]_vars

PassedOneAllowedDenom ==                                     \* F1 (evaluated against the registry BEFORE the call)
    [][SameHistory /\ last'.e = "tx" /\ last'.res.res \in {"ok", "exec"} =>
          /\ OneDenom(last'.args.tx) /\ DenomAllowed(last'.args.tx)]_vars

FeeLessOnlyWhenFree ==                                       \* F4
    [][SameHistory /\ last'.e = "tx" /\ last'.res.res \in {"ok", "exec"} /\ Len(last'.args.tx.fee) = 0 =>
          PriceFor(last'.args.tx, last'.args.mode) = NZero]_vars

PaidExactlyOnceToTheRightCollector ==                        \* A1 / A2
    [][SameHistory /\ last'.e = "tx" /\ last'.args.mode = "deliver" /\ last'.res.res \in {"ok", "exec"} =>
          bal' = Pay(bal, last'.args.tx)]_vars
=============================================================================
