----------------------------- MODULE EpochsProof -----------------------------
(***************************************************************************)
(* TLAPS proof that IndInv of EpochsInd.tla is an inductive invariant of    *)
(* Spec (the same statement Apalache checks: Init => IndInv and             *)
(* IndInv /\ [Next]_vars => IndInv'), hence Spec => []Property, over         *)
(* unbounded integers.  Checked by `tlapm --threads N EpochsProof.tla` from  *)
(* bin/checks/c17.py (apalache_leg).                                         *)
(***************************************************************************)
EXTENDS EpochsInd, TLAPS

THEOREM Initiation == Init => IndInv
  BY DEF Init, IndInv, TypeOK, Grid, NotBeforeStart, SignalOrder, TickExactlyWhenDue, SnapshotGood

THEOREM Consecution == IndInv /\ [Next]_vars => IndInv'
<1> SUFFICES ASSUME IndInv, [Next]_vars PROVE IndInv'
  OBVIOUS
<1> USE DEF IndInv, TypeOK, Grid, NotBeforeStart, SignalOrder, TickExactlyWhenDue, SnapshotGood
<1>1 ASSUME NEW t \in Int, Begin(t), InitialStart(t) PROVE IndInv'
  BY <1>1 DEF Begin, Snapshot, InitialStart, DueInit
<1>2 ASSUME NEW t \in Int, Begin(t), TickWhen(DueTick(t)) PROVE IndInv'
  BY <1>2 DEF Begin, Snapshot, TickWhen, DueTick
<1>3 ASSUME NEW t \in Int, Begin(t), NothingWhen(t, DueTick(t)) PROVE IndInv'
  BY <1>3 DEF Begin, Snapshot, NothingWhen, DueInit, DueTick
<1>4 ASSUME OutOfGas PROVE IndInv'
  BY <1>4 DEF OutOfGas
<1>5 ASSUME EndBlock PROVE IndInv'
  BY <1>5 DEF EndBlock
<1>6 ASSUME Abort PROVE IndInv'
  BY <1>6 DEF Abort
<1>7 ASSUME UNCHANGED vars PROVE IndInv'
  BY <1>7 DEF vars
<1> QED
  BY <1>1, <1>2, <1>3, <1>4, <1>5, <1>6, <1>7 DEF Next, StartBlock

THEOREM Safety == Spec => []Property
<1>1 IndInv => Property
  BY DEF IndInv, Property
<1> QED
  BY <1>1, Initiation, Consecution, PTL DEF Spec
=============================================================================
