---------------------------- MODULE IncentivesInd ----------------------------
(***************************************************************************)
(* C09, design level, UNBOUNDED: an inductive invariant of the gauge budget *)
(* arithmetic of spec/Incentives.tla over unbounded integers (Apalache:     *)
(* IndInit / IndInv; TLAPS: IncentivesProof.tla for the state invariant).   *)
(* Any deposit, any top-ups, any number of epochs, a                        *)
(* perpetual or non-perpetual gauge, any start time, any number of epoch    *)
(* ends, any number of other gauges sharing the module account, and ANY     *)
(* per-epoch payout within the bound the floor rule guarantees.             *)
(*                                                                         *)
(* Correspondence with spec/Incentives.tla (property's reading: no named     *)
(* deviation, as the strict TLC configuration)                               *)
(*   One gauge g (an arbitrary one) and ONE reward denomination (coins are    *)
(*   compared and added per denomination in Incentives.tla, and Share is      *)
(*   computed per denomination, so each denomination is an instance of this   *)
(*   model):                                                                 *)
(*   status, perp, coins, dist, filled, num, start   gauges[g].status (plus   *)
(*                 "none": g \notin GIds), .perp, .coins[d], .dist[d],        *)
(*                 .filled, .num, .start                                      *)
(*   paid          ghost paid[g][d]                                           *)
(*   incBal        incBal[d], the incentives module account                   *)
(*   others        SUM over the OTHER unfinished gauges h of Remain(h)[d]:    *)
(*                 the term of Backed that is not g's.  The other gauges move *)
(*                 (others, incBal) by the same rules as g does: a deposit    *)
(*                 adds c to both (OtherDeposit), a payout p <= Remain(h)     *)
(*                 takes p from both (OtherPays), finishing with remainder r   *)
(*                 drops r from others only (OtherFinishes).  Remain(h) <=    *)
(*                 others because every remainder is >= 0 (WithinDeposit for  *)
(*                 h, which is this model read for h).                        *)
(*   now           the clock (AdvanceTime of Lockup.tla)                      *)
(*   CreateGauge, AddToGauge, EpochEnd, AdvanceTime   the same actions,       *)
(*                 restricted to (g, d).  Exhausted, Activated, RemEpochs,    *)
(*                 Counts, Distributed transcribed.                           *)
(* The payout.  In Incentives.tla the gauge pays, per epoch end,              *)
(*   SUM over qualifying locks of floor(Remain * amt / (tot * RemEpochs))     *)
(* (each term possibly skipped by the minimum-value rule), with SUM amt =     *)
(* tot.  A sum of floors never exceeds the floor of the sum, so this is       *)
(* <= Remain / RemEpochs.  Here the payout is ANY integer pay with            *)
(*   0 <= pay  /\  pay * RemEpochs <= Remain   (PayBound),                    *)
(* and pay = 0 when nobody qualifies.  Whether somebody qualifies (Counts) is  *)
(* a free boolean.  This covers every lock set, every split, every           *)
(* minimum-value skip, and the code's 100-unit rule (pay = 0, epoch counted). *)
(* Abstracted (outside this sub-model): locks and their amounts, receivers     *)
(* and recipient balances (bal), fees, the creator's balance check, the        *)
(* "idlefinish" deviation (a gauge finishing with filled < num; reported by   *)
(* the TLC legs as a finding), gauge ids.  That each lock receives exactly    *)
(* its floor share, to its receiver, is NOT covered here.                     *)
(* The binding to the Go code is the TLC trace/replay legs of c09.py only.    *)
(***************************************************************************)
EXTENDS Integers

VARIABLES
    \* @type: Str;
    status,
    \* @type: Bool;
    perp,
    \* @type: Int;
    coins,
    \* @type: Int;
    dist,
    \* @type: Int;
    filled,
    \* @type: Int;
    num,
    \* @type: Int;
    start,
    \* @type: Int;
    now,
    \* @type: Int;
    paid,
    \* @type: Int;
    incBal,
    \* @type: Int;
    others

vars == <<status, perp, coins, dist, filled, num, start, now, paid, incBal, others>>

\* InitIncentives: no gauge, empty module account (the fields of a gauge that does not exist are arbitrary)
Init ==
    /\ status = "none"
    /\ perp \in BOOLEAN
    /\ coins = 0 /\ dist = 0 /\ filled = 0
    /\ num \in Int /\ start \in Int /\ now \in Int
    /\ paid = 0 /\ incBal = 0 /\ others = 0

---------------------------------------------------------------------------
Remain == coins - dist
RemEpochs == IF perp THEN 1 ELSE num - filled
Exhausted == now >= start /\ ~perp /\ filled >= num

\* CreateGauge(o, perp, d, dur, coins, start, num, id): c > 0 is coins # ZeroCoins for the one denomination
CreateGauge ==
    \E p \in BOOLEAN, c \in Int, n \in Int, s \in Int :
        /\ status = "none"
        /\ c >= 1 /\ n >= 1 /\ (p => n = 1)
        /\ status' = "upcoming" /\ perp' = p /\ coins' = c /\ dist' = 0 /\ filled' = 0 /\ num' = n /\ start' = s
        /\ paid' = 0
        /\ incBal' = incBal + c
        /\ UNCHANGED <<now, others>>

\* AddToGauge(o, id, coins): refused once a non-perpetual gauge has filled its epochs
AddToGauge ==
    \E c \in Int :
        /\ status # "none"
        /\ c >= 1
        /\ ~Exhausted
        /\ coins' = coins + c
        /\ incBal' = incBal + c
        /\ UNCHANGED <<status, perp, dist, filled, num, start, now, paid, others>>

AdvanceTime == \E d \in Int : d >= 0 /\ now' = now + d
                              /\ UNCHANGED <<status, perp, coins, dist, filled, num, start, paid, incBal, others>>

\* the bound the floor rule guarantees for the sum of the shares of one epoch
PayBound(pay) == pay >= 0 /\ pay * RemEpochs <= Remain

\* EpochEnd(devs = {}, rcv) for gauge g: Activated, Payments (abstracted to `pay`), Distributed
\* `bound` is a parameter so that the broken variant below differs in nothing else
EpochEndWith(counts, pay, bound) ==
    LET st1 == IF status = "upcoming" /\ start <= now THEN "active" ELSE status IN     \* Activated
    IF st1 # "active"
    THEN /\ status' = st1
         /\ UNCHANGED <<perp, coins, dist, filled, num, start, now, paid, incBal, others>>
    ELSE /\ bound
         /\ (~counts => pay = 0)                                      \* nobody to pay
         /\ LET f2 == filled + (IF counts THEN 1 ELSE 0)
                fin == ~perp /\ f2 >= num
            IN /\ status' = IF fin THEN "finished" ELSE "active"
               /\ filled' = f2
         /\ dist' = dist + pay
         /\ paid' = paid + pay
         /\ incBal' = incBal - pay
         /\ UNCHANGED <<perp, coins, num, start, now, others>>

EpochEnd == \E counts \in BOOLEAN, pay \in Int : EpochEndWith(counts, pay, PayBound(pay))

\* the other gauges of the module account (see the header)
OtherDeposit == \E c \in Int : c >= 1 /\ others' = others + c /\ incBal' = incBal + c
                               /\ UNCHANGED <<status, perp, coins, dist, filled, num, start, now, paid>>
OtherPays == \E p \in Int : p >= 0 /\ p <= others /\ others' = others - p /\ incBal' = incBal - p
                            /\ UNCHANGED <<status, perp, coins, dist, filled, num, start, now, paid>>
OtherFinishes == \E r \in Int : r >= 0 /\ r <= others /\ others' = others - r
                                /\ UNCHANGED <<status, perp, coins, dist, filled, num, start, now, paid, incBal>>

Next == CreateGauge \/ AddToGauge \/ AdvanceTime \/ EpochEnd \/ OtherDeposit \/ OtherPays \/ OtherFinishes

Spec == Init /\ [][Next]_vars

---------------------------------------------------------------------------
(* the property (C09, budget and schedule part), as state predicates *)
Exists == status # "none"

\* a gauge never distributes more than was deposited into it; what it ever sent is what it recorded
WithinDeposit == 0 <= dist /\ dist <= coins /\ paid = dist

\* the module account holds at least the undistributed remainder of all unfinished gauges
Backed == incBal >= (IF status \in {"upcoming", "active"} THEN Remain ELSE 0) + others

\* lifecycle: upcoming gauges have paid nothing, active ones have epochs left, a non-perpetual gauge is finished
\* exactly when all its epochs are filled (never before, never later), a perpetual one never
Lifecycle ==
    /\ status = "upcoming" => filled = 0 /\ dist = 0
    /\ status = "active" => (perp \/ filled < num) /\ start <= now
    /\ status = "finished" => ~perp /\ filled = num /\ start <= now
    /\ Exists => (num >= 1 /\ filled >= 0 /\ (perp => num = 1) /\ (~perp => filled <= num))

Property == WithinDeposit /\ Backed /\ Lifecycle

(* step properties (action invariants for Apalache; FinishedIsFinal, Progress, PaysOnlyAtEpochs of Incentives.tla) *)
\* a finished gauge pays nothing and nothing about it changes any more (a top-up is refused)
FinishedIsFinal ==
    status = "finished" =>
        <<status', perp', coins', dist', filled', num', start', paid'>> = <<status, perp, coins, dist, filled, num, start, paid>>
\* one epoch at a time, spending and deposits only grow, the terms are fixed, the gauge never goes back
Progress ==
    Exists =>
        /\ filled' \in {filled, filled + 1} /\ dist' >= dist /\ coins' >= coins
        /\ <<perp', num', start'>> = <<perp, num, start>>
        /\ status' # "none"
        /\ status = "active" => status' # "upcoming"
\* every paying epoch pays within the per-epoch budget; a non-perpetual gauge pays in at most num epochs, and
\* the epoch that fills the last one finishes it
PaysWithinEpochBudget ==
    Exists =>
        /\ dist' # dist => (status' \in {"active", "finished"} /\ filled' = filled + 1
                            /\ (dist' - dist) * RemEpochs <= Remain)
        /\ (filled' = filled + 1 /\ ~perp /\ filled' = num) => status' = "finished"
        /\ (status' = "finished" /\ status # "finished") => (filled' = filled + 1 /\ filled' = num)
\* the module account pays out exactly what the gauge records (and receives exactly what is deposited)
PaysWhatIsRecorded == others' = others => incBal - incBal' = (dist' - dist) - (coins' - coins)

StepProperty == FinishedIsFinal /\ Progress /\ PaysWithinEpochBudget /\ PaysWhatIsRecorded

---------------------------------------------------------------------------
TypeOK ==
    /\ status \in {"none", "upcoming", "active", "finished"}
    /\ perp \in BOOLEAN
    /\ coins \in Int /\ dist \in Int /\ filled \in Int /\ num \in Int /\ start \in Int /\ now \in Int
    /\ paid \in Int /\ incBal \in Int /\ others \in Int
    /\ others >= 0

\* a gauge that does not exist holds nothing; one that exists holds a deposit
Existence == (status = "none" => coins = 0 /\ dist = 0 /\ paid = 0 /\ filled = 0) /\ (Exists => coins >= 1)

IndInv == TypeOK /\ Existence /\ WithinDeposit /\ Backed /\ Lifecycle

IndInit ==
    /\ status \in {"none", "upcoming", "active", "finished"}
    /\ perp \in BOOLEAN
    /\ coins \in Int /\ dist \in Int /\ filled \in Int /\ num \in Int /\ start \in Int /\ now \in Int
    /\ paid \in Int /\ incBal \in Int /\ others \in Int
    /\ IndInv

---------------------------------------------------------------------------
(* sanity legs: deliberately broken variants; consecution MUST FAIL for each *)

\* the payout bound is dropped (any non-negative payout)
NextBrokenNoBound ==
    \/ CreateGauge \/ AddToGauge \/ AdvanceTime \/ OtherDeposit \/ OtherPays \/ OtherFinishes
    \/ \E counts \in BOOLEAN, pay \in Int : EpochEndWith(counts, pay, pay >= 0)

\* the per-epoch amount is computed over one epoch too few (Remain / (RemEpochs - 1), and all of it in the last):
\* stays within the deposit but overspends the per-epoch budget
NextBrokenEpochs ==
    \/ CreateGauge \/ AddToGauge \/ AdvanceTime \/ OtherDeposit \/ OtherPays \/ OtherFinishes
    \/ \E counts \in BOOLEAN, pay \in Int :
          EpochEndWith(counts, pay, pay >= 0 /\ (IF RemEpochs >= 2 THEN pay * (RemEpochs - 1) <= Remain ELSE pay <= Remain))

\* a top-up is accepted by a finished gauge (the Exhausted test is dropped): the coins are never paid and a finished
\* gauge changes
AddToGaugeAlways ==
    \E c \in Int : /\ status # "none" /\ c >= 1 /\ coins' = coins + c /\ incBal' = incBal + c
                   /\ UNCHANGED <<status, perp, dist, filled, num, start, now, paid, others>>
NextBrokenTopUp ==
    CreateGauge \/ AddToGaugeAlways \/ AdvanceTime \/ EpochEnd \/ OtherDeposit \/ OtherPays \/ OtherFinishes
=============================================================================
