------------------------------- MODULE MintInd -------------------------------
(***************************************************************************)
(* C18, design level, UNBOUNDED: an inductive invariant of the schedule and *)
(* allocation arithmetic of spec/Mint.tla over unbounded integers           *)
(* (Apalache: IndInit / IndInv).  Any reduction period >= 1, any start      *)
(* epoch, any fixed-point scale S >= 1, any provision >= 0, any factor      *)
(* >= 0, any proportions ps + pp + pd <= S, any number of epochs.           *)
(*                                                                         *)
(* Numbers: the provision, the factor and the proportions are INTEGERS AT A *)
(* FIXED SCALE S (raw decimals, exactly as NScale in Mint.tla: 10^2 in      *)
(* MCMint, 10^18 on recorded executions); S itself is an arbitrary integer  *)
(* >= 1 here.  Products of two unknowns make the queries non-linear integer *)
(* arithmetic; Z3 decides them in seconds for this model (measured).        *)
(*                                                                         *)
(* Correspondence with spec/Mint.tla                                        *)
(*   start, period, factor, ps, pp, pd, S   conf.start, conf.period,         *)
(*                 conf.factor, conf.ps, conf.pp, conf.pd, NScale           *)
(*   epoch, prov, lastRed, supply            the same variables              *)
(*   mint, fee, pool, dev, comm              ledgers: bal.mint, bal.fee,     *)
(*                 what was credited to the pool-incentives module           *)
(*                 (bal.pool before its hook forwards it), the developer     *)
(*                 share as a whole, the community pool's remainder          *)
(*   nred, anchor, emitted, fails            ghost gh: Len(gh.reds),          *)
(*                 gh.anchor, gh.emitted, gh.fails.      The sequence        *)
(*                 gh.reds is replaced by the relation                       *)
(*                 lastRed = anchor + nred * period: every reduction sets     *)
(*                 lastRed to its epoch and adds one to nred, so this is      *)
(*                 gh.reds[k] = anchor + k * period for the last entry, and   *)
(*                 inductively for all.                                      *)
(*   supply0                                  gh.supply0                     *)
(*   Skip, EpochEnd, EpochFail                the same actions; Due,         *)
(*                 LastRedEff, IsProduct, IsFloorDiv, IsShare transcribed.   *)
(* Abstracted (outside this sub-model): the weighted developer receivers and  *)
(* the vesting account / supply offset mechanics (the developer share leaves  *)
(* as one amount `dev`; the rounding remainder question of DESIGN section 7   *)
(* stays with the trace leg), what pool-incentives does with its share (x, y),*)
(* the reason why an epoch fails (EpochFail is simply always possible), the   *)
(* hook for other epoch identifiers (a stuttering step).                     *)
(* Init covers a fresh chain (epoch < start) and a history that begins on a   *)
(* running schedule whose last reduction is not overdue (as the base Schedule *)
(* invariant assumes of a recorded initial state).                           *)
(* No TLAPS proof: an attempt discharged 144 of 149 obligations; the rest    *)
(* (non-linear steps in a large context) were left to Apalache/Z3.          *)
(* The binding to the Go code is the TLC trace/replay legs of c18.py only.   *)
(***************************************************************************)
EXTENDS Integers

VARIABLES
    \* @type: Int;
    start,
    \* @type: Int;
    period,
    \* @type: Int;
    factor,
    \* @type: Int;
    ps,
    \* @type: Int;
    pp,
    \* @type: Int;
    pd,
    \* @type: Int;
    S,
    \* @type: Int;
    epoch,
    \* @type: Int;
    prov,
    \* @type: Int;
    lastRed,
    \* @type: Int;
    mint,
    \* @type: Int;
    fee,
    \* @type: Int;
    pool,
    \* @type: Int;
    dev,
    \* @type: Int;
    comm,
    \* @type: Int;
    supply,
    \* @type: Int;
    supply0,
    \* @type: Int;
    nred,
    \* @type: Int;
    anchor,
    \* @type: Int;
    emitted,
    \* @type: Int;
    fails

\* @type: <<Int, Int, Int, Int, Int, Int, Int, Int, Int, Int, Int, Int, Int, Int, Int, Int, Int, Int, Int, Int, Int>>;
vars == <<start, period, factor, ps, pp, pd, S, epoch, prov, lastRed, mint, fee, pool, dev, comm,
          supply, supply0, nred, anchor, emitted, fails>>

ParamsOK ==
    /\ period >= 1 /\ S >= 1 /\ factor >= 0
    /\ ps >= 0 /\ pp >= 0 /\ pd >= 0 /\ ps + pp + pd <= S

Init ==
    /\ start \in Int /\ period \in Int /\ factor \in Int /\ ps \in Int /\ pp \in Int /\ pd \in Int /\ S \in Int
    /\ ParamsOK
    /\ epoch \in Int /\ lastRed \in Int
    /\ (epoch < start \/ (lastRed <= epoch /\ epoch < lastRed + period))
    /\ prov \in Int /\ prov >= 0
    /\ mint = 0 /\ fee = 0 /\ pool = 0 /\ dev = 0 /\ comm = 0
    /\ supply0 \in Int /\ supply = supply0
    /\ nred = 0 /\ anchor = lastRed /\ emitted = 0 /\ fails = 0

---------------------------------------------------------------------------
\* q = floor(n / d), d > 0, with products only (IsFloorDiv of Mint.tla)
IsFloorDiv(q, n, d) == q * d <= n /\ n < (q + 1) * d
IsShare(q, amount, ratio) == IsFloorDiv(q, amount * ratio, S)
\* np = p * f at scale S rounded either way (IsProduct of Mint.tla)
IsProduct(np, p, f) == np * S - p * f < S /\ p * f - np * S < S

LastRedEff(n) == IF n = start THEN n ELSE lastRed
DueWith(n, per) == n >= per + LastRedEff(n)
Due(n) == DueWith(n, period)

Skip ==
    /\ epoch + 1 < start
    /\ epoch' = epoch + 1
    /\ UNCHANGED <<start, period, factor, ps, pp, pd, S, prov, lastRed, mint, fee, pool, dev, comm,
                   supply, supply0, nred, anchor, emitted, fails>>

\* the values of Shares(n, o) of Mint.tla that this sub-model keeps
Shares(due, np, minted, st, pl, dv) ==
    /\ IF due THEN IsProduct(np, prov, factor) ELSE np = prov
    /\ IsFloorDiv(minted, np, S)
    /\ IsShare(st, minted, ps)
    /\ IsShare(pl, minted, pp)
    /\ IsShare(dv, minted, pd)

\* EpochEnd(n, o) with n = epoch + 1; `due` is the schedule decision (a parameter so that the broken variant
\* below differs in nothing else)
EpochEndWhen(due) ==
    \E np \in Int, minted \in Int, st \in Int, pl \in Int, dv \in Int :
        LET n == epoch + 1
            rem == minted - st - pl - dv          \* the community pool takes the remainder
        IN
        /\ n >= start
        /\ Shares(due, np, minted, st, pl, dv)
        /\ epoch' = n
        /\ prov' = np
        /\ lastRed' = IF due THEN n ELSE LastRedEff(n)
        /\ mint' = mint + minted - (st + pl + dv + rem)
        /\ fee' = fee + st
        /\ pool' = pool + pl
        /\ dev' = dev + dv
        /\ comm' = comm + rem
        /\ supply' = supply + minted
        /\ nred' = IF due THEN nred + 1 ELSE nred
        /\ anchor' = IF n = start THEN n ELSE anchor
        /\ emitted' = emitted + minted
        /\ UNCHANGED <<start, period, factor, ps, pp, pd, S, supply0, fails>>

EpochEnd == EpochEndWhen(Due(epoch + 1))

EpochFail ==
    /\ epoch + 1 >= start
    /\ epoch' = epoch + 1
    /\ fails' = fails + 1
    /\ UNCHANGED <<start, period, factor, ps, pp, pd, S, prov, lastRed, mint, fee, pool, dev, comm,
                   supply, supply0, nred, anchor, emitted>>

Next == Skip \/ EpochEnd \/ EpochFail

Spec == Init /\ [][Next]_vars

---------------------------------------------------------------------------
(* the property (C18), as state predicates *)

\* the mint account is empty after every epoch
MintEmpty == mint = 0

\* everything minted is allocated: staking + pool incentives + developers + community = minted so far, and no
\* ledger is ever debited to make that true (the remainder the community pool takes is never negative)
Allocated ==
    /\ fee + pool + dev + comm = emitted
    /\ fee >= 0 /\ pool >= 0 /\ dev >= 0 /\ comm >= 0

\* minted so far = sum of the integer parts of the provisions of the paying epochs = growth of the supply
SupplyExact == supply = supply0 + emitted /\ emitted >= 0

\* the provision has been multiplied by the factor exactly nred times, and the reductions are on the grid
\* anchor + k * period (anchor = the start epoch once it was seen), never overdue, never early
Started == epoch >= start
Schedule ==
    (fails = 0 /\ Started) =>
        /\ lastRed = anchor + nred * period
        /\ lastRed <= epoch /\ epoch < lastRed + period
        /\ nred >= 0

Property == MintEmpty /\ Allocated /\ SupplyExact /\ Schedule

---------------------------------------------------------------------------
TypeOK ==
    /\ start \in Int /\ period \in Int /\ factor \in Int /\ ps \in Int /\ pp \in Int /\ pd \in Int /\ S \in Int
    /\ epoch \in Int /\ prov \in Int /\ lastRed \in Int /\ mint \in Int /\ fee \in Int /\ pool \in Int
    /\ dev \in Int /\ comm \in Int /\ supply \in Int /\ supply0 \in Int /\ nred \in Int /\ anchor \in Int
    /\ emitted \in Int /\ fails \in Int
    /\ ParamsOK
    /\ prov >= 0 /\ fails >= 0

\* before the start epoch nothing has happened (NothingBeforeStart of Mint.tla, as a state predicate)
BeforeStart == ~Started => (nred = 0 /\ emitted = 0 /\ fails = 0 /\ anchor = lastRed)

IndInv == TypeOK /\ MintEmpty /\ Allocated /\ SupplyExact /\ Schedule /\ BeforeStart

IndInit ==
    /\ start \in Int /\ period \in Int /\ factor \in Int /\ ps \in Int /\ pp \in Int /\ pd \in Int /\ S \in Int
    /\ epoch \in Int /\ prov \in Int /\ lastRed \in Int /\ mint \in Int /\ fee \in Int /\ pool \in Int
    /\ dev \in Int /\ comm \in Int /\ supply \in Int /\ supply0 \in Int /\ nred \in Int /\ anchor \in Int
    /\ emitted \in Int /\ fails \in Int
    /\ IndInv

---------------------------------------------------------------------------
(* step properties (action invariants for Apalache; the action properties of Mint.tla without the            *)
(* SameHistory guard, there is one history here)                                                              *)
\* the provision changes only by a due reduction, and the count of reductions moves only then
ReductionOnlyWhenDue ==
    (prov' # prov \/ nred' # nred) =>
        /\ epoch' >= period + lastRed /\ epoch' # start /\ lastRed' = epoch'
        /\ nred' = nred + 1
        /\ IsProduct(prov', prov, factor)
\* growth of the supply per paying epoch = integer part of the provision in force, all of it leaves the mint account
GrowthIsMinted ==
    (epoch' # epoch /\ fails' = fails /\ epoch' >= start) =>
        /\ IsFloorDiv(supply' - supply, prov', S)
        /\ (fee' - fee) + (pool' - pool) + (dev' - dev) + (comm' - comm) = supply' - supply
        /\ IsShare(fee' - fee, supply' - supply, ps)
        /\ IsShare(pool' - pool, supply' - supply, pp)
        /\ IsShare(dev' - dev, supply' - supply, pd)
NothingBeforeStart ==
    epoch' < start => UNCHANGED <<prov, lastRed, mint, fee, pool, dev, comm, supply, nred, anchor, emitted>>
\* epochs are consecutive
OneEpochAtATime == epoch' = epoch + 1

StepProperty == ReductionOnlyWhenDue /\ GrowthIsMinted /\ NothingBeforeStart /\ OneEpochAtATime

---------------------------------------------------------------------------
(* sanity legs: deliberately broken variants; consecution of IndInv MUST FAIL for each *)

\* the reduction is applied one epoch early (period - 1)
NextBrokenEarly == Skip \/ EpochEndWhen(DueWith(epoch + 1, period - 1)) \/ EpochFail

\* the community pool does not take the remainder: the rounding dust of the three shares stays in the mint account
EpochEndNoRemainder ==
    \E np \in Int, minted \in Int, st \in Int, pl \in Int, dv \in Int :
        LET n == epoch + 1
            due == Due(n)
            rem == (minted * (S - ps - pp - pd)) \div S
        IN
        /\ n >= start
        /\ Shares(due, np, minted, st, pl, dv)
        /\ epoch' = n /\ prov' = np
        /\ lastRed' = IF due THEN n ELSE LastRedEff(n)
        /\ mint' = mint + minted - (st + pl + dv + rem)
        /\ fee' = fee + st /\ pool' = pool + pl /\ dev' = dev + dv /\ comm' = comm + rem
        /\ supply' = supply + minted
        /\ nred' = IF due THEN nred + 1 ELSE nred
        /\ anchor' = IF n = start THEN n ELSE anchor
        /\ emitted' = emitted + minted
        /\ UNCHANGED <<start, period, factor, ps, pp, pd, S, supply0, fails>>
NextBrokenDust == Skip \/ EpochEndNoRemainder \/ EpochFail
=============================================================================
