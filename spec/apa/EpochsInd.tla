------------------------------ MODULE EpochsInd ------------------------------
(***************************************************************************)
(* C17, design level, UNBOUNDED: an inductive invariant of the timer part   *)
(* of spec/Epochs.tla over unbounded integers (Apalache: IndInit/IndInv,    *)
(* TLAPS: EpochsProof.tla).  Any start time, any duration >= 1, any         *)
(* non-decreasing sequence of block times, any number of blocks.            *)
(*                                                                         *)
(* Correspondence with spec/Epochs.tla                                      *)
(*   start, dur            conf.start[i], conf.dur[i] of ONE timer i.  In   *)
(*                         Epochs.tla ep'[i] and sig'[i] depend on ep[i],    *)
(*                         sig[i], conf.start[i], conf.dur[i] and the block  *)
(*                         time only, so what is shown for one timer holds   *)
(*                         for each timer of any finite list.                *)
(*   now, mode             the same variables.                               *)
(*   cur, curStart, started   ep[i].cur, ep[i].curStart, ep[i].started.      *)
(*   nB, nA, ok            counter abstraction of the history sig[i] (a      *)
(*                         sequence in Epochs.tla): number of "B" (epoch     *)
(*                         start) and "A" (epoch end) signals raised, and    *)
(*                         ok = every signal so far carried the number that  *)
(*                         ExpectedSig puts at its position: B(n) is raised  *)
(*                         when nB = n-1 and nA = n-1, A(n) when nB = n and   *)
(*                         nA = n-1.  sig[i] = ExpectedSig(cur) is exactly    *)
(*                         ok /\ nB = cur /\ nA = cur-1 (0 when cur = 0).     *)
(*   pNow, pCur, pCurStart, pStarted, pnB, pnA, pOk   the snapshot `pre`     *)
(*                         taken by StartBlock (pre.now, pre.ep[i], pre.sig[i])*)
(*   StartBlock(t), EndBlock, Abort   the same actions (Due / EpAfter /      *)
(*                         SigsOf transcribed for one timer).                *)
(*   OutOfGas              Call("oog", w): running -> aborted.               *)
(* Abstracted (outside this sub-model): the subscriber queue pend, the       *)
(* subscriber stores and the Call outcomes ok / err / panic (they change      *)
(* only store and pend), height and startHeight, the list of timers.         *)
(* Containment of subscriber faults is therefore NOT covered here; it stays   *)
(* with the TLC legs.  The binding to the Go code is the TLC trace/replay     *)
(* legs of bin/checks/c17.py only.                                           *)
(***************************************************************************)
EXTENDS Integers

VARIABLES
    \* @type: Int;
    start,
    \* @type: Int;
    dur,
    \* @type: Int;
    now,
    \* @type: Str;
    mode,
    \* @type: Int;
    cur,
    \* @type: Int;
    curStart,
    \* @type: Bool;
    started,
    \* @type: Int;
    nB,
    \* @type: Int;
    nA,
    \* @type: Bool;
    ok,
    \* @type: Int;
    pNow,
    \* @type: Int;
    pCur,
    \* @type: Int;
    pCurStart,
    \* @type: Bool;
    pStarted,
    \* @type: Int;
    pnB,
    \* @type: Int;
    pnA,
    \* @type: Bool;
    pOk

vars == <<start, dur, now, mode, cur, curStart, started, nB, nA, ok,
          pNow, pCur, pCurStart, pStarted, pnB, pnA, pOk>>

\* InitWith(c, t0, h0) of Epochs.tla for one timer; the snapshot is irrelevant while idle
Init ==
    /\ start \in Int
    /\ dur \in Int /\ dur >= 1
    /\ now \in Int
    /\ mode = "idle"
    /\ cur = 0 /\ curStart = 0 /\ started = FALSE
    /\ nB = 0 /\ nA = 0 /\ ok = TRUE
    /\ pNow = now /\ pCur = 0 /\ pCurStart = 0 /\ pStarted = FALSE
    /\ pnB = 0 /\ pnA = 0 /\ pOk = TRUE

---------------------------------------------------------------------------
\* Due(e, i, t) of Epochs.tla
DueInit(t) == t >= start /\ ~started
DueTick(t) == t >= start /\ started /\ t > curStart + dur

Snapshot ==
    /\ pNow' = now /\ pCur' = cur /\ pCurStart' = curStart /\ pStarted' = started
    /\ pnB' = nB /\ pnA' = nA /\ pOk' = ok

\* the three branches of EpAfter / SigsOf; TickWhen and NothingWhen take the tick condition as a parameter so that the
\* deliberately broken variant below differs in nothing else
InitialStart(t) ==          \* signals << B(1) >>
    /\ DueInit(t)
    /\ cur' = 1 /\ curStart' = start /\ started' = TRUE
    /\ nB' = nB + 1 /\ nA' = nA
    /\ ok' = (ok /\ 1 = nB + 1 /\ nA = nB)

TickWhen(due) ==            \* signals << A(cur), B(cur + 1) >>, in this order
    /\ due
    /\ cur' = cur + 1 /\ curStart' = curStart + dur /\ started' = TRUE
    /\ nA' = nA + 1 /\ nB' = nB + 1
    /\ ok' = (ok /\ (cur = nB /\ nA = nB - 1)                 \* A(cur) in place
                 /\ (cur + 1 = nB + 1 /\ nA + 1 = nB))        \* then B(cur + 1) in place

NothingWhen(t, due) ==
    /\ ~DueInit(t) /\ ~due
    /\ UNCHANGED <<cur, curStart, started, nB, nA, ok>>

Begin(t) ==
    /\ mode = "idle"
    /\ t >= now
    /\ Snapshot
    /\ now' = t
    /\ mode' = "running"
    /\ UNCHANGED <<start, dur>>

StartBlock(t) == Begin(t) /\ (InitialStart(t) \/ TickWhen(DueTick(t)) \/ NothingWhen(t, DueTick(t)))

OutOfGas ==
    /\ mode = "running"
    /\ mode' = "aborted"
    /\ UNCHANGED <<start, dur, now, cur, curStart, started, nB, nA, ok,
                   pNow, pCur, pCurStart, pStarted, pnB, pnA, pOk>>

EndBlock ==
    /\ mode = "running"
    /\ mode' = "idle"
    /\ UNCHANGED <<start, dur, now, cur, curStart, started, nB, nA, ok,
                   pNow, pCur, pCurStart, pStarted, pnB, pnA, pOk>>

Abort ==
    /\ mode = "aborted"
    /\ now' = pNow /\ cur' = pCur /\ curStart' = pCurStart /\ started' = pStarted
    /\ nB' = pnB /\ nA' = pnA /\ ok' = pOk
    /\ mode' = "idle"
    /\ UNCHANGED <<start, dur, pNow, pCur, pCurStart, pStarted, pnB, pnA, pOk>>

Next == (\E t \in Int : StartBlock(t)) \/ OutOfGas \/ EndBlock \/ Abort

Spec == Init /\ [][Next]_vars

---------------------------------------------------------------------------
(* the property (C17, timing part), as state predicates *)

\* the current epoch start stays on the grid start + n * dur
Grid == started => curStart = start + (cur - 1) * dur

\* nothing before the start time; the counter is 0 until then
NotBeforeStart == (~started => cur = 0 /\ nB = 0 /\ nA = 0) /\ (started => cur >= 1 /\ now >= start)

\* B1 A1 B2 A2 ... B_cur: every signal in its place, ends = starts - 1 after the first start
SignalOrder == ok /\ nB = cur /\ nA = (IF started THEN cur - 1 ELSE 0)

\* per block the counter advances by at most one, and exactly when the block time (now) is after the end of
\* the current epoch (or the timer is started).  pre is the state before the block, as in TickExactlyWhenDue.
TickExactlyWhenDue ==
    mode \in {"running", "aborted"} =>
        /\ cur - pCur \in {0, 1}
        /\ (cur = pCur + 1) <=> \/ (~pStarted /\ now >= start)
                                \/ (pStarted /\ now > pCurStart + dur)
        /\ pNow <= now          \* block times do not decrease

Property == Grid /\ NotBeforeStart /\ SignalOrder /\ TickExactlyWhenDue

---------------------------------------------------------------------------
(* the inductive invariant: the property, types, and the same facts about the snapshot (Abort restores it) *)
TypeOK ==
    /\ start \in Int /\ dur \in Int /\ now \in Int /\ cur \in Int /\ curStart \in Int
    /\ nB \in Int /\ nA \in Int /\ pNow \in Int /\ pCur \in Int /\ pCurStart \in Int /\ pnB \in Int /\ pnA \in Int
    /\ started \in BOOLEAN /\ ok \in BOOLEAN /\ pStarted \in BOOLEAN /\ pOk \in BOOLEAN
    /\ mode \in {"idle", "running", "aborted"}
    /\ dur >= 1

SnapshotGood ==
    mode \in {"running", "aborted"} =>
        /\ pStarted => pCurStart = start + (pCur - 1) * dur
        /\ ~pStarted => pCur = 0 /\ pnB = 0 /\ pnA = 0
        /\ pStarted => pCur >= 1 /\ pNow >= start
        /\ pOk /\ pnB = pCur /\ pnA = (IF pStarted THEN pCur - 1 ELSE 0)

IndInv == TypeOK /\ Grid /\ NotBeforeStart /\ SignalOrder /\ TickExactlyWhenDue /\ SnapshotGood

\* Apalache: consecution is checked from an arbitrary state satisfying IndInv
IndInit ==
    /\ start \in Int /\ dur \in Int /\ now \in Int /\ cur \in Int /\ curStart \in Int
    /\ nB \in Int /\ nA \in Int /\ pNow \in Int /\ pCur \in Int /\ pCurStart \in Int /\ pnB \in Int /\ pnA \in Int
    /\ started \in BOOLEAN /\ ok \in BOOLEAN /\ pStarted \in BOOLEAN /\ pOk \in BOOLEAN
    /\ mode \in {"idle", "running", "aborted"}
    /\ IndInv

---------------------------------------------------------------------------
(* sanity legs: deliberately broken variants; consecution of IndInv MUST FAIL for each *)

\* ">=" instead of ">" in the tick condition (the epoch ends one instant early)
DueTickGe(t) == t >= start /\ started /\ t >= curStart + dur
NextBrokenGe ==
    \/ \E t \in Int : Begin(t) /\ (InitialStart(t) \/ TickWhen(DueTickGe(t)) \/ NothingWhen(t, DueTickGe(t)))
    \/ OutOfGas \/ EndBlock \/ Abort

\* the new epoch starts at the block time instead of one duration after the old start (drift off the grid)
TickDrift(t) ==
    /\ DueTick(t)
    /\ cur' = cur + 1 /\ curStart' = t /\ started' = TRUE
    /\ nA' = nA + 1 /\ nB' = nB + 1
    /\ ok' = (ok /\ (cur = nB /\ nA = nB - 1) /\ (cur + 1 = nB + 1 /\ nA + 1 = nB))
NextBrokenDrift ==
    \/ \E t \in Int : Begin(t) /\ (InitialStart(t) \/ TickDrift(t) \/ NothingWhen(t, DueTick(t)))
    \/ OutOfGas \/ EndBlock \/ Abort
=============================================================================
