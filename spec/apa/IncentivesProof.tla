--------------------------- MODULE IncentivesProof ---------------------------
(***************************************************************************)
(* TLAPS proof that IndInv of IncentivesInd.tla is an inductive invariant   *)
(* of Spec (the statement Apalache checks: Init => IndInv and               *)
(* IndInv /\ [Next]_vars => IndInv'), hence Spec => []Property, over         *)
(* unbounded integers.  The only non-linear fact, pay <= pay * RemEpochs     *)
(* for pay >= 0 and RemEpochs >= 1, is step <3>2.  The step properties       *)
(* (action invariants) of IncentivesInd.tla are checked by Apalache only.    *)
(* Checked by `tlapm` from bin/checks/c09.py (apalache_leg).                 *)
(***************************************************************************)
EXTENDS IncentivesInd, TLAPS

THEOREM Initiation == Init => IndInv
  BY DEF Init, IndInv, TypeOK, Existence, WithinDeposit, Backed, Lifecycle, Exists, Remain

THEOREM Consecution == IndInv /\ [Next]_vars => IndInv'
<1> SUFFICES ASSUME IndInv, [Next]_vars PROVE IndInv'
  OBVIOUS
<1> USE DEF IndInv, TypeOK, Existence, WithinDeposit, Backed, Lifecycle, Exists, Remain
<1>1 ASSUME CreateGauge PROVE IndInv'
  BY <1>1 DEF CreateGauge
<1>2 ASSUME AddToGauge PROVE IndInv'
  BY <1>2 DEF AddToGauge, Exhausted
<1>3 ASSUME AdvanceTime PROVE IndInv'
  BY <1>3 DEF AdvanceTime
<1>4 ASSUME EpochEnd PROVE IndInv'
  <2>1 PICK counts \in BOOLEAN, pay \in Int : EpochEndWith(counts, pay, PayBound(pay))
    BY <1>4 DEF EpochEnd
  <2>2 CASE ~(status = "active" \/ (status = "upcoming" /\ start <= now))
    BY <2>1, <2>2 DEF EpochEndWith
  <2>3 CASE status = "active" \/ (status = "upcoming" /\ start <= now)
    <3>1 pay >= 0 /\ pay * RemEpochs <= Remain /\ RemEpochs >= 1 /\ RemEpochs \in Int
      BY <2>1, <2>3 DEF EpochEndWith, PayBound, RemEpochs
    <3>2 pay <= pay * RemEpochs
      BY <3>1
    <3>3 pay <= coins - dist
      BY <3>1, <3>2 DEF Remain
    <3>4 /\ dist' = dist + pay /\ paid' = paid + pay /\ incBal' = incBal - pay
         /\ perp' = perp /\ coins' = coins /\ num' = num /\ start' = start /\ now' = now /\ others' = others
         /\ filled' = filled + (IF counts THEN 1 ELSE 0)
         /\ status' = IF (~perp /\ filled + (IF counts THEN 1 ELSE 0) >= num) THEN "finished" ELSE "active"
      BY <2>1, <2>3 DEF EpochEndWith
    <3>5 start <= now /\ status \in {"upcoming", "active"}
      BY <2>3
    <3> HIDE DEF RemEpochs
    <3>6 TypeOK' /\ Existence' /\ WithinDeposit'
      BY <3>1, <3>3, <3>4, <3>5
    <3>7 Backed'
      BY <3>1, <3>3, <3>4, <3>5
    <3>8 Lifecycle'
      <4>1 CASE counts
        BY <4>1, <3>4, <3>5
      <4>2 CASE ~counts
        BY <4>2, <3>4, <3>5
      <4> QED BY <4>1, <4>2
    <3> QED
      BY <3>6, <3>7, <3>8
  <2> QED
    BY <2>2, <2>3
<1>5 ASSUME OtherDeposit PROVE IndInv'
  BY <1>5 DEF OtherDeposit
<1>6 ASSUME OtherPays PROVE IndInv'
  BY <1>6 DEF OtherPays
<1>7 ASSUME OtherFinishes PROVE IndInv'
  BY <1>7 DEF OtherFinishes
<1>8 ASSUME UNCHANGED vars PROVE IndInv'
  BY <1>8 DEF vars
<1> QED
  BY <1>1, <1>2, <1>3, <1>4, <1>5, <1>6, <1>7, <1>8 DEF Next

THEOREM Safety == Spec => []Property
<1>1 IndInv => Property
  BY DEF IndInv, Property
<1> QED
  BY <1>1, Initiation, Consecution, PTL DEF Spec
=============================================================================
