------------------------------ MODULE CLRewards ------------------------------
(***************************************************************************)
(* The reward-accrual mechanism of a concentrated pool (property C08) on    *)
(* top of the bookkeeping of CL.tla: one global growth-per-unit-liquidity   *)
(* accumulator `fg`, a "growth outside" snapshot `fo[t]` per initialised    *)
(* tick that is flipped (fo := fg - fo) whenever the tick is crossed, and   *)
(* per position the growth inside its range at its last update (`snap`)     *)
(* plus what it accrued before (`unc`).  The same mechanism serves spread    *)
(* rewards (growth = fee / active liquidity per swap step) and each uptime   *)
(* accumulator (growth = emission / active liquidity per time step).         *)
(* Ghost `earned[id]` is the definition of what a position deserves:         *)
(* sum of growth x its liquidity over the steps during which it was in       *)
(* range.  The bounded model uses integer growth so that everything is       *)
(* exact: claimable = earned, always.                                         *)
(***************************************************************************)
EXTENDS CL

VARIABLES fg, fo, snap, unc, earned, paid

rvars == <<cl, fg, fo, snap, unc, earned, paid>>

\* growth below / above a tick, by the current-tick case split of the implementation
Below(S, g, o, t) == IF S.tick >= t THEN o[t] ELSE g - o[t]
Above(S, g, o, t) == IF S.tick >= t THEN g - o[t] ELSE o[t]
Inside(S, g, o, lo, hi) == g - Below(S, g, o, lo) - Above(S, g, o, hi)

Claimable(i) == unc[i] + (Inside(cl, fg, fo, cl.pos[i].lo, cl.pos[i].hi) - snap[i]) * cl.pos[i].liq

\* a tick initialised at or below the current tick starts with "everything so far happened below it"
InitOut(S, g, o, t) == IF t \in DOMAIN o THEN o[t] ELSE IF t <= S.tick THEN g ELSE 0

RInit == /\ cl = Empty /\ fg = 0 /\ fo = <<>> /\ snap = <<>> /\ unc = <<>> /\ earned = <<>> /\ paid = <<>>

Restrict(f, S) == [x \in S |-> f[x]]

RCreate(id, own, lo, hi, dl, sqLo, sqHi, price) ==
    /\ CreateOK(cl, id, lo, hi, dl)
    /\ cl' = ApplyCreate(cl, id, own, lo, hi, dl, sqLo, sqHi, price)
    /\ LET o1 == [t \in DOMAIN cl'.ticks |-> InitOut(cl', fg, fo, t)]     \* the price is set before ticks are initialised
       IN  /\ fo' = o1
           /\ snap' = [i \in Ids(cl') |-> IF i = id THEN Inside(cl', fg, o1, lo, hi) ELSE snap[i]]
    /\ unc' = [i \in Ids(cl') |-> IF i = id THEN 0 ELSE unc[i]]
    /\ earned' = [i \in DOMAIN earned \cup {id} |-> IF i = id THEN 0 ELSE earned[i]]
    /\ paid' = [i \in DOMAIN paid \cup {id} |-> IF i = id THEN 0 ELSE paid[i]]
    /\ UNCHANGED fg

\* collect: pays everything claimable, re-snapshots
RClaim(id) ==
    /\ id \in Ids(cl)
    /\ paid' = [paid EXCEPT ![id] = @ + Claimable(id)]
    /\ unc' = [unc EXCEPT ![id] = 0]
    /\ snap' = [snap EXCEPT ![id] = Inside(cl, fg, fo, cl.pos[id].lo, cl.pos[id].hi)]
    /\ UNCHANGED <<cl, fg, fo, earned>>

\* withdraw dl: matured rewards move to `unc` first (nothing is lost or duplicated); a full
\* withdrawal pays them out and removes the position
RWithdraw(id, dl) ==
    /\ WithdrawOK(cl, id, dl)
    /\ cl' = ApplyWithdraw(cl, id, dl)
    /\ LET full == dl = cl.pos[id].liq
           c == Claimable(id)
       IN  /\ paid' = IF full THEN [paid EXCEPT ![id] = @ + c] ELSE paid
           /\ unc' = [i \in Ids(cl') |-> IF i = id THEN c ELSE unc[i]]
           /\ snap' = [i \in Ids(cl') |-> IF i = id THEN Inside(cl, fg, fo, cl.pos[id].lo, cl.pos[id].hi) ELSE snap[i]]
    /\ fo' = Restrict(fo, DOMAIN cl'.ticks)
    /\ fg' = IF Ids(cl') = {} THEN fg ELSE fg
    /\ UNCHANGED earned

\* growth g per unit of active liquidity accrues (a swap step's fee, or an emission interval)
RAccrue(g) ==
    /\ NPos(cl.liq)
    /\ fg' = fg + g
    /\ earned' = [i \in DOMAIN earned |->
                     IF i \in Ids(cl) /\ InRange(cl.pos[i], cl.tick) THEN earned[i] + g * cl.pos[i].liq ELSE earned[i]]
    /\ UNCHANGED <<cl, fo, snap, unc, paid>>

\* price moves; every crossed tick flips its growth-outside snapshot
RSwap(down, newTick, newSqrt, newLo, newHi) ==
    /\ SwapOK(cl, down, newTick, newSqrt)
    /\ cl' = ApplySwap(cl, down, newTick, newSqrt, newLo, newHi)
    /\ fo' = [t \in DOMAIN fo |-> IF t \in Crossed(cl, down, newTick) THEN fg - fo[t] ELSE fo[t]]
    /\ UNCHANGED <<fg, snap, unc, earned, paid>>

---------------------------------------------------------------------------
(* C08 *)
\* what a position can claim plus what it already collected is exactly what it earned
ExactlyEarned == \A i \in Ids(cl) : Claimable(i) + paid[i] = earned[i]
\* closed positions were paid exactly what they earned
ClosedPaid == \A i \in DOMAIN earned \ Ids(cl) : paid[i] = earned[i]
\* nothing is claimable beyond what accrued in total, and nobody is ever negative
NonNegative == \A i \in Ids(cl) : Claimable(i) >= 0
=============================================================================
