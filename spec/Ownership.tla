----------------------------- MODULE Ownership -----------------------------
(***************************************************************************)
(* Property C20, generic part: every state-changing message that acts on    *)
(* an owned object (a liquidity position, a lock, a factory denomination)   *)
(* succeeds only when sent by the object's current owner / administrator    *)
(* and otherwise fails leaving everything unchanged.                         *)
(*                                                                         *)
(* Abstract state                                                           *)
(*   own    object -> account that currently owns / administers it          *)
(*          ("" = administrator renounced: no sender equals it);            *)
(*          the domain is the set of objects that exist                      *)
(*   prev   object -> accounts that owned it earlier (history variable)      *)
(*   dg     digest of the ENTIRE chain state (every store of the app)        *)
(*   last   the last delivery, see Delivery                                  *)
(*                                                                         *)
(* A delivery is one message [kind, obj, sender, to] handed to the msg      *)
(* server together with what was observed:                                   *)
(*   commit   TRUE: executed as a transaction of the history (written when   *)
(*            it succeeds, rolled back when it fails, as baseapp does);      *)
(*            FALSE: executed on a branch that is thrown away afterwards     *)
(*            (the wrong-sender sweeps)                                      *)
(*   ok       the handler returned no error                                  *)
(*   dgb      digest of the branch the handler worked on, taken when it      *)
(*            returned (before commit / roll back)                           *)
(*   fg0,fg1  digest of the records of all objects NOT owned by the sender   *)
(*            before / on the branch after the handler                       *)
(*   partial  the message names several objects and an earlier one is the    *)
(*            sender's own (the handler may have worked on that one before   *)
(*            refusing; only the transaction as a whole is atomic)           *)
(* obj = "" : the message acts on no pre-existing object (creations,        *)
(* messages scoped to the sender's own objects, swaps, block processing).   *)
(***************************************************************************)
EXTENDS Naturals, FiniteSets

CONSTANTS
    Special,        \* set of <<kind, sender>>: authorisations the code grants besides ownership (governance)
    TransferKinds,  \* kinds that hand obj over to `to`
    Listed(_, _)    \* Listed(kind, sender): kind-specific allow-list on top of ownership (force unlock), TRUE otherwise

VARIABLES own, prev, dg, last

vars == <<own, prev, dg, last>>

Delivery(n, commit, kind, obj, sender, to, ok, dgb, fg0, fg1, partial) ==
    [n |-> n, commit |-> commit, kind |-> kind, obj |-> obj, sender |-> sender, to |-> to, ok |-> ok,
     dgb |-> dgb, fg0 |-> fg0, fg1 |-> fg1, partial |-> partial]
Last0 == Delivery(0, FALSE, "init", "", "", "", TRUE, "", "", "", FALSE)

\* the authorisation rule
IsOwner(o, obj, who)   == obj \in DOMAIN o /\ who # "" /\ o[obj] = who
Authorised(o, d)       == d.obj = "" \/ ((IsOwner(o, d.obj, d.sender) \/ <<d.kind, d.sender>> \in Special)
                                          /\ Listed(d.kind, d.sender))
OwnerOrSender(o, d)    == IF d.obj \in DOMAIN o THEN {o[d.obj], d.sender} ELSE {d.sender}

\* how the owner map may evolve through one successful delivery
Evolves(o, o1, d) ==
    /\ \A x \in DOMAIN o \cap DOMAIN o1 :
          o1[x] # o[x] => d.kind \in TransferKinds /\ x = d.obj /\ o1[x] = d.to /\ o[x] # ""
    /\ \A x \in DOMAIN o1 \ DOMAIN o : o1[x] \in OwnerOrSender(o, d)      \* split locks, re-created positions, new denoms
    /\ \A x \in DOMAIN o \ DOMAIN o1 : x = d.obj \/ d.kind = "env"        \* only the object acted on may cease to exist

PrevAfter(o, o1, p) == [x \in DOMAIN o1 |->
                          (IF x \in DOMAIN p THEN p[x] ELSE {})
                          \cup (IF x \in DOMAIN o /\ o[x] # o1[x] THEN {o[x]} ELSE {})]

\* the design: a system that respects the rule (used by the bounded model)
Deliver(d, own1, dg1) ==
    /\ d.ok => Authorised(own, d)
    /\ ~Authorised(own, d) => d.dgb = dg
    /\ (<<d.kind, d.sender>> \notin Special /\ d.kind # "env") => d.fg1 = d.fg0
    /\ (d.commit /\ d.ok) => Evolves(own, own1, d)
    /\ own' = IF d.commit /\ d.ok THEN own1 ELSE own
    /\ dg'  = IF d.commit /\ d.ok THEN dg1 ELSE dg
    /\ prev' = PrevAfter(own, own', prev)
    /\ last' = d

---------------------------------------------------------------------------
(* the property, as action properties over any behaviour (model or recorded) *)
Fresh == last'.n # last.n /\ last'.kind # "init"

\* succeeds only when sent by the current owner / administrator (or an authority the code names)
OnlyOwnerSucceeds == [][ (Fresh /\ last'.ok) => Authorised(own, last') ]_vars
\* anybody else is refused, and the refusal leaves every store of the chain as it was - even on the
\* handler's own branch, before any roll back
StrangerChangesNothing == [][ (Fresh /\ ~Authorised(own, last')) =>
                                 /\ ~last'.ok
                                 /\ (~last'.partial => last'.dgb = dg) ]_vars
\* whatever a message does, it never alters the record of an object its sender does not own
\* (explicit authorities excepted)
ForeignRecordsUntouched == [][ (Fresh /\ <<last'.kind, last'.sender>> \notin Special /\ last'.kind # "env") =>
                                 last'.fg1 = last'.fg0 ]_vars
\* a refused transaction is rolled back; a discarded branch leaves no trace
RefusedRolledBack == [][ (Fresh /\ ~(last'.commit /\ last'.ok)) => (own' = own /\ dg' = dg) ]_vars
\* ownership changes hands only through the owner's own transfer
OwnershipEvolves == [][ (Fresh /\ last'.commit /\ last'.ok) => Evolves(own, own', last') ]_vars
\* a renounced administrator stays renounced
RenouncedIsForever == [][ Fresh => \A x \in DOMAIN own \cap DOMAIN own' : own[x] = "" => own'[x] = "" ]_vars
=============================================================================
