----------------------------- MODULE CLSwapIdeal -----------------------------
(***************************************************************************)
(* The exact piecewise constant-liquidity curve of a concentrated pool,     *)
(* walked in exact rational arithmetic (property C03; its per-bucket fee    *)
(* output is also the accrual oracle of C08).                               *)
(*                                                                         *)
(* A curve C is a record                                                    *)
(*   sqrt : current sqrt price          (rational)                          *)
(*   liq  : active liquidity            (rational)                          *)
(*   tick : current tick                (integer)                           *)
(*   ticks: initialised tick -> [net, sqrt]  (rationals)                    *)
(*   f    : spread factor               (rational, 0 <= f < 1)              *)
(*   lo, hi : sqrt price limits of the pool (rationals)                     *)
(* Rationals are pairs <<n, d>> of BigNum integers with d > 0.              *)
(*                                                                         *)
(* Token0 = x, token1 = y, sqrt price s: within a bucket of liquidity L     *)
(*   moving s from a to b changes  x by L(1/b - 1/a)  and  y by L(b - a).   *)
(* zfo (zero for one): token0 in, price down.  ofz: token1 in, price up.    *)
(* The spread factor is charged on the way in: of a gross input r only      *)
(* r(1 - f) moves the price; a bucket traversed completely with net input   *)
(* n costs n f/(1 - f) on top.                                              *)
(***************************************************************************)
EXTENDS Integers, Sequences, FiniteSets, TLC

B == INSTANCE BigNum

---------------------------------------------------------------------------
(* rationals *)
RNorm(r) == LET g == B!Gcd(r[1], r[2]) IN
            IF g.s = 0 \/ g = B!One THEN r ELSE <<B!QuoT(r[1], g), B!QuoT(r[2], g)>>
RInt(n)      == <<n, B!One>>                      \* n : BigNum
RZero        == RInt(B!Zero)
ROne         == RInt(B!One)
RScaled(n, k) == RNorm(<<n, B!Pow(B!OfInt(10), k)>>)   \* n / 10^k
RAdd(p, q) == <<B!Add(B!Mul(p[1], q[2]), B!Mul(q[1], p[2])), B!Mul(p[2], q[2])>>
RSub(p, q) == <<B!Sub(B!Mul(p[1], q[2]), B!Mul(q[1], p[2])), B!Mul(p[2], q[2])>>
RMul(p, q) == <<B!Mul(p[1], q[1]), B!Mul(p[2], q[2])>>
RDiv(p, q) == IF q[1].s > 0 THEN <<B!Mul(p[1], q[2]), B!Mul(p[2], q[1])>>
                            ELSE <<B!Neg(B!Mul(p[1], q[2])), B!Neg(B!Mul(p[2], q[1]))>>    \* q # 0
RCmp(p, q) == B!Cmp(B!Mul(p[1], q[2]), B!Mul(q[1], p[2]))
RLe(p, q)  == RCmp(p, q) <= 0
RLt(p, q)  == RCmp(p, q) < 0
REq(p, q)  == RCmp(p, q) = 0
RIsZero(p) == p[1].s = 0
RPos(p)    == p[1].s > 0
RMin(p, q) == IF RLe(p, q) THEN p ELSE q
RMax(p, q) == IF RLe(p, q) THEN q ELSE p
RFloor(p)  == B!FloorDiv(p[1], p[2])              \* BigNum
RCeil(p)   == B!CeilDiv(p[1], p[2])

---------------------------------------------------------------------------
(* one bucket *)
\* token0 / token1 amounts between sqrt prices a <= b with liquidity L
Amt0(L, a, b) == RDiv(RMul(L, RSub(b, a)), RMul(a, b))
Amt1(L, a, b) == RMul(L, RSub(b, a))

NextTicks(C, zfo) == IF zfo THEN {t \in DOMAIN C.ticks : t <= C.tick}
                            ELSE {t \in DOMAIN C.ticks : t > C.tick}
NextTick(C, zfo) == LET S == NextTicks(C, zfo) IN
                    IF zfo THEN CHOOSE t \in S : \A u \in S : u <= t
                           ELSE CHOOSE t \in S : \A u \in S : u >= t

AtLimit(C, zfo) == IF zfo THEN RLe(C.sqrt, C.lo) ELSE RLe(C.hi, C.sqrt)

\* after consuming the whole bucket up to initialised tick t: cross it
Cross(C, zfo, t) ==
    [C EXCEPT !.sqrt = C.ticks[t].sqrt,
              !.liq  = IF zfo THEN RSub(C.liq, C.ticks[t].net) ELSE RAdd(C.liq, C.ticks[t].net),
              !.tick = IF zfo THEN t - 1 ELSE t]

\* result of a walk: ok = FALSE means the ideal swap cannot complete (ran out of ticks)
Acc0 == [ok |-> TRUE, in |-> RZero, out |-> RZero, fee |-> RZero, nb |-> 0, steps |-> <<>>]

\* steps: one record per bucket touched: [liq, fee, in, out, tick (crossed or 0), crossed,
\* at = the current tick while the step ran (positions with lo <= at < hi were active)]
AddStep(acc, L, in, out, fee, t, crossed, at) ==
    [acc EXCEPT !.in = RNorm(RAdd(acc.in, RAdd(in, fee))), !.out = RNorm(RAdd(acc.out, out)),
                !.fee = RNorm(RAdd(acc.fee, fee)),
                !.nb = IF RIsZero(in) /\ RIsZero(out) THEN acc.nb ELSE acc.nb + 1,
                !.steps = Append(acc.steps, [liq |-> L, fee |-> fee, in |-> in, out |-> out, tick |-> t, crossed |-> crossed, at |-> at])]

FeeOn(C, net) == IF RIsZero(C.f) THEN RZero ELSE RDiv(RMul(net, C.f), RSub(ROne, C.f))

---------------------------------------------------------------------------
(* exact in: gross input `rem` of the in-token *)
RECURSIVE WalkIn(_, _, _, _)
WalkIn(C, zfo, rem, acc) ==
    IF ~RPos(rem) \/ AtLimit(C, zfo) THEN [acc EXCEPT !.ok = TRUE] @@ [end |-> C, left |-> rem]
    ELSE IF NextTicks(C, zfo) = {} THEN [acc EXCEPT !.ok = FALSE] @@ [end |-> C, left |-> rem]
    ELSE
      LET t    == NextTick(C, zfo)
          b0   == C.ticks[t].sqrt
          b    == IF zfo THEN RMax(b0, C.lo) ELSE RMin(b0, C.hi)
          hit  == REq(b, b0)                      \* target is the tick itself (not the price limit)
          a    == C.sqrt
          L    == C.liq
          need == IF zfo THEN Amt0(L, b, a) ELSE Amt1(L, a, b)      \* net input that reaches b
          net  == RMul(rem, RSub(ROne, C.f))
      IN  IF RLe(need, net)
          THEN LET fee == FeeOn(C, need)
                   out == IF zfo THEN Amt1(L, b, a) ELSE Amt0(L, a, b)
                   C1  == IF hit THEN Cross(C, zfo, t) ELSE [C EXCEPT !.sqrt = b]
               IN  WalkIn(C1, zfo, RNorm(RSub(rem, RAdd(need, fee))), AddStep(acc, L, need, out, fee, t, hit, C.tick))
          ELSE \* the input runs out inside this bucket (L > 0 here, since need > net >= 0)
               LET a1  == IF zfo THEN RDiv(RMul(L, a), RAdd(L, RMul(net, a))) ELSE RAdd(a, RDiv(net, L))
                   out == IF zfo THEN Amt1(L, a1, a) ELSE Amt0(L, a, a1)
                   fee == RSub(rem, net)
               IN  [AddStep(acc, L, net, out, fee, 0, FALSE, C.tick) EXCEPT !.ok = TRUE]
                      @@ [end |-> [C EXCEPT !.sqrt = RNorm(a1)], left |-> RZero]

IdealIn(C, zfo, amt) == WalkIn(C, zfo, amt, Acc0)      \* amt : rational

---------------------------------------------------------------------------
(* exact out: desired output `rem` of the out-token *)
RECURSIVE WalkOut(_, _, _, _)
WalkOut(C, zfo, rem, acc) ==
    IF ~RPos(rem) \/ AtLimit(C, zfo) THEN [acc EXCEPT !.ok = TRUE] @@ [end |-> C, left |-> rem]
    ELSE IF NextTicks(C, zfo) = {} THEN [acc EXCEPT !.ok = FALSE] @@ [end |-> C, left |-> rem]
    ELSE
      LET t    == NextTick(C, zfo)
          b0   == C.ticks[t].sqrt
          b    == IF zfo THEN RMax(b0, C.lo) ELSE RMin(b0, C.hi)
          hit  == REq(b, b0)
          a    == C.sqrt
          L    == C.liq
          maxOut == IF zfo THEN Amt1(L, b, a) ELSE Amt0(L, a, b)
      IN  IF RLe(maxOut, rem)
          THEN LET in  == IF zfo THEN Amt0(L, b, a) ELSE Amt1(L, a, b)
                   fee == FeeOn(C, in)
                   C1  == IF hit THEN Cross(C, zfo, t) ELSE [C EXCEPT !.sqrt = b]
               IN  WalkOut(C1, zfo, RNorm(RSub(rem, maxOut)), AddStep(acc, L, in, maxOut, fee, t, hit, C.tick))
          ELSE LET a1  == IF zfo THEN RSub(a, RDiv(rem, L)) ELSE RDiv(RMul(L, a), RSub(L, RMul(rem, a)))
                   in  == IF zfo THEN Amt0(L, a1, a) ELSE Amt1(L, a, a1)
                   fee == FeeOn(C, in)
               IN  [AddStep(acc, L, in, rem, fee, 0, FALSE, C.tick) EXCEPT !.ok = TRUE]
                      @@ [end |-> [C EXCEPT !.sqrt = RNorm(a1)], left |-> RZero]

IdealOut(C, zfo, amt) == WalkOut(C, zfo, amt, Acc0)
---------------------------------------------------------------------------
(* by price: what the curve prescribes for moving the price from C.sqrt to `target` (a sqrt price in the    *)
(* swap direction): gross input (fee included), output, fee.  ok = FALSE: the ticks run out before target.  *)
RECURSIVE WalkTo(_, _, _, _)
WalkTo(C, zfo, target, acc) ==
    IF (IF zfo THEN RLe(C.sqrt, target) ELSE RLe(target, C.sqrt)) THEN [acc EXCEPT !.ok = TRUE] @@ [end |-> C]
    ELSE IF NextTicks(C, zfo) = {} THEN [acc EXCEPT !.ok = FALSE] @@ [end |-> C]
    ELSE
      LET t   == NextTick(C, zfo)
          b0  == C.ticks[t].sqrt
          b   == IF zfo THEN RMax(b0, target) ELSE RMin(b0, target)
          hit == REq(b, b0)
          a   == C.sqrt
          L   == C.liq
          in  == IF zfo THEN Amt0(L, b, a) ELSE Amt1(L, a, b)
          out == IF zfo THEN Amt1(L, b, a) ELSE Amt0(L, a, b)
          fee == FeeOn(C, in)
          C1  == IF hit THEN Cross(C, zfo, t) ELSE [C EXCEPT !.sqrt = b]
      IN  WalkTo(C1, zfo, target, AddStep(acc, L, in, out, fee, t, hit, C.tick))

IdealTo(C, zfo, target) == WalkTo(C, zfo, target, Acc0)
=============================================================================
