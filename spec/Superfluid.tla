----------------------------- MODULE Superfluid -----------------------------
(***************************************************************************)
(* x/superfluid on top of x/lockup (spec/Lockup.tla).  Property C11:        *)
(* stake tracks locks, supply is neutral, locks stay bonded.                *)
(*                                                                         *)
(* State added to Lockup                                                    *)
(*   synth   synthetic locks ("markers"): set of                            *)
(*           [id, k, d, v, end, dur]   k = "B" (superbonding: the lock is    *)
(*           staked through validator v) / "U" (superunbonding: it is being  *)
(*           unstaked, until time `end`); d = denomination of the lock       *)
(*   conn    lock id -> <<d, v>>: the intermediary account the lock is      *)
(*           delegated through                                              *)
(*   ias     intermediary accounts: <<d, v>> -> gauge id (allocated by the  *)
(*           code, only required to be fresh)                               *)
(*   deleg   <<d, v>> -> OSMO staked by the intermediary account with v     *)
(*   mult    superfluid denomination -> OSMO-equivalent multiplier (raw Dec: *)
(*           value * Scale), as stored at the last epoch                    *)
(*   pool    superfluid denomination -> [num, den]: the live pool state the *)
(*           next multiplier is computed from (OSMO backing / shares);      *)
(*           moves with swaps, the stored multiplier does not               *)
(*   supply  [raw, off]: bank supply of the bond denom and its supply       *)
(*           offset; what users are shown is raw + off                      *)
(*   env     [vals, unbond, risk, unit, cl]: validators, staking unbonding  *)
(*           time, minimum risk factor (raw Dec), base units per counted    *)
(*           unit of each share denomination, the CL share denominations    *)
(*           (never in an owner's balance: minted into / burned from the    *)
(*           lockup module account); constant within a history              *)
(* and two ghosts for the tolerance between epochs:                         *)
(*   slack   <<d, v>> -> number of individually rounded per-lock            *)
(*           conversions (delegate / undelegate / top-up; a partial         *)
(*           undelegate-and-unbond and the enlargement of a concentrated    *)
(*           position count two) since the account's stake was last set     *)
(*           exactly                                                        *)
(*   base    <<d, v>> -> 1 if that exact value was itself a rounded         *)
(*           non-zero amount, else 0                                        *)
(*                                                                         *)
(* Numbers.  Lock amounts, times and ids are small native integers as in    *)
(* Lockup (a lock amount n of denomination d stands for n * env.unit[d]     *)
(* base units).  OSMO amounts, multipliers and supply go through the        *)
(* interface NAdd/NSub/NMul/NLe/NOfNat/NFloorDiv (native in the bounded     *)
(* model, BigNum on traces); Scale = raw units per 1.0 of a Dec.            *)
(*                                                                         *)
(* The value the property compares the stake with                           *)
(*   Expected(a) = RiskAdjusted( Round( mult[d] * total(a) ) )              *)
(*   total(a)    = sum of the lock records currently connected to a         *)
(*   RiskAdjusted(x) = x - Round( x * risk )                                *)
(* with Round = to nearest integer, ties to even (the rounding documented   *)
(* for Dec.RoundInt; GetSuperfluidOSMOTokens / GetRiskAdjustedOsmoValue).   *)
(* It is computed from the lock table, never from the accumulation store    *)
(* the code uses.                                                           *)
(*                                                                         *)
(* What is taken from the log and what is demanded.  An epoch sets every     *)
(* account's stake to Expected exactly (the action computes it; the trace    *)
(* spec compares with the staking keeper).  Between epochs the code mints /  *)
(* burns the separately rounded value of the one lock concerned; that        *)
(* rounding is left open: the new stake `nd` is an input, and TracksExpected *)
(* bounds the drift: every conversion, the exact base and Expected itself    *)
(* are each within < 1 base unit of the real-valued amount, so               *)
(*     | deleg[a] - Expected(a) | <= base[a] + slack[a]   (0 when slack = 0) *)
(* ("one base unit per lock" counted per converted lock; counting only the   *)
(* locks currently connected would be false for correct code: delegate x,    *)
(* top up y, undelegate leaves f(x) + f(y) - f(x + y) in {-1, 0, 1} with no  *)
(* lock connected).  The bounded model proves the bound for the code's      *)
(* arithmetic.  Bank supply and offset after each minting / burning step are *)
(* inputs as well; SupplyNeutral demands raw + off unchanged.               *)
(***************************************************************************)
EXTENDS Lockup, Sequences

CONSTANTS Scale, NAdd(_, _), NSub(_, _), NMul(_, _), NLe(_, _), NOfNat(_), NFloorDiv(_, _)

VARIABLES synth, conn, ias, deleg, mult, pool, supply, env, slack, base

sfvars  == <<synth, conn, ias, deleg, mult, pool, supply, env, slack, base>>
allvars == <<locks, bal, modBal, now, lastId, refs, accum, op, synth, conn, ias, deleg, mult, pool, supply, env, slack, base>>

---------------------------------------------------------------------------
(* numbers *)
N0 == NOfNat(0)
N1 == NOfNat(1)
N2 == NOfNat(2)
NEq(a, b) == NLe(a, b) /\ NLe(b, a)
NLt(a, b) == ~NLe(b, a)
AbsDiff(a, b) == IF NLe(a, b) THEN NSub(b, a) ELSE NSub(a, b)
IsEven(q) == NEq(NMul(NFloorDiv(q, N2), N2), q)
\* n / d to the nearest integer, ties to even (n >= 0, d > 0)
RoundHE(n, d) ==
    LET q == NFloorDiv(n, d)
        r2 == NMul(N2, NSub(n, NMul(q, d))) IN
    IF NLt(r2, d) THEN q
    ELSE IF NLt(d, r2) THEN NAdd(q, N1)
    ELSE IF IsEven(q) THEN q ELSE NAdd(q, N1)

RiskAdjusted(x) == NSub(x, RoundHE(NMul(x, env.risk), Scale))
\* OSMO value of n counted units of denomination d under multipliers m
ValueWith(m, d, n) ==
    IF d \notin DOMAIN m THEN N0
    ELSE RiskAdjusted(RoundHE(NMul(m[d], NMul(NOfNat(n), env.unit[d])), Scale))
Value(d, n) == ValueWith(mult, d, n)

---------------------------------------------------------------------------
(* markers, connections *)
Marker(id, k, d, v, end, dur) == [id |-> id, k |-> k, d |-> d, v |-> v, end |-> end, dur |-> dur]
MarkersOf(id) == {s \in synth : s.id = id}
Free(id)      == MarkersOf(id) = {} /\ id \notin DOMAIN conn
SFDenoms      == DOMAIN mult
SingleCoin(id) == Cardinality(DenomsOf(locks[id].coins)) = 1
DenomOfLock(id) == CHOOSE d \in Denoms : locks[id].coins[d] > 0

ConnectedTo(C, a) == {id \in DOMAIN C : C[id] = a}
TotalOf(L, C, a)  == AmountIn(L, ConnectedTo(C, a) \cap DOMAIN L, a[1])
Total(a)          == TotalOf(locks, conn, a)
Expected(a)       == Value(a[1], Total(a))

Reported(s) == NAdd(s.raw, s.off)

EmptyF == [x \in {} |-> 0]
Get(f, a, dflt) == IF a \in DOMAIN f THEN f[a] ELSE dflt
Set(f, a, x)    == [y \in DOMAIN f \cup {a} |-> IF y = a THEN x ELSE f[y]]
Without(f, S)   == [y \in DOMAIN f \ S |-> f[y]]

UnchangedLockup == UNCHANGED <<locks, bal, modBal, now, lastId, refs, accum>>

---------------------------------------------------------------------------
SFInitWith(b, t0, id0, e, m, p, s) ==
    /\ InitWith(b, t0, id0)
    /\ synth = {} /\ conn = EmptyF /\ ias = EmptyF /\ deleg = EmptyF
    /\ mult = m /\ pool = p /\ supply = s /\ env = e
    /\ slack = EmptyF /\ base = EmptyF

---------------------------------------------------------------------------
(* the superfluid side of a delegation of lock id (denomination d) to v:     *)
(* intermediary account (created with a fresh gauge when new), connection,   *)
(* bonded marker, stake nd and bank supply ns as the code left them          *)
DelegateEffects(id, d, v, gauge, nd, ns) ==
    LET a == <<d, v>> IN
    /\ v \in env.vals
    /\ d \in SFDenoms
    /\ IF a \in DOMAIN ias THEN ias' = ias
       ELSE /\ \A b \in DOMAIN ias : ias[b] # gauge
            /\ ias' = Set(ias, a, gauge)
    /\ conn' = Set(conn, id, a)
    /\ synth' = synth \cup {Marker(id, "B", d, v, 0, env.unbond)}
    /\ deleg' = Set(deleg, a, nd)
    /\ slack' = Set(slack, a, Get(slack, a, 0) + 1)
    /\ base' = Set(base, a, Get(base, a, 0))
    /\ supply' = ns
    /\ UNCHANGED <<mult, env>>

(* MsgSuperfluidDelegate *)
CanDelegate(id, o, v) ==
    /\ id \in Ids /\ locks[id].owner = o
    /\ SingleCoin(id) /\ DenomOfLock(id) \in SFDenoms
    /\ ~Unlocking(locks[id]) /\ locks[id].dur >= env.unbond
    /\ Free(id)
    /\ v \in env.vals

SFDelegate(id, o, v, gauge, nd, ns) ==
    /\ CanDelegate(id, o, v)
    /\ DelegateEffects(id, DenomOfLock(id), v, gauge, nd, ns)
    /\ op' = "sfdelegate"
    /\ UNCHANGED pool
    /\ UnchangedLockup

(* MsgSuperfluidUndelegate: the stake of this lock is burnt at once, the lock *)
(* keeps an unbonding marker for the unbonding period                         *)
CanUndelegate(id, o) == id \in DOMAIN conn /\ id \in Ids /\ locks[id].owner = o

UndelegateEffects(id, mid, nd, ns) ==      \* mid: the lock that carries the unbonding marker
    LET a == conn[id] IN
    /\ conn' = Without(conn, {id})
    /\ synth' = (synth \ MarkersOf(id)) \cup {Marker(mid, "U", a[1], a[2], now + env.unbond, env.unbond)}
    /\ deleg' = Set(deleg, a, nd)
    /\ slack' = Set(slack, a, Get(slack, a, 0) + 1)
    /\ supply' = ns
    /\ UNCHANGED <<ias, mult, pool, env, base>>

SFUndelegate(id, o, nd, ns) ==
    /\ CanUndelegate(id, o)
    /\ UndelegateEffects(id, id, nd, ns)
    /\ op' = "sfundelegate"
    /\ UnchangedLockup

(* MsgSuperfluidUnbondLock: an undelegating lock starts unlocking (whole)    *)
CanUnbond(id, o) ==
    /\ id \in Ids /\ locks[id].owner = o
    /\ \E s \in synth : MarkersOf(id) = {s} /\ s.k = "U"
    /\ ~Unlocking(locks[id])

SFUnbondLock(id, o) ==
    /\ CanUnbond(id, o)
    /\ BeginUnlock(id, o, ZeroCoins, id)
    /\ UNCHANGED sfvars

(* MsgSuperfluidUndelegateAndUnbondLock(amt): everything -> undelegate and   *)
(* start unlocking; a part -> the lock is split: the new lock nid takes amt, *)
(* starts unlocking and carries the unbonding marker, the rest stays         *)
(* delegated (its stake is re-minted: two conversions)                       *)
CanUndelegateAndUnbond(id, o, amt) ==
    /\ CanUndelegate(id, o)
    /\ amt > 0 /\ amt <= locks[id].coins[conn[id][1]]

SFUndelegateAndUnbond(id, o, amt, nid, nd, ns) ==
    LET a == conn[id]
        d == a[1] IN
    /\ CanUndelegateAndUnbond(id, o, amt)
    /\ IF amt = locks[id].coins[d]
       THEN /\ nid = id
            /\ UndelegateEffects(id, id, nd, ns)
            /\ BeginUnlock(id, o, ZeroCoins, id)
       ELSE /\ BeginUnlock(id, o, One(d, amt), nid)
            /\ synth' = synth \cup {Marker(nid, "U", d, a[2], now + env.unbond, env.unbond)}
            /\ deleg' = Set(deleg, a, nd)
            /\ slack' = Set(slack, a, Get(slack, a, 0) + 2)
            /\ supply' = ns
            /\ UNCHANGED <<conn, ias, mult, pool, env, base>>

(* lockup calls that add tokens to a lock: when the lock is delegated the    *)
(* hook mints and stakes the value of the added tokens                       *)
TopUpEffects(id, nd, ns) ==
    IF id \in DOMAIN conn
    THEN /\ deleg' = Set(deleg, conn[id], nd)
         /\ slack' = Set(slack, conn[id], Get(slack, conn[id], 0) + 1)
         /\ supply' = ns
         /\ UNCHANGED <<synth, conn, ias, mult, pool, env, base>>
    ELSE UNCHANGED sfvars

SFLockTokens(o, d, dur, amt, id, nd, ns) ==
    /\ LockTokens(o, d, dur, amt, id)
    /\ TopUpEffects(id, nd, ns)

SFAddTokens(id, o, d, amt, nd, ns) ==
    /\ AddTokens(id, o, d, amt)
    /\ TopUpEffects(id, nd, ns)

(* MsgLockAndSuperfluidDelegate: MsgLockTokens for the unbonding time (a new *)
(* lock, or more tokens into the owner's free lock of that duration), then   *)
(* MsgSuperfluidDelegate of that lock                                        *)
SFLockAndDelegate(o, d, amt, v, id, gauge, nd, ns) ==
    /\ LockTokens(o, d, env.unbond, amt, id)
    /\ id \in Ids => (Free(id) /\ SingleCoin(id))
    /\ DelegateEffects(id, d, v, gauge, nd, ns)
    /\ UNCHANGED pool

(* MsgCreateFullRangePositionAndSuperfluidDelegate: the concentrated-liquidity *)
(* module mints amt shares (its choice) straight into a new lock of the        *)
(* unbonding time, which is then delegated; the position adds to the pool's     *)
(* full-range liquidity (np: the pool afterwards)                              *)
CLCreateAndDelegate(o, d, amt, v, id, gauge, nd, ns, np) ==
    LET lk == Lock(o, env.unbond, 0, One(d, amt), "") IN
    /\ o \in Owners /\ d \in env.cl /\ amt > 0
    /\ id > lastId
    /\ locks' = Put(locks, id, lk)
    /\ refs' = refs \cup AddRefs(lk, id)
    /\ accum' = AccAdd(accum, d, env.unbond, amt)
    /\ modBal' = [modBal EXCEPT ![d] = @ + amt]
    /\ lastId' = id
    /\ op' = "clcreate"
    /\ UNCHANGED <<bal, now>>
    /\ DelegateEffects(id, d, v, gauge, nd, ns)
    /\ pool' = [pool EXCEPT ![d] = np]

(* MsgAddToConcentratedLiquiditySuperfluidPosition (the top-up of a concentrated *)
(* position): the delegated lock id is undelegated (its stake burnt) and        *)
(* force-unlocked (its shares burnt), the position is withdrawn and re-created  *)
(* larger: amt shares (the module's choice) are minted into the new lock nid,   *)
(* which is delegated to the same validator (two conversions).  The old lock    *)
(* is not paid out: it is replaced.                                             *)
CanCLAdd(id, o) ==
    /\ id \in DOMAIN conn /\ id \in Ids /\ locks[id].owner = o
    /\ conn[id][1] \in env.cl
    /\ ~Unlocking(locks[id]) /\ locks[id].dur = env.unbond

CLAddToPosition(id, o, amt, nid, nd, ns, np) ==
    LET a == conn[id]
        d == a[1]
        old == locks[id]
        lk == Lock(o, env.unbond, 0, One(d, amt), "") IN
    /\ CanCLAdd(id, o)
    /\ amt > 0 /\ nid > lastId
    /\ locks' = Put(Drop(locks, {id}), nid, lk)
    /\ refs' = (refs \ DelRefs("N", old, id)) \cup AddRefs(lk, nid)
    /\ accum' = AccAdd(AccDropLocks(accum, locks, {id}), d, env.unbond, amt)
    /\ modBal' = [modBal EXCEPT ![d] = @ - old.coins[d] + amt]
    /\ lastId' = nid
    /\ op' = "cladd"
    /\ UNCHANGED <<bal, now>>
    /\ conn' = Set(Without(conn, {id}), nid, a)
    /\ synth' = (synth \ MarkersOf(id)) \cup {Marker(nid, "B", d, a[2], 0, env.unbond)}
    /\ deleg' = Set(deleg, a, nd)
    /\ slack' = Set(slack, a, Get(slack, a, 0) + 2)
    /\ supply' = ns
    /\ pool' = [pool EXCEPT ![d] = np]
    /\ UNCHANGED <<ias, mult, env, base>>

(* lockup entry points on locks the superfluid module has a hold on           *)
SFBeginUnlock(id, o, c, nid) ==
    /\ id \in Ids => MarkersOf(id) = {}            \* refused while delegated or undelegating
    /\ BeginUnlock(id, o, c, nid)
    /\ UNCHANGED sfvars

SFBeginUnlockAll(o) ==
    /\ \A id \in Ids : (locks[id].owner = o /\ ~Unlocking(locks[id])) => MarkersOf(id) = {}
    /\ BeginUnlockAll(o)
    /\ UNCHANGED sfvars

\* MsgForceUnlock (owners on the lockup parameter list): refused like every other withdrawal while the lock is held
SFForce(id, o, c, nid, allowed) ==
    /\ id \in Ids => MarkersOf(id) = {}
    /\ ForceUnlock(id, o, c, nid, allowed)
    /\ UNCHANGED sfvars

SFExtend(id, o, nd) ==
    /\ id \in Ids => MarkersOf(id) = {}
    /\ ExtendLockup(id, o, nd)
    /\ UNCHANGED sfvars

SFUnlock(id) ==
    /\ id \in Ids => MarkersOf(id) = {}
    /\ UnlockMatured(id)
    /\ UNCHANGED sfvars

(* lockup EndBlocker: matured markers are deleted, then matured locks are     *)
(* paid out; a lock whose marker is still running is not paid out            *)
DeadMarkers == {s \in synth : s.k = "U" /\ s.end <= now}
SFSweep ==
    /\ \A id \in MaturedIds : MarkersOf(id) \subseteq DeadMarkers
    /\ synth' = synth \ DeadMarkers
    /\ WithdrawMatured(MaturedIds)
    /\ UNCHANGED <<conn, ias, deleg, mult, pool, supply, env, slack, base>>

(* a swap (or any other pool operation) moves the pool; nothing else moves   *)
PriceMove(d, np) ==
    /\ d \in DOMAIN pool
    /\ pool' = [pool EXCEPT ![d] = np]
    /\ op' = "swap"
    /\ UnchangedLockup
    /\ UNCHANGED <<synth, conn, ias, deleg, mult, supply, env, slack, base>>

(* a block that does not start an epoch *)
SFAdvance(dt) ==
    /\ AdvanceTime(dt)
    /\ UNCHANGED sfvars

(* the multiplier of d is the pool's OSMO per share: within one raw unit of   *)
(* num * Scale / den (which way the last digit is rounded is left open)       *)
MultFromPool(m, p) ==
    /\ NLe(N0, m)
    /\ NLt(AbsDiff(NMul(m, p.den), NMul(p.num, Scale)), p.den)

(* a block that starts an epoch (AfterEpochStartBeginBlock): multipliers are  *)
(* refreshed from the pools, then every intermediary account's stake is set   *)
(* to the expected amount: minted up or burnt down                            *)
Epoch(dt, nm, ns) ==
    /\ dt >= 0
    /\ DOMAIN nm = SFDenoms
    /\ \A d \in SFDenoms : MultFromPool(nm[d], pool[d])
    /\ now' = now + dt
    /\ mult' = nm
    /\ deleg' = [a \in DOMAIN deleg |-> ValueWith(nm, a[1], Total(a))]
    /\ slack' = [a \in DOMAIN deleg |-> 0]
    /\ base' = [a \in DOMAIN deleg |-> IF Total(a) > 0 THEN 1 ELSE 0]
    /\ supply' = ns
    /\ op' = "epoch"
    /\ UNCHANGED <<locks, bal, modBal, lastId, refs, accum, synth, conn, ias, pool, env>>

(* OSMO minted or burnt by somebody else (fee / reward funding in the driver) *)
FundSupply(ns) ==
    /\ supply' = ns
    /\ op' = "fund"
    /\ UnchangedLockup
    /\ UNCHANGED <<synth, conn, ias, deleg, mult, pool, env, slack, base>>

SFRefused ==
    /\ Refused
    /\ UNCHANGED sfvars

---------------------------------------------------------------------------
(* properties: states *)
Accounts == DOMAIN deleg

TypeOKSF ==
    /\ DOMAIN ias = Accounts /\ DOMAIN slack = Accounts /\ DOMAIN base = Accounts
    /\ \A a \in Accounts : a[1] \in SFDenoms /\ a[2] \in env.vals /\ NLe(N0, deleg[a]) /\ slack[a] >= 0
    /\ \A a, b \in Accounts : ias[a] = ias[b] => a = b
    /\ env.unbond > 0

\* every delegated lock has exactly one marker, the bonded one of its account; every marker belongs
\* to a live lock that has no other; a bonded marker means delegated; an unbonding one means not
MarkersExact ==
    /\ \A id \in DOMAIN conn :
        /\ id \in Ids /\ conn[id] \in Accounts
        /\ MarkersOf(id) = {Marker(id, "B", conn[id][1], conn[id][2], 0, env.unbond)}
        /\ DenomsOf(locks[id].coins) = {conn[id][1]}
    /\ \A s \in synth :
        /\ s.id \in Ids /\ MarkersOf(s.id) = {s} /\ s.k \in {"B", "U"}
        /\ s.k = "B" => (s.id \in DOMAIN conn /\ s.end = 0)
        /\ s.k = "U" => (s.id \notin DOMAIN conn /\ s.end > 0 /\ s.dur = env.unbond)

\* a delegated lock is bonded: not unlocking, and locked for at least the unbonding time
StaysBonded == \A id \in DOMAIN conn : ~Unlocking(locks[id]) /\ locks[id].dur >= env.unbond

\* an undelegating lock cannot come out before its marker ends
LockOutlivesMarker ==
    \A s \in synth : s.k = "U" =>
        /\ s.end <= now + env.unbond
        /\ locks[s.id].dur >= env.unbond
        /\ Unlocking(locks[s.id]) => locks[s.id].end >= s.end

\* stake = risk-adjusted OSMO value of exactly the locks delegated through the account:
\* exactly when nothing was converted since it was last set, else within one unit per conversion
Tolerance(a) == IF slack[a] = 0 THEN 0 ELSE base[a] + slack[a]
TracksExpected == \A a \in Accounts : NLe(AbsDiff(deleg[a], Expected(a)), NOfNat(Tolerance(a)))

---------------------------------------------------------------------------
(* properties: steps *)
SFCont == op' \notin {"init", "fund"}

\* all superfluid minting and burning leaves the supply shown to users unchanged
SupplyNeutral == [][SFCont => NEq(Reported(supply'), Reported(supply))]_allvars

\* an unbonding marker lasts the unbonding period: it only goes away once matured
MarkerLasts ==
    [][SFCont => \A s \in synth : s.k = "U" => (s \in synth' \/ now' >= s.end)]_allvars

\* a lock that goes away is not delegated and any marker it had has matured
\* (the replacement of a concentrated position's lock by a larger one is not a payout)
WithdrawAfterUndelegation ==
    [][(SFCont /\ op' # "cladd") => \A id \in Gone : id \notin DOMAIN conn /\ \A s \in MarkersOf(id) : s.k = "U" /\ now' >= s.end]_allvars

\* a lock that starts unlocking is not delegated afterwards
NoUnlockWhileDelegated ==
    [][SFCont => \A id \in Kept : (~Unlocking(locks[id]) /\ Unlocking(locks'[id])) => id \notin DOMAIN conn']_allvars

\* the stored multiplier and the environment only change at an epoch
MultiplierOnlyAtEpoch == [][(SFCont /\ op' # "epoch") => (mult' = mult /\ env' = env)]_allvars

\* Lockup's time lock with the replacement of a concentrated position's lock as a second exception
TimeLockedSF ==
    [][Cont => \A id \in Gone : op' \in {"force", "cladd"} \/ (Unlocking(locks[id]) /\ now' >= locks[id].end)]_allvars

\* Lockup's conservation law, for the denominations owners can hold
ConservedSF ==
    [][Cont => \A o \in Owners : \A d \in Denoms \ env.cl :
          bal'[o][d] + AmountIn(locks', OwnedBy(locks', o), d) = bal[o][d] + AmountIn(locks, OwnedBy(locks, o), d)]_allvars
=============================================================================
