------------------------------- MODULE Lockup -------------------------------
(***************************************************************************)
(* x/lockup: time-locked deposits with secondary indexes.  Property C06.    *)
(*                                                                         *)
(* Abstract state                                                           *)
(*   locks    id -> [owner, dur, end, coins, rr]   (end = 0: not unlocking; *)
(*            coins : [Denoms -> Nat]; rr = "" : rewards go to the owner)   *)
(*   bal      owner -> denom -> spendable balance                           *)
(*   modBal   denom -> balance of the lockup module account                 *)
(*   now      block time (integer seconds from an arbitrary origin, >= 0)   *)
(*   lastId   last lock id handed out (ids are allocated by the code; the   *)
(*            spec only requires them to be fresh)                          *)
(* and the two secondary structures the property is about, updated by each  *)
(* action the way lock.go / lock_refs.go update them:                       *)
(*   refs     the reference index: set of <<u, owner, denom, tk, v, id>>    *)
(*            u in {"N","U"} (not unlocking / unlocking queue), owner and   *)
(*            denom "" when the key has no such component, tk in {"D","T"}  *)
(*            (v is a duration / an end time);                              *)
(*   accum    the accumulation store: <<denom, duration>> -> amount (only   *)
(*            non-zero entries), queried as "amount locked for >= d".       *)
(*   op       name of the last action ("init" at the start of a history).   *)
(*                                                                         *)
(* No CONSTANTS: owners and denominations are the domains of bal / modBal,  *)
(* every action is an operator with explicit parameters, so that bounded    *)
(* models, trace specs and extending modules (Incentives, Superfluid) can   *)
(* drive the same definitions.  All numbers are small native integers.      *)
(***************************************************************************)
EXTENDS Integers, FiniteSets

VARIABLES locks, bal, modBal, now, lastId, refs, accum, op

vars == <<locks, bal, modBal, now, lastId, refs, accum, op>>

Owners == DOMAIN bal
Denoms == DOMAIN modBal
Ids    == DOMAIN locks

---------------------------------------------------------------------------
(* coins *)
ZeroCoins    == [d \in Denoms |-> 0]
One(d, a)    == [x \in Denoms |-> IF x = d THEN a ELSE 0]
CAdd(a, b)   == [d \in Denoms |-> a[d] + b[d]]
CSub(a, b)   == [d \in Denoms |-> a[d] - b[d]]
CLe(a, b)    == \A d \in Denoms : a[d] <= b[d]
DenomsOf(c)  == {d \in DOMAIN c : c[d] > 0}

RECURSIVE SumF(_, _)     \* sum of f[x] over x in S
SumF(f, S) == IF S = {} THEN 0 ELSE LET x == CHOOSE y \in S : TRUE IN f[x] + SumF(f, S \ {x})

\* sum of the coins of the locks S of lock table L
AmountIn(L, S, d) == SumF([id \in S |-> L[id].coins[d]], S)
CoinsIn(L, S)     == [d \in Denoms |-> AmountIn(L, S, d)]

Lock(o, dur, end, coins, rr) == [owner |-> o, dur |-> dur, end |-> end, coins |-> coins, rr |-> rr]
Unlocking(lk) == lk.end # 0
Max(a, b) == IF a >= b THEN a ELSE b

Put(L, id, lk) == [x \in DOMAIN L \cup {id} |-> IF x = id THEN lk ELSE L[x]]
Drop(L, S)     == [x \in DOMAIN L \ S |-> L[x]]

---------------------------------------------------------------------------
(* reference index, as lock_refs.go / utils.go build the keys *)
DurKeys(lk, id) ==
    {<<"", "", "D", lk.dur, id>>, <<lk.owner, "", "D", lk.dur, id>>}
    \cup UNION {{<<"", d, "D", lk.dur, id>>, <<lk.owner, d, "D", lk.dur, id>>} : d \in DenomsOf(lk.coins)}
TimeKeys(lk, id) ==
    {<<"", "", "T", lk.end, id>>, <<lk.owner, "", "T", lk.end, id>>}
    \cup UNION {{<<"", d, "T", lk.end, id>>, <<lk.owner, d, "T", lk.end, id>>} : d \in DenomsOf(lk.coins)}
AllKeys(lk, id) == DurKeys(lk, id) \cup TimeKeys(lk, id)          \* lockRefKeys
Pref(u, K) == {<<u, k[1], k[2], k[3], k[4], k[5]>> : k \in K}
\* addLockRefs: duration keys only while not unlocking, all keys once unlocking
AddRefs(lk, id) == IF Unlocking(lk) THEN Pref("U", AllKeys(lk, id)) ELSE Pref("N", DurKeys(lk, id))
\* deleteLockRefs(prefix, lock): all keys under the given queue prefix
DelRefs(u, lk, id) == Pref(u, AllKeys(lk, id))

DerivedRefs(L) == UNION {AddRefs(L[id], id) : id \in DOMAIN L}

---------------------------------------------------------------------------
(* accumulation store *)
AccGet(A, d, k) == IF <<d, k>> \in DOMAIN A THEN A[<<d, k>>] ELSE 0
AccAdd(A, d, k, v) ==
    LET n == AccGet(A, d, k) + v
        D == IF n = 0 THEN DOMAIN A \ {<<d, k>>} ELSE DOMAIN A \cup {<<d, k>>}
    IN  [p \in D |-> IF p = <<d, k>> THEN n ELSE A[p]]
RECURSIVE AccAddCoins(_, _, _, _, _)     \* add sgn * c[d] at duration k for every d in Ds
AccAddCoins(A, c, k, sgn, Ds) ==
    IF Ds = {} THEN A
    ELSE LET d == CHOOSE y \in Ds : TRUE IN AccAddCoins(AccAdd(A, d, k, sgn * c[d]), c, k, sgn, Ds \ {d})
RECURSIVE AccDropLocks(_, _, _)          \* remove the locks S of table L
AccDropLocks(A, L, S) ==
    IF S = {} THEN A
    ELSE LET id == CHOOSE y \in S : TRUE
         IN AccDropLocks(AccAddCoins(A, L[id].coins, L[id].dur, -1, DOMAIN L[id].coins), L, S \ {id})
\* the query: amount of denom d locked for at least duration x
AccAtLeast(A, d, x) ==
    LET P == {p \in DOMAIN A : p[1] = d /\ p[2] >= x} IN SumF([p \in P |-> A[p]], P)

---------------------------------------------------------------------------
InitWith(b, t0, id0) ==
    /\ locks = [x \in {} |-> 0]
    /\ bal = b
    /\ modBal = [d \in DOMAIN b[CHOOSE o \in DOMAIN b : TRUE] |-> 0]
    /\ now = t0
    /\ lastId = id0
    /\ refs = {}
    /\ accum = [x \in {} |-> 0]
    /\ op = "init"

---------------------------------------------------------------------------
(* MsgLockTokens: adds to an existing not-unlocking lock of the same owner,  *)
(* denom and duration when there is one (id is then that lock), otherwise    *)
(* creates lock `id` (fresh).                                                *)
Matching(o, d, dur) ==
    {id \in Ids : locks[id].owner = o /\ ~Unlocking(locks[id]) /\ locks[id].dur = dur /\ locks[id].coins[d] > 0}

CanLock(o, d, dur, amt) ==
    o \in Owners /\ d \in Denoms /\ dur > 0 /\ amt > 0 /\ bal[o][d] >= amt

Deposit(o, d, amt) ==
    /\ bal' = [bal EXCEPT ![o][d] = @ - amt]
    /\ modBal' = [modBal EXCEPT ![d] = @ + amt]

LockTokens(o, d, dur, amt, id) ==
    /\ CanLock(o, d, dur, amt)
    /\ Deposit(o, d, amt)
    /\ accum' = AccAdd(accum, d, dur, amt)
    /\ IF Matching(o, d, dur) = {}
       THEN LET lk == Lock(o, dur, 0, One(d, amt), "") IN
            /\ id > lastId
            /\ AddRefs(lk, id) \cap refs = {}
            /\ locks' = Put(locks, id, lk)
            /\ refs' = refs \cup AddRefs(lk, id)
            /\ lastId' = id
       ELSE /\ id \in Matching(o, d, dur)
            /\ locks' = [locks EXCEPT ![id].coins = CAdd(@, One(d, amt))]
            /\ UNCHANGED <<refs, lastId>>
    /\ op' = "lock"
    /\ UNCHANGED now

(* keeper AddTokensToLockByID with a coin of a denomination the lock holds   *)
CanAdd(id, o, d, amt) ==
    /\ id \in Ids /\ o \in Owners /\ d \in Denoms
    /\ locks[id].owner = o /\ locks[id].coins[d] > 0 /\ amt > 0 /\ bal[o][d] >= amt

AddTokens(id, o, d, amt) ==
    /\ CanAdd(id, o, d, amt)
    /\ Deposit(o, d, amt)
    /\ accum' = AccAdd(accum, d, locks[id].dur, amt)
    /\ locks' = [locks EXCEPT ![id].coins = CAdd(@, One(d, amt))]
    /\ op' = "add"
    /\ UNCHANGED <<now, refs, lastId>>

(* MsgBeginUnlocking: c = ZeroCoins or all coins of the lock: the whole lock *)
(* starts unlocking (result id = the lock); otherwise the lock is split: the *)
(* new lock nid (fresh) takes c and starts unlocking, stored without refs in *)
(* the not-unlocking queue (SplitLock) and then moved to the unlocking one.  *)
CanBegin(id, o, c) ==
    id \in Ids /\ locks[id].owner = o /\ CLe(c, locks[id].coins) /\ ~Unlocking(locks[id])
IsWhole(id, c) == c = ZeroCoins \/ c = locks[id].coins

BeginUnlock(id, o, c, nid) ==
    /\ CanBegin(id, o, c)
    /\ IF IsWhole(id, c)
       THEN LET lk == [locks[id] EXCEPT !.end = now + locks[id].dur] IN
            /\ nid = id
            /\ locks' = [locks EXCEPT ![id] = lk]
            /\ refs' = (refs \ DelRefs("N", locks[id], id)) \cup AddRefs(lk, id)
            /\ UNCHANGED lastId
       ELSE LET sp0 == Lock(o, locks[id].dur, 0, c, locks[id].rr)
                sp  == [sp0 EXCEPT !.end = now + locks[id].dur] IN
            /\ nid > lastId
            /\ locks' = Put([locks EXCEPT ![id].coins = CSub(@, c)], nid, sp)
            /\ refs' = (refs \ DelRefs("N", sp0, nid)) \cup AddRefs(sp, nid)
            /\ lastId' = nid
    /\ op' = "begin"
    /\ UNCHANGED <<bal, modBal, now, accum>>

(* MsgBeginUnlockingAll: every not-unlocking lock of the owner *)
BeginUnlockAll(o) ==
    LET S == {id \in Ids : locks[id].owner = o /\ ~Unlocking(locks[id])}
        L2 == [id \in Ids |-> IF id \in S THEN [locks[id] EXCEPT !.end = now + locks[id].dur] ELSE locks[id]] IN
    /\ o \in Owners
    /\ locks' = L2
    /\ refs' = (refs \ UNION {DelRefs("N", locks[id], id) : id \in S}) \cup UNION {AddRefs(L2[id], id) : id \in S}
    /\ op' = "beginall"
    /\ UNCHANGED <<bal, modBal, now, lastId, accum>>

(* coins of the locks S go back to their owners; records, refs, accumulation *)
(* entries disappear (unlockMaturedLockInternalLogic)                        *)
Release(S) ==
    /\ bal' = [o \in Owners |-> CAdd(bal[o], CoinsIn(locks, {id \in S : locks[id].owner = o}))]
    /\ modBal' = CSub(modBal, CoinsIn(locks, S))
    /\ locks' = Drop(locks, S)
    /\ refs' = refs \ UNION {DelRefs("U", locks[id], id) : id \in S}
    /\ accum' = AccDropLocks(accum, locks, S)

Matured(id) == Unlocking(locks[id]) /\ now >= locks[id].end
MaturedIds == {id \in Ids : Matured(id)}

(* keeper UnlockMaturedLock *)
CanUnlock(id) == id \in Ids /\ Matured(id)
UnlockMatured(id) ==
    /\ CanUnlock(id)
    /\ Release({id})
    /\ op' = "unlock"
    /\ UNCHANGED <<now, lastId>>

(* WithdrawMaturedLocks (EndBlocker sweep): some matured locks; which ones a *)
(* bounded sweep takes is left open here (callers fix S)                     *)
WithdrawMatured(S) ==
    /\ S \subseteq MaturedIds
    /\ Release(S)
    /\ op' = "withdraw"
    /\ UNCHANGED <<now, lastId>>

(* MsgExtendLockup *)
CanExtend(id, o, nd) ==
    id \in Ids /\ locks[id].owner = o /\ ~Unlocking(locks[id]) /\ nd > locks[id].dur
ExtendLockup(id, o, nd) ==
    LET lk == [locks[id] EXCEPT !.dur = nd] IN
    /\ CanExtend(id, o, nd)
    /\ locks' = [locks EXCEPT ![id] = lk]
    /\ refs' = (refs \ DelRefs("N", locks[id], id)) \cup AddRefs(lk, id)
    /\ accum' = AccAddCoins(AccAddCoins(accum, lk.coins, locks[id].dur, -1, Denoms), lk.coins, nd, 1, Denoms)
    /\ op' = "extend"
    /\ UNCHANGED <<bal, modBal, now, lastId>>

(* MsgSetRewardReceiverAddress *)
RawReceiver(id, r) == IF r = locks[id].owner THEN "" ELSE r
CanSetReceiver(id, o, r) ==
    id \in Ids /\ locks[id].owner = o /\ RawReceiver(id, r) # locks[id].rr
SetRewardReceiver(id, o, r) ==
    /\ CanSetReceiver(id, o, r)
    /\ locks' = [locks EXCEPT ![id].rr = RawReceiver(id, r)]
    /\ op' = "setrr"
    /\ UNCHANGED <<bal, modBal, now, lastId, refs, accum>>

(* MsgForceUnlock: administrative exception to the time lock, only for owners *)
(* listed in the module parameters (`allowed`): c (or everything) goes back   *)
(* to the owner at once, whatever the state of the lock.  A partial one      *)
(* splits first and consumes the id nid.                                     *)
CanForce(id, o, c, allowed) ==
    id \in Ids /\ locks[id].owner = o /\ o \in allowed /\ CLe(c, locks[id].coins)
ForceUnlock(id, o, c, nid, allowed) ==
    /\ CanForce(id, o, c, allowed)
    /\ IF IsWhole(id, c)
       THEN LET lk == IF Unlocking(locks[id]) THEN locks[id] ELSE [locks[id] EXCEPT !.end = now + locks[id].dur] IN
            /\ locks' = Drop(locks, {id})
            /\ refs' = (refs \ DelRefs("N", locks[id], id)) \ DelRefs("U", lk, id)
            /\ bal' = [bal EXCEPT ![o] = CAdd(@, locks[id].coins)]
            /\ modBal' = CSub(modBal, locks[id].coins)
            /\ accum' = AccDropLocks(accum, locks, {id})
            /\ UNCHANGED lastId
       ELSE /\ nid > lastId
            /\ locks' = [locks EXCEPT ![id].coins = CSub(@, c)]
            /\ bal' = [bal EXCEPT ![o] = CAdd(@, c)]
            /\ modBal' = CSub(modBal, c)
            /\ accum' = AccAddCoins(accum, c, locks[id].dur, -1, Denoms)
            /\ lastId' = nid
            /\ UNCHANGED refs
    /\ op' = "force"
    /\ UNCHANGED now

AdvanceTime(dt) ==
    /\ dt >= 0
    /\ now' = now + dt
    /\ op' = "advance"
    /\ UNCHANGED <<locks, bal, modBal, lastId, refs, accum>>

(* a call the module refused: nothing changes *)
Refused ==
    /\ op' = "refused"
    /\ UNCHANGED <<locks, bal, modBal, now, lastId, refs, accum>>

---------------------------------------------------------------------------
(* queries as filters over a lock table L at time t (what each by-owner /    *)
(* by-denom / by-duration / by-time query must return).  Boundaries as       *)
(* documented in iterator.go: "after time" is strict, "before time" and      *)
(* "longer duration" are inclusive, "shorter duration" is strict; a lock     *)
(* that is not unlocking counts as if it started unlocking at t.             *)
Sel(L, P(_)) == {id \in DOMAIN L : P(L[id])}
PastTime(lk, t, ts)   == IF Unlocking(lk) THEN lk.end > ts ELSE lk.dur >= Max(0, ts - t)
BeforeTime(lk, t, ts) == IF Unlocking(lk) THEN lk.end <= ts ELSE (ts >= t /\ lk.dur < ts - t)
Has(lk, d) == d \in DOMAIN lk.coins /\ lk.coins[d] > 0

QPeriodLocks(L)                      == DOMAIN L
QAccountPeriodLocks(L, o)            == Sel(L, LAMBDA lk : lk.owner = o)
QAccountUnlockable(L, t, o)          == Sel(L, LAMBDA lk : lk.owner = o /\ Unlocking(lk) /\ lk.end <= t)
QAccountUnlocking(L, t, o)           == Sel(L, LAMBDA lk : lk.owner = o /\ Unlocking(lk) /\ lk.end > t)
QAccountLocked(L, t, o)              == Sel(L, LAMBDA lk : lk.owner = o /\ (~Unlocking(lk) \/ lk.end > t))
QAccountPastTime(L, t, o, ts)        == Sel(L, LAMBDA lk : lk.owner = o /\ PastTime(lk, t, ts))
QAccountPastTimeNU(L, t, o, ts)      == Sel(L, LAMBDA lk : lk.owner = o /\ ~Unlocking(lk) /\ PastTime(lk, t, ts))
QAccountBeforeTime(L, t, o, ts)      == Sel(L, LAMBDA lk : lk.owner = o /\ BeforeTime(lk, t, ts))
QAccountPastTimeDenom(L, t, o, d, ts) == Sel(L, LAMBDA lk : lk.owner = o /\ Has(lk, d) /\ PastTime(lk, t, ts))
QAccountDurationNUDenom(L, o, d, x)  == Sel(L, LAMBDA lk : lk.owner = o /\ Has(lk, d) /\ ~Unlocking(lk) /\ lk.dur = x)
QAccountLonger(L, o, x)              == Sel(L, LAMBDA lk : lk.owner = o /\ lk.dur >= x)
QAccountDuration(L, o, x)            == Sel(L, LAMBDA lk : lk.owner = o /\ lk.dur = x)
QAccountLongerNU(L, o, x)            == Sel(L, LAMBDA lk : lk.owner = o /\ ~Unlocking(lk) /\ lk.dur >= x)
QAccountLongerDenom(L, o, d, x)      == Sel(L, LAMBDA lk : lk.owner = o /\ Has(lk, d) /\ lk.dur >= x)
QAccountLongerDenomNU(L, o, d, x)    == Sel(L, LAMBDA lk : lk.owner = o /\ Has(lk, d) /\ ~Unlocking(lk) /\ lk.dur >= x)
QPastTimeDenom(L, t, d, ts)          == Sel(L, LAMBDA lk : Has(lk, d) /\ PastTime(lk, t, ts))
QLongerDenom(L, d, x)                == Sel(L, LAMBDA lk : Has(lk, d) /\ lk.dur >= x)
QModuleLocked(L, t)                  == Sel(L, LAMBDA lk : ~Unlocking(lk) \/ lk.end > t)
\* amount of d locked for at least x (what the accumulation store must answer)
LockedAtLeast(L, d, x) == AmountIn(L, QLongerDenom(L, d, x), d)

(* the same queries evaluated the way the code does: range scans of refs *)
Scan(R, u, o, d, tk, P(_)) == {r[6] : r \in {r \in R : r[1] = u /\ r[2] = o /\ r[3] = d /\ r[4] = tk /\ P(r[5])}}
AnyV(v) == TRUE
RPeriodLocks(R)                 == Scan(R, "U", "", "", "D", AnyV) \cup Scan(R, "N", "", "", "D", AnyV)
RAccountPeriodLocks(R, o)       == Scan(R, "U", o, "", "D", AnyV) \cup Scan(R, "N", o, "", "D", AnyV)
RAccountUnlockable(R, t, o)     == Scan(R, "U", o, "", "T", LAMBDA v : v <= t)
RAccountUnlocking(R, t, o)      == Scan(R, "U", o, "", "T", LAMBDA v : v > t)
RAccountLocked(R, t, o)         == Scan(R, "N", o, "", "D", AnyV) \cup Scan(R, "U", o, "", "T", LAMBDA v : v > t)
RAccountPastTime(R, t, o, ts)   == Scan(R, "U", o, "", "T", LAMBDA v : v > ts)
                                   \cup Scan(R, "N", o, "", "D", LAMBDA v : v >= Max(0, ts - t))
RAccountBeforeTime(R, t, o, ts) == Scan(R, "U", o, "", "T", LAMBDA v : v <= ts)
                                   \cup (IF ts < t THEN {} ELSE Scan(R, "N", o, "", "D", LAMBDA v : v < ts - t))
RAccountPastTimeDenom(R, t, o, d, ts) == Scan(R, "U", o, d, "T", LAMBDA v : v > ts)
                                   \cup Scan(R, "N", o, d, "D", LAMBDA v : v >= Max(0, ts - t))
RAccountDurationNUDenom(R, o, d, x) == Scan(R, "N", o, d, "D", LAMBDA v : v = x)
RAccountLonger(R, o, x)         == Scan(R, "U", o, "", "D", LAMBDA v : v >= x) \cup Scan(R, "N", o, "", "D", LAMBDA v : v >= x)
RAccountDuration(R, o, x)       == Scan(R, "U", o, "", "D", LAMBDA v : v = x) \cup Scan(R, "N", o, "", "D", LAMBDA v : v = x)
RAccountLongerNU(R, o, x)       == Scan(R, "N", o, "", "D", LAMBDA v : v >= x)
RAccountLongerDenomNU(R, o, d, x) == Scan(R, "N", o, d, "D", LAMBDA v : v >= x)
RAccountPastTimeNU(R, t, o, ts) == Scan(R, "N", o, "", "D", LAMBDA v : v >= Max(0, ts - t))
RAccountLongerDenom(R, o, d, x) == Scan(R, "U", o, d, "D", LAMBDA v : v >= x) \cup Scan(R, "N", o, d, "D", LAMBDA v : v >= x)
RPastTimeDenom(R, t, d, ts)     == Scan(R, "U", "", d, "T", LAMBDA v : v > ts)
                                   \cup Scan(R, "N", "", d, "D", LAMBDA v : v >= Max(0, ts - t))
RLongerDenom(R, d, x)           == Scan(R, "U", "", d, "D", LAMBDA v : v >= x) \cup Scan(R, "N", "", d, "D", LAMBDA v : v >= x)
RModuleLocked(R, t)             == Scan(R, "N", "", "", "D", AnyV) \cup Scan(R, "U", "", "", "T", LAMBDA v : v > t)

\* index scans = filters, for parameters from the given finite sets
ScansAgree(Ts, Xs) ==
    /\ RPeriodLocks(refs) = QPeriodLocks(locks)
    /\ RModuleLocked(refs, now) = QModuleLocked(locks, now)
    /\ \A o \in Owners :
        /\ RAccountPeriodLocks(refs, o) = QAccountPeriodLocks(locks, o)
        /\ RAccountUnlockable(refs, now, o) = QAccountUnlockable(locks, now, o)
        /\ RAccountUnlocking(refs, now, o) = QAccountUnlocking(locks, now, o)
        /\ RAccountLocked(refs, now, o) = QAccountLocked(locks, now, o)
        /\ \A ts \in Ts :
            /\ RAccountPastTime(refs, now, o, ts) = QAccountPastTime(locks, now, o, ts)
            /\ RAccountBeforeTime(refs, now, o, ts) = QAccountBeforeTime(locks, now, o, ts)
            /\ RAccountPastTimeNU(refs, now, o, ts) = QAccountPastTimeNU(locks, now, o, ts)
            /\ \A d \in Denoms : RAccountPastTimeDenom(refs, now, o, d, ts) = QAccountPastTimeDenom(locks, now, o, d, ts)
        /\ \A x \in Xs :
            /\ RAccountLonger(refs, o, x) = QAccountLonger(locks, o, x)
            /\ RAccountDuration(refs, o, x) = QAccountDuration(locks, o, x)
            /\ RAccountLongerNU(refs, o, x) = QAccountLongerNU(locks, o, x)
            /\ \A d \in Denoms :
                /\ RAccountLongerDenom(refs, o, d, x) = QAccountLongerDenom(locks, o, d, x)
                /\ RAccountLongerDenomNU(refs, o, d, x) = QAccountLongerDenomNU(locks, o, d, x)
                /\ RAccountDurationNUDenom(refs, o, d, x) = QAccountDurationNUDenom(locks, o, d, x)
    /\ \A d \in Denoms :
        /\ \A ts \in Ts : RPastTimeDenom(refs, now, d, ts) = QPastTimeDenom(locks, now, d, ts)
        /\ \A x \in Xs : RLongerDenom(refs, d, x) = QLongerDenom(locks, d, x)

---------------------------------------------------------------------------
(* properties: state invariants *)
TypeOK ==
    /\ \A id \in Ids :
        /\ locks[id].owner \in Owners
        /\ locks[id].dur > 0 /\ locks[id].end >= 0
        /\ DOMAIN locks[id].coins = Denoms
        /\ \A d \in Denoms : locks[id].coins[d] >= 0
        /\ DenomsOf(locks[id].coins) # {}
        /\ id <= lastId
    /\ \A o \in Owners : \A d \in Denoms : bal[o][d] >= 0
    /\ now >= 0

\* the module account holds exactly the sum of all live locks' coins
ModuleHoldsLocked == \A d \in Denoms : modBal[d] = AmountIn(locks, Ids, d)

\* "amount locked for at least duration x" is exact for every denomination and every x
\* (the answer only changes at durations that occur in locks or in the store)
AccumProbes == {0} \cup {locks[id].dur : id \in Ids} \cup {p[2] : p \in DOMAIN accum}
                   \cup {locks[id].dur + 1 : id \in Ids}
AccumExact == \A d \in Denoms : \A x \in AccumProbes : AccAtLeast(accum, d, x) = LockedAtLeast(locks, d, x)

\* the reference index is exactly the one derived from the lock records
RefsExact == refs = DerivedRefs(locks)

\* an unlocking lock ends at (time unlocking began) + duration >= now-at-begin; in particular
\* nothing is unlocking with an end time in the past of its own duration
EndAfterDuration == \A id \in Ids : Unlocking(locks[id]) => locks[id].end >= locks[id].dur

---------------------------------------------------------------------------
(* properties: steps (guarded so that the start of a new history in a        *)
(* concatenated trace is not a step)                                         *)
Cont == op' # "init"
Gone == Ids \ DOMAIN locks'
Kept == Ids \cap DOMAIN locks'
New  == DOMAIN locks' \ Ids

\* a lock's coins never come back before unlock start + duration
\* (MsgForceUnlock, restricted by a governance parameter, is the stated exception)
TimeLocked ==
    [][Cont => \A id \in Gone : op' = "force" \/ (Unlocking(locks[id]) /\ now' >= locks[id].end)]_vars

\* unlocking starts at the current time and the schedule is never shortened afterwards;
\* the owner of a lock never changes; a duration never shrinks
ScheduleFixed ==
    [][Cont =>
        /\ now' >= now
        /\ \A id \in Kept :
            /\ locks'[id].owner = locks[id].owner
            /\ locks'[id].dur >= locks[id].dur
            /\ Unlocking(locks[id]) => (locks'[id].end = locks[id].end /\ locks'[id].dur = locks[id].dur)
            /\ (~Unlocking(locks[id]) /\ Unlocking(locks'[id])) => locks'[id].end = now' + locks'[id].dur
        /\ \A id \in New : Unlocking(locks'[id]) => locks'[id].end = now' + locks'[id].dur
      ]_vars

\* owner balance + locked amount is conserved; with the owner of a lock fixed this is also
\* "coins return only to the owner"
OwnedBy(L, o) == {id \in DOMAIN L : L[id].owner = o}
Conserved ==
    [][Cont => \A o \in Owners : \A d \in Denoms :
          bal'[o][d] + AmountIn(locks', OwnedBy(locks', o), d) = bal[o][d] + AmountIn(locks, OwnedBy(locks, o), d)]_vars
=============================================================================
