---------------------------- MODULE TakerFeeDist ----------------------------
(***************************************************************************)
(* x/poolmanager + x/txfees: what happens to a taker fee AFTER it has been  *)
(* charged.  Extra check X06.  (C02/C05 decide the amount a swap charges and *)
(* that it reaches the taker fee collector; this specification starts there.)*)
(*                                                                         *)
(* WHAT A USER OF THIS CODE RELIES ON (x/poolmanager/README.md "Taker Fees",*)
(* x/txfees/README.md "Epoch Hooks", the doc comments of taker_fee.go,       *)
(* store.go, protorev.go, txfees/keeper/hooks.go and types/keys.go, and the  *)
(* evident intent; not the implementation):                                  *)
(*                                                                         *)
(* At the time of a swap                                                     *)
(*  S1 ALL of a charged taker fee sits in the taker fee collector and        *)
(*     NOTHING else moves because of it ("nothing is done with any taker fee *)
(*     funds until epoch").                                                  *)
(*  S2 For EVERY denomination of the route that has a taker-fee-share        *)
(*     agreement, the agreement's accumulator for each fee denomination      *)
(*     grows by EXACTLY its skim percent of the route's total fee in that    *)
(*     denomination, rounded down (never more than the share, less than one  *)
(*     unit below it); percentages of several agreements are additive; an    *)
(*     agreement whose denomination is NOT in the route accrues NOTHING.     *)
(*  S3 ONLY IF the route has no agreement denomination, the registered       *)
(*     alloyed denominations of the route contribute the agreements of their *)
(*     underlying assets, each scaled by the asset's weight in the pool as   *)
(*     snapshotted at registration / recalculation.                          *)
(*  S4 A swap whose applicable skim percentages exceed 100% NEVER goes       *)
(*     through; a swap that fails changes NOTHING (no fee, no accrual).      *)
(*  S5 Accumulators NEVER decrease and skim addresses NEVER receive anything *)
(*     outside the epoch-end distribution; the noted amounts are ALWAYS      *)
(*     covered by the collector's balance (as long as no payout was ever     *)
(*     withheld), so the payout cannot fail for lack of funds.               *)
(*  S6 A transaction that fails leaves NO trace, and there is ONE set of      *)
(*     agreements: what a swap sees is ALWAYS exactly the stored agreements, *)
(*     whatever module the swap enters through.                              *)
(*                                                                         *)
(* At the end of an epoch (txfees AfterEpochEnd, any epoch identifier)       *)
(*  E1 NEVER fails, whatever the state; total supply of EVERY denomination   *)
(*     is unchanged (the burn share is a transfer to the null address) and   *)
(*     every unit is accounted for: the ledgers of the collectors, the       *)
(*     destinations, the skim addresses and the rest of the chain (pools,    *)
(*     users) ALWAYS add up to the supply - no coin of the supply is EVER    *)
(*     held by nobody; no ledger is ever negative.                           *)
(*  E2 Non-native tx fees: every coin of the non-native fee collector that   *)
(*     has a route is swapped to the base denomination; ALL base coins of    *)
(*     that collector then go to the staking rewards buffer.                 *)
(*  E3 Skim: every agreement's noted coins are sent to the agreement's       *)
(*     CURRENT skim address, EXACTLY the noted amounts, and its accumulators *)
(*     are cleared - or, when the payout is impossible (no stored agreement, *)
(*     address cannot receive, collector cannot cover it), NOTHING is sent   *)
(*     and the accumulators are KEPT.  Paid exactly once, never lost.        *)
(*  E4 Base-denomination fees (after the skim): the community pool, the null *)
(*     address (burn) and the staking rewards buffer receive EXACTLY their   *)
(*     configured share of the collector's balance, rounded down; what       *)
(*     remains (less than 3 units) is treated like any other coin of the     *)
(*     collector (E5).                                                       *)
(*  E5 Every other coin of the collector: the community-pool share (rounded  *)
(*     down) goes DIRECTLY to the community pool if the denomination is      *)
(*     whitelisted, otherwise to the community-pool collector; the burn      *)
(*     share (rounded down) to the burn collector; EVERYTHING that remains   *)
(*     to the stakers collector.  The taker fee collector is EMPTY afterwards.*)
(*  E6 Each intermediate collector (community pool -> the configured         *)
(*     denomination, burn -> base, stakers -> base): a denomination is       *)
(*     swapped ONLY IF a route exists (a protorev link of the pair, or two   *)
(*     links through a configured intermediary); a swap takes the WHOLE      *)
(*     balance of that denomination or - when it fails - NOTHING at all      *)
(*     (failures are contained and leave the funds in place); the proceeds   *)
(*     go EXACTLY to the community pool / null address / staking buffer.     *)
(*  E7 NOTHING is stranded: after the epoch end no collector holds coins of  *)
(*     the denomination it converts into (they need no swap, so nothing can  *)
(*     prevent their delivery), the non-native fee collector holds no base   *)
(*     coins and the taker fee collector is empty.                           *)
(*  E8 Trackers: the community-pool / burn / stakers tracker of a            *)
(*     denomination grows by EXACTLY what was delivered to the community     *)
(*     pool / null address / staking buffer out of taker fees in that        *)
(*     denomination; trackers NEVER decrease and change ONLY at epoch end.   *)
(*  E9 Smoothing: at the end of a "day" epoch EXACTLY floor(buffer /         *)
(*     smoothing factor) of the base denomination moves from the buffer to   *)
(*     the fee collector (after this epoch's deliveries); at any other epoch *)
(*     NOTHING leaves the buffer.  The buffer, the collectors and the        *)
(*     destinations NEVER lose coins between epoch ends.                     *)
(*                                                                         *)
(* The amount of a fee (C02/C05), the output of a pool swap (C03/C04), which *)
(* swaps fail, ids and error texts are INPUTS taken from the log.            *)
(*                                                                         *)
(* AfterEpochEnd is one call of the code; here it is the sequence of phases  *)
(* Start, NonNative, Skim, BaseSplit, OtherSplit, CommunityPool, Burn,       *)
(* Stakers, Smooth, so that E1 is evaluated in every intermediate state.     *)
(*                                                                         *)
(* Numbers are abstract (NAdd, ...): native integers in the bounded model,   *)
(* BigNum on recorded executions.  Percentages and shares are fixed point    *)
(* with unit NUnit (4 in the bounded model, 10^18 in the code).              *)
(***************************************************************************)
EXTENDS Integers, Sequences, FiniteSets

CONSTANTS NAdd(_, _), NSub(_, _), NMul(_, _), NLe(_, _), NFloorDiv(_, _), NZero, NUnit

VARIABLES
    cf,      \* configuration [id, denoms : set, base, addrs : set of skim address names, blocked : subset of addrs,
             \*   osmo, non : [st, cp, burn : share], wl : set of denoms, cpt : denom, smooth : Num,
             \*   inter : Seq(denom), links : set of {a, b}]
    agr,     \* stored agreements: [denoms with an agreement -> [pct, addr]]
    seen,    \* the agreements swaps see
    alloy,   \* registered alloyed denominations: [alloyed denom -> Seq([a : denom, pct, addr])]
    bal,     \* ledgers [account -> [denom -> Num]]
    accr,    \* skim accumulators [agreement denom -> [fee denom -> Num]]
    trk,     \* trackers [st, cp, burn : [denom -> Num]]
    phase,   \* "idle" or the phase of the running epoch end
    ep,      \* scratch of the running epoch end [ident, buf0 : buffer ledger at its start]
    gh       \* ghost [supply : [denom -> Num], withheld : BOOLEAN, epochs : Nat]

vars == <<cf, agr, seen, alloy, bal, accr, trk, phase, ep, gh>>

Collectors == {"tc", "cpc", "stc", "buc", "nn"}
\* "rest": every other account of the chain (pools, users); "void": coins of the supply that NO account holds
Fixed == Collectors \cup {"buf", "fc", "cp", "null", "rest", "void"}
Accts == Fixed \cup cf.addrs
Denoms == cf.denoms
Base == cf.base

NLt(a, b) == ~NLe(b, a)
ZeroF == [d \in Denoms |-> NZero]

RECURSIVE SumOver(_, _)          \* sum of f[x] over the finite set S
SumOver(S, f) == IF S = {} THEN NZero
                 ELSE LET x == CHOOSE y \in S : TRUE IN NAdd(f[x], SumOver(S \ {x}, f))
RECURSIVE SumSeqBy(_, _, _)      \* sum of Op-values of a sequence
SumSeqBy(s, i, f) == IF i > Len(s) THEN NZero ELSE NAdd(f[i], SumSeqBy(s, i + 1, f))

Share(x, p) == NFloorDiv(NMul(x, p), NUnit)

\* f : [Denoms -> Num] moves from one ledger to another
Move(b, from, to, f) ==
    IF from = to THEN b
    ELSE [a \in DOMAIN b |-> [d \in Denoms |->
            IF a = from THEN NSub(b[a][d], f[d])
            ELSE IF a = to THEN NAdd(b[a][d], f[d]) ELSE b[a][d]]]
Only(d, x) == [e \in Denoms |-> IF e = d THEN x ELSE NZero]
AddF(f, g) == [d \in Denoms |-> NAdd(f[d], g[d])]

Ep0 == [ident |-> "", buf0 |-> NZero]

InitWith(c, a, s, al, b, ac, t) ==
    /\ cf = c /\ agr = a /\ seen = s /\ alloy = al /\ bal = b /\ accr = ac /\ trk = t
    /\ phase = "idle" /\ ep = Ep0
    /\ gh = [supply |-> [d \in c.denoms |-> SumOver(DOMAIN b, [x \in DOMAIN b |-> b[x][d]])],
             withheld |-> FALSE, epochs |-> 0]

---------------------------------------------------------------------------
(* a swap through the router: fee[d] = total taker fee the route charged in *)
(* denomination d (input); route = the set of denominations of the route    *)

RECURSIVE SeqOfSet(_)
SeqOfSet(S) == IF S = {} THEN <<>> ELSE LET x == CHOOSE y \in S : TRUE IN <<x>> \o SeqOfSet(S \ {x})
RECURSIVE Flat(_)
Flat(ss) == IF ss = <<>> THEN <<>> ELSE Head(ss) \o Flat(Tail(ss))

\* S2 / S3: the agreement entries that apply to a route, given the agreements sv and compositions av the swap sees
ApplicableIn(sv, av, route) ==
    LET direct == route \cap DOMAIN sv IN
    IF direct # {}
    THEN LET ds == SeqOfSet(direct) IN [i \in 1..Len(ds) |-> [a |-> ds[i], pct |-> sv[ds[i]].pct]]
    ELSE LET ls == SeqOfSet(route \cap DOMAIN av) IN
         Flat([i \in 1..Len(ls) |-> [k \in 1..Len(av[ls[i]]) |-> [a |-> av[ls[i]][k].a, pct |-> av[ls[i]][k].pct]]])
Applicable(route) == ApplicableIn(seen, alloy, route)

SumPct(parts) == SumSeqBy(parts, 1, [i \in 1..Len(parts) |-> parts[i].pct])
AccrInc(parts, a, x) == SumSeqBy(parts, 1, [i \in 1..Len(parts) |-> IF parts[i].a = a THEN Share(x, parts[i].pct) ELSE NZero])

Rejected == UNCHANGED vars          \* S4, S6: a failed transaction changes nothing

\* sv, av: the agreements and compositions this swap sees (S6: always `seen`, `alloy`)
SwapVia(sv, av, route, fee, ok) ==
    /\ phase = "idle"
    /\ IF ~ok THEN Rejected
       ELSE LET parts == ApplicableIn(sv, av, route) IN
            /\ NLe(SumPct(parts), NUnit)                                          \* S4
            /\ \A d \in Denoms : NLe(NZero, fee[d]) /\ (fee[d] # NZero => d \in route)
            /\ bal' = Move(bal, "rest", "tc", fee)                                \* S1
            /\ accr' = [a \in Denoms |-> [d \in Denoms |-> NAdd(accr[a][d], AccrInc(parts, a, fee[d]))]]   \* S2
            /\ UNCHANGED <<cf, agr, seen, alloy, trk, phase, ep, gh>>
Swap(route, fee, ok) == SwapVia(seen, alloy, route, fee, ok)

---------------------------------------------------------------------------
(* governance and environment                                               *)

\* the alloyed compositions after a recalculation are inputs (na), constrained by AlloyWithin in the
\* trace specification and computed exactly in the bounded model
SetAgreement(d, pct, addr, ok, na) ==
    /\ phase = "idle"
    /\ IF ~ok THEN Rejected
       ELSE /\ d \in Denoms /\ addr \in cf.addrs
            /\ NLe(NZero, pct) /\ NLe(pct, NUnit)
            /\ agr' = [x \in DOMAIN agr \cup {d} |-> IF x = d THEN [pct |-> pct, addr |-> addr] ELSE agr[x]]
            /\ seen' = [x \in DOMAIN seen \cup {d} |-> IF x = d THEN [pct |-> pct, addr |-> addr] ELSE seen[x]]
            /\ alloy' = na /\ DOMAIN na = DOMAIN alloy
            /\ UNCHANGED <<cf, bal, accr, trk, phase, ep, gh>>

\* an alloyed pool is registered / every composition is recalculated (end of every 700th block)
SetAlloy(na) ==
    /\ phase = "idle"
    /\ alloy' = na
    /\ UNCHANGED <<cf, agr, seen, bal, accr, trk, phase, ep, gh>>

\* parameters, whitelist, protorev links, intermediaries change (other modules / governance)
Reconfigure(c) ==
    /\ phase = "idle"
    /\ c.id = cf.id /\ c.denoms = cf.denoms /\ c.base = cf.base /\ c.addrs = cf.addrs
    /\ cf' = c
    /\ UNCHANGED <<agr, seen, alloy, bal, accr, trk, phase, ep, gh>>

\* coins arrive in a collector from the rest of the chain (non-native tx fees in "nn")
Deposit(acct, f) ==
    /\ phase = "idle"
    /\ acct \in Collectors
    /\ \A d \in Denoms : NLe(NZero, f[d])
    /\ bal' = Move(bal, "rest", acct, f)
    /\ UNCHANGED <<cf, agr, seen, alloy, accr, trk, phase, ep, gh>>

\* coins are issued to / withdrawn from the rest of the chain (f may be negative)
Issue(f) ==
    /\ phase = "idle"
    /\ bal' = [bal EXCEPT !["rest"] = AddF(@, f)]
    /\ gh' = [gh EXCEPT !.supply = AddF(@, f)]
    /\ UNCHANGED <<cf, agr, seen, alloy, accr, trk, phase, ep>>

---------------------------------------------------------------------------
(* the end of an epoch                                                      *)

Linked(a, b) == {a, b} \in cf.links
HasRoute(d, t) ==
    \/ Linked(d, t)
    \/ \E i \in 1..Len(cf.inter) : LET m == cf.inter[i] IN m \notin {d, t} /\ Linked(d, m) /\ Linked(m, t)

EpochStart(ident) ==
    /\ phase = "idle"
    /\ phase' = "nn"
    /\ ep' = [ident |-> ident, buf0 |-> bal["buf"][Base]]
    /\ UNCHANGED <<cf, agr, seen, alloy, bal, accr, trk, gh>>

\* E6: collector c swaps the denominations sw (whole balance each) into t and receives out[d] for each;
\* every other denomination stays where it is
CanSwap(c, t, sw, out) ==
    /\ sw \subseteq Denoms \ {t}
    /\ \A d \in sw : NLt(NZero, bal[c][d]) /\ HasRoute(d, t) /\ NLe(NZero, out[d])
    /\ \A d \in Denoms \ sw : out[d] = NZero
Swapped(b, c, t, sw, out) ==
    LET tot == SumOver(sw, out) IN
    [a \in DOMAIN b |-> [d \in Denoms |->
        IF a = c THEN (IF d \in sw THEN NZero ELSE IF d = t THEN NAdd(b[a][d], tot) ELSE b[a][d])
        ELSE IF a = "rest" THEN (IF d \in sw THEN NAdd(b[a][d], b[c][d]) ELSE IF d = t THEN NSub(b[a][d], tot) ELSE b[a][d])
        ELSE b[a][d]]]

\* what collector c hands to its destination after its swaps: the proceeds, and (E7) whatever else it holds
\* of the target denomination; held = TRUE is the design, held = FALSE hands over the proceeds only
Handed(b1, c, t, sw, out, held) == IF held THEN b1[c][t] ELSE SumOver(sw, out)

\* E2
NonNative(sw, out) ==
    /\ phase = "nn"
    /\ CanSwap("nn", Base, sw, out)
    /\ LET b1 == Swapped(bal, "nn", Base, sw, out) IN
       bal' = Move(b1, "nn", "buf", Only(Base, b1["nn"][Base]))
    /\ phase' = "skim"
    /\ UNCHANGED <<cf, agr, seen, alloy, accr, trk, ep, gh>>

\* E3
HasAccr(a) == \E d \in Denoms : accr[a][d] # NZero
Payable(a) == a \in DOMAIN agr /\ agr[a].addr \notin cf.blocked
Owed(P) == [d \in Denoms |-> SumOver(P, [a \in P |-> accr[a][d]])]
Covered(P) == \A d \in Denoms : NLe(Owed(P)[d], bal["tc"][d])
PaySet(P) ==
    /\ P \subseteq {a \in Denoms : HasAccr(a) /\ Payable(a)}
    /\ Covered(P)
    /\ \A a \in Denoms \ P : (HasAccr(a) /\ Payable(a)) => ~Covered(P \cup {a})     \* nobody is left out without need
RECURSIVE PayAll(_, _)
PayAll(b, P) == IF P = {} THEN b
                ELSE LET a == CHOOSE x \in P : TRUE IN PayAll(Move(b, "tc", agr[a].addr, accr[a]), P \ {a})

\* na = the accumulators after the payout: cleared for the paid agreements
SkimTo(P, na) ==
    /\ phase = "skim"
    /\ PaySet(P)
    /\ bal' = PayAll(bal, P)
    /\ \A a \in P : na[a] = ZeroF
    /\ accr' = na
    /\ gh' = [gh EXCEPT !.withheld = @ \/ \E a \in Denoms \ P : HasAccr(a)]
    /\ phase' = "osmo"
    /\ UNCHANGED <<cf, agr, seen, alloy, trk, ep>>
\* ... and KEPT for all others (E3)
AfterPayout(P) == [a \in Denoms |-> IF a \in P THEN ZeroF ELSE accr[a]]
Skim(P) == SkimTo(P, AfterPayout(P))

\* E4
BaseSplit ==
    /\ phase = "osmo"
    /\ LET b == bal["tc"][Base]
           c == Share(b, cf.osmo.cp)
           u == Share(b, cf.osmo.burn)
           s == Share(b, cf.osmo.st)
       IN  /\ bal' = Move(Move(Move(bal, "tc", "cp", Only(Base, c)), "tc", "null", Only(Base, u)), "tc", "buf", Only(Base, s))
           /\ trk' = [st |-> AddF(trk.st, Only(Base, s)), cp |-> AddF(trk.cp, Only(Base, c)), burn |-> AddF(trk.burn, Only(Base, u))]
    /\ phase' = "non"
    /\ UNCHANGED <<cf, agr, seen, alloy, accr, ep, gh>>

\* E5
OtherSplit ==
    /\ phase = "non"
    /\ LET x == bal["tc"]
           c == [d \in Denoms |-> Share(x[d], cf.non.cp)]
           u == [d \in Denoms |-> Share(x[d], cf.non.burn)]
           s == [d \in Denoms |-> NSub(NSub(x[d], c[d]), u[d])]
           cw == [d \in Denoms |-> IF d \in cf.wl THEN c[d] ELSE NZero]      \* whitelisted: straight to the community pool
           cn == [d \in Denoms |-> IF d \in cf.wl THEN NZero ELSE c[d]]
       IN  /\ bal' = Move(Move(Move(Move(bal, "tc", "cp", cw), "tc", "cpc", cn), "tc", "buc", u), "tc", "stc", s)
           /\ trk' = [trk EXCEPT !.cp = AddF(@, cw)]
    /\ phase' = "cpc"
    /\ UNCHANGED <<cf, agr, seen, alloy, accr, ep, gh>>

\* E6 / E7 for one intermediate collector
Convert(ph, next, c, t, dest, tk, sw, out, held) ==
    /\ phase = ph
    /\ CanSwap(c, t, sw, out)
    /\ LET b1 == Swapped(bal, c, t, sw, out)
           x  == Handed(b1, c, t, sw, out, held)
       IN  /\ bal' = Move(b1, c, dest, Only(t, x))
           /\ trk' = [trk EXCEPT ![tk] = AddF(@, Only(t, x))]
    /\ phase' = next
    /\ UNCHANGED <<cf, agr, seen, alloy, accr, ep, gh>>

CommunityPool(sw, out, held) == Convert("cpc", "buc", "cpc", cf.cpt, "cp", "cp", sw, out, held)
Burn(sw, out, held)          == Convert("buc", "stc", "buc", Base, "null", "burn", sw, out, held)
Stakers(sw, out, held)       == Convert("stc", "smooth", "stc", Base, "buf", "st", sw, out, held)

\* E9
Smooth ==
    /\ phase = "smooth"
    /\ LET x == IF ep.ident = "day" /\ cf.smooth # NZero THEN NFloorDiv(bal["buf"][Base], cf.smooth) ELSE NZero
       IN  bal' = Move(bal, "buf", "fc", Only(Base, x))
    /\ phase' = "idle"
    /\ ep' = Ep0
    /\ gh' = [gh EXCEPT !.epochs = @ + 1]
    /\ UNCHANGED <<cf, agr, seen, alloy, accr, trk>>

---------------------------------------------------------------------------
(* properties *)

SameHistory == cf'.id = cf.id            \* trace specifications concatenate histories with a reset step

\* E1
Conservation == \A d \in Denoms : SumOver(DOMAIN bal, [a \in DOMAIN bal |-> bal[a][d]]) = gh.supply[d]
NothingVanishes == bal["void"] = ZeroF
NonNegative == \A a \in DOMAIN bal : \A d \in Denoms : NLe(NZero, bal[a][d])
AccrNonNegative == \A a \in Denoms : \A d \in Denoms : NLe(NZero, accr[a][d])

\* S5: the noted amounts are covered by the collector (between epoch ends; until a payout is withheld)
SkimBacked == (phase = "idle" /\ ~gh.withheld) =>
                 \A d \in Denoms : NLe(SumOver(Denoms, [a \in Denoms |-> accr[a][d]]), bal["tc"][d])

\* S6
CacheCoherent == seen = agr

\* only agreement denominations accrue, with well-formed percentages
AgreementsWellFormed == \A a \in DOMAIN agr : a \in Denoms /\ NLe(NZero, agr[a].pct) /\ NLe(agr[a].pct, NUnit) /\ agr[a].addr \in cf.addrs

GeF(f, g) == \A d \in Denoms : NLe(g[d], f[d])

\* S5 / E9: outside an epoch end nothing leaves the collectors, the buffer or the destinations, skim addresses
\* receive nothing and accumulators do not decrease
QuietBetweenEpochs ==
    [][(SameHistory /\ phase = "idle" /\ phase' = "idle") =>
          /\ \A a \in (DOMAIN bal) \ {"rest"} : GeF(bal'[a], bal[a])
          /\ \A a \in cf.addrs : bal'[a] = bal[a]
          /\ \A a \in Denoms : GeF(accr'[a], accr[a])]_vars

\* E8
TrackersMonotone ==
    [][SameHistory => /\ GeF(trk'.st, trk.st) /\ GeF(trk'.cp, trk.cp) /\ GeF(trk'.burn, trk.burn)
                      /\ (phase = "idle" /\ phase' = "idle" => trk' = trk)]_vars
\* what the destinations gain during an epoch end out of the three conversion phases and the two splits is what
\* the trackers gain (the non-native tx fees and the smoothing are not taker-fee deliveries)
TrackersMatchDeliveries ==
    [][(SameHistory /\ phase \in {"osmo", "non", "cpc", "buc", "stc"}) =>
          /\ \A d \in Denoms : NSub(trk'.cp[d], trk.cp[d]) = NSub(bal'["cp"][d], bal["cp"][d])
          /\ \A d \in Denoms : NSub(trk'.burn[d], trk.burn[d]) = NSub(bal'["null"][d], bal["null"][d])
          /\ \A d \in Denoms : NSub(trk'.st[d], trk.st[d]) = NSub(bal'["buf"][d], bal["buf"][d])]_vars

\* E3: paid exactly once, never lost - an accumulator changes at the skim phase only by being paid out in full
SkimExactlyOnce ==
    [][(SameHistory /\ phase = "skim") =>
          \A a \in Denoms :
              \/ accr'[a] = accr[a]
              \/ /\ accr'[a] = ZeroF /\ a \in DOMAIN agr
                 /\ \A d \in Denoms : NLe(accr[a][d], NSub(bal'[agr[a].addr][d], bal[agr[a].addr][d]))]_vars

\* E5 / E7
CollectorEmptied == [][(SameHistory /\ phase = "non") => bal'["tc"] = ZeroF]_vars
NothingStranded ==
    [][(SameHistory /\ phase # "idle" /\ phase' = "idle") =>
          /\ bal'["tc"] = ZeroF
          /\ bal'["nn"][Base] = NZero
          /\ bal'["stc"][Base] = NZero
          /\ bal'["buc"][Base] = NZero
          /\ bal'["cpc"][cf.cpt] = NZero]_vars

SourcesEmptied ==
    [][(SameHistory /\ phase # "idle" /\ phase' = "idle") => (bal'["tc"] = ZeroF /\ bal'["nn"][Base] = NZero)]_vars

\* E9
SmoothingExact ==
    [][(SameHistory /\ phase = "smooth") =>
          /\ \A a \in (DOMAIN bal) \ {"buf", "fc"} : bal'[a] = bal[a]
          /\ NSub(bal'["fc"][Base], bal["fc"][Base]) =
                (IF ep.ident = "day" /\ cf.smooth # NZero THEN NFloorDiv(bal["buf"][Base], cf.smooth) ELSE NZero)]_vars
BufferOnlyGrowsOtherwise ==
    [][(SameHistory /\ phase \notin {"smooth"}) => NLe(bal["buf"][Base], bal'["buf"][Base])]_vars

\* S4
FailedSwapChangesNothing == TRUE     \* by construction of Swap / Rejected; the trace specification checks the log
=============================================================================
