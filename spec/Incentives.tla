----------------------------- MODULE Incentives -----------------------------
(***************************************************************************)
(* x/incentives lock-based (ByDuration) gauges on top of x/lockup.          *)
(* Property C09: gauges pay pro-rata, on schedule, never more than they     *)
(* hold.                                                                    *)
(*                                                                         *)
(* State added to Lockup                                                    *)
(*   gauges   id -> [perp, denom, dur, coins, dist, filled, num, start,     *)
(*            status]: perpetual?, the lock query condition (denomination   *)
(*            and minimal duration of the locks paid), deposited coins,     *)
(*            distributed coins, filled epochs, epochs to pay over, start   *)
(*            time, and the list the gauge is kept in: "upcoming",          *)
(*            "active" or "finished"                                        *)
(*   incBal   denom -> balance of the incentives module account             *)
(*   lastGauge last gauge id handed out (ids come from the code: fresh)     *)
(*   par      configuration of the running history (fixed):                 *)
(*              minAmt   denom -> the smallest amount worth the configured  *)
(*                       minimum value (-1: not valuable at all, no route)  *)
(*              creatable  denominations accepted as rewards                *)
(*              feeDenom, createFee, addFee   message fees                  *)
(*              lockable   durations a gauge may ask for                    *)
(*              spamMax, spamExempt  constants of a rule only the code has  *)
(*   paid     ghost: gauge id -> coins ever sent to recipients              *)
(*   excused  ghost: gauges that left the active list without having paid   *)
(*            all their epochs (possible only under deviation "idlefinish") *)
(*                                                                         *)
(* Out of scope of this version: NoLock (concentrated-liquidity) gauges,    *)
(* ByGroup gauges and groups, synthetic (superfluid) denominations, gauges  *)
(* created with no coins at all.                                            *)
(*                                                                         *)
(* The epoch-end action takes a set of NAMED DEVIATIONS, rules the code has *)
(* and the property does not:                                               *)
(*   "spam"       a gauge whose only remaining coin is <= spamMax units of  *)
(*                a denomination other than spamExempt pays nothing, the    *)
(*                epoch still counts (skipSpamGaugeDistribute);             *)
(*   "idlefinish" a non-perpetual gauge with one epoch left that has no     *)
(*                qualifying lock is moved to the finished list although    *)
(*                the epoch was not counted (checkFinishDistribution looks  *)
(*                at the copy read before the distribution);                *)
(*   and a receiver override rcv: owner -> account or "": all rewards of    *)
(*   the owner's locks go to rcv[owner] instead of each lock's receiver     *)
(*   (distributionInfo is keyed by owner and keeps the receiver of the      *)
(*   first lock it meets).                                                  *)
(* With no deviation the action is the property's statement; bounded        *)
(* models check the invariants below for it.  Trace validation and replay   *)
(* follow the code (all deviations) and report every step where a deviation *)
(* changes the outcome.                                                     *)
(***************************************************************************)
EXTENDS Lockup

VARIABLES gauges, incBal, lastGauge, par, paid, excused

ivars == <<gauges, incBal, lastGauge, par, paid, excused>>
allvars == <<vars, ivars>>

GIds == DOMAIN gauges

Gauge(perp, d, dur, coins, dist, filled, num, start, status) ==
    [perp |-> perp, denom |-> d, dur |-> dur, coins |-> coins, dist |-> dist, filled |-> filled, num |-> num,
     start |-> start, status |-> status]

AllDeviations == {"spam", "idlefinish"}
NoOverride == [o \in Owners |-> ""]

Remain(g) == CSub(g.coins, g.dist)
RemEpochs(g) == IF g.perp THEN 1 ELSE g.num - g.filled
Receiver(lk) == IF lk.rr = "" THEN lk.owner ELSE lk.rr

RECURSIVE SumCoins(_, _)     \* sum of the coins f[x] over x in S
SumCoins(f, S) == IF S = {} THEN ZeroCoins ELSE LET x == CHOOSE y \in S : TRUE IN CAdd(f[x], SumCoins(f, S \ {x}))

InitIncentives(p) ==
    /\ gauges = [x \in {} |-> 0]
    /\ incBal = [d \in Denoms |-> 0]
    /\ lastGauge = 0
    /\ par = p
    /\ paid = [x \in {} |-> 0]
    /\ excused = {}

---------------------------------------------------------------------------
(* MsgCreateGauge: fee to the community pool, coins to the module account,  *)
(* the gauge starts in the upcoming list whatever its start time.           *)
Fee(amt) == One(par.feeDenom, amt)
Affordable(o, coins, fee) == CLe(CAdd(coins, Fee(fee)), bal[o])
Rewardable(coins) == DenomsOf(coins) \subseteq par.creatable

CanCreate(o, perp, d, dur, coins, start, num) ==
    /\ o \in Owners /\ d \in Denoms /\ dur \in par.lockable
    /\ DOMAIN coins = Denoms /\ (\A x \in Denoms : coins[x] >= 0) /\ coins # ZeroCoins
    /\ Rewardable(coins)
    /\ num >= 1 /\ (perp => num = 1)
    /\ Affordable(o, coins, par.createFee)

CreateGauge(o, perp, d, dur, coins, start, num, id) ==
    /\ CanCreate(o, perp, d, dur, coins, start, num)
    /\ id > lastGauge
    /\ bal' = [bal EXCEPT ![o] = CSub(@, CAdd(coins, Fee(par.createFee)))]
    /\ incBal' = CAdd(incBal, coins)
    /\ gauges' = Put(gauges, id, Gauge(perp, d, dur, coins, ZeroCoins, 0, num, start, "upcoming"))
    /\ paid' = Put(paid, id, ZeroCoins)
    /\ lastGauge' = id
    /\ op' = "create"
    /\ UNCHANGED <<locks, modBal, now, lastId, refs, accum, par, excused>>

(* MsgAddToGauge: refused once a non-perpetual gauge has filled its epochs  *)
Exhausted(g) == now >= g.start /\ ~g.perp /\ g.filled >= g.num
CanAddToGauge(o, id, coins) ==
    /\ o \in Owners /\ id \in GIds
    /\ DOMAIN coins = Denoms /\ (\A x \in Denoms : coins[x] >= 0) /\ coins # ZeroCoins
    /\ Rewardable(coins)
    /\ ~Exhausted(gauges[id])
    /\ Affordable(o, coins, par.addFee)

AddToGauge(o, id, coins) ==
    /\ CanAddToGauge(o, id, coins)
    /\ bal' = [bal EXCEPT ![o] = CSub(@, CAdd(coins, Fee(par.addFee)))]
    /\ incBal' = CAdd(incBal, coins)
    /\ gauges' = [gauges EXCEPT ![id].coins = CAdd(@, coins)]
    /\ op' = "addg"
    /\ UNCHANGED <<locks, modBal, now, lastId, refs, accum, lastGauge, par, paid, excused>>

---------------------------------------------------------------------------
(* The epoch-end hook for the distribution epoch identifier.                *)

\* upcoming gauges whose start time has come are moved to the active list first
Activated(G) ==
    [id \in DOMAIN G |-> IF G[id].status = "upcoming" /\ G[id].start <= now THEN [G[id] EXCEPT !.status = "active"] ELSE G[id]]

\* qualifying locks: every lock (unlocking or not) holding the denomination for at least the duration
Qualifying(g) == QLongerDenom(locks, g.denom, g.dur)

\* the floor of a lock's pro-rata share (amt of tot locked) of the per-epoch amount of one coin
Share(g, amt, tot, d) == (Remain(g)[d] * amt) \div (tot * RemEpochs(g))
\* amounts worth less than the configured minimum (or of a denomination with no value at all) are skipped
Valuable(a, d) == a > 0 /\ par.minAmt[d] >= 0 /\ a >= par.minAmt[d]
Payout(g, amt, tot) == [d \in Denoms |-> LET a == Share(g, amt, tot, d) IN IF Valuable(a, d) THEN a ELSE 0]

SpamRule(g) ==
    LET R == DenomsOf(Remain(g)) IN
    Cardinality(R) = 1 /\ \A d \in R : Remain(g)[d] <= par.spamMax /\ d # par.spamExempt

\* a paying epoch of an active gauge: there is somebody to pay
Counts(g) == g.status = "active" /\ Qualifying(g) # {}

\* the payments of gauge gid at this epoch end: a set of <<gauge, lock, coins>>
Payments(gid, g, devs) ==
    LET Q == Qualifying(g)
        tot == AmountIn(locks, Q, g.denom)
    IN IF g.status = "active" /\ Q # {} /\ Remain(g) # ZeroCoins /\ ~("spam" \in devs /\ SpamRule(g))
       THEN {<<gid, id, Payout(g, locks[id].coins[g.denom], tot)>> : id \in Q}
       ELSE {}
AllPayments(G, devs) == UNION {Payments(gid, G[gid], devs) : gid \in DOMAIN G}

RECURSIVE SumPay(_)
SumPay(P) == IF P = {} THEN ZeroCoins ELSE LET p == CHOOSE q \in P : TRUE IN CAdd(p[3], SumPay(P \ {p}))

\* the gauge after its distribution: spent and progress updated, finished when all epochs are filled
IdleFinish(g) == g.status = "active" /\ ~g.perp /\ ~Counts(g) /\ g.num <= g.filled + 1
Distributed(g, spent, devs) ==
    IF g.status # "active" THEN g
    ELSE LET f2 == g.filled + (IF Counts(g) THEN 1 ELSE 0)
             fin == ~g.perp /\ (f2 >= g.num \/ ("idlefinish" \in devs /\ IdleFinish(g)))
         IN [g EXCEPT !.dist = CAdd(@, spent), !.filled = f2, !.status = IF fin THEN "finished" ELSE "active"]

\* the account a lock's payment goes to
PaidTo(id, rcv) == IF rcv[locks[id].owner] = "" THEN Receiver(locks[id]) ELSE rcv[locks[id].owner]
BalancesAfter(P, rcv) == [a \in Owners |-> CAdd(bal[a], SumPay({p \in P : PaidTo(p[2], rcv) = a}))]

EpochEnd(devs, rcv) ==
    LET G == Activated(gauges)
        P == AllPayments(G, devs)
    IN
    /\ gauges' = [id \in GIds |-> Distributed(G[id], SumPay({p \in P : p[1] = id}), devs)]
    /\ bal' = BalancesAfter(P, rcv)
    /\ incBal' = CSub(incBal, SumPay(P))
    /\ paid' = [id \in GIds |-> CAdd(paid[id], SumPay({p \in P : p[1] = id}))]
    /\ excused' = excused \cup {id \in GIds : "idlefinish" \in devs /\ IdleFinish(G[id])}
    /\ op' = "epoch"
    /\ UNCHANGED <<locks, modBal, now, lastId, refs, accum, lastGauge, par>>

\* where each deviation changes the outcome of this epoch end
SpamEffective ==
    LET G == Activated(gauges) IN
    \E gid \in GIds : Counts(G[gid]) /\ SpamRule(G[gid]) /\ SumPay(Payments(gid, G[gid], {})) # ZeroCoins
IdleFinishEffective == LET G == Activated(gauges) IN \E gid \in GIds : IdleFinish(G[gid])

\* the same hook for another epoch identifier, or a call the module refused: nothing changes
Idle(name) ==
    /\ op' = name
    /\ UNCHANGED <<locks, bal, modBal, now, lastId, refs, accum, ivars>>

\* lockup actions leave the incentives state alone
LockStep(A) == A /\ UNCHANGED ivars

---------------------------------------------------------------------------
(* properties: state invariants *)
TypeOKI ==
    /\ \A id \in GIds :
        LET g == gauges[id] IN
        /\ g.perp \in BOOLEAN /\ g.denom \in Denoms /\ g.dur > 0 /\ g.num >= 1 /\ g.filled >= 0
        /\ DOMAIN g.coins = Denoms /\ DOMAIN g.dist = Denoms
        /\ \A d \in Denoms : g.coins[d] >= 0 /\ g.dist[d] >= 0
        /\ g.status \in {"upcoming", "active", "finished"}
        /\ id <= lastGauge
    /\ DOMAIN paid = GIds
    /\ \A d \in Denoms : incBal[d] >= 0

\* a gauge never distributes more than was deposited into it
WithinDeposit == \A id \in GIds : CLe(gauges[id].dist, gauges[id].coins)

\* ... also counted on the receiving side: what the gauge ever sent is what it recorded, within the deposit
PaidIsRecorded == \A id \in GIds : paid[id] = gauges[id].dist /\ CLe(paid[id], gauges[id].coins)

\* the module account holds at least the undistributed remainder of all unfinished gauges
Unfinished == {id \in GIds : gauges[id].status # "finished"}
Backed == \A d \in Denoms : incBal[d] >= SumF([id \in Unfinished |-> Remain(gauges[id])[d]], Unfinished)

\* lifecycle: upcoming gauges have paid nothing, active ones have epochs left, non-perpetual gauges are
\* finished exactly when all their epochs are filled, perpetual ones never
Lifecycle == \A id \in GIds :
    LET g == gauges[id] IN
    /\ g.status = "upcoming" => g.filled = 0 /\ g.dist = ZeroCoins
    /\ g.status = "active" => g.perp \/ g.filled < g.num
    /\ g.status = "finished" => ~g.perp /\ (g.filled = g.num \/ id \in excused)
    /\ g.perp => g.num = 1
NothingExcused == excused = {}

---------------------------------------------------------------------------
(* properties: steps (Cont: not the start of a new history in a concatenated trace) *)
KeptG == GIds \cap DOMAIN gauges'

\* finished gauges pay nothing (and nothing else about them changes; a top-up is refused)
FinishedIsFinal ==
    [][Cont => \A id \in KeptG : gauges[id].status = "finished" =>
          /\ gauges'[id].status = "finished" /\ gauges'[id].dist = gauges[id].dist /\ gauges'[id].filled = gauges[id].filled
          /\ paid'[id] = paid[id]
          /\ (id \notin excused => gauges'[id] = gauges[id])]_allvars

\* gauges become active at their start time: only an epoch end moves a gauge, an upcoming gauge leaves the
\* upcoming list at the first epoch end at or after its start time, and never earlier
OnSchedule ==
    [][Cont => \A id \in KeptG :
          /\ gauges'[id].status # gauges[id].status => op' = "epoch"
          /\ op' = "epoch" /\ gauges[id].status = "upcoming" => (gauges'[id].status = "upcoming" <=> gauges[id].start > now)
          /\ gauges[id].status = "active" => gauges'[id].status # "upcoming"]_allvars

\* progress: one epoch at a time, only at epoch ends, spending only grows, and the terms of a gauge are fixed
Progress ==
    [][Cont => \A id \in KeptG :
          LET g == gauges[id]  h == gauges'[id] IN
          /\ h.filled \in {g.filled, g.filled + 1} /\ CLe(g.dist, h.dist) /\ CLe(g.coins, h.coins)
          /\ (h.filled # g.filled \/ h.dist # g.dist) => op' = "epoch"
          /\ h.coins # g.coins => op' = "addg"
          /\ <<h.perp, h.denom, h.dur, h.num, h.start>> = <<g.perp, g.denom, g.dur, g.num, g.start>>]_allvars

\* the module account pays out only at epoch ends, and exactly what the gauges recorded
PaysOnlyAtEpochs ==
    [][Cont => \A d \in Denoms :
          /\ incBal'[d] < incBal[d] => op' = "epoch"
          /\ op' = "epoch" => incBal[d] - incBal'[d] =
                SumF([id \in GIds |-> gauges'[id].dist[d] - gauges[id].dist[d]], GIds)]_allvars
=============================================================================
