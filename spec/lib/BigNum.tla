------------------------------- MODULE BigNum -------------------------------
(***************************************************************************)
(* Arbitrary-precision integers for TLC (whose native integers are 32 bit). *)
(* A number is a record [s |-> sign in {-1,0,1}, m |-> magnitude], the      *)
(* magnitude being a little-endian sequence of base-10^4 limbs without      *)
(* trailing zero limbs (zero is [s |-> 0, m |-> <<>>]).  The Go harness     *)
(* serialises *big.Int in the same shape.                                   *)
(*                                                                         *)
(* Everything here is plain TLA+ and is the MEANING of the operators.  A    *)
(* Java module override (spec/lib/java/BigNum.java, java.math.BigInteger)   *)
(* accelerates the public operators; `bin/check setup` differential-tests   *)
(* the override against these definitions (spec/mc/MCBigNum).               *)
(***************************************************************************)
EXTENDS Integers, Sequences

LOCAL B == 10000

---------------------------------------------------------------------------
(* magnitudes *)
LOCAL Lim(a, i) == IF i <= Len(a) THEN a[i] ELSE 0
LOCAL MaxI(x, y) == IF x >= y THEN x ELSE y

RECURSIVE MTrim(_)
MTrim(a) == IF a = <<>> THEN a
            ELSE IF a[Len(a)] = 0 THEN MTrim(SubSeq(a, 1, Len(a) - 1)) ELSE a

RECURSIVE MCmpFrom(_, _, _)
MCmpFrom(a, b, i) ==   \* compare limbs i, i-1, ... 1 of equal-length magnitudes
    IF i = 0 THEN 0
    ELSE IF a[i] > b[i] THEN 1 ELSE IF a[i] < b[i] THEN -1 ELSE MCmpFrom(a, b, i - 1)

MCmp(a, b) == IF Len(a) > Len(b) THEN 1 ELSE IF Len(a) < Len(b) THEN -1
              ELSE MCmpFrom(a, b, Len(a))

RECURSIVE MAddFrom(_, _, _, _, _)
MAddFrom(a, b, i, n, c) ==
    IF i > n THEN (IF c = 0 THEN <<>> ELSE <<c>>)
    ELSE LET s == Lim(a, i) + Lim(b, i) + c
         IN  <<s % B>> \o MAddFrom(a, b, i + 1, n, s \div B)
MAdd(a, b) == MAddFrom(a, b, 1, MaxI(Len(a), Len(b)), 0)

RECURSIVE MSubFrom(_, _, _, _)
MSubFrom(a, b, i, c) ==          \* a >= b assumed; c = borrow
    IF i > Len(a) THEN <<>>
    ELSE LET d == a[i] - Lim(b, i) - c
         IN  IF d < 0 THEN <<d + B>> \o MSubFrom(a, b, i + 1, 1)
                      ELSE <<d>> \o MSubFrom(a, b, i + 1, 0)
MSub(a, b) == MTrim(MSubFrom(a, b, 1, 0))

RECURSIVE MMulSmallFrom(_, _, _, _)
MMulSmallFrom(a, d, i, c) ==     \* 0 <= d < B
    IF i > Len(a) THEN (IF c = 0 THEN <<>> ELSE <<c>>)
    ELSE LET p == a[i] * d + c
         IN  <<p % B>> \o MMulSmallFrom(a, d, i + 1, p \div B)
MMulSmall(a, d) == IF d = 0 \/ a = <<>> THEN <<>> ELSE MMulSmallFrom(a, d, 1, 0)

RECURSIVE MMulFrom(_, _, _)
MMulFrom(a, b, j) ==             \* Horner over the limbs of b
    IF j > Len(b) THEN <<>>
    ELSE LET rest == MMulFrom(a, b, j + 1)
             sh   == IF rest = <<>> THEN <<>> ELSE <<0>> \o rest
         IN  MAdd(MMulSmall(a, b[j]), sh)
MMul(a, b) == IF a = <<>> \/ b = <<>> THEN <<>> ELSE MMulFrom(a, b, 1)

RECURSIVE QDigit(_, _, _, _)
QDigit(r, d, lo, hi) ==          \* largest q in lo..hi with q*d <= r  (lo satisfies it)
    IF lo = hi THEN lo
    ELSE LET mid == (lo + hi + 1) \div 2
         IN  IF MCmp(MMulSmall(d, mid), r) <= 0 THEN QDigit(r, d, mid, hi)
                                                ELSE QDigit(r, d, lo, mid - 1)

RECURSIVE MDivModFrom(_, _, _, _)
MDivModFrom(a, d, i, r) ==       \* returns <<quotient limbs i..1 (little endian), remainder>>
    IF i = 0 THEN << <<>>, r >>
    ELSE LET r1 == MTrim(<<a[i]>> \o r)
             q  == QDigit(r1, d, 0, B - 1)
             r2 == MSub(r1, MMulSmall(d, q))
             lo == MDivModFrom(a, d, i - 1, r2)
         IN  << lo[1] \o <<q>>, lo[2] >>
MDivMod(a, d) == LET x == MDivModFrom(a, d, Len(a), <<>>) IN << MTrim(x[1]), x[2] >>

---------------------------------------------------------------------------
(* signed numbers *)
Mk(s, m)   == IF m = <<>> THEN [s |-> 0, m |-> <<>>] ELSE [s |-> s, m |-> m]
Zero       == [s |-> 0, m |-> <<>>]
IsBig(x)   == /\ x.s \in {-1, 0, 1}
              /\ (x.s = 0) <=> (x.m = <<>>)
              /\ \A i \in 1..Len(x.m) : x.m[i] \in 0..(B - 1)
              /\ (x.m # <<>> => x.m[Len(x.m)] # 0)

RECURSIVE MOfNat(_)
MOfNat(n) == IF n = 0 THEN <<>> ELSE <<n % B>> \o MOfNat(n \div B)
OfInt(n)  == IF n = 0 THEN Zero ELSE IF n > 0 THEN [s |-> 1, m |-> MOfNat(n)]
                                              ELSE [s |-> -1, m |-> MOfNat(-n)]
One == OfInt(1)

RECURSIVE MToNat(_, _)
MToNat(m, i) == IF i > Len(m) THEN 0 ELSE m[i] + B * MToNat(m, i + 1)
ToInt(x) == x.s * MToNat(x.m, 1)          \* only for |x| < 2^31

Neg(x)  == [s |-> -x.s, m |-> x.m]
Abs(x)  == [s |-> IF x.s = 0 THEN 0 ELSE 1, m |-> x.m]
Sign(x) == x.s

Cmp(x, y) == IF x.s # y.s THEN (IF x.s > y.s THEN 1 ELSE -1)
             ELSE IF x.s = 0 THEN 0
             ELSE x.s * MCmp(x.m, y.m)
Lt(x, y) == Cmp(x, y) < 0
Le(x, y) == Cmp(x, y) <= 0
Gt(x, y) == Cmp(x, y) > 0
Ge(x, y) == Cmp(x, y) >= 0
Eq(x, y) == Cmp(x, y) = 0

Add(x, y) == IF x.s = 0 THEN y ELSE IF y.s = 0 THEN x
             ELSE IF x.s = y.s THEN [s |-> x.s, m |-> MAdd(x.m, y.m)]
             ELSE LET c == MCmp(x.m, y.m)
                  IN  IF c = 0 THEN Zero
                      ELSE IF c > 0 THEN [s |-> x.s, m |-> MSub(x.m, y.m)]
                                    ELSE [s |-> y.s, m |-> MSub(y.m, x.m)]
Sub(x, y) == Add(x, Neg(y))
Mul(x, y) == IF x.s = 0 \/ y.s = 0 THEN Zero ELSE [s |-> x.s * y.s, m |-> MMul(x.m, y.m)]

\* floor division and the matching non-negative-for-positive-divisor remainder:
\* x = FloorDiv(x,y)*y + Mod(x,y), with 0 <= Mod < |y| carrying the sign of y.
DivModT(x, y) ==  \* truncated (toward zero) quotient and remainder, y # 0
    LET qr == MDivMod(x.m, y.m)
    IN  << Mk(x.s * y.s, qr[1]), Mk(x.s, qr[2]) >>
QuoT(x, y) == DivModT(x, y)[1]
RemT(x, y) == DivModT(x, y)[2]
FloorDiv(x, y) == LET qr == DivModT(x, y)
                  IN  IF qr[2].s # 0 /\ qr[2].s # y.s THEN Sub(qr[1], One) ELSE qr[1]
CeilDiv(x, y)  == LET qr == DivModT(x, y)
                  IN  IF qr[2].s # 0 /\ qr[2].s = y.s THEN Add(qr[1], One) ELSE qr[1]

RECURSIVE Pow(_, _)
Pow(x, k) == IF k = 0 THEN One
             ELSE IF k % 2 = 0 THEN LET h == Pow(x, k \div 2) IN Mul(h, h)
             ELSE Mul(x, Pow(x, k - 1))
Pow10(k) == Pow(OfInt(10), k)

RECURSIVE GcdAbs(_, _)
GcdAbs(x, y) == IF y.s = 0 THEN x ELSE GcdAbs(y, RemT(x, y))
Gcd(x, y) == GcdAbs(Abs(x), Abs(y))          \* Gcd(0,0) = 0

Min(x, y) == IF Le(x, y) THEN x ELSE y
Max(x, y) == IF Ge(x, y) THEN x ELSE y

RECURSIVE SumSeq(_, _)
SumSeq(s, i) == IF i > Len(s) THEN Zero ELSE Add(s[i], SumSeq(s, i + 1))
Sum(s) == SumSeq(s, 1)

\* rounding predicates (relational: verified with products, never recomputed)
\* q is n/d rounded toward zero / toward +inf / toward -inf, d # 0
IsFloorDiv(q, n, d) == LET dd == Abs(d) nn == IF d.s < 0 THEN Neg(n) ELSE n
                       IN  Le(Mul(q, dd), nn) /\ Lt(nn, Mul(Add(q, One), dd))
IsCeilDiv(q, n, d)  == LET dd == Abs(d) nn == IF d.s < 0 THEN Neg(n) ELSE n
                       IN  Lt(Mul(Sub(q, One), dd), nn) /\ Le(nn, Mul(q, dd))
IsTruncDiv(q, n, d) == IF n.s * d.s >= 0 THEN IsFloorDiv(q, n, d) ELSE IsCeilDiv(q, n, d)
=============================================================================
