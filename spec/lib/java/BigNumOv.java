import java.math.BigInteger;

import tlc2.overrides.TLAPlusOperator;
import tlc2.value.impl.BoolValue;
import tlc2.value.impl.IntValue;
import tlc2.value.impl.RecordValue;
import tlc2.value.impl.StringValue;
import tlc2.value.impl.TupleValue;
import tlc2.value.impl.Value;
import util.UniqueString;

// java.math.BigInteger accelerator for the public operators of BigNum.tla.
// The TLA+ definitions remain the meaning; spec/mc/MCBigNum differential-tests
// every operator here against them (run by `bin/check setup`).
public class BigNumOv {
	private static final BigInteger B = BigInteger.valueOf(10000);
	private static final UniqueString S = UniqueString.uniqueStringOf("s");
	private static final UniqueString M = UniqueString.uniqueStringOf("m");

	static BigInteger dec(final Value v) {
		final RecordValue r = (RecordValue) v.toRcd();
		if (r == null) {
			throw new RuntimeException("BigNum: not a record: " + v);
		}
		Value sv = null, mv = null;
		for (int i = 0; i < r.names.length; i++) {
			if (r.names[i].equals(S)) sv = r.values[i];
			else if (r.names[i].equals(M)) mv = r.values[i];
		}
		if (sv == null || mv == null) {
			throw new RuntimeException("BigNum: not a number: " + v);
		}
		final int s = ((IntValue) sv).val;
		final TupleValue t = (TupleValue) mv.toTuple();
		if (t == null) {
			throw new RuntimeException("BigNum: magnitude not a sequence: " + v);
		}
		BigInteger x = BigInteger.ZERO;
		for (int i = t.elems.length - 1; i >= 0; i--) {
			x = x.multiply(B).add(BigInteger.valueOf(((IntValue) t.elems[i]).val));
		}
		return s < 0 ? x.negate() : (s == 0 ? BigInteger.ZERO : x);
	}

	static Value enc(final BigInteger x) {
		final int s = x.signum();
		BigInteger a = x.abs();
		final java.util.ArrayList<Value> limbs = new java.util.ArrayList<>();
		while (a.signum() != 0) {
			final BigInteger[] qr = a.divideAndRemainder(B);
			limbs.add(IntValue.gen(qr[1].intValue()));
			a = qr[0];
		}
		final Value[] el = limbs.toArray(new Value[0]);
		// field order must be normalised: RecordValue sorts names on normalize()
		final RecordValue r = new RecordValue(new UniqueString[] { M, S },
				new Value[] { new TupleValue(el), IntValue.gen(s) }, false);
		r.normalize();
		return r;
	}

	@TLAPlusOperator(identifier = "Add", module = "BigNum", warn = false)
	public static Value Add(final Value a, final Value b) { return enc(dec(a).add(dec(b))); }

	@TLAPlusOperator(identifier = "Sub", module = "BigNum", warn = false)
	public static Value Sub(final Value a, final Value b) { return enc(dec(a).subtract(dec(b))); }

	@TLAPlusOperator(identifier = "Mul", module = "BigNum", warn = false)
	public static Value Mul(final Value a, final Value b) { return enc(dec(a).multiply(dec(b))); }

	@TLAPlusOperator(identifier = "Cmp", module = "BigNum", warn = false)
	public static Value Cmp(final Value a, final Value b) { return IntValue.gen(dec(a).compareTo(dec(b))); }

	@TLAPlusOperator(identifier = "QuoT", module = "BigNum", warn = false)
	public static Value QuoT(final Value a, final Value b) { return enc(dec(a).divide(dec(b))); }

	@TLAPlusOperator(identifier = "RemT", module = "BigNum", warn = false)
	public static Value RemT(final Value a, final Value b) { return enc(dec(a).remainder(dec(b))); }

	@TLAPlusOperator(identifier = "FloorDiv", module = "BigNum", warn = false)
	public static Value FloorDiv(final Value a, final Value b) {
		final BigInteger[] qr = dec(a).divideAndRemainder(dec(b));
		final BigInteger d = dec(b);
		if (qr[1].signum() != 0 && qr[1].signum() != d.signum()) return enc(qr[0].subtract(BigInteger.ONE));
		return enc(qr[0]);
	}

	@TLAPlusOperator(identifier = "CeilDiv", module = "BigNum", warn = false)
	public static Value CeilDiv(final Value a, final Value b) {
		final BigInteger d = dec(b);
		final BigInteger[] qr = dec(a).divideAndRemainder(d);
		if (qr[1].signum() != 0 && qr[1].signum() == d.signum()) return enc(qr[0].add(BigInteger.ONE));
		return enc(qr[0]);
	}

	@TLAPlusOperator(identifier = "Pow", module = "BigNum", warn = false)
	public static Value Pow(final Value a, final Value k) { return enc(dec(a).pow(((IntValue) k).val)); }

	@TLAPlusOperator(identifier = "Gcd", module = "BigNum", warn = false)
	public static Value Gcd(final Value a, final Value b) { return enc(dec(a).gcd(dec(b))); }

	@TLAPlusOperator(identifier = "OfInt", module = "BigNum", warn = false)
	public static Value OfInt(final Value n) { return enc(BigInteger.valueOf(((IntValue) n).val)); }

	@TLAPlusOperator(identifier = "IsFloorDiv", module = "BigNum", warn = false)
	public static Value IsFloorDiv(final Value q, final Value n, final Value d) {
		BigInteger dd = dec(d), nn = dec(n);
		final BigInteger qq = dec(q);
		if (dd.signum() < 0) { dd = dd.negate(); nn = nn.negate(); }
		return (qq.multiply(dd).compareTo(nn) <= 0 && nn.compareTo(qq.add(BigInteger.ONE).multiply(dd)) < 0)
				? BoolValue.ValTrue : BoolValue.ValFalse;
	}

	@TLAPlusOperator(identifier = "IsCeilDiv", module = "BigNum", warn = false)
	public static Value IsCeilDiv(final Value q, final Value n, final Value d) {
		BigInteger dd = dec(d), nn = dec(n);
		final BigInteger qq = dec(q);
		if (dd.signum() < 0) { dd = dd.negate(); nn = nn.negate(); }
		return (qq.subtract(BigInteger.ONE).multiply(dd).compareTo(nn) < 0 && nn.compareTo(qq.multiply(dd)) <= 0)
				? BoolValue.ValTrue : BoolValue.ValFalse;
	}
}
