import tlc2.overrides.ITLCOverrides;

// Loaded through -Dtlc2.overrides.TLCOverrides=tlc2.overrides.TLCOverrides:VerifOverrides
public class VerifOverrides implements ITLCOverrides {
	@SuppressWarnings("rawtypes")
	@Override
	public Class[] get() {
		return new Class[] { BigNumOv.class };
	}
}
