------------------------------ MODULE TraceLib ------------------------------
(* Shared plumbing of the trace-validation specs.                            *)
(*  - the trace is the ndjson file named by the environment variable         *)
(*    TRACE_FILE, one event per line, as written by harness/tracelog;        *)
(*  - acceptance is a high-water mark of the number of consumed lines kept   *)
(*    in TLC register 1 (needs -workers 1): the trace is accepted iff some   *)
(*    behaviour of the trace spec consumed every line.  On rejection the     *)
(*    mark is the first line no behaviour could explain.                     *)
EXTENDS Naturals, Sequences, TLC, Json, IOUtils

Log == ndJsonDeserialize(IOEnv.TRACE_FILE)
NLines == Len(Log)

HWInit == TLCSet(1, 0)
\* use as CONSTRAINT HWMark(l), l = number of lines consumed so far
HWMark(consumed) == TLCSet(1, IF TLCGet(1) < consumed THEN consumed ELSE TLCGet(1))
\* use as POSTCONDITION
HWAccepted == IF TLCGet(1) = NLines THEN PrintT(<<"TRACE-ACCEPTED", NLines>>)
              ELSE PrintT(<<"TRACE-REJECTED-AT-LINE", TLCGet(1) + 1, Log[TLCGet(1) + 1]>>) /\ FALSE

HasField(r, f) == f \in DOMAIN r

\* name a conjunct so that a rejected line says WHICH requirement failed
Chk(name, cond) == IF cond THEN TRUE ELSE PrintT(<<"CHECK-FAILED", name>>) /\ FALSE
=============================================================================
