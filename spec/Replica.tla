------------------------------- MODULE Replica -------------------------------
(***************************************************************************)
(* C19: state is a deterministic function of history and survives           *)
(* export/import.  Replicas execute the same block list independently (in   *)
(* any interleaving); a replica may export after any block and an importer  *)
(* starts from that export and executes the remaining blocks.               *)
(*   st[r]     abstract application state of node r                          *)
(*   ht[r]     number of blocks node r has executed                          *)
(*   log[r]    per executed block: the digest a client of node r observes    *)
(*             [blk, app (state commitment), res (tx results + events)]      *)
(* The application is an abstract function Step(state, block) -> state;      *)
(* with Nondet = TRUE a node may additionally flip a hidden bit while        *)
(* executing a block (iteration-order / clock dependence): TLC must then     *)
(* find disagreement - the non-vacuity witness of the Agreement invariant.   *)
(***************************************************************************)
EXTENDS Integers, Sequences, FiniteSets

CONSTANTS Replicas, Importer, NBlocks, Nondet

VARIABLES st, ht, log, exported, mode

vars == <<st, ht, log, exported, mode>>
Nodes == Replicas \cup {Importer}

\* the abstract state machine: a small mixing function over 0..6, blocks 1..NBlocks
Step(s, b) == (s * 3 + b) % 7
Commit(s) == s                 \* state commitment reported as app hash
Result(s, b) == (s + b) % 5    \* what clients see of the block's transactions

Init == /\ st = [n \in Nodes |-> 0]
        /\ ht = [n \in Nodes |-> 0]
        /\ log = [n \in Nodes |-> <<>>]
        /\ exported = <<>>            \* <<>> or [at, state]
        /\ mode = [n \in Nodes |-> IF n = Importer THEN "waiting" ELSE "running"]

Exec(n) ==
    /\ mode[n] = "running" /\ ht[n] < NBlocks
    /\ LET b == ht[n] + 1 IN
       \E noise \in (IF Nondet THEN {0, 1} ELSE {0}) :
         /\ st' = [st EXCEPT ![n] = (Step(st[n], b) + noise) % 7]
         /\ log' = [log EXCEPT ![n] = Append(@, [blk |-> b, app |-> Commit((Step(st[n], b) + noise) % 7), res |-> Result(st[n], b)])]
         /\ ht' = [ht EXCEPT ![n] = b]
    /\ UNCHANGED <<exported, mode>>

Export(n) ==
    /\ n \in Replicas /\ exported = <<>> /\ ht[n] > 0
    /\ exported' = [at |-> ht[n], state |-> st[n]]
    /\ UNCHANGED <<st, ht, log, mode>>

Import ==
    /\ mode[Importer] = "waiting" /\ exported # <<>>
    /\ st' = [st EXCEPT ![Importer] = exported.state]
    /\ ht' = [ht EXCEPT ![Importer] = exported.at]
    /\ mode' = [mode EXCEPT ![Importer] = "running"]
    /\ UNCHANGED <<log, exported>>

Next == (\E n \in Nodes : Exec(n)) \/ (\E n \in Replicas : Export(n)) \/ Import
Spec == Init /\ [][Next]_vars

EntryAt(n, b) == LET S == {k \in 1..Len(log[n]) : log[n][k].blk = b} IN
                 IF S = {} THEN <<>> ELSE log[n][CHOOSE k \in S : TRUE]

\* two replicas that executed block b observed the same commitment and results
Agreement == \A a, c \in Replicas : \A b \in 1..NBlocks :
    (EntryAt(a, b) # <<>> /\ EntryAt(c, b) # <<>>) => EntryAt(a, b) = EntryAt(c, b)

\* the importer reports the exported state and then the same results as everybody else
ImportFaithful == \A a \in Replicas : \A b \in 1..NBlocks :
    (EntryAt(a, b) # <<>> /\ EntryAt(Importer, b) # <<>>) =>
        /\ EntryAt(Importer, b).res = EntryAt(a, b).res
        /\ EntryAt(Importer, b).app = EntryAt(a, b).app
=============================================================================
