------------------------------- MODULE Replica -------------------------------
(***************************************************************************)
(* C19: state is a deterministic function of history and survives           *)
(* export/import.  Replicas execute the same block list independently (in   *)
(* any interleaving); a replica may export after any block and an importer  *)
(* starts from that export and executes the remaining blocks.  A node may   *)
(* crash and restart at any step: it keeps its durable state and loses its  *)
(* volatile component.                                                       *)
(*   st[r]     abstract application state of node r (durable, committed)     *)
(*   ht[r]     number of blocks node r has executed                          *)
(*   vol[r]    volatile component of node r: a memo (in-memory cache) that   *)
(*             executing a block leaves behind - possibly taken from an      *)
(*             intermediate state that was rolled back, so NOT a function of  *)
(*             the committed state; None after a start / restart / import    *)
(*   log[r]    per executed block: the digest a client of node r observes    *)
(*             [blk, app (state commitment), res (tx results + events)]      *)
(* The application is an abstract function Step(state, block) -> state that  *)
(* looks one thing up (Durable(state)).                                      *)
(* Witnesses of non-vacuity (TLC must find disagreement):                    *)
(*   Nondet = TRUE  a node may flip a hidden bit while executing a block     *)
(*                  (iteration-order / clock dependence)                     *)
(*   Stale = TRUE   the lookup trusts the memo when there is one: a node     *)
(*                  that restarted (cold) and one that did not (warm)        *)
(*                  compute different results from the same history          *)
(***************************************************************************)
EXTENDS Integers, Sequences, FiniteSets

CONSTANTS Replicas, Importer, NBlocks, Nondet, Stale

VARIABLES st, ht, log, exported, mode, vol

vars == <<st, ht, log, exported, mode, vol>>
Nodes == Replicas \cup {Importer}
None == -1

\* the abstract state machine: a small mixing function over 0..6, blocks 1..NBlocks
Step(s, b, seen) == (s * 3 + b + seen) % 7
Commit(s) == s                       \* state commitment reported as app hash
Result(s, b, seen) == (s + b + seen) % 5   \* what clients see of the block's transactions
Durable(s) == s % 3                  \* the lookup, answered from the committed state
Memo(s, b) == (s + 2 * b + 1) % 3    \* what executing block b leaves in memory

Init == /\ st = [n \in Nodes |-> 0]
        /\ ht = [n \in Nodes |-> 0]
        /\ log = [n \in Nodes |-> <<>>]
        /\ exported = <<>>            \* <<>> or [at, state]
        /\ mode = [n \in Nodes |-> IF n = Importer THEN "waiting" ELSE "running"]
        /\ vol = [n \in Nodes |-> None]

Exec(n) ==
    /\ mode[n] = "running" /\ ht[n] < NBlocks
    /\ LET b == ht[n] + 1
           seen == IF Stale /\ vol[n] # None THEN vol[n] ELSE Durable(st[n])
       IN
       \E noise \in (IF Nondet THEN {0, 1} ELSE {0}) :
         /\ st' = [st EXCEPT ![n] = (Step(st[n], b, seen) + noise) % 7]
         /\ log' = [log EXCEPT ![n] = Append(@, [blk |-> b, app |-> Commit((Step(st[n], b, seen) + noise) % 7), res |-> Result(st[n], b, seen)])]
         /\ ht' = [ht EXCEPT ![n] = b]
         /\ vol' = [vol EXCEPT ![n] = Memo(st[n], b)]
    /\ UNCHANGED <<exported, mode>>

\* crash + restart: the durable state survives, everything in memory is lost (a no-op on a cold node)
Restart(n) ==
    /\ mode[n] = "running" /\ vol[n] # None
    /\ vol' = [vol EXCEPT ![n] = None]
    /\ UNCHANGED <<st, ht, log, exported, mode>>

Export(n) ==
    /\ n \in Replicas /\ exported = <<>> /\ ht[n] > 0
    /\ exported' = [at |-> ht[n], state |-> st[n]]
    /\ UNCHANGED <<st, ht, log, mode, vol>>

\* the exported genesis carries durable state only: an importer starts cold
Import ==
    /\ mode[Importer] = "waiting" /\ exported # <<>>
    /\ st' = [st EXCEPT ![Importer] = exported.state]
    /\ ht' = [ht EXCEPT ![Importer] = exported.at]
    /\ mode' = [mode EXCEPT ![Importer] = "running"]
    /\ vol' = [vol EXCEPT ![Importer] = None]
    /\ UNCHANGED <<log, exported>>

Next == (\E n \in Nodes : Exec(n) \/ Restart(n)) \/ (\E n \in Replicas : Export(n)) \/ Import
Spec == Init /\ [][Next]_vars

EntryAt(n, b) == LET S == {k \in 1..Len(log[n]) : log[n][k].blk = b} IN
                 IF S = {} THEN <<>> ELSE log[n][CHOOSE k \in S : TRUE]

\* two replicas that executed block b observed the same commitment and results - whatever either of them
\* still holds or has lost in memory
Agreement == \A a, c \in Replicas : \A b \in 1..NBlocks :
    (EntryAt(a, b) # <<>> /\ EntryAt(c, b) # <<>>) => EntryAt(a, b) = EntryAt(c, b)

\* the importer reports the exported state and then the same results as everybody else
ImportFaithful == \A a \in Replicas : \A b \in 1..NBlocks :
    (EntryAt(a, b) # <<>> /\ EntryAt(Importer, b) # <<>>) =>
        /\ EntryAt(Importer, b).res = EntryAt(a, b).res
        /\ EntryAt(Importer, b).app = EntryAt(a, b).app
=============================================================================
