SPECIFICATION TraceSpec
CONSTANTS
  NAdd <- BAdd
  NSub <- BSub
  NMul <- BMul
  NLe <- BLe
  NFloorDiv <- BFloorDiv
  NZero <- BZero
  NOne <- BOne
  PUnit <- BUnit
CONSTRAINT Mark
POSTCONDITION Accepted
INVARIANTS RegistrySound NonNegative
PROPERTIES BaseFixed RegistryOnlyByAuthority Conserved MempoolViewConserved OnlyDeliveryChangesLedgers RefusedPaysNothing PassedOneAllowedDenom FeeLessOnlyWhenFree PaidExactlyOnceToTheRightCollector
CHECK_DEADLOCK FALSE
