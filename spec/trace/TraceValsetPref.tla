-------------------------- MODULE TraceValsetPref --------------------------
(* Trace validation for X04: every line of a recorded execution of the real   *)
(* x/valset-pref message server (on a full app with the real staking,         *)
(* distribution, bank and lockup keepers) must be a step of ValsetPref.tla;   *)
(* weights, amounts and pending rewards are BigNum.  The outcome record of    *)
(* every action is read off the projected state logged after the call, the    *)
(* action checks it against the stated properties and computes the next       *)
(* state, which must be the logged one.  Every property of ValsetPref.tla is   *)
(* evaluated in every recorded state / step.                                   *)
(* Lines: cfg (a new history: delegators, validators, projected state), set,   *)
(* delegate, undel_old, undelegate, redelegate, withdraw, bonded (messages),   *)
(* fund, stake, unstake, lock, unlock, synth, accrue, mature (environment).    *)
EXTENDS ValsetPref, TraceLib

B == INSTANCE BigNum

BAdd(a, b) == B!Add(a, b)
BSub(a, b) == B!Sub(a, b)
BMul(a, b) == B!Mul(a, b)
BLe(a, b)  == B!Cmp(a, b) <= 0
BDiv(a, b) == B!FloorDiv(a, b)
BOfInt(n)  == B!OfInt(n)
E18 == B!Pow(B!OfInt(10), 18)

VARIABLES l      \* number of trace lines consumed

Ev == Log[l + 1]
IsEv(e) == l < NLines /\ Ev.e = e
St == Ev.st

ConfOf(e) == [id |-> e.id, nd |-> e.nd, nv |-> e.nv, maxEntries |-> e.maxEntries]
Ev0 == [e |-> "init", d |-> 0, ok |-> TRUE]

\* a history starts from the logged state: whatever the delegators hold came from outside
StartFrom(e) ==
    LET s == e.st IN
    /\ conf' = ConfOf(e) /\ pref' = s.pref /\ bal' = s.bal /\ del' = s.del /\ rec' = s.rec /\ unb' = s.unb
    /\ rin' = s.rin /\ pend' = s.pend /\ locks' = s.locks
    /\ gh' = [in |-> [d \in 1..e.nd |-> FundsOf(s.bal, s.del, s.unb, s.locks, d)]]
    /\ ev' = Ev0

TraceInit ==
    /\ HWInit
    /\ l = 1
    /\ Log[1].e = "cfg"
    /\ LET e == Log[1]  s == Log[1].st IN
        /\ conf = ConfOf(e) /\ pref = s.pref /\ bal = s.bal /\ del = s.del /\ rec = s.rec /\ unb = s.unb
        /\ rin = s.rin /\ pend = s.pend /\ locks = s.locks
        /\ gh = [in |-> [d \in 1..e.nd |-> FundsOf(s.bal, s.del, s.unb, s.locks, d)]]
        /\ ev = Ev0

TReset == IsEv("cfg") /\ StartFrom(Ev)

\* the projected state after the call is the state the specification reaches
Logged ==
    /\ Chk("preferences", pref' = St.pref)
    /\ Chk("balances", bal' = St.bal)
    /\ Chk("stake", del' = St.del)
    /\ Chk("delegation records", rec' = St.rec)
    /\ Chk("unbonding", unb' = St.unb)
    /\ Chk("redelegations", rin' = St.rin)
    /\ Chk("pending rewards", pend' = St.pend)
    /\ Chk("locks", locks' = St.locks)
    \* Q1
    /\ \A i \in 1..Len(Ev.q) : LET a == Ev.q[i] IN
          Chk("Q1 UserValidatorPreferences", IF pref'[a.d] = <<>> THEN ~a.ok ELSE a.ok /\ a.prefs = pref'[a.d])

Call == [e |-> Ev.e, d |-> Ev.d, ok |-> Ev.ok]
With(f) == Call @@ f
RowOf(f(_)) == [v \in 1..conf.nv |-> f(v)]
D == Ev.d

TSet == /\ IsEv("set")
        /\ SetPref(With([prefs |-> Ev.prefs]), [stored |-> St.pref[D]])

Inc(v) == BSub(St.del[D][v], del[D][v])
Dec(v) == BSub(del[D][v], St.del[D][v])
UnN(v) == St.unb[D][v].n

TDelegate == /\ IsEv("delegate")
             /\ Delegate(With([x |-> Ev.x]), [inc |-> RowOf(Inc), rec |-> St.rec[D], pn |-> St.pend])

TUndelOld == /\ IsEv("undel_old")
             /\ UndelegateDisabled(With([x |-> Ev.x]), [none |-> 0])

TUndelegate == /\ IsEv("undelegate")
               /\ Undelegate(With([x |-> Ev.x]), [dec |-> RowOf(Dec), rec |-> St.rec[D], un |-> RowOf(UnN), pn |-> St.pend])

TRedelegate == /\ IsEv("redelegate")
               /\ Redelegate(With([prefs |-> Ev.prefs]),
                             [stored |-> St.pref[D], nd |-> St.del[D], rec |-> St.rec[D], ri |-> St.rin[D], pn |-> St.pend])

TWithdraw == /\ IsEv("withdraw")
             /\ Withdraw(Call, [pn |-> St.pend])

TBonded == /\ IsEv("bonded")
           /\ DelegateBonded(With([lock |-> Ev.lock]), [inc |-> RowOf(Inc), rec |-> St.rec[D], pn |-> St.pend])

TFund == /\ IsEv("fund")
         /\ Fund(With([x |-> Ev.x]))

TStake == /\ IsEv("stake")
          /\ DirectStake(With([v |-> Ev.v, x |-> Ev.x]), [rec |-> St.rec[D], pn |-> St.pend])

TUnstake == /\ IsEv("unstake")
            /\ DirectUnstake(With([v |-> Ev.v, x |-> Ev.x]), [rec |-> St.rec[D], pn |-> St.pend])

TLock == /\ IsEv("lock")
         /\ Lock(With([x |-> Ev.x, base |-> Ev.base, long |-> Ev.long]), [id |-> Ev.lock])

TUnlock == /\ IsEv("unlock")
           /\ BeginUnlock(With([lock |-> Ev.lock]), [none |-> 0])

TSynth == /\ IsEv("synth")
          /\ Synth(With([lock |-> Ev.lock]), [none |-> 0])

TAccrue == /\ IsEv("accrue")
           /\ Accrue(With([v |-> Ev.v]), [pn |-> St.pend])

TMature == /\ IsEv("mature")
           /\ Mature(Call)

TStep == TSet \/ TDelegate \/ TUndelOld \/ TUndelegate \/ TRedelegate \/ TWithdraw \/ TBonded
         \/ TFund \/ TStake \/ TUnstake \/ TLock \/ TUnlock \/ TSynth \/ TAccrue \/ TMature

\* ---------------------------------------------------------------------------
\* monitor: the statements a recorded execution may deviate from without becoming impossible to follow.
\* Every deviating step is reported with its line (an invariant: where it becomes false).
Becomes(P, Pn) == P /\ ~Pn
Deviations ==
    << <<"S1sum", Becomes(WeightsSumToOne, WeightsSumToOne')>>,
       <<"S1pos", Becomes(WeightsPositive, WeightsPositive')>>,
       <<"D3", Becomes(NoEmptyRecord, NoEmptyRecord')>>,
       <<"S2", ~SetPossibleStep>>,
       <<"D1", ~DelegatePossibleStep>>,
       <<"U1", ~UndelegatePossibleStep>>,
       <<"R1", ~RedelegatePossibleStep>>,
       <<"W1", ~WithdrawPossibleStep>>,
       <<"B1", ~BondedPossibleStep>>,
       <<"U2", ~UndelegateExactStep>>,
       <<"R2", ~RedelegateOnTargetStep>> >>
Report == LET devs == Deviations IN \A i \in 1..Len(devs) : devs[i][2] => PrintT(<<"DEV", devs[i][1], l + 1>>)

\* a history may start in a state that already violates a monitored invariant (it never does: fresh chain)
TraceNext ==
    \/ TReset /\ l' = l + 1
    \/ TStep /\ Logged /\ l' = l + 1

TraceNextMon ==
    \/ TReset /\ l' = l + 1
    \/ TStep /\ Logged /\ Report /\ l' = l + 1

TraceSpec == TraceInit /\ [][TraceNext]_<<vars, l>>
TraceSpecMon == TraceInit /\ [][TraceNextMon]_<<vars, l>>

Mark == HWMark(l)
Accepted == HWAccepted
=============================================================================
