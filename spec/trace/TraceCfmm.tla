----------------------------- MODULE TraceCfmm -----------------------------
(* Trace validation for C04: every line of a recorded history of a real       *)
(* balancer.Pool / stableswap.Pool object (harness/app/cfmm) must be a step   *)
(* of Cfmm.tla, and the sequence properties of Cfmm.tla are evaluated in      *)
(* every recorded state.                                                      *)
(* Lines: cfg (a new history: pool kind, weights / scaling factors, fees,     *)
(* reserves, shares) and op (one public call: arguments, ok / failed, integer *)
(* answer, reserves and shares afterwards).  A failed call (error or          *)
(* recovered panic: domain limits of the power series, non-convergence of a   *)
(* solver, non-positive amounts) leaves the pool as it was; nothing else is   *)
(* demanded of it.                                                            *)
EXTENDS Cfmm, TraceLib

VARIABLE l      \* number of trace lines consumed

Ev == Log[l + 1]

PoolOf(c) == [kind |-> c.kind, n |-> c.n, w |-> c.w, sf |-> c.sf, f |-> c.f, x |-> c.x, B |-> c.B, S |-> c.S]
Post(e)   == [B |-> e.B, S |-> e.S]

TraceInit ==
    /\ HWInit
    /\ l = 1
    /\ Log[1].e = "cfg"
    /\ pool = PoolOf(Log[1])
    /\ ref = Post(Log[1])
    /\ loss = RZero
    /\ njoin = 0

TReset == /\ l < NLines /\ Ev.e = "cfg"
          /\ pool' = PoolOf(Ev) /\ ref' = Post(Ev) /\ loss' = RZero /\ njoin' = 0

Step(e) ==
    CASE e.op = "swapIn"     -> SwapIn(e.i, e.o, e.amt, e.f, e.res, Post(e), l + 1)
      [] e.op = "swapOut"    -> SwapOut(e.i, e.o, e.amt, e.f, e.res, Post(e))
      [] e.op = "joinOne"    -> JoinOne(e.i, e.amt, e.f, e.res, Post(e))
      [] e.op = "joinShares" -> JoinShares(e.i, e.amt, e.f, e.res, Post(e))
      [] e.op = "exitOne"    -> ExitOne(e.o, e.amt, e.res, Post(e), l + 1)
      [] e.op = "joinAll"    -> JoinAll(e.amts, e.f, e.res, Post(e))
      [] e.op = "joinNoSwap" -> JoinNoSwap(e.amts, e.res, Post(e))
      [] e.op = "exit"       -> Exit(e.amt, e.x, Post(e))

TOp == /\ l < NLines /\ Ev.e = "op"
       /\ IF Ev.ok THEN Step(Ev)
          ELSE /\ Chk("failed-call-leaves-pool-unchanged", SeqEq(Ev.B, pool.B) /\ B!Eq(Ev.S, pool.S))
               /\ UNCHANGED vars

TraceNext == (TReset \/ TOp) /\ l' = l + 1
TraceSpec == TraceInit /\ [][TraceNext]_<<vars, l>>

\* always true; reports the known shape (see Cfmm.tla)
KnownFreeLunch == (pool.kind = "stab" /\ njoin >= 2 /\ FreeLunch) => Note("stab.joinOne-twice:free-lunch", l)

Mark == HWMark(l)
Accepted == HWAccepted
=============================================================================
