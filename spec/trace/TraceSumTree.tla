---------------------------- MODULE TraceSumTree ----------------------------
(* Trace validation for C16 in monitor form: every line of a recorded         *)
(* execution of the real osmoutils/sumtree is consumed, and every way in       *)
(* which the line departs from SumTree.tla is printed as                       *)
(*     <<"DEV", "<json>">>                                                    *)
(* (bin/checks/c16.py turns each into a verdict).  Lines:                      *)
(*   cfg : a new history: fan-out m, leaves and nodes after NewTree;           *)
(*   op  : one mutation (a, k, v, ok = did not panic), then, read back from    *)
(*         the real tree: leaves (ordered iteration over everything), nodes    *)
(*         (raw store dump of the levels >= 1), q (a battery of queries with   *)
(*         the real answers).                                                  *)
(* Checked per op line, against the abstract layer only:                       *)
(*   mutation-panic : the mutation panicked (the map is then unchanged);       *)
(*   state          : leaves # AApply(previous leaves, a, k, v);               *)
(*   order          : the iteration is not strictly increasing;                *)
(*   structure      : StructDefect(leaves + nodes) # "";                       *)
(*   query / query-panic : answer # the fold over the leaves (the sorted map   *)
(*                    with the same contents).                                 *)
(* The map is re-based on the logged leaves after every line, so every line    *)
(* is judged on its own; `origin` (ghost) remembers where the first structural *)
(* defect of the history appeared.                                             *)
EXTENDS SumTree, TraceLib

VARIABLES l,        \* number of trace lines consumed
          origin    \* <<>> or <<[line, a, defect]>>

TNoFix == {}
TKeepEmpty == {"keepempty"}    \* evaluating docs/fix_c16_4.diff: emptied nodes are legal

Ev == Log[l + 1]
IsEv(e) == l < NLines /\ Ev.e = e

MapOfLeaves(lv) == [k \in {lv[j].k : j \in 1..Len(lv)} |->
                       LET j == CHOOSE j \in 1..Len(lv) : lv[j].k = k IN lv[j].v]
Ordered(lv) == \A j \in 2..Len(lv) : KeyLt(lv[j - 1].k, lv[j].k)

StoreOf(lv, nds) ==
    LET dom == {<<0, lv[j].k>> : j \in 1..Len(lv)} \cup {<<nds[j].l, nds[j].k>> : j \in 1..Len(nds)}
    IN [d \in dom |->
          IF d[1] = 0 THEN (LET j == CHOOSE j \in 1..Len(lv) : lv[j].k = d[2] IN lv[j].v)
          ELSE (LET j == CHOOSE j \in 1..Len(nds) : nds[j].l = d[1] /\ nds[j].k = d[2] IN nds[j].c)]

\* ---- queries ------------------------------------------------------------
PairsOf(it) == [j \in 1..Len(it) |-> <<it[j].k, it[j].v>>]
Proper(q) == q.q # "subset" \/ ProperRange(q.s, q.e)

QAgrees(q, f) ==
    CASE q.q = "get"    -> q.r = AGet(f, q.k)
      [] q.q = "prefix" -> q.r = APrefix(f, q.k)
      [] q.q = "split"  -> q.sp = ASplit(f, q.k)
      [] q.q = "subset" -> q.r = ASubset(f, q.s, q.e)
      [] q.q = "total"  -> q.r = ATotal(f)
      [] q.q = "iter"   -> PairsOf(q.it) = AIter(f, q.s, q.e)
      [] q.q = "riter"  -> PairsOf(q.it) = Reverse(AIter(f, q.s, q.e))

QDev(q, f) == IF ~Proper(q) THEN ""
              ELSE IF ~q.ok THEN "query-panic"
              ELSE IF ~QAgrees(q, f) THEN "query" ELSE ""

Shape(q) == IF q.q \in {"get", "prefix", "split"} THEN "key"
            ELSE IF q.q = "total" THEN "nil-nil"
            ELSE (IF q.s = Nil THEN "nil" ELSE "key") \o "-" \o (IF q.e = Nil THEN "nil" ELSE "key")

\* the keys accumulationSplit is called with by the query (nil is the empty key)
EffKeys(q) ==
    CASE q.q \in {"get", "prefix", "split"} -> {q.k}
      [] q.q = "total" -> {<<>>}
      [] q.q = "subset" -> (IF q.s = Nil THEN {IF q.e = Nil THEN <<>> ELSE q.e[1]}
                            ELSE IF q.e = Nil THEN {q.s[1]} ELSE {q.s[1], q.e[1]})
      [] OTHER -> {}

\* some node has key <= k < its first child (its first child was removed): the exact
\* precondition of the index -1 panic on a consistent tree
GapHit(s, K) == \E d \in Inner(s) : \E k \in K :
                    Len(s[d]) > 0 /\ KeyLe(d[2], k) /\ KeyLt(k, s[d][1].i)

\* ---- one line -----------------------------------------------------------
Dev(kind, q, shape, qi, gap, f, s, org) ==
    PrintT(<<"DEV", ToJson([line |-> l + 1, kind |-> kind, q |-> q, shape |-> shape, qi |-> qi, gap |-> gap,
                            valempty |-> AVal(f, <<>>), noleaves |-> (DOMAIN f = {}),
                            defect |-> StructDefect(s), origin |-> org])>>)

TraceInit ==
    /\ HWInit
    /\ l = 1
    /\ Log[1].e = "cfg"
    /\ mp = MapOfLeaves(Log[1].leaves)
    /\ store = StoreOf(Log[1].leaves, Log[1].nodes)
    /\ origin = <<>>
    /\ IF mp = Map0 /\ StructDefect(store) = "" THEN TRUE ELSE Dev("state", "open", "", 0, FALSE, mp, store, <<>>)

TReset ==
    /\ IsEv("cfg")
    /\ mp' = MapOfLeaves(Ev.leaves)
    /\ store' = StoreOf(Ev.leaves, Ev.nodes)
    /\ origin' = <<>>
    /\ IF mp' = Map0 /\ StructDefect(store') = "" THEN TRUE ELSE Dev("state", "open", "", 0, FALSE, mp', store', <<>>)

\* a history re-based on the real tree's state after calls that were not logged (wide histories: the
\* first m-4 insertions of a tree with a large fan-out); the state must be consistent, nothing else is known
TRebase ==
    /\ IsEv("rebase")
    /\ mp' = MapOfLeaves(Ev.leaves)
    /\ store' = StoreOf(Ev.leaves, Ev.nodes)
    /\ origin' = <<>>
    /\ IF Ordered(Ev.leaves) /\ StructDefect(store') = "" THEN TRUE
       ELSE Dev("structure", "rebase", StructDefect(store'), 0, FALSE, mp', store', <<>>)

TOp ==
    /\ IsEv("op")
    /\ LET real   == MapOfLeaves(Ev.leaves)
           st     == StoreOf(Ev.leaves, Ev.nodes)
           defect == StructDefect(st)
           org    == IF origin = <<>> /\ defect # ""
                     THEN <<[line |-> l + 1, a |-> Ev.a, defect |-> defect]>> ELSE origin
           bad    == {i \in 1..Len(Ev.q) : QDev(Ev.q[i], real) # ""}
       IN /\ mp' = real
          /\ store' = st
          /\ origin' = org
          /\ IF Ev.ok THEN TRUE ELSE Dev("mutation-panic", Ev.a, "", 0, FALSE, real, st, org)
          /\ IF real = (IF Ev.ok THEN AApply(mp, Ev.a, Ev.k, Ev.v) ELSE mp)   \* a panicking call is rolled back
             THEN TRUE ELSE Dev("state", Ev.a, "", 0, FALSE, real, st, org)
          /\ IF Ordered(Ev.leaves) THEN TRUE ELSE Dev("order", Ev.a, "", 0, FALSE, real, st, org)
          /\ IF defect = "" THEN TRUE ELSE Dev("structure", Ev.a, defect, 0, FALSE, real, st, org)
          /\ \A i \in bad : Dev(QDev(Ev.q[i], real), Ev.q[i].q, Shape(Ev.q[i]), i,
                                GapHit(st, EffKeys(Ev.q[i])), real, st, org)

TraceNext == /\ (TReset \/ TRebase \/ TOp)
             /\ l' = l + 1

TraceSpec == TraceInit /\ [][TraceNext]_<<svars, l, origin>>

Mark == HWMark(l)
Accepted == HWAccepted
=============================================================================
