SPECIFICATION TraceSpec
CONSTANTS
  Ladder <- TLadder
  Epoch0 <- BZero
  NZero <- BZero
  NSub <- BSub
  NLe <- BLe
CONSTRAINT Mark
POSTCONDITION Accepted
INVARIANTS GhostSoundLast LatestGap LastBlockExact Monotone RecoveredExact RecoveredMeansQuiet NotRecoveredMeansRecent Refusals ExportExact
PROPERTIES DownwardClosed QuietBlockNoChange QueriesPure
CHECK_DEADLOCK FALSE
