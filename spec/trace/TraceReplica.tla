---------------------------- MODULE TraceReplica ----------------------------
(* Trace validation for C19.  The lines are the concatenated logs of several  *)
(* OS processes that executed the same seeded workload from the same genesis  *)
(* (fresh Go map seeds; GOMAXPROCS / GOGC varied), plus an importer process   *)
(* started from the state one of them exported.                               *)
(*  block    : [r, role, blk, h, app, txs, ev]   per-block digests            *)
(*  export   : [r, blk, mods]                    per-module hash of the       *)
(*                                               exported genesis             *)
(*  imported : [r, blk, mods]                    module state reported by the *)
(*                                               importer right after import  *)
(* Replicas must agree bit for bit on app hash, every transaction result and  *)
(* the block events, and on every module of every export.  The importer must  *)
(* produce the same transaction results and events for every later block.     *)
(* Module-level differences between the importer and the exporter are         *)
(* printed (<<"IMPORT-DIFF", blk, modules>>) and classified field by field by  *)
(* the orchestrator (known re-anchored heights are listed findings).          *)
EXTENDS Integers, Sequences, FiniteSets, TraceLib

VARIABLES l, canon, canonExport, canonImp, nblocks, nimports

Ev == Log[l + 1]

DiffMods(a, b) == {m \in DOMAIN a \cup DOMAIN b : m \notin DOMAIN a \/ m \notin DOMAIN b \/ a[m] # b[m]}

TraceInit == /\ HWInit /\ l = 0 /\ canon = <<>> /\ canonExport = <<>> /\ canonImp = <<>> /\ nblocks = 0 /\ nimports = 0

TCfg == /\ l < NLines /\ Ev.e = "cfg"
        /\ UNCHANGED <<canon, canonExport, canonImp, nblocks, nimports>>

\* first replica to report a block defines the reference; everybody else must match
TBlock == /\ l < NLines /\ Ev.e = "block"
          /\ IF Ev.blk \notin DOMAIN canon
             THEN /\ Chk("first report of a block comes from a full replica", Ev.role = "replica")
                  /\ canon' = [b \in DOMAIN canon \cup {Ev.blk} |->
                                  IF b = Ev.blk THEN [app |-> Ev.app, txs |-> Ev.txs, ev |-> Ev.ev, h |-> Ev.h] ELSE canon[b]]
             ELSE /\ Chk("transaction results identical", Ev.txs = canon[Ev.blk].txs)
                  /\ Chk("block events identical", Ev.ev = canon[Ev.blk].ev)
                  /\ Chk("block height identical", Ev.h = canon[Ev.blk].h)
                  /\ Chk("committed state (app hash) identical", Ev.role = "importer" \/ Ev.app = canon[Ev.blk].app)
                  /\ UNCHANGED canon
          \* importers cannot share the app hash of the exporter (different store history), but two nodes
          \* initialised from the SAME export must commit bit-identical state
          /\ IF Ev.role = "importer"
             THEN IF Ev.blk \notin DOMAIN canonImp
                  THEN canonImp' = [b \in DOMAIN canonImp \cup {Ev.blk} |-> IF b = Ev.blk THEN Ev.app ELSE canonImp[b]]
                  ELSE /\ Chk("two importers of one export commit identical state (app hash)", Ev.app = canonImp[Ev.blk])
                       /\ UNCHANGED canonImp
             ELSE UNCHANGED canonImp
          /\ nblocks' = nblocks + 1
          /\ UNCHANGED <<canonExport, nimports>>

TExport == /\ l < NLines /\ Ev.e = "export"
           /\ IF Ev.role = "replica"
              THEN IF Ev.blk \notin DOMAIN canonExport
                   THEN canonExport' = [b \in DOMAIN canonExport \cup {Ev.blk} |-> IF b = Ev.blk THEN Ev.mods ELSE canonExport[b]]
                   ELSE /\ Chk("exports of two replicas identical", DiffMods(Ev.mods, canonExport[Ev.blk]) = {})
                        /\ UNCHANGED canonExport
              ELSE /\ Chk("exporter's final export known", Ev.blk \in DOMAIN canonExport)
                   /\ PrintT(<<"IMPORT-DIFF", "final", Ev.blk, DiffMods(Ev.mods, canonExport[Ev.blk])>>)
                   /\ UNCHANGED canonExport
           /\ UNCHANGED <<canon, canonImp, nblocks, nimports>>

TImported == /\ l < NLines /\ Ev.e = "imported"
             /\ Chk("import point was exported by a replica", Ev.blk \in DOMAIN canonExport)
             /\ PrintT(<<"IMPORT-DIFF", "at-import", Ev.blk, DiffMods(Ev.mods, canonExport[Ev.blk])>>)
             /\ nimports' = nimports + 1
             /\ UNCHANGED <<canon, canonExport, canonImp, nblocks>>

TraceNext == (TCfg \/ TBlock \/ TExport \/ TImported) /\ l' = l + 1
TraceSpec == TraceInit /\ [][TraceNext]_<<l, canon, canonExport, canonImp, nblocks, nimports>>
Mark == HWMark(l)
Accepted == HWAccepted
=============================================================================
