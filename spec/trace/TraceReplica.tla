---------------------------- MODULE TraceReplica ----------------------------
(* Trace validation for C19.  The lines are the concatenated logs of several  *)
(* OS processes that executed the same seeded workload from the same genesis  *)
(* (fresh Go map seeds; GOMAXPROCS / GOGC varied), plus importer processes    *)
(* started from the state one of them exported.  Every operation is a signed  *)
(* transaction delivered through FinalizeBlock + Commit.                      *)
(*  block    : [r, role, blk, h, app, txs, ng, stale, txb, ev]                *)
(*             per-block digests; txs[i] = digest of (code, codespace, gas     *)
(*             wanted, gas used, data, events) of transaction i, ng[i] the     *)
(*             same without the gas used, txb = digest of the signed bytes     *)
(*  restart  : [r, role, blk]  a "restarter" discarded its application object  *)
(*             and re-opened one over the same database before block blk      *)
(*  export   : [r, blk, mods]                    per-module hash of the       *)
(*                                               exported genesis             *)
(*  imported : [r, blk, mods]                    module state reported by the *)
(*                                               importer right after import  *)
(* Roles: "replica", "restarter" (loses everything in memory at some blocks), *)
(* "proposer" (also runs CheckTx / PrepareProposal / ProcessProposal) are     *)
(* FULL replicas: they must agree bit for bit on app hash, every transaction  *)
(* result and the block events, and on every module of every export.  An      *)
(* "importer" must produce the same transaction results and events for every  *)
(* later block.                                                               *)
(* Module-level differences between the importer and the exporter are         *)
(* printed (<<"IMPORT-DIFF", blk, modules>>) and classified field by field by  *)
(* the orchestrator (known re-anchored heights are listed findings).          *)
(* Known (FALSE in TraceReplica.cfg = the rule of the property): when TRUE,   *)
(* the two listed deviations are tolerated and printed (<<"KNOWN-DEV", ..>>); *)
(* both concern the GAS USED only - code, codespace, gas wanted, data and     *)
(* events (digest ng) must still agree:                                       *)
(*  ("stale-route-gas", a transaction naming the pool id of a reverted pool   *)
(*   creation, was tolerated until the defect was repaired in /repo)          *)
(*  "import-gas"       an importer against the full replicas (the raw store   *)
(*                     layout is not preserved by export/import); importers   *)
(*                     of one export must still agree among themselves        *)
(* and one concerns an importer's whole remaining history:                    *)
(*  "import-protorev"  the protorev post handler back-runs a transaction on   *)
(*                     the full replicas and not on the importer, or vice     *)
(*                     versa, or through other pools ("backrun" lists the     *)
(*                     transactions it back-ran on the reporting node):       *)
(*                     from that block on the importer's state legitimately   *)
(*                     differs and nothing more is demanded of it (variable   *)
(*                     off); the orchestrator then takes another import point *)
EXTENDS Integers, Sequences, FiniteSets, TraceLib

CONSTANT Known

VARIABLES l, canon, canonExport, canonImp, nblocks, nimports, nrestarts, off

Ev == Log[l + 1]

DiffMods(a, b) == {m \in DOMAIN a \cup DOMAIN b : m \notin DOMAIN a \/ m \notin DOMAIN b \/ a[m] # b[m]}

Full(role) == role \in {"replica", "restarter", "proposer"}

TraceInit == /\ HWInit /\ l = 0 /\ canon = <<>> /\ canonExport = <<>> /\ canonImp = <<>> /\ nblocks = 0 /\ nimports = 0
             /\ nrestarts = 0 /\ off = {}

TCfg == /\ l < NLines /\ Ev.e = "cfg"
        /\ Chk("role known", Full(Ev.role) \/ Ev.role = "importer")
        /\ UNCHANGED <<canon, canonExport, canonImp, nblocks, nimports, nrestarts, off>>

StaleIdx(c) == {c.stale[j] : j \in 1..Len(c.stale)}

\* transaction i of the reporting node against the reference
TxSame(c, i) == Ev.txs[i] = c.txs[i]
\* (until fix 3780a23fd5 in /repo a warm and a cold node could differ in the gas used of a transaction naming the
\* pool id of a reverted pool creation; that deviation is repaired and no longer tolerated)
TxStaleDev(c, i) == FALSE
TxImportDev(c, i) == Known /\ Ev.role = "importer" /\ Ev.ng[i] = c.ng[i]
TxsAgree(c) == /\ Len(Ev.txs) = Len(c.txs)
               /\ \A i \in 1..Len(Ev.txs) :
                    \/ TxSame(c, i)
                    \/ TxStaleDev(c, i) /\ PrintT(<<"KNOWN-DEV", "stale-route-gas", Ev.blk, i, Ev.r, Ev.role>>)
                    \/ TxImportDev(c, i) /\ PrintT(<<"KNOWN-DEV", "import-gas", Ev.blk, i, Ev.r, Ev.role>>)

IdxSet(q) == {q[j] : j \in 1..Len(q)}
\* the importer and the reference disagree on a transaction that protorev back-ran on either of them
\* (back-run on one side only, or through different pools)
BackrunDev(c) == /\ Known /\ Ev.role = "importer" /\ Len(Ev.ng) = Len(c.ng)
                 /\ \E i \in 1..Len(Ev.ng) : Ev.ng[i] # c.ng[i] /\ i \in IdxSet(Ev.backrun) \cup IdxSet(c.backrun)

\* an importer that has left the common history by the listed protorev deviation: nothing more is demanded
TBlockOff == /\ l < NLines /\ Ev.e = "block" /\ Ev.r \in off
             /\ UNCHANGED <<canon, canonExport, canonImp, nblocks, nimports, nrestarts, off>>
TBlockDev == /\ l < NLines /\ Ev.e = "block" /\ Ev.r \notin off /\ Ev.blk \in DOMAIN canon /\ BackrunDev(canon[Ev.blk])
             /\ PrintT(<<"KNOWN-DEV", "import-protorev", Ev.blk, Ev.r, Ev.role>>)
             /\ off' = off \cup {Ev.r}
             /\ UNCHANGED <<canon, canonExport, canonImp, nblocks, nimports, nrestarts>>

\* first replica to report a block defines the reference; everybody else must match
TBlock == /\ l < NLines /\ Ev.e = "block" /\ Ev.r \notin off
          /\ ~(Ev.blk \in DOMAIN canon /\ BackrunDev(canon[Ev.blk]))
          /\ IF Ev.blk \notin DOMAIN canon
             THEN /\ Chk("first report of a block comes from a full replica", Full(Ev.role))
                  /\ canon' = [b \in DOMAIN canon \cup {Ev.blk} |->
                                  IF b = Ev.blk THEN [app |-> Ev.app, txs |-> Ev.txs, ng |-> Ev.ng, stale |-> Ev.stale, backrun |-> Ev.backrun, txb |-> Ev.txb,
                                                      ev |-> Ev.ev, h |-> Ev.h] ELSE canon[b]]
             ELSE /\ Chk("same signed transactions fed to every node", Ev.txb = canon[Ev.blk].txb)
                  /\ Chk("transaction results identical", TxsAgree(canon[Ev.blk]))
                  /\ Chk("block events identical", Ev.ev = canon[Ev.blk].ev)
                  /\ Chk("block height identical", Ev.h = canon[Ev.blk].h)
                  /\ Chk("committed state (app hash) identical", Ev.role = "importer" \/ Ev.app = canon[Ev.blk].app)
                  /\ UNCHANGED canon
          \* importers cannot share the app hash of the exporter (different store history), but two nodes
          \* initialised from the SAME export must commit bit-identical state
          /\ IF Ev.role = "importer"
             THEN IF Ev.blk \notin DOMAIN canonImp
                  THEN canonImp' = [b \in DOMAIN canonImp \cup {Ev.blk} |-> IF b = Ev.blk THEN [app |-> Ev.app, txs |-> Ev.txs] ELSE canonImp[b]]
                  ELSE /\ Chk("two importers of one export commit identical state (app hash)", Ev.app = canonImp[Ev.blk].app)
                       /\ Chk("importers of one export: transaction results identical", Ev.txs = canonImp[Ev.blk].txs)
                       /\ UNCHANGED canonImp
             ELSE UNCHANGED canonImp
          /\ nblocks' = nblocks + 1
          /\ UNCHANGED <<canonExport, nimports, nrestarts, off>>

\* a restart is not part of the replicated history: it changes nothing any other line is compared with
TRestart == /\ l < NLines /\ Ev.e = "restart"
            /\ Chk("only a restarter restarts", Ev.role = "restarter")
            /\ nrestarts' = nrestarts + 1
            /\ UNCHANGED <<canon, canonExport, canonImp, nblocks, nimports, off>>

TExport == /\ l < NLines /\ Ev.e = "export"
           /\ IF Ev.r \in off THEN UNCHANGED canonExport ELSE
              IF Full(Ev.role)
              THEN IF Ev.blk \notin DOMAIN canonExport
                   THEN canonExport' = [b \in DOMAIN canonExport \cup {Ev.blk} |-> IF b = Ev.blk THEN Ev.mods ELSE canonExport[b]]
                   ELSE /\ Chk("exports of two replicas identical", DiffMods(Ev.mods, canonExport[Ev.blk]) = {})
                        /\ UNCHANGED canonExport
              ELSE /\ Chk("exporter's final export known", Ev.blk \in DOMAIN canonExport)
                   /\ PrintT(<<"IMPORT-DIFF", "final", Ev.blk, DiffMods(Ev.mods, canonExport[Ev.blk])>>)
                   /\ UNCHANGED canonExport
           /\ UNCHANGED <<canon, canonImp, nblocks, nimports, nrestarts, off>>

TImported == /\ l < NLines /\ Ev.e = "imported"
             /\ Chk("import point was exported by a replica", Ev.blk \in DOMAIN canonExport)
             /\ PrintT(<<"IMPORT-DIFF", "at-import", Ev.blk, DiffMods(Ev.mods, canonExport[Ev.blk])>>)
             /\ nimports' = nimports + 1
             /\ UNCHANGED <<canon, canonExport, canonImp, nblocks, nrestarts, off>>

TraceNext == (TCfg \/ TBlock \/ TBlockOff \/ TBlockDev \/ TRestart \/ TExport \/ TImported) /\ l' = l + 1
TraceSpec == TraceInit /\ [][TraceNext]_<<l, canon, canonExport, canonImp, nblocks, nimports, nrestarts, off>>
Mark == HWMark(l)
Accepted == HWAccepted
=============================================================================
