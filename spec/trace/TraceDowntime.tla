---------------------------- MODULE TraceDowntime ----------------------------
(* Trace validation for X02: every line of a recorded execution of the real    *)
(* x/downtime-detector module on a full app must be a step of Downtime.tla and  *)
(* every property of Downtime.tla is evaluated in every recorded state.  Times  *)
(* are Unix nanoseconds, recovery durations nanoseconds, both BigNum.           *)
(* Lines: cfg (a new history: the ladder of the code, the genesis imported into *)
(* an empty store, the projected state), block (BeginBlock at time t), get      *)
(* (GetLastDowntimeOfLength), rec (the gRPC query RecoveredSinceDowntimeOfLength*)
(* at block time now), export (ExportGenesis), import (InitGenesis into an      *)
(* emptied store; rt = the document is the export just taken).                  *)
(* d is the enum value of the duration + 1 (= index into the ladder).           *)
EXTENDS Downtime, TraceLib

B == INSTANCE BigNum

BSub(a, b) == B!Sub(a, b)
BLe(a, b)  == B!Cmp(a, b) <= 0
BZero      == B!Zero
TLadder    == [i \in 1..Len(LadderSeconds) |-> B!Mul(B!OfInt(LadderSeconds[i]), B!OfInt(1000000000))]

VARIABLE l      \* number of trace lines consumed

Ev == Log[l + 1]
IsEv(e) == l < NLines /\ Ev.e = e

\* before the first line: some state; the first line must be a cfg line
TraceInit ==
    /\ HWInit
    /\ l = 0
    /\ InitWith([lb |-> BZero, ent |-> <<>>])

\* the projected state after the call is the state the specification reaches
Logged(s) ==
    /\ Chk("every entry is stored", s.miss = <<>>)
    /\ Chk("last block time", NEq(s.lb, lb'))
    /\ Chk("number of entries", Len(s.last) = N)
    /\ \A i \in Idx : Chk(<<"last downtime of ladder index", i>>, NEq(s.last[i], last'[i]))

\* P8: the ladder of the code is the documented one
LadderIs(ld) ==
    /\ Chk("ladder length", Len(ld) = N)
    /\ \A i \in Idx : Chk(<<"ladder entry", i>>, NEq(ld[i], Ladder[i]))

TCfg == /\ IsEv("cfg")
        /\ LadderIs(Ev.ladder)
        /\ InitGenesis(Ev.gen)
        /\ Logged(Ev.st)

TImport == /\ IsEv("import")
           /\ InitGenesis(Ev.gen)
           /\ Logged(Ev.st)
           \* P7: importing the export just taken reproduces the state
           /\ Ev.rt => /\ Chk("round trip follows an export", resp.q = "export")
                       /\ Chk("round trip reproduces the state",
                              NEq(lb', lb) /\ \A i \in Idx : NEq(last'[i], last[i]))

TBlock == /\ IsEv("block")
          /\ BeginBlock(Ev.t)
          /\ Logged(Ev.st)

TGet == /\ IsEv("get")
        /\ Chk("GetLastDowntimeOfLength: refusal", Ev.ok <=> Ev.d \in Idx)
        /\ Chk(<<"GetLastDowntimeOfLength: value", Ev.d>>, Ev.ok => NEq(Ev.t, last[Ev.d]))
        /\ GetLast(Ev.d, Ev.ok, Ev.t)

TRec == /\ IsEv("rec")
        /\ Chk(<<"RecoveredSince: must be refused", Ev.d>>, RecRefused(Ev.d, Ev.r) => ~Ev.ok)
        /\ Chk(<<"RecoveredSince: must be answered", Ev.d>>, RecValid(Ev.d, Ev.r) => Ev.ok)
        /\ Chk(<<"RecoveredSince: wrong answer", Ev.d>>,
               RecValid(Ev.d, Ev.r) => (Ev.ans <=> RecAnswer(last, Ev.d, Ev.r, Ev.now)))
        /\ Recovered(Ev.d, Ev.r, Ev.now, Ev.ok, Ev.ans)

TExport == /\ IsEv("export")
           /\ Chk("ExportGenesis lists the state", ExportIs(Ev.gen, lb, last))
           /\ Export(Ev.gen)

TraceNext == /\ (TCfg \/ TImport \/ TBlock \/ TGet \/ TRec \/ TExport)
             /\ l' = l + 1

TraceSpec == TraceInit /\ [][TraceNext]_<<vars, l>>

Mark == HWMark(l)
Accepted == HWAccepted
=============================================================================
