SPECIFICATION TraceSpec
CONSTANTS
  Known = TRUE
CONSTRAINT Mark
POSTCONDITION Accepted
CHECK_DEADLOCK FALSE
