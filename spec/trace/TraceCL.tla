------------------------------ MODULE TraceCL ------------------------------
(* Trace validation for C07.  Every line of a recorded history of a real      *)
(* concentrated pool (harness/app/cl) carries the full state read back from   *)
(* the keeper after the operation.  The spec state is re-based on the logged   *)
(* state after every step; each step must be the effect CL.tla prescribes for  *)
(* that operation on the previous state, and the C07 invariants are evaluated  *)
(* in every logged state.                                                      *)
EXTENDS CL, TraceLib

B == INSTANCE BigNum
BZero == B!Zero
BAdd(a, b) == B!Add(a, b)
BSub(a, b) == B!Sub(a, b)
BLe(a, b) == B!Cmp(a, b) <= 0

VARIABLES l, users

Ev == Log[l + 1]
IsOp(o) == l < NLines /\ Ev.e = "op" /\ Ev.op = o

IdxOf(seq, P(_)) == CHOOSE k \in 1..Len(seq) : P(seq[k])

\* the abstract state of a logged snapshot
FromLog(st, maxId) ==
    LET pids == {st.pos[k].id : k \in 1..Len(st.pos)}
        tks  == {st.ticks[k].t : k \in 1..Len(st.ticks)}
        P(i) == st.pos[IdxOf(st.pos, LAMBDA p : p.id = i)]
        T(t) == st.ticks[IdxOf(st.ticks, LAMBDA x : x.t = t)]
    IN  [pos   |-> [i \in pids |-> [own |-> P(i).own, lo |-> P(i).lo, hi |-> P(i).hi, liq |-> P(i).liq]],
         ticks |-> [t \in tks |-> [gross |-> T(t).gross, net |-> T(t).net, sqrt |-> T(t).sqrt]],
         tick  |-> st.tick, sqrt |-> st.sqrt, liq |-> st.liq, curLo |-> st.curLo, curHi |-> st.curHi,
         maxId |-> maxId]

MaxIdOf(st, old) == LET s == {st.pos[k].id : k \in 1..Len(st.pos)} \cup {old}
                    IN  CHOOSE m \in s : \A x \in s : x <= m

\* sqrt price of tick t as logged in snapshot st (position bounds are initialised ticks)
SqrtIn(st, t) == st.ticks[IdxOf(st.ticks, LAMBDA x : x.t = t)].sqrt

\* per-owner index reported by the keeper = positions owned
IndexAgrees(st) ==
    \A u \in 1..Len(st.index) :
        {st.index[u][k] : k \in 1..Len(st.index[u])} = {st.pos[k].id : k \in {k \in 1..Len(st.pos) : st.pos[k].own = u}}

Same(S, T) == S.pos = T.pos /\ S.ticks = T.ticks /\ S.tick = T.tick /\ S.sqrt = T.sqrt /\ S.liq = T.liq

TraceInit ==
    /\ HWInit
    /\ l = 1
    /\ Log[1].e = "cfg"
    /\ users = Log[1].users
    /\ cl = FromLog(Log[1].st, 0)

TReset == /\ l < NLines /\ Ev.e = "cfg"
          /\ users' = Ev.users
          /\ cl' = FromLog(Ev.st, 0)

\* common part of every operation step: the new spec state is the logged one
Rebase == /\ cl' = FromLog(Ev.st, MaxIdOf(Ev.st, cl.maxId))
          /\ IndexAgrees(Ev.st)
          /\ UNCHANGED users

Failed == ~Ev.ok /\ Rebase /\ Same(cl, cl')

PriceOf(st) == [tick |-> st.tick, sqrt |-> st.sqrt, curLo |-> st.curLo, curHi |-> st.curHi]

TCreate == /\ IsOp("create")
           /\ \/ Failed
              \/ /\ Ev.ok
                 /\ CreateOK(cl, Ev.res.id, Ev.res.lo, Ev.res.hi, Ev.res.liq)
                 /\ Rebase
                 /\ Same(cl', ApplyCreate(cl, Ev.res.id, Ev.who, Ev.res.lo, Ev.res.hi, Ev.res.liq,
                                          SqrtIn(Ev.st, Ev.res.lo), SqrtIn(Ev.st, Ev.res.hi), PriceOf(Ev.st)))
                 /\ Immutable(cl, cl', {})

TWithdraw == /\ IsOp("withdraw")
             /\ \/ Failed
                \/ /\ Ev.ok
                   /\ WithdrawOK(cl, Ev.args.id, Ev.args.liq)
                   /\ cl.pos[Ev.args.id].own = Ev.who
                   /\ Rebase
                   /\ Same(cl', ApplyWithdraw(cl, Ev.args.id, Ev.args.liq))
                   /\ Immutable(cl, cl', {})

\* add-to-position: the old position is withdrawn in full and a new one (new id, same
\* owner and range) is created with the liquidity the keeper reports in the new state
TAdd == /\ IsOp("add")
        /\ \/ Failed
           \/ /\ Ev.ok
              /\ Ev.args.id \in Ids(cl)
              /\ cl.pos[Ev.args.id].own = Ev.who
              /\ Rebase
              /\ LET p  == cl.pos[Ev.args.id]
                     S1 == ApplyWithdraw(cl, Ev.args.id, p.liq)
                     nl == cl'.pos[Ev.res.id].liq
                 IN  /\ Ids(S1) # {}
                     /\ Ev.res.id \in Ids(cl')
                     /\ CreateOK(S1, Ev.res.id, p.lo, p.hi, nl)
                     /\ Same(cl', ApplyCreate(S1, Ev.res.id, p.own, p.lo, p.hi, nl,
                                              SqrtIn(Ev.st, p.lo), SqrtIn(Ev.st, p.hi), PriceOf(Ev.st)))
              /\ Immutable(cl, cl', {})

TTransfer == /\ IsOp("transfer")
             /\ \/ Failed
                \/ /\ Ev.ok
                   /\ Ev.args.id \in Ids(cl)
                   /\ cl.pos[Ev.args.id].own = Ev.who      \* only the owner can transfer
                   /\ Rebase
                   /\ Same(cl', ApplyTransfer(cl, Ev.args.id, Ev.args.to))
                   /\ Immutable(cl, cl', {Ev.args.id})

TSwap == /\ IsOp("swap")
         /\ \/ Failed
            \/ /\ Ev.ok
               /\ SwapOK(cl, Ev.args.zfo, Ev.st.tick, Ev.st.sqrt)
               /\ Rebase
               /\ Same(cl', ApplySwap(cl, Ev.args.zfo, Ev.st.tick, Ev.st.sqrt, Ev.st.curLo, Ev.st.curHi))
               /\ Immutable(cl, cl', {})

\* reward collection, incentive creation and time do not touch the core bookkeeping
TOther == /\ l < NLines /\ Ev.e = "op" /\ Ev.op \in {"collectFee", "collectInc", "incentive", "time", "unlockLock"}
          /\ Rebase
          /\ Same(cl, cl')
          /\ Immutable(cl, cl', {})

TraceNext == /\ (TReset \/ TCreate \/ TWithdraw \/ TAdd \/ TTransfer \/ TSwap \/ TOther)
             /\ l' = l + 1

TraceSpec == TraceInit /\ [][TraceNext]_<<cl, l, users>>

Mark == HWMark(l)
Accepted == HWAccepted
=============================================================================
