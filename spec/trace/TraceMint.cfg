SPECIFICATION TraceSpec
CONSTANTS
  NAdd <- BAdd
  NSub <- BSub
  NMul <- BMul
  NLe <- BLe
  NZero <- BZero
  NOne <- BOne
  NScale <- BScale
CONSTRAINT Mark
POSTCONDITION Accepted
INVARIANTS MintEmpty Conservation Schedule SupplyExact
PROPERTIES ReductionOnlyWhenDue NothingBeforeStart GrowthIsMinted
CHECK_DEADLOCK FALSE
