----------------------------- MODULE TraceEpochs -----------------------------
(* Trace validation for C17: every line of a recorded execution of the real  *)
(* x/epochs keeper must be a step of Epochs.tla, and every property of       *)
(* Epochs.tla is evaluated in every state of the recorded execution.         *)
(* Lines: cfg (a new history: timers, subscribers), start (block begins),    *)
(* call (a subscriber was invoked: kind, timer, epoch, subscriber, outcome,  *)
(* amount written), end / abort (block finished / dropped; timers and        *)
(* subscriber stores as read back from the real stores).                     *)
EXTENDS Epochs, TraceLib

VARIABLE l      \* number of trace lines consumed

ConfOf(ev) == [start |-> ev.start, dur |-> ev.dur, nsubs |-> ev.nsubs]
Ev == Log[l + 1]
IsEv(e) == l < NLines /\ Ev.e = e

TraceInit ==
    /\ HWInit
    /\ l = 1
    /\ Log[1].e = "cfg"
    /\ InitWith(ConfOf(Log[1]), Log[1].t0, Log[1].h0)

\* a new history starts (only between blocks)
TReset ==
    /\ IsEv("cfg")
    /\ mode = "idle"
    /\ LET c == ConfOf(Ev) IN
        /\ conf' = c /\ now' = Ev.t0 /\ height' = Ev.h0
        /\ ep' = [i \in 1..Len(c.start) |-> Ep0]
        /\ store' = [s \in 1..c.nsubs |-> 0]
        /\ pend' = <<>> /\ mode' = "idle"
        /\ pre' = [ep |-> <<>>, store |-> <<>>, sig |-> <<>>, height |-> Ev.h0, now |-> Ev.t0]
        /\ sig' = [i \in 1..Len(c.start) |-> <<>>]

TStart == /\ IsEv("start")
          /\ StartBlock(Ev.t)
          /\ height' = Ev.h

\* the logged invocation must be the one the spec expects next: nobody is
\* skipped, duplicated or reordered, whatever earlier subscribers did
TCall == /\ IsEv("call")
         /\ pend # <<>>
         /\ Head(pend) = <<Ev.k, Ev.id, Ev.n, Ev.sub>>
         /\ Call(Ev.o, Ev.w)

EpMatches(logged) ==
    /\ Len(logged) = Len(ep')
    /\ \A i \in 1..Len(logged) :
        /\ logged[i].cur = ep'[i].cur
        /\ logged[i].started = ep'[i].started
        /\ ep'[i].started => /\ logged[i].curStart = ep'[i].curStart
                             /\ logged[i].startHeight = ep'[i].startHeight

TEnd == /\ IsEv("end")
        /\ EndBlock
        /\ EpMatches(Ev.ep)
        /\ Ev.store = store'
        /\ Ev.h = height'

TAbort == /\ IsEv("abort")
          /\ Abort
          /\ EpMatches(Ev.ep)
          /\ Ev.store = store'
          /\ Ev.h = height'

TraceNext == /\ (TReset \/ TStart \/ TCall \/ TEnd \/ TAbort)
             /\ l' = l + 1

TraceSpec == TraceInit /\ [][TraceNext]_<<vars, l>>

Mark == HWMark(l)
Accepted == HWAccepted
=============================================================================
