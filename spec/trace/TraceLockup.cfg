SPECIFICATION TraceSpec
CONSTRAINT Mark
POSTCONDITION Accepted
INVARIANTS TypeOK ModuleHoldsLocked AccumExact RefsExact EndAfterDuration
           ObservedLocks ObservedBalances ObservedModuleAccount ObservedRefs ObservedAccumulation ObservedQueries
PROPERTIES TimeLocked ScheduleFixed Conserved
CHECK_DEADLOCK FALSE
