SPECIFICATION TraceSpec
CONSTANTS
  Scale <- BScale
  NAdd <- BAdd
  NSub <- BSub
  NMul <- BMul
  NLe <- BLe
  NOfNat <- BOfNat
  NFloorDiv <- BFloorDiv
CONSTRAINT Mark
POSTCONDITION Accepted
INVARIANTS TypeOK ModuleHoldsLocked EndAfterDuration
           TypeOKSF MarkersExact StaysBonded LockOutlivesMarker TracksExpected
           ObservedLocks ObservedBalances ObservedMarkers ObservedConnections ObservedStake ObservedMultipliers ObservedPools ObservedSupply
           ObservedExpectedQuery
PROPERTIES TimeLockedSF ScheduleFixed ConservedSF SupplyNeutral MarkerLasts WithdrawAfterUndelegation NoUnlockWhileDelegated MultiplierOnlyAtEpoch
CHECK_DEADLOCK FALSE
