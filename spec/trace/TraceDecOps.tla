---------------------------- MODULE TraceDecOps ----------------------------
(* Trace validation for C12: every line of an ndjson trace recorded from the *)
(* REAL osmomath.BigDec / osmomath.Dec methods must be a step Call(c, o) of  *)
(* DecOps at the real scales (10^36, 10^18), with arbitrary-precision        *)
(* numbers (spec/lib/BigNum; operands up to the 1144-bit bound).             *)
(* Lines:  cfg  chunk boundary (events are independent calls; a mutating     *)
(*              twin always follows its non-mutating call in the same chunk) *)
(*         op   one call: receiver family t, method op, raw operands a, b,   *)
(*              precision p, whether b is the same object as a (alias),      *)
(*              whether it is the mutating twin of the previous line (pair), *)
(*              ok (returned without panic/error), raw result r, raw         *)
(*              operands a2, b2 read back after the call.                    *)
(* Strict = TRUE: a line that is not a step disables the step => the trace   *)
(* is rejected at that line.  Strict = FALSE (monitor, used by bin/check to  *)
(* classify every deviation of a run): the line is consumed and TLC prints   *)
(* <<"C12BAD", line, violated clauses>>.                                     *)
EXTENDS DecOps, TraceLib

CONSTANT Strict

B == INSTANCE BigNum

VARIABLE l      \* number of trace lines consumed

\* BigNum bindings of the number interface
BAdd(x, y)  == B!Add(x, y)
BSub(x, y)  == B!Sub(x, y)
BMul(x, y)  == B!Mul(x, y)
BNeg(x)     == B!Neg(x)
BCmp(x, y)  == B!Cmp(x, y)
BQuoT(x, y) == B!QuoT(x, y)
BEven(x)    == x.m = <<>> \/ x.m[1] % 2 = 0
BOfInt(k)   == B!OfInt(k)
BPow10(k)   == B!Pow(B!OfInt(10), k)

TrDigits == [bd |-> 36, dec |-> 18]

LOCAL P2(k)  == B!Pow(B!OfInt(2), k)
LOCAL Sym(h) == [lo |-> B!Neg(h), hi |-> h]
\* osmomath: maxDecBitLen = 1024 + 120; BigInt 1024 bits; sdk: |Dec| <= 2^256 * 10^18 - 1, Int 256 bits
TrBounds == [bd     |-> Sym(B!Sub(P2(1144), B!One)),
             dec    |-> Sym(B!Sub(B!Mul(P2(256), BPow10(18)), B!One)),
             bigint |-> Sym(B!Sub(P2(1024), B!One)),
             sdkint |-> Sym(B!Sub(P2(256), B!One)),
             i64    |-> [lo |-> B!Neg(P2(63)), hi |-> B!Sub(P2(63), B!One)],
             u64    |-> [lo |-> B!Zero, hi |-> B!Sub(P2(64), B!One)]]

Ev == Log[l + 1]
IsEv(e) == l < NLines /\ Ev.e = e

CallOf(e) == [t |-> e.t, op |-> e.op, a |-> e.a, b |-> e.b, p |-> e.p, alias |-> e.alias, pair |-> e.pair]
OutOf(e)  == [ok |-> e.ok, r |-> e.r, a2 |-> e.a2, b2 |-> e.b2]

TraceInit ==
    /\ HWInit
    /\ l = 1
    /\ Log[1].e = "cfg"
    /\ Init

TReset == /\ IsEv("cfg")
          /\ call' = NoCall /\ out' = NoOut

TOp == /\ IsEv("op")
       /\ LET c == CallOf(Ev)
              o == OutOf(Ev)
          IN  IF Strict THEN Call(c, o)
              ELSE LET f == Failures(c, o) \cup (IF TwinOK(call, out, c, o) THEN {} ELSE {"twin"})
                   IN  /\ IF f = {} THEN TRUE ELSE PrintT(<<"C12BAD", l + 1, f>>)
                       /\ call' = c /\ out' = o

TraceNext == /\ (TReset \/ TOp)
             /\ l' = l + 1

TraceSpec == TraceInit /\ [][TraceNext]_<<vars, l>>

Mark == HWMark(l)
Accepted == HWAccepted
=============================================================================
