---------------------------- MODULE TraceMathFns ----------------------------
(* Trace validation for C13: every line of an ndjson trace recorded from the  *)
(* REAL functions of osmomath (harness/lite/mathfns) must be a step of        *)
(* MathFns at the real scales (BigDec 10^36, Dec 10^18).                      *)
(* Lines:  cfg  chunk boundary (the previous call is forgotten: Reset)        *)
(*         op   one call: f, x (raw big arguments), n (small integers), ok,   *)
(*              r (raw result), w (witnesses - verified, never believed)      *)
(* Strict = TRUE: a line that is not a step of the specification disables the *)
(* step => the trace is rejected at that line (the violated clauses are       *)
(* printed as CHECK-FAILED).  Strict = FALSE (monitor, used by bin/check to   *)
(* classify every deviation of a run): the line is consumed and TLC prints    *)
(* <<"C13BAD", line, violated clauses>>, and <<"C13OBS", line, facts>> for    *)
(* facts outside the statement (Observations; a2 = the argument read back    *)
(* after SigFigRound).                                                       *)
EXTENDS MathFns, TraceLib

CONSTANT Strict

VARIABLE l      \* number of trace lines consumed

Ev == Log[l + 1]
IsEv(e) == l < NLines /\ Ev.e = e

CallOf(e) == [f |-> e.f, x |-> e.x, n |-> e.n, ok |-> e.ok, r |-> e.r, w |-> e.w]

TraceInit ==
    /\ HWInit
    /\ l = 1
    /\ Log[1].e = "cfg"
    /\ Init

TReset == /\ IsEv("cfg")
          /\ Reset

TOp == /\ IsEv("op")
       /\ LET c == CallOf(Ev)
          IN  IF Strict
              THEN /\ LET f == Failures(last, c) IN Chk(f, f = {})
                   /\ last' = c
              ELSE LET f == Failures(last, c)
                       o == Observations(c) \cup
                            (IF c.f = "SigFigRound" /\ c.ok /\ ~B!Eq(Ev.a2, c.x[1]) THEN {"argument-mutated"} ELSE {})
                   IN  /\ IF f = {} THEN TRUE ELSE PrintT(<<"C13BAD", l + 1, f>>)
                       /\ IF o = {} THEN TRUE ELSE PrintT(<<"C13OBS", l + 1, o>>)
                       /\ last' = c

TraceNext == /\ (TReset \/ TOp)
             /\ l' = l + 1

TraceSpec == TraceInit /\ [][TraceNext]_<<vars, l>>

Mark == HWMark(l)
Accepted == HWAccepted
=============================================================================
