SPECIFICATION TraceSpec
CONSTANTS
  NoLog = NoLog
  AllowGeoZero = TRUE
  GeoMaxN = 64
CONSTRAINT Mark
POSTCONDITION Accepted
CHECK_DEADLOCK FALSE
