SPECIFICATION TraceSpec
CONSTRAINT Mark
POSTCONDITION Accepted
INVARIANTS TypeOKI WithinDeposit PaidIsRecorded Backed Lifecycle ModuleHoldsLocked
           ObservedGauges ObservedBalances ObservedModules ObservedLocks
PROPERTIES FinishedIsFinal OnSchedule Progress PaysOnlyAtEpochs
CHECK_DEADLOCK FALSE
