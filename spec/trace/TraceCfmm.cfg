SPECIFICATION TraceSpec
CONSTRAINT Mark
POSTCONDITION Accepted
INVARIANTS NoValueExtracted NoFreeLunchExceptKnown KnownFreeLunch
CHECK_DEADLOCK FALSE
