------------------------- MODULE TraceTokenFactory -------------------------
(* Trace validation for C20 (factory tokens): every message of a recorded     *)
(* random history of the real x/tokenfactory msg server must be a step of     *)
(* TokenFactory.tla - same outcome (accepted / refused), same effect on the    *)
(* denomination's records and on every holder's balance - and every property   *)
(* of TokenFactory.tla is evaluated on the recorded behaviour.                 *)
(* Lines: cfg (a new history; creation fee, who cannot pay it, state), op (one *)
(* message: m, ok, canpay (create: the sender could pay the fee), changed (a   *)
(* refused message had written to the handler's branch), rc/rsub (create: the  *)
(* namespace and subdenom of the denomination named in the response), st       *)
(* (state projected from the keepers after the message)).                      *)
EXTENDS TokenFactory, TraceLib

VARIABLE l

Ev == Log[l + 1]
IsEv(e) == l < NLines /\ Ev.e = e

\* the logged state: a sequence of denomination documents
FromLog(ds) ==
    LET D == {<<ds[i].c, ds[i].sub>> : i \in 1..Len(ds)}
        Ix(d) == CHOOSE i \in 1..Len(ds) : <<ds[i].c, ds[i].sub>> = d
    IN [admin  |-> [d \in D |-> ds[Ix(d)].admin],
        bal    |-> [d \in D |-> ds[Ix(d)].bal],
        supply |-> [d \in D |-> ds[Ix(d)].supply],
        meta   |-> [d \in D |-> ds[Ix(d)].meta],
        hook   |-> [d \in D |-> ds[Ix(d)].hook]]

NoDup(ds) == \A i, j \in 1..Len(ds) : (ds[i].c = ds[j].c /\ ds[i].sub = ds[j].sub) => i = j

TraceInit ==
    /\ HWInit
    /\ l = 1
    /\ Log[1].e = "cfg"
    /\ (/\ admin = FromLog(Log[1].st).admin /\ bal = FromLog(Log[1].st).bal /\ supply = FromLog(Log[1].st).supply
                   /\ meta = FromLog(Log[1].st).meta /\ hook = FromLog(Log[1].st).hook)
    /\ last = Last0

TReset ==
    /\ IsEv("cfg")
    /\ Becomes(FromLog(Ev.st))
    /\ last' = Last0

MsgOf(m) == Msg(m.k, m.s, m.c, m.sub, m.amt, m.x, m.y)

TOp ==
    /\ IsEv("op")
    /\ LET m == MsgOf(Ev.m)
           pre == St
           post == FromLog(Ev.st)
       IN /\ Chk("projection-well-formed", NoDup(Ev.st))
          \* accepted exactly when the specification accepts (the fee is an input: canpay)
          /\ Chk("outcome",
                 IF m.k = "create" THEN Ev.ok <=> (~Exists(pre, DenomOf(m)) /\ Ev.canpay)
                 ELSE OkAllowed(pre, m, Ev.ok))
          \* and with exactly the specified effect; refused: nothing at all changed
          /\ Chk("effect", post = After(pre, m, Ev.ok))
          \* the denomination named in the response lies in the sender's namespace
          /\ Chk("namespace", (m.k = "create" /\ Ev.ok) => (Ev.rc = m.s /\ Ev.rsub = m.sub))
          /\ Becomes(post)
          /\ last' = [k |-> m.k, s |-> m.s, d |-> DenomOf(m), x |-> m.x, y |-> m.y, ok |-> Ev.ok, dirty |-> Ev.changed]

\* the chain was restarted from an export of its state (ExportGenesis -> InitGenesis of a fresh application):
\* every record and balance the specification speaks of is as before
\* (the module's genesis has no field for the before-send hook of a denomination: the current code loses every
\* hook at this point.  That is state lost by export/import - C19's subject, noted there in DESIGN.md -, not an
\* authorisation matter: the hooks are re-based on what the importer holds and the line is noted.)
TReimport ==
    /\ IsEv("reimport")
    /\ LET post == FromLog(Ev.st) IN
       /\ Chk("projection-well-formed", NoDup(Ev.st))
       /\ Chk("state survives export and import", [post EXCEPT !.hook = St.hook] = St)
       /\ (post.hook # St.hook => PrintT(<<"NOTE", "before-send hooks lost by export/import", l + 1>>))
       /\ Becomes(post)
       /\ last' = Last0

TraceNext == /\ (TReset \/ TOp \/ TReimport)
             /\ l' = l + 1

TraceSpec == TraceInit /\ [][TraceNext]_<<vars, l>>

Mark == HWMark(l)
Accepted == HWAccepted
=============================================================================
