SPECIFICATION TraceSpecMon
CONSTANTS
  NAdd <- BAdd
  NSub <- BSub
  NMul <- BMul
  NLe <- BLe
  NDiv <- BDiv
  NOfInt <- BOfInt
  WUnit <- E18
  RUnit <- E18
  NPrec <- E18
  Req <- Chk
CONSTRAINT Mark
POSTCONDITION Accepted
INVARIANTS PrefShape RecordsCoverStake Conservation NothingNegative
PROPERTIES PreferenceStable OthersUntouched RefusedChangesNothing StakeStable
CHECK_DEADLOCK FALSE
