---------------------------- MODULE TraceTxFees ----------------------------
(* Trace validation for X07: every line of a recorded execution of the real   *)
(* x/txfees module on a full application (governance handler, message server, *)
(* gRPC queries, ConvertToBaseToken / CalcFeeSpotPrice, and real signed        *)
(* transactions through CheckTx / RecheckTx / Simulate / FinalizeBlock+Commit) *)
(* must be a step of TxFees.tla; amounts, gas and prices are BigNum (price     *)
(* unit 10^18).  Lines: cfg (a new history: node options, consensus minimum,   *)
(* accounts, whitelist, pools, projected state), gov, setmsg, trade (a swap    *)
(* against a pool: new reserves and quotes), tx (mode, signers, fee coins, gas,*)
(* arbitrage shape, signature, outcome class), commit, conv; each with the     *)
(* projected state after the call (registry as stored, committed ledgers, the  *)
(* mempool view of the ledgers) and the answers of the four queries.           *)
(* The quote of a pool is what the pool manager answers (18 decimals); it is   *)
(* checked against the pool's reserves and weights (relative 10^-6: the pools   *)
(* round to 8 significant figures) so that direction and pool are right.       *)
EXTENDS TxFees, TraceLib

B == INSTANCE BigNum

BAdd(a, b) == B!Add(a, b)
BSub(a, b) == B!Sub(a, b)
BMul(a, b) == B!Mul(a, b)
BLe(a, b)  == B!Cmp(a, b) <= 0
BFloorDiv(a, b) == B!FloorDiv(a, b)
BZero == B!Zero
BOne == B!OfInt(1)
BUnit == B!Pow(B!OfInt(10), 18)

VARIABLE l      \* number of trace lines consumed

Ev == Log[l + 1]
IsEv(e) == l < NLines /\ Ev.e = e

SetOf(s) == {s[i] : i \in 1..Len(s)}

CfOf(c) == [id |-> c.id, denoms |-> SetOf(c.denoms), payers |-> SetOf(c.payers), setters |-> SetOf(c.setters),
            min |-> c.min, arb |-> c.arb, high |-> c.high, cmin |-> c.cmin, hthr |-> c.hthr, maxgas |-> c.maxgas]
RegOf(xs, c) == [d \in c.denoms |-> IF \E i \in 1..Len(xs) : xs[i].d = d THEN (CHOOSE y \in SetOf(xs) : y.d = d).p ELSE 0]
PoolOf(x, b) == [denoms |-> SetOf(x.denoms),
                 q |-> [d \in {x.q[i].d : i \in 1..Len(x.q)} |-> LET y == CHOOSE z \in SetOf(x.q) : z.d = d IN <<y.n, y.m>>]]
PoolsOf(xs, b) == [p \in {xs[i].id : i \in 1..Len(xs)} |-> PoolOf(CHOOSE y \in SetOf(xs) : y.id = p, b)]
AcctsOf(c) == c.payers \cup {"coll", "nn", "rest"}
LedgerOf(o, c) == [a \in AcctsOf(c) |-> [d \in c.denoms |-> o[a][d]]]
SentOf(o, c) == [a \in c.payers |-> o[a]]
FtsOf(xs) == [i \in 1..Len(xs) |-> [d |-> xs[i].d, p |-> xs[i].p]]
TxOf(t) == [who |-> t.who, fee |-> [i \in 1..Len(t.fee) |-> [d |-> t.fee[i].d, x |-> t.fee[i].x]], gas |-> t.gas, arb |-> t.arb, sig |-> t.sig]

\* the logged quotes are the pools' quotes in the right direction: n / m ~ (R_base / W_base) / (R_d / W_d)
QuoteFaithful(x, b) ==
    \A i \in 1..Len(x.q) :
        LET d  == x.q[i].d
            rb == CHOOSE z \in SetOf(x.res) : z.d = b
            rd == CHOOSE z \in SetOf(x.res) : z.d = d
            ex == BMul(rb.r, rd.w)                    \* exact quote = ex / ey
            ey == BMul(rd.r, rb.w)
            lhs == BMul(x.q[i].n, ey)                 \* n / m = ex / ey  <=>  n ey = m ex
            rhs == BMul(x.q[i].m, ex)
            dif == IF BLe(lhs, rhs) THEN BSub(rhs, lhs) ELSE BSub(lhs, rhs)
        IN BLe(BMul(dif, B!Pow(B!OfInt(10), 6)), rhs)
PoolsFaithful(xs, b) ==
    \A i \in 1..Len(xs) :
        /\ SetOf(xs[i].denoms) = {xs[i].res[j].d : j \in 1..Len(xs[i].res)}
        /\ (b \in SetOf(xs[i].denoms)) = (xs[i].q # <<>>)
        /\ b \in SetOf(xs[i].denoms) => {xs[i].q[j].d : j \in 1..Len(xs[i].q)} = SetOf(xs[i].denoms) \ {b}
        /\ Chk("env: logged quote is not the pool's price in base", QuoteFaithful(xs[i], b))

StartFrom(ev) ==
    LET c == CfOf(ev.cf)  s == ev.st IN
    /\ cf' = c /\ base' = s.base
    /\ reg' = RegOf(s.reg, c)
    /\ pools' = PoolsOf(s.pools, s.base)
    /\ bal' = LedgerOf(s.bal, c) /\ chk' = LedgerOf(s.chk, c)
    /\ sent' = SentOf(s.sent, c)
    /\ last' = Call("init", [x |-> 0], [ok |-> TRUE])

TraceInit ==
    /\ HWInit
    /\ l = 1
    /\ Log[1].e = "cfg"
    /\ LET c == CfOf(Log[1].cf)  s == Log[1].st IN
        /\ cf = c /\ base = s.base
        /\ reg = RegOf(s.reg, c)
        /\ pools = PoolsOf(s.pools, s.base)
        /\ bal = LedgerOf(s.bal, c) /\ chk = LedgerOf(s.chk, c)
        /\ sent = SentOf(s.sent, c)
        /\ last = Call("init", [x |-> 0], [ok |-> TRUE])
        /\ PoolsFaithful(s.pools, s.base)

TReset == IsEv("cfg") /\ StartFrom(Ev) /\ PoolsFaithful(Ev.st.pools, Ev.st.base)

\* the projected state after the call is the state the specification reaches
Logged ==
    LET s == Ev.st IN
    /\ Chk("R4 base denom changed", s.base = base')
    /\ Chk("R1-R3 stored registry differs", RegOf(s.reg, cf) = reg' /\ {s.reg[i].d : i \in 1..Len(s.reg)} = cf.denoms)
    /\ Chk("A1-A3 committed ledgers differ", LedgerOf(s.bal, cf) = bal')
    /\ Chk("A3 mempool view of the ledgers differs", LedgerOf(s.chk, cf) = chk')
    /\ Chk("A2 message effects differ", SentOf(s.sent, cf) = sent')
    /\ (HasField(s, "pools") => Ev.e = "trade")

\* R5: the four queries answer exactly the registry (of the state after the call)
Queries ==
    LET q == Ev.q IN
    /\ Chk("R5 BaseDenom", q.base = base')
    /\ Chk("R5 FeeTokens", {[d |-> q.fts[i].d, p |-> q.fts[i].p] : i \in 1..Len(q.fts)} = QFeeTokensOf(reg')
                           /\ Len(q.fts) = Cardinality(QFeeTokensOf(reg')))
    /\ Chk("R5 DenomPoolId", \A d \in cf.denoms : [ok |-> q.pid[d].ok, p |-> q.pid[d].p] = QPoolIdOf(reg', d))
    /\ Chk("R5 DenomSpotPrice", \A d \in cf.denoms :
            /\ q.spot[d].ok = (reg'[d] # 0)
            /\ reg'[d] # 0 => q.spot[d].p = reg'[d] /\ q.spot[d].v = pools'[reg'[d]].q[d][1])

ListChecks(fts, ok, authorised) ==
    /\ Chk("R1-R2 list with unregistrable entry accepted", ok => AllRegistrable(fts) /\ Known(fts))
    /\ Chk("R3 sender not whitelisted changed registry", ok => authorised)
    /\ Chk("R2 list of registrable entries refused", ~ok => ~(authorised /\ AllRegistrable(fts) /\ Known(fts)))

TGov == /\ IsEv("gov")
        /\ ListChecks(FtsOf(Ev.fts), Ev.ok, TRUE)
        /\ Gov(FtsOf(Ev.fts), Ev.ok)

TSetMsg == /\ IsEv("setmsg")
           /\ ListChecks(FtsOf(Ev.fts), Ev.ok, Ev.by \in cf.setters)
           /\ SetMsg(Ev.by, FtsOf(Ev.fts), Ev.ok)

\* a swap against a pool: the new quotes are the pool's (an input, checked against the reserves)
TTrade == /\ IsEv("trade")
          /\ HasField(Ev.st, "pools")
          /\ PoolsFaithful(Ev.st.pools, base)
          /\ LET np == PoolsOf(Ev.st.pools, base) IN
              /\ Chk("env: a trade changed another pool", \A p \in DOMAIN pools : p # Ev.p => np[p] = pools[p])
              /\ DOMAIN np = DOMAIN pools
              /\ Trade(Ev.p, np[Ev.p].q)

\* named requirements, so that a rejected line says which statement of the header failed
TxChecks(t, mode, res) ==
    LET view == IF mode = "deliver" THEN bal ELSE chk
        pass == res # "ante"
        canT == AnteOK(t, mode, TRUE)
        canF == AnteOK(t, mode, FALSE)
    IN
    /\ Chk("F1 passed with two fee denominations", pass => OneDenom(t))
    /\ Chk("F1 passed with unregistered fee denomination", pass /\ OneDenom(t) => DenomAllowed(t))
    /\ Chk("F2 passed CheckTx above the node's max gas", pass => GasOK(t, mode))
    /\ Chk("F4 passed without fee at a non-zero price",
           pass /\ Len(t.fee) = 0 => PriceFor(t, mode) = BZero)
    /\ Chk("F2-F3 passed with fee below price x gas", pass /\ OneDenom(t) /\ DenomAllowed(t) => FloorMet(t, mode, TRUE))
    /\ Chk("A1 passed though first signer cannot pay", pass /\ OneDenom(t) /\ DenomAllowed(t) => CanPay(t, view))
    /\ Chk("A2 passed with a bad signature", pass /\ mode # "recheck" => t.sig = "good")
    /\ Chk("F2-F3 refused though every requirement met", ~pass => ~canT \/ ~canF)

TTx == /\ IsEv("tx")
       /\ LET t == TxOf(Ev.tx) IN
           CASE Ev.mode = "deliver" -> TxChecks(t, "deliver", Ev.res) /\ \E tie \in BOOLEAN : Deliver(t, Ev.res, tie)
             [] Ev.mode \in {"check", "recheck"} -> TxChecks(t, Ev.mode, Ev.res) /\ \E tie \in BOOLEAN : Check(t, Ev.mode, Ev.res, tie)
             [] Ev.mode = "sim" -> /\ Chk("F1 simulation passed a fee F1 forbids", Ev.res = "ok" => OneDenom(t) /\ DenomAllowed(t))
                                   /\ Simulate(t, Ev.res)

TCommit == IsEv("commit") /\ Commit

\* C1 / C2
TConv == /\ IsEv("conv")
         /\ LET c == [d |-> Ev.coin.d, x |-> Ev.coin.x] IN
             /\ Convert(c, Ev.ok, Ev.w)
             /\ Chk("C1 CalcFeeSpotPrice answers iff registered", Ev.spok = Registered(c.d))
             /\ Ev.spok => Chk("C1 CalcFeeSpotPrice is not the pool's quote",
                               BFloorDiv(Ev.sp, BUnit) = Quote(c.d)[1])

TraceNext ==
    \/ /\ TReset
       /\ l' = l + 1
    \/ /\ (TGov \/ TSetMsg \/ TTrade \/ TTx \/ TCommit \/ TConv)
       /\ Logged /\ Queries
       /\ l' = l + 1

TraceSpec == TraceInit /\ [][TraceNext]_<<vars, l>>

Mark == HWMark(l)
Accepted == HWAccepted
=============================================================================
