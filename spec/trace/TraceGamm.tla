------------------------------ MODULE TraceGamm ------------------------------
(* Trace validation for C02.  Every line of a recorded execution of the real  *)
(* x/gamm + x/poolmanager (+ bank) code must be a step of Gamm.tla over       *)
(* arbitrary-precision numbers (U = 10^18), and every property of Gamm.tla    *)
(* must hold in every recorded state / on every recorded step.                *)
(*                                                                           *)
(* Lines.  cfg: a new history (actors, pool slots, denoms, initial share      *)
(* supply, pool-creation fee, who is exempt from it) with the whole ledger.   *)
(* op: one delivered message - who sent it, its arguments, whether it         *)
(* succeeded, what it answered (response fields; for routed swaps the per-hop *)
(* amounts of the token_swapped events and the taker-fee rate the keeper      *)
(* reports for each hop's denom pair), and the whole ledger as read back      *)
(* afterwards: every tracked account's balance in every denom, every supply,  *)
(* every pool's reported reserves and total shares.                           *)
(*                                                                           *)
(* For each line the spec COMPUTES the ledger the action must lead to from    *)
(* the previous ledger and the message's answer, and requires the logged      *)
(* ledger to be exactly that; the property's state predicates are evaluated   *)
(* on the LOGGED ledger first (named checks), so a rejection says which part  *)
(* of the property the real code broke.                                       *)
(*                                                                           *)
(* Replayed model behaviours are logged as a tree walk: `lvl` = number of     *)
(* operations preceding this one on its path (-1 in plain recorded histories: *)
(* strictly linear); `stk` keeps the ledgers along the current path and       *)
(* TRewind steps back to the branching point.                                 *)
EXTENDS Gamm, TraceLib

B == INSTANCE BigNum

BAdd(a, b) == B!Add(a, b)
BSub(a, b) == B!Sub(a, b)
BMul(a, b) == B!Mul(a, b)
BLe(a, b)  == B!Cmp(a, b) <= 0
BFloorDiv(a, b) == B!FloorDiv(a, b)
BCeilDiv(a, b)  == B!CeilDiv(a, b)
BZero == B!Zero
BU    == B!Pow(B!OfInt(10), 18)

VARIABLES l,      \* number of trace lines consumed
          stk     \* ledgers along the current path of a replayed behaviour tree: Seq([l, g])

tvars == <<vars, l, stk>>

Ev == Log[l + 1]
IsEv(e) == l < NLines /\ Ev.e = e
IsOp(ops) == IsEv("op") /\ Ev.op \in ops

CfgOf(ev) == [na |-> ev.na, np |-> ev.np, nd |-> ev.nd, initShares |-> ev.initShares,
              createFee |-> ev.createFee, free |-> {ev.free[i] : i \in DOMAIN ev.free}]
LedgerOf(st) == [bal |-> st.bal, sup |-> st.sup, pools |-> st.pools]

LedgerEq(a, b) ==
    /\ \A x \in Acct : VEq(a.bal[x], b.bal[x])
    /\ VEq(a.sup, b.sup)
    /\ \A p \in Slots : /\ a.pools[p].on = b.pools[p].on
                        /\ VEq(a.pools[p].res, b.pools[p].res)
                        /\ NEq(a.pools[p].sh, b.pools[p].sh)

WellShaped(ev) ==
    /\ Len(ev.st.bal) = ev.na + ev.np + 2
    /\ \A a \in 1..Len(ev.st.bal) : Len(ev.st.bal[a]) = ev.nd + ev.np
    /\ Len(ev.st.sup) = ev.nd + ev.np
    /\ Len(ev.st.pools) = ev.np
    /\ Len(ev.createFee) = ev.nd + ev.np

TraceInit ==
    /\ HWInit
    /\ l = 1
    /\ Log[1].e = "cfg"
    /\ WellShaped(Log[1])
    /\ InitWith(CfgOf(Log[1]), Log[1].st.bal, Log[1].st.sup)
    /\ stk = << [l |-> L, g |-> G] >>

\* a new history
TReset ==
    /\ IsEv("cfg")
    /\ WellShaped(Ev)
    /\ cfg' = CfgOf(Ev)
    /\ L' = [bal |-> Ev.st.bal, sup |-> Ev.st.sup,
             pools |-> [p \in 1..Ev.np |-> [on |-> FALSE, res |-> [d \in 1..(Ev.nd + Ev.np) |-> BZero], sh |-> BZero]]]
    /\ G' = [direct |-> [p \in 1..Ev.np |-> [d \in 1..(Ev.nd + Ev.np) |-> BZero]],
             sup0 |-> Ev.st.sup,
             out |-> [d \in 1..(Ev.nd + Ev.np) |-> BSub(Ev.st.sup[d], SumUpTo(Ev.st.bal, Ev.na + Ev.np + 2, d))]]
    /\ last' = [op |-> "init", ok |-> TRUE, who |-> 0, parties |-> {}, pools |-> {}]
    /\ stk' = << [l |-> L', g |-> G'] >>
    /\ l' = l + 1

\* the recorded ledger: first the property's state predicates on what the real code reports
\* (so that a rejection names the part of the property that broke), then exact agreement
\* with the ledger the specification computes from the message's answer
\* NonNeg: a balance, supply, reserve or share total is negative
\* PoolBacked: pool account balance # reported reserves + direct sends, in some denom
\* ShareSupply: supply of a share denom # total shares the pool reports
\* SupplyConst: supply of a non-share denom changed
\* Accounted: units appeared in / disappeared from the tracked accounts
\* LedgerEffect: the recorded ledger is not the one this message's answer implies
\* SwapLegsMatchRoute: the events do not report one swap per hop of the route, in order
\* SwapFeeAndShape: taker fee / hop chaining / reported total are not as the property states
Post ==
    LET logged == LedgerOf(Ev.st) IN
    /\ Chk("NonNeg", LedgerNonNeg(logged))
    /\ Chk("PoolBacked", PoolBackedOf(logged, G'))
    /\ Chk("ShareSupply", ShareSupplyOf(logged))
    /\ Chk("SupplyConst", SupplyConstOf(logged, G'))
    /\ Chk("Accounted", AccountedOf(logged, G'))
    /\ Chk("LedgerEffect-balances", \A x \in Acct : VEq(L'.bal[x], logged.bal[x]))
    /\ Chk("LedgerEffect-supplies", VEq(L'.sup, logged.sup))
    /\ Chk("LedgerEffect-poolrecords", LedgerEq(L', logged))

\* stack discipline of replayed behaviour trees (lvl = -1: linear history, no stack)
AtLevel == Ev.lvl = -1 \/ Ev.lvl = Len(stk) - 1
Push == stk' = IF Ev.lvl = -1 THEN stk ELSE Append(stk, [l |-> L', g |-> G'])

TRewind ==
    /\ IsEv("op") /\ Ev.lvl >= 0 /\ Ev.lvl < Len(stk) - 1
    /\ L' = stk[Ev.lvl + 1].l /\ G' = stk[Ev.lvl + 1].g
    /\ stk' = SubSeq(stk, 1, Ev.lvl + 1)
    /\ last' = [op |-> "rewind", ok |-> TRUE, who |-> 0, parties |-> Acct, pools |-> Slots]
    /\ UNCHANGED <<cfg, l>>

---------------------------------------------------------------------------
(* one step per kind of message *)
Who == Ev.who

TCreate == /\ IsOp({"create"}) /\ Ev.ok
           /\ Chk("CreateSlot", Ev.res.p \in Slots)
           /\ CreatePool(Who, Ev.res.p, Ev.args.v)

JoinV == CASE Ev.op = "join"    -> Ev.res.v
           [] Ev.op = "joinIn"  -> One(Ev.args.d, Ev.args.x)
           [] Ev.op = "joinOut" -> One(Ev.args.d, Ev.res.x)
JoinS == CASE Ev.op = "join"    -> Ev.res.s
           [] Ev.op = "joinIn"  -> Ev.res.s
           [] Ev.op = "joinOut" -> Ev.args.s
TJoin == /\ IsOp({"join", "joinIn", "joinOut"}) /\ Ev.ok
         /\ Join(Who, Ev.args.p, JoinV, JoinS)

ExitV == CASE Ev.op = "exit"    -> Ev.res.v
           [] Ev.op = "exitIn"  -> One(Ev.args.d, Ev.res.x)
           [] Ev.op = "exitOut" -> One(Ev.args.d, Ev.args.x)
ExitS == CASE Ev.op = "exit"    -> Ev.args.s
           [] Ev.op = "exitIn"  -> Ev.args.s
           [] Ev.op = "exitOut" -> Ev.res.s
TExit == /\ IsOp({"exit", "exitIn", "exitOut"}) /\ Ev.ok
         /\ Exit(Who, Ev.args.p, ExitV, ExitS)

\* routes of the message zipped with the swap legs its events report, in execution order
RECURSIVE HopsBefore(_, _)
HopsBefore(rts, j) == IF j = 1 THEN 0 ELSE Len(rts[j - 1].hops) + HopsBefore(rts, j - 1)
NHops(rts) == HopsBefore(rts, Len(rts) + 1)
Zip(rts, legs) ==
    [j \in 1..Len(rts) |->
        [amt |-> rts[j].amt,
         hops |-> [k \in 1..Len(rts[j].hops) |->
                     LET h == rts[j].hops[k]  g == legs[HopsBefore(rts, j) + k]
                     IN  [p |-> h.p, di |-> h.di, do |-> h.do, f |-> h.f, ai |-> g.ai, ao |-> g.ao]]]]
LegsMatch(rts, legs) ==
    /\ Len(legs) = NHops(rts)
    /\ \A j \in 1..Len(rts) : \A k \in 1..Len(rts[j].hops) :
          LET h == rts[j].hops[k]  g == legs[HopsBefore(rts, j) + k]
          IN  g.p = h.p /\ g.di = h.di /\ g.do = h.do

TSwap == /\ IsOp({"swap"}) /\ Ev.ok
         /\ Chk("SwapLegsMatchRoute", LegsMatch(Ev.args.routes, Ev.res.legs))
         /\ LET rs == Zip(Ev.args.routes, Ev.res.legs) IN
            /\ Chk("SwapFeeAndShape",
                   SwapShapeOK(Ev.args.exactIn, Ev.args.ex, rs, Ev.res.total))
            /\ Chk("SwapHopsOnLivePools", AllHopsOK(L, rs))
            /\ Swap(Who, Ev.args.exactIn, Ev.args.ex, rs, Ev.res.total)

TSend == /\ IsOp({"send"}) /\ Ev.ok
         /\ Send(Who, Ev.args.to, Ev.args.v)

TFund == /\ IsOp({"fund"}) /\ Ev.ok
         /\ Fund(Who, Ev.args.v)

TConfig == /\ IsOp({"config"}) /\ Ev.ok
           /\ Noop("config", Who, TRUE)

TFail == /\ IsEv("op") /\ ~Ev.ok
         /\ Noop(Ev.op, Who, FALSE)

TOp == /\ IsEv("op") /\ AtLevel
       /\ (TCreate \/ TJoin \/ TExit \/ TSwap \/ TSend \/ TFund \/ TConfig \/ TFail)
       /\ Post
       /\ Push
       /\ l' = l + 1

TraceNext == TReset \/ TOp \/ TRewind
TraceSpec == TraceInit /\ [][TraceNext]_tvars

Mark == HWMark(l)
Accepted == HWAccepted
=============================================================================
