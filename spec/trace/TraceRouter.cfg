SPECIFICATION TraceSpec
CONSTANTS
  NAdd <- BAdd
  NSub <- BSub
  NMul <- BMul
  NLe <- BLe
  NFloorDiv <- BFloorDiv
  NCeilDiv <- BCeilDiv
  NZero <- BZero
  NOne <- BOne
  NScale <- BScale
  PoolIn <- ObsIn
  PoolOut <- ObsOut
  Tolerate <- NoDeviations
CONSTRAINT Mark
POSTCONDITION Accepted
CHECK_DEADLOCK FALSE
