----------------------------- MODULE TraceAccum -----------------------------
(* Trace validation for C15: every line of a recorded execution of the real  *)
(* osmoutils/accum package must be a step of Accum.tla with arbitrary-        *)
(* precision numbers (Unit = 10^18), and every property of Accum.tla is       *)
(* evaluated in every state / on every step of the recorded execution.        *)
(* Lines: cfg (a new history: a fresh accumulator over nd denoms), op (one    *)
(* call of the exported API: name, arguments, outcome, what it returned, and  *)
(* the whole accumulator + all position records as read back from the store). *)
(* Amounts folded into `unc` by the code are taken from the log and checked   *)
(* to be the outstanding rewards rounded to nearest (Accum!IsRounded).        *)
EXTENDS Accum, TraceLib

B == INSTANCE BigNum

BAdd(a, b) == B!Add(a, b)
BSub(a, b) == B!Sub(a, b)
BMul(a, b) == B!Mul(a, b)
BLe(a, b)  == B!Cmp(a, b) <= 0
BOfNat(n)  == B!OfInt(n)
BZero      == B!Zero
BUnit      == B!Pow(B!OfInt(10), 18)

VARIABLE l      \* number of trace lines consumed

Ev == Log[l + 1]
IsEv(e) == l < NLines /\ Ev.e = e

\* the logged position records as a function name -> record
PosOf(ps) == [m \in {ps[i].n : i \in DOMAIN ps} |->
                 LET r == ps[CHOOSE i \in DOMAIN ps : ps[i].n = m]
                 IN  [shares |-> r.sh, snap |-> r.snap, unc |-> r.unc]]

TraceInit ==
    /\ HWInit
    /\ l = 1
    /\ Log[1].e = "cfg"
    /\ InitWith(Log[1].nd)

\* a new history starts
TReset ==
    /\ IsEv("cfg")
    /\ acc' = [d \in 1..Ev.nd |-> BZero]
    /\ total' = BZero
    /\ pos' = <<>> /\ ideal' = <<>> /\ nUpd' = <<>>
    /\ last' = [op |-> "reset", n |-> "", ok |-> TRUE, res |-> <<>>, tot |-> <<>>]

\* the logged state after the call is the state the specification reaches
Matches(st) ==
    /\ st.extra = 0
    /\ acc' = st.acc
    /\ total' = st.total
    /\ pos' = PosOf(st.pos)

\* what the code added to unc of position n in this call (from the logged record)
FoldedInto(n, st) ==
    LET lp == PosOf(st.pos)
    IN  IF n \in DOMAIN lp /\ Has(n) /\ IsVec(lp[n].unc) THEN VSub(lp[n].unc, pos[n].unc) ELSE <<>>

TOp ==
    /\ IsEv("op")
    /\ LET e == Ev IN
       /\ ~e.panic
       /\ CASE e.op = "grow" -> e.ok /\ Grow(e.g)
            [] e.op = "new"  -> e.ok /\ Create("new", e.n, e.s, acc)
            [] e.op = "newi" -> e.ok /\ Create("newi", e.n, e.s, e.v)
            [] e.op \in ShareOps ->
                 IF e.ok THEN Change(e.op, e.n, e.s, IF e.op \in PlainShareOps THEN acc ELSE e.v, FoldedInto(e.n, e.st))
                         ELSE Fail(e.op, e.n, e.s)
            [] e.op = "set" -> IF e.ok THEN SetIv(e.n, e.v) ELSE Fail("set", e.n, e.s)
            [] e.op = "addunc" -> IF e.ok THEN AddUnc(e.n, e.g) ELSE Fail("addunc", e.n, e.s)
            [] e.op = "claim" ->
                 IF e.ok
                 THEN /\ Has(e.n) /\ IsVec(e.res) /\ IsVec(e.dust)
                      /\ LET tot == VAdd(VScale(e.res, Unit), e.dust)     \* whole coins + dust = everything collected
                         IN  /\ VLe(ZeroV, e.dust)
                             /\ Claim(e.n, VSub(tot, pos[e.n].unc), e.res)
                 ELSE Fail("claim", e.n, e.s)
            [] e.op = "delete" ->
                 IF e.ok
                 THEN /\ Has(e.n) /\ IsVec(e.res)
                      /\ Delete(e.n, VSub(e.res, pos[e.n].unc))
                 ELSE Fail("delete", e.n, e.s)
            \* something was done to ANOTHER accumulator kept in the same store: nothing moves here
            [] e.op = "nbr" -> UNCHANGED <<acc, total, pos, ideal, nUpd>> /\ Done("nbr", "", TRUE, <<>>, <<>>)
            [] OTHER -> FALSE
       /\ Matches(e.st)

TraceNext == /\ (TReset \/ TOp)
             /\ l' = l + 1

TraceSpec == TraceInit /\ [][TraceNext]_<<vars, l>>

Mark == HWMark(l)
Accepted == HWAccepted
=============================================================================
