------------------------------ MODULE TraceTwap ------------------------------
(* Trace validation for C10 on histories recorded from the real application   *)
(* (harness/app/twap TestRecord).  One line per block: for every (pool, asset  *)
(* pair) - a "track" - the spot prices read through the pool manager route at  *)
(* the end of the block, every stored record, and the answers of the public    *)
(* TWAP entry points to random intervals.                                      *)
(*                                                                            *)
(* The ghost of Twap.tla (end-of-block prices in force + their exact           *)
(* integrals, BigNum raw 10^-18 units x ms) is threaded through the history,   *)
(* per track, from the logged spot prices ONLY (records and answers are never  *)
(* used to build it).  Checked on every line (names are the Chk labels):       *)
(*  endblock-ok          the end blocker returned normally;                    *)
(*  record-*             every stored record sits on a block time, holds the   *)
(*                       end-of-block prices of that block and accumulators    *)
(*                       that are exactly the ghost integrals (the geometric   *)
(*                       one whenever all logarithms involved are exact);      *)
(*  prune-keeps-*        every record ever seen with time >= the retention     *)
(*                       horizon W, and the newest one older than W, is still  *)
(*                       stored; nothing but old records disappears;           *)
(*  q-not-a-number       start > end, end in the future, start before the      *)
(*                       creation or before the oldest stored record: an       *)
(*                       error, never a number;                                *)
(*  q-inside-window      start inside the window: a number is returned;        *)
(*  q-error-flagged      ... flagged when [s,e] touches a spot price error;    *)
(*  q-flag-only-with-error  ... and only then (or for the creation-time error  *)
(*                       of a concentrated pool filled in its creation block,  *)
(*                       see Twap!Tainted);                                    *)
(*  q-point              s = e: the price in force;                            *)
(*  q-arith              |v - (I(e) - I(s)) / (e - s)| < 1 ulp (10^-18) and     *)
(*                       min <= v <= max of the prices in force;               *)
(*  q-geo-*              geometric answers, stated precision = SigFigRound to   *)
(*                       10^8: 8 decimals for values >= 0.1, 8 significant      *)
(*                       digits below, i.e. half a quantum Q(v), plus 2e-17     *)
(*                       relative + 3 ulp for log2 / exp2 / truncations; for    *)
(*                       quote = asset1 (the code inverts the asset0 mean) the  *)
(*                       10^-18 quantisation of the recorded p0 is added        *)
(*                       (2 ulp / min p0 relative).  The geometric TWAP is      *)
(*                       defined on the p0 series (the statement makes the two  *)
(*                       directions reciprocal); against the recorded p1 series *)
(*                       the bracket is demanded only as far as the recorded    *)
(*                       p0 and p1 are reciprocal themselves (the pools round   *)
(*                       each to 8 significant figures, stableswap pools        *)
(*                       approximate each separately: observed p0 p1 - 1 up to  *)
(*                       1.3e-7; e.g. p0 = 0.006122449, p1 = 163.33333333, the  *)
(*                       code answers 1 / p0 = 163.33333279):                   *)
(*     bracket           min - tol <= v <= max + tol of the prices in force     *)
(*                       (equality with the price when it was constant);        *)
(*     exact             v^n brackets PROD p_i^(k_i) (n = T / gcd, k_i =        *)
(*                       dt_i / gcd) whenever n <= GeoMaxN: the definition of   *)
(*                       the geometric mean, no logarithm involved;             *)
(*     reciprocal        v0 * v1 = 1 within the two tolerances;                *)
(*     zero              a geometric answer 0 (the ideal is never 0): reported  *)
(*                       under its own label, tolerated iff AllowGeoZero and 1  *)
(*                       lies between min and max price in force (known         *)
(*                       finding: accumulator difference 0 is answered with 0); *)
(*  prune-answer-stable  in blocks with an active pruning the same questions    *)
(*                       were asked on a branch that ended without the pruning  *)
(*                       pass: inside the window the answers are identical.     *)
(* Calibration on the unchanged tree (python mirror, seeds 1-3, 2.9e4 answers): *)
(* every arithmetic answer was exactly the floor; worst geometric deviation     *)
(* 0.9998 of half a quantum.                                                   *)
EXTENDS Integers, Sequences, FiniteSets, TLC, TraceLib

CONSTANTS NoLog, AllowGeoZero, GeoMaxN

B == INSTANCE BigNum

U18 == B!Pow(B!OfInt(10), 18)
U36 == B!Pow(B!OfInt(10), 36)
BMulT(x, k) == B!Mul(x, B!OfInt(k))
BLe(a, b) == B!Le(a, b)
Pow2 == [k \in 0..6 |-> B!Pow(B!OfInt(2), k)]
\* exact base-2 logarithms (scaled 10^18) of the prices 2^-6 .. 2^6, NoLog otherwise
BLog(p) ==
    LET up == {k \in 0..6 : B!Eq(p, B!Mul(Pow2[k], U18))}
        dn == {k \in 1..6 : B!Eq(B!Mul(p, Pow2[k]), U18)}
    IN IF up # {} THEN BMulT(U18, CHOOSE k \in up : TRUE)
       ELSE IF dn # {} THEN B!Neg(BMulT(U18, CHOOSE k \in dn : TRUE))
       ELSE NoLog

VARIABLES l, conf, gh, Wv, tnt, seen

T == INSTANCE Twap WITH NZero <- B!Zero, NAdd <- B!Add, NSub <- B!Sub, NMulT <- BMulT, NLe <- BLe, NLog <- BLog,
                         KeepPeriod <- 0, PruneLimit <- 0,
                         now <- 0, phase <- "closed", exists <- TRUE, cur <- 0, changed <- FALSE, ghost <- <<>>,
                         recs <- {}, last <- 0, prune <- 0, W <- Wv, ever <- {}, taint <- 0

Ev == Log[l + 1]
Tracks == DOMAIN gh

---------------------------------------------------------------------------
(* the prices the module records, from the spot prices it reads *)
MaxSp == conf.maxSp
Trunc18(x) == B!QuoT(x, U18)
Clamp(x) == IF B!Gt(x, MaxSp) THEN MaxSp ELSE x
P0Of(sp) == Clamp(Trunc18(sp.s0))
P1Of(sp) == Clamp(Trunc18(sp.s1))
ErrOf(sp) == sp.e0 \/ sp.e1 \/ B!Gt(Trunc18(sp.s0), MaxSp) \/ B!Gt(Trunc18(sp.s1), MaxSp) \/ P0Of(sp).s = 0

GhostNext(tr) ==
    T!GhostAppend(IF tr.id \in Tracks THEN gh[tr.id] ELSE <<>>, Ev.t, P0Of(tr.sp), P1Of(tr.sp), ErrOf(tr.sp))

RecTimes(tr) == {tr.recs[i].t : i \in 1..Len(tr.recs)}

---------------------------------------------------------------------------
(* records *)
RecOK(g, r) ==
    /\ Chk("record-on-a-block-time", \E i \in 1..Len(g) : g[i].t = r.t)
    /\ LET b == g[CHOOSE i \in 1..Len(g) : g[i].t = r.t] IN
        /\ Chk("record-prices", B!Eq(r.p0, b.p0) /\ B!Eq(r.p1, b.p1))
        /\ Chk("record-arithmetic-accumulators", B!Eq(r.a0, b.c0) /\ B!Eq(r.a1, b.c1))
        /\ Chk("record-geometric-accumulator", b.gok => B!Eq(r.g, b.cg))

---------------------------------------------------------------------------
(* answers *)
IsNumber(r) == r.c \in {"ok", "flag"}

NDigits(v) == IF v.s = 0 THEN 0 ELSE 4 * (Len(v.m) - 1) +
              (LET top == v.m[Len(v.m)] IN IF top >= 1000 THEN 4 ELSE IF top >= 100 THEN 3 ELSE IF top >= 10 THEN 2 ELSE 1)
MinI(a, b) == IF a < b THEN a ELSE b
\* half a quantum of SigFigRound(., 10^8), raw units
HalfQ(v) == LET d == MinI(NDigits(v), 18) IN IF d < 9 THEN B!Zero ELSE B!QuoT(B!Pow(B!OfInt(10), d - 8), B!OfInt(2))
Small(v) == B!Add(B!QuoT(BMulT(v, 2), B!Pow(B!OfInt(10), 17)), B!OfInt(3))
Tol0(v) == B!Add(HalfQ(v), Small(v))
\* quote = asset1: plus the quantisation of the recorded p0 (2 ulp / min p0, relative)
Tol1(v, minp0) == B!Add(Tol0(v), B!Add(B!QuoT(BMulT(v, 2), minp0), B!One))
Lo(v, d) == IF B!Gt(v, d) THEN B!Sub(v, d) ELSE B!Zero
Hi(v, d) == B!Add(v, d)

RECURSIVE GcdI(_, _)
GcdI(a, b) == IF b = 0 THEN a ELSE GcdI(b, a % b)
\* overlap of entry i's validity interval with [s, e]
Overlap(g, i, s, e) ==
    LET a == IF g[i].t > s THEN g[i].t ELSE s
        z == IF i = Len(g) THEN e ELSE IF g[i + 1].t < e THEN g[i + 1].t ELSE e
    IN z - a
RECURSIVE GcdOver(_, _, _, _, _)
GcdOver(g, S, s, e, acc) ==
    IF S = {} THEN acc ELSE LET i == CHOOSE i \in S : TRUE IN GcdOver(g, S \ {i}, s, e, GcdI(acc, Overlap(g, i, s, e)))
RECURSIVE ProdOver(_, _, _, _, _)
ProdOver(g, S, s, e, d) ==
    IF S = {} THEN B!One ELSE LET i == CHOOSE i \in S : TRUE IN
        B!Mul(B!Pow(g[i].p0, Overlap(g, i, s, e) \div d), ProdOver(g, S \ {i}, s, e, d))

BMinOf(S) == CHOOSE x \in S : \A y \in S : B!Le(x, y)
BMaxOf(S) == CHOOSE x \in S : \A y \in S : B!Le(y, x)

\* v (quote = asset0) is the geometric mean of the p0 in force, exactly: v^n ~ PROD p_i^(k_i)
GeoExact0(g, S, s, e, v, tol) ==
    LET d == GcdOver(g, S, s, e, e - s)
        n == (e - s) \div d
    IN n <= GeoMaxN =>
        LET P == ProdOver(g, S, s, e, d) IN
        B!Le(B!Pow(Lo(v, tol), n), P) /\ B!Le(P, B!Pow(Hi(v, tol), n))
\* v (quote = asset1) is the reciprocal of that mean: v^n PROD p_i^(k_i) ~ (10^36)^n
GeoExact1(g, S, s, e, v, tol) ==
    LET d == GcdOver(g, S, s, e, e - s)
        n == (e - s) \div d
    IN n <= GeoMaxN =>
        LET P == ProdOver(g, S, s, e, d) one == B!Pow(U36, n) IN
        B!Le(B!Mul(B!Pow(Lo(v, tol), n), P), one) /\ B!Le(one, B!Mul(B!Pow(Hi(v, tol), n), P))

ValueOK(g, q, dir, v) ==
    LET s == q.s e == q.e
        S == T!InForce(g, s, e)
        mn0 == BMinOf({g[i].p0 : i \in S}) mx0 == BMaxOf({g[i].p0 : i \in S})
        mn1 == BMinOf({g[i].p1 : i \in S}) mx1 == BMaxOf({g[i].p1 : i \in S})
    IN
    IF s = e THEN
        LET b == g[T!IdxAt(g, s)] IN Chk("q-point", B!Eq(v, IF dir = 0 THEN b.p0 ELSE b.p1))
    ELSE IF q.k = "a" THEN
        LET A == IF dir = 0 THEN T!Sum0(g, s, e) ELSE T!Sum1(g, s, e)
            tt == B!OfInt(e - s)
        IN /\ Chk("q-arith", B!Lt(B!Abs(B!Sub(B!Mul(v, tt), A)), tt))
           /\ Chk("q-arith-between-min-and-max", IF dir = 0 THEN B!Le(mn0, v) /\ B!Le(v, mx0) ELSE B!Le(mn1, v) /\ B!Le(v, mx1))
    ELSE IF v.s = 0 THEN
        Chk("q-geo-zero", AllowGeoZero /\ B!Le(mn0, U18) /\ B!Le(U18, mx0))
    ELSE IF dir = 0 THEN
        LET tol == Tol0(v) IN
        /\ Chk("q-geo-bracket", B!Le(mn0, Hi(v, tol)) /\ B!Le(Lo(v, tol), mx0))
        /\ Chk("q-geo-exact", GeoExact0(g, S, s, e, v, tol))
    ELSE
        LET tol == Tol1(v, mn0) IN
        \* between 1 / max p0 and 1 / min p0 ...
        /\ Chk("q-geo-bracket", B!Le(U36, B!Mul(Hi(v, tol), mx0)) /\ B!Le(B!Mul(Lo(v, tol), mn0), U36))
        \* ... and between min and max of the recorded p1, as far as the recorded p0 and p1 determine
        \* each other: the pools round both to 8 significant figures and stableswap pools compute them
        \* by two separate approximations, so p0 p1 = 1 only up to inc = max |p0_i p1_i - 1| (measured)
        /\ LET inc == BMaxOf({B!Abs(B!Sub(B!Mul(g[i].p0, g[i].p1), U36)) : i \in S})
               tp == B!Add(tol, B!Add(B!QuoT(B!Mul(v, inc), U36), B!One))
           IN Chk("q-geo-bracket-p1", B!Le(mn1, Hi(v, tp)) /\ B!Le(Lo(v, tp), mx1))
        /\ Chk("q-geo-exact", GeoExact1(g, S, s, e, v, tol))

Reciprocal(q) ==
    (q.k = "g" /\ q.s < q.e /\ q.r0.c = "ok" /\ q.r1.c = "ok" /\ q.r0.v.s # 0 /\ q.r1.v.s # 0) =>
        LET v0 == q.r0.v v1 == q.r1.v d0 == Tol0(v0) d1 == Tol0(v1)
            slack == B!Add(B!Add(B!Mul(d0, v1), B!Mul(d1, v0)), B!Mul(d0, d1))
        IN Chk("q-geo-reciprocal", B!Le(B!Abs(B!Sub(B!Mul(v0, v1), U36)), slack))

Oldest(tr) == IF Len(tr.recs) = 0 THEN 2147483647 ELSE tr.recs[1].t

\* class of a question: what the property says about it
QClass(g, tr, w, q) ==
    IF q.s > q.e \/ q.e > Ev.t THEN "invalid"
    ELSE IF q.s < T!Born(g) \/ q.s < Oldest(tr) THEN "old"
    ELSE IF q.s < w THEN "outside"
    ELSE "inside"

AnsOK(g, tn, q, dir, r) ==
    /\ Chk("q-inside-window", IsNumber(r))
    /\ Chk("q-error-flagged", T!ErrTouches(g, q.s, q.e) => r.c = "flag")
    /\ Chk("q-flag-only-with-error", r.c = "flag" => (T!ErrTouches(g, q.s, q.e) \/ T!Tainted(tn, q.s)))
    /\ r.c = "ok" => ValueOK(g, q, dir, r.v)

QOK(ghs, tns, w, q) ==
    LET tr == Ev.tr[q.tr] g == ghs[q.tr] c == QClass(g, tr, w, q) IN
    CASE c \in {"invalid", "old"} -> Chk("q-not-a-number", ~IsNumber(q.r0) /\ ~IsNumber(q.r1))
      [] c = "outside" -> TRUE
      [] OTHER -> AnsOK(g, tns[q.tr], q, 0, q.r0) /\ AnsOK(g, tns[q.tr], q, 1, q.r1) /\ Reciprocal(q)

\* pruning never changes an answer inside the window
StableOK(ghs, w) ==
    Len(Ev.qnp) > 0 =>
        /\ Chk("prune-answer-stable-same-questions", Len(Ev.qnp) = Len(Ev.q))
        /\ \A i \in 1..Len(Ev.q) :
             LET q == Ev.q[i] n == Ev.qnp[i] IN
             (q.s <= q.e /\ q.e <= Ev.t /\ q.s >= T!Born(ghs[q.tr]) /\ q.s >= w) =>
                 Chk("prune-answer-stable", q.r0 = n.r0 /\ q.r1 = n.r1)

---------------------------------------------------------------------------
\* taint of a track (see Twap!Tainted): creation-time read error, valid price at the end of that block
TaintNext(tr, ghn) ==
    IF tr.id \notin Tracks THEN
        IF tr.cerr /\ ~ghn[1].err THEN [from |-> Ev.t, to |-> -1] ELSE T!NoTaint
    ELSE LET tn == tnt[tr.id]
             later == {x \in RecTimes(tr) : x > tn.from}
         IN IF tn.from >= 0 /\ tn.to = -1 /\ later # {} THEN [tn EXCEPT !.to = T!MinOf(later)] ELSE tn

\* times of the records seen so far
SeenNext(tr) == (IF tr.id \in Tracks THEN seen[tr.id] ELSE {}) \cup RecTimes(tr)

PruneOK(tr, sn, w) ==
    LET have == RecTimes(tr)
        old == {x \in sn : x < w}
    IN /\ Chk("prune-keeps-window", \A x \in sn : x >= w => x \in have)
       \* Times are logged in whole milliseconds.  In jitter histories (odd seed: every millisecond carries its own
       \* sub-millisecond offset) a record logged AT w may really be older than the keep time (block time - keep
       \* period, with the offset of ANOTHER millisecond): then it is itself the newest older record and the ones
       \* before it may go.  It is always kept (clause above), so the demand is dropped in exactly that case.
       /\ Chk("prune-keeps-newest-older", old # {} => (T!MaxOf(old) \in have \/ (conf.seed % 2 = 1 /\ w \in sn)))

TraceInit ==
    /\ HWInit
    /\ l = 1
    /\ Log[1].e = "cfg"
    /\ conf = Log[1]
    /\ gh = <<>> /\ Wv = -1 /\ tnt = <<>> /\ seen = <<>>

TReset ==
    /\ Ev.e = "cfg"
    /\ conf' = Ev
    /\ gh' = <<>> /\ Wv' = -1 /\ tnt' = <<>> /\ seen' = <<>>

TBlock ==
    /\ Ev.e = "blk"
    /\ Chk("endblock-ok", Ev.ebOk)
    /\ Chk("tracks-are-numbered", \A k \in 1..Len(Ev.tr) : Ev.tr[k].id = k)
    /\ LET w   == IF Ev.epoch /\ Ev.keepT > Wv THEN Ev.keepT ELSE Wv
           ghn == [k \in 1..Len(Ev.tr) |-> GhostNext(Ev.tr[k])]
           tnn == [k \in 1..Len(Ev.tr) |-> TaintNext(Ev.tr[k], ghn[k])]
           snn == [k \in 1..Len(Ev.tr) |-> SeenNext(Ev.tr[k])]
       IN /\ \A k \in 1..Len(Ev.tr) :
                /\ \A i \in 1..Len(Ev.tr[k].recs) : RecOK(ghn[k], Ev.tr[k].recs[i])
                /\ PruneOK(Ev.tr[k], snn[k], w)
          /\ \A i \in 1..Len(Ev.q) : QOK(ghn, tnn, w, Ev.q[i])
          /\ StableOK(ghn, w)
          /\ gh' = ghn /\ Wv' = w /\ tnt' = tnn /\ seen' = snn
    /\ UNCHANGED conf

TraceNext == l < NLines /\ (TReset \/ TBlock) /\ l' = l + 1
TraceSpec == TraceInit /\ [][TraceNext]_<<l, conf, gh, Wv, tnt, seen>>
Mark == HWMark(l)
Accepted == HWAccepted
=============================================================================
