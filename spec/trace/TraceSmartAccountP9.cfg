SPECIFICATION TraceSpec
CONSTANTS
  ConfirmAfterFailedExec = FALSE
  FeeWithoutSequence = TRUE
CONSTRAINT Mark
POSTCONDITION Accepted
INVARIANTS IdsUnique RegWellFormed AuthenticatePure StoresConsistent NoCallsWhileInactive TrackOnlyAfterAuth TxIdsFresh ConfirmOnlyAfterExecution
PROPERTIES OwnerOnly IdsIncrease IdsKept FrozenWhileInactive NeverTakenBack FailedTxKeepsNothing
CHECK_DEADLOCK FALSE
