SPECIFICATION TraceSpec
CONSTANTS
  K = 6
  MinDecade <- RMinDecade
  LaunchDecade <- RLaunchDecade
  MaxDecade = 38
  PD = 36
  SD = 18
CONSTRAINT Mark
POSTCONDITION Accepted
INVARIANTS PriceInBounds SqrtInBounds RoundNeverUp TickAnswerInRange
PROPERTIES PriceStrictlyIncreasing SqrtNonDecreasing
CHECK_DEADLOCK FALSE
