SPECIFICATION TraceSpec
CONSTANTS
  M = 2
  Fix <- TNoFix
CONSTRAINT Mark
POSTCONDITION Accepted
CHECK_DEADLOCK FALSE
