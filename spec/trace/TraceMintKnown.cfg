SPECIFICATION TraceSpec
CONSTANTS
  NAdd <- BAdd
  NSub <- BSub
  NMul <- BMul
  NLe <- BLe
  NZero <- BZero
  NOne <- BOne
  NScale <- BScale
CONSTRAINT Mark
POSTCONDITION Accepted
INVARIANTS MintEmpty Conservation Schedule
PROPERTIES ReductionOnlyWhenDue NothingBeforeStart
CHECK_DEADLOCK FALSE
