SPECIFICATION TraceSpec
CONSTANTS
  NoLog = NoLog
  AllowGeoZero = FALSE
  GeoMaxN = 64
CONSTRAINT Mark
POSTCONDITION Accepted
CHECK_DEADLOCK FALSE
