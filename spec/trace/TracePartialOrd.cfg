SPECIFICATION TraceSpec
CONSTANTS
  Perms <- TabPerms
  BeforePairs <- TabBefore
CONSTRAINT Mark
POSTCONDITION Accepted
INVARIANTS TypeOK Permutation Pairwise FirstHolds LastHolds LoudFailure Sealed
PROPERTIES PairsStay OverrideExact DeclaredOnce SameAnswer NoHealing
CHECK_DEADLOCK FALSE
