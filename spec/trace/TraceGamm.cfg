SPECIFICATION TraceSpec
CONSTANTS
  U <- BU
  NZero <- BZero
  NAdd <- BAdd
  NSub <- BSub
  NMul <- BMul
  NLe <- BLe
  NFloorDiv <- BFloorDiv
  NCeilDiv <- BCeilDiv
CONSTRAINT Mark
POSTCONDITION Accepted
INVARIANTS PoolBacked ShareSupply SupplyConst Accounted NonNeg DeadPoolsEmpty
PROPERTIES FailedNoEffect OnlyPartiesChange SwapConserves CollectorsOnlyReceive
CHECK_DEADLOCK FALSE
