SPECIFICATION TraceSpec
CONSTANTS
  Special <- TrSpecial
  TransferKinds <- TrTransferKinds
  Listed <- TrListed
CONSTRAINT Mark
POSTCONDITION Accepted
PROPERTIES OnlyOwnerSucceeds StrangerChangesNothing ForeignRecordsUntouched RefusedRolledBack OwnershipEvolves RenouncedIsForever
CHECK_DEADLOCK FALSE
