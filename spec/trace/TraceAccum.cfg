SPECIFICATION TraceSpec
CONSTANTS
  Unit <- BUnit
  NZero <- BZero
  NAdd <- BAdd
  NSub <- BSub
  NMul <- BMul
  NLe <- BLe
  NOfNat <- BOfNat
CONSTRAINT Mark
POSTCONDITION Accepted
INVARIANTS TotalIsSum TracksIdeal Sane
PROPERTIES ClaimPaysIdeal ClaimResetsOnlyClaimer DeleteRemoves FailedNoEffect NoSuccessOutOfThinAir
CHECK_DEADLOCK FALSE
