------------------------- MODULE TraceTakerFeeDist -------------------------
(* Trace validation for X06: every line of a recorded execution of the real   *)
(* x/poolmanager router / governance messages and the real x/txfees           *)
(* AfterEpochEnd on a full app must be a step (an epoch end: the nine phases)  *)
(* of TakerFeeDist.tla; amounts, percentages and shares are BigNum (unit       *)
(* 10^18); every property of TakerFeeDist.tla is evaluated in every state,     *)
(* including the intermediate states of an epoch end.                          *)
(* Lines: cfg (a new history: configuration and projected state), swap (route  *)
(* denominations, outcome, fee charged per denomination), agr (agreement set   *)
(* by the governance message, handler outcome, whether the transaction was     *)
(* committed), conf (parameters / links changed), dep (coins arrive in a       *)
(* collector), alloy (an alloyed pool is registered / compositions are         *)
(* recalculated at the end of a 700th block), block (BeginBlock), epoch        *)
(* (identifier, outcome, the swaps the collectors made), each with the         *)
(* projected state after the call.                                             *)
(*                                                                             *)
(* Where the current tree is known to deviate (docs/findings_x06.json) the     *)
(* trace specification follows the recorded execution and notes the first line *)
(* of each kind in `dev`; the strict configuration has them as invariants /    *)
(* properties, the monitor configuration reports them.                         *)
EXTENDS TakerFeeDist, TraceLib

B == INSTANCE BigNum

BAdd(a, b) == B!Add(a, b)
BSub(a, b) == B!Sub(a, b)
BMul(a, b) == B!Mul(a, b)
BLe(a, b)  == B!Cmp(a, b) <= 0
BFloorDiv(a, b) == B!FloorDiv(a, b)
BZero == B!Zero
BUnit == B!Pow(B!OfInt(10), 18)

VARIABLES l,     \* number of trace lines consumed
          seen2, \* the agreements and
          alloy2,\* the alloyed compositions seen by swaps that enter through another module's keeper (x/gamm)
          dev    \* first line (0: none) at which the recorded execution deviates:
                 \* [stc, buc, cpc : E7 a collector keeps coins of its target denomination,
                 \*  cache : S6 swaps see an agreement that is not stored, cache2 : S6 swaps entering through another
                 \*  module see other agreements than swaps entering through x/poolmanager, lost : E3 accumulators cleared without payout,
                 \*  burnt : E1/E3 a failed payout destroyed coins of the collector,
                 \*  areg : a registered alloyed pool disappeared from the store]

Ev == Log[l + 1]
IsEv(e) == l < NLines /\ Ev.e = e

Dev0 == [stc |-> 0, buc |-> 0, cpc |-> 0, cache |-> 0, cache2 |-> 0, lost |-> 0, burnt |-> 0, areg |-> 0, pend |-> FALSE, pendb |-> FALSE]
First(old, cond) == IF old = 0 /\ cond THEN l + 1 ELSE old

SetOf(s) == {s[i] : i \in 1..Len(s)}

CfOf(s) == [id |-> s.cf.id, denoms |-> SetOf(s.cf.denoms), base |-> s.cf.base, addrs |-> SetOf(s.cf.addrs),
            blocked |-> SetOf(s.cf.blocked), osmo |-> s.cf.osmo, non |-> s.cf.non, wl |-> SetOf(s.cf.wl),
            cpt |-> s.cf.cpt, smooth |-> s.cf.smooth, inter |-> s.cf.inter,
            links |-> {SetOf(s.cf.links[i]) : i \in 1..Len(s.cf.links)}]
AgrOf(xs) == [d \in {xs[i].d : i \in 1..Len(xs)} |->
                LET x == CHOOSE y \in SetOf(xs) : y.d = d IN [pct |-> x.pct, addr |-> x.addr]]
AlloyOf(xs) == [a \in {xs[i].l : i \in 1..Len(xs)} |-> (CHOOSE y \in SetOf(xs) : y.l = a).parts]
BalOf(s, c) == [a \in Fixed \cup c.addrs |-> [d \in c.denoms |-> s.bal[a][d]]]
AccrOf(xs, c) == [a \in c.denoms |-> [d \in c.denoms |->
                    IF \E i \in 1..Len(xs) : xs[i].a = a /\ xs[i].d = d
                    THEN (CHOOSE y \in SetOf(xs) : y.a = a /\ y.d = d).x ELSE BZero]]
FOf(o, c) == [d \in c.denoms |-> o[d]]
TrkOf(s, c) == [st |-> FOf(s.trk.st, c), cp |-> FOf(s.trk.cp, c), burn |-> FOf(s.trk.burn, c)]

StartFrom(s) ==
    LET c == CfOf(s) IN
    /\ cf' = c /\ agr' = AgrOf(s.agr) /\ seen' = AgrOf(s.seen) /\ alloy' = AlloyOf(s.alloy)
    /\ bal' = BalOf(s, c) /\ accr' = AccrOf(s.accr, c) /\ trk' = TrkOf(s, c)
    /\ phase' = "idle" /\ ep' = Ep0
    /\ gh' = [supply |-> FOf(s.supply, c), withheld |-> FALSE, epochs |-> 0]

TraceInit ==
    /\ HWInit
    /\ l = 1
    /\ Log[1].e = "cfg"
    /\ LET s == Log[1].st  c == CfOf(s) IN
        /\ InitWith(c, AgrOf(s.agr), AgrOf(s.seen), AlloyOf(s.alloy), BalOf(s, c), AccrOf(s.accr, c), TrkOf(s, c))
        /\ Chk("cfg: ledgers add up to the supply", gh.supply = FOf(s.supply, c))
    /\ seen2 = AgrOf(Log[1].st.seen2) /\ alloy2 = AlloyOf(Log[1].st.alloy2)
    /\ dev = Dev0

\* the other view is read from the log after every call; it is expected to be the view of x/poolmanager
View2(s) == seen2' = AgrOf(s.seen2) /\ alloy2' = AlloyOf(s.alloy2)
Note2(d) == [d EXCEPT !.cache2 = First(@, seen2' # seen' \/ alloy2' # alloy')]
NoDev == dev' = Note2(dev)

TReset == IsEv("cfg") /\ phase = "idle" /\ StartFrom(Ev.st) /\ View2(Ev.st) /\ dev' = dev

\* the projected state after the call is the state the specification reaches
LoggedMoney(s) ==
    /\ \A a \in DOMAIN bal' : \A d \in Denoms :
          Chk(<<"ledger", a, d>>, bal'[a][d] = s.bal[a][d])
    /\ \A k \in {"st", "cp", "burn"} : \A d \in Denoms : Chk(<<"tracker", k, d>>, trk'[k][d] = s.trk[k][d])
    /\ \A d \in Denoms : Chk(<<"E1 supply changed", d>>, gh'.supply[d] = s.supply[d])
LoggedAccr(s) ==
    LET x == AccrOf(s.accr, cf) IN \A a \in Denoms : \A d \in Denoms : Chk(<<"accumulator", a, d>>, accr'[a][d] = x[a][d])
LoggedRest(s) ==
    /\ Chk("stored agreements", agr' = AgrOf(s.agr))
    /\ Chk("agreements seen by swaps", seen' = AgrOf(s.seen))
    /\ Chk("alloyed compositions", alloy' = AlloyOf(s.alloy))
    /\ Chk("configuration", cf' = CfOf(s))
Logged(s) == LoggedMoney(s) /\ LoggedAccr(s) /\ LoggedRest(s)

\* the getters answer from the same state
Queries(q) ==
    /\ \A i \in 1..Len(q.accr) : LET x == q.accr[i] IN
          Chk("GetTakerFeeShareDenomsToAccruedValue", IF x.found THEN x.x = accr'[x.a][x.d] ELSE accr'[x.a][x.d] = BZero)
    /\ \A i \in 1..Len(q.trk) : LET x == q.trk[i] IN
          Chk("GetTakerFeeTrackerFor...ByDenom", x.st = trk'.st[x.d] /\ x.cp = trk'.cp[x.d] /\ x.burn = trk'.burn[x.d])
    /\ \A i \in 1..Len(q.agr) : LET x == q.agr[i] IN
          Chk("GetTakerFeeShareAgreementFromDenomNoCache", x.found = (x.d \in DOMAIN agr') /\ (x.found => x.pct = agr'[x.d].pct /\ x.addr = agr'[x.d].addr))

TSwap ==
    /\ IsEv("swap")
    /\ LET fee == FOf(Ev.fee, cf)  route == SetOf(Ev.route)
           sv == IF Ev.via = "gamm" THEN seen2 ELSE seen
           av == IF Ev.via = "gamm" THEN alloy2 ELSE alloy IN
        /\ Chk("S4: a swap whose skim percentages exceed 100% went through", Ev.ok => BLe(SumPct(ApplicableIn(sv, av, route)), BUnit))
        /\ Chk("S1: fee in a denomination that is not in the route", \A d \in Denoms : fee[d] # BZero => d \in route)
        /\ SwapVia(sv, av, route, fee, Ev.ok)
    /\ Logged(Ev.st) /\ Queries(Ev.q) /\ View2(Ev.st) /\ NoDev

\* the alloyed compositions after a recalculation: each underlying asset with an agreement (as swaps see them)
\* contributes pct * (amt / nf) / sum(amt / nf), to 10 units of the last decimal place
RECURSIVE ProdNf(_, _, _)
ProdNf(as, skip, i) == IF i > Len(as) THEN B!One
                       ELSE BMul(IF i = skip THEN B!One ELSE as[i].nf, ProdNf(as, skip, i + 1))
Norm(as, i) == BMul(as[i].amt, ProdNf(as, i, 1))            \* amt_i / nf_i times the product of all nf
TotNorm(as) == SumSeqBy(as, 1, [i \in 1..Len(as) |-> Norm(as, i)])
Tol == B!OfInt(10)
PartWithin(p, as, s) ==
    \E i \in 1..Len(as) :
        /\ as[i].d = p.a /\ p.a \in DOMAIN s /\ p.addr = s[p.a].addr
        /\ LET lhs == BMul(p.pct, TotNorm(as))
               rhs == BMul(s[p.a].pct, Norm(as, i))
               eps == BMul(Tol, TotNorm(as))
           IN  BLe(BSub(lhs, rhs), eps) /\ BLe(BSub(rhs, lhs), eps)
CompositionWithin(parts, as, s) ==
    /\ \A k \in 1..Len(parts) : PartWithin(parts[k], as, s)
    /\ \A i \in 1..Len(as) : (as[i].d \in DOMAIN s) => \E k \in 1..Len(parts) : parts[k].a = as[i].d
    /\ \A j, k \in 1..Len(parts) : j # k => parts[j].a # parts[k].a
LiqOf(a) == (CHOOSE y \in SetOf(Ev.liq) : y.l = a).assets
HasLiq(a) == \E i \in 1..Len(Ev.liq) : Ev.liq[i].l = a

TAgr ==
    /\ IsEv("agr")
    /\ View2(Ev.st)
    /\ LET done == Ev.ok /\ Ev.commit
           na == AlloyOf(Ev.st.alloy)
           s1 == AgrOf(Ev.st.seen)
       IN
       IF done
       THEN /\ Chk("agr: address is one of the skim addresses", Ev.addr \in cf.addrs)
            /\ SetAgreement(Ev.d, Ev.pct, Ev.addr, TRUE, na)
            /\ \A a \in DOMAIN alloy :
                  IF a \in SetOf(Ev.gone) THEN Chk("S3: composition of a pool that is no longer in the store changed", na[a] = alloy[a])
                  ELSE IF HasLiq(a) /\ \E i \in 1..Len(LiqOf(a)) : LiqOf(a)[i].d = Ev.d
                  THEN Chk("S3: alloyed composition after an agreement of an underlying asset changed", CompositionWithin(na[a], LiqOf(a), seen'))
                  ELSE Chk("S3: composition of an unrelated alloyed pool changed", na[a] = alloy[a])
            /\ NoDev
       ELSE \* S6: a failed transaction changes nothing - or (known deviation) swaps keep seeing the agreement
            /\ IF s1 = seen /\ na = alloy THEN Rejected
               ELSE /\ seen' = s1 /\ alloy' = na
                    /\ UNCHANGED <<cf, agr, bal, accr, trk, phase, ep, gh>>
            /\ dev' = Note2([dev EXCEPT !.cache = First(@, s1 # seen \/ na # alloy)])
    /\ Logged(Ev.st) /\ Queries(Ev.q)

\* BeginBlock: nothing changes.  (The code reloads what swaps see from the store when one of its in-memory maps is
\* empty: after one of the deviations noted above, the view of x/poolmanager falls back to what is stored.)
TBlock ==
    /\ IsEv("block")
    /\ LET s1 == AgrOf(Ev.st.seen)  na == AlloyOf(Ev.st.alloy) IN
        /\ Chk("block: what swaps see is what they saw or what is stored", s1 = seen \/ s1 = agr)
        /\ Chk("block: an alloyed denomination appeared", DOMAIN na \subseteq DOMAIN alloy)
        /\ Chk("block: what swaps see changed although it was coherent", (dev.cache = 0 /\ dev.areg = 0) => (s1 = seen /\ na = alloy))
        /\ seen' = s1 /\ alloy' = na
        /\ UNCHANGED <<cf, agr, bal, accr, trk, phase, ep, gh>>
    /\ Logged(Ev.st) /\ Queries(Ev.q) /\ View2(Ev.st) /\ NoDev

TAlloy ==
    /\ IsEv("alloy")
    /\ View2(Ev.st)
    /\ LET na == AlloyOf(Ev.st.alloy) IN
       IF ~Ev.ok THEN Rejected
       ELSE /\ SetAlloy(na)
            /\ \A a \in DOMAIN na :
                  IF HasLiq(a) /\ a \notin SetOf(Ev.gone) THEN Chk("S3: alloyed composition", CompositionWithin(na[a], LiqOf(a), seen))
                  ELSE Chk("S3: composition of a pool that was not recalculated changed", a \in DOMAIN alloy /\ na[a] = alloy[a])
            /\ Chk("S3: a registered alloyed denomination disappeared", DOMAIN alloy \subseteq DOMAIN na)
    /\ Logged(Ev.st) /\ Queries(Ev.q)
    /\ dev' = Note2([dev EXCEPT !.areg = First(@, Ev.storeLost)])

TConf == /\ IsEv("conf")
         /\ Reconfigure(CfOf(Ev.st))
         /\ Logged(Ev.st) /\ Queries(Ev.q) /\ View2(Ev.st) /\ NoDev

\* environment: coins are minted (liquidity is added to an alloyed pool)
TMint == /\ IsEv("mint")
         /\ Issue([d \in Denoms |-> BSub(Ev.st.supply[d], gh.supply[d])])
         /\ Logged(Ev.st) /\ Queries(Ev.q) /\ View2(Ev.st) /\ NoDev

TDep == /\ IsEv("dep")
        /\ Deposit(Ev.acct, FOf(Ev.f, cf))
        /\ Logged(Ev.st) /\ Queries(Ev.q) /\ View2(Ev.st) /\ NoDev

---------------------------------------------------------------------------
(* the end of an epoch: one line, nine phases                               *)

Same2 == dev' = dev /\ UNCHANGED <<seen2, alloy2>>
SwapsOf(c) == {s \in SetOf(Ev.swaps) : s.c = c}
SwOf(c) == {s.din : s \in SwapsOf(c)}
OutOf(c) == [d \in Denoms |-> IF d \in SwOf(c) THEN (CHOOSE s \in SwapsOf(c) : s.din = d).aout ELSE BZero]
SwapChecks(c, t) ==
    /\ Chk(<<"E6: two swaps of one denomination", c>>, \A x, y \in SwapsOf(c) : x.din = y.din => x = y)
    /\ \A s \in SwapsOf(c) :
          /\ Chk(<<"E6: swap into another denomination", c>>, s.dout = t /\ s.din # t)
          /\ Chk(<<"E6: swap without a route", c, s.din>>, HasRoute(s.din, t))
          /\ Chk(<<"E6: a swap takes the whole balance", c, s.din>>, s.ain = bal[c][s.din])
          /\ Chk(<<"E6: proceeds are positive", c, s.din>>, BLe(BZero, s.aout))

TEpochStart ==
    /\ IsEv("epoch") /\ phase = "idle"
    /\ Chk("E1: AfterEpochEnd failed", Ev.ok)
    /\ Chk("E6: swap by an account that is not a collector", \A s \in SetOf(Ev.swaps) : s.c \in {"nn", "cpc", "buc", "stc"})
    /\ EpochStart(Ev.ident)
    /\ Same2

TNonNative == /\ phase = "nn" /\ SwapChecks("nn", Base)
              /\ NonNative(SwOf("nn"), OutOf("nn")) /\ Same2

\* E3; known deviations: accumulators of agreements that were NOT paid are cleared (lost); a payout that the
\* collector cannot cover takes the coins it can cover out of the collector before it fails, and they are gone.
\* The recorded execution is then followed agreement by agreement in the order it visited them (Ev.order), the
\* coins of a payout in the order of cf.denoms as logged (the order of sdk.Coins).
DenSeq == Ev.st.cf.denoms
Shorts(b, a) == {i \in 1..Len(DenSeq) : NLt(b["tc"][DenSeq[i]], accr[a][DenSeq[i]])}
FirstShort(b, a) == CHOOSE i \in Shorts(b, a) : \A j \in Shorts(b, a) : i <= j
TakenBeforeFailing(b, a) ==
    [d \in Denoms |-> IF \E i \in 1..(FirstShort(b, a) - 1) : DenSeq[i] = d THEN accr[a][d] ELSE BZero]
RECURSIVE SeqSkim(_, _, _)
SeqSkim(b, ord, paid) ==
    IF ord = <<>> THEN [b |-> b, paid |-> paid]
    ELSE LET a == Head(ord) IN
         IF a \notin Denoms \/ ~Payable(a) THEN SeqSkim(b, Tail(ord), paid)
         ELSE IF Shorts(b, a) = {} THEN SeqSkim(Move(b, "tc", agr[a].addr, accr[a]), Tail(ord), paid \cup {a})
         ELSE SeqSkim(Move(b, "tc", "void", TakenBeforeFailing(b, a)), Tail(ord), paid)

TSkim ==
    /\ phase = "skim"
    /\ LET logged == AccrOf(Ev.st.accr, cf)
           DesignOK(P) == /\ PaySet(P) /\ \A a \in P : logged[a] = ZeroF
                          /\ \A a \in Denoms \ P : logged[a] = accr[a]
           design == {P \in SUBSET {a \in Denoms : HasAccr(a)} : DesignOK(P)}
           sound == design # {} /\ FOf(Ev.st.bal["void"], cf) = bal["void"]
       IN
       IF sound
       THEN \E P \in design : Skim(P) /\ Same2
       ELSE LET r == SeqSkim(bal, Ev.order, {}) IN
            /\ \A a \in r.paid : logged[a] = ZeroF
            /\ bal' = r.b /\ accr' = logged
            /\ gh' = [gh EXCEPT !.withheld = TRUE]
            /\ phase' = "osmo"
            /\ UNCHANGED <<cf, agr, seen, alloy, trk, ep, seen2, alloy2>>
            /\ dev' = [dev EXCEPT !.pend = \E a \in Denoms \ r.paid : logged[a] # accr[a],
                                  !.pendb = r.b["void"] # bal["void"]]

TBase == phase = "osmo" /\ BaseSplit /\ Same2
TOther == phase = "non" /\ OtherSplit /\ Same2

\* E7; known deviation: a collector hands over the proceeds of its swaps only
TCommunity == /\ phase = "cpc" /\ SwapChecks("cpc", cf.cpt)
              /\ \E held \in BOOLEAN : CommunityPool(SwOf("cpc"), OutOf("cpc"), held)
              /\ Same2
TBurn == /\ phase = "buc" /\ SwapChecks("buc", Base)
         /\ \E held \in BOOLEAN : Burn(SwOf("buc"), OutOf("buc"), held)
         /\ Same2
TStakers == /\ phase = "stc" /\ SwapChecks("stc", Base)
            /\ \E held \in BOOLEAN : Stakers(SwOf("stc"), OutOf("stc"), held)
            /\ Same2

\* the last phase: the state reached is the logged one; the deviations the recorded execution took are noted
TSmooth == /\ phase = "smooth"
           /\ Smooth
           /\ Logged(Ev.st) /\ Queries(Ev.q) /\ UNCHANGED <<seen2, alloy2>>
           /\ dev' = [dev EXCEPT !.stc = First(@, bal'["stc"][Base] # BZero),
                                 !.buc = First(@, bal'["buc"][Base] # BZero),
                                 !.cpc = First(@, bal'["cpc"][cf.cpt] # BZero),
                                 !.lost = First(@, dev.pend),
                                 !.burnt = First(@, dev.pendb),
                                 !.pend = FALSE, !.pendb = FALSE]

TraceNext ==
    \/ (TReset \/ TSwap \/ TAgr \/ TBlock \/ TAlloy \/ TConf \/ TDep \/ TMint) /\ l' = l + 1
    \/ (TEpochStart \/ TNonNative \/ TSkim \/ TBase \/ TOther \/ TCommunity \/ TBurn \/ TStakers) /\ l' = l
    \/ TSmooth /\ l' = l + 1

TraceSpec == TraceInit /\ [][TraceNext]_<<vars, l, seen2, alloy2, dev>>

\* the known deviations as properties of the recorded execution (strict configuration)
NoStrandedStakers == dev.stc = 0
NoStrandedBurn == dev.buc = 0
NoStrandedCommunity == dev.cpc = 0
NoLeakedAgreement == dev.cache = 0
OneView == dev.cache2 = 0
NoLostAccumulator == dev.lost = 0
NoBurntCoins == dev.burnt = 0
NoLostRegistration == dev.areg = 0

Mark == HWMark(l) /\ (l = NLines /\ phase = "idle" => PrintT(<<"DEVIATIONS", dev.stc, dev.buc, dev.cpc, dev.cache, dev.cache2, dev.lost, dev.burnt, dev.areg>>))
Accepted == HWAccepted
=============================================================================
