SPECIFICATION TraceSpec
CONSTANTS
  StartClip = FALSE
CONSTRAINT Mark
POSTCONDITION Accepted
CHECK_DEADLOCK FALSE
