SPECIFICATION TraceSpec
CONSTANTS
  ConfirmAfterFailedExec = FALSE
CONSTRAINT Mark
POSTCONDITION Accepted
INVARIANTS IdsUnique RegWellFormed AuthenticatePure StoresConsistent NoCallsWhileInactive ConfirmOnlyAfterExecution TrackOnlyAfterAuth TxIdsFresh
PROPERTIES OwnerOnly IdsIncrease IdsKept FrozenWhileInactive NeverTakenBack FailedTxKeepsNothing
CHECK_DEADLOCK FALSE
