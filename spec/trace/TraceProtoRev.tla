--------------------------- MODULE TraceProtoRev ---------------------------
(* Trace validation for X08: every line of a recorded execution of the real  *)
(* x/protorev (full app; real signed transactions through baseapp.runTx with *)
(* the real ante / message / post handler chains; real pools) must be a step *)
(* of ProtoRev.tla, and every property of ProtoRev.tla is evaluated in every *)
(* recorded state.                                                           *)
(* Lines: cfg (a history starts), tx + post (one transaction: its messages   *)
(* with what they do alone, then the result of the delivery, the back-runs   *)
(* read off the events and the state), block, epoch, enable, setadmin, pool  *)
(* (a pool was created), lp (liquidity moved).  `st` is the projected state  *)
(* after the call, `q` what the gRPC queries answer in that state.           *)
(*                                                                           *)
(* Where the current tree is known to deviate from a stated property the     *)
(* deviation is followed and reported (<<"DEV", tag, line>>); the check maps *)
(* each report to a finding signature, so anything else stays a violation.   *)
EXTENDS ProtoRev, TraceLib

VARIABLES l,      \* number of trace lines consumed
          lft     \* ghost: swaps of earlier transactions of this block the tree still keeps noted

TDenoms == Range(Log[1].denoms)

Ev == Log[l + 1]
IsEv(e) == l < NLines /\ Ev.e = e

Stats(s) == [n |-> s.n, byDenom |-> s.byDenom, routes |-> Range(s.routes)]
IdxL(s) == Range(s)

Load(st) ==
    /\ pools = st.pools /\ cfg = st.cfg /\ idx = IdxL(st.idx) /\ blk = st.blk
    /\ stats = Stats(st.stats) /\ bank = st.bank

TraceInit ==
    /\ HWInit
    /\ l = 1
    /\ Log[1].e = "cfg"
    /\ Load(Log[1].st)
    /\ funded = Zero /\ tx = NoTx /\ last = [a |-> "init"] /\ lft = <<>>

TReset ==
    /\ IsEv("cfg")
    /\ ~tx.on
    /\ pools' = Ev.st.pools /\ cfg' = Ev.st.cfg /\ idx' = IdxL(Ev.st.idx) /\ blk' = Ev.st.blk
    /\ stats' = Stats(Ev.st.stats) /\ bank' = Ev.st.bank
    /\ funded' = Zero /\ tx' = NoTx /\ last' = [a |-> "init"] /\ lft' = <<>>

SamePools(np) == /\ Len(np) = Len(pools)
                 /\ \A i \in DOMAIN pools : np[i].kind = pools[i].kind /\ np[i].a = pools[i].a /\ np[i].b = pools[i].b

\* the state the specification arrives at is the state the code is in
Matches(st) ==
    /\ Chk("state: configuration (P8)", cfg' = st.cfg)
    /\ Chk("state: index (P9)", idx' = IdxL(st.idx))
    /\ Chk("state: points used in this block (P3)", blk'.used = st.blk.used)
    /\ Chk("state: block height", blk'.h = st.blk.h)
    /\ Chk("state: statistics (P6)", stats' = Stats(st.stats))
    /\ Chk("state: module account (P5, P7)", bank'.mod = st.bank.mod)
    /\ Chk("state: developer accounts (P7)", bank'.dev = st.bank.dev)
    /\ Chk("state: burn address (P7)", bank'.null = st.bank.null)
    /\ Chk("state: community pool (P7)", bank'.cp = st.bank.cp)
    /\ Chk("state: users (P1)", bank'.usr = st.bank.usr)
    /\ Chk("state: supply (P5)", bank'.sup = st.bank.sup)

\* P6: the queries answer the counters and the configuration
Answers(st, q) ==
    LET s == Stats(st.stats) IN
    /\ Chk("query: number of trades (P6)", q.n = s.n \/ (s.n = 0 /\ q.n = -1))
    /\ Chk("query: profits by denom (P6)", \A d \in TDenoms : q.byDenom[d] = s.byDenom[d] \/ (s.byDenom[d] = 0 /\ q.byDenom[d] = -1))
    /\ Chk("query: all profits (P6)", \A d \in TDenoms : q.all[d] = s.byDenom[d])
    /\ Chk("query: all route statistics list every route once (P6)",
           Len(q.routes) = Cardinality(s.routes) /\ {q.routes[i].route : i \in DOMAIN q.routes} = {x.route : x \in s.routes})
    /\ Chk("query: max points per tx (P8)", q.maxTx = st.cfg.maxTx)
    /\ Chk("query: max points per block (P8)", q.maxBlock = st.cfg.maxBlock)
    /\ Chk("query: base denoms (P8)", q.bases = st.cfg.bases)
    /\ Chk("query: enabled", q.enabled = st.cfg.enabled)
    /\ Chk("query: developer account (P8)", q.dev = st.cfg.dev)
    /\ Chk("query: admin account (P8)", q.admin = st.cfg.admin)
    /\ Chk("query: hot routes (P8)", Range(q.hot) = Range(st.cfg.hot))
    /\ Chk("query: info by pool type (P8)", q.w = st.cfg.w /\ q.ticks = st.cfg.ticks)
    /\ Chk("query: pool of a denom pair (P9)", Range(q.pool) = IdxL(st.idx))

\* P6, one route at a time (the answers of StatisticsByRoute and the entries of AllRouteStatistics).  Known deviation:
\* the profits of every OTHER route whose store key continues this route's key are added to the answer (the profits
\* are collected by a store prefix that ends with the route, without a separator: "2|3|1" also matches "2|3|11...")
DecPrefix(x, y) == \E k \in 0..6 : y \div (10 ^ k) = x
KeyPrefix(r, y) == /\ Len(r) <= Len(y) /\ r # y
                   /\ \A i \in 1..(Len(r) - 1) : r[i] = y[i]
                   /\ IF Len(r) = Len(y) THEN DecPrefix(r[Len(r)], y[Len(r)]) ELSE (r[Len(r)] = y[Len(r)] \/ DecPrefix(r[Len(r)], y[Len(r)]))
RouteAnswers(st, answers) ==
    LET s == Stats(st.stats) IN
    \A i \in DOMAIN answers :
        LET a == answers[i]
            mine == {x \in s.routes : x.route = a.route}
            more == {x \in s.routes : KeyPrefix(a.route, x.route)}
        IN IF mine # {} /\ a = (CHOOSE x \in mine : TRUE) THEN TRUE
           ELSE IF mine # {} /\ more # {} /\ a.n = (CHOOSE x \in mine : TRUE).n /\ \A d \in TDenoms : a.p[d] = SumP(mine \cup more, d)
                THEN PrintT(<<"DEV", "routeprefix", l + 1>>)
                ELSE Chk("query: statistics by route (P6)", FALSE)

TTx ==
    /\ IsEv("tx")
    /\ Deliver(Ev.msgs, Ev.ud)
    /\ pools' = pools
    /\ lft' = lft

PostOutcome == [trades |-> Ev.trades, delta |-> IF tx.ok THEN Ev.st.blk.used - blk.used ELSE 0]
Runs == cfg.enabled /\ blk.used < cfg.maxBlock

NamedPostOK(sws, o) ==
    /\ Chk("P2 back-run outside the scope (disabled / no swap / not a swap of this tx)", PostScope(cfg, sws, o))
    /\ Chk("P4 route is not a cyclic candidate route against the user's swap", PostRoutes(cfg, idx, o))
    /\ Chk("P5 trade not profitable or profit # out - in", PostAmounts(o))
    /\ Chk("P3 points consumed exceed the budget", PostBudget(cfg, blk, o))
    /\ Chk("P3 points consumed are not the cost of candidate routes", PostPoints(cfg, idx, sws, o))

TPost ==
    /\ IsEv("post")
    /\ tx.on
    /\ Chk("P1 the delivery answers what the messages alone answer", Ev.ok = tx.ok /\ Ev.solo = tx.ok)
    /\ LET o == PostOutcome IN
         IF ~tx.ok THEN PostHandle(o)
         ELSE IF PostOK(cfg, idx, blk, tx.swaps, o) THEN PostHandle(o)
         ELSE IF lft # <<>> /\ PostOK(cfg, idx, blk, lft \o tx.swaps, o)
              THEN PrintT(<<"DEV", "leftover", l + 1>>) /\ PostHandleWith(lft \o tx.swaps, o)
              ELSE NamedPostOK(tx.swaps, o) /\ FALSE
    /\ pools' = Ev.st.pools /\ SamePools(Ev.st.pools)
    /\ lft' = IF ~tx.ok THEN lft ELSE IF Runs THEN <<>> ELSE lft \o tx.swaps
    /\ Matches(Ev.st)
    /\ Answers(Ev.st, Ev.q)
    /\ RouteAnswers(Ev.st, Ev.q.one) /\ RouteAnswers(Ev.st, Ev.q.routes)

TBlock ==
    /\ IsEv("block")
    /\ NextBlock
    /\ pools' = Ev.st.pools /\ SamePools(Ev.st.pools)
    /\ lft' = <<>>
    /\ Matches(Ev.st)

\* P7 / P9.  Known deviations: the hook fails as a whole (nothing paid, day not counted, index not refreshed) when no
\* developer account is named, or when the developer's share of some base denomination rounds down to zero
ZeroShare == \E d \in BaseDenoms(cfg) : bank.mod[d] > 0 /\ DevShare(bank.mod[d], cfg.days) = 0
TEpoch ==
    /\ IsEv("epoch")
    /\ IF Ev.ok
       THEN EpochEnd(Ev.ident)
       ELSE /\ cfg.enabled /\ Ev.ident = "day"
            /\ IF cfg.dev \notin DevNames THEN PrintT(<<"DEV", "nodev", l + 1>>)
               ELSE IF ZeroShare THEN PrintT(<<"DEV", "zeroshare", l + 1>>)
               ELSE Chk("P7 the day-epoch hook failed", FALSE)
            /\ last' = [a |-> "epoch", ident |-> "failed"]
            /\ UNCHANGED <<cfg, idx, bank, blk, stats, funded, tx>>
    /\ pools' = Ev.st.pools /\ SamePools(Ev.st.pools)
    /\ lft' = lft
    /\ Matches(Ev.st)
    /\ Answers(Ev.st, Ev.q)
    /\ RouteAnswers(Ev.st, Ev.q.one) /\ RouteAnswers(Ev.st, Ev.q.routes)

TEnable ==
    /\ IsEv("enable")
    /\ SetEnabled(Ev.on)
    /\ pools' = pools /\ lft' = lft
    /\ Matches(Ev.st)

TSetAdmin ==
    /\ IsEv("setadmin")
    /\ SetAdmin(Ev.who)
    /\ pools' = pools /\ lft' = lft
    /\ Matches(Ev.st)

TPool ==
    /\ IsEv("pool")
    /\ CreatePool(Ev.st.pools)
    /\ lft' = lft
    /\ Matches(Ev.st)

TLp ==
    /\ IsEv("lp")
    /\ Liquidity(Ev.st.pools)
    /\ lft' = lft
    /\ Matches(Ev.st)

TraceNext == /\ (TReset \/ TTx \/ TPost \/ TBlock \/ TEpoch \/ TEnable \/ TSetAdmin \/ TPool \/ TLp)
             /\ l' = l + 1

TraceSpec == TraceInit /\ [][TraceNext]_<<vars, l, lft>>

Mark == HWMark(l)
Accepted == HWAccepted
=============================================================================
