SPECIFICATION TraceSpec
CONSTANTS
  Dust = 2
CONSTRAINT Mark
POSTCONDITION Accepted
CHECK_DEADLOCK FALSE
