---------------------------- MODULE TraceCLSwap ----------------------------
(* Trace validation for C03: every swap of a recorded history of a real       *)
(* concentrated pool is compared with the exact curve (CLSwapIdeal) walked    *)
(* from the previously logged state.                                          *)
(*   exact-in  : paid out <= Ideal(charged).out                                *)
(*               paid out >= floor(Ideal(charged - k).out) - k                 *)
(*   exact-out : charged  >= Ideal(delivered).in                               *)
(*               charged  <= ceil(Ideal(delivered + k).in) + k                 *)
(* with k = Dust * (buckets touched + 1) base units: the code rounds each      *)
(* bucket's amount in up and amount out down to the unit, so the realised      *)
(* swap is the ideal swap of an input perturbed by a bounded number of units   *)
(* per bucket.  Also: executed result = estimate on the same state, estimates  *)
(* leave the state untouched, failed swaps leave the state untouched, there    *)
(* and straight back returns no more than was put in.                          *)
EXTENDS CLSwapIdeal, TraceLib

CONSTANT Dust

VARIABLES l, prev, conf

Ev == Log[l + 1]

IdxOf(seq, P(_)) == CHOOSE k \in 1..Len(seq) : P(seq[k])

CurveOf(st) ==
    LET tks == {st.ticks[k].t : k \in 1..Len(st.ticks)}
        T(t) == st.ticks[IdxOf(st.ticks, LAMBDA x : x.t = t)]
    IN  [sqrt |-> RScaled(st.sqrt, 36), liq |-> RScaled(st.liq, 18), tick |-> st.tick,
         ticks |-> [t \in tks |-> [net |-> RScaled(T(t).net, 18), sqrt |-> RScaled(T(t).sqrt, 36)]],
         f |-> RScaled(conf.f, 18), lo |-> RScaled(conf.minSqrt, 36), hi |-> RScaled(conf.maxSqrt, 36)]

\* what the trader was actually charged / paid, from the bank balances
InIdx(zfo)  == IF zfo THEN 1 ELSE 2
OutIdx(zfo) == IF zfo THEN 2 ELSE 1
Charged(st, who, zfo) == B!Sub(prev.userBal[who][InIdx(zfo)], st.userBal[who][InIdx(zfo)])
Paid(st, who, zfo)    == B!Sub(st.userBal[who][OutIdx(zfo)], prev.userBal[who][OutIdx(zfo)])

\* Dust units per bucket touched, plus 2e-18 of the amount charged: the code multiplies the net input by the
\* fee ratio f/(1-f) held as an 18-decimal Dec rounded up, so on the "bounded rounding" side (never on the
\* "never exceeds the curve" side) it may be off by that relative amount (1.6e15 units on a 1.8e33-unit swap
\* in the first thorough run with the widened recorder)
\* One unit of rounding in the amount that reaches the curve costs 1/(1-f) units of charge (the spread reward on
\* it is f/(1-f) of it): the per-bucket dust is counted in units of 1 + floor(f/(1-f)) - one for every spread
\* factor below one half, 20 for 0.95.
FeeMult == B!Add(B!One, B!FloorDiv(conf.f, B!Sub(B!Pow(B!OfInt(10), 18), conf.f)))
Slack2(nb, amt) == B!Add(B!Mul(B!OfInt(Dust * (nb + 1)), FeeMult), B!Add(B!FloorDiv(B!Mul(amt, B!OfInt(2)), B!Pow(B!OfInt(10), 18)), B!One))

ExactInOK(C, zfo, ain, aout, amt) ==
    LET W  == IdealIn(C, zfo, RInt(ain))
        k  == Slack2(W.nb, ain)
        a2 == B!Sub(ain, k)
    IN  /\ Chk("exact-in: charges at most the offered amount, positive amounts", B!Le(ain, amt) /\ ain.s > 0 /\ aout.s > 0)
        \* the ideal places the whole charged amount, except for at most k units of per-bucket round-up
        \* that find no liquidity any more (the swap consumed the last bucket exactly)
        /\ Chk("exact-in: the curve can absorb the amount charged", W.ok \/ RLe(W.left, RInt(k)))
        /\ Chk("exact-in: never pays more than the curve", RLe(RInt(aout), W.out))
        /\ Chk("exact-in: bounded rounding of the payout",
               \/ a2.s <= 0
               \/ LET W2 == IdealIn(C, zfo, RInt(a2))
                  IN  B!Ge(aout, B!Sub(RFloor(W2.out), k)))

ExactOutOK(C, zfo, ain, aout, amt) ==
    LET V  == IdealOut(C, zfo, RInt(aout))
        k  == Slack2(V.nb, ain)
        V2 == IdealOut(C, zfo, RInt(B!Add(aout, k)))
    IN  /\ Chk("exact-out: delivers at most the requested amount, positive amounts", B!Le(aout, amt) /\ ain.s > 0 /\ aout.s > 0)
        /\ Chk("exact-out: the curve can deliver the amount paid", V.ok \/ RLe(V.left, RInt(k)))
        /\ Chk("exact-out: never charges less than the curve", RLe(V.in, RInt(ain)))
        /\ Chk("exact-out: bounded rounding of the charge",
               \/ ~V2.ok \/ RPos(V2.left)                            \* perturbed output not deliverable: no bound
               \/ B!Le(ain, B!Add(RCeil(V2.in), k)))

\* By price: the pool moved from the logged pre-swap price to the logged post-swap price; for that move the
\* curve prescribes an input (fee included) and an output: never charged less, never paid more (no dust on
\* this side: every rounding of the code is in the pool's favour).
ByPriceOK(C, zfo, ain, aout, endSqrt) ==
    LET moved == IF zfo THEN RLe(endSqrt, C.sqrt) ELSE RLe(C.sqrt, endSqrt)
        T == IdealTo(C, zfo, endSqrt)
    IN  /\ Chk("price moves in the swap direction", moved)
        /\ Chk("post-swap price reachable through the initialised ticks", T.ok)
        /\ Chk("charged at least what the curve prescribes for the price move", RLe(T.in, RInt(ain)))
        /\ Chk("paid at most what the curve prescribes for the price move", RLe(RInt(aout), T.out))

SwapOK(ev) ==
    LET C    == CurveOf(prev)
        zfo  == ev.args.zfo
        ain  == Charged(ev.st, ev.who, zfo)
        aout == Paid(ev.st, ev.who, zfo)
    IN  /\ IF ev.args.exactIn THEN ExactInOK(C, zfo, ain, aout, ev.args.amt)
                              ELSE ExactOutOK(C, zfo, ain, aout, ev.args.amt)
        /\ ByPriceOK(C, zfo, ain, aout, RScaled(ev.st.sqrt, 36))
        \* the executed result equals the estimate taken on the same state
        /\ ev.args.estOk
        /\ ev.args.est = ev.res.got
        /\ ev.res.got = (IF ev.args.exactIn THEN aout ELSE ain)
        \* swapping there and straight back never returns more than was put in
        /\ ev.res.backOk => B!Le(ev.res.back, ain)

TraceInit ==
    /\ HWInit
    /\ l = 1
    /\ Log[1].e = "cfg"
    /\ conf = Log[1]
    /\ prev = Log[1].st

TReset == /\ l < NLines /\ Ev.e = "cfg"
          /\ conf' = Ev /\ prev' = Ev.st

TSwap == /\ l < NLines /\ Ev.e = "op" /\ Ev.op = "swap"
         /\ Ev.args.estDg = Ev.args.preDg                 \* estimates leave state untouched
         /\ IF Ev.ok THEN SwapOK(Ev) ELSE Ev.st.dg = prev.dg   \* a failed (or panicked) swap changes nothing
         /\ prev' = Ev.st /\ UNCHANGED conf

TOther == /\ l < NLines /\ Ev.e = "op" /\ Ev.op # "swap"
          /\ prev' = Ev.st /\ UNCHANGED conf

TraceNext == (TReset \/ TSwap \/ TOther) /\ l' = l + 1
TraceSpec == TraceInit /\ [][TraceNext]_<<l, prev, conf>>

Mark == HWMark(l)
Accepted == HWAccepted
=============================================================================
