-------------------------- MODULE TraceCLSolvency --------------------------
(* Trace validation for C01 on recorded histories of a real concentrated     *)
(* pool.  After every operation the harness (a) reads the three pool         *)
(* accounts, every user's balances, every position's claimable spread        *)
(* rewards / incentives and the incentive records, and (b) on discarded      *)
(* branches lets EVERYBODY collect and fully withdraw in three different     *)
(* orders, logging who failed and what is left.  Checked in every state:     *)
(*   Exit      every open position can collect and fully withdraw, in every  *)
(*             order tried, and claimable queries answer for every position  *)
(*   Cover     spread-reward account >= sum of claimable spread rewards;     *)
(*             incentive account >= claimable incentives + undistributed     *)
(*             remainder of the incentive records                            *)
(*   Dust      what is left in the pool account after everybody left is      *)
(*             non-negative and bounded rounding dust                        *)
(*   Conserve  users + the three pool accounts hold a constant total         *)
EXTENDS Integers, Sequences, FiniteSets, TraceLib

CONSTANT DustPerOp      \* allowed residual base units per operation executed so far (pool tokens)

B == INSTANCE BigNum

VARIABLES l, prev, nops, total

Ev == Log[l + 1]
NDen == 4

SumSeq(s) == B!Sum(s)
Col(rows, d) == [k \in 1..Len(rows) |-> rows[k][d]]

TotalOf(st) == [d \in 1..NDen |->
    B!Add(B!Add(st.poolBal[d], st.feeBal[d]), B!Add(st.incBal[d], SumSeq(Col(st.userBal, d))))]

FeeCover(st) == \A d \in 1..2 :
    B!Le(SumSeq([k \in 1..Len(st.pos) |-> st.pos[k].fee[d]]), st.feeBal[d])

\* floor of the records' undistributed remainder in denom d, with accrual brought up to now
\* (claimable amounts are computed up to now as well)
RemOf(st, d) == B!FloorDiv(st.remNow[d], B!Pow(B!OfInt(10), 18))

IncCover(st) == \A d \in 1..NDen :
    B!Le(B!Add(SumSeq([k \in 1..Len(st.pos) |-> st.pos[k].inc[d]]), RemOf(st, d)), st.incBal[d])

QueriesAnswer(st) == \A k \in 1..Len(st.pos) : st.pos[k].qerr = ""

LockedIds(st) == {st.pos[k].id : k \in {k \in 1..Len(st.pos) : st.pos[k].lock = 1}}

DrainOK(ev) == \A k \in 1..Len(ev.drain) :
    LET dr == ev.drain[k] IN
    \* everybody not bound by an unexpired lock could collect and leave; a lock-bound position may only
    \* fail to WITHDRAW (its rewards remain collectable)
    /\ dr.failC = <<>>
    /\ \A j \in 1..Len(dr.fail) : dr.fail[j] \in LockedIds(ev.st)
    /\ (dr.fail = <<>> => \A d \in 1..2 : B!Le(dr.poolBal[d], B!OfInt(DustPerOp * (nops + 2))))   \* only dust is left
    /\ \A d \in 1..NDen : B!Le(dr.recRem[d], B!Add(dr.incBal[d], B!One)) \* undistributed incentives still there

StateOK(ev) ==
    /\ QueriesAnswer(ev.st)
    /\ FeeCover(ev.st)
    /\ IncCover(ev.st)
    /\ DrainOK(ev)
    /\ TotalOf(ev.st) = total

TraceInit == /\ HWInit /\ l = 1 /\ Log[1].e = "cfg"
             /\ prev = Log[1].st /\ nops = 0 /\ total = TotalOf(Log[1].st)

TReset == /\ l < NLines /\ Ev.e = "cfg"
          /\ prev' = Ev.st /\ nops' = 0 /\ total' = TotalOf(Ev.st)

TOp == /\ l < NLines /\ Ev.e = "op"
       /\ StateOK(Ev)
       /\ (~Ev.ok => Ev.st.dg = prev.dg)          \* failed operations change nothing
       /\ prev' = Ev.st /\ nops' = nops + 1 /\ UNCHANGED total

TraceNext == (TReset \/ TOp) /\ l' = l + 1
TraceSpec == TraceInit /\ [][TraceNext]_<<l, prev, nops, total>>
Mark == HWMark(l)
Accepted == HWAccepted
=============================================================================
