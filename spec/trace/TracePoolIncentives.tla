------------------------ MODULE TracePoolIncentives ------------------------
(* Trace validation for X03: every line of a recorded execution of the real   *)
(* x/pool-incentives keeper (governance handler, gamm / concentrated-liquidity *)
(* pool creation hooks, AllocateAsset bare and inside the real mint epoch hook)*)
(* on a full app must be a step of PoolIncentives.tla; weights and amounts are *)
(* BigNum; every property of PoolIncentives.tla is evaluated in every recorded *)
(* state and the logged query answers are compared with what the specification *)
(* derives from its links.                                                     *)
(* Lines: cfg (a new history: lockable durations, epoch duration, projected    *)
(* state), pool, ext, replace, update, fund, alloc, mint (args, outcome, ids   *)
(* allocated by the code, projected state after, query answers after).         *)
EXTENDS PoolIncentives, TraceLib

B == INSTANCE BigNum

BAdd(a, b) == B!Add(a, b)
BSub(a, b) == B!Sub(a, b)
BMul(a, b) == B!Mul(a, b)
BLe(a, b)  == B!Cmp(a, b) <= 0
BZero  == B!Zero
BOne   == B!OfInt(1)
BPrec2 == B!Mul(B!OfInt(2), B!Pow(B!OfInt(10), 18))

VARIABLES l,     \* number of trace lines consumed
          dev    \* first line (0: none) at which the recorded execution deviates from A7 / Q1:
                 \* [a7 : an allocation failed, inc : IncentivizedPools failed, gid : GaugeIds failed,
                 \*  pct : GaugeIds reported a percentage that is not the gauge's own 100*w/T]

Ev == Log[l + 1]
IsEv(e) == l < NLines /\ Ev.e = e

Dev0 == [a7 |-> 0, inc |-> 0, gid |-> 0, pct |-> 0]
First(old, cond) == IF old = 0 /\ cond THEN l + 1 ELSE old

ConfOf(ev) == [id |-> ev.id, durs |-> ev.durs, epoch |-> ev.epoch]
SetOf(s) == {s[i] : i \in 1..Len(s)}
LedOf(s) == [mod |-> s.led.mod, modo |-> s.led.modo, comm |-> s.led.comm, inc |-> s.led.inc]
Empty == [x \in {} |-> 0]

\* a history starts on a chain without pools and gauges
StartFrom(ev) ==
    /\ Chk("history starts without pools and gauges", Len(ev.st.pools) = 0 /\ Len(ev.st.gauges) = 0)
    /\ conf' = ConfOf(ev) /\ pools' = Empty /\ gauges' = Empty
    /\ p2g' = SetOf(ev.st.p2g) /\ g2p' = SetOf(ev.st.g2p) /\ nolock' = SetOf(ev.st.nolock)
    /\ recs' = ev.st.recs /\ tw' = ev.st.tw /\ led' = LedOf(ev.st) /\ gh' = Gh0(ev.st.led.mod)
    /\ dev' = dev

TraceInit ==
    /\ HWInit
    /\ l = 1
    /\ Log[1].e = "cfg"
    /\ Len(Log[1].st.pools) = 0 /\ Len(Log[1].st.gauges) = 0
    /\ InitWith(ConfOf(Log[1]), Empty, Empty, SetOf(Log[1].st.p2g), SetOf(Log[1].st.g2p), SetOf(Log[1].st.nolock),
                Log[1].st.recs, Log[1].st.tw, LedOf(Log[1].st))
    /\ dev = Dev0

TReset == IsEv("cfg") /\ StartFrom(Ev)

\* the projected state after the call is the state the specification reaches
Logged(s) ==
    /\ Chk("pools", /\ {s.pools[i].id : i \in 1..Len(s.pools)} = DOMAIN pools'
                    /\ \A i \in 1..Len(s.pools) : pools'[s.pools[i].id] = s.pools[i].kind)
    /\ Chk("gauge ids", {s.gauges[i].id : i \in 1..Len(s.gauges)} = DOMAIN gauges')
    /\ \A i \in 1..Len(s.gauges) : LET x == s.gauges[i]  g == gauges'[x.id] IN
          /\ Chk("gauge kind / perpetual / target", g.perp = x.perp /\ g.kind = x.kind /\ g.pool = x.pool /\ g.dur = x.d)
          /\ Chk("gauge coins of the minted denomination", g.c = x.c)
          /\ Chk("gauge coins of other denominations", g.o = x.o)
    /\ Chk("pool -> gauge links", p2g' = SetOf(s.p2g))
    /\ Chk("gauge -> pool links", g2p' = SetOf(s.g2p))
    /\ Chk("no-lock links", nolock' = SetOf(s.nolock))
    /\ Chk("registry records", recs' = s.recs)
    /\ Chk("total weight", tw' = s.tw)
    /\ Chk("module account", led'.mod = s.led.mod)
    /\ Chk("module account, other coins", led'.modo = s.led.modo)
    /\ Chk("community pool", led'.comm = s.led.comm)
    /\ Chk("incentives module account", led'.inc = s.led.inc)

\* the incentive percentage GaugeIds reports for gauge g: 100 * w / T of g's own record (0 without one),
\* as a decimal scaled by 10^18, within 100 units of the last place
PctRight(pct, g) ==
    LET w == WeightOf(recs', g)
        lhs == BMul(BMul(B!OfInt(2), pct), tw')
        rhs == BMul(BMul(B!OfInt(100), BPrec2), w)
        tol == BMul(B!OfInt(200), tw')
    IN  BLe(BSub(lhs, rhs), tol) /\ BLe(BSub(rhs, lhs), tol)

\* the query answers logged after the call are the ones the links and the registry determine
Queries(q, failedAlloc) ==
    /\ Chk("LockableDurations", q.lockable = conf.durs)
    /\ \A i \in 1..Len(q.gaugeIds) : LET a == q.gaugeIds[i] IN
          Chk("GaugeIds", a.pool \in DOMAIN pools' /\ (a.ok => a.ids = QGaugeIdsOf(pools', p2g', a.pool)))
    /\ \A i \in 1..Len(q.internal) : LET a == q.internal[i] IN
          Chk("GetInternalGaugeIDForPool",
              a.g = LookupG(p2g', a.pool, IF pools'[a.pool] = "cl" THEN conf.epoch ELSE q.longest))
    /\ \A i \in 1..Len(q.nolock) : LET a == q.nolock[i] IN
          Chk("GetNoLockGaugeIdsFromPool", SetOf(a.gs) = {n.g : n \in {x \in nolock' : x.p = a.pool}})
    /\ \A i \in 1..Len(q.getg) : LET a == q.getg[i] IN
          Chk("GetPoolGaugeId", a.g = LookupG(p2g', a.p, a.d))
    /\ \A i \in 1..Len(q.getp) : LET a == q.getp[i] IN
          Chk("GetPoolIdFromGaugeId", a.p = LookupP(g2p', a.g, a.d))
    /\ q.inc.ok => Chk("IncentivizedPools", q.inc.list = QIncentivizedPoolsOf(gauges', recs'))
    /\ dev' = [a7  |-> First(dev.a7, failedAlloc),
               inc |-> First(dev.inc, ~q.inc.ok),
               gid |-> First(dev.gid, \E i \in 1..Len(q.gaugeIds) : ~q.gaugeIds[i].ok),
               pct |-> First(dev.pct, \E i \in 1..Len(q.gaugeIds) : LET a == q.gaugeIds[i] IN
                                         a.ok /\ \E k \in 1..Len(a.ids) : ~PctRight(a.pcts[k], a.ids[k].g))]

Same == UNCHANGED vars

Done == /\ Logged(Ev.st) /\ Queries(Ev.q, Ev.e \in {"alloc", "mint"} /\ ~Ev.ok)

Diff(a, b) == BSub(a, b)

TPool ==
    /\ IsEv("pool")
    /\ IF ~Ev.ok THEN Same
       ELSE LET fee == Diff(Ev.st.led.comm, led.comm) IN
            IF Ev.kind = "cfmm" THEN CreateClassicPool(Ev.pool, Ev.gs, fee)
            ELSE /\ Chk("a concentrated pool gets exactly one gauge", Len(Ev.gs) = 1)
                 /\ CreateConcentratedPool(Ev.pool, Ev.gs[1], fee)
    /\ Done

TExt ==
    /\ IsEv("ext")
    /\ IF ~Ev.ok THEN Same
       ELSE ExternalGauge(Ev.g, Ev.perp, Ev.kind, Ev.pool, Ev.d, Ev.c, Ev.o)
    /\ Done

TReplace == /\ IsEv("replace")
            /\ Chk("replace: accepted iff well formed", Ev.ok <=> WellFormed(Ev.recs))
            /\ Replace(Ev.recs, Ev.ok)
            /\ Done

TUpdate == /\ IsEv("update")
           /\ Chk("update: accepted iff well formed", Ev.ok <=> WellFormed(Ev.recs))
           /\ Chk("update: exactly the mentioned gauges change", Ev.ok => IsUpdateOf(Ev.st.recs, recs, Ev.recs))
           /\ Update(Ev.recs, Ev.ok, Ev.st.recs)
           /\ Done

TFund == /\ IsEv("fund")
         /\ Fund(Ev.x, Ev.y)
         /\ Done

\* what each record received, read off the projected state after the call
GaugeCoins(s, g) == IF \E i \in 1..Len(s.gauges) : s.gauges[i].id = g
                    THEN (CHOOSE x \in SetOf(s.gauges) : x.id = g).c ELSE BZero
PayFrom(s, A) ==
    [i \in 1..Len(recs) |->
        IF A = BZero \/ tw = BZero THEN BZero
        ELSE IF recs[i].g = 0 THEN Diff(s.led.comm, led.comm)
        ELSE IF recs[i].g \in GaugeIds THEN Diff(GaugeCoins(s, recs[i].g), gauges[recs[i].g].c)
        ELSE BZero]

AllocChecks(x, pay) ==
    LET A == BAdd(led.mod, x) IN
    (A # BZero /\ tw # BZero) =>
        /\ \A i \in 1..Len(pay) :
              Chk("A3: a record is not paid its pro-rata share",
                  BLe(BZero, pay[i]) /\ Within(pay[i], A, recs[i].w, tw))
        /\ Chk("A4: the sum paid exceeds the balance held",
               BLe(SumSeq(pay, 1), A))

TAlloc ==
    /\ IsEv("alloc")
    /\ IF Ev.ok
       THEN LET pay == PayFrom(Ev.st, led.mod) IN AllocChecks(BZero, pay) /\ Allocate(BZero, TRUE, pay)
       ELSE Allocate(BZero, FALSE, <<>>)
    /\ Done

\* the real mint epoch hook: x newly minted coins reach the module account and the hook allocates;
\* when the hook fails the whole epoch is reverted
TMint ==
    /\ IsEv("mint")
    /\ IF Ev.ok
       THEN LET pay == PayFrom(Ev.st, BAdd(led.mod, Ev.x)) IN AllocChecks(Ev.x, pay) /\ Allocate(Ev.x, TRUE, pay)
       ELSE Allocate(BZero, FALSE, <<>>)
    /\ Done

TraceNext ==
    \/ TReset /\ l' = l + 1
    \/ (TPool \/ TExt \/ TReplace \/ TUpdate \/ TFund \/ TAlloc \/ TMint) /\ l' = l + 1

TraceSpec == TraceInit /\ [][TraceNext]_<<vars, l, dev>>

\* A7 is NeverFails of PoolIncentives.  Q1: the queries answer for every registry governance can install
IncentivizedPoolsAnswers == dev.inc = 0
GaugeIdsAnswers == dev.gid = 0
PercentagesRight == dev.pct = 0

\* the monitor configuration does not stop at these four; it reports where each one first fails
Mark == HWMark(l) /\ (l = NLines => PrintT(<<"DEVIATIONS", dev.a7, dev.inc, dev.gid, dev.pct>>))
Accepted == HWAccepted
=============================================================================
