SPECIFICATION TraceSpec
CONSTANTS
  NAdd <- BAdd
  NSub <- BSub
  NMul <- BMul
  NLe <- BLe
  NZero <- BZero
  NOne <- BOne
  NPrec2 <- BPrec2
CONSTRAINT Mark
POSTCONDITION Accepted
INVARIANTS RegistryWellFormed TotalIsSum LinksConsistent InternalGaugesPerpetual Conservation NeverFails IncentivizedPoolsAnswers GaugeIdsAnswers PercentagesRight
PROPERTIES LinksImmutable RemainderSmall OnlyRegisteredReceive RegistryStable
CHECK_DEADLOCK FALSE
