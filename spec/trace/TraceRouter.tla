---------------------------- MODULE TraceRouter ----------------------------
(* Trace validation for C05.  Every recorded routed message of the real       *)
(* poolmanager (MsgSwapExactAmountIn/Out, MsgSplitRouteSwapExactAmountIn/Out)  *)
(* is compared with Router.tla, whose uninterpreted pool functions are         *)
(* instantiated by LOOKUP in the observations recorded next to the message:    *)
(* single-pool executions of the real code on discarded branches, keyed by     *)
(*   (pool, tok, kind, din, dout, x)                                           *)
(* with tok = the pool-level swaps applied to that pool before (its state      *)
(* relative to the pre-state of the message).  The specification recomputes    *)
(* the taker fees (BigNum, scale 10^18), the chain of hops, the backward       *)
(* pre-computation and forward execution of exact-out routes, the sum of the   *)
(* legs of split routes, the estimate and the verdict of the limit; a point it *)
(* needs and that was never observed rejects the line.                         *)
(*                                                                             *)
(* Checked per routed message: verdict (success iff the composition succeeds   *)
(* within the caller's limit), returned amount = composition, every hop's bank *)
(* amounts and taker fee, ledgers of the sender / the other users / the fee    *)
(* collector, digest of the whole state = digest after the hop-by-hop          *)
(* execution, failure leaves the digest unchanged, estimates leave the digest  *)
(* unchanged and (routes visiting every pool at most once) equal the executed  *)
(* amount.                                                                     *)
(*                                                                             *)
(* Deviations listed in Tolerate are not accepted silently: the line must      *)
(* match the deviating behaviour exactly and <<"DEVIATION", signature, line>>  *)
(* is printed; bin/checks/c05.py turns every signature into a finding.         *)
EXTENDS Router, TraceLib

B == INSTANCE BigNum

BAdd(a, b) == B!Add(a, b)
BSub(a, b) == B!Sub(a, b)
BMul(a, b) == B!Mul(a, b)
BLe(a, b)  == B!Cmp(a, b) <= 0
BFloorDiv(a, b) == B!FloorDiv(a, b)
BCeilDiv(a, b)  == B!CeilDiv(a, b)
BZero  == B!Zero
BOne   == B!OfInt(1)
BScale == B!Pow(B!OfInt(10), 18)

CONSTANT Tolerate

NoDeviations == {}
\* short codes (long tuples are wrapped by PrintT); bin/checks/c05.py maps them to finding signatures:
\*   maxin    exact-out: the caller's maximum is compared with the first pool's input, before the taker fee
\*   wlpre    exact-out, whitelisted sender: required inputs pre-computed with the pair's nominal taker fee
\*   wlest    estimate queries ignore that the sender is whitelisted
\*   outprim  EstimateSwapExactAmountOutWithPrimitiveTypes always fails
SigMaxIn   == "maxin"
SigWlPre   == "wlpre"
SigWlEst   == "wlest"
SigOutPrim == "outprim"
KnownDeviations == {SigMaxIn, SigWlPre, SigWlEst, SigOutPrim}

VARIABLES l,       \* number of trace lines consumed
          prevdg   \* digest of the state before the current line

Ev == Log[l + 1]
IsEv(e) == l < NLines /\ Ev.e = e

Dev(sig) == IF sig \in Tolerate THEN PrintT(<<"DEVIATION", sig, l + 1>>) ELSE Chk(sig, FALSE)

Range(s) == {s[i] : i \in 1..Len(s)}
DenomSeq == Log[1].denoms
DenomSet == Range(DenomSeq)
DIdx(d)  == CHOOSE i \in 1..Len(DenomSeq) : DenomSeq[i] = d
RowFn(row) == [d \in DenomSet |-> row[DIdx(d)]]
BalOf(st)  == [u \in 1..Len(st.bal) |-> RowFn(st.bal[u])]
CfgOf(st)  == [def  |-> st.def,
               over |-> [p \in {<<o.din, o.dout>> : o \in Range(st.over)} |->
                           (CHOOSE o \in Range(st.over) : <<o.din, o.dout>> = p).f],
               wl   |-> {u \in 1..Len(st.wl) : st.wl[u]}]

---------------------------------------------------------------------------
(* the pool functions, observed *)
Key(k, din, dout, x) == [k |-> k, din |-> din, dout |-> dout, x |-> x]
Matching(pst, k, din, dout, x) ==
    {i \in 1..Len(pst.obs) : LET o == pst.obs[i] IN
        o.pool = pst.id /\ o.k = k /\ o.din = din /\ o.dout = dout /\ o.x = x /\ o.tok = pst.tok}
Look(pst, k, din, dout, x) ==
    LET M == Matching(pst, k, din, dout, x)
    IN  IF M = {} THEN [ok |-> FALSE, y |-> BZero, used |-> BZero, got |-> BZero, st |-> pst, miss |-> TRUE, o |-> {}]
        ELSE LET o == pst.obs[CHOOSE i \in M : \A j \in M : i <= j]
             IN  [ok |-> o.ok, y |-> o.y, used |-> BSub(o.gin, o.fee), got |-> o.gout,
                  st |-> [pst EXCEPT !.tok = Append(@, Key(k, din, dout, x))],
                  miss |-> FALSE, o |-> {pst.obs[j] : j \in M}]
ObsIn(pst, din, dout, x)  == Look(pst, "in", din, dout, x)
ObsOut(pst, din, dout, y) == Look(pst, "out", din, dout, y)

\* the pools are functions: equal questions got equal answers
ObsFunctional(obs) == \A i \in 1..Len(obs), j \in 1..Len(obs) :
    (i < j /\ obs[i].pool = obs[j].pool /\ obs[i].k = obs[j].k /\ obs[i].din = obs[j].din /\ obs[i].dout = obs[j].dout
       /\ obs[i].x = obs[j].x /\ obs[i].tok = obs[j].tok)
    => (obs[i].ok = obs[j].ok /\ (obs[i].ok => (obs[i].y = obs[j].y /\ obs[i].gout = obs[j].gout
                                                /\ BSub(obs[i].gin, obs[i].fee) = BSub(obs[j].gin, obs[j].fee))))

\* what the bank saw for a hop is what the specification computed (taker fee included)
HopsOK(hops, free) == \A i \in 1..Len(hops) : \E o \in hops[i].o :
    o.free = free /\ o.ok /\ o.gin = hops[i].gin /\ o.fee = hops[i].fee /\ o.gout = hops[i].gout /\ o.ret = (IF o.k = "in" THEN hops[i].gout ELSE hops[i].gin)

---------------------------------------------------------------------------
TraceInit ==
    /\ HWInit
    /\ l = 1
    /\ Log[1].e = "cfg"
    /\ pools = 0
    /\ bal = BalOf(Log[1].st) /\ coll = RowFn(Log[1].st.coll) /\ cfg = CfgOf(Log[1].st)
    /\ last = [kind |-> "init", ok |-> TRUE, amt |-> BZero, lim |-> BZero]
    /\ prevdg = Log[1].st.dg

Rebase(st) == /\ bal' = BalOf(st) /\ coll' = RowFn(st.coll) /\ cfg' = CfgOf(st) /\ prevdg' = st.dg
              /\ pools' = pools

TReset == /\ IsEv("cfg")
          /\ Rebase(Ev.st)
          /\ last' = [kind |-> "init", ok |-> TRUE, amt |-> BZero, lim |-> BZero]

\* joins, exits, position changes, fee and whitelist changes, time: arbitrary prior activity
TOther == /\ IsEv("op") /\ Ev.op = "other"
          /\ Rebase(Ev.st)
          /\ last' = [kind |-> "other", ok |-> Ev.ok, amt |-> BZero, lim |-> BZero]

Verdict(kind, T, lim) ==
    LET good == T.ok /\ Accept(kind, T.amt, lim)
    IN  IF Ev.ok = good THEN TRUE
        ELSE IF kind = "swapOut" /\ Ev.ok /\ T.ok /\ BLe(T.hops[1].y, lim)
             THEN Dev(SigMaxIn)      \* the maximum was compared with the first pool's input, before the taker fee
        ELSE IF Ev.ok THEN Chk("succeeded although the composition fails or breaks the caller's limit", FALSE)
        ELSE Chk("failed although the composition succeeds within the caller's limit", FALSE)

\* the property speaks of "the executed amount": nothing is demanded of an estimate when the swap
\* itself cannot be executed (it is only noted)
Note(what) == PrintT(<<"NOTE", what, l + 1>>)
\* (T is the composition the verdict was judged against: for a whitelisted sender's exact-out swap that the code
\* pre-computes with the nominal fee - listed deviation "wlpre" - it can fail where S succeeds; the swap then did
\* not execute and could not have, so there is no executed amount to compare an estimate with)
Estimates(kind, ps0, leg, c, free, S, T) ==
    /\ Chk("estimate changes the state", Ev.estDg = Ev.preDg)
    /\ Distinct(Ev.legs) =>
         LET N == IF kind = "swapIn" THEN EstIn(ps0, leg.route, leg.amt, c) ELSE EstOut(ps0, leg.route, leg.amt, c)
         IN  \A i \in 1..Len(Ev.est) : LET q == Ev.est[i] IN
               IF ~S.ok \/ ~T.ok THEN (q.ok => Note("estok-execfail"))
               ELSE IF q.ok /\ q.amt = S.amt THEN TRUE
               ELSE IF q.q = "outPrim" /\ ~q.ok THEN Dev(SigOutPrim)
               ELSE IF free /\ ~N.miss /\ q.ok = N.ok /\ (N.ok => q.amt = N.amt) THEN Dev(SigWlEst)
               ELSE Chk(<<"estimate differs from execution", q.q>>, FALSE)

TRouted ==
    /\ IsEv("op") /\ Ev.op \in SwapKinds
    /\ LET kind == Ev.op
           u    == Ev.who
           free == u \in cfg.wl
           lim  == Ev.lim
           ps0  == [p \in PoolsOf(Ev.legs) |-> [id |-> p, tok |-> <<>>, obs |-> Ev.obs]]
           S    == Compose(kind, ps0, Ev.legs, cfg, free, free)
           C2   == Compose(kind, ps0, Ev.legs, cfg, free, FALSE)
           strict == /\ Ev.ok = (S.ok /\ Accept(kind, S.amt, lim))
                     /\ Ev.ok => (Ev.amt = S.amt /\ Ev.st.dg = Ev.comp.dg)
           useC2 == ~strict /\ free /\ kind \in OutKinds /\ Ev.has2
           T    == IF useC2 THEN C2 ELSE S
           comp == IF useC2 THEN Ev.comp2 ELSE Ev.comp
       IN  /\ Chk("pre-state digest", Ev.preDg = prevdg)
           /\ Chk("pool answers are not a function of the question", ObsFunctional(Ev.obs))
           /\ (useC2 => Dev(SigWlPre))
           /\ Chk("the composition needs a pool answer that was never observed", ~T.miss)
           /\ Verdict(kind, T, lim)
           /\ IF Ev.ok
              THEN /\ Chk("composition succeeded", T.ok /\ comp.ok)
                   /\ Chk("returned amount = composition of the hops", Ev.amt = T.amt)
                   /\ Chk("bank amounts and taker fee of every hop", HopsOK(T.hops, free))
                   /\ Chk("state after the routed swap = state after the hops one by one", Ev.st.dg = comp.dg)
                   /\ Chk("sender ledger", RowFn(Ev.st.bal[u]) = Settle(bal[u], T.hops, 1))
                   /\ Chk("other ledgers", \A v \in DOMAIN bal : v # u => RowFn(Ev.st.bal[v]) = bal[v])
                   /\ Chk("fee collector", RowFn(Ev.st.coll) = Collect(coll, T.hops, 1))
              ELSE Chk("a failed swap changed the state", Ev.st.dg = prevdg)
           /\ kind \in {"swapIn", "swapOut"} => Estimates(kind, ps0, Ev.legs[1], cfg, free, S, T)
    /\ Rebase(Ev.st)
    /\ last' = [kind |-> Ev.op, ok |-> Ev.ok, amt |-> Ev.amt, lim |-> Ev.lim]

TraceNext == /\ (TReset \/ TOther \/ TRouted)
             /\ l' = l + 1

TraceSpec == TraceInit /\ [][TraceNext]_<<vars, l, prevdg>>

Mark == HWMark(l)
Accepted == HWAccepted
=============================================================================
