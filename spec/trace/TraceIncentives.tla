--------------------------- MODULE TraceIncentives ---------------------------
(* Trace validation for C09.  Every line of a recorded execution of the real   *)
(* x/incentives msg server / epoch hook and x/lockup msg server (full app) is   *)
(* one call at its return:                                                      *)
(*   cfg  a new history: accounts, denominations, funding, configuration        *)
(*        (minimum value per denomination, fees, lockable durations)            *)
(*   op   a call (name, arguments, ok, ids the code handed out)                 *)
(* and carries what the harness read back afterwards: every gauge (by id, with  *)
(* the list it is referenced from), the incentives and lockup module accounts,  *)
(* every lock record and every account balance.                                 *)
(*                                                                             *)
(* The specification state evolves by the actions of Incentives / Lockup        *)
(* (arguments and ids from the log).  Epoch ends follow the code (all named     *)
(* deviations); each line where a deviation changes the outcome is printed as   *)
(* <<"DEVIATION", line, name>> for the orchestrator, which reports it as a      *)
(* finding.  Everything observed is compared by invariants.                     *)
EXTENDS Incentives, TraceLib

VARIABLES l,     \* lines consumed
          obs    \* the last line consumed

tvars == <<allvars, l, obs>>

Ev == Log[l + 1]
ToSet(s) == {s[i] : i \in DOMAIN s}

LocksOf(seq) ==
    [id \in {seq[i].id : i \in DOMAIN seq} |->
        LET r == seq[CHOOSE i \in DOMAIN seq : seq[i].id = id] IN Lock(r.o, r.dur, r.end, r.c, r.rr)]
GaugesOf(seq) ==
    [id \in {seq[i].id : i \in DOMAIN seq} |->
        LET r == seq[CHOOSE i \in DOMAIN seq : seq[i].id = id] IN
        Gauge(r.perp, r.d, r.dur, r.c, r.dist, r.filled, r.num, r.start, r.status)]
ParOf(e) ==
    [minAmt |-> e.par.minAmt, creatable |-> ToSet(e.par.creatable), feeDenom |-> e.par.feeDenom,
     createFee |-> e.par.createFee, addFee |-> e.par.addFee, lockable |-> ToSet(e.par.lockable),
     spamMax |-> e.par.spamMax, spamExempt |-> e.par.spamExempt, distrId |-> e.par.distrId]

TraceInit ==
    /\ HWInit
    /\ l = 1
    /\ Log[1].e = "cfg"
    /\ obs = Log[1]
    /\ locks = [x \in {} |-> 0]
    /\ bal = Log[1].st.bal
    /\ modBal = Log[1].st.mod
    /\ now = Log[1].st.now
    /\ lastId = Log[1].st.lastId
    /\ refs = {}
    /\ accum = [x \in {} |-> 0]
    /\ op = "init"
    /\ gauges = [x \in {} |-> 0]
    /\ incBal = Log[1].st.inc
    /\ lastGauge = Log[1].st.lastGauge
    /\ par = ParOf(Log[1])
    /\ paid = [x \in {} |-> 0]
    /\ excused = {}

TReset ==
    /\ Ev.e = "cfg"
    /\ locks' = [x \in {} |-> 0]
    /\ bal' = Ev.st.bal
    /\ modBal' = Ev.st.mod
    /\ now' = Ev.st.now
    /\ lastId' = Ev.st.lastId
    /\ refs' = {}
    /\ accum' = [x \in {} |-> 0]
    /\ op' = "init"
    /\ gauges' = [x \in {} |-> 0]
    /\ incBal' = Ev.st.inc
    /\ lastGauge' = Ev.st.lastGauge
    /\ par' = ParOf(Ev)
    /\ paid' = [x \in {} |-> 0]
    /\ excused' = {}

CoinsArg(e) == IF e.amt = 0 THEN ZeroCoins ELSE One(e.d, e.amt)

(* the epoch end: the payments are those of the specification; the code may send all payments of one   *)
(* owner's locks to the receiver of one of them (named deviation): accepted when some such assignment  *)
(* explains the observed balances, and reported                                                        *)
Paying(P, o) == {p \in P : locks[p[2]].owner = o /\ p[3] # ZeroCoins}
ReceiversOf(P, o) == {Receiver(locks[p[2]]) : p \in Paying(P, o)}
RECURSIVE Overrides(_, _)
Overrides(P, S) ==
    IF S = {} THEN {NoOverride}
    ELSE LET o == CHOOSE x \in S : TRUE IN
         {[f EXCEPT ![o] = r] : f \in Overrides(P, S \ {o}), r \in {""} \cup ReceiversOf(P, o)}

\* what this epoch end exercises (printed for the orchestrator's non-vacuity checks; not a verdict)
Cover(P) ==
    LET G == Activated(gauges)
        act == {gid \in GIds : G[gid].status = "active"}
        shares == UNION {LET g == G[gid]  Q == Qualifying(g)  tot == AmountIn(locks, Q, g.denom) IN
                         IF Q = {} THEN {} ELSE {<<d, Share(g, locks[id].coins[g.denom], tot, d)>> : id \in Q, d \in Denoms} : gid \in act}
        paying == {p \in P : p[3] # ZeroCoins}
        tag(c, t) == IF c THEN {t} ELSE {}
    IN tag(paying # {}, "paid")
       \cup tag(\E x \in shares : x[2] > 0 /\ par.minAmt[x[1]] > x[2], "belowmin")
       \cup tag(\E x \in shares : x[2] > 0 /\ par.minAmt[x[1]] >= 0 /\ par.minAmt[x[1]] = x[2], "exactlymin")
       \cup tag(\E x \in shares : x[2] > 0 /\ par.minAmt[x[1]] < 0, "novalue")
       \cup tag(\E p \in paying : locks[p[2]].rr # "", "receiver")
       \cup tag(\E p \in paying : Unlocking(locks[p[2]]), "unlocking")
       \cup tag(\E p \in paying : Cardinality(DenomsOf(p[3])) >= 2, "multidenom")
       \cup tag(\E p \in paying : G[p[1]].perp, "perpetual")
       \cup tag(\E p \in paying : ~G[p[1]].perp, "nonperpetual")
       \cup tag(\E gid \in GIds : gauges[gid].status = "upcoming" /\ G[gid].status = "active", "activated")
       \cup tag(\E gid \in GIds : gauges[gid].status = "upcoming" /\ G[gid].status = "active" /\ G[gid].start = now, "activated-at-start")
       \cup tag(\E gid \in GIds : G[gid].status = "upcoming", "not-yet")
       \cup tag(\E gid \in GIds : G[gid].status = "upcoming" /\ G[gid].start = now + 1, "not-yet-by-one")
       \cup tag(\E gid \in act : ~G[gid].perp /\ Counts(G[gid]) /\ G[gid].filled + 1 = G[gid].num, "finished")
       \cup tag(\E gid \in act : ~Counts(G[gid]), "no-qualifying-locks")
       \cup tag(\E gid \in act : Counts(G[gid]) /\ SpamRule(G[gid]), "spam-rule")
       \cup tag(\E gid \in act : Counts(G[gid]) /\ Remain(G[gid]) = ZeroCoins, "nothing-left")
       \cup tag(\E gid \in GIds : G[gid].status = "finished", "finished-present")

Epoch(e) ==
    LET P == AllPayments(Activated(gauges), AllDeviations)
        amb == {o \in Owners : Cardinality(ReceiversOf(P, o)) >= 2}
        good == {f \in Overrides(P, amb) : BalancesAfter(P, f) = e.st.bal}
    IN
    /\ Chk("the epoch hook succeeds", e.ok)
    /\ Chk("every qualifying lock is paid the floor of its share, to its reward receiver", good # {})
    /\ LET f == IF NoOverride \in good THEN NoOverride ELSE CHOOSE g \in good : TRUE IN
        /\ EpochEnd(AllDeviations, f)
        /\ (f # NoOverride => PrintT(<<"DEVIATION", l + 1, "ownerbatch">>))
    /\ (SpamEffective => PrintT(<<"DEVIATION", l + 1, "spam">>))
    /\ (IdleFinishEffective => PrintT(<<"DEVIATION", l + 1, "idlefinish">>))
    /\ \A t \in Cover(AllPayments(Activated(gauges), AllDeviations)) : PrintT(<<"COVER", t>>)

Call(e) ==
    IF e.a = "epoch" THEN (IF e.ident = par.distrId THEN Epoch(e) ELSE Chk("hook for another identifier succeeds", e.ok) /\ Idle("epochother"))
    ELSE IF ~e.ok THEN Idle("refused")
    ELSE CASE e.a = "create"   -> CreateGauge(e.o, e.perp, e.d, e.x, e.c, e.start, e.num, e.rid)
           [] e.a = "addg"     -> AddToGauge(e.o, e.id, e.c)
           [] e.a = "lock"     -> LockStep(LockTokens(e.o, e.d, e.x, e.amt, e.rid))
           [] e.a = "add"      -> LockStep(AddTokens(e.id, e.o, e.d, e.amt))
           [] e.a = "begin"    -> LockStep(BeginUnlock(e.id, e.o, CoinsArg(e), e.rid))
           [] e.a = "unlock"   -> LockStep(UnlockMatured(e.id))
           [] e.a = "extend"   -> LockStep(ExtendLockup(e.id, e.o, e.x))
           [] e.a = "setrr"    -> LockStep(SetRewardReceiver(e.id, e.o, e.r))
           [] e.a = "advance"  -> LockStep(AdvanceTime(e.x))

TStep ==
    /\ Ev.e = "op"
    /\ Call(Ev)

TraceNext ==
    /\ l < NLines
    /\ (TReset \/ TStep)
    /\ obs' = Ev
    /\ l' = l + 1

TraceSpec == TraceInit /\ [][TraceNext]_tvars

Mark == HWMark(l)
Accepted == HWAccepted

---------------------------------------------------------------------------
(* what the real code showed after the call = what the specification holds *)
Say(ok, what) == ok \/ (PrintT(<<"MISMATCH", l, what>>) /\ FALSE)

\* every gauge: terms, deposited and distributed coins, filled epochs, the list it is kept in
ObservedGauges ==
    /\ Say(gauges = GaugesOf(obs.st.gauges), <<"gauges", gauges, GaugesOf(obs.st.gauges)>>)
    /\ Say(obs.st.allGauges = Cardinality(GIds) /\ obs.st.lastGauge = lastGauge, <<"gauge iterator", obs.st.allGauges, Cardinality(GIds)>>)
    /\ \A i \in DOMAIN obs.st.gauges : obs.st.gauges[i].kind = "ByDuration"

\* account balances (payouts reach the reward receivers), time
ObservedBalances == Say(bal = obs.st.bal, <<"account balances", bal, obs.st.bal>>) /\ now = obs.st.now

\* the incentives module account and the lockup module account
ObservedModules ==
    /\ Say(incBal = obs.st.inc, <<"incentives module account", incBal, obs.st.inc>>)
    /\ Say(modBal = obs.st.mod, <<"lockup module account", modBal, obs.st.mod>>)

ObservedLocks == Say(locks = LocksOf(obs.st.locks), <<"lock records", locks, LocksOf(obs.st.locks)>>)
=============================================================================
