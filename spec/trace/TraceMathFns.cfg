SPECIFICATION TraceSpec
CONSTANTS
  PBD = 36
  PDEC = 18
  Strict = TRUE
CONSTRAINT Mark
POSTCONDITION Accepted
INVARIANTS Contract
PROPERTIES SqrtMonotone
CHECK_DEADLOCK FALSE
