SPECIFICATION TraceSpec
CONSTRAINT Mark
POSTCONDITION Accepted
INVARIANTS Grid NotBeforeStart SignalOrder
PROPERTIES AtMostOneTick TickExactlyWhenDue AbortRestores NobodySkipped
CHECK_DEADLOCK FALSE
