SPECIFICATION TraceSpec
CONSTRAINT Mark
POSTCONDITION Accepted
CHECK_DEADLOCK FALSE
