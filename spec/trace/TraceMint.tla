------------------------------ MODULE TraceMint ------------------------------
(* Trace validation for C18: every line of a recorded execution of the real   *)
(* x/mint epoch hook on a full app must be a step of Mint.tla, every share is  *)
(* recomputed with BigNum at scale 10^18 and verified with the relational      *)
(* rounding predicates, and every property of Mint.tla is evaluated in every   *)
(* recorded state.                                                             *)
(* Lines: cfg (a new history: parameters, receivers, projected initial state), *)
(* epoch (AfterEpochEnd for the mint epoch identifier: epoch number, outcome,  *)
(* projected state after), other (a call for a different identifier).          *)
EXTENDS Mint, TraceLib

B == INSTANCE BigNum

BAdd(a, b) == B!Add(a, b)
BSub(a, b) == B!Sub(a, b)
BMul(a, b) == B!Mul(a, b)
BLe(a, b)  == B!Cmp(a, b) <= 0
BZero  == B!Zero
BOne   == B!OfInt(1)
BScale == B!Pow(B!OfInt(10), 18)

VARIABLES l,      \* number of trace lines consumed
          dacc    \* bank balance of the distribution module account (holds the community pool)

Ev == Log[l + 1]
IsEv(e) == l < NLines /\ Ev.e = e

ConfOf(ev) == [id |-> ev.id, start |-> ev.start, period |-> ev.period, factor |-> ev.factor,
               ps |-> ev.ps, pp |-> ev.pp, pd |-> ev.pd, pc |-> ev.pc,
               recv |-> ev.recv, nrcv |-> ev.nrcv, pi |-> ev.pi]
BalOf(s) == [mint |-> s.bal.mint, fee |-> s.bal.fee, pool |-> s.bal.pool, inc |-> s.bal.inc,
             comm |-> s.bal.comm, vest |-> s.bal.vest]

TraceInit ==
    /\ HWInit
    /\ l = 1
    /\ Log[1].e = "cfg"
    /\ InitWith(ConfOf(Log[1]), Log[1].epoch, Log[1].st.prov, Log[1].st.lastRed, BalOf(Log[1].st),
                Log[1].st.rcv, Log[1].st.supply, Log[1].st.offset)
    /\ dacc = Log[1].st.distr

\* a new history starts
TReset ==
    /\ IsEv("cfg")
    /\ LET s == Ev.st  b == BalOf(Ev.st) IN
        /\ conf' = ConfOf(Ev) /\ epoch' = Ev.epoch /\ prov' = s.prov /\ lastRed' = s.lastRed
        /\ bal' = b /\ rcv' = s.rcv /\ supply' = s.supply /\ offset' = s.offset
        /\ gh' = Gh0(s.lastRed, s.supply,
                     BSub(s.supply, BAdd(Add3(b.mint, b.fee, b.pool), Add3(b.inc, b.comm, SumAll(s.rcv, 1)))))
        /\ dacc' = s.distr

\* the projected state after the call is the state the specification reaches
Logged(s) ==
    /\ prov' = s.prov /\ lastRed' = s.lastRed
    /\ bal'.mint = s.bal.mint /\ bal'.fee = s.bal.fee /\ bal'.pool = s.bal.pool
    /\ bal'.inc = s.bal.inc /\ bal'.comm = s.bal.comm /\ bal'.vest = s.bal.vest
    /\ Len(s.rcv) = Len(rcv) /\ \A k \in 1..Len(rcv) : rcv'[k] = s.rcv[k]
    /\ supply' = s.supply /\ offset' = s.offset
    \* the coins of the community pool sit in the distribution module account
    /\ dacc' = s.distr
    /\ BSub(s.distr, dacc) = BSub(s.bal.comm, bal.comm)

Share(amount, ratio) == B!FloorDiv(BMul(amount, ratio), BScale)

\* everything the specification needs beyond the provision, recomputed
OutFor(np, s, failed) ==
    LET minted == B!FloorDiv(np, BScale)
        st  == Share(minted, conf.ps)
        pl  == Share(minted, conf.pp)
        dev == Share(minted, conf.pd)
        y   == IF failed THEN BZero ELSE BSub(s.bal.inc, bal.inc)
    IN  [np |-> np, minted |-> minted, st |-> st, pl |-> pl, dev |-> dev,
         pay |-> [j \in 1..Len(conf.recv) |-> Share(dev, conf.recv[j].w)],
         y |-> y,
         x |-> IF failed THEN BZero ELSE BSub(BSub(BAdd(bal.pool, pl), y), s.bal.pool),
         kept |-> IF failed THEN BZero ELSE BSub(s.bal.vest, BSub(bal.vest, dev))]

TSkip == /\ IsEv("epoch") /\ Ev.ok
         /\ Skip(Ev.n)
         /\ Logged(Ev.st)

TEpoch == /\ IsEv("epoch") /\ Ev.ok
          /\ EpochEnd(Ev.n, OutFor(Ev.st.prov, Ev.st, FALSE))
          /\ Logged(Ev.st)

\* a failed call: allowed only when the vesting account cannot cover the developer share
\* of the provision that would have been in force (rounded either way when a reduction is due)
TFail == /\ IsEv("epoch") /\ ~Ev.ok
         /\ LET q == B!FloorDiv(BMul(prov, conf.factor), BScale)
                cands == IF Due(Ev.n) THEN {q, BAdd(q, BOne)} ELSE {prov}
            IN  \E np \in cands : EpochFail(Ev.n, OutFor(np, Ev.st, TRUE))
         /\ Logged(Ev.st)

TOther == /\ IsEv("other") /\ Ev.ok
          /\ Other
          /\ Logged(Ev.st)

TraceNext == /\ (TReset \/ TSkip \/ TEpoch \/ TFail \/ TOther)
             /\ l' = l + 1

TraceSpec == TraceInit /\ [][TraceNext]_<<vars, l, dacc>>

Mark == HWMark(l)
Accepted == HWAccepted
=============================================================================
