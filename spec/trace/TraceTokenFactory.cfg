SPECIFICATION TraceSpec
CONSTANTS
  Accts = {"a1", "a2", "a3", "a4"}
  Mods = {"distribution", "gov", "protorev", "tokenfactory"}
  Hooks = {"hk"}
  Broke = {}
  BlockAmt = 100
CONSTRAINT Mark
POSTCONDITION Accepted
INVARIANTS TypeOK SupplyIsSumOfBalances
PROPERTIES OnlyAdminActs StrangerWritesNothing RefusedChangesNothing OtherDenomsUntouched Namespaces RenouncedIsForever ModulesOutOfReach BalancesMoveOnlyByAdmin
CHECK_DEADLOCK FALSE
