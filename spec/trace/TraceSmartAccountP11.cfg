SPECIFICATION TraceSpec
CONSTANTS
  ConfirmAfterFailedExec = TRUE
  FeeWithoutSequence = FALSE
CONSTRAINT Mark
POSTCONDITION Accepted
INVARIANTS IdsUnique RegWellFormed AuthenticatePure StoresConsistent NoCallsWhileInactive TrackOnlyAfterAuth TxIdsFresh ChargedFeeConsumesSequence
PROPERTIES OwnerOnly IdsIncrease IdsKept FrozenWhileInactive NeverTakenBack FailedTxKeepsNothing
CHECK_DEADLOCK FALSE
