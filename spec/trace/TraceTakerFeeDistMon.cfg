SPECIFICATION TraceSpec
CONSTANTS
  NAdd <- BAdd
  NSub <- BSub
  NMul <- BMul
  NLe <- BLe
  NFloorDiv <- BFloorDiv
  NZero <- BZero
  NUnit <- BUnit
CONSTRAINT Mark
POSTCONDITION Accepted
INVARIANTS Conservation NonNegative AccrNonNegative SkimBacked AgreementsWellFormed
PROPERTIES QuietBetweenEpochs TrackersMonotone TrackersMatchDeliveries CollectorEmptied SourcesEmptied SmoothingExact BufferOnlyGrowsOtherwise
CHECK_DEADLOCK FALSE
