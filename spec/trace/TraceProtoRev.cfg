SPECIFICATION TraceSpec
CONSTANT Denoms <- TDenoms
CONSTRAINT Mark
POSTCONDITION Accepted
INVARIANTS TypeOK ConfigWellFormed IndexSound StatsAddUp ProfitsAccounted SupplyConstant
PROPERTIES PoolsStatic QuietWhenOff FailedTxLeavesNothing BudgetRespected BlockStartsAtZero ModuleNeverLoses OnlyTradesCount OthersUntouchedByPost DaysCount IndexOnlyMovesWhenStated AdminOnly
CHECK_DEADLOCK FALSE
