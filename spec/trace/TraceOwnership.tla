--------------------------- MODULE TraceOwnership ---------------------------
(* Trace validation for C20 (wrong-sender sweeps): the recorded deliveries of  *)
(* harness/app/ownership (TestRecordOwn) are replayed as a behaviour of        *)
(* Ownership.tla's variables - the owner map is the one read back from the     *)
(* real keepers after every committed step, the digest is the digest of every  *)
(* store of the app - and the properties of Ownership.tla are evaluated on     *)
(* every step.  The trace spec itself only checks that the log is well formed  *)
(* and that the labels used for the coverage statistics (role of the sender)   *)
(* are truthful.                                                                *)
(* Lines: cfg (new history: own, dg), op (a committed step: kind, obj, sender, *)
(* to, ok, dgb, fg0, fg1, partial, role, ns, own and dg afterwards), try (the  *)
(* same on a discarded branch, without own / dg).                              *)
EXTENDS Ownership, TraceLib

VARIABLE l

Ev == Log[l + 1]
IsEv(e) == l < NLines /\ Ev.e = e

\* authorisations the code grants besides ownership: governance may move positions (position.go)
TrSpecial == {<<"cl.transfer", "gov">>}
TrTransferKinds == {"cl.transfer", "tf.admin"}
\* MsgForceUnlock additionally requires the owner to be on the force-unlock list (u4 and u5 in every history;
\* two listed owners, so that "listed" cannot stand in for "owner")
TrListed(kind, sender) == kind = "lock.force" => sender \in {"u4", "u5"}

TraceInit ==
    /\ HWInit
    /\ l = 1
    /\ Log[1].e = "cfg"
    /\ own = Log[1].own
    /\ prev = [x \in DOMAIN Log[1].own |-> {}]
    /\ dg = Log[1].dg
    /\ last = Last0

TReset ==
    /\ IsEv("cfg")
    /\ own' = Ev.own
    /\ prev' = [x \in DOMAIN Ev.own |-> {}]
    /\ dg' = Ev.dg
    /\ last' = Last0

RoleOK(d, role) ==
    CASE role = "owner"    -> IsOwner(own, d.obj, d.sender)
      [] role = "self"     -> d.obj = ""
      [] role = "prev"     -> d.obj \in DOMAIN prev /\ d.sender \in prev[d.obj] /\ ~IsOwner(own, d.obj, d.sender)
      [] OTHER             -> d.obj # "" /\ ~IsOwner(own, d.obj, d.sender)

TStep ==
    /\ (IsEv("op") \/ IsEv("try"))
    /\ LET commit == Ev.e = "op"
           d == Delivery(l + 1, commit, Ev.kind, Ev.obj, Ev.sender, Ev.to, Ev.ok, Ev.dgb, Ev.fg0, Ev.fg1, Ev.partial)
       IN /\ Chk("role-label", RoleOK(d, Ev.role))
          /\ Chk("object-exists", d.obj = "" \/ d.obj \in DOMAIN own)
          \* a denomination created by a message lies in the sender's namespace
          /\ Chk("namespace", (d.kind = "tf.create" /\ d.ok) => Ev.ns = d.sender)
          /\ own' = IF commit THEN Ev.own ELSE own
          /\ dg' = IF commit THEN Ev.dg ELSE dg
          /\ prev' = PrevAfter(own, own', prev)
          /\ last' = d

TraceNext == /\ (TReset \/ TStep)
             /\ l' = l + 1

TraceSpec == TraceInit /\ [][TraceNext]_<<vars, l>>

Mark == HWMark(l)
Accepted == HWAccepted
=============================================================================
