-------------------------- MODULE TraceSmartAccount --------------------------
(* Trace validation for X05: every line of a recorded execution of the real     *)
(* x/smart-account module (message server, queries, genesis, and real signed    *)
(* transactions run through baseapp's ante -> messages -> post pipeline) must be *)
(* explained by SmartAccount.tla, and every property of SmartAccount.tla is      *)
(* evaluated in every state, including the phases inside a transaction.          *)
(* Lines: cfg (new history), add / rm / act (message server), tx (a delivered    *)
(* transaction: arguments, result, calls seen by the probe leaves, state         *)
(* after), q (gRPC queries), reimport (genesis round trip), block.               *)
(* Ids handed out by the code are inputs (required fresh); error texts are not   *)
(* looked at.  The state after every line must be exactly the specified one.     *)
EXTENDS SmartAccount, TraceLib

VARIABLE l      \* number of trace lines consumed

Ev == Log[l + 1]
IsEv(e) == l < NLines /\ Ev.e = e
ToSet(s) == {s[i] : i \in 1..Len(s)}

\* names : store name -> "full" (probe leaf: counters, last ids, calls seen) | "last" (repo Spy: last ids) | "none"
ConfOf(ev) == [accts |-> ToSet(ev.accts), names |-> DOMAIN ev.names, ctrl |-> ToSet(ev.ctrl), kind |-> ev.names]

LsMatch(n, logged, mine) ==
    CASE conf'.kind[n] = "full" -> logged = mine
      [] conf'.kind[n] = "last" -> /\ logged.na = mine.na
                                  /\ logged.lt = mine.lt /\ logged.lc = mine.lc
                                  /\ logged.lad = mine.lad /\ logged.lrm = mine.lrm
      [] OTHER -> TRUE

\* the projected real state is exactly the specified state
Matches(st) ==
    /\ Chk("P5-active-flag", st.active = active')
    /\ Chk("P3-registry-is-adds-minus-removes",
           \A a \in conf'.accts : ToSet(st.reg[a]) = reg'[a] /\ Len(st.reg[a]) = Cardinality(reg'[a]))
    /\ Chk("P11-sequence-numbers", \A a \in conf'.accts : st.seq[a] = seq'[a])
    /\ Chk("P9-executed-messages-kept", \A a \in conf'.accts : st.sent[a] = sent'[a])
    /\ Chk("P11-fee-charged", \A a \in conf'.accts : st.fee[a] = fee'[a])
    /\ Chk("P7-authenticate-is-pure", \A n \in conf'.names : st.ls[n].na = 0)
    /\ Chk("P8-P9-leaf-stores", \A n \in conf'.names : LsMatch(n, st.ls[n], ls'[n]))

Seen(cs) == SelectSeq(cs, LAMBDA c : conf.kind[c.n] = "full")
Core(cs) == SelectSeq(cs, LAMBDA c : c.ph \in {"auth", "track", "confirm"})
Side(cs) == SelectSeq(cs, LAMBDA c : c.ph \in {"added", "removed"})
Has(cs, ph) == \E i \in 1..Len(cs) : cs[i].ph = ph

TraceInit ==
    /\ HWInit
    /\ l = 1
    /\ Log[1].e = "cfg"
    /\ InitWith(ConfOf(Log[1]))

TReset ==
    /\ IsEv("cfg") /\ fl.ph = "idle"
    /\ LET c == ConfOf(Ev) IN
        /\ conf' = c /\ active' = TRUE /\ reg' = [a \in c.accts |-> {}] /\ used' = {}
        /\ ls' = [n \in c.names |-> Leaf0]
        /\ seq' = [a \in c.accts |-> 0] /\ sent' = [a \in c.accts |-> 0] /\ fee' = [a \in c.accts |-> 0]
        /\ fl' = Idle /\ op' = [k |-> "init", by |-> {}]
    /\ Matches(Ev.st)
    /\ l' = l + 1

TAdd == /\ IsEv("add")
        /\ Chk("P4-P5-add-accepted-iff-active-and-well-formed", Ev.ok = CanAdd(St, Ev.t))
        /\ Ev.ok => Chk("P2-id-strictly-greater-than-all-before", Fresh(St, Ev.id))
        /\ AddAuthenticator(Ev.a, Ev.t, Ev.id, Ev.ok)
        /\ Ev.ok => Chk("P4-P6-added-calls", Ev.calls = Seen(Calls("added", Leaves(Ev.t, <<Ev.id>>))))
        /\ Matches(Ev.st)
        /\ l' = l + 1

TRm == /\ IsEv("rm")
       /\ Chk("P1-P4-P5-remove-accepted-iff-active-own-and-not-vetoed", Ev.ok = CanRm(St, Ev.a, Ev.id))
       /\ RemoveAuthenticator(Ev.a, Ev.id, Ev.ok)
       /\ Ev.ok => Chk("P4-P6-removed-calls", Ev.calls = Seen(Calls("removed", Leaves(EntryOf(St, Ev.a, Ev.id).t, <<Ev.id>>))))
       /\ Matches(Ev.st)
       /\ l' = l + 1

TAct == /\ IsEv("act")
        /\ Chk("P5-only-governor-activates-only-controllers-deactivate",
               Ev.ok = (IF Ev.on THEN Ev.by = Gov ELSE Ev.by \in conf.ctrl))
        /\ SetActiveState(Ev.by, Ev.on, Ev.ok)
        /\ Matches(Ev.st)
        /\ l' = l + 1

TQuery == /\ IsEv("q")
          /\ Query
          /\ LET ans == QueryAnswer(Ev.a, Ev.id) IN
              /\ Chk("P3-query-found", Ev.found = ans.found)
              /\ ans.found => Chk("P3-query-tree", Ev.t = ans.t)
              /\ Chk("P3-query-count", Ev.cnt = Cardinality(reg[Ev.a]))
          /\ Matches(Ev.st)
          /\ l' = l + 1

TReimport == /\ IsEv("reimport")
             /\ Chk("P12-reimport-succeeds", Ev.ok)
             /\ Reimport
             /\ Matches(Ev.st)
             /\ l' = l + 1

TBlock == /\ IsEv("block")
          /\ NewBlock
          /\ Matches(Ev.st)
          /\ l' = l + 1

TxOf(ev) == [msgs |-> ev.msgs, ext |-> ev.ext, stale |-> ev.stale, fee |-> ev.fee, ids |-> ev.ids]
NAddMsgs(tx) == Cardinality({i \in 1..Len(tx.msgs) : tx.msgs[i].m.k = "add"})

TTxBegin == IsEv("tx") /\ TxBegin(TxOf(Ev)) /\ l' = l
TTxAnte == TxAnte /\ l' = l
TTxExec == TxExec /\ l' = l
TTxPost == TxPost /\ l' = l
TTxEnd ==
    /\ IsEv("tx") /\ fl.ph = "done"
    /\ Chk("tx-result", Ev.ok = fl.ok)
    /\ Chk("P9-confirm-only-after-successful-execution", Has(Ev.calls, "confirm") => Has(Seen(fl.calls), "confirm"))
    /\ Chk("P8-track-only-after-every-message-authenticated", Has(Ev.calls, "track") => Has(Seen(fl.calls), "track"))
    /\ Chk("P5-P10-no-authenticator-consulted", Has(Ev.calls, "auth") => Has(Seen(fl.calls), "auth"))
    /\ Chk("P6-P8-P9-calls-and-composite-ids", Core(Ev.calls) = Core(Seen(fl.calls)))
    /\ fl.ok => /\ Chk("P2-ids-of-add-messages", Len(Ev.ids) = NAddMsgs(fl.tx))
                /\ Chk("P4-added-removed-calls", Side(Ev.calls) = Side(Seen(fl.calls)))
    /\ TxEnd
    /\ Chk("P11-charged-fee-consumes-the-payers-sequence-number",
           FeeWithoutSequence \/ \A a \in conf.accts : Ev.st.fee[a] > fl.S0.fee[a] => Ev.st.seq[a] > fl.S0.seq[a])
    /\ Matches(Ev.st)
    /\ l' = l + 1

TraceNext == TReset \/ TAdd \/ TRm \/ TAct \/ TQuery \/ TReimport \/ TBlock
             \/ TTxBegin \/ TTxAnte \/ TTxExec \/ TTxPost \/ TTxEnd

TraceSpec == TraceInit /\ [][TraceNext]_<<vars, l>>

Mark == HWMark(l)
Accepted == HWAccepted
=============================================================================
