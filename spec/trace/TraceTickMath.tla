---------------------------- MODULE TraceTickMath ----------------------------
(* Trace validation for C14: every line recorded from the real                *)
(* x/concentrated-liquidity/math package must be a step of TickMath.tla in    *)
(* the REAL geometry (exponentAtPriceOne = -6, decades -30 .. 38, launch      *)
(* range from decade -12, 36 / 18 decimals), and every property of            *)
(* TickMath.tla is evaluated in every state of the recorded series.           *)
(* Lines:                                                                     *)
(*   cfg   a new series; carries the constants exported by types/constants.go *)
(*         (tick range ends, price and sqrt price bounds), which must be the  *)
(*         ones the documented geometry implies;                              *)
(*   tick  the battery around one tick: TickToPrice(t), TickToSqrtPrice of    *)
(*         t-1, t, t+1, CalculateSqrtPriceToTick on sqrt prices in that span; *)
(*   t2p, t2s, s2t, p2t, rd, s2tr  single calls (out-of-range arguments,      *)
(*         random sqrt prices with the bucket edges TickToSqrtPrice(T),       *)
(*         TickToSqrtPrice(T+1) as answered by the code - they are verified   *)
(*         by squaring before they are used, roundings to a spacing).         *)
(* Prices are raw 36-decimal integers in the BigNum wire form.                *)
EXTENDS TickMath, TraceLib

VARIABLE l      \* number of trace lines consumed

\* cfg files cannot hold negative numbers
RMinDecade == -30
RLaunchDecade == -12

\* the worked example of the README: tick 36650010 is price 16500.10
ASSUME B!Eq(PriceRaw(36650010), B!Mul(B!OfInt(1650010), Pow10(PD - 2)))
ASSUME MinTickV2 = -270000000 /\ MinInitTick = -108000000 /\ MaxTick = 342000000

Ev == Log[l + 1]
IsEv(e) == l < NLines /\ Ev.e = e

\* what types/constants.go exports must be what the geometry implies
CfgOK(ev) ==
    /\ ev.minInit = MinInitTick /\ ev.minCur = MinCurTick
    /\ ev.minInitV2 = MinTickV2 /\ ev.minCurV2 = MinCurTickV2
    /\ ev.maxTick = MaxTick /\ ev.exp1 = -K
    /\ B!Eq(ev.maxSpot, MaxSpot) /\ B!Eq(ev.minSpot, MinSpot) /\ B!Eq(ev.minSpotV2, MinSpotV2)
    /\ B!Eq(ev.maxSqrt, MaxSqrt) /\ B!Eq(ev.minSqrt, MinSqrt)

TraceInit ==
    /\ HWInit
    /\ l = 1
    /\ Log[1].e = "cfg"
    /\ CfgOK(Log[1])
    /\ Init

TReset == IsEv("cfg") /\ CfgOK(Ev) /\ Reset

TTick == /\ IsEv("tick")
         /\ TickBattery(Ev.t, Ev.ok, Ev.p, Ev.sok, Ev.s, Ev.hasm, Ev.sm, Ev.hasn, Ev.sn, Ev.pr)

TT2P  == IsEv("t2p")  /\ TickToPrice(Ev.t, Ev.ok, Ev.p)
TT2S  == IsEv("t2s")  /\ TickToSqrtPrice(Ev.t, Ev.ok, Ev.s)
TS2T  == IsEv("s2t")  /\ SqrtPriceToTick(Ev.x, Ev.ok, Ev.T, Ev.lo, Ev.hi)
TP2T  == IsEv("p2t")  /\ PriceToTick(Ev.p, Ev.ok, Ev.T)
TRD   == IsEv("rd")   /\ RoundDown(Ev.t, Ev.sp, Ev.ok, Ev.r)
TS2TR == IsEv("s2tr") /\ SqrtToTickRounded(Ev.x, Ev.sp, Ev.ok, Ev.r, Ev.tok, Ev.T, Ev.lo, Ev.hi)

TraceNext == /\ (TReset \/ TTick \/ TT2P \/ TT2S \/ TS2T \/ TP2T \/ TRD \/ TS2TR)
             /\ l' = l + 1

TraceSpec == TraceInit /\ [][TraceNext]_<<vars, l>>

Mark == HWMark(l)
Accepted == HWAccepted
=============================================================================
