--------------------------- MODULE TracePartialOrd ---------------------------
(* Trace validation for X01: every line of a recorded use of the real         *)
(* osmoutils/partialord package must be a step of PartialOrd.tla, and every    *)
(* property of PartialOrd.tla is evaluated in every state of the recording.    *)
(* Lines:                                                                      *)
(*   cfg    NewPartialOrdering(names) and its outcome (a new history)          *)
(*   before / after / seq / first / last   the call, its arguments, outcome    *)
(*          "ok" (returned) or "rej" (panicked; the recorder then continues    *)
(*          with an object rebuilt from the accepted calls)                    *)
(*   total  the answer r of TotalOrdering and the answers `twins` to the same  *)
(*          question asked in other ways (same object again, fresh objects     *)
(*          over the same element set listed in another order with the same    *)
(*          constraints declared in another order / by other entry points)     *)
(*   probe  on a fresh object with the same accepted calls: Before(a, b)       *)
(*          followed by TotalOrdering - "ok" if an ordering came back           *)
(* Error texts are not looked at.                                              *)
(*                                                                             *)
(* Deviations of three narrowly defined shapes are not rejected but reported   *)
(* as <<"KNOWN-SHAPE", shape, line>> (bin/checks/x01.py turns each into a       *)
(* finding, i.e. a violation unless it is a listed open known finding); the    *)
(* line must match the shape exactly, everything else is still demanded.       *)
EXTENDS PartialOrd, TraceLib

VARIABLES l,      \* number of trace lines consumed
          memo    \* P7 across histories: what was answered for <<elems, cons, first, last>>

Ev == Log[l + 1]
IsEv(e) == l < NLines /\ Ev.e = e

\* Perms / BeforePairs tabulated once for the element sets of this trace (cfg: Perms <- TabPerms ...)
ElemSets == {Range(Log[i].names) : i \in {j \in 1..NLines : Log[j].e = "cfg"}}
PermTable == [S \in ElemSets |-> PermsOf(S)]
TabPerms(S) == IF S \in ElemSets THEN PermTable[S] ELSE PermsOf(S)
BeforeTable == [p \in UNION {PermTable[S] : S \in ElemSets} |-> BeforePairsOf(p)]
TabBefore(p) == IF p \in DOMAIN BeforeTable THEN BeforeTable[p] ELSE BeforePairsOf(p)

Shape(name) == PrintT(<<"KNOWN-SHAPE", name, l + 1>>)

\* what is directly declared at this moment
Direct == cons \cup FirstEdges(elems, first) \cup LastEdges(elems, last)

TraceInit ==
    /\ HWInit
    /\ l = 1
    /\ memo = <<>>
    /\ Log[1].e = "cfg"
    /\ Chk("NewPartialOrdering fails exactly when a name is given twice", (Log[1].o = "ok") <=> Distinct(Log[1].names))
    /\ InitNew(Log[1].names, Log[1].o)

\* a new history
TNew == /\ IsEv("cfg")
        /\ Chk("NewPartialOrdering fails exactly when a name is given twice", (Ev.o = "ok") <=> Distinct(Ev.names))
        /\ NewFrom(Ev.names, Ev.o)
        /\ UNCHANGED memo

\* shape "redundant-rejected": a pairwise call that re-declares something directly declared is
\* rejected although an ordering would still exist
RedundantRejected(P) ==
    /\ made
    /\ Satisfiable(elems, cons \cup P, first, last)
    /\ P \cap Direct # {}
    /\ Shape("redundant-rejected")
    /\ UNCHANGED vars

TPairs(P) ==
    \/ AddPairs(P, Ev.o)
    \/ Ev.o = "rej" /\ RedundantRejected(P)

TBefore == IsEv("before") /\ TPairs({<<Ev.a, Ev.b>>}) /\ UNCHANGED memo
TAfter  == IsEv("after") /\ TPairs({<<Ev.b, Ev.a>>}) /\ UNCHANGED memo
TSeq    == IsEv("seq") /\ TPairs(PairsOfSeq(Ev.s)) /\ UNCHANGED memo
TFirst  == IsEv("first") /\ FirstElements(Ev.s, Ev.o) /\ UNCHANGED memo
TLast   == IsEv("last") /\ LastElements(Ev.s, Ev.o) /\ UNCHANGED memo

Key == <<elems, cons, first, last>>
Remember(r) == memo' = IF Key \in DOMAIN memo THEN memo ELSE memo @@ (Key :> r)
AsBefore(r) == Key \in DOMAIN memo => memo[Key] = r

\* shapes "first-last-conflict" / "decl-duplicate": an ordering is returned although the two
\* declarations cannot hold together / a declaration lists a name twice
DeclShape == IF Distinct(first) /\ Distinct(last) THEN "first-last-conflict" ELSE "decl-duplicate"

TTotal ==
    /\ IsEv("total")
    /\ made
    /\ \A i \in 1..Len(Ev.twins) :
          Chk("P7: the same question asked in another way has the same answer", Ev.twins[i] = Ev.r)
    /\ \/ /\ TotalOrdering(Ev.r)
          /\ Chk("P7: the same elements and constraints had another answer earlier", AsBefore(Ev.r))
          /\ Remember(Ev.r)
       \/ /\ Ev.r.k = "ord" /\ DeclConflict
          /\ IsPerm(Ev.r.o, elems)
          /\ Shape(DeclShape)
          /\ out' = NoOut
          /\ UNCHANGED <<gen, made, elems, cons, first, last, fsealed, lsealed, memo>>

TProbe ==
    /\ IsEv("probe")
    /\ made
    /\ LET sat == Satisfiable(elems, cons \cup {<<Ev.a, Ev.b>>}, first, last) IN
       \/ Ev.r = "ok" /\ sat
       \/ Ev.r = "fail" /\ ~sat
       \/ Ev.r = "ok" /\ ~sat /\ DeclConflict /\ Shape(DeclShape)
       \/ Ev.r = "fail" /\ sat /\ <<Ev.a, Ev.b>> \in Direct /\ Shape("redundant-rejected")
    /\ UNCHANGED <<vars, memo>>

TraceNext == /\ (TNew \/ TBefore \/ TAfter \/ TSeq \/ TFirst \/ TLast \/ TTotal \/ TProbe)
             /\ l' = l + 1

TraceSpec == TraceInit /\ [][TraceNext]_<<vars, l, memo>>

Mark == HWMark(l)
Accepted == HWAccepted
=============================================================================
