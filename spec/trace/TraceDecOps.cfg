SPECIFICATION TraceSpec
CONSTANTS
  NAdd <- BAdd
  NSub <- BSub
  NMul <- BMul
  NNeg <- BNeg
  NCmp <- BCmp
  NQuoT <- BQuoT
  NEven <- BEven
  NOfInt <- BOfInt
  NPow10 <- BPow10
  Digits <- TrDigits
  Bounds <- TrBounds
  Strict = TRUE
CONSTRAINT Mark
POSTCONDITION Accepted
INVARIANTS Exact
PROPERTIES TwinAgree
CHECK_DEADLOCK FALSE
