SPECIFICATION TraceSpec
CONSTANTS
  NZero <- BZero
  NAdd <- BAdd
  NSub <- BSub
  NLe <- BLe
CONSTRAINT Mark
POSTCONDITION Accepted
INVARIANTS InvLiq InvTicks InvPrice InvEmpty InvWF
CHECK_DEADLOCK FALSE
