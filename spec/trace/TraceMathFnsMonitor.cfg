SPECIFICATION TraceSpec
CONSTANTS
  PBD = 36
  PDEC = 18
  Strict = FALSE
CONSTRAINT Mark
POSTCONDITION Accepted
CHECK_DEADLOCK FALSE
