SPECIFICATION TraceSpec
CONSTANTS
  DustPerOp = 4
CONSTRAINT Mark
POSTCONDITION Accepted
CHECK_DEADLOCK FALSE
