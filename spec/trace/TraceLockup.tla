----------------------------- MODULE TraceLockup -----------------------------
(* Trace validation for C06.  Every line of a recorded execution of the real   *)
(* x/lockup msg server / keeper (full app) is one call at its return:           *)
(*   cfg  a new history: owners, denominations, funding, force-unlock list      *)
(*   op   a call (name, arguments, ok, ids the code handed out)                 *)
(* and carries what the harness read back afterwards: every lock record (by    *)
(* id, from the primary store), owner balances, the module account, the raw    *)
(* reference index, accumulation-store answers for a ladder of durations and   *)
(* a battery of queries with random parameters.                                *)
(*                                                                             *)
(* The specification state evolves by Lockup's own actions (arguments and the   *)
(* ids allocated by the code come from the log); a successful call that is not  *)
(* enabled in the specification rejects the trace.  Everything observed is      *)
(* then compared by invariants, so a violation names what disagreed.           *)
EXTENDS Lockup, TraceLib

VARIABLES l,     \* lines consumed
          obs,   \* the last line consumed
          conf   \* the cfg line of the running history

tvars == <<vars, l, obs, conf>>

Ev == Log[l + 1]
ToSet(s) == {s[i] : i \in DOMAIN s}
MinN(a, b) == IF a <= b THEN a ELSE b

LocksOf(seq) ==
    [id \in {seq[i].id : i \in DOMAIN seq} |->
        LET r == seq[CHOOSE i \in DOMAIN seq : seq[i].id = id] IN Lock(r.o, r.dur, r.end, r.c, r.rr)]

AllowedOf(c) == ToSet(c.allowed)

StartFrom(e) ==
    /\ locks = [x \in {} |-> 0]
    /\ bal = e.st.bal
    /\ modBal = e.st.mod
    /\ now = e.st.now
    /\ lastId = e.st.lastId
    /\ refs = {}
    /\ accum = [x \in {} |-> 0]
    /\ op = "init"

TraceInit ==
    /\ HWInit
    /\ l = 1
    /\ Log[1].e = "cfg"
    /\ obs = Log[1]
    /\ conf = Log[1]
    /\ StartFrom(Log[1])

TReset ==
    /\ Ev.e = "cfg"
    /\ locks' = [x \in {} |-> 0]
    /\ bal' = Ev.st.bal
    /\ modBal' = Ev.st.mod
    /\ now' = Ev.st.now
    /\ lastId' = Ev.st.lastId
    /\ refs' = {}
    /\ accum' = [x \in {} |-> 0]
    /\ op' = "init"
    /\ conf' = Ev

CoinsArg(e) == IF e.amt = 0 THEN ZeroCoins ELSE One(e.d, e.amt)
ObservedIds(e) == {e.st.locks[i].id : i \in DOMAIN e.st.locks}

\* a sweep has no error path: it must succeed, take only matured locks, and as many as asked
Sweep(e) ==
    LET S == Ids \ ObservedIds(e) IN
    /\ e.ok
    /\ IF e.x = 0 THEN S = MaturedIds ELSE Cardinality(S) = MinN(e.x, Cardinality(MaturedIds))
    /\ WithdrawMatured(S)

Call(e) ==
    IF e.a = "withdraw" THEN Sweep(e)
    ELSE IF ~e.ok THEN Refused
    ELSE CASE e.a = "lock"     -> LockTokens(e.o, e.d, e.x, e.amt, e.rid)
           [] e.a = "add"      -> AddTokens(e.id, e.o, e.d, e.amt)
           [] e.a = "begin"    -> BeginUnlock(e.id, e.o, CoinsArg(e), e.rid)
           [] e.a = "beginall" -> BeginUnlockAll(e.o)
           [] e.a = "unlock"   -> UnlockMatured(e.id)
           [] e.a = "extend"   -> ExtendLockup(e.id, e.o, e.x)
           [] e.a = "setrr"    -> SetRewardReceiver(e.id, e.o, e.r)
           [] e.a = "force"    -> ForceUnlock(e.id, e.o, CoinsArg(e), e.st.lastId, AllowedOf(conf))
           [] e.a = "advance"  -> AdvanceTime(e.x)

TStep ==
    /\ Ev.e = "op"
    /\ Call(Ev)
    /\ UNCHANGED conf

TraceNext ==
    /\ l < NLines
    /\ (TReset \/ TStep)
    /\ obs' = Ev
    /\ l' = l + 1

TraceSpec == TraceInit /\ [][TraceNext]_tvars

Mark == HWMark(l)
Accepted == HWAccepted

---------------------------------------------------------------------------
(* what the real code showed after the call = what the specification holds *)
Say(ok, what) == ok \/ (PrintT(<<"MISMATCH", l, what>>) /\ FALSE)

\* every lock record: id, owner, duration, end time, coins, reward receiver
ObservedLocks == Say(locks = LocksOf(obs.st.locks), <<"lock records", locks, LocksOf(obs.st.locks)>>)

\* owner balances and time
ObservedBalances == Say(bal = obs.st.bal, <<"owner balances", bal, obs.st.bal>>) /\ now = obs.st.now

\* the module account holds exactly the sum of the live locks
ObservedModuleAccount ==
    Say(obs.st.mod = [d \in Denoms |-> AmountIn(locks, Ids, d)], <<"module account", obs.st.mod, modBal>>)

\* the raw reference index in the store is the one derived from the lock records
ObservedRefs ==
    Say(ToSet(obs.st.refs) = DerivedRefs(locks),
        <<"reference index: missing", DerivedRefs(locks) \ ToSet(obs.st.refs), "stale", ToSet(obs.st.refs) \ DerivedRefs(locks)>>)

\* "amount of denom locked for at least duration x", for every probed x
ObservedAccumulation == \A i \in DOMAIN obs.acc :
    LET a == obs.acc[i] IN
    Say(a[3] = LockedAtLeast(locks, a[1], a[2]) /\ a[3] = AccAtLeast(accum, a[1], a[2]),
        <<"accumulation", a, LockedAtLeast(locks, a[1], a[2])>>)

IdsAre(q, S)   == q.bad = 0 /\ ToSet(q.ids) = S /\ Len(q.ids) = Cardinality(S)
CoinsAre(q, S) == q.bad = 0 /\ q.c = CoinsIn(locks, S)
Expected(q) ==
    CASE q.n = "PeriodLocks"                        -> QPeriodLocks(locks)
      [] q.n = "AccountPeriodLocks"                 -> QAccountPeriodLocks(locks, q.o)
      [] q.n = "AccountUnlockableCoins"             -> QAccountUnlockable(locks, now, q.o)
      [] q.n = "AccountUnlockingCoins"              -> QAccountUnlocking(locks, now, q.o)
      [] q.n = "AccountLockedCoins"                 -> QAccountLocked(locks, now, q.o)
      [] q.n = "AccountLockedPastTime"              -> QAccountPastTime(locks, now, q.o, q.x)
      [] q.n = "AccountLockedPastTimeNotUnlockingOnly" -> QAccountPastTimeNU(locks, now, q.o, q.x)
      [] q.n = "AccountUnlockedBeforeTime"          -> QAccountBeforeTime(locks, now, q.o, q.x)
      [] q.n = "AccountLockedPastTimeDenom"         -> QAccountPastTimeDenom(locks, now, q.o, q.d, q.x)
      [] q.n = "AccountLockedDurationNotUnlockingOnly" -> QAccountDurationNUDenom(locks, q.o, q.d, q.x)
      [] q.n = "AccountLockedLongerDuration"        -> QAccountLonger(locks, q.o, q.x)
      [] q.n = "AccountLockedDuration"              -> QAccountDuration(locks, q.o, q.x)
      [] q.n = "AccountLockedLongerDurationNotUnlockingOnly" -> QAccountLongerNU(locks, q.o, q.x)
      [] q.n = "AccountLockedLongerDurationDenom"   -> QAccountLongerDenom(locks, q.o, q.d, q.x)
      [] q.n = "AccountLockedLongerDurationDenomNotUnlockingOnly" -> QAccountLongerDenomNU(locks, q.o, q.d, q.x)
      [] q.n = "LocksPastTimeDenom"                 -> QPastTimeDenom(locks, now, q.d, q.x)
      [] q.n = "LocksDenom"                         -> QLongerDenom(locks, q.d, 0)
      [] q.n = "LocksLongerThanDurationDenom"       -> QLongerDenom(locks, q.d, q.x)
      [] q.n = "ModuleLockedCoins"                  -> QModuleLocked(locks, now)
      [] q.n = "ModuleBalance"                      -> Ids
      [] q.n = "LockedDenom"                        -> QLongerDenom(locks, q.d, q.x)
      [] q.n = "LockByID"                           -> Ids \cap {q.x}
      [] q.n = "LockRewardReceiver"                 -> Ids \cap {q.x}

CoinQueries == {"AccountUnlockableCoins", "AccountUnlockingCoins", "AccountLockedCoins", "ModuleLockedCoins", "ModuleBalance"}

QueryOK(q) ==
    IF q.n \in CoinQueries THEN CoinsAre(q, Expected(q))
    ELSE IF q.n = "LockedDenom" THEN q.bad = 0 /\ q.v = AmountIn(locks, Expected(q), q.d)
    ELSE IF q.n = "LockRewardReceiver"
         THEN q.bad = 0 /\ (IF q.x \in Ids
                            THEN q.v = 1 /\ q.o = (IF locks[q.x].rr = "" THEN locks[q.x].owner ELSE locks[q.x].rr)
                            ELSE q.v = 0)
    ELSE IF q.n = "LockByID" THEN q.bad = 0 /\ (q.v = 1 <=> q.x \in Ids) /\ ToSet(q.ids) = Expected(q)
    ELSE IdsAre(q, Expected(q))

\* every by-owner / by-denom / by-duration / by-time query returns exactly the matching locks
ObservedQueries == \A i \in DOMAIN obs.q :
    Say(QueryOK(obs.q[i]), <<"query", obs.q[i], "expected", Expected(obs.q[i]),
                             IF obs.q[i].n \in CoinQueries THEN CoinsIn(locks, Expected(obs.q[i])) ELSE <<>> >>)
=============================================================================
