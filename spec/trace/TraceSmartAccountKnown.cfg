SPECIFICATION TraceSpec
CONSTANTS
  ConfirmAfterFailedExec = TRUE
  FeeWithoutSequence = TRUE
CONSTRAINT Mark
POSTCONDITION Accepted
INVARIANTS IdsUnique RegWellFormed AuthenticatePure StoresConsistent NoCallsWhileInactive TrackOnlyAfterAuth TxIdsFresh
PROPERTIES OwnerOnly IdsIncrease IdsKept FrozenWhileInactive NeverTakenBack FailedTxKeepsNothing
CHECK_DEADLOCK FALSE
