--------------------------- MODULE TraceSuperfluid ---------------------------
(* Trace validation for C11.  Every line of a recorded execution of the real     *)
(* superfluid / lockup message servers, the lockup end blocker, pool swaps and   *)
(* whole-application begin blockers (full app) is one call at its return:        *)
(*   cfg  a new history: owners, validators, share denominations (which are CL   *)
(*        ones), unbonding time, minimum risk factor, base units per counted      *)
(*        unit of each denomination                                              *)
(*   op   a call (name, arguments, ok, ids the code handed out, whether the      *)
(*        block started an epoch)                                                *)
(* and carries what the harness read back afterwards: every lock record, owner   *)
(* balances, the lockup module account, all synthetic locks, all intermediary    *)
(* accounts and lock connections, the staking delegation of every intermediary   *)
(* account (validator tokens from shares), the stored multipliers, the live pool *)
(* state, and bank supply / supply offset / supply-with-offset of the bond denom.*)
(*                                                                               *)
(* The specification state evolves by Superfluid's actions; the arguments, the   *)
(* ids and gauge ids allocated by the code, the stake after a between-epoch      *)
(* conversion and the bank supply after minting / burning come from the log      *)
(* (the properties bound them); everything else - markers, connections, lock     *)
(* records, the stake after an epoch, multipliers between epochs - is computed    *)
(* and compared by the Observed* invariants.  A successful call that is not      *)
(* enabled in the specification (BeginUnlocking of a delegated lock, a payout    *)
(* while a marker runs, ...) rejects the trace.                                  *)
EXTENDS Superfluid, TraceLib

VARIABLES l,     \* lines consumed
          obs,   \* the last line consumed
          conf   \* the cfg line of the running history

tvars == <<allvars, l, obs, conf>>

B == INSTANCE BigNum
BAdd(a, b) == B!Add(a, b)
BSub(a, b) == B!Sub(a, b)
BMul(a, b) == B!Mul(a, b)
BLe(a, b)  == B!Cmp(a, b) <= 0
BOfNat(n)  == B!OfInt(n)
BFloorDiv(a, b) == B!FloorDiv(a, b)
BScale     == B!Pow(B!OfInt(10), 18)

Ev == Log[l + 1]
ToSet(s) == {s[i] : i \in DOMAIN s}

LocksOf(seq) ==
    [id \in {seq[i].id : i \in DOMAIN seq} |->
        LET r == seq[CHOOSE i \in DOMAIN seq : seq[i].id = id] IN Lock(r.o, r.dur, r.end, r.c, r.rr)]

EnvOf(c) == [vals |-> ToSet(c.vals), unbond |-> c.unbond, risk |-> c.risk, unit |-> c.unit, cl |-> ToSet(c.cl)]

\* what the log shows of the superfluid state
SynthOf(e) == {Marker(s.id, s.k, s.d, s.v, s.end, s.dur) : s \in ToSet(e.sf.synth)}
ConnOf(e)  == [id \in {c.id : c \in ToSet(e.sf.conn)} |->
                 LET c == CHOOSE x \in ToSet(e.sf.conn) : x.id = id IN <<c.d, c.v>>]
IARec(e, a) == CHOOSE x \in ToSet(e.sf.ias) : x.d = a[1] /\ x.v = a[2]
IAKeys(e)  == {<<x.d, x.v>> : x \in ToSet(e.sf.ias)}
IAsOf(e)   == [a \in IAKeys(e) |-> IARec(e, a).g]
DelegOf(e) == [a \in IAKeys(e) |-> IARec(e, a).deleg]
StakeOf(e, a) == IF a \in IAKeys(e) THEN IARec(e, a).deleg ELSE B!Zero
GaugeOf(e, a) == IF a \in IAKeys(e) THEN IARec(e, a).g ELSE 0
SupplyOf(e) == [raw |-> e.sf.supply.raw, off |-> e.sf.supply.off]

StartFrom(e) ==
    /\ locks = [x \in {} |-> 0]
    /\ bal = e.st.bal
    /\ modBal = e.st.mod
    /\ now = e.st.now
    /\ lastId = e.st.lastId
    /\ refs = {}
    /\ accum = [x \in {} |-> 0]
    /\ op = "init"
    /\ synth = {} /\ conn = EmptyF /\ ias = EmptyF /\ deleg = EmptyF /\ slack = EmptyF /\ base = EmptyF
    /\ mult = e.sf.mult
    /\ pool = e.sf.pool
    /\ supply = SupplyOf(e)
    /\ env = EnvOf(e)

TraceInit ==
    /\ HWInit
    /\ l = 1
    /\ Log[1].e = "cfg"
    /\ obs = Log[1]
    /\ conf = Log[1]
    /\ StartFrom(Log[1])

TReset ==
    /\ Ev.e = "cfg"
    /\ locks' = [x \in {} |-> 0]
    /\ bal' = Ev.st.bal
    /\ modBal' = Ev.st.mod
    /\ now' = Ev.st.now
    /\ lastId' = Ev.st.lastId
    /\ refs' = {}
    /\ accum' = [x \in {} |-> 0]
    /\ op' = "init"
    /\ synth' = {} /\ conn' = EmptyF /\ ias' = EmptyF /\ deleg' = EmptyF /\ slack' = EmptyF /\ base' = EmptyF
    /\ mult' = Ev.sf.mult
    /\ pool' = Ev.sf.pool
    /\ supply' = SupplyOf(Ev)
    /\ env' = EnvOf(Ev)
    /\ conf' = Ev

CoinsArg(e) == IF e.amt = 0 THEN ZeroCoins ELSE One(e.d, e.amt)
ObservedIds(e) == {e.st.locks[i].id : i \in DOMAIN e.st.locks}
AmountLogged(e, id) == LET r == CHOOSE x \in ToSet(e.st.locks) : x.id = id IN r.c[e.d]

\* the account a successful call delegated through / took stake from
AcctOfLock(id) == IF id \in DOMAIN conn THEN conn[id] ELSE <<"", "">>

\* the lockup end blocker has no error path: it must succeed; it pays out no lock whose marker still runs
Sweep(e) ==
    /\ Chk("lockup end blocker succeeds", e.ok)
    /\ Chk(<<"no payout of a lock whose unbonding marker has not matured", MaturedIds>>,
           \A id \in MaturedIds : MarkersOf(id) \subseteq DeadMarkers)
    /\ SFSweep

\* the property's refusals, named: a successful lockup call on a lock the superfluid module holds
Held(id) == id \in Ids /\ MarkersOf(id) # {}
NotHeld(what, id) == Chk(<<what, "succeeded on a lock with a superfluid marker", id, MarkersOf(id)>>, ~Held(id))

\* a block: the begin blockers must succeed; it starts an epoch iff the epochs keeper says so
Block(e) ==
    /\ Chk("begin blockers succeed", e.ok)
    /\ IF e.tick
       THEN /\ \A d \in SFDenoms : Chk(<<"multiplier is the pool's OSMO per share", d, e.sf.mult[d], pool[d]>>,
                                        MultFromPool(e.sf.mult[d], pool[d]))
            /\ Epoch(e.x, e.sf.mult, SupplyOf(e))
       ELSE SFAdvance(e.x)

\* a swap that failed changed nothing; one that succeeded moved (only) the pool
Swap(e) == IF e.ok THEN PriceMove(e.d, e.sf.pool[e.d]) ELSE SFRefused

Call(e) ==
    IF e.a = "endblock" THEN Sweep(e)
    ELSE IF e.a = "block" THEN Block(e)
    ELSE IF e.a = "swap" THEN Swap(e)
    ELSE IF ~e.ok THEN SFRefused
    ELSE CASE e.a = "lock" ->
                SFLockTokens(e.o, e.d, e.x, e.amt, e.rid, StakeOf(e, AcctOfLock(e.rid)), SupplyOf(e))
           [] e.a = "add" ->
                SFAddTokens(e.id, e.o, e.d, e.amt, StakeOf(e, AcctOfLock(e.id)), SupplyOf(e))
           [] e.a = "sfdelegate" ->
                SFDelegate(e.id, e.o, e.v, GaugeOf(e, <<e.d, e.v>>), StakeOf(e, <<e.d, e.v>>), SupplyOf(e))
           [] e.a = "sfundelegate" ->
                SFUndelegate(e.id, e.o, StakeOf(e, AcctOfLock(e.id)), SupplyOf(e))
           [] e.a = "sfunbond" -> SFUnbondLock(e.id, e.o)
           [] e.a = "sfundelunbond" ->
                SFUndelegateAndUnbond(e.id, e.o, e.amt, e.rid, StakeOf(e, AcctOfLock(e.id)), SupplyOf(e))
           [] e.a = "locksfdelegate" ->
                SFLockAndDelegate(e.o, e.d, e.amt, e.v, e.rid, GaugeOf(e, <<e.d, e.v>>), StakeOf(e, <<e.d, e.v>>), SupplyOf(e))
           [] e.a = "clcreate" ->
                CLCreateAndDelegate(e.o, e.d, AmountLogged(e, e.rid), e.v, e.rid, GaugeOf(e, <<e.d, e.v>>),
                                    StakeOf(e, <<e.d, e.v>>), SupplyOf(e), e.sf.pool[e.d])
           [] e.a = "cladd" ->
                CLAddToPosition(e.id, e.o, AmountLogged(e, e.rid), e.rid, StakeOf(e, AcctOfLock(e.id)), SupplyOf(e), e.sf.pool[e.d])
           [] e.a = "begin"    -> NotHeld("MsgBeginUnlocking", e.id) /\ SFBeginUnlock(e.id, e.o, CoinsArg(e), e.rid)
           [] e.a = "beginall" -> /\ \A id \in Ids : (locks[id].owner = e.o /\ ~Unlocking(locks[id])) => NotHeld("MsgBeginUnlockingAll", id)
                                  /\ SFBeginUnlockAll(e.o)
           [] e.a = "extend"   -> NotHeld("MsgExtendLockup", e.id) /\ SFExtend(e.id, e.o, e.x)
           [] e.a = "unlock"   -> /\ NotHeld("UnlockMaturedLock", e.id)
                                  /\ Chk(<<"payout before unlock start + duration", e.id>>, e.id \in Ids => Matured(e.id))
                                  /\ SFUnlock(e.id)
           [] e.a = "force"    -> NotHeld("MsgForceUnlock", e.id) /\ SFForce(e.id, e.o, CoinsArg(e), e.rid, ToSet(conf.allowed))
           [] e.a = "fund"     -> FundSupply(SupplyOf(e))
           \* a validator jailed without slash, or released: nothing the property speaks of moves
           [] e.a \in {"jail", "unjail"} -> SFRefused

TStep ==
    /\ Ev.e = "op"
    /\ Call(Ev)
    /\ UNCHANGED conf

TraceNext ==
    /\ l < NLines
    /\ (TReset \/ TStep)
    /\ obs' = Ev
    /\ l' = l + 1

TraceSpec == TraceInit /\ [][TraceNext]_tvars

Mark == HWMark(l)
Accepted == HWAccepted

---------------------------------------------------------------------------
(* what the real code showed after the call = what the specification holds *)
Say(ok, what) == ok \/ (PrintT(<<"MISMATCH", l, what>>) /\ FALSE)

\* every lock record: id, owner, duration, end time, coins
ObservedLocks == Say(locks = LocksOf(obs.st.locks), <<"lock records", locks, LocksOf(obs.st.locks)>>)

\* time; owner balances of the denominations owners can hold; the lockup module account
ObservedBalances ==
    /\ now = obs.st.now
    /\ \A o \in Owners : \A d \in Denoms \ env.cl :
          Say(bal[o][d] = obs.st.bal[o][d], <<"owner balance", o, d, bal[o][d], obs.st.bal[o][d]>>)
    /\ Say(obs.st.mod = [d \in Denoms |-> AmountIn(locks, Ids, d)], <<"lockup module account", obs.st.mod>>)

\* the synthetic locks in the lockup store are exactly the markers of the specification:
\* one bonded marker per delegated lock, one unbonding marker per undelegating lock ending at
\* undelegation time + unbonding period
ObservedMarkers ==
    /\ Say(SynthOf(obs) = synth, <<"synthetic locks: missing", synth \ SynthOf(obs), "unexpected", SynthOf(obs) \ synth>>)
    /\ Say(Len(obs.sf.synth) = Cardinality(synth), <<"duplicate synthetic locks", obs.sf.synth>>)

\* lock -> intermediary account connections and the intermediary accounts themselves
ObservedConnections ==
    /\ Say(ConnOf(obs) = conn, <<"connections", conn, ConnOf(obs)>>)
    /\ Say(Len(obs.sf.conn) = Cardinality(DOMAIN conn), <<"duplicate connections", obs.sf.conn>>)
    /\ Say(IAsOf(obs) = ias, <<"intermediary accounts", ias, IAsOf(obs)>>)

\* the stake of every intermediary account with its validator (exactly Expected after an epoch:
\* the Epoch action computed it), whole tokens at exchange rate 1
ObservedStake ==
    /\ \A a \in Accounts : Say(a \in IAKeys(obs) /\ B!Eq(IARec(obs, a).deleg, deleg[a]) /\ IARec(obs, a).frac = 0,
                               <<"stake of", a, "specification", deleg[a], "staking keeper", IF a \in IAKeys(obs) THEN IARec(obs, a) ELSE "none">>)
    /\ IAKeys(obs) = Accounts

\* the stored multipliers (they only move at an epoch, to the pool's OSMO per share)
ObservedMultipliers == Say(obs.sf.mult = mult, <<"multipliers", mult, obs.sf.mult>>)

\* the live pool state moves only with swaps and new positions
ObservedPools == Say(obs.sf.pool = pool, <<"pools", pool, obs.sf.pool>>)

\* bank supply and offset move only with superfluid minting / burning (and the driver's funding)
ObservedSupply ==
    /\ Say(SupplyOf(obs) = supply, <<"bank supply", supply, SupplyOf(obs)>>)
    /\ Say(B!Eq(obs.sf.supply.rep, Reported(supply)), <<"GetSupplyWithOffset", obs.sf.supply.rep, Reported(supply)>>)

\* the code's own GetExpectedDelegationAmount (from its accumulation store of synthetic denoms)
\* agrees with the value of the lock records connected to the account
ObservedExpectedQuery ==
    \A a \in Accounts : a \in IAKeys(obs) =>
        Say(IARec(obs, a).expok = 1 /\ B!Eq(IARec(obs, a).exp, Expected(a)),
            <<"GetExpectedDelegationAmount of", a, IARec(obs, a).exp, "value of connected locks", Expected(a), Total(a)>>)

=============================================================================
