SPECIFICATION TraceSpec
CONSTANTS
  NAdd <- BAdd
  NSub <- BSub
  NMul <- BMul
  NLe <- BLe
  NFloorDiv <- BFloorDiv
  NZero <- BZero
  NUnit <- BUnit
CONSTRAINT Mark
POSTCONDITION Accepted
INVARIANTS Conservation NothingVanishes NonNegative AccrNonNegative SkimBacked CacheCoherent AgreementsWellFormed NoStrandedStakers NoStrandedBurn NoStrandedCommunity NoLeakedAgreement OneView NoLostAccumulator NoBurntCoins NoLostRegistration
PROPERTIES QuietBetweenEpochs TrackersMonotone TrackersMatchDeliveries SkimExactlyOnce CollectorEmptied SourcesEmptied NothingStranded SmoothingExact BufferOnlyGrowsOtherwise
CHECK_DEADLOCK FALSE
