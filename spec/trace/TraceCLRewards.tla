--------------------------- MODULE TraceCLRewards ---------------------------
(* Trace validation for C08 (spread rewards and incentives reach exactly the  *)
(* liquidity that earned them) on recorded histories of a real pool.          *)
(*                                                                           *)
(* Spread rewards - exact accrual oracle.  For every executed swap the exact  *)
(* curve walker (CLSwapIdeal) yields, per bucket touched, the fee charged and *)
(* the liquidity that was active; ghost E[id] accumulates for every position  *)
(*     fee_bucket * liq_id / liq_active   for the buckets it was in range.    *)
(* C[id] = claimable now + everything it collected so far must stay within    *)
(*     E[id] (1 - eps) - D[id] - 2 n[id] - 2  <=  C[id]  <=  E[id] (1 + eps) + D[id] + 2 n[id] + 2 *)
(* where n[id] counts the accrual / claim events that touched the position    *)
(* and D[id] is the accumulated truncation of the per-unit-liquidity growth   *)
(* (liq_id * ulp of the accumulator per bucket) plus 2e-18 of the amount       *)
(* charged per touching swap (the code's fee ratio f/(1-f) is an 18-decimal     *)
(* Dec rounded up).  A position that was never                                  *)
(* in range while fees accrued has E = 0 and must have C = 0 exactly.         *)
(* Collecting, adding to, partially withdrawing and transferring leave E      *)
(* untouched, so they can neither lose nor duplicate matured rewards.         *)
(* On pools on the old side of the scaling migration the sub-unit remainder   *)
(* of every claim is added back to the accumulator (divided by all remaining   *)
(* shares): positions in range at that moment are re-credited liq/shares of    *)
(* less than one unit (ghost RD, upper side only) - found when the recorder    *)
(* planted large in-range positions; E = 0 and RD = 0 => exactly nothing.      *)
(*                                                                           *)
(* Incentives.  The driver binds each incentive denom to one minimum uptime   *)
(* per history (cfg.incUp).  Checked: a position younger than the uptime of a *)
(* denom can claim nothing of it (it is reported as forfeitable instead) and  *)
(* collects nothing of it; a position never in range since it was created     *)
(* has no incentives at all; everything emitted stays accounted for:          *)
(*   incBal - (claimable + forfeitable + undistributed) is bounded dust.      *)
(*                                                                           *)
(* Incentives - exact accrual oracle (ghost G).  Between two logged events    *)
(* the pool is constant, so over [prev.t, st.t] every live record r (ghost    *)
(* list G.rec: denom, rate per second, start, ideal remainder - taken from    *)
(* the CreateIncentive call, never from the stored records) emits             *)
(*     e_r = min(rate_r * overlap([prev.t, st.t], [start_r, inf)), rem_r)     *)
(* when the active liquidity L of prev is >= 1 (with less nothing is emitted   *)
(* and the record keeps its remainder, as documented), and every position     *)
(* in range in prev ideally accrues e_r * liq / L:   G.ia[id][denom].         *)
(* A position younger than the denom's uptime that collects / is withdrawn /  *)
(* is added to FORFEITS what it ideally accrued since its last settlement     *)
(* (ia - ic); that amount is ideally re-distributed over the liquidity active *)
(* AFTER the operation (the remainder of the forfeiting position included,    *)
(* the position created by add-to-position excluded), pro rata; when less     *)
(* than one unit of liquidity is active it is paid to the owner instead.      *)
(* Real side: C = claimable + forfeitable now + everything that ever left the *)
(* position (G.ip: collected or forfeited, from the claimable query taken at  *)
(* the same block time, tied to the owner's balance change).  Required        *)
(*     ia - dust  <=  C  <=  ia + u                                           *)
(* dust[id][denom] (derived from the code's truncations, calibrated):         *)
(*   + (liq * ulp + 1e-18) per live record of the denom at every persisted    *)
(*     accumulator update while in range (emitted * scale / L is truncated at *)
(*     18 decimals: ulp = 1e-18 / scale tokens per unit of liquidity; rate *  *)
(*     elapsed is truncated at 1e-18), the same once more for the pending     *)
(*     update the claimable query performs;                                   *)
(*   + 1 per claim and 1 for the pending query (truncation to whole tokens);  *)
(*   + per re-distribution received: liq * ulp + (liq / L') * dust of the     *)
(*     forfeiting position (its real forfeit may fall short by that much).    *)
(* u = 1e-18 per record and update: truncating rate * elapsed delays emission *)
(* by less than that, nothing else in the code rounds in a position's favour. *)
(* Calibration (unchanged tree; seeds 1-5 quick: 4.1e5 judgements, thorough:   *)
(* 2.8e6): C never exceeded ia at all; worst slack / dust where the ulp term   *)
(* dominates (dust >= 10 tokens): 0.73 quick, 0.96 thorough; where whole-token *)
(* truncation dominates: 0.999 (999 of 1000 paid).  The bound is the worst     *)
(* case of the truncations, no safety factor is applied on top of it.          *)
(* StartClip = TRUE is the property (a record emits from its start time on);  *)
(* StartClip = FALSE replaces the overlap by what the code is known to do     *)
(* (finding C08 'incentive emits for time before its start': the first update *)
(* after the start emits for the whole time since the previous update, never  *)
(* for time before the record was created) so that everything else stays      *)
(* checked on histories showing that deviation.                               *)
EXTENDS CLSwapIdeal, TraceLib

CONSTANT StartClip

VARIABLES l, prev, conf,
          E,      \* id -> <<rational, rational>>   ideal spread rewards earned, per pool token
          P,      \* id -> <<BigNum, BigNum>>       spread rewards collected so far
          N,      \* id -> Nat                      accrual / claim events
          D,      \* id -> rational                 accumulated growth-truncation allowance
          RD,     \* id -> rational                 share of other positions' claim dust the code re-credited to it (upper side only)
          inRangeEver,  \* id -> BOOLEAN            was in range at some logged state since creation
          incAllow,     \* rational: accumulated truncation allowance of the incentive accumulators
          G             \* ghost of the incentive accrual oracle (see IncG0)

Ev == Log[l + 1]
IdxOf(seq, Q(_)) == CHOOSE k \in 1..Len(seq) : Q(seq[k])
PosIds(st) == {st.pos[k].id : k \in 1..Len(st.pos)}
PosOf(st, i) == st.pos[IdxOf(st.pos, LAMBDA p : p.id = i)]

CurveOf(st) ==
    LET tks == {st.ticks[k].t : k \in 1..Len(st.ticks)}
        T(t) == st.ticks[IdxOf(st.ticks, LAMBDA x : x.t = t)]
    IN  [sqrt |-> RScaled(st.sqrt, 36), liq |-> RScaled(st.liq, 18), tick |-> st.tick,
         ticks |-> [t \in tks |-> [net |-> RScaled(T(t).net, 18), sqrt |-> RScaled(T(t).sqrt, 36)]],
         f |-> RScaled(conf.f, 18), lo |-> RScaled(conf.minSqrt, 36), hi |-> RScaled(conf.maxSqrt, 36)]

InIdx(zfo)  == IF zfo THEN 1 ELSE 2
OutIdx(zfo) == IF zfo THEN 2 ELSE 1
Charged(st, who, zfo) == B!Sub(prev.userBal[who][InIdx(zfo)], st.userBal[who][InIdx(zfo)])
Paid(st, who, zfo)    == B!Sub(st.userBal[who][OutIdx(zfo)], prev.userBal[who][OutIdx(zfo)])

Eps == <<B!One, B!Pow(B!OfInt(10), 12)>>                    \* relative slack 1e-12
FeeMult == B!Add(B!One, B!FloorDiv(conf.f, B!Sub(B!Pow(B!OfInt(10), 18), conf.f)))
LargeF == B!Ge(conf.f, B!Mul(B!OfInt(5), B!Pow(B!OfInt(10), 17)))
\* truncation unit of the spread-reward accumulator, in tokens per unit of liquidity
UlpFee == IF conf.scaledFee THEN RScaled(B!One, 45) ELSE RScaled(B!One, 18)

Active(p, s) == p.lo <= s.at /\ s.at < p.hi /\ RPos(s.liq)
Touch(p, steps) == Cardinality({k \in 1..Len(steps) : Active(p, steps[k]) /\ RPos(steps[k].fee)})

\* ideal accrual of a swap for position p
RECURSIVE AccrualFrom(_, _, _)
AccrualFrom(p, steps, i) ==
    IF i > Len(steps) THEN RZero
    ELSE RAdd(IF Active(p, steps[i]) THEN RDiv(RMul(steps[i].fee, RScaled(p.liq, 18)), steps[i].liq) ELSE RZero,
              AccrualFrom(p, steps, i + 1))
Accrual(p, steps) == RNorm(AccrualFrom(p, steps, 1))

\* the fee is charged on the way in, for both swap kinds: distribute what was actually charged
\* along the exact curve (walking by the delivered amount would be ill-conditioned when an
\* exact-out swap drains a range: the last unit out can cost almost the whole input)
WalkOf(ev) == IdealIn(CurveOf(prev), ev.args.zfo, RInt(Charged(ev.st, ev.who, ev.args.zfo)))

Pair(a, b) == <<a, b>>
ZeroE == <<RZero, RZero>>
ZeroP == <<B!Zero, B!Zero>>

InRangeNow(st, p) == p.lo <= st.tick /\ st.tick < p.hi

\* ghost update for one logged operation ---------------------------------------------
NewIds(st) == PosIds(st) \ DOMAIN E
AllIds(st) == DOMAIN E \cup PosIds(st)

FeeDrop(st, d) == B!Sub(prev.feeBal[d], st.feeBal[d])       \* what left the spread-reward account

\* positions an operation collects spread rewards for (everything leaving the account is theirs)
Collector(ev) ==
    IF ~ev.ok THEN {}
    ELSE IF ev.op \in {"collectFee", "withdraw", "add", "transfer"} THEN {ev.args.id}
    ELSE {}

NextE(ev) ==
    LET st == ev.st
        steps == IF ev.op = "swap" /\ ev.ok THEN WalkOf(ev).steps ELSE <<>>
        d == IF ev.op = "swap" /\ ev.ok THEN InIdx(ev.args.zfo) ELSE 1
    IN  [i \in AllIds(st) |->
            IF i \notin DOMAIN E THEN ZeroE
            ELSE IF steps = <<>> \/ i \notin PosIds(prev) THEN E[i]
            ELSE LET a == Accrual(PosOf(prev, i), steps)
                 IN  IF d = 1 THEN <<RNorm(RAdd(E[i][1], a)), E[i][2]>> ELSE <<E[i][1], RNorm(RAdd(E[i][2], a))>>]

NextP(ev) ==
    [i \in AllIds(ev.st) |->
        IF i \notin DOMAIN P THEN ZeroP
        ELSE IF i \in Collector(ev) THEN <<B!Add(P[i][1], FeeDrop(ev.st, 1)), B!Add(P[i][2], FeeDrop(ev.st, 2))>>
        ELSE P[i]]

NextN(ev) ==
    LET steps == IF ev.op = "swap" /\ ev.ok THEN WalkOf(ev).steps ELSE <<>> IN
    [i \in AllIds(ev.st) |->
        IF i \notin DOMAIN N THEN 0
        ELSE N[i] + (IF i \in Collector(ev) THEN 1 ELSE 0)
                  + (IF steps # <<>> /\ i \in PosIds(prev) THEN Touch(PosOf(prev, i), steps) ELSE 0)
                  \* with a spread factor of one half or more, every bucket the swap traversed BEFORE this position's may have
                  \* charged up to 1/(1-f) units more than the curve (one unit of rounding in the curve amount), which the
                  \* position's bucket is then short of, and f of it is spread reward: one more event per bucket of the swap
                  + (IF steps # <<>> /\ i \in PosIds(prev) /\ LargeF /\ Touch(PosOf(prev, i), steps) > 0 THEN Len(steps) ELSE 0)]

NextD(ev) ==
    LET steps == IF ev.op = "swap" /\ ev.ok THEN WalkOf(ev).steps ELSE <<>> IN
    [i \in AllIds(ev.st) |->
        IF i \notin DOMAIN D THEN RZero
        ELSE IF steps = <<>> \/ i \notin PosIds(prev) THEN D[i]
        ELSE LET p == PosOf(prev, i)
                 k == Touch(p, steps)
                 \* the code charges a fully traversed bucket in * Dec(f/(1-f)) with the ratio rounded up at 1e-18:
                 \* per bucket up to in * 1e-18 tokens more than the exact fee, which also shifts what is left for
                 \* the later buckets; bounded by 2e-18 of the amount charged, per swap that touches the position
                 ratioSlack == IF k > 0 THEN RScaled(B!Mul(B!OfInt(2), Charged(ev.st, ev.who, ev.args.zfo)), 18) ELSE RZero
             IN  RNorm(RAdd(RAdd(D[i], ratioSlack), RMul(RInt(B!OfInt(k)), RMul(RScaled(p.liq, 18), UlpFee))))]

\* Pools on the old side of the spread-factor scaling migration do not drop the sub-unit remainder of a claim:
\* prepareClaimableSpreadRewards adds it back to the accumulator divided by the total shares that remain, so every
\* position in range at that moment is credited liq / total shares of (less than) one unit per pool token.
FeeClaim(ev) == ev.ok /\ (ev.op \in {"collectFee", "add"} \/ (ev.op = "withdraw" /\ ev.args.liq = PosOf(prev, ev.args.id).liq))
NextRD(ev) ==
    LET st == ev.st
        skip(i) == ev.op = "add" /\ i = ev.res.id          \* created after the claim of add-to-position
        tot == B!Sum([j \in 1..Len(st.pos) |-> IF skip(st.pos[j].id) THEN B!Zero ELSE st.pos[j].liq])
    IN  [i \in AllIds(st) |->
            LET old == IF i \in DOMAIN RD THEN RD[i] ELSE RZero IN
            IF ~conf.scaledFee /\ FeeClaim(ev) /\ i \in PosIds(st) /\ ~skip(i) /\ InRangeNow(st, PosOf(st, i)) /\ tot.s > 0
            THEN RNorm(RAdd(old, <<PosOf(st, i).liq, tot>>)) ELSE old]

NextInRange(ev) ==
    [i \in AllIds(ev.st) |->
        (IF i \in DOMAIN inRangeEver THEN inRangeEver[i] ELSE FALSE)
        \/ (i \in PosIds(ev.st) /\ InRangeNow(ev.st, PosOf(ev.st, i)))
        \/ (i \in PosIds(prev) /\ ev.op = "swap" /\ ev.ok /\
              \E k \in 1..Len(WalkOf(ev).steps) : Active(PosOf(prev, i), WalkOf(ev).steps[k]))]

\* the checks ---------------------------------------------------------------------
Claimable(st, i, d) == IF i \in PosIds(st) THEN PosOf(st, i).fee[d] ELSE B!Zero

\* one unit of rounding in the amount that reaches the curve carries f/(1-f) units of spread reward: the per-event
\* allowance is counted in units of 1 + floor(f/(1-f)) (one for every spread factor below one half, 20 for 0.95)
FeeBoundsOK(st, e, p, n, dd, rd) ==
    \A i \in DOMAIN e : \A d \in 1..2 :
        LET c  == RInt(B!Add(Claimable(st, i, d), p[i][d]))
            ee == e[i][d]
            k  == RInt(B!Mul(B!OfInt(2 * n[i] + 2), FeeMult))
            ok == /\ ((RIsZero(ee) /\ RIsZero(rd[i])) => RIsZero(c))                    \* never earned (nor re-credited claim dust) => nothing
                  /\ RLe(c, RAdd(RAdd(RAdd(RMul(ee, RAdd(ROne, Eps)), dd[i]), k), rd[i]))   \* never more than earned
                  /\ RLe(RSub(RSub(RMul(ee, RSub(ROne, Eps)), dd[i]), k), c)            \* short only by dust
        IN  ok \/ (PrintT(<<"FEE-BOUNDS", [id |-> i, denom |-> d, claimablePlusPaid |-> B!ToInt(B!Min(RFloor(c), B!OfInt(2000000000))),
                                          earnedFloor |-> RFloor(ee), dustFloor |-> RFloor(dd[i]), events |-> n[i]]>>) /\ FALSE)

\* incentives: denoms 3,4 (inca, incb) are bound to one minimum uptime each (ms)
UpOf(d) == conf.incUpMs[d - 2]
IncOK(ev) ==
    LET st == ev.st IN
    /\ \A k \in 1..Len(st.pos) : LET p == st.pos[k] IN
         /\ \A d \in 3..4 : (st.t - p.join < UpOf(d) \/ (UpOf(d) = 0 /\ st.t = p.join)) => p.inc[d].s = 0
         /\ (p.id \in DOMAIN inRangeEver' /\ ~inRangeEver'[p.id]) => \A d \in 1..4 : p.inc[d].s = 0 /\ p.forf[d].s = 0
         /\ \A d \in 1..2 : p.inc[d].s = 0 /\ p.forf[d].s = 0           \* pool tokens are never incentive denoms here
    /\ (ev.op = "collectInc" /\ ev.ok) =>
         LET p == PosOf(prev, ev.args.id) IN
         \A d \in 3..4 : (st.t - p.join < UpOf(d) \/ (UpOf(d) = 0 /\ st.t = p.join)) => ev.res.got[d].s = 0

\* everything emitted stays accounted for: account = claimable + forfeitable + undistributed + dust
UlpInc == IF conf.scaledInc THEN RScaled(B!One, 45) ELSE RScaled(B!One, 18)
\* allowance added by one operation: every accrual truncates (emitted / active liquidity) per record,
\* every claim truncates the forfeited amount per unit of liquidity and the payout
StepAllow(ev) ==
    LET L == RScaled(prev.liq, 18)
        perRec == RAdd(RMul(L, UlpInc), ROne)
        nrec == Len(prev.recs) + Len(ev.st.recs) + 1
        \* claimable amounts are computed with accrual brought up to NOW, so elapsed time alone truncates too
        accr == IF ev.st.lastUp # prev.lastUp \/ ev.st.t # prev.t \/ ev.op \in {"collectInc", "withdraw", "add", "create", "swap"}
                THEN RMul(RInt(B!OfInt(2 * nrec)), perRec) ELSE RZero
    IN  accr

IncAccounted(st, allow) ==
    \A d \in 3..4 :
        LET owed == B!Add(B!Sum([k \in 1..Len(st.pos) |-> B!Add(st.pos[k].inc[d], st.pos[k].forf[d])]),
                          B!FloorDiv(st.remNow[d], B!Pow(B!OfInt(10), 18)))
            slack == B!Sub(st.incBal[d], owed)
        IN  /\ slack.s >= 0
            /\ RLe(RInt(slack), RAdd(allow, ROne))

---------------------------------------------------------------------------
(* incentives: the exact accrual oracle *)
IncK == 1..2                                   \* k <-> incentive denom k + 2 of the log (inca, incb)
E18 == B!Pow(B!OfInt(10), 18)
HasLiq(st) == B!Ge(st.liq, E18)                \* the code emits / re-deposits only with active liquidity >= 1
LiqR(p) == RScaled(p.liq, 18)
InR(st, i) == i \in PosIds(st) /\ InRangeNow(st, PosOf(st, i))
Young(st, p, k) == st.t - p.join < conf.incUpMs[k] \/ (conf.incUpMs[k] = 0 /\ st.t = p.join)

RECURSIVE RSumFrom(_, _)
RSumFrom(s, i) == IF i > Len(s) THEN RZero ELSE RAdd(s[i], RSumFrom(s, i + 1))
RSumSeq(s) == RNorm(RSumFrom(s, 1))

IncG0 == [ia |-> <<>>,      \* id -> <<rational, rational>>  ideally accrued so far (re-distributions received included)
          ic |-> <<>>,      \* id -> <<rational, rational>>  ia at the last settlement (collect / withdraw / add)
          ip |-> <<>>,      \* id -> <<BigNum, BigNum>>      real amounts that left the position (paid out or forfeited)
          d  |-> <<>>,      \* id -> <<rational, rational>>  dust allowance
          nc |-> <<>>,      \* id -> Nat                     settlements so far
          rec |-> <<>>,     \* sequence of [id, k, rate, start, created, rem]   ideal incentive records
          u |-> RZero,      \* upper allowance
          dep |-> <<B!Zero, B!Zero>>, paid |-> <<B!Zero, B!Zero>>,      \* deposited by CreateIncentive / paid to owners
          nacc |-> 0, nint |-> 0, nforf |-> 0, nforfIdle |-> 0, nclaim |-> 0, nchk |-> 0, nquirk |-> 0,
          w |-> RZero, wbig |-> RZero, wabs |-> RZero]                  \* calibration: worst slack / dust

\* where the emission of record r over [a, b] starts (lu = time of the last persisted accumulator update)
EmitFrom(r, a, b, lu) ==
    IF StartClip THEN (IF r.start > a THEN r.start ELSE a)
    ELSE IF r.start < a THEN a
    ELSE IF r.start < b THEN (IF lu > r.created THEN lu ELSE r.created)
    ELSE b
EmitOf(r, a, b, lu) ==
    LET f == EmitFrom(r, a, b, lu) IN
    IF f >= b \/ ~RPos(r.rem) THEN RZero
    ELSE RMin(RMul(r.rate, <<B!OfInt(b - f), B!OfInt(1000)>>), r.rem)

Accrue(g, st) ==
    LET a == prev.t  b == st.t IN
    IF b <= a THEN g
    ELSE IF ~HasLiq(prev) THEN [g EXCEPT !.nint = @ + 1]
    ELSE LET n == Len(g.rec)
             em == [j \in 1..n |-> EmitOf(g.rec[j], a, b, prev.lastUp)]
             tot == [k \in IncK |-> RSumSeq([j \in 1..n |-> IF g.rec[j].k = k THEN em[j] ELSE RZero])]
             L == RScaled(prev.liq, 18)
         IN  [g EXCEPT !.rec = [j \in 1..n |-> [g.rec[j] EXCEPT !.rem = RNorm(RSub(g.rec[j].rem, em[j]))]],
                       !.ia = [i \in DOMAIN g.ia |->
                                  IF InR(prev, i)
                                  THEN [k \in IncK |-> IF RIsZero(tot[k]) THEN g.ia[i][k]
                                                       ELSE RNorm(RAdd(g.ia[i][k], RDiv(RMul(tot[k], LiqR(PosOf(prev, i))), L)))]
                                  ELSE g.ia[i]],
                       !.nint = @ + 1,
                       !.nacc = @ + Cardinality({j \in 1..n : RPos(em[j])}),
                       !.nquirk = @ + Cardinality({j \in 1..n : RPos(em[j]) /\ EmitFrom(g.rec[j], a, b, prev.lastUp) < a})]

\* stored records of incentive denom k that an update at time `now` emits for
LiveN(st, k, now) == Cardinality({j \in 1..Len(st.recs) : st.recs[j].denom = k + 1 /\ st.recs[j].start < now})
UnitDust(p) == RAdd(RMul(LiqR(p), UlpInc), RScaled(B!One, 18))
ClaimDust == RAdd(ROne, RScaled(B!One, 18))     \* truncation to whole tokens (< 1) after a product truncated at 1e-18

\* a persisted accumulator update (pool.LastLiquidityUpdate moved): one truncation per live record
SyncDust(g, st) ==
    IF st.lastUp = prev.lastUp \/ ~HasLiq(prev) THEN g
    ELSE [g EXCEPT !.d = [i \in DOMAIN g.d |->
                             IF InR(prev, i)
                             THEN [k \in IncK |-> RNorm(RAdd(g.d[i][k], RMul(RInt(B!OfInt(LiveN(prev, k, st.lastUp))), UnitDust(PosOf(prev, i)))))]
                             ELSE g.d[i]],
                  !.u = RNorm(RAdd(g.u, RScaled(B!OfInt(Len(prev.recs)), 18)))]

NewPos(g, st) ==
    LET ids == DOMAIN g.ia \cup PosIds(st)
        Ext(f, z) == [i \in ids |-> IF i \in DOMAIN f THEN f[i] ELSE z]
    IN  [g EXCEPT !.ia = Ext(g.ia, ZeroE), !.ic = Ext(g.ic, ZeroE), !.ip = Ext(g.ip, ZeroP), !.d = Ext(g.d, ZeroE), !.nc = Ext(g.nc, 0)]

ClaimOps == {"collectInc", "withdraw", "add"}
IsClaim(ev) == ev.ok /\ ev.op \in ClaimOps
\* the liquidity a forfeit is re-deposited to: in range after the operation; add-to-position re-deposits
\* before it creates the new position
Receivers(ev) == {i \in PosIds(ev.st) : InR(ev.st, i) /\ ~(ev.op = "add" /\ i = ev.res.id)}
RecvLiq(ev) == LET st == ev.st  rc == Receivers(ev) IN
               RSumSeq([j \in 1..Len(st.pos) |-> IF st.pos[j].id \in rc THEN LiqR(st.pos[j]) ELSE RZero])

Claim(g, ev) ==
    IF ~IsClaim(ev) THEN g
    ELSE LET st == ev.st
             p == ev.args.id
             pp == PosOf(prev, p)
             rc == Receivers(ev)
             L2 == RecvLiq(ev)
             active == RLe(ROne, L2)
             fi == [k \in IncK |-> RNorm(RSub(g.ia[p][k], g.ic[p][k]))]
             forf == [k \in IncK |-> Young(st, pp, k) /\ RPos(fi[k])]
             redis == [k \in IncK |-> forf[k] /\ active]
             dp == [k \in IncK |-> RAdd(g.d[p][k], ClaimDust)]
             share(i, x) == RDiv(RMul(x, LiqR(PosOf(st, i))), L2)
         IN  [g EXCEPT
                !.ia = [i \in DOMAIN g.ia |-> [k \in IncK |->
                           IF redis[k] /\ i \in rc THEN RNorm(RAdd(g.ia[i][k], share(i, fi[k]))) ELSE g.ia[i][k]]],
                !.ic = [i \in DOMAIN g.ic |-> IF i = p THEN g.ia[p] ELSE g.ic[i]],
                !.ip = [i \in DOMAIN g.ip |-> IF i = p THEN [k \in IncK |-> B!Add(g.ip[p][k], B!Add(pp.inc[k + 2], pp.forf[k + 2]))] ELSE g.ip[i]],
                !.d = [i \in DOMAIN g.d |-> [k \in IncK |->
                           LET base == IF i = p THEN dp[k] ELSE g.d[i][k] IN
                           IF redis[k] /\ i \in rc
                           THEN RNorm(RAdd(base, RAdd(RMul(LiqR(PosOf(st, i)), UlpInc), share(i, dp[k])))) ELSE base]],
                !.nc = [i \in DOMAIN g.nc |-> IF i = p THEN g.nc[i] + 1 ELSE g.nc[i]],
                !.paid = [k \in IncK |-> B!Add(g.paid[k], B!Sub(st.userBal[ev.who][k + 2], prev.userBal[ev.who][k + 2]))],
                !.nclaim = @ + 1,
                !.nforf = @ + Cardinality({k \in IncK : redis[k]}),
                !.nforfIdle = @ + Cardinality({k \in IncK : forf[k] /\ ~active})]

NewRec(g, ev) ==
    IF ~(ev.ok /\ ev.op = "incentive") THEN g
    ELSE LET k == ev.args.denom - 1 IN
         [g EXCEPT !.rec = Append(g.rec, [id |-> ev.res.id, k |-> k, rate |-> RScaled(ev.args.rate, 18), start |-> ev.args.start,
                                          created |-> ev.st.t, rem |-> RInt(ev.args.amt)]),
                   !.dep = [j \in IncK |-> IF j = k THEN B!Add(g.dep[j], ev.args.amt) ELSE g.dep[j]]]

\* judged quantities ------------------------------------------------------------------
CNow(g, st, i, k) == B!Add(g.ip[i][k], IF i \in PosIds(st) THEN B!Add(PosOf(st, i).inc[k + 2], PosOf(st, i).forf[k + 2]) ELSE B!Zero)
\* the claimable query brings accrual up to now on a branch (one more truncation per live record) and truncates to whole tokens
Pend(st, i, k) ==
    IF i \notin PosIds(st) THEN RZero
    ELSE RAdd(ClaimDust, IF st.t > st.lastUp /\ HasLiq(st) /\ InR(st, i)
                    THEN RMul(RInt(B!OfInt(LiveN(st, k, st.t))), UnitDust(PosOf(st, i))) ELSE RZero)
DustNow(g, st, i, k) == RAdd(g.d[i][k], Pend(st, i, k))
UpNow(g, st) == RAdd(g.u, RScaled(B!OfInt(Len(st.recs) + 1), 18))

IncBoundsOK(g, st) ==
    \A i \in DOMAIN g.ia : \A k \in IncK :
        LET c == RInt(CNow(g, st, i, k))
            a == g.ia[i][k]
            ok == /\ RLe(c, RAdd(a, UpNow(g, st)))
                  /\ RLe(RSub(a, DustNow(g, st, i, k)), c)
        IN  ok \/ (PrintT(<<"INC-BOUNDS", [id |-> i, denom |-> k + 2, claimablePlusOut |-> RFloor(c), accruedFloor |-> RFloor(a),
                                          accruedMilli |-> RFloor(RMul(a, RInt(B!OfInt(1000)))),
                                          dustMilli |-> RFloor(RMul(DustNow(g, st, i, k), RInt(B!OfInt(1000)))), t |-> st.t]>>) /\ FALSE)

IncNeverOK(g, st) == \A i \in DOMAIN g.ia : \A k \in IncK : RIsZero(g.ia[i][k]) => CNow(g, st, i, k).s = 0

\* twins and k-multiples: same range and join time, ideal accruals proportional to liquidity => real ones too;
\* identical liquidity and no settlement yet => identical to the unit
RAbs(x) == IF x[1].s < 0 THEN <<B!Neg(x[1]), x[2]>> ELSE x
IncPropOK(g, st) ==
    \A x \in 1..Len(st.pos) : \A y \in 1..Len(st.pos) :
        LET p == st.pos[x]  q == st.pos[y] IN
        (x < y /\ p.lo = q.lo /\ p.hi = q.hi /\ p.join = q.join) =>
            \A k \in IncK :
                REq(RMul(g.ia[p.id][k], LiqR(q)), RMul(g.ia[q.id][k], LiqR(p))) =>
                    /\ RLe(RAbs(RSub(RMul(RInt(CNow(g, st, p.id, k)), LiqR(q)), RMul(RInt(CNow(g, st, q.id, k)), LiqR(p)))),
                           RAdd(RMul(RAdd(DustNow(g, st, p.id, k), UpNow(g, st)), LiqR(q)), RMul(RAdd(DustNow(g, st, q.id, k), UpNow(g, st)), LiqR(p))))
                    /\ (p.liq = q.liq /\ g.nc[p.id] = 0 /\ g.nc[q.id] = 0) => (p.inc[k + 2] = q.inc[k + 2] /\ p.forf[k + 2] = q.forf[k + 2])

\* total ever claimable never exceeds the total paid in; the account holds exactly deposited - paid
IncTotalOK(g, st) ==
    \A k \in IncK :
        /\ B!Eq(st.incBal[k + 2], B!Sub(g.dep[k], g.paid[k]))
        /\ B!Le(B!Add(B!Mul(B!Add(B!Sum([j \in 1..Len(st.pos) |-> B!Add(st.pos[j].inc[k + 2], st.pos[j].forf[k + 2])]), g.paid[k]), E18), st.remNow[k + 2]),
                B!Mul(g.dep[k], E18))

\* a settlement pays the owner exactly what the position could claim; what it has not matured is paid
\* only when no other liquidity is active
IncPaidOK(g, ev) ==
    IsClaim(ev) =>
        LET st == ev.st  pp == PosOf(prev, ev.args.id)  active == RLe(ROne, RecvLiq(ev)) IN
        \A k \in IncK :
            /\ B!Eq(B!Sub(st.userBal[ev.who][k + 2], prev.userBal[ev.who][k + 2]),
                    B!Add(pp.inc[k + 2], IF Young(st, pp, k) /\ ~active THEN pp.forf[k + 2] ELSE B!Zero))
            /\ (~Young(st, pp, k)) => pp.forf[k + 2].s = 0
            /\ ev.op = "collectInc" => (B!Eq(ev.res.got[k + 2], pp.inc[k + 2]) /\ B!Eq(ev.res.forf[k + 2], pp.forf[k + 2]))

\* a position that has met the uptime of a denom has nothing of it reported as forfeitable
IncMaturedOK(st) == \A j \in 1..Len(st.pos) : \A k \in IncK : (~Young(st, st.pos[j], k)) => st.pos[j].forf[k + 2].s = 0

IncDepositOK(ev) ==
    (ev.ok /\ ev.op = "incentive") =>
        LET d == ev.args.denom + 1 IN
        /\ B!Eq(B!Sub(ev.st.incBal[d], prev.incBal[d]), ev.args.amt)
        /\ B!Eq(B!Sub(prev.userBal[ev.who][d], ev.st.userBal[ev.who][d]), ev.args.amt)

\* calibration statistics: worst slack / dust over everything judged (acc = <<w, wbig, wabs>>)
RECURSIVE WorstOver(_, _, _, _)
WorstOver(g, st, S, acc) ==
    IF S = {} THEN acc
    ELSE LET r == CHOOSE x \in S : TRUE
             sl == RSub(g.ia[r[1]][r[2]], RInt(CNow(g, st, r[1], r[2])))
             du == DustNow(g, st, r[1], r[2])
         IN  WorstOver(g, st, S \ {r},
                       IF ~(RPos(sl) /\ RPos(du)) THEN acc
                       ELSE LET ra == RNorm(RDiv(sl, du)) IN
                            <<RMax(acc[1], ra), IF RLe(RInt(B!OfInt(10)), du) THEN RMax(acc[2], ra) ELSE acc[2], RMax(acc[3], RNorm(sl))>>)
\* (the slack can only have grown where time passed or a position was settled)
Stat(g, ev) ==
    LET st == ev.st
        rows == {<<i, k>> : i \in DOMAIN g.ia, k \in IncK}
        acc == IF ev.op = "time" \/ IsClaim(ev) THEN WorstOver(g, st, rows, <<g.w, g.wbig, g.wabs>>) ELSE <<g.w, g.wbig, g.wabs>>
    IN  [g EXCEPT !.w = acc[1], !.wbig = acc[2], !.wabs = acc[3], !.nchk = @ + Cardinality(rows)]

NextG(ev) == Stat(NewRec(Claim(NewPos(SyncDust(Accrue(G, ev.st), ev.st), ev.st), ev), ev), ev)

Milli(r) == LET f == RFloor(RMul(r, RInt(B!OfInt(1000)))) IN IF B!Le(f, B!OfInt(2000000000)) THEN B!ToInt(f) ELSE 2000000000
PrintStats(g) == PrintT(<<"INC-STATS", ToJson([intervals |-> g.nint, accruals |-> g.nacc, records |-> Len(g.rec), settlements |-> g.nclaim,
                                                 redistributions |-> g.nforf, forfeitsPaidIdle |-> g.nforfIdle, judged |-> g.nchk,
                                                 beforeStart |-> g.nquirk, worstMilli |-> Milli(g.w), worstBigMilli |-> Milli(g.wbig),
                                                 worstAbsMilli |-> Milli(g.wabs), positions |-> Cardinality(DOMAIN g.ia)])>>)

TraceInit ==
    /\ HWInit /\ l = 1 /\ Log[1].e = "cfg"
    /\ conf = Log[1] /\ prev = Log[1].st
    /\ E = <<>> /\ P = <<>> /\ N = <<>> /\ D = <<>> /\ RD = <<>> /\ inRangeEver = <<>> /\ incAllow = RZero /\ G = IncG0

TReset == /\ l < NLines /\ Ev.e = "cfg"
          /\ conf' = Ev /\ prev' = Ev.st
          /\ E' = <<>> /\ P' = <<>> /\ N' = <<>> /\ D' = <<>> /\ RD' = <<>> /\ inRangeEver' = <<>> /\ incAllow' = RZero /\ G' = IncG0
          /\ PrintStats(G)

TOp == /\ l < NLines /\ Ev.e = "op"
       /\ E' = NextE(Ev) /\ P' = NextP(Ev) /\ N' = NextN(Ev) /\ D' = NextD(Ev) /\ RD' = NextRD(Ev)
       /\ inRangeEver' = NextInRange(Ev)
       /\ incAllow' = RNorm(RAdd(incAllow, StepAllow(Ev)))
       /\ Chk("claimable queries answer", \A k \in 1..Len(Ev.st.pos) : Ev.st.pos[k].qerr = "")
       /\ Chk("spread rewards within [earned - dust, earned]", FeeBoundsOK(Ev.st, E', P', N', D', RD'))
       /\ Chk("incentive uptime / never-in-range", IncOK(Ev))
       /\ Chk("emitted incentives accounted for", IncAccounted(Ev.st, incAllow'))
       /\ G' = NextG(Ev)
       /\ Chk("incentive deposit moves the amount into the incentive account", IncDepositOK(Ev))
       /\ Chk("incentives paid = claimable, unmatured ones never paid while other liquidity is active", IncPaidOK(G', Ev))
       /\ Chk("matured incentives are claimable, not forfeitable", IncMaturedOK(Ev.st))
       /\ Chk("incentives never accrued => exactly zero", IncNeverOK(G', Ev.st))
       /\ Chk("incentives within [accrued - dust, accrued + dust]", IncBoundsOK(G', Ev.st))
       /\ Chk("incentive twins equal, k-multiples proportional", IncPropOK(G', Ev.st))
       /\ Chk("incentives claimable + collected + undistributed <= deposited", IncTotalOK(G', Ev.st))
       /\ (l + 1 = NLines => PrintStats(G'))
       /\ prev' = Ev.st /\ UNCHANGED conf

TraceNext == (TReset \/ TOp) /\ l' = l + 1
TraceSpec == TraceInit /\ [][TraceNext]_<<l, prev, conf, E, P, N, D, RD, inRangeEver, incAllow, G>>
Mark == HWMark(l)
Accepted == HWAccepted
=============================================================================
