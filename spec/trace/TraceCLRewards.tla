--------------------------- MODULE TraceCLRewards ---------------------------
(* Trace validation for C08 (spread rewards and incentives reach exactly the  *)
(* liquidity that earned them) on recorded histories of a real pool.          *)
(*                                                                           *)
(* Spread rewards - exact accrual oracle.  For every executed swap the exact  *)
(* curve walker (CLSwapIdeal) yields, per bucket touched, the fee charged and *)
(* the liquidity that was active; ghost E[id] accumulates for every position  *)
(*     fee_bucket * liq_id / liq_active   for the buckets it was in range.    *)
(* C[id] = claimable now + everything it collected so far must stay within    *)
(*     E[id] (1 - eps) - D[id] - 2 n[id] - 2  <=  C[id]  <=  E[id] (1 + eps) + D[id] + 2 n[id] + 2 *)
(* where n[id] counts the accrual / claim events that touched the position    *)
(* and D[id] is the accumulated truncation of the per-unit-liquidity growth   *)
(* (liq_id * ulp of the accumulator per bucket) plus 2e-18 of the amount       *)
(* charged per touching swap (the code's fee ratio f/(1-f) is an 18-decimal     *)
(* Dec rounded up).  A position that was never                                  *)
(* in range while fees accrued has E = 0 and must have C = 0 exactly.         *)
(* Collecting, adding to, partially withdrawing and transferring leave E      *)
(* untouched, so they can neither lose nor duplicate matured rewards.         *)
(*                                                                           *)
(* Incentives.  The driver binds each incentive denom to one minimum uptime   *)
(* per history (cfg.incUp).  Checked: a position younger than the uptime of a *)
(* denom can claim nothing of it (it is reported as forfeitable instead) and  *)
(* collects nothing of it; a position never in range since it was created     *)
(* has no incentives at all; everything emitted stays accounted for:          *)
(*   incBal - (claimable + forfeitable + undistributed) is bounded dust.      *)
EXTENDS CLSwapIdeal, TraceLib

VARIABLES l, prev, conf,
          E,      \* id -> <<rational, rational>>   ideal spread rewards earned, per pool token
          P,      \* id -> <<BigNum, BigNum>>       spread rewards collected so far
          N,      \* id -> Nat                      accrual / claim events
          D,      \* id -> rational                 accumulated growth-truncation allowance
          inRangeEver,  \* id -> BOOLEAN            was in range at some logged state since creation
          incAllow      \* rational: accumulated truncation allowance of the incentive accumulators

Ev == Log[l + 1]
IdxOf(seq, Q(_)) == CHOOSE k \in 1..Len(seq) : Q(seq[k])
PosIds(st) == {st.pos[k].id : k \in 1..Len(st.pos)}
PosOf(st, i) == st.pos[IdxOf(st.pos, LAMBDA p : p.id = i)]

CurveOf(st) ==
    LET tks == {st.ticks[k].t : k \in 1..Len(st.ticks)}
        T(t) == st.ticks[IdxOf(st.ticks, LAMBDA x : x.t = t)]
    IN  [sqrt |-> RScaled(st.sqrt, 36), liq |-> RScaled(st.liq, 18), tick |-> st.tick,
         ticks |-> [t \in tks |-> [net |-> RScaled(T(t).net, 18), sqrt |-> RScaled(T(t).sqrt, 36)]],
         f |-> RScaled(conf.f, 18), lo |-> RScaled(conf.minSqrt, 36), hi |-> RScaled(conf.maxSqrt, 36)]

InIdx(zfo)  == IF zfo THEN 1 ELSE 2
OutIdx(zfo) == IF zfo THEN 2 ELSE 1
Charged(st, who, zfo) == B!Sub(prev.userBal[who][InIdx(zfo)], st.userBal[who][InIdx(zfo)])
Paid(st, who, zfo)    == B!Sub(st.userBal[who][OutIdx(zfo)], prev.userBal[who][OutIdx(zfo)])

Eps == <<B!One, B!Pow(B!OfInt(10), 12)>>                    \* relative slack 1e-12
\* truncation unit of the spread-reward accumulator, in tokens per unit of liquidity
UlpFee == IF conf.scaledFee THEN RScaled(B!One, 45) ELSE RScaled(B!One, 18)

Active(p, s) == p.lo <= s.at /\ s.at < p.hi /\ RPos(s.liq)
Touch(p, steps) == Cardinality({k \in 1..Len(steps) : Active(p, steps[k]) /\ RPos(steps[k].fee)})

\* ideal accrual of a swap for position p
RECURSIVE AccrualFrom(_, _, _)
AccrualFrom(p, steps, i) ==
    IF i > Len(steps) THEN RZero
    ELSE RAdd(IF Active(p, steps[i]) THEN RDiv(RMul(steps[i].fee, RScaled(p.liq, 18)), steps[i].liq) ELSE RZero,
              AccrualFrom(p, steps, i + 1))
Accrual(p, steps) == RNorm(AccrualFrom(p, steps, 1))

\* the fee is charged on the way in, for both swap kinds: distribute what was actually charged
\* along the exact curve (walking by the delivered amount would be ill-conditioned when an
\* exact-out swap drains a range: the last unit out can cost almost the whole input)
WalkOf(ev) == IdealIn(CurveOf(prev), ev.args.zfo, RInt(Charged(ev.st, ev.who, ev.args.zfo)))

Pair(a, b) == <<a, b>>
ZeroE == <<RZero, RZero>>
ZeroP == <<B!Zero, B!Zero>>

InRangeNow(st, p) == p.lo <= st.tick /\ st.tick < p.hi

\* ghost update for one logged operation ---------------------------------------------
NewIds(st) == PosIds(st) \ DOMAIN E
AllIds(st) == DOMAIN E \cup PosIds(st)

FeeDrop(st, d) == B!Sub(prev.feeBal[d], st.feeBal[d])       \* what left the spread-reward account

\* positions an operation collects spread rewards for (everything leaving the account is theirs)
Collector(ev) ==
    IF ~ev.ok THEN {}
    ELSE IF ev.op \in {"collectFee", "withdraw", "add", "transfer"} THEN {ev.args.id}
    ELSE {}

NextE(ev) ==
    LET st == ev.st
        steps == IF ev.op = "swap" /\ ev.ok THEN WalkOf(ev).steps ELSE <<>>
        d == IF ev.op = "swap" /\ ev.ok THEN InIdx(ev.args.zfo) ELSE 1
    IN  [i \in AllIds(st) |->
            IF i \notin DOMAIN E THEN ZeroE
            ELSE IF steps = <<>> \/ i \notin PosIds(prev) THEN E[i]
            ELSE LET a == Accrual(PosOf(prev, i), steps)
                 IN  IF d = 1 THEN <<RNorm(RAdd(E[i][1], a)), E[i][2]>> ELSE <<E[i][1], RNorm(RAdd(E[i][2], a))>>]

NextP(ev) ==
    [i \in AllIds(ev.st) |->
        IF i \notin DOMAIN P THEN ZeroP
        ELSE IF i \in Collector(ev) THEN <<B!Add(P[i][1], FeeDrop(ev.st, 1)), B!Add(P[i][2], FeeDrop(ev.st, 2))>>
        ELSE P[i]]

NextN(ev) ==
    LET steps == IF ev.op = "swap" /\ ev.ok THEN WalkOf(ev).steps ELSE <<>> IN
    [i \in AllIds(ev.st) |->
        IF i \notin DOMAIN N THEN 0
        ELSE N[i] + (IF i \in Collector(ev) THEN 1 ELSE 0)
                  + (IF steps # <<>> /\ i \in PosIds(prev) THEN Touch(PosOf(prev, i), steps) ELSE 0)]

NextD(ev) ==
    LET steps == IF ev.op = "swap" /\ ev.ok THEN WalkOf(ev).steps ELSE <<>> IN
    [i \in AllIds(ev.st) |->
        IF i \notin DOMAIN D THEN RZero
        ELSE IF steps = <<>> \/ i \notin PosIds(prev) THEN D[i]
        ELSE LET p == PosOf(prev, i)
                 k == Touch(p, steps)
                 \* the code charges a fully traversed bucket in * Dec(f/(1-f)) with the ratio rounded up at 1e-18:
                 \* per bucket up to in * 1e-18 tokens more than the exact fee, which also shifts what is left for
                 \* the later buckets; bounded by 2e-18 of the amount charged, per swap that touches the position
                 ratioSlack == IF k > 0 THEN RScaled(B!Mul(B!OfInt(2), Charged(ev.st, ev.who, ev.args.zfo)), 18) ELSE RZero
             IN  RNorm(RAdd(RAdd(D[i], ratioSlack), RMul(RInt(B!OfInt(k)), RMul(RScaled(p.liq, 18), UlpFee))))]

NextInRange(ev) ==
    [i \in AllIds(ev.st) |->
        (IF i \in DOMAIN inRangeEver THEN inRangeEver[i] ELSE FALSE)
        \/ (i \in PosIds(ev.st) /\ InRangeNow(ev.st, PosOf(ev.st, i)))
        \/ (i \in PosIds(prev) /\ ev.op = "swap" /\ ev.ok /\
              \E k \in 1..Len(WalkOf(ev).steps) : Active(PosOf(prev, i), WalkOf(ev).steps[k]))]

\* the checks ---------------------------------------------------------------------
Claimable(st, i, d) == IF i \in PosIds(st) THEN PosOf(st, i).fee[d] ELSE B!Zero

FeeBoundsOK(st, e, p, n, dd) ==
    \A i \in DOMAIN e : \A d \in 1..2 :
        LET c  == RInt(B!Add(Claimable(st, i, d), p[i][d]))
            ee == e[i][d]
            k  == RInt(B!OfInt(2 * n[i] + 2))
            ok == /\ (RIsZero(ee) => RIsZero(c))                                        \* never earned => nothing
                  /\ RLe(c, RAdd(RAdd(RMul(ee, RAdd(ROne, Eps)), dd[i]), k))            \* never more than earned
                  /\ RLe(RSub(RSub(RMul(ee, RSub(ROne, Eps)), dd[i]), k), c)            \* short only by dust
        IN  ok \/ (PrintT(<<"FEE-BOUNDS", [id |-> i, denom |-> d, claimablePlusPaid |-> B!ToInt(B!Min(RFloor(c), B!OfInt(2000000000))),
                                          earnedFloor |-> RFloor(ee), dustFloor |-> RFloor(dd[i]), events |-> n[i]]>>) /\ FALSE)

\* incentives: denoms 3,4 (inca, incb) are bound to one minimum uptime each (ms)
UpOf(d) == conf.incUpMs[d - 2]
IncOK(ev) ==
    LET st == ev.st IN
    /\ \A k \in 1..Len(st.pos) : LET p == st.pos[k] IN
         /\ \A d \in 3..4 : (st.t - p.join < UpOf(d) \/ (UpOf(d) = 0 /\ st.t = p.join)) => p.inc[d].s = 0
         /\ (p.id \in DOMAIN inRangeEver' /\ ~inRangeEver'[p.id]) => \A d \in 1..4 : p.inc[d].s = 0 /\ p.forf[d].s = 0
         /\ \A d \in 1..2 : p.inc[d].s = 0 /\ p.forf[d].s = 0           \* pool tokens are never incentive denoms here
    /\ (ev.op = "collectInc" /\ ev.ok) =>
         LET p == PosOf(prev, ev.args.id) IN
         \A d \in 3..4 : (st.t - p.join < UpOf(d) \/ (UpOf(d) = 0 /\ st.t = p.join)) => ev.res.got[d].s = 0

\* everything emitted stays accounted for: account = claimable + forfeitable + undistributed + dust
UlpInc == IF conf.scaledInc THEN RScaled(B!One, 45) ELSE RScaled(B!One, 18)
\* allowance added by one operation: every accrual truncates (emitted / active liquidity) per record,
\* every claim truncates the forfeited amount per unit of liquidity and the payout
StepAllow(ev) ==
    LET L == RScaled(prev.liq, 18)
        perRec == RAdd(RMul(L, UlpInc), ROne)
        nrec == Len(prev.recs) + Len(ev.st.recs) + 1
        \* claimable amounts are computed with accrual brought up to NOW, so elapsed time alone truncates too
        accr == IF ev.st.lastUp # prev.lastUp \/ ev.st.t # prev.t \/ ev.op \in {"collectInc", "withdraw", "add", "create", "swap"}
                THEN RMul(RInt(B!OfInt(2 * nrec)), perRec) ELSE RZero
    IN  accr

IncAccounted(st, allow) ==
    \A d \in 3..4 :
        LET owed == B!Add(B!Sum([k \in 1..Len(st.pos) |-> B!Add(st.pos[k].inc[d], st.pos[k].forf[d])]),
                          B!FloorDiv(st.remNow[d], B!Pow(B!OfInt(10), 18)))
            slack == B!Sub(st.incBal[d], owed)
        IN  /\ slack.s >= 0
            /\ RLe(RInt(slack), RAdd(allow, ROne))

TraceInit ==
    /\ HWInit /\ l = 1 /\ Log[1].e = "cfg"
    /\ conf = Log[1] /\ prev = Log[1].st
    /\ E = <<>> /\ P = <<>> /\ N = <<>> /\ D = <<>> /\ inRangeEver = <<>> /\ incAllow = RZero

TReset == /\ l < NLines /\ Ev.e = "cfg"
          /\ conf' = Ev /\ prev' = Ev.st
          /\ E' = <<>> /\ P' = <<>> /\ N' = <<>> /\ D' = <<>> /\ inRangeEver' = <<>> /\ incAllow' = RZero

TOp == /\ l < NLines /\ Ev.e = "op"
       /\ E' = NextE(Ev) /\ P' = NextP(Ev) /\ N' = NextN(Ev) /\ D' = NextD(Ev)
       /\ inRangeEver' = NextInRange(Ev)
       /\ incAllow' = RNorm(RAdd(incAllow, StepAllow(Ev)))
       /\ Chk("claimable queries answer", \A k \in 1..Len(Ev.st.pos) : Ev.st.pos[k].qerr = "")
       /\ Chk("spread rewards within [earned - dust, earned]", FeeBoundsOK(Ev.st, E', P', N', D'))
       /\ Chk("incentive uptime / never-in-range", IncOK(Ev))
       /\ Chk("emitted incentives accounted for", IncAccounted(Ev.st, incAllow'))
       /\ prev' = Ev.st /\ UNCHANGED conf

TraceNext == (TReset \/ TOp) /\ l' = l + 1
TraceSpec == TraceInit /\ [][TraceNext]_<<l, prev, conf, E, P, N, D, inRangeEver, incAllow>>
Mark == HWMark(l)
Accepted == HWAccepted
=============================================================================
