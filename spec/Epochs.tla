------------------------------- MODULE Epochs -------------------------------
(***************************************************************************)
(* x/epochs: timers that tick in BeginBlocker and signal subscribers        *)
(* (EpochHooks) through osmoutils.ApplyFuncIfNoError.  Property C17.        *)
(*                                                                         *)
(* BeginBlocker is a loop with callbacks, so a block is several actions:    *)
(*   StartBlock(t)  the per-timer decision (initial start / tick / nothing) *)
(*                  for every timer in store-key order, which fixes the     *)
(*                  ordered list `pend` of subscriber calls of this block;  *)
(*   Call(o, w)     the subscriber at the head of `pend` runs, writes w to   *)
(*                  its own store through the context it was given and ends *)
(*                  with outcome o: ok (write kept), err / panic (write      *)
(*                  discarded, loop continues), oog (out of gas: propagated, *)
(*                  the block is aborted);                                   *)
(*   EndBlock       all calls made;                                          *)
(*   Abort          the caller drops everything the block did.               *)
(* Time is an integer (seconds from an arbitrary origin).                    *)
(***************************************************************************)
EXTENDS Integers, Sequences

VARIABLES
    conf,    \* [start : Seq(Int), dur : Seq(Nat \ {0}), nsubs : Nat]  (never changes within a history)
    now,     \* time of the last block begun (idle) / current block (running)
    height,
    ep,      \* Seq over timers of [cur, curStart, started, startHeight]
    store,   \* Seq over subscribers: sum of the writes that were kept
    pend,    \* calls still to be made in the running block: Seq(<<kind, id, n, sub>>)
    mode,    \* "idle" | "running" | "aborted"
    pre,     \* snapshot [ep, store, sig, height, now] taken by StartBlock
    sig      \* history: per timer the signals raised so far, Seq(<<kind, n>>)

vars == <<conf, now, height, ep, store, pend, mode, pre, sig>>

Ids  == 1..Len(conf.start)
Subs == 1..conf.nsubs
Outcomes == {"ok", "err", "panic", "oog"}

Ep0 == [cur |-> 0, curStart |-> 0, started |-> FALSE, startHeight |-> 0]

InitWith(c, t0, h0) ==
    /\ conf = c
    /\ now = t0
    /\ height = h0
    /\ ep = [i \in 1..Len(c.start) |-> Ep0]
    /\ store = [s \in 1..c.nsubs |-> 0]
    /\ pend = <<>>
    /\ mode = "idle"
    /\ pre = [ep |-> <<>>, store |-> <<>>, sig |-> <<>>, height |-> h0, now |-> t0]
    /\ sig = [i \in 1..Len(c.start) |-> <<>>]

---------------------------------------------------------------------------
(* the decision BeginBlocker takes for one timer at block time t *)
Due(e, i, t) ==
    IF t < conf.start[i] THEN "none"
    ELSE IF ~e.started THEN "init"
    ELSE IF t > e.curStart + conf.dur[i] THEN "tick"
    ELSE "none"

EpAfter(e, i, t, h) ==
    CASE Due(e, i, t) = "none" -> e
      [] Due(e, i, t) = "init" -> [cur |-> 1, curStart |-> conf.start[i], started |-> TRUE, startHeight |-> h]
      [] Due(e, i, t) = "tick" -> [cur |-> e.cur + 1, curStart |-> e.curStart + conf.dur[i],
                                   started |-> TRUE, startHeight |-> h]

SigsOf(e, i, t) ==     \* signals raised for timer i, in order
    CASE Due(e, i, t) = "none" -> <<>>
      [] Due(e, i, t) = "init" -> << <<"B", 1>> >>
      [] Due(e, i, t) = "tick" -> << <<"A", e.cur>>, <<"B", e.cur + 1>> >>

\* every signal goes to every subscriber, in subscriber order
CallsOfSig(i, sg) == [s \in Subs |-> <<sg[1], i, sg[2], s>>]

RECURSIVE Flat(_)
Flat(ss) == IF ss = <<>> THEN <<>> ELSE Head(ss) \o Flat(Tail(ss))

CallsOfTimer(e, i, t) == Flat([k \in 1..Len(SigsOf(e, i, t)) |-> CallsOfSig(i, SigsOf(e, i, t)[k])])
CallsOfBlock(t) == Flat([i \in Ids |-> CallsOfTimer(ep[i], i, t)])

StartBlock(t) ==
    /\ mode = "idle"
    /\ t >= now
    /\ pre' = [ep |-> ep, store |-> store, sig |-> sig, height |-> height, now |-> now]
    /\ now' = t
    /\ height' = height + 1
    /\ ep' = [i \in Ids |-> EpAfter(ep[i], i, t, height + 1)]
    /\ sig' = [i \in Ids |-> sig[i] \o SigsOf(ep[i], i, t)]
    /\ pend' = CallsOfBlock(t)
    /\ mode' = "running"
    /\ UNCHANGED <<conf, store>>

Call(o, w) ==
    /\ mode = "running"
    /\ pend # <<>>
    /\ LET s == Head(pend)[4] IN
        /\ store' = IF o = "ok" THEN [store EXCEPT ![s] = @ + w] ELSE store
        /\ mode' = IF o = "oog" THEN "aborted" ELSE "running"
    /\ pend' = Tail(pend)
    /\ UNCHANGED <<conf, now, height, ep, pre, sig>>

EndBlock ==
    /\ mode = "running"
    /\ pend = <<>>
    /\ mode' = "idle"
    /\ UNCHANGED <<conf, now, height, ep, store, pend, pre, sig>>

Abort ==
    /\ mode = "aborted"
    /\ ep' = pre.ep /\ store' = pre.store /\ sig' = pre.sig
    /\ height' = pre.height /\ now' = pre.now
    /\ pend' = <<>>
    /\ mode' = "idle"
    /\ UNCHANGED <<conf, pre>>

---------------------------------------------------------------------------
(* properties *)
Grid == \A i \in Ids : ep[i].started => ep[i].curStart = conf.start[i] + (ep[i].cur - 1) * conf.dur[i]

NotBeforeStart == \A i \in Ids :
    /\ ~ep[i].started => ep[i].cur = 0 /\ sig[i] = <<>>
    /\ (ep[i].started /\ mode = "idle") => now >= conf.start[i]

\* the signal history of a timer is B1 A1 B2 A2 ... B_cur : each once, end(n) before start(n+1)
ExpectedSig(c) == [k \in 1..(IF c = 0 THEN 0 ELSE 2 * c - 1) |->
                      IF k % 2 = 1 THEN <<"B", (k + 1) \div 2>> ELSE <<"A", k \div 2>>]
SignalOrder == \A i \in Ids : sig[i] = ExpectedSig(ep[i].cur)

\* a started timer is never more than one period behind at the end of a block
\* unless the block time jumped (it then catches up one epoch per block).
SameHistory == conf' = conf    \* trace specs concatenate histories with a reset step
AtMostOneTick == [][SameHistory => (\A i \in Ids : ep'[i].cur - ep[i].cur \in {0, 1} \/ mode = "aborted")]_vars

TickExactlyWhenDue ==
    [][ (SameHistory /\ mode = "idle" /\ mode' = "running") =>
          \A i \in Ids : (ep'[i].cur = ep[i].cur + 1) <=>
                           \/ (~ep[i].started /\ now' >= conf.start[i])
                           \/ (ep[i].started /\ now' > ep[i].curStart + conf.dur[i]) ]_vars

\* an aborted (out-of-gas) block leaves nothing behind
AbortRestores == [][ (mode = "aborted" /\ mode' = "idle") =>
                        /\ ep' = pre.ep /\ store' = pre.store /\ sig' = pre.sig ]_vars

\* every subscriber of every signal is called, whatever happened to earlier ones
NobodySkipped == [][ (mode = "running" /\ mode' = "idle") => pend = <<>> ]_vars
=============================================================================
