----------------------------- MODULE PartialOrd -----------------------------
(***************************************************************************)
(* osmoutils/partialord: a partial ordering over a fixed set of names is    *)
(* declared piece by piece and linearised into one total ordering.  The app  *)
(* uses it to fix the begin-block / end-block order of its modules           *)
(* (app/modules.go), so every node of the network must derive the SAME       *)
(* ordering from the same declarations.  Extra check X01.                    *)
(*                                                                         *)
(* What a user of the package relies on (from the doc comments of           *)
(* partialord.go / internal/dag, the package's tests and its use in the app; *)
(* NOT from the way the DAG is stored or sorted):                            *)
(*                                                                         *)
(*  P1 Permutation.   Every ordering ever returned by TotalOrdering contains *)
(*     every element given to NewPartialOrdering exactly once and nothing    *)
(*     else.                                                                 *)
(*  P2 Pairwise.      For every accepted After(a,b) / Before(a,b) /          *)
(*     Sequence(..a,b..) that is still in force, every ordering ever         *)
(*     returned places the earlier name before the later one.  A pairwise    *)
(*     constraint once accepted stays in force for ever, with the one        *)
(*     documented exception P4.                                              *)
(*  P3 First / Last.  After FirstElements(f1..fk) was accepted every         *)
(*     ordering ever returned BEGINS with exactly f1..fk; after              *)
(*     LastElements(l1..lm) every ordering ever returned ENDS with exactly   *)
(*     l1..lm ("we are guaranteed that the total ordering will begin / end   *)
(*     with ...").  Each of the two is accepted at most once.                *)
(*  P4 Override.      A First/Last declaration overrides exactly those       *)
(*     EARLIER pairwise constraints that contradict it ("to override         *)
(*     previous settings", TestNonStandardAPIOrder) - never any other        *)
(*     constraint, and never a later one.                                    *)
(*  P5 Loud failure.  TotalOrdering returns an ordering only if that         *)
(*     ordering satisfies everything in force, and it panics only if NO      *)
(*     ordering satisfies everything in force ("Panics if no total ordering  *)
(*     exists").  Contradictions - cycles of any length, a name that is not  *)
(*     an element, a name constrained against itself, a name listed twice    *)
(*     in a declaration, a First declaration that cannot hold together with  *)
(*     the Last declaration - therefore never yield an ordering: they fail   *)
(*     at the call that introduces them or at every later TotalOrdering.     *)
(*  P6 No spurious failure.  A call is rejected (panic) only if it is a      *)
(*     logic error: a second First/Last declaration, or a call after which   *)
(*     no ordering could satisfy everything in force.  A rejected call       *)
(*     changes nothing.  NewPartialOrdering fails exactly when a name is     *)
(*     given twice.                                                          *)
(*  P7 Determinism.   The ordering returned is a function of the element     *)
(*     SET and of what is in force: asking twice gives the same answer; an   *)
(*     ordering built from the same elements listed in another order and     *)
(*     from the same constraints declared in another order / through         *)
(*     another entry point (Before(a,b) = After(b,a) = Sequence(a,b)) gives   *)
(*     the same answer; nothing depends on map iteration order ("a           *)
(*     deterministically chosen total ordering", "cross-machine              *)
(*     determinism").                                                        *)
(*                                                                         *)
(* The specification deliberately does NOT say which of the satisfying       *)
(* orderings is chosen, nor at which of the two allowed points a             *)
(* contradiction is reported, nor any error text.                            *)
(*                                                                         *)
(* Abstract state: the element set, the pairwise constraints in force, the   *)
(* two declarations, and the answer of TotalOrdering since the last change.  *)
(* One action per public entry point; every action takes the observed        *)
(* outcome ("ok" = returned, "rej" = panicked) as a parameter and says        *)
(* whether that outcome is allowed.                                          *)
(***************************************************************************)
EXTENDS Integers, Sequences, FiniteSets

VARIABLES
    gen,       \* how many times NewPartialOrdering was called (which object we talk about)
    made,      \* BOOLEAN: NewPartialOrdering has returned
    elems,     \* the set of elements
    cons,      \* set of <<a, b>> in force: a must come before b
    first,     \* the accepted FirstElements declaration (<<>>: none)
    last,      \* the accepted LastElements declaration (<<>>: none)
    fsealed,   \* FirstElements was accepted
    lsealed,   \* LastElements was accepted
    out        \* answer of TotalOrdering since the last accepted change:
               \* [k |-> "none" | "ord" | "panic", o |-> the ordering]

vars == <<gen, made, elems, cons, first, last, fsealed, lsealed, out>>

NoOut == [k |-> "none", o |-> <<>>]
Panicked == [k |-> "panic", o |-> <<>>]
Ordered(p) == [k |-> "ord", o |-> p]

Range(s) == {s[i] : i \in 1..Len(s)}
Distinct(s) == \A i, j \in 1..Len(s) : s[i] = s[j] => i = j
\* position of the first occurrence of x in s (x \in Range(s))
Pos(s, x) == CHOOSE i \in 1..Len(s) : s[i] = x /\ \A j \in 1..(i - 1) : s[j] # x

RECURSIVE PermsOf(_)
PermsOf(S) == IF S = {} THEN {<<>>}
              ELSE UNION {{<<x>> \o p : p \in PermsOf(S \ {x})} : x \in S}

\* hook: a bounded model / trace spec may substitute a tabulated equivalent of PermsOf
Perms(S) == PermsOf(S)

IsPerm(p, E) == Len(p) = Cardinality(E) /\ Range(p) = E

---------------------------------------------------------------------------
(* what it means for an ordering p to satisfy pairwise constraints C, a     *)
(* first declaration f and a last declaration la                            *)
\* the pairs <<x, y>> such that x stands before y in p
BeforePairsOf(p) == {<<p[ij[1]], p[ij[2]]>> : ij \in {ij \in (1..Len(p)) \X (1..Len(p)) : ij[1] < ij[2]}}
BeforePairs(p) == BeforePairsOf(p)     \* hook, like Perms
\* every constraint names two elements of p and the first stands before the second
RespectsPairs(p, C) == C \subseteq BeforePairs(p)
BeginsWith(p, f) == Len(f) <= Len(p) /\ \A i \in 1..Len(f) : p[i] = f[i]
EndsWith(p, la)  == Len(la) <= Len(p) /\ \A i \in 1..Len(la) : p[Len(p) - Len(la) + i] = la[i]

Satisfies(p, E, C, f, la) ==
    /\ IsPerm(p, E)
    /\ RespectsPairs(p, C)
    /\ BeginsWith(p, f)
    /\ EndsWith(p, la)

OrderingsOf(E, C, f, la) == {p \in Perms(E) : BeginsWith(p, f) /\ EndsWith(p, la) /\ RespectsPairs(p, C)}
Satisfiable(E, C, f, la) == \E p \in Perms(E) : BeginsWith(p, f) /\ EndsWith(p, la) /\ RespectsPairs(p, C)
Sat == Satisfiable(elems, cons, first, last)

\* the declarations alone cannot hold together (whatever the pairwise constraints)
DeclConflict == ~Satisfiable(elems, {}, first, last)

(* the pairwise constraints of C that contradict a declaration (P4) *)
ContraFirst(C, f) == {c \in C : /\ c[2] \in Range(f)
                                /\ \/ c[1] \notin Range(f)
                                   \/ Pos(f, c[1]) > Pos(f, c[2])}
ContraLast(C, la) == {c \in C : /\ c[1] \in Range(la)
                                /\ \/ c[2] \notin Range(la)
                                   \/ Pos(la, c[2]) < Pos(la, c[1])}

PairsOfSeq(s) == {<<s[i], s[i + 1]>> : i \in 1..(Len(s) - 1)}

---------------------------------------------------------------------------
(* the same question answered on the constraint graph: used as a cross-check *)
(* of the definition above (invariant SatAgree of the bounded model)         *)
ComposeOnce(R) == R \cup {<<p[1], q[2]>> : <<p, q>> \in {pq \in R \X R : pq[1][2] = pq[2][1]}}
RECURSIVE TC(_)
TC(R) == LET S == ComposeOnce(R) IN IF S = R THEN R ELSE TC(S)

FirstEdges(E, f) == IF f = <<>> THEN {}
                    ELSE PairsOfSeq(f) \cup {<<f[Len(f)], x>> : x \in E \ Range(f)}
LastEdges(E, la) == IF la = <<>> THEN {}
                    ELSE PairsOfSeq(la) \cup {<<x, la[1]>> : x \in E \ Range(la)}

SatByGraph(E, C, f, la) ==
    /\ \A c \in C : c[1] \in E /\ c[2] \in E
    /\ Range(f) \subseteq E /\ Range(la) \subseteq E
    /\ Distinct(f) /\ Distinct(la)
    /\ \A c \in TC(C \cup FirstEdges(E, f) \cup LastEdges(E, la)) : c[1] # c[2]

---------------------------------------------------------------------------
Init ==
    /\ gen = 0
    /\ made = FALSE /\ elems = {} /\ cons = {}
    /\ first = <<>> /\ last = <<>> /\ fsealed = FALSE /\ lsealed = FALSE
    /\ out = NoOut

\* the state right after NewPartialOrdering(names) ended with outcome o
InitNew(names, o) ==
    /\ (o = "ok") <=> Distinct(names)
    /\ gen = 1
    /\ made = (o = "ok")
    /\ elems = (IF o = "ok" THEN Range(names) ELSE {})
    /\ cons = {} /\ first = <<>> /\ last = <<>> /\ fsealed = FALSE /\ lsealed = FALSE
    /\ out = NoOut

NewFrom(names, o) ==
    /\ (o = "ok") <=> Distinct(names)                                    \* P6
    /\ gen' = gen + 1
    /\ made' = (o = "ok")
    /\ elems' = (IF o = "ok" THEN Range(names) ELSE {})
    /\ cons' = {} /\ first' = <<>> /\ last' = <<>> /\ fsealed' = FALSE /\ lsealed' = FALSE
    /\ out' = NoOut

New(names, o) == ~made /\ NewFrom(names, o)

\* After / Before / Sequence: a set P of pairs is added, all or nothing
AddPairs(P, o) ==
    /\ made
    /\ \/ /\ o = "ok"
          /\ cons' = cons \cup P
          /\ out' = NoOut
          /\ UNCHANGED <<gen, made, elems, first, last, fsealed, lsealed>>
       \/ /\ o = "rej"
          /\ ~Satisfiable(elems, cons \cup P, first, last)               \* P6
          /\ UNCHANGED vars

Before(a, b, o) == AddPairs({<<a, b>>}, o)      \* a comes before b
After(a, b, o)  == AddPairs({<<b, a>>}, o)      \* a comes after b
Sequence(s, o)  == AddPairs(PairsOfSeq(s), o)

FirstElements(s, o) ==
    /\ made /\ s # <<>>
    /\ \/ /\ o = "ok"
          /\ ~fsealed                                                    \* P3: at most once
          /\ first' = s /\ fsealed' = TRUE
          /\ cons' = cons \ ContraFirst(cons, s)                         \* P4
          /\ out' = NoOut
          /\ UNCHANGED <<gen, made, elems, last, lsealed>>
       \/ /\ o = "rej"
          /\ fsealed \/ ~Satisfiable(elems, cons \ ContraFirst(cons, s), s, last)
          /\ UNCHANGED vars

LastElements(s, o) ==
    /\ made /\ s # <<>>
    /\ \/ /\ o = "ok"
          /\ ~lsealed
          /\ last' = s /\ lsealed' = TRUE
          /\ cons' = cons \ ContraLast(cons, s)
          /\ out' = NoOut
          /\ UNCHANGED <<gen, made, elems, first, fsealed>>
       \/ /\ o = "rej"
          /\ lsealed \/ ~Satisfiable(elems, cons \ ContraLast(cons, s), first, s)
          /\ UNCHANGED vars

\* TotalOrdering answered r
TotalOrdering(r) ==
    /\ made
    /\ \/ r.k = "ord" /\ Satisfies(r.o, elems, cons, first, last)        \* P1 P2 P3 P5
       \/ r = Panicked /\ ~Sat                                           \* P5
    /\ out.k # "none" => r = out                                         \* P7: asking twice
    /\ out' = r
    /\ UNCHANGED <<gen, made, elems, cons, first, last, fsealed, lsealed>>

---------------------------------------------------------------------------
(* properties *)
TypeOK ==
    /\ made \in BOOLEAN /\ fsealed \in BOOLEAN /\ lsealed \in BOOLEAN
    /\ out.k \in {"none", "ord", "panic"}
    /\ ~made => elems = {} /\ cons = {} /\ first = <<>> /\ last = <<>> /\ out = NoOut

Permutation  == out.k = "ord" => IsPerm(out.o, elems)                            \* P1
Pairwise     == out.k = "ord" => RespectsPairs(out.o, cons)                      \* P2
FirstHolds   == out.k = "ord" => BeginsWith(out.o, first)                        \* P3
LastHolds    == out.k = "ord" => EndsWith(out.o, last)                           \* P3
LoudFailure  == /\ out.k = "panic" => ~Sat                                       \* P5
                /\ out.k = "ord" => Sat
Sealed       == (first # <<>> => fsealed) /\ (last # <<>> => lsealed)
\* the two ways of deciding "is there an ordering" agree in every state
SatAgree     == made => (Sat <=> SatByGraph(elems, cons, first, last))

SameHistory == gen' = gen /\ made    \* trace specs concatenate histories (NewFrom without the guard of New)

\* P2: pairwise constraints only go away through a declaration
PairsStay == [][ (SameHistory /\ first' = first /\ last' = last) => cons \subseteq cons' ]_vars
\* P4: a declaration removes exactly the earlier constraints that contradict it and adds none
OverrideExact ==
    [][ SameHistory =>
          /\ first' # first => cons' = cons \ ContraFirst(cons, first')
          /\ last' # last => cons' = cons \ ContraLast(cons, last') ]_vars
\* P3: a declaration is made at most once and never changes
DeclaredOnce ==
    [][ SameHistory => /\ fsealed => (first' = first /\ fsealed')
                       /\ lsealed => (last' = last /\ lsealed') ]_vars
\* P7: without a change in between, TotalOrdering repeats its answer
SameAnswer ==
    [][ (SameHistory /\ out.k # "none" /\ out'.k # "none") => out' = out ]_vars
\* a contradiction is never healed by adding pairwise constraints
NoHealing ==
    [][ (SameHistory /\ ~Sat /\ first' = first /\ last' = last) => ~Sat' ]_vars
=============================================================================
