-------------------------------- MODULE Gamm --------------------------------
(***************************************************************************)
(* Property C02: classic (x/gamm) pools and the poolmanager swap router     *)
(* neither create nor lose funds.                                           *)
(*                                                                         *)
(* The specification is a LEDGER: three independently updated books         *)
(*   - bank balances  L.bal[account][denom]  and bank supply L.sup[denom],  *)
(*   - the pool records L.pools[p] = [on, res[denom], sh] (what the pool     *)
(*     reports: reserves and total shares),                                  *)
(* and what every public entry point does to them.  HOW MUCH a swap pays,    *)
(* how many shares a join mints etc. is not this property's business (C04 /  *)
(* C05): those amounts are parameters of the actions (taken from the         *)
(* response / events of the real message on traces, from a toy price on the  *)
(* bounded model).  The spec fixes the ledger effect of each action given    *)
(* those amounts, plus the one amount the property does state: the taker     *)
(* fee,  x - floor(x * (1 - f))  on an exact-in hop offered x, and           *)
(* ceil(a / (1 - f)) - a  on an exact-out hop whose pool input is a.         *)
(*                                                                         *)
(* Accounts  1..na actors | na+p the account of pool slot p | Fee | Com.     *)
(* Denoms    1..nd base denoms | nd+p the share denom of pool slot p         *)
(*           (a share denom can itself be an asset of another pool, be sent  *)
(*           around and be sent to pool accounts like any denom).            *)
(* Fee = the taker-fee collector module account (the immediate destination   *)
(* of every taker fee), Com = the account holding the community pool (the    *)
(* pool-creation fee).                                                       *)
(*                                                                         *)
(* Ghosts: G.direct[p][d] = what was sent to pool p's account directly (bank *)
(* sends, also before the pool existed), G.sup0 = supply of every denom as   *)
(* explicit test funding left it, G.out = units held outside the tracked     *)
(* accounts when the history started (never changes).                        *)
(*                                                                         *)
(* Numbers go through NZero/NAdd/NSub/NMul/NLe/NFloorDiv/NCeilDiv (native    *)
(* integers on the bounded model, BigNum on traces: share amounts are        *)
(* 10^20-scale); U is the raw value of the rate 1.0 (10^18 on traces).       *)
(***************************************************************************)
EXTENDS Integers, Sequences, FiniteSets

CONSTANTS U, NZero, NAdd(_, _), NSub(_, _), NMul(_, _), NLe(_, _), NFloorDiv(_, _), NCeilDiv(_, _)

VARIABLES
    cfg,    \* [na, np, nd, initShares, createFee : vector, free : set of actors]  (constant within a history)
    L,      \* the ledger [bal, sup, pools]
    G,      \* ghosts [direct, sup0, out]
    last    \* the action that led here: [op, ok, who, parties : set of accounts, pools : set of slots]

vars == <<cfg, L, G, last>>

---------------------------------------------------------------------------
(* index conventions *)
Actors   == 1..cfg.na
Slots    == 1..cfg.np
Den      == 1..(cfg.nd + cfg.np)
BaseDen  == 1..cfg.nd
PA(p)    == cfg.na + p                  \* account of pool slot p
SD(p)    == cfg.nd + p                  \* share denom of pool slot p
Fee      == cfg.na + cfg.np + 1
Com      == cfg.na + cfg.np + 2
Acct     == 1..(cfg.na + cfg.np + 2)
IsPoolAcct(a) == a > cfg.na /\ a <= cfg.na + cfg.np
SlotOf(a)     == a - cfg.na

(* numbers and vectors over denoms *)
NEq(a, b)  == NLe(a, b) /\ NLe(b, a)
NLt(a, b)  == ~NLe(b, a)
NPos(a)    == NLt(NZero, a)
ZeroV      == [d \in Den |-> NZero]
VAdd(v, w) == [d \in Den |-> NAdd(v[d], w[d])]
VSub(v, w) == [d \in Den |-> NSub(v[d], w[d])]
VEq(v, w)  == \A d \in Den : NEq(v[d], w[d])
VNonNeg(v) == \A d \in Den : NLe(NZero, v[d])
One(d, x)  == [e \in Den |-> IF e = d THEN x ELSE NZero]

RECURSIVE SumUpTo(_, _, _)
SumUpTo(b, n, d) == IF n = 0 THEN NZero ELSE NAdd(b[n][d], SumUpTo(b, n - 1, d))

---------------------------------------------------------------------------
(* the taker fee, as the property states it; f is the raw rate, 0 <= f <= U *)
FeeIn(x, f)  == NSub(x, NFloorDiv(NMul(x, NSub(U, f)), U))          \* of an offered amount x (exact-in)
FeeOut(a, f) == NSub(NCeilDiv(NMul(a, U), NSub(U, f)), a)           \* on top of a pool input a (exact-out), f < U

---------------------------------------------------------------------------
(* primitive ledger transformers (pure functions of a ledger) *)
Move(l, from, to, v) == [l EXCEPT !.bal[from] = VSub(@, v), !.bal[to] = VAdd(@, v)]
Mint(l, to, d, x)    == [l EXCEPT !.bal[to][d] = NAdd(@, x), !.sup[d] = NAdd(@, x)]
Burn(l, from, d, x)  == [l EXCEPT !.bal[from][d] = NSub(@, x), !.sup[d] = NSub(@, x)]
ResAdd(l, p, v)      == [l EXCEPT !.pools[p].res = VAdd(@, v)]
ResSub(l, p, v)      == [l EXCEPT !.pools[p].res = VSub(@, v)]
ShAdd(l, p, x)       == [l EXCEPT !.pools[p].sh = NAdd(@, x)]
ShSub(l, p, x)       == [l EXCEPT !.pools[p].sh = NSub(@, x)]

(* liquidity: v goes from t to the pool and into its record, s shares are minted to t (and back) *)
JoinL(l, t, p, v, s) == ShAdd(ResAdd(Mint(Move(l, t, PA(p), v), t, SD(p), s), p, v), p, s)
ExitL(l, t, p, v, s) == ShSub(ResSub(Burn(Move(l, PA(p), t, v), t, SD(p), s), p, v), p, s)

(* one pool swap: fee to the collector, ai into the pool, ao out of it; both books move *)
HopL(l, t, h, fee) ==
    LET l1 == Move(l, t, Fee, One(h.di, fee))
        l2 == Move(l1, t, PA(h.p), One(h.di, h.ai))
        l3 == Move(l2, PA(h.p), t, One(h.do, h.ao))
    IN  ResSub(ResAdd(l3, h.p, One(h.di, h.ai)), h.p, One(h.do, h.ao))

---------------------------------------------------------------------------
(* routed swaps.  A route is [amt, hops]; a hop is [p, di, do, f, ai, ao]:    *)
(* pool slot, denom in, denom out, taker-fee rate of the pair (di, do), what  *)
(* the pool took in and what it paid out.  ex = the trader is fee exempt.     *)

\* what hop k of an exact-in route is offered
Offered(r, k) == IF k = 1 THEN r.amt ELSE r.hops[k - 1].ao
HopFee(exactIn, ex, r, k) ==
    IF ex THEN NZero
    ELSE IF exactIn THEN FeeIn(Offered(r, k), r.hops[k].f)
    ELSE FeeOut(r.hops[k].ai, r.hops[k].f)

RECURSIVE RouteL(_, _, _, _, _, _)
RouteL(l, t, exactIn, ex, r, k) ==      \* hops k..n of route r applied to l, in order
    IF k > Len(r.hops) THEN l
    ELSE RouteL(HopL(l, t, r.hops[k], HopFee(exactIn, ex, r, k)), t, exactIn, ex, r, k + 1)

RECURSIVE RoutesL(_, _, _, _, _, _)
RoutesL(l, t, exactIn, ex, rs, j) ==
    IF j > Len(rs) THEN l
    ELSE RoutesL(RouteL(l, t, exactIn, ex, rs[j], 1), t, exactIn, ex, rs, j + 1)

\* what the trader hands over at the head of a route / receives at its end
RouteIn(exactIn, ex, r)  == IF exactIn THEN r.amt ELSE NAdd(r.hops[1].ai, HopFee(exactIn, ex, r, 1))
RouteOut(r)              == r.hops[Len(r.hops)].ao

RECURSIVE SumRoutes(_, _, _, _, _)
SumRoutes(rs, j, exactIn, ex, wantIn) ==
    IF j > Len(rs) THEN NZero
    ELSE NAdd(IF wantIn THEN RouteIn(exactIn, ex, rs[j]) ELSE RouteOut(rs[j]),
              SumRoutes(rs, j + 1, exactIn, ex, wantIn))

\* the shape the property fixes: hops chain by denom, an exact-in hop passes on
\* exactly what it was offered minus the fee, an exact-out route delivers the
\* requested amount, all amounts positive, rates in range, pools exist and hold
\* both denoms as assets
HopOK(l, h) ==
    /\ h.p \in Slots /\ l.pools[h.p].on
    /\ h.di \in Den /\ h.do \in Den /\ h.di # h.do
    /\ NPos(l.pools[h.p].res[h.di]) /\ NPos(l.pools[h.p].res[h.do])
    /\ NPos(h.ai) /\ NPos(h.ao)
    /\ NLe(NZero, h.f) /\ NLe(h.f, U)

RouteOK(exactIn, ex, r) ==
    /\ Len(r.hops) >= 1
    /\ NPos(r.amt)
    /\ \A k \in 2..Len(r.hops) : r.hops[k].di = r.hops[k - 1].do
    /\ exactIn => \A k \in 1..Len(r.hops) :
                      NEq(r.hops[k].ai, NSub(Offered(r, k), HopFee(exactIn, ex, r, k)))
    /\ ~exactIn => /\ NEq(RouteOut(r), r.amt)
                   /\ ex \/ \A k \in 1..Len(r.hops) : NLt(r.hops[k].f, U)

SwapShapeOK(exactIn, ex, rs, total) ==
    /\ Len(rs) >= 1
    /\ \A j \in 1..Len(rs) : RouteOK(exactIn, ex, rs[j])
    /\ \A j \in 1..Len(rs) : /\ rs[j].hops[1].di = rs[1].hops[1].di
                             /\ rs[j].hops[Len(rs[j].hops)].do = rs[1].hops[Len(rs[1].hops)].do
    /\ IF exactIn THEN NEq(total, SumRoutes(rs, 1, exactIn, ex, FALSE))     \* response = sum of what the routes paid out
                  ELSE NEq(total, SumRoutes(rs, 1, exactIn, ex, TRUE))      \* response = sum of what the routes cost, fee included

AllHopsOK(l, rs) == \A j \in 1..Len(rs) : \A k \in 1..Len(rs[j].hops) : HopOK(l, rs[j].hops[k])

---------------------------------------------------------------------------
(* states *)
LedgerNonNeg(l) ==
    /\ \A a \in Acct : VNonNeg(l.bal[a])
    /\ VNonNeg(l.sup)
    /\ \A p \in Slots : VNonNeg(l.pools[p].res) /\ NLe(NZero, l.pools[p].sh)


InitWith(c, bal0, sup0) ==
    /\ cfg = c
    /\ L = [bal |-> bal0, sup |-> sup0, pools |-> [p \in 1..c.np |-> [on |-> FALSE, res |-> [d \in 1..(c.nd + c.np) |-> NZero], sh |-> NZero]]]
    /\ G = [direct |-> [p \in 1..c.np |-> [d \in 1..(c.nd + c.np) |-> NZero]],
            sup0 |-> sup0,
            out |-> [d \in 1..(c.nd + c.np) |-> NSub(sup0[d], SumUpTo(bal0, c.na + c.np + 2, d))]]
    /\ last = [op |-> "init", ok |-> TRUE, who |-> 0, parties |-> {}, pools |-> {}]

Done(l, g, op, ok, who, parties, pools) ==
    /\ L' = l /\ G' = g
    /\ last' = [op |-> op, ok |-> ok, who |-> who, parties |-> parties, pools |-> pools]
    /\ UNCHANGED cfg

---------------------------------------------------------------------------
(* actions: one per public entry point (family) *)

\* MsgCreateBalancerPool / MsgCreateStableswapPool: the creator pays the creation fee into the
\* community pool (unless exempt) and the initial liquidity v into the pool's account; the pool
\* record starts with v and the initial share supply, which is minted to the creator
CreatePool(t, p, v) ==
    /\ t \in Actors /\ p \in Slots /\ ~L.pools[p].on
    /\ \A q \in Slots : q < p => L.pools[q].on                  \* ids are handed out in order
    /\ VNonNeg(v) /\ Cardinality({d \in Den : NPos(v[d])}) >= 2
    /\ NEq(v[SD(p)], NZero)
    /\ LET fee == IF t \in cfg.free THEN ZeroV ELSE cfg.createFee
           l1  == Mint(L, t, SD(p), cfg.initShares)
           l2  == [l1 EXCEPT !.pools[p] = [on |-> TRUE, res |-> v, sh |-> cfg.initShares]]
           l3  == Move(Move(l2, t, Com, fee), t, PA(p), v)
       IN  /\ LedgerNonNeg(l3)
           /\ Done(l3, G, "create", TRUE, t, {t, Com, PA(p)}, {p})

\* MsgJoinPool, MsgJoinSwapExternAmountIn, MsgJoinSwapShareAmountOut: v in, s shares minted
Join(t, p, v, s) ==
    /\ t \in Actors /\ p \in Slots /\ L.pools[p].on
    /\ VNonNeg(v) /\ NLe(NZero, s)       \* (a tiny all-asset join of a tiny pool may mint 0 shares: rounding is C04's business)
    /\ \A d \in Den : NPos(v[d]) => NPos(L.pools[p].res[d])      \* only assets of the pool
    /\ LET l1 == JoinL(L, t, p, v, s)
       IN  /\ LedgerNonNeg(l1)
           /\ Done(l1, G, "join", TRUE, t, {t, PA(p)}, {p})

\* MsgExitPool, MsgExitSwapShareAmountIn (net effect), MsgExitSwapExternAmountOut: s shares burnt, v out
Exit(t, p, v, s) ==
    /\ t \in Actors /\ p \in Slots /\ L.pools[p].on
    /\ VNonNeg(v) /\ NPos(s)
    /\ LET l1 == ExitL(L, t, p, v, s)
       IN  /\ LedgerNonNeg(l1)
           /\ Done(l1, G, "exit", TRUE, t, {t, PA(p)}, {p})

\* poolmanager / gamm MsgSwapExactAmountIn/Out, MsgSplitRouteSwapExactAmountIn/Out
Swap(t, exactIn, ex, rs, total) ==
    /\ t \in Actors
    /\ SwapShapeOK(exactIn, ex, rs, total)
    /\ AllHopsOK(L, rs)
    /\ LET l1 == RoutesL(L, t, exactIn, ex, rs, 1)
           ps == UNION {{rs[j].hops[k].p : k \in 1..Len(rs[j].hops)} : j \in 1..Len(rs)}
       IN  /\ LedgerNonNeg(l1)
           /\ Done(l1, G, "swap", TRUE, t, {t, Fee} \cup {PA(p) : p \in ps}, ps)

\* bank MsgSend by an actor; what lands on a pool account is "sent to it directly"
Send(t, to, v) ==
    /\ t \in Actors /\ to \in Acct /\ VNonNeg(v)
    /\ LET l1 == Move(L, t, to, v)
           g1 == IF IsPoolAcct(to) THEN [G EXCEPT !.direct[SlotOf(to)] = VAdd(@, v)] ELSE G
       IN  /\ LedgerNonNeg(l1)
           /\ Done(l1, g1, "send", TRUE, t, {t, to}, {})

\* explicit test funding (the only way a non-share supply may change)
Fund(t, v) ==
    /\ t \in Actors /\ VNonNeg(v)
    /\ \A p \in Slots : NEq(v[SD(p)], NZero)
    /\ LET l1 == [L EXCEPT !.bal[t] = VAdd(@, v), !.sup = VAdd(@, v)]
       IN  Done(l1, [G EXCEPT !.sup0 = VAdd(@, v)], "fund", TRUE, t, {t}, {})

\* a message that failed, or a configuration change (taker fee settings): the ledger stays
Noop(op, t, ok) == Done(L, G, op, ok, t, {}, {})

---------------------------------------------------------------------------
(* properties *)

\* the tokens held by each pool's account equal the reserves the pool reports plus direct sends
PoolBackedOf(l, g) == \A p \in Slots : \A d \in Den :
    NEq(l.bal[PA(p)][d], NAdd(IF l.pools[p].on THEN l.pools[p].res[d] ELSE NZero, g.direct[p][d]))
\* the circulating supply of each share token equals the share total the pool reports
ShareSupplyOf(l) == \A p \in Slots : NEq(l.sup[SD(p)], IF l.pools[p].on THEN l.pools[p].sh ELSE NZero)
\* the supply of every non-share token is unchanged (by anything but explicit funding)
SupplyConstOf(l, g) == \A d \in BaseDen : NEq(l.sup[d], g.sup0[d])
\* every unit is in exactly one tracked place: actors, pool accounts, fee collector, community pool
AccountedOf(l, g) == \A d \in Den : NEq(NAdd(SumUpTo(l.bal, cfg.na + cfg.np + 2, d), g.out[d]), l.sup[d])

PoolBacked  == PoolBackedOf(L, G)
ShareSupply == ShareSupplyOf(L)
SupplyConst == SupplyConstOf(L, G)
Accounted   == AccountedOf(L, G)
NonNeg      == LedgerNonNeg(L)
DeadPoolsEmpty == \A p \in Slots : ~L.pools[p].on => VEq(L.pools[p].res, ZeroV) /\ NEq(L.pools[p].sh, NZero)

SameHistory == cfg' = cfg /\ last'.op # "init"      \* trace specs concatenate histories with a reset step (op "init")

\* failed messages and configuration changes move nothing
FailedNoEffect == [][(SameHistory /\ (~last'.ok \/ last'.op = "config")) => L' = L /\ G' = G]_vars
\* only the parties of an action see their balances change, only the pools involved their records
OnlyPartiesChange == [][SameHistory =>
                          /\ \A a \in Acct \ last'.parties : L'.bal[a] = L.bal[a]
                          /\ \A p \in Slots \ last'.pools : L'.pools[p] = L.pools[p]]_vars
\* what a trader pays in a swap is in a pool, with the fee collector, or back with the trader:
\* over trader + pools + collector nothing appears or disappears, and no supply moves
SwapConserves == [][(SameHistory /\ last'.op = "swap") =>
                      /\ L'.sup = L.sup
                      /\ \A d \in Den : NEq(SumUpTo(L'.bal, cfg.na + cfg.np + 2, d), SumUpTo(L.bal, cfg.na + cfg.np + 2, d))]_vars
\* the taker-fee collector and the community pool only ever receive
CollectorsOnlyReceive == [][(SameHistory /\ last'.op # "rewind") =>
                              \A d \in Den : NLe(L.bal[Fee][d], L'.bal[Fee][d]) /\ NLe(L.bal[Com][d], L'.bal[Com][d])]_vars
=============================================================================
