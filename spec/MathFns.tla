------------------------------- MODULE MathFns -------------------------------
(***************************************************************************)
(* Property C13: the approximate functions of osmomath meet their stated    *)
(* error bounds, the monotone square roots are least upper roots and        *)
(* monotone, significant-figure rounding moves a value by at most half a    *)
(* unit of the last kept digit, the binary searches answer within the       *)
(* requested tolerance on the requested side or report non-convergence, and *)
(* outside their domain the functions fail loudly.                          *)
(*                                                                         *)
(* The state is the most recent call of a public entry point: `last` =      *)
(* [f, x, n, ok, r, w]: function name, raw big arguments (scaled integers:  *)
(* BigDec value * 10^PBD, Dec value * 10^PDEC, Int as is), small integer    *)
(* arguments, whether it returned (no panic / error), the raw result, and   *)
(* UNTRUSTED witnesses supplied by the caller of this specification (a      *)
(* high-precision log2 of the base for real powers and custom-base logs;    *)
(* the image of the found input for the binary searches).  A witness is     *)
(* never believed: it is verified through the certified enclosures of       *)
(* Exp2Cert (clause "witness") or recomputed (clause "harness") before use. *)
(*                                                                         *)
(* Failures(prev, c) is the set of clauses of the property that the call c  *)
(* (made right after prev) violates; Call(c) - the single action behind     *)
(* every entry-point action below - is enabled iff that set is empty.       *)
(* Every inequality against a transcendental ideal is evaluated on          *)
(* certified enclosures so that a clause is reported only when the stated   *)
(* bound is CERTAINLY exceeded (slack of the enclosures < 5e-49 relative).  *)
(*                                                                         *)
(* Tolerances (derivations; calibration on the unchanged tree in            *)
(* bin/checks/c13.py):                                                      *)
(*  Exp2        y = 2^x (1 +- 1e-18), 0 <= x <= 2^9          (exp2.go doc)  *)
(*  LogBase2    |y - log2 x| <= 1e-32                     (decimal.go doc)  *)
(*  Ln, TickLog, CustomBaseLog  y = L(x) / c:  the error of the formula the *)
(*              code documents, to first order: |y c* - log2 x| <=          *)
(*              1e-32 + |y| eps_c + |c| 1e-36, eps_c = error of the divisor: *)
(*              1e-36 (the 36-decimal constants log2 e, log2 1.0001) resp.  *)
(*              1e-32 (CustomBaseLog: the divisor is itself a LogBase2)      *)
(*  Pow         |y - b^e| <= b^floor(e) (P T(b) + 1e-12) + 1e-16, P = 1e-8, *)
(*              T = 1 for b >= 1/2 and (1-b)/b below (tail of the monotone  *)
(*              series; math.go: "for small bases this bound applies");     *)
(*              1e-12, 1e-16: rounding of <= 1.5e5 terms / of Power at 1e-18 *)
(*  PowApprox   the same with floor(e) = 0 and P = the requested precision  *)
(*  PowerInteger |r - d^n| <= (n max(1,|d|)^(n-1) + 1) 1e-36 (n roundings)  *)
(***************************************************************************)
EXTENDS Exp2Cert

CONSTANTS PBD,      \* decimals of BigDec (36)
          PDEC      \* decimals of Dec    (18)

VARIABLE last
vars == <<last>>

SBD   == B!Pow10(PBD)
SDec  == B!Pow10(PDEC)
S2Dec == B!Pow10(2 * PDEC)        \* scale of the Pow tolerances
I(k)  == B!OfInt(k)
P10(k) == B!Pow10(IF k < 0 THEN 0 ELSE k)      \* (negative only in unused definitions of reduced models)
Abs(x) == B!Abs(x)
Cl(name, holds) == IF holds THEN {} ELSE {name}

NoCall == [f |-> "none", x |-> <<>>, n |-> <<>>, ok |-> FALSE, r |-> B!Zero, w |-> <<>>]

---------------------------------------------------------------------------
(* witnesses: L / 10^CW = log2(v / sv) to within 1e-45                      *)
WDelta == P10(CW - 45)
WLo(L) == B!Sub(L, WDelta)
WHi(L) == B!Add(L, WDelta)
WitnessOK(L, v, sv) == LET E == Enc(L, SCW)
                       IN  /\ EncHiLe(E, WDelta, SCW, v, sv)      \* certainly 2^(L-delta) <= v/sv
                           /\ EncLoGe(E, WDelta, SCW, v, sv)      \* certainly 2^(L+delta) >= v/sv

---------------------------------------------------------------------------
(* Exp2 *)
Exp2Max == B!Mul(I(512), SBD)
Exp2F(c) ==
    LET x   == c.x[1]
        e18 == P10(18)
    IN  IF ~(B!Sign(x) >= 0 /\ B!Le(x, Exp2Max)) THEN Cl("loud", ~c.ok)
        ELSE IF ~c.ok THEN {"refused"}
        ELSE LET E == Enc(x, SBD)
             IN  Cl("accuracy",
                    /\ EncLoLe(E, B!Zero, B!One, B!Mul(c.r, e18), B!Mul(SBD, B!Sub(e18, B!One)))   \* 2^x (1 - 1e-18) <= y
                    /\ EncHiGe(E, B!Zero, B!One, B!Mul(c.r, e18), B!Mul(SBD, B!Add(e18, B!One))))  \* y <= 2^x (1 + 1e-18)

---------------------------------------------------------------------------
(* logarithms:  y * c = log2 x  within  tol,  c in [clo, chi] / 10^CW       *)
SZ     == P10(CW + PBD)
EpsLog == P10(CW + PBD - 32)                       \* 1e-32
LogAccurate(x, y, clo, chi, epsc, quo) ==
    LET z1  == B!Mul(y, clo)
        z2  == B!Mul(y, chi)
        tol == B!Add(B!Add(EpsLog, B!Mul(Abs(y), epsc)),
                     IF quo THEN B!Max(Abs(clo), Abs(chi)) ELSE B!Zero)
        zmin == B!Min(z1, z2)
        up  == B!Add(B!Sub(B!Max(z1, z2), zmin), tol)
    IN  IF WidenOK(up, SZ)   \* one enclosure, widened by the (tiny) tolerances
        THEN LET E == Enc(zmin, SZ)
             IN  /\ EncLoLe(E, tol, SZ, x, SBD)                     \* 2^(y c - tol) <= x
                 /\ EncHiGe(E, up, SZ, x, SBD)                      \* x <= 2^(y c + tol)
        ELSE /\ PowLoLe(B!Sub(zmin, tol), SZ, x, SBD)
             /\ PowHiGe(B!Add(B!Max(z1, z2), tol), SZ, x, SBD)

EpsConst == P10(CW - 36)       \* the 36-decimal base-change constants are good to 1e-36
EpsLog2  == P10(CW - 32)       \* a LogBase2 divisor is good to 1e-32

LogF(c) ==
    LET x == c.x[1]
    IN  IF B!Sign(x) <= 0 THEN Cl("loud", ~c.ok)
        ELSE IF ~c.ok THEN {"refused"}
        ELSE Cl("accuracy",
                CASE c.f = "LogBase2" -> LogAccurate(x, c.r, SCW, SCW, B!Zero, FALSE)
                  [] c.f = "Ln"       -> LogAccurate(x, c.r, C2ELo, C2EHi, EpsConst, TRUE)
                  [] c.f = "TickLog"  -> LogAccurate(x, c.r, C2TLo, C2THi, EpsConst, TRUE))

CustomLogF(c) ==
    LET x == c.x[1]
        a == c.x[2]
        L == c.w[1]
    IN  IF B!Sign(x) <= 0 \/ B!Sign(a) <= 0 \/ B!Eq(a, SBD) THEN Cl("loud", ~c.ok)
        ELSE IF ~WitnessOK(L, a, SBD) THEN {"witness"}
        \* a base within 1e-30 of 1: its own logarithm carries < 2 significant digits, nothing is promised
        ELSE IF ~c.ok THEN Cl("refused", B!Lt(Abs(L), P10(CW - 30)))
        ELSE Cl("accuracy", LogAccurate(x, c.r, WLo(L), WHi(L), EpsLog2, TRUE))

---------------------------------------------------------------------------
(* real powers of Dec *)
PowPrec == P10(PDEC - 8)
Noise1  == P10(2 * PDEC - 12)
Noise2  == P10(2 * PDEC - 16)
ConvLo  == P10(PDEC - 4)                        \* the series is required to converge for
ConvHi  == B!Mul(I(19999), P10(PDEC - 4))       \* 1e-4 <= base <= 1.9999 (150 000 terms)
NCap    == 300
Half    == B!Mul(I(5), P10(PDEC - 1))
SW      == B!Mul(SDec, SCW)

\* P * max(1, (1-b)/b) at scale 10^(2 PDEC), rounded up
PT(b, P) == IF B!Ge(B!Mul(I(2), b), SDec) THEN B!Mul(P, SDec)
            ELSE B!CeilDiv(B!Mul(B!Mul(P, SDec), B!Sub(SDec, b)), b)

\* y (raw, 10^PDEC) within tol (10^(2 PDEC)) of b^e, through the verified witness L
AccW(b, e, y, tol, L) ==
    LET yy == B!Mul(y, SDec)
        t  == B!Mul(Abs(e), WDelta)            \* |e| delta, at scale SW (far below 1)
        E  == Enc(B!Mul(e, L), SW)
    IN  IF WidenOK(t, SW)
        THEN /\ EncLoLe(E, t, SW, B!Add(yy, tol), S2Dec)
             /\ EncHiGe(E, t, SW, B!Sub(yy, tol), S2Dec)
        ELSE /\ PowLoLe(B!Min(B!Mul(e, WLo(L)), B!Mul(e, WHi(L))), SW, B!Add(yy, tol), S2Dec)
             /\ PowHiGe(B!Max(B!Mul(e, WLo(L)), B!Mul(e, WHi(L))), SW, B!Sub(yy, tol), S2Dec)
\* the same for e = p/q in lowest terms by integer powers only:  (y-tol)^q <= b^p <= (y+tol)^q
AccQ(b, p, q, y, tol) ==
    LET yy  == B!Mul(y, SDec)
        ylo == B!Sub(yy, tol)
        yhi == B!Add(yy, tol)
        bp  == B!Mul(B!Pow(b, p), B!Pow(S2Dec, q))
        sp  == B!Pow(SDec, p)
    IN  /\ B!Le(bp, B!Mul(B!Pow(yhi, q), sp))
        /\ (B!Sign(ylo) <= 0 \/ B!Le(B!Mul(B!Pow(ylo, q), sp), bp))
Accurate(b, e, y, tol, L) ==
    LET g == B!Gcd(e, SDec)
        p == B!QuoT(e, g)
        q == B!QuoT(SDec, g)
    IN  IF B!Sign(e) >= 0 /\ B!Le(q, I(16)) /\ B!Le(p, I(3000))
        THEN AccQ(b, B!ToInt(p), B!ToInt(q), y, tol)
        ELSE AccW(b, e, y, tol, L)
\* an upper bound of b^e at scale 10^(2 PDEC), at least 1
ValueHi(e, L) == LET E == Enc(B!Max(B!Mul(e, WLo(L)), B!Mul(e, WHi(L))), SW)
                 IN  IF Tiny(E.n) THEN S2Dec
                     ELSE IF Huge(E.n) THEN B!Mul(S2Dec, P10(2000))
                     ELSE B!Max(S2Dec, EncHiScaled(E, S2Dec))

PowF(c) ==
    LET b == c.x[1]
        e == c.x[2]
        L == c.w[1]
        n    == B!FloorDiv(e, SDec)
        frac == B!Sub(e, B!Mul(n, SDec))
        nn   == IF B!Gt(n, I(NCap)) THEN NCap ELSE B!ToInt(n)
        tolIn  == B!Add(B!CeilDiv(B!Mul(B!Pow(b, nn), B!Add(PT(b, PowPrec), Noise1)), B!Pow(SDec, nn)), Noise2)
        tolOut == B!Add(B!CeilDiv(B!Mul(ValueHi(e, L), B!Add(PT(b, PowPrec), Noise1)), S2Dec), Noise2)
        overflow == B!Ge(B!Pow(b, nn + 1), B!Mul(B!Pow(BTwo, 250), B!Pow(SDec, nn + 1)))
        slow == ~B!Eq(frac, B!Zero) /\ ~B!Eq(frac, Half) /\ (B!Lt(b, ConvLo) \/ B!Gt(b, ConvHi))
    IN  IF B!Sign(b) <= 0 \/ B!Ge(b, B!Mul(I(2), SDec)) THEN Cl("loud", ~c.ok)
        ELSE IF ~WitnessOK(L, b, SDec) THEN {"witness"}
        \* a negative exponent is outside the domain (PowApprox: 0 <= exp): fail, or at least not a wrong number
        ELSE IF B!Sign(e) < 0 THEN (IF ~c.ok THEN {} ELSE Cl("loud", AccW(b, e, c.r, tolOut, L)))
        ELSE IF B!Gt(n, I(NCap)) /\ B!Ge(b, SDec) THEN {"unsupported"}
        ELSE IF ~c.ok THEN Cl("refused", overflow \/ slow)
        ELSE Cl("accuracy", Accurate(b, e, c.r, tolIn, L))

PowApproxF(c) ==
    LET b == c.x[1]
        e == c.x[2]
        P == c.x[3]
        L == c.w[1]
        indom == B!Le(b, B!Mul(I(2), SDec)) /\ B!Sign(e) >= 0 /\ B!Lt(e, SDec) /\ B!Sign(P) >= 0
        tolIn  == B!Add(B!Add(PT(b, P), Noise1), Noise2)
        tolOut == B!Add(B!CeilDiv(B!Mul(ValueHi(e, L), B!Add(PT(b, Abs(P)), Noise1)), S2Dec), Noise2)
        slow == ~B!Eq(e, Half) /\ (B!Lt(b, ConvLo) \/ B!Gt(b, ConvHi) \/ B!Lt(P, PowPrec))
    IN  IF B!Sign(b) <= 0 THEN Cl("loud", ~c.ok)
        ELSE IF ~WitnessOK(L, b, SDec) THEN {"witness"}
        ELSE IF ~indom THEN (IF ~c.ok THEN {} ELSE Cl("loud", AccW(b, e, c.r, tolOut, L)))
        ELSE IF ~c.ok THEN Cl("refused", slow)
        ELSE Cl("accuracy", Accurate(b, e, c.r, tolIn, L))

(* integer powers of BigDec *)
MaxBD == B!Pow(BTwo, 1143)
PowerIntF(c) ==
    LET d  == c.x[1]
        n  == c.n[1]
        dn == B!Pow(d, n)                      \* d^n at scale 10^(n PBD)
        sc == B!Pow(SBD, IF n = 0 THEN 0 ELSE n - 1)
        M  == B!Max(SBD, Abs(d))
    IN  IF n > 128 THEN {"unsupported"}          \* (the recorder stays below: d^n is formed exactly)
        ELSE IF n = 0 THEN Cl("accuracy", c.ok /\ B!Eq(c.r, SBD))
        ELSE IF ~c.ok THEN Cl("refused", B!Ge(Abs(dn), B!Mul(MaxBD, sc)))
        ELSE Cl("accuracy", B!Le(Abs(B!Sub(B!Mul(c.r, sc), dn)),
                                 B!Add(B!Mul(I(n), B!Pow(M, n - 1)), sc)))

---------------------------------------------------------------------------
(* monotone square roots: the least value on the grid whose square is at   *)
(* least the input                                                          *)
SqrtFamily(f) == CASE f \in {"MonotonicSqrt", "MonotonicSqrtMut", "MustMonotonicSqrt"} -> "dec"
                   [] f \in {"MonotonicSqrtBigDec", "MonotonicSqrtBigDecMut", "MustMonotonicSqrtBigDec"} -> "bd"
                   [] OTHER -> "none"
IsLeastRoot(r, x, S) ==
    LET xs == B!Mul(x, S)
    IN  /\ B!Sign(r) >= 0
        /\ B!Ge(B!Mul(r, r), xs)
        /\ (B!Sign(r) = 0 \/ B!Lt(B!Mul(B!Sub(r, B!One), B!Sub(r, B!One)), xs))
SqrtF(c) ==
    LET x == c.x[1]
        S == IF SqrtFamily(c.f) = "dec" THEN SDec ELSE SBD
    IN  IF B!Sign(x) < 0 THEN Cl("loud", ~c.ok)
        ELSE IF ~c.ok THEN {"refused"}
        ELSE Cl("least-root", IsLeastRoot(c.r, x, S))
\* never decreases when the input increases (consecutive calls of one family)
MonotoneOK(p, c) ==
    (SqrtFamily(c.f) # "none" /\ SqrtFamily(p.f) = SqrtFamily(c.f) /\ p.ok /\ c.ok)
    => /\ (B!Ge(c.x[1], p.x[1]) => B!Ge(c.r, p.r))
       /\ (B!Le(c.x[1], p.x[1]) => B!Le(c.r, p.r))

---------------------------------------------------------------------------
(* significant-figure rounding: d -> round(d 10^k T) / (10^k T), k the     *)
(* number of leading zeros after the point; the last kept digit has the     *)
(* unit 1 / (10^k T)                                                        *)
RECURSIVE LeadingZeros(_, _)
LeadingZeros(d, k) == IF k >= PDEC \/ B!Ge(B!Mul(d, P10(k + 1)), SDec) THEN k ELSE LeadingZeros(d, k + 1)
SigFigF(c) ==
    LET d == c.x[1]
        T == c.x[2]
        a == Abs(d)
        k == LeadingZeros(a, 0)
        u == B!Mul(T, P10(k))
    IN  \* zero rounds to zero whatever the figure count (with a nonsensical count it may also be refused)
        IF B!Sign(d) = 0 THEN Cl("rounding", c.ok => B!Sign(c.r) = 0) \cup Cl("refused", c.ok \/ B!Sign(T) <= 0)
        ELSE IF B!Sign(T) <= 0 THEN Cl("loud", ~c.ok)
        ELSE IF ~c.ok THEN Cl("refused", B!Sign(d) < 0 \/ B!Ge(B!Mul(a, u), B!Pow(BTwo, 300)))
        ELSE Cl("rounding", B!Le(B!Mul(B!Mul(I(2), u), Abs(B!Sub(c.r, d))), SDec))     \* |r - d| <= 1/(2u)

---------------------------------------------------------------------------
(* error tolerances and binary searches                                     *)
(* V = scale of the compared values (1: Int, 10^PDEC: Dec, 10^PBD: BigDec), *)
(* U = grid on which the implementation forms the relative error.           *)
\* n = <<hasAdd, hasMul, dir>>, dir: 0 unconstrained, 1 RoundUp (target <= image), 2 RoundDown (target >= image)
SideOK(t, img, dir) == CASE dir = 1 -> B!Le(t, img) [] dir = 2 -> B!Ge(t, img) [] OTHER -> TRUE
AddOK(t, img, add, V) == B!Le(B!Mul(Abs(B!Sub(t, img)), SDec), B!Mul(add, V))
MinAbs(t, img) == B!Min(Abs(t), Abs(img))
\* |t - img| / min <= mul (+ half a unit of the grid U when slack)
MulOK(t, img, mul, U, slack) ==
    \/ B!Eq(t, img)                                   \* equal values meet every tolerance
    \/ /\ B!Sign(MinAbs(t, img)) # 0
       /\ B!Le(B!Mul(B!Mul(Abs(B!Sub(t, img)), I(2)), U),
               B!Mul(B!Add(B!Mul(B!Mul(I(2), mul), B!QuoT(U, SDec)), IF slack THEN B!One ELSE B!Zero), MinAbs(t, img)))
MulActive(hasMul, mul) == hasMul = 1 /\ B!Sign(mul) # 0
Meets(t, img, hasAdd, add, hasMul, mul, dir, V, U, slack) ==
    /\ SideOK(t, img, dir)
    /\ (hasAdd = 1 => AddOK(t, img, add, V))
    /\ (MulActive(hasMul, mul) => MulOK(t, img, mul, U, slack))

\* the monotone family the driver searches over: c0 + c1 x + c2 floor(x^2 / V) on raw values
Image(cs, x, V) == B!Add(B!Add(cs[1], B!Mul(cs[2], x)), B!Mul(cs[3], B!FloorDiv(B!Mul(x, x), V)))

\* x = <<lo, hi, target, add, mul, c0, c1, c2>>, n = <<hasAdd, hasMul, dir, maxIterations, evaluations of f>>
SearchF(c, V, U) ==
    LET lo == c.x[1]  hi == c.x[2]  t == c.x[3]  add == c.x[4]  mul == c.x[5]
        cs == <<c.x[6], c.x[7], c.x[8]>>
        img == Image(cs, c.r, V)
    IN  IF ~c.ok THEN Cl("iteration-cap", c.n[5] = (IF c.n[4] > 0 THEN c.n[4] ELSE 0))
        ELSE Cl("harness", B!Eq(img, c.w[1]))
             \cup Cl("iteration-cap", c.n[5] <= c.n[4])
             \cup Cl("range", B!Le(lo, c.r) /\ B!Le(c.r, hi))
             \cup Cl("side", SideOK(t, img, c.n[3]))
             \cup Cl("additive", c.n[1] = 1 => AddOK(t, img, add, V))
             \cup Cl("multiplicative", MulActive(c.n[2], mul) => MulOK(t, img, mul, U, TRUE))

\* x = <<expected, actual, add, mul>>, n = <<hasAdd, hasMul, dir>>, r in {-1, 0, 1}
CompareF(c, V, U) ==
    LET t == c.x[1]  a == c.x[2]
        res == IF B!Sign(c.r) = 0 THEN 0 ELSE B!Sign(c.r)
        undefined == MulActive(c.n[2], c.x[4]) /\ B!Sign(MinAbs(t, a)) = 0     \* relative error of zero
    IN  IF ~c.ok THEN {"refused"}
        ELSE Cl("accepts-outside-tolerance", res = 0 => Meets(t, a, c.n[1], c.x[3], c.n[2], c.x[4], c.n[3], V, U, TRUE))
             \cup Cl("rejects-inside-tolerance",
                     (Meets(t, a, c.n[1], c.x[3], c.n[2], c.x[4], c.n[3], V, U, FALSE) /\ ~undefined) => res = 0)
             \cup Cl("sign", (res = 1 => B!Gt(t, a)) /\ (res = -1 => (B!Lt(t, a) \/ undefined)))

---------------------------------------------------------------------------
(* order of magnitude.  C13 names no bound for it: only its documented       *)
(* CONTRACT (panics on negatives) belongs to the property.  Whether the      *)
(* answer is the order of magnitude, 10^r <= d < 10^(r+1), is evaluated as   *)
(* an OBSERVATION (reported, never a verdict).                               *)
OrderF(c) == IF B!Sign(c.x[1]) < 0 THEN Cl("loud", ~c.ok) ELSE Cl("refused", c.ok)
OrderObs(c) ==
    LET d == c.x[1]
        r == IF B!Sign(c.r) = 0 THEN 0 ELSE B!ToInt(c.r)
        lhs(k) == IF k >= 0 THEN B!Mul(SDec, P10(k)) ELSE SDec       \* 10^k <= d/S  <=>  S 10^k <= d (k>=0), S <= d 10^-k
        rhs(k) == IF k >= 0 THEN d ELSE B!Mul(d, P10(-k))
    IN  IF ~c.ok \/ B!Sign(d) < 0 THEN {}
        ELSE IF B!Sign(d) = 0 THEN Cl("order", r = 0)
        ELSE Cl("order", B!Le(lhs(r), rhs(r)) /\ B!Lt(rhs(r + 1), lhs(r + 1)))

---------------------------------------------------------------------------
Functions == {"Exp2", "LogBase2", "Ln", "TickLog", "CustomBaseLog", "Pow", "PowApprox",
              "PowerInteger", "PowerIntegerMut",
              "MonotonicSqrt", "MonotonicSqrtMut", "MustMonotonicSqrt",
              "MonotonicSqrtBigDec", "MonotonicSqrtBigDecMut", "MustMonotonicSqrtBigDec",
              "SigFigRound", "BinarySearch", "BinarySearchBigDec",
              "Compare", "CompareDec", "CompareBigDec", "OrderOfMagnitude"}

Arity == [Exp2 |-> <<1, 0, 0>>, LogBase2 |-> <<1, 0, 0>>, Ln |-> <<1, 0, 0>>, TickLog |-> <<1, 0, 0>>,
          CustomBaseLog |-> <<2, 0, 1>>, Pow |-> <<2, 0, 1>>, PowApprox |-> <<3, 0, 1>>,
          PowerInteger |-> <<1, 1, 0>>, PowerIntegerMut |-> <<1, 1, 0>>,
          MonotonicSqrt |-> <<1, 0, 0>>, MonotonicSqrtMut |-> <<1, 0, 0>>, MustMonotonicSqrt |-> <<1, 0, 0>>,
          MonotonicSqrtBigDec |-> <<1, 0, 0>>, MonotonicSqrtBigDecMut |-> <<1, 0, 0>>,
          MustMonotonicSqrtBigDec |-> <<1, 0, 0>>,
          SigFigRound |-> <<2, 0, 0>>, BinarySearch |-> <<8, 5, 1>>, BinarySearchBigDec |-> <<8, 5, 1>>,
          Compare |-> <<4, 3, 0>>, CompareDec |-> <<4, 3, 0>>, CompareBigDec |-> <<4, 3, 0>>,
          OrderOfMagnitude |-> <<1, 0, 0>>]

WellFormed(c) == /\ c.f \in Functions
                 /\ Len(c.x) = Arity[c.f][1] /\ Len(c.n) = Arity[c.f][2] /\ Len(c.w) = Arity[c.f][3]

\* the clauses of C13 violated by call c alone
ContractFailures(c) ==
    IF ~WellFormed(c) THEN {"unknown-op"}
    ELSE CASE c.f = "Exp2" -> Exp2F(c)
           [] c.f \in {"LogBase2", "Ln", "TickLog"} -> LogF(c)
           [] c.f = "CustomBaseLog" -> CustomLogF(c)
           [] c.f = "Pow" -> PowF(c)
           [] c.f = "PowApprox" -> PowApproxF(c)
           [] c.f \in {"PowerInteger", "PowerIntegerMut"} -> PowerIntF(c)
           [] SqrtFamily(c.f) # "none" -> SqrtF(c)
           [] c.f = "SigFigRound" -> SigFigF(c)
           [] c.f = "BinarySearch" -> SearchF(c, B!One, SDec)
           [] c.f = "BinarySearchBigDec" -> SearchF(c, SBD, SBD)
           [] c.f = "Compare" -> CompareF(c, B!One, SDec)
           [] c.f = "CompareDec" -> CompareF(c, SDec, SDec)
           [] c.f = "CompareBigDec" -> CompareF(c, SBD, SBD)
           [] c.f = "OrderOfMagnitude" -> OrderF(c)

\* facts outside the statement of C13 worth reporting (never part of a verdict)
Observations(c) == IF WellFormed(c) /\ c.f = "OrderOfMagnitude" THEN OrderObs(c) ELSE {}

\* ... and by c made right after prev
Failures(prev, c) == ContractFailures(c) \cup (IF WellFormed(c) THEN Cl("monotone", MonotoneOK(prev, c)) ELSE {})

---------------------------------------------------------------------------
Init == last = NoCall

\* the one action: a call whose outcome the property allows
Call(c) == /\ Failures(last, c) = {}
           /\ last' = c

\* one action per public entry point (all are Call restricted to that entry point)
Exp2Call(c)          == c.f = "Exp2" /\ Call(c)
LogCall(c)           == c.f \in {"LogBase2", "Ln", "TickLog", "CustomBaseLog"} /\ Call(c)
PowCall(c)           == c.f \in {"Pow", "PowApprox", "PowerInteger", "PowerIntegerMut"} /\ Call(c)
SqrtCall(c)          == SqrtFamily(c.f) # "none" /\ Call(c)
SigFigCall(c)        == c.f = "SigFigRound" /\ Call(c)
SearchCall(c)        == c.f \in {"BinarySearch", "BinarySearchBigDec", "Compare", "CompareDec", "CompareBigDec"} /\ Call(c)
OrderCall(c)         == c.f = "OrderOfMagnitude" /\ Call(c)
AnyCall(c) == Exp2Call(c) \/ LogCall(c) \/ PowCall(c) \/ SqrtCall(c) \/ SigFigCall(c) \/ SearchCall(c) \/ OrderCall(c)

\* histories are concatenated: forget the previous call
Reset == last' = NoCall

---------------------------------------------------------------------------
(* the property *)
\* every call meets its bound / fails loudly outside its domain
Contract == last = NoCall \/ ContractFailures(last) = {}
\* the square roots never decrease when the input increases
SqrtMonotone == [][MonotoneOK(last, last')]_vars
=============================================================================
