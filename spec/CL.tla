--------------------------------- MODULE CL ---------------------------------
(***************************************************************************)
(* Concentrated-liquidity pool: core bookkeeping (property C07).            *)
(*                                                                         *)
(* The state is ONE record `cl` so that the effect of every entry point is  *)
(* a pure operator S -> S' and composite entry points (add-to-position =    *)
(* full withdraw ; create) are compositions of the same operators the code  *)
(* composes.                                                                *)
(*   cl.pos   : id -> [own, lo, hi, liq]         open positions            *)
(*   cl.ticks : tick -> [gross, net, sqrt]       initialised ticks, with    *)
(*              the square-root price of the tick (as logged / MC grid)     *)
(*   cl.tick, cl.sqrt, cl.liq : current tick, sqrt price, active liquidity *)
(*   cl.curLo, cl.curHi : sqrt prices of the edges of the tick-spacing cell  *)
(*              that contains cl.tick (position boundaries live on that grid) *)
(*   cl.maxId : largest position id ever used                              *)
(* Numbers (liquidity, sqrt prices) go through a small interface so that    *)
(* the bounded model uses TLC integers and trace validation BigNum.         *)
(***************************************************************************)
EXTENDS Integers, Sequences, FiniteSets

CONSTANTS NZero, NAdd(_, _), NSub(_, _), NLe(_, _)

VARIABLE cl

NNeg(x)   == NSub(NZero, x)
NLt(a, b) == NLe(a, b) /\ a # b
NPos(x)   == NLt(NZero, x)

RECURSIVE NSumSet(_, _)
NSumSet(f, S) == IF S = {} THEN NZero
                 ELSE LET x == CHOOSE x \in S : TRUE IN NAdd(f[x], NSumSet(f, S \ {x}))

Empty == [pos |-> <<>>, ticks |-> <<>>, tick |-> 0, sqrt |-> NZero, liq |-> NZero,
          curLo |-> NZero, curHi |-> NZero, maxId |-> 0]

Ids(S)      == DOMAIN S.pos
InRange(p, t) == p.lo <= t /\ t < p.hi

---------------------------------------------------------------------------
(* pure state transformers *)

\* add dl (may be negative) of liquidity at the two boundary ticks of [lo,hi)
TickUpd(S, t, dGross, dNet, sq) ==
    IF t \in DOMAIN S.ticks
    THEN [x \in DOMAIN S.ticks |->
             IF x = t THEN [gross |-> NAdd(S.ticks[x].gross, dGross), net |-> NAdd(S.ticks[x].net, dNet),
                            sqrt |-> S.ticks[x].sqrt]
             ELSE S.ticks[x]]
    ELSE [x \in DOMAIN S.ticks \cup {t} |->
             IF x = t THEN [gross |-> dGross, net |-> dNet, sqrt |-> sq] ELSE S.ticks[x]]

DropEmptyTicks(tk, cand) ==
    LET dead == {t \in cand \cap DOMAIN tk : tk[t].gross = NZero}
    IN  [x \in DOMAIN tk \ dead |-> tk[x]]

\* CreatePosition: id, owner, range, liquidity created; for the first position of an
\* empty pool the initial price (tick, sqrt, bucket edges) is an input as well.
ApplyCreate(S, id, own, lo, hi, dl, sqLo, sqHi, price) ==
    LET first == Ids(S) = {}
        S0 == IF first THEN [S EXCEPT !.tick = price.tick, !.sqrt = price.sqrt,
                                      !.curLo = price.curLo, !.curHi = price.curHi] ELSE S
        t1 == TickUpd(S0, lo, dl, dl, sqLo)
        S1 == [S0 EXCEPT !.ticks = t1]
        t2 == TickUpd(S1, hi, dl, NNeg(dl), sqHi)
    IN  [S1 EXCEPT !.ticks = t2,
                   !.pos = [x \in DOMAIN S.pos \cup {id} |->
                               IF x = id THEN [own |-> own, lo |-> lo, hi |-> hi, liq |-> dl] ELSE S.pos[x]],
                   !.liq = IF InRange([lo |-> lo, hi |-> hi], S0.tick) THEN NAdd(S0.liq, dl) ELSE S0.liq,
                   !.maxId = id]

CreateOK(S, id, lo, hi, dl) == id > S.maxId /\ lo < hi /\ NPos(dl)

\* WithdrawPosition: remove dl (0 < dl <= liq); the position disappears when emptied,
\* emptied ticks are deleted, and the pool is un-initialised when the last position leaves.
ApplyWithdraw(S, id, dl) ==
    LET p  == S.pos[id]
        t1 == TickUpd(S, p.lo, NNeg(dl), NNeg(dl), NZero)
        S1 == [S EXCEPT !.ticks = t1]
        t2 == TickUpd(S1, p.hi, NNeg(dl), dl, NZero)
        t3 == DropEmptyTicks(t2, {p.lo, p.hi})
        full == dl = p.liq
        pos2 == IF full THEN [x \in DOMAIN S.pos \ {id} |-> S.pos[x]]
                ELSE [S.pos EXCEPT ![id].liq = NSub(p.liq, dl)]
        liq2 == IF InRange(p, S.tick) THEN NSub(S.liq, dl) ELSE S.liq
    IN  IF DOMAIN pos2 = {}
        THEN [Empty EXCEPT !.maxId = S.maxId]
        ELSE [S EXCEPT !.ticks = t3, !.pos = pos2, !.liq = liq2]

WithdrawOK(S, id, dl) == id \in Ids(S) /\ NPos(dl) /\ NLe(dl, S.pos[id].liq)

ApplyTransfer(S, id, to) == [S EXCEPT !.pos[id].own = to]

\* A swap moves the price.  Going down (zero for one) from tick T0 to T1 crosses the
\* initialised ticks t with T1 < t <= T0 (crossing t leaves the pool on tick t - 1 with
\* sqrt price = sqrt(t)); going up crosses those with T0 < t <= T1.  Active liquidity
\* changes by the signed net liquidity of each crossed tick.
Crossed(S, down, newTick) ==
    IF down THEN {t \in DOMAIN S.ticks : newTick < t /\ t <= S.tick}
            ELSE {t \in DOMAIN S.ticks : S.tick < t /\ t <= newTick}

ApplySwap(S, down, newTick, newSqrt, newLo, newHi) ==
    LET X   == Crossed(S, down, newTick)
        net == NSumSet([t \in X |-> S.ticks[t].net], X)
    IN  [S EXCEPT !.tick = newTick, !.sqrt = newSqrt, !.curLo = newLo, !.curHi = newHi,
                  !.liq = IF down THEN NSub(S.liq, net) ELSE NAdd(S.liq, net)]

\* (the stored tick is not compared: a pool rounds its INITIAL tick down to the spacing grid, so the
\* first swap may report a higher tick although the price went down; the price is what moves)
SwapOK(S, down, newTick, newSqrt) ==
    /\ Ids(S) # {}
    /\ IF down THEN NLe(newSqrt, S.sqrt) ELSE NLe(S.sqrt, newSqrt)

---------------------------------------------------------------------------
(* C07: the bookkeeping always agrees with the positions *)

BoundaryTicks(S) == {S.pos[i].lo : i \in Ids(S)} \cup {S.pos[i].hi : i \in Ids(S)}

LiqAgrees(S) ==
    S.liq = NSumSet([i \in Ids(S) |-> S.pos[i].liq], {i \in Ids(S) : InRange(S.pos[i], S.tick)})

TicksAgree(S) ==
    /\ DOMAIN S.ticks = BoundaryTicks(S)
    /\ \A t \in DOMAIN S.ticks :
         LET los == {i \in Ids(S) : S.pos[i].lo = t}
             his == {i \in Ids(S) : S.pos[i].hi = t}
             liqOf == [i \in Ids(S) |-> S.pos[i].liq]
         IN  /\ S.ticks[t].gross = NAdd(NSumSet(liqOf, los), NSumSet(liqOf, his))
             /\ S.ticks[t].net = NSub(NSumSet(liqOf, los), NSumSet(liqOf, his))

\* the current price lies in the (closed) price range of the spacing cell of the current tick, hence
\* price and tick classify every position alike (below / inside / above its range) - the existing
\* ones (checked explicitly) and any that could be created next (boundaries are grid ticks)
PriceAgrees(S) ==
    Ids(S) # {} =>
      /\ (S.curLo # NZero => NLe(S.curLo, S.sqrt))
      /\ (S.curHi # NZero => NLe(S.sqrt, S.curHi))
      /\ \A i \in Ids(S) :
           LET p == S.pos[i] sl == S.ticks[p.lo].sqrt sh == S.ticks[p.hi].sqrt IN
           /\ NLt(sl, sh)
           /\ S.tick < p.lo => NLe(S.sqrt, sl)
           /\ InRange(p, S.tick) => NLe(sl, S.sqrt) /\ NLe(S.sqrt, sh)
           /\ S.tick >= p.hi => NLe(sh, S.sqrt)

NoPositionsNoPrice(S) ==
    Ids(S) = {} => S.tick = 0 /\ S.sqrt = NZero /\ S.liq = NZero /\ DOMAIN S.ticks = {}

WellFormed(S) == \A i \in Ids(S) : S.pos[i].lo < S.pos[i].hi /\ NPos(S.pos[i].liq) /\ i <= S.maxId

InvLiq     == LiqAgrees(cl)
InvTicks   == TicksAgree(cl)
InvPrice   == PriceAgrees(cl)
InvEmpty   == NoPositionsNoPrice(cl)
InvWF      == WellFormed(cl)

\* ids, owners and ranges never change (owner: except by a transfer step, checked by the
\* transfer action itself); ids are never reused
Immutable(S, T, transferred) ==
    /\ T.maxId >= S.maxId
    /\ \A i \in Ids(T) \ Ids(S) : i > S.maxId
    /\ \A i \in Ids(S) \cap Ids(T) :
         /\ T.pos[i].lo = S.pos[i].lo /\ T.pos[i].hi = S.pos[i].hi
         /\ (i \notin transferred => T.pos[i].own = S.pos[i].own)
=============================================================================
