---------------------------- MODULE TokenFactory ----------------------------
(***************************************************************************)
(* x/tokenfactory as a state machine (property C20, factory-token part).    *)
(*                                                                         *)
(* A factory denomination is the pair <<creator, subdenom>> (the string     *)
(* factory/{creator}/{subdenom} of the code).  Abstract state:              *)
(*   admin   existing denom -> account that administers it; "" = renounced  *)
(*   bal     existing denom -> holder -> amount                              *)
(*   supply  existing denom -> total supply reported by the bank            *)
(*   meta    existing denom -> description set through SetDenomMetadata      *)
(*           ("" = the default metadata written by CreateDenom)              *)
(*   hook    existing denom -> before-send hook contract ("" = none)         *)
(*   last    the last message and its outcome                                *)
(*                                                                         *)
(* One message format for the whole msg server (unused fields "" / 0):      *)
(*   [k, s, c, sub, amt, x, y]                                              *)
(*   create : s creates subdenom sub          (c is ignored: the code has   *)
(*            no way to name another creator; the denom is <<s, sub>>)      *)
(*   mint   : s mints amt of <<c,sub>> to x   (x = "": to itself)           *)
(*   burn   : s burns amt of <<c,sub>> from x (x = "": from itself)         *)
(*   force  : s moves amt of <<c,sub>> from x to y                          *)
(*   admin  : s makes x the administrator     (x = "": renounce)            *)
(*   meta   : s sets the description to x                                    *)
(*   hook   : s sets the before-send hook to x (x = "": remove)             *)
(*   send   : holder s sends amt of its own balance to x (NOT an admin      *)
(*            message: ordinary bank transfer / deposit into a module       *)
(*            account; it is how a protected account may come to hold a     *)
(*            factory token at all)                                          *)
(*                                                                         *)
(* Semantics are pure operators over a state record (Can / Eff), so that    *)
(* bounded models, the behaviour generator (per-state table of accepted     *)
(* messages) and the trace specification share one definition.              *)
(***************************************************************************)
EXTENDS Integers, FiniteSets

CONSTANTS
    Accts,     \* ordinary accounts
    Mods,      \* protected module accounts (every name registered in the app's module-account permissions)
    Hooks,     \* addresses of contracts that can be installed as before-send hook
    Broke,     \* accounts unable to pay the denom creation fee
    BlockAmt   \* a transfer of exactly this amount out of an ordinary account may be vetoed by an installed hook

VARIABLES admin, bal, supply, meta, hook, last

vars  == <<admin, bal, supply, meta, hook, last>>
state == <<admin, bal, supply, meta, hook>>

Holders == Accts \cup Mods
AdminKinds == {"mint", "burn", "force", "admin", "meta", "hook"}

St == [admin |-> admin, bal |-> bal, supply |-> supply, meta |-> meta, hook |-> hook]
Empty == [admin |-> <<>>, bal |-> <<>>, supply |-> <<>>, meta |-> <<>>, hook |-> <<>>]

Msg(k, s, c, sub, amt, x, y) == [k |-> k, s |-> s, c |-> c, sub |-> sub, amt |-> amt, x |-> x, y |-> y]

DenomOf(m) == IF m.k = "create" THEN <<m.s, m.sub>> ELSE <<m.c, m.sub>>
Exists(s, d) == d \in DOMAIN s.admin
\* the authorisation rule: the sender is the CURRENT administrator (nobody once renounced)
IsAdmin(s, d, who) == Exists(s, d) /\ who # "" /\ s.admin[d] = who
Self(m) == IF m.x = "" THEN m.s ELSE m.x

\* an installed hook may veto (it is a contract: its answer is an input)
MayVeto(s, m) ==
    /\ m.k \in {"burn", "force", "send"}
    /\ Exists(s, DenomOf(m))
    /\ s.hook[DenomOf(m)] # ""
    /\ m.amt = BlockAmt
    /\ (IF m.k = "burn" THEN Self(m) ELSE IF m.k = "force" THEN m.x ELSE m.s) \notin Mods

Can(s, m) ==
    LET d == DenomOf(m) IN
    CASE m.k = "create" -> ~Exists(s, d) /\ m.s \notin Broke
      [] m.k = "mint"   -> IsAdmin(s, d, m.s) /\ m.amt > 0 /\ Self(m) \in Holders /\ Self(m) \notin Mods
      [] m.k = "burn"   -> IsAdmin(s, d, m.s) /\ m.amt > 0 /\ Self(m) \in Holders /\ Self(m) \notin Mods
                              /\ s.bal[d][Self(m)] >= m.amt
      [] m.k = "force"  -> IsAdmin(s, d, m.s) /\ m.amt > 0 /\ m.x \in Holders /\ m.y \in Holders
                              /\ m.x \notin Mods /\ m.y \notin Mods /\ s.bal[d][m.x] >= m.amt
      [] m.k = "admin"  -> IsAdmin(s, d, m.s)
      [] m.k = "meta"   -> IsAdmin(s, d, m.s)
      [] m.k = "hook"   -> IsAdmin(s, d, m.s) /\ (m.x = "" \/ m.x \in Hooks)
      [] m.k = "send"   -> Exists(s, d) /\ m.amt > 0 /\ m.s \in Holders /\ m.x \in Holders
                              /\ s.bal[d][m.s] >= m.amt
      [] OTHER -> FALSE

Put(f, k, v) == [x \in DOMAIN f \cup {k} |-> IF x = k THEN v ELSE f[x]]
Move(b, from, to, amt) == [h \in DOMAIN b |-> b[h] - (IF h = from THEN amt ELSE 0) + (IF h = to THEN amt ELSE 0)]

Eff(s, m) ==
    LET d == DenomOf(m) IN
    CASE m.k = "create" -> [admin  |-> Put(s.admin, d, m.s),
                            bal    |-> Put(s.bal, d, [h \in Holders |-> 0]),
                            supply |-> Put(s.supply, d, 0),
                            meta   |-> Put(s.meta, d, ""),
                            hook   |-> Put(s.hook, d, "")]
      [] m.k = "mint"   -> [s EXCEPT !.bal[d][Self(m)] = @ + m.amt, !.supply[d] = @ + m.amt]
      [] m.k = "burn"   -> [s EXCEPT !.bal[d][Self(m)] = @ - m.amt, !.supply[d] = @ - m.amt]
      [] m.k = "force"  -> [s EXCEPT !.bal[d] = Move(@, m.x, m.y, m.amt)]
      [] m.k = "admin"  -> [s EXCEPT !.admin[d] = m.x]
      [] m.k = "meta"   -> [s EXCEPT !.meta[d] = m.x]
      [] m.k = "hook"   -> [s EXCEPT !.hook[d] = m.x]
      [] m.k = "send"   -> [s EXCEPT !.bal[d] = Move(@, m.s, m.x, m.amt)]

\* the outcome of delivering m in state s: ok says whether the code accepted it
After(s, m, ok) == IF ok THEN Eff(s, m) ELSE s
\* which outcomes are possible
OkAllowed(s, m, ok) == IF MayVeto(s, m) THEN (ok => Can(s, m)) ELSE (ok <=> Can(s, m))

Becomes(t) == /\ admin' = t.admin /\ bal' = t.bal /\ supply' = t.supply /\ meta' = t.meta /\ hook' = t.hook

\* dirty: the handler had written something to its own branch when it returned an error (the
\* transaction is rolled back all the same).  Tolerated only for a sender entitled to act: the
\* administrator whose message fails later (overdraft, veto, ...), never for anybody else.
Entitled(s, m) == IF m.k \in AdminKinds THEN IsAdmin(s, DenomOf(m), m.s) ELSE TRUE

Deliver(m, ok, dirty) ==
    /\ OkAllowed(St, m, ok)
    /\ dirty => (~ok /\ Entitled(St, m))
    /\ Becomes(After(St, m, ok))
    /\ last' = [k |-> m.k, s |-> m.s, d |-> DenomOf(m), x |-> m.x, y |-> m.y, ok |-> ok, dirty |-> dirty]

Last0 == [k |-> "init", s |-> "", d |-> <<"", "">>, x |-> "", y |-> "", ok |-> TRUE, dirty |-> FALSE]

InitEmpty == /\ admin = <<>> /\ bal = <<>> /\ supply = <<>> /\ meta = <<>> /\ hook = <<>> /\ last = Last0

---------------------------------------------------------------------------
(* properties *)
RECURSIVE SumOver(_, _)
SumOver(f, S) == IF S = {} THEN 0 ELSE LET x == CHOOSE y \in S : TRUE IN f[x] + SumOver(f, S \ {x})

TypeOK ==
    /\ DOMAIN bal = DOMAIN admin /\ DOMAIN supply = DOMAIN admin /\ DOMAIN meta = DOMAIN admin /\ DOMAIN hook = DOMAIN admin
    /\ \A d \in DOMAIN admin : /\ admin[d] \in Holders \cup {""}
                               /\ \A h \in Holders : bal[d][h] >= 0
\* nothing is minted or burnt outside the books
SupplyIsSumOfBalances == \A d \in DOMAIN admin : supply[d] = SumOver(bal[d], Holders)

NewHistory == last'.k = "init"     \* trace specs concatenate histories

\* an administrative message succeeds only when sent by the administrator in office
OnlyAdminActs == [][ (last'.k \in AdminKinds /\ last'.ok) =>
                        (last'.d \in DOMAIN admin /\ last'.s # "" /\ admin[last'.d] = last'.s) ]_vars
\* a refused message leaves every record and balance as it was
RefusedChangesNothing == [][ ~last'.ok => state' = state ]_vars
\* and when the sender is not the administrator the handler has not even written to its own branch
StrangerWritesNothing == [][ (last'.k \in AdminKinds /\ ~(last'.d \in DOMAIN admin /\ last'.s # "" /\ admin[last'.d] = last'.s))
                                => ~last'.dirty ]_vars
\* a message about one denomination never touches another one
OtherDenomsUntouched == [][ ~NewHistory => \A d \in DOMAIN admin : d # last'.d =>
                              /\ d \in DOMAIN admin'
                              /\ admin'[d] = admin[d] /\ bal'[d] = bal[d] /\ supply'[d] = supply[d]
                              /\ meta'[d] = meta[d] /\ hook'[d] = hook[d] ]_vars
\* denominations are created in the sender's namespace only, administered by the sender, and never disappear
Namespaces == [][ ~NewHistory =>
                    /\ DOMAIN admin \subseteq DOMAIN admin'
                    /\ \A d \in DOMAIN admin' \ DOMAIN admin :
                          /\ last'.k = "create" /\ last'.ok
                          /\ d[1] = last'.s /\ admin'[d] = last'.s
                          /\ supply'[d] = 0 ]_vars
\* after the administrator is renounced nobody exercises any of the powers, ever
RenouncedIsForever == [][ ~NewHistory => \A d \in DOMAIN admin : admin[d] = "" =>
                              /\ admin'[d] = "" /\ supply'[d] = supply[d] /\ meta'[d] = meta[d] /\ hook'[d] = hook[d]
                              /\ (bal'[d] # bal[d] => last'.k = "send") ]_vars
\* the powers never reach into a protected module account: only a holder's own transfer changes such a balance
ModulesOutOfReach == [][ ~NewHistory => \A d \in DOMAIN admin : \A h \in Mods :
                              bal'[d][h] # bal[d][h] => last'.k = "send" ]_vars
\* only the three money messages move balances, only the administrator's
BalancesMoveOnlyByAdmin == [][ ~NewHistory => \A d \in DOMAIN admin :
                              bal'[d] # bal[d] => (last'.k = "send" \/ (last'.k \in {"mint", "burn", "force"} /\ last'.s = admin[d])) ]_vars
=============================================================================
