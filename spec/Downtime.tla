------------------------------ MODULE Downtime ------------------------------
(***************************************************************************)
(* x/downtime-detector: "has it been at least RECOVERY since the chain was  *)
(* last down for at least DOWNTIME?"  (extra check X02)                     *)
(*                                                                         *)
(* The module keeps, for each duration d of a fixed documented ladder       *)
(* (30s, 1m, 2m, 3m, 4m, 5m, 10m, 20m, 30m, 40m, 50m, 1h, 1.5h, 2h, 2.5h,  *)
(* 3h, 4h, 5h, 6h, 9h, 12h, 18h, 24h, 36h, 48h), the time of the last block  *)
(* that arrived at least d after its predecessor, plus the time of the last *)
(* block.  Contracts and other modules read it through                      *)
(* GetLastDowntimeOfLength(d) and RecoveredSinceDowntimeOfLength(d, r).     *)
(*                                                                         *)
(* What a user of this module relies on (from README.md, the proto doc of   *)
(* the query "has it been at least $RECOVERY_DURATION units of time since   *)
(* the chain has been down for $DOWNTIME_DURATION", the comments of abci.go *)
(* / genesis.go and the evident intent), each a for-all statement:          *)
(*                                                                         *)
(* P1 LatestGap   For every genesis, every sequence of block times and      *)
(*    every ladder duration d, after every block the stored last downtime   *)
(*    of length d is EXACTLY the time of the latest block whose gap to its  *)
(*    predecessor (the genesis last-block time for the first block) was     *)
(*    >= d; when there was no such block it is exactly the value imported   *)
(*    at genesis (Unix time 0 for durations the genesis does not list).     *)
(* P2 LastBlock   The stored last block time is exactly the time of the     *)
(*    most recent block (the genesis value before any block).               *)
(* P3 Ladder      A block is NEVER recorded as a downtime of length d       *)
(*    without being recorded as a downtime of every shorter ladder length;  *)
(*    an entry only ever changes to the time of the current block; a block  *)
(*    with a gap below the shortest ladder duration changes no entry.       *)
(*    Hence from a consistent genesis (entries non-increasing in d, none    *)
(*    later than the last block) always d1 <= d2 => last(d1) >= last(d2)    *)
(*    and last(d) <= last block time.                                       *)
(* P4 Recovered   For every ladder duration d, recovery r > 0 and query     *)
(*    time now, RecoveredSinceDowntimeOfLength answers EXACTLY              *)
(*    (now - last(d) >= r).  In terms of the history: TRUE only if every    *)
(*    block that was a downtime of length d is at least r old; FALSE only   *)
(*    if some such block (or the genesis entry) is younger than r.          *)
(* P5 Refusals    A query for a duration outside the ladder, or with        *)
(*    recovery 0, is ALWAYS refused; every query with a ladder duration     *)
(*    and r > 0 is ALWAYS answered.  (r < 0 is left open: undocumented.)    *)
(* P6 Purity      Queries and genesis export NEVER change the state; only   *)
(*    BeginBlock and InitGenesis do.                                        *)
(* P7 Genesis     InitGenesis makes the state exactly the genesis (epoch 0  *)
(*    for unlisted durations); ExportGenesis lists the last block time and  *)
(*    every ladder duration exactly once with its stored value; importing   *)
(*    an export reproduces the state exactly (so the imported chain answers *)
(*    every later query as the exporting chain would).                      *)
(* P8 The ladder is exactly the documented list (checked on the trace's     *)
(*    first line, which carries the code's table).                          *)
(*                                                                         *)
(* Assumption: block times are non-decreasing (BFT time).                   *)
(*                                                                         *)
(* Time values are abstract numbers behind NAdd/NSub/NLe: native integers   *)
(* (unit 30 s) in the bounded model, BigNum nanoseconds on recorded traces. *)
(***************************************************************************)
EXTENDS Integers, Sequences, FiniteSets

CONSTANTS Ladder,          \* the ladder durations, shortest first
          Epoch0,          \* Unix time 0: default of entries a genesis does not list
          NZero, NSub(_, _), NLe(_, _)

\* the documented ladder (README.md), in seconds
LadderSeconds == <<30, 60, 120, 180, 240, 300, 600, 1200, 1800, 2400, 3000, 3600, 5400, 7200, 9000,
                   10800, 14400, 18000, 21600, 32400, 43200, 64800, 86400, 129600, 172800>>

N   == Len(Ladder)
Idx == 1..N
NLt(a, b) == ~NLe(b, a)
NEq(a, b) == NLe(a, b) /\ NLe(b, a)

ASSUME LadderIncreasing == /\ NLt(NZero, Ladder[1])
                           /\ \A i \in 1..(N - 1) : NLt(Ladder[i], Ladder[i + 1])

VARIABLES
    lb,       \* time of the last block
    last,     \* [Idx -> time] : last downtime of length Ladder[i]
    g0,       \* ghost: the state imported by the last InitGenesis [lb, last]
    blocks,   \* ghost: blocks since then, Seq of [t, reach] (reach = ladder indices d with gap >= d)
    resp      \* the call that produced this state and what it returned

state == <<lb, last, g0, blocks>>
vars  == <<lb, last, g0, blocks, resp>>

---------------------------------------------------------------------------
(* genesis documents: [lb |-> time, ent |-> Seq of [d |-> ladder index, t |-> time]] *)
WellFormedGen(g) ==
    /\ \A k \in 1..Len(g.ent) : g.ent[k].d \in Idx
    /\ \A k1, k2 \in 1..Len(g.ent) : g.ent[k1].d = g.ent[k2].d => k1 = k2

GenLast(g) == [i \in Idx |-> IF \E k \in 1..Len(g.ent) : g.ent[k].d = i
                             THEN g.ent[CHOOSE k \in 1..Len(g.ent) : g.ent[k].d = i].t
                             ELSE Epoch0]

GenesisOf(b, l) == [lb |-> b, ent |-> [i \in Idx |-> [d |-> i, t |-> l[i]]]]

InitWith(g) ==
    /\ lb = g.lb
    /\ last = GenLast(g)
    /\ g0 = [lb |-> g.lb, last |-> GenLast(g)]
    /\ blocks = <<>>
    /\ resp = [q |-> "init"]

---------------------------------------------------------------------------
(* entry points *)

\* module InitGenesis
InitGenesis(g) ==
    /\ WellFormedGen(g)
    /\ lb' = g.lb
    /\ last' = GenLast(g)
    /\ g0' = [lb |-> g.lb, last |-> GenLast(g)]
    /\ blocks' = <<>>
    /\ resp' = [q |-> "init"]

Reach(gap) == {i \in Idx : NLe(Ladder[i], gap)}

\* module BeginBlock at block time t
BeginBlock(t) ==
    /\ NLe(lb, t)
    /\ LET gap == NSub(t, lb) IN
        /\ last' = [i \in Idx |-> IF NLe(Ladder[i], gap) THEN t ELSE last[i]]
        /\ blocks' = Append(blocks, [t |-> t, reach |-> Reach(gap)])
    /\ lb' = t
    /\ g0' = g0
    /\ resp' = [q |-> "block"]

\* keeper GetLastDowntimeOfLength(d) returned (ok, t)
GetLast(d, ok, t) ==
    /\ ok <=> d \in Idx
    /\ ok => NEq(t, last[d])
    /\ resp' = [q |-> "get", d |-> d, ok |-> ok, t |-> t]
    /\ UNCHANGED state

RecValid(d, r)   == d \in Idx /\ NLt(NZero, r)
RecRefused(d, r) == d \notin Idx \/ NEq(r, NZero)
RecAnswer(l, d, r, now) == NLe(r, NSub(now, l[d]))

\* query RecoveredSinceDowntimeOfLength(d, r) at block time `now` returned (ok, ans)
Recovered(d, r, now, ok, ans) ==
    /\ RecRefused(d, r) => ~ok
    /\ RecValid(d, r) => (ok /\ (ans <=> RecAnswer(last, d, r, now)))
    /\ resp' = [q |-> "rec", d |-> d, r |-> r, now |-> now, ok |-> ok, ans |-> ans]
    /\ UNCHANGED state

\* module ExportGenesis returned g
ExportIs(g, b, l) ==
    /\ NEq(g.lb, b)
    /\ Len(g.ent) = N
    /\ WellFormedGen(g)
    /\ \A i \in Idx : NEq(GenLast(g)[i], l[i])

Export(g) ==
    /\ ExportIs(g, lb, last)
    /\ resp' = [q |-> "export", gen |-> g]
    /\ UNCHANGED state

---------------------------------------------------------------------------
(* properties *)
MaxOf(S) == CHOOSE x \in S : \A y \in S : y <= x
Hits(i)  == {k \in 1..Len(blocks) : i \in blocks[k].reach}
Prev(k)  == IF k = 1 THEN g0.lb ELSE blocks[k - 1].t

\* the ghost is what its name says: reach of block k = ladder durations <= gap to the predecessor
GhostSoundAt(k) == blocks[k].reach = {i \in Idx : NLe(Ladder[i], NSub(blocks[k].t, Prev(k)))}
GhostSound      == \A k \in 1..Len(blocks) : GhostSoundAt(k)
GhostSoundLast  == blocks # <<>> => GhostSoundAt(Len(blocks))

\* P1
LatestGap == \A i \in Idx :
    NEq(last[i], IF Hits(i) = {} THEN g0.last[i] ELSE blocks[MaxOf(Hits(i))].t)

\* P2
LastBlockExact == NEq(lb, IF blocks = <<>> THEN g0.lb ELSE blocks[Len(blocks)].t)

\* P3
Consistent(l, b) == /\ \A i \in 1..(N - 1) : NLe(l[i + 1], l[i])
                    /\ \A i \in Idx : NLe(l[i], b)
Monotone == Consistent(g0.last, g0.lb) => Consistent(last, lb)

IsBlockStep == Len(blocks') = Len(blocks) + 1
Changed     == {i \in Idx : ~NEq(last'[i], last[i])}
DownwardClosed     == [][IsBlockStep => \A i \in Changed : \A j \in 1..i : NEq(last'[j], lb')]_vars
QuietBlockNoChange == [][(IsBlockStep /\ NLt(NSub(lb', lb), Ladder[1])) => Changed = {}]_vars

\* P4
IsRec == resp.q = "rec" /\ RecValid(resp.d, resp.r)
RecoveredExact == IsRec => (resp.ok /\ (resp.ans <=> NLe(resp.r, NSub(resp.now, last[resp.d]))))
RecoveredMeansQuiet == (IsRec /\ resp.ok /\ resp.ans) =>
    \A k \in Hits(resp.d) : NLe(resp.r, NSub(resp.now, blocks[k].t))
NotRecoveredMeansRecent == (IsRec /\ resp.ok /\ ~resp.ans) =>
    \/ \E k \in Hits(resp.d) : NLt(NSub(resp.now, blocks[k].t), resp.r)
    \/ (Hits(resp.d) = {} /\ NLt(NSub(resp.now, g0.last[resp.d]), resp.r))

\* P5
Refusals ==
    /\ (resp.q = "rec" /\ RecRefused(resp.d, resp.r)) => ~resp.ok
    /\ resp.q = "get" => ((resp.ok <=> resp.d \in Idx) /\ (resp.ok => NEq(resp.t, last[resp.d])))

\* P6
QueriesPure == [][resp'.q \in {"get", "rec", "export"} => UNCHANGED state]_vars

\* P7
ExportExact == resp.q = "export" => ExportIs(resp.gen, lb, last)
RoundTrip   == /\ WellFormedGen(GenesisOf(lb, last))
               /\ \A i \in Idx : NEq(GenLast(GenesisOf(lb, last))[i], last[i])
=============================================================================
