------------------------------ MODULE ValsetPref ------------------------------
(***************************************************************************)
(* x/valset-pref: validator-set preferences and weighted (un)delegation.    *)
(* Extra check X04.                                                         *)
(*                                                                         *)
(* WHAT A USER OF THIS MODULE RELIES ON (from README.md, the comments of    *)
(* keeper.go / validator_set.go / msg_server.go / types/msgs.go and the     *)
(* evident intent; not from the implementation).  "Funds" are coins of the  *)
(* staking denomination; d is a delegator, v a validator.                   *)
(*                                                                         *)
(* Preference                                                               *)
(*  S1 A stored preference ALWAYS is a non-empty list without duplicate     *)
(*     validators, every validator existed when it was stored, EVERY weight *)
(*     is positive and the weights sum to EXACTLY 1 ("the weights are in    *)
(*     decimal format from 0 to 1 and must add up to 1").                   *)
(*  S2 SetValidatorSetPreference is accepted ONLY IF the submitted list is  *)
(*     non-empty, has only positive weights, no duplicate and only existing *)
(*     validators, its weights sum to 1 when rounded to two decimals, and   *)
(*     it is not the list already stored; it is ALWAYS accepted when in     *)
(*     addition every weight has at most two significant digits and the sum *)
(*     is exactly 1.                                                        *)
(*  S3 An accepted list is stored with EXACTLY the submitted validators,    *)
(*     each weight rounded to two significant digits (0.5123 -> 0.51,       *)
(*     0.874 -> 0.87, 0.012 stays; at most half a unit of the second digit  *)
(*     away); NOTHING else changes (no funds move).                         *)
(*  S4 ONLY SetValidatorSetPreference and RedelegateValidatorSet signed by  *)
(*     d change d's preference.                                             *)
(*  Q1 UserValidatorPreferences(d) answers EXACTLY the stored preference    *)
(*     and fails iff there is none.                                         *)
(*                                                                         *)
(* DelegateToValidatorSet(d, x)                                             *)
(*  D1 is accepted ONLY IF d has a preference or, without one, an existing  *)
(*     staking position, and d's balance (with the pending rewards, which   *)
(*     staking pays out first) covers x; for 0 < x <= balance it is ALWAYS  *)
(*     accepted then.                                                       *)
(*  D2 With a preference every validator of the list except the last        *)
(*     receives EXACTLY floor(weight * x) and the last one the rest; without*)
(*     one "it delegates to the existing staking position": every validator *)
(*     d is delegated to receives x * (its stake / d's total stake), within *)
(*     one unit (+ x/10^18) per validator of the position.  In both cases   *)
(*     the parts sum to EXACTLY x, nobody else receives anything, the       *)
(*     balance decreases by EXACTLY x, the preference is unchanged.         *)
(*  D3 It NEVER leaves a delegation record without stake (the staking       *)
(*     module's own "positive delegation" invariant).                       *)
(*                                                                         *)
(* UndelegateFromValidatorSet: disabled - ALWAYS refused, changes nothing.  *)
(* UndelegateFromRebalancedValidatorSet(d, x)                               *)
(*  U1 is accepted ONLY IF d has delegations and x does not exceed d's      *)
(*     total stake; for 0 < x <= total stake it is ALWAYS accepted (unless  *)
(*     the staking module's unbonding-entry limit is reached): "undelegation*)
(*     should be possible".                                                 *)
(*  U2 EXACTLY x is undelegated in total; from every validator NEVER more   *)
(*     than d has delegated to it, and its part is x * (its stake / total   *)
(*     stake) within one unit (+ x/10^18) per validator; the undelegated    *)
(*     coins become unbonding entries of d; balance and preference are      *)
(*     unchanged ("the weights will be unchanged").                         *)
(*                                                                         *)
(* RedelegateValidatorSet(d, new list)                                      *)
(*  R1 is accepted ONLY IF the new list is valid as in S2, d has a          *)
(*     preference or a staking position ("existing set"), d is delegated to *)
(*     every validator of the existing set, and no validator that has to    *)
(*     give up stake is the target of an unfinished redelegation of d; it   *)
(*     is ALWAYS accepted when the list is as S2 demands for "always", d    *)
(*     has stake with every validator of the existing set and none of them  *)
(*     is the target of an unfinished redelegation of d.                    *)
(*  R2 The preference becomes the new list (rounded as in S3); d's total    *)
(*     stake is unchanged EXACTLY, nothing is unbonded, the balance is      *)
(*     unchanged; ONLY validators of the existing set give up stake, ONLY   *)
(*     validators of the new list gain stake, and afterwards every          *)
(*     validator of the new list holds weight * T more than what it held    *)
(*     outside the existing set and every other validator of the existing   *)
(*     set holds nothing, within one unit per validator involved (T = d's   *)
(*     stake with the existing set).                                        *)
(*                                                                         *)
(* WithdrawDelegationRewards(d)                                             *)
(*  W1 is accepted ONLY IF d is delegated to some validator.                *)
(*  W2 pays EXACTLY the whole units of the rewards pending with EVERY       *)
(*     validator d is delegated to (in or out of the preference); afterwards*)
(*     nothing is pending there; stake, unbondings, preference unchanged.   *)
(*                                                                         *)
(* DelegateBondedTokens(d, lock)                                            *)
(*  B1 is accepted ONLY IF the lock exists, is owned by d, holds only the   *)
(*     base denomination, is bonded (not unlocking) for at most two weeks,  *)
(*     has no synthetic (superfluid) lock, and d has a preference or a      *)
(*     staking position; it is ALWAYS accepted then.                        *)
(*  B2 The lock is gone and EXACTLY its amount is delegated as in D2; the   *)
(*     liquid balance is unchanged.                                         *)
(*                                                                         *)
(* Funds                                                                    *)
(*  C1 CONSERVED for every delegator over every history: balance + stake +  *)
(*     unbonding + locked = everything received from outside + staking      *)
(*     rewards paid out.  Rewards are paid ONLY as whole units of what was  *)
(*     pending with a validator, which is then reset.                       *)
(*  C2 A message signed by d NEVER changes the preference, balance, stake,  *)
(*     unbondings, redelegations or locks of another delegator.             *)
(*  C3 A refused message changes NOTHING.                                   *)
(*                                                                         *)
(* Inputs taken from the log (not constrained): error texts, the order in   *)
(* which a preference is stored, lock ids, which pending rewards the        *)
(* distribution module pays out as a side effect of a staking operation     *)
(* (only C1 constrains them), completion times.                             *)
(*                                                                         *)
(* Every entry point is an action with the call c (arguments, accepted?) and *)
(* an outcome record o (the per-validator amounts moved, the new reward and  *)
(* record tables ...): in the bounded model o is computed by a reference    *)
(* design, on recorded executions it is read off the projected state of the *)
(* real chain; either way the action demands the statements above of o.     *)
(* Numbers are abstract (NAdd, ...): native integers in the bounded model,  *)
(* BigNum on recorded executions.  Weights are integers in units of 1/WUnit,*)
(* pending rewards in units of 1/RUnit.                                     *)
(***************************************************************************)
EXTENDS Integers, Sequences, FiniteSets

CONSTANTS NAdd(_, _), NSub(_, _), NMul(_, _), NLe(_, _),
          NDiv(_, _),       \* floor division of non-negative numbers
          NOfInt(_),        \* a small natural number as a Num
          WUnit,            \* the weight 1
          RUnit,            \* one coin of pending rewards
          NPrec,            \* 10^k, k = decimals of a stake ratio (k = 18 in the code)
          Req(_, _)         \* Req(name, cond) = cond; trace validation prints the name when it fails

VARIABLES
    conf,    \* [id, nd : delegators 1..nd, nv : validators 1..nv, maxEntries]  (constant within a history)
    pref,    \* [d -> Seq([v, w])]   <<>> = no preference
    bal,     \* [d -> Num] liquid balance
    del,     \* [d -> [v -> Num]] stake
    rec,     \* [d -> [v -> BOOLEAN]] a delegation record exists
    unb,     \* [d -> [v -> [n : Nat entries, t : Num total]]] unbonding
    rin,     \* [d -> [v -> Nat]] unfinished redelegation entries of d INTO v
    pend,    \* [d -> [v -> Num]] pending staking rewards
    locks,   \* Seq([id, owner : 0..nd (0: somebody else), base, amt, long, unlocking, synth])
    gh,      \* ghost [in : [d -> Num]] received from outside + rewards paid out
    ev       \* the call just made [e, d, ok, ...]

vars == <<conf, pref, bal, del, rec, unb, rin, pend, locks, gh, ev>>

Z == NOfInt(0)
NLt(a, b) == ~NLe(b, a)
Pos(a) == NLt(Z, a)
AbsDiff(a, b) == IF NLe(a, b) THEN NSub(b, a) ELSE NSub(a, b)

Dels == 1..conf.nd
Vals == 1..conf.nv

RECURSIVE SumN(_)
SumN(s) == IF s = <<>> THEN Z ELSE NAdd(Head(s), SumN(Tail(s)))
ZeroRow == [v \in Vals |-> Z]
CountTrue(b) == Cardinality({v \in Vals : b[v]})

Stake(d) == SumN(del[d])
UnbTotal(ub) == SumN([v \in 1..Len(ub) |-> ub[v].t])
LockedOf(lk, d) == SumN([i \in 1..Len(lk) |-> IF lk[i].owner = d /\ lk[i].base THEN lk[i].amt ELSE Z])
FundsOf(b, dl, ub, lk, d) == NAdd(NAdd(b[d], SumN(dl[d])), NAdd(UnbTotal(ub[d]), LockedOf(lk, d)))

HasRec(d) == \E v \in Vals : rec[d][v]
HasStake(d) == \E v \in Vals : Pos(del[d][v])
NoEmptyRec(d) == \A v \in Vals : rec[d][v] => Pos(del[d][v])

---------------------------------------------------------------------------
(* preference lists                                                         *)

PrefVals(p) == {p[i].v : i \in 1..Len(p)}
NoDup(p) == \A i, j \in 1..Len(p) : i # j => p[i].v # p[j].v
SumW(p) == SumN([i \in 1..Len(p) |-> p[i].w])
\* the sum rounded to two decimals is 1:  |sum - 1| <= 0.005
SumRoundsToOne(p) == NLe(NMul(NOfInt(200), AbsDiff(SumW(p), WUnit)), WUnit)
WeightOf(p, v) == IF v \in PrefVals(p) THEN p[CHOOSE i \in 1..Len(p) : p[i].v = v].w ELSE Z

\* necessary for acceptance (S2); pos = FALSE: weight zero tolerated (see WeightsPositive)
ListOK(p, pos) ==
    /\ Len(p) > 0
    /\ \A i \in 1..Len(p) : IF pos THEN Pos(p[i].w) ELSE NLe(Z, p[i].w)
    /\ PrefVals(p) \subseteq Vals
    /\ NoDup(p)
    /\ SumRoundsToOne(p)
SameList(p, q) == Len(p) = Len(q) /\ \A i \in 1..Len(p) : \E j \in 1..Len(q) : p[i] = q[j]

\* the unit of the second significant digit of the weight g > 0 (0.01 for g >= 0.1, 0.001 for 0.01 <= g < 0.1 ...)
RECURSIVE UnitOf(_, _)
UnitOf(g, u) == IF NLe(NMul(NOfInt(10), u), g) \/ NLe(u, NOfInt(1)) THEN u ELSE UnitOf(g, NDiv(u, NOfInt(10)))
\* s is g rounded to two significant digits (ties either way)
RoundedTo(s, g) ==
    IF g = Z THEN s = Z
    ELSE LET u == UnitOf(g, NDiv(WUnit, NOfInt(100)))
         IN  NMul(NDiv(s, u), u) = s /\ NLe(NMul(NOfInt(2), AbsDiff(s, g)), u)
TwoDigits(p) == \A i \in 1..Len(p) : RoundedTo(p[i].w, p[i].w)
\* S3: q is the list p as it is stored
StoredFrom(q, p) ==
    /\ Len(q) = Len(p) /\ NoDup(q)
    /\ \A i \in 1..Len(p) : \E j \in 1..Len(q) : q[j].v = p[i].v /\ RoundedTo(q[j].w, p[i].w)

FloorShare(w, x) == NDiv(NMul(w, x), WUnit)

\* part is x * s / S within n units (+ n * x / NPrec):   |part * S - x * s| * NPrec <= n * S * (NPrec + x)
PropOK(part, x, s, S, n) ==
    NLe(NMul(AbsDiff(NMul(part, S), NMul(x, s)), NPrec), NMul(NMul(NOfInt(n), S), NAdd(NPrec, x)))

---------------------------------------------------------------------------
(* what every call leaves alone / does to the rewards                       *)

\* rewards drift by less than a thousandth of a coin when the distribution module closes a period
Drift(new, old) == NLe(new, old) /\ NLe(NMul(NSub(old, new), NOfInt(1000)), RUnit)

\* C2 and the reward part of C1: pn = the reward table after a call of d
RewardsOK(d, pn) ==
    /\ \A o \in Dels \ {d} : \A v \in Vals : Drift(pn[o][v], pend[o][v])
    /\ \A v \in Vals : pn[d][v] = Z \/ Drift(pn[d][v], pend[d][v])
PaidRow(d, pn) == [v \in Vals |-> IF pn[d][v] = Z THEN NDiv(pend[d][v], RUnit) ELSE Z]
Paid(d, pn) == SumN(PaidRow(d, pn))

\* the whole coins pending for d: a staking operation pays them out before it takes the coins it stakes
Payable(d) == SumN([v \in Vals |-> NDiv(pend[d][v], RUnit)])

Inflow(d, x) == gh' = [gh EXCEPT !.in[d] = NAdd(@, x)]

Refused(c) ==
    /\ ev' = c
    /\ UNCHANGED <<conf, pref, bal, del, rec, unb, rin, pend, locks, gh>>              \* C3

\* the rows of d after stake moved: records never disappear while stake is left, appear only where touched
RecOK(d, nr, touched, nd) ==
    \A v \in Vals : /\ Pos(nd[v]) => nr[v]
                    /\ (nr[v] /\ ~rec[d][v]) => v \in touched
                    /\ (rec[d][v] /\ ~nr[v]) => nd[v] = Z

---------------------------------------------------------------------------
(* SetValidatorSetPreference(d, p);  o = [stored]                        *)

SetPref(c, o) ==
    LET d == c.d  p == c.prefs IN
    /\ Req("S2 set accepted only if well formed", c.ok => ListOK(p, TRUE))
    /\ Req("S2 set refused when equal to the stored list", c.ok => ~SameList(p, pref[d]))
    /\ IF c.ok
       THEN /\ Req("S3 stored list = submitted list rounded", StoredFrom(o.stored, p))
            /\ pref' = [pref EXCEPT ![d] = o.stored]
            /\ ev' = c
            /\ UNCHANGED <<conf, bal, del, rec, unb, rin, pend, locks, gh>>
       ELSE Refused(c)

---------------------------------------------------------------------------
(* DelegateToValidatorSet(d, x) and the delegation half of                   *)
(* DelegateBondedTokens;  o = [inc : row, rec : row, pn : reward table]  *)

Basis(d) == pref[d] # <<>> \/ HasRec(d)
\* the list is well formed (S1) or the fallback position has stake everywhere
BasisSound(d) == IF pref[d] # <<>> THEN ListOK(pref[d], TRUE) /\ SumW(pref[d]) = WUnit
                 ELSE HasStake(d) /\ NoEmptyRec(d)

\* D2
SplitOK(d, x, inc) ==
    /\ \A v \in Vals : NLe(Z, inc[v])
    /\ Req("D2 the parts sum to the amount", SumN(inc) = x)
    /\ IF pref[d] # <<>>
       THEN LET p == pref[d] IN
            /\ Req("D2 only validators of the preference receive", \A v \in Vals \ PrefVals(p) : inc[v] = Z)
            /\ Req("D2 all but the last get floor(weight*amount)",
                   \A i \in 1..(Len(p) - 1) : inc[p[i].v] = FloorShare(p[i].w, x))
       ELSE LET S == Stake(d)  n == CountTrue(rec[d]) IN
            /\ Req("D2 only the staking position receives", \A v \in Vals : ~rec[d][v] => inc[v] = Z)
            /\ Req("D2 the position receives pro rata",
                   Pos(S) => \A v \in Vals : rec[d][v] => PropOK(inc[v], x, del[d][v], S, n))
Touched(d) == IF pref[d] # <<>> THEN PrefVals(pref[d]) ELSE {v \in Vals : rec[d][v]}

Delegate(c, o) ==
    LET d == c.d  x == c.x IN
    /\ Req("D1 accepted only with preference or position", c.ok => Basis(d))
    /\ Req("D1 accepted only if the balance covers it", c.ok => NLe(x, NAdd(bal[d], Payable(d))))
    /\ IF c.ok
       THEN LET nd == [v \in Vals |-> NAdd(del[d][v], o.inc[v])] IN
            /\ SplitOK(d, x, o.inc)
            /\ Req("C1 rewards", RewardsOK(d, o.pn))
            /\ Req("delegation records", RecOK(d, o.rec, Touched(d), nd))
            /\ del' = [del EXCEPT ![d] = nd]
            /\ rec' = [rec EXCEPT ![d] = o.rec]
            /\ pend' = o.pn
            /\ bal' = [bal EXCEPT ![d] = NAdd(NSub(@, x), Paid(d, o.pn))]
            /\ Inflow(d, Paid(d, o.pn))
            /\ ev' = c
            /\ UNCHANGED <<conf, pref, unb, rin, locks>>
       ELSE Refused(c)

---------------------------------------------------------------------------
(* UndelegateFromValidatorSet: disabled                                      *)

UndelegateDisabled(c, o) ==
    /\ Req("U0 the disabled message is always refused", ~c.ok)
    /\ Refused(c)

(* UndelegateFromRebalancedValidatorSet(d, x);                               *)
(* o = [dec : row, rec : row, un : row of entry counts, pn]              *)

UndelegateAcceptable(d, x) ==
    /\ Pos(x) /\ NLe(x, Stake(d)) /\ HasStake(d)
    /\ \A v \in Vals : rec[d][v] => unb[d][v].n < conf.maxEntries

Undelegate(c, o) ==
    LET d == c.d  x == c.x  S == Stake(d)  n == CountTrue(rec[d]) IN
    /\ Req("U1 undelegate accepted only with delegations", c.ok => HasRec(d))
    /\ Req("U1 accepted only up to the total stake", c.ok => NLe(x, S))
    /\ IF c.ok
       THEN LET nd == [v \in Vals |-> NSub(del[d][v], o.dec[v])] IN
            /\ Req("U2 never more than delegated",
                   \A v \in Vals : NLe(Z, o.dec[v]) /\ NLe(o.dec[v], del[d][v]))
            /\ Req("U2 never more than the amount in total", NLe(SumN(o.dec), x))
            /\ Req("U2 every validator gives its pro-rata part",
                   Pos(S) => \A v \in Vals : PropOK(o.dec[v], x, del[d][v], S, n))
            /\ Req("U2 an unbonding entry per validator that gives",
                   \A v \in Vals : /\ o.un[v] \in {unb[d][v].n, unb[d][v].n + 1}
                                   /\ Pos(o.dec[v]) => o.un[v] = unb[d][v].n + 1)
            /\ Req("C1 rewards", RewardsOK(d, o.pn))
            /\ Req("delegation records", RecOK(d, o.rec, {}, nd))
            /\ del' = [del EXCEPT ![d] = nd]
            /\ rec' = [rec EXCEPT ![d] = o.rec]
            /\ unb' = [unb EXCEPT ![d] = [v \in Vals |-> [n |-> o.un[v], t |-> NAdd(unb[d][v].t, o.dec[v])]]]
            /\ pend' = o.pn
            /\ bal' = [bal EXCEPT ![d] = NAdd(@, Paid(d, o.pn))]
            /\ Inflow(d, Paid(d, o.pn))
            /\ ev' = c
            /\ UNCHANGED <<conf, pref, rin, locks>>
       ELSE Refused(c)

---------------------------------------------------------------------------
(* RedelegateValidatorSet(d, p);                                             *)
(* o = [stored, nd : row (stake after), rec : row, ri : row, pn]         *)

ExistingSet(d) == IF pref[d] # <<>> THEN PrefVals(pref[d]) ELSE {v \in Vals : rec[d][v]}
SetStake(d) == SumN([v \in Vals |-> IF v \in ExistingSet(d) THEN del[d][v] ELSE Z])

RedelegateAcceptable(d, p) ==
    /\ ListOK(p, TRUE) /\ TwoDigits(p) /\ SumW(p) = WUnit /\ ~SameList(p, pref[d])
    /\ ExistingSet(d) # {}
    /\ \A v \in ExistingSet(d) : Pos(del[d][v]) /\ rin[d][v] = 0
    /\ NoEmptyRec(d)
    /\ \A v \in Vals : rin[d][v] < conf.maxEntries

\* R2: the stake of v after the redelegation is on target, within k units
OnTarget(d, q, nd, k) ==
    LET T == SetStake(d)  E == ExistingSet(d) IN
    \A v \in E \cup PrefVals(q) :
        LET own == IF v \in E THEN Z ELSE del[d][v]
        IN  NLe(AbsDiff(NMul(NSub(nd[v], own), WUnit), NMul(WeightOf(q, v), T)), NMul(NOfInt(k), WUnit))

Redelegate(c, o) ==
    LET d == c.d  p == c.prefs  E == ExistingSet(d) IN
    /\ Req("R1 accepted only if the list is well formed", c.ok => ListOK(p, FALSE))
    /\ Req("R1 refused when equal to the stored list", c.ok => ~SameList(p, pref[d]))
    /\ Req("R1 accepted only with a delegated existing set",
           c.ok => (E # {} /\ \A v \in E : rec[d][v]))
    /\ IF c.ok
       THEN /\ Req("S3 stored list = submitted list rounded", StoredFrom(o.stored, p))
            /\ Req("R2 the total stake is unchanged", SumN(o.nd) = Stake(d))
            /\ Req("R2 only the unblocked existing set gives stake",
                   \A v \in Vals : /\ NLe(Z, o.nd[v])
                                   /\ NLt(o.nd[v], del[d][v]) => (v \in E /\ rin[d][v] = 0))
            /\ Req("R2 only the new list gains, by redelegation",
                   \A v \in Vals : /\ o.ri[v] >= rin[d][v]
                                   /\ NLt(del[d][v], o.nd[v]) => (v \in PrefVals(p) /\ o.ri[v] > rin[d][v])
                                   /\ o.ri[v] > rin[d][v] => v \in PrefVals(p))
            /\ Req("C1 rewards", RewardsOK(d, o.pn))
            /\ Req("delegation records", RecOK(d, o.rec, PrefVals(p), o.nd))
            /\ pref' = [pref EXCEPT ![d] = o.stored]
            /\ del' = [del EXCEPT ![d] = o.nd]
            /\ rec' = [rec EXCEPT ![d] = o.rec]
            /\ rin' = [rin EXCEPT ![d] = o.ri]
            /\ pend' = o.pn
            /\ bal' = [bal EXCEPT ![d] = NAdd(@, Paid(d, o.pn))]
            /\ Inflow(d, Paid(d, o.pn))
            /\ ev' = c
            /\ UNCHANGED <<conf, unb, locks>>
       ELSE Refused(c)

---------------------------------------------------------------------------
(* WithdrawDelegationRewards(d);  o = [pn]                               *)

Withdraw(c, o) ==
    LET d == c.d IN
    /\ Req("W1 withdraw accepted only with delegations", c.ok => HasRec(d))
    /\ IF c.ok
       THEN /\ Req("W2 all pending rewards of d's validators paid",
                   \A v \in Vals : IF rec[d][v] THEN o.pn[d][v] = Z ELSE o.pn[d][v] = pend[d][v])
            /\ Req("C1 rewards", RewardsOK(d, o.pn))
            /\ pend' = o.pn
            /\ bal' = [bal EXCEPT ![d] = NAdd(@, Paid(d, o.pn))]
            /\ Inflow(d, Paid(d, o.pn))
            /\ ev' = c
            /\ UNCHANGED <<conf, pref, del, rec, unb, rin, locks>>
       ELSE Refused(c)

---------------------------------------------------------------------------
(* DelegateBondedTokens(d, lock id);  o = [inc, rec, pn]                 *)

LockIx(id) == IF \E i \in 1..Len(locks) : locks[i].id = id THEN CHOOSE i \in 1..Len(locks) : locks[i].id = id ELSE 0
Eligible(d, id) ==
    LET i == LockIx(id) IN
    i # 0 /\ locks[i].owner = d /\ locks[i].base /\ ~locks[i].long /\ ~locks[i].unlocking /\ ~locks[i].synth
Without(s, i) == [j \in 1..(Len(s) - 1) |-> IF j < i THEN s[j] ELSE s[j + 1]]

DelegateBonded(c, o) ==
    LET d == c.d  i == LockIx(c.lock) IN
    /\ Req("B1 bonded accepted only for an eligible lock", c.ok => Eligible(d, c.lock))
    /\ Req("B1 accepted only with preference or position", c.ok => Basis(d))
    /\ IF c.ok
       THEN LET x == locks[i].amt
                nd == [v \in Vals |-> NAdd(del[d][v], o.inc[v])] IN
            /\ SplitOK(d, x, o.inc)
            /\ Req("C1 rewards", RewardsOK(d, o.pn))
            /\ Req("delegation records", RecOK(d, o.rec, Touched(d), nd))
            /\ locks' = Without(locks, i)                                           \* B2
            /\ del' = [del EXCEPT ![d] = nd]
            /\ rec' = [rec EXCEPT ![d] = o.rec]
            /\ pend' = o.pn
            /\ bal' = [bal EXCEPT ![d] = NAdd(@, Paid(d, o.pn))]
            /\ Inflow(d, Paid(d, o.pn))
            /\ ev' = c
            /\ UNCHANGED <<conf, pref, unb, rin>>
       ELSE Refused(c)

---------------------------------------------------------------------------
(* environment: what happens to d's funds outside this module                *)

\* coins arrive from outside
Fund(c) ==
    /\ Pos(c.x)
    /\ bal' = [bal EXCEPT ![c.d] = NAdd(@, c.x)]
    /\ Inflow(c.d, c.x)
    /\ ev' = c
    /\ UNCHANGED <<conf, pref, del, rec, unb, rin, pend, locks>>

\* staking MsgDelegate / MsgUndelegate of d with validator v;  o = [rec, un, pn]
DirectStake(c, o) ==
    LET d == c.d  v == c.v IN
    IF c.ok
    THEN LET nd == [del[d] EXCEPT ![v] = NAdd(@, c.x)] IN
         /\ Pos(c.x) /\ NLe(c.x, NAdd(bal[d], Payable(d)))
         /\ Req("C1 rewards", RewardsOK(d, o.pn))
         /\ Req("delegation records", RecOK(d, o.rec, {v}, nd))
         /\ del' = [del EXCEPT ![d] = nd]
         /\ rec' = [rec EXCEPT ![d] = o.rec]
         /\ pend' = o.pn
         /\ bal' = [bal EXCEPT ![d] = NAdd(NSub(@, c.x), Paid(d, o.pn))]
         /\ Inflow(d, Paid(d, o.pn))
         /\ ev' = c
         /\ UNCHANGED <<conf, pref, unb, rin, locks>>
    ELSE Refused(c)

DirectUnstake(c, o) ==
    LET d == c.d  v == c.v IN
    IF c.ok
    THEN LET nd == [del[d] EXCEPT ![v] = NSub(@, c.x)] IN
         /\ Pos(c.x) /\ NLe(c.x, del[d][v])
         /\ Req("C1 rewards", RewardsOK(d, o.pn))
         /\ Req("delegation records", RecOK(d, o.rec, {}, nd))
         /\ del' = [del EXCEPT ![d] = nd]
         /\ rec' = [rec EXCEPT ![d] = o.rec]
         /\ unb' = [unb EXCEPT ![d][v] = [n |-> @.n + 1, t |-> NAdd(@.t, c.x)]]
         /\ pend' = o.pn
         /\ bal' = [bal EXCEPT ![d] = NAdd(@, Paid(d, o.pn))]
         /\ Inflow(d, Paid(d, o.pn))
         /\ ev' = c
         /\ UNCHANGED <<conf, pref, rin, locks>>
    ELSE Refused(c)

\* lockup MsgLockTokens (id allocated by the code), MsgBeginUnlocking, a synthetic lock on top
Lock(c, o) ==
    IF c.ok
    THEN /\ Pos(c.x) /\ LockIx(o.id) = 0
         /\ c.base => NLe(c.x, bal[c.d])
         /\ locks' = Append(locks, [id |-> o.id, owner |-> c.d, base |-> c.base, amt |-> c.x, long |-> c.long,
                                    unlocking |-> FALSE, synth |-> FALSE])
         /\ bal' = IF c.base THEN [bal EXCEPT ![c.d] = NSub(@, c.x)] ELSE bal
         /\ ev' = c
         /\ UNCHANGED <<conf, pref, del, rec, unb, rin, pend, gh>>
    ELSE Refused(c)

BeginUnlock(c, o) ==
    IF c.ok
    THEN /\ LockIx(c.lock) # 0
         /\ locks' = [locks EXCEPT ![LockIx(c.lock)].unlocking = TRUE]
         /\ ev' = c
         /\ UNCHANGED <<conf, pref, bal, del, rec, unb, rin, pend, gh>>
    ELSE Refused(c)

Synth(c, o) ==
    IF c.ok
    THEN /\ LockIx(c.lock) # 0
         /\ locks' = [locks EXCEPT ![LockIx(c.lock)].synth = TRUE]
         /\ ev' = c
         /\ UNCHANGED <<conf, pref, bal, del, rec, unb, rin, pend, gh>>
    ELSE Refused(c)

\* validator v earns rewards: what is pending with v grows for those delegated to it;  o = [pn]
Accrue(c, o) ==
    /\ \A d \in Dels : \A v \in Vals :
          IF v = c.v /\ rec[d][v] THEN NLe(pend[d][v], o.pn[d][v]) ELSE o.pn[d][v] = pend[d][v]
    /\ pend' = o.pn
    /\ ev' = c
    /\ UNCHANGED <<conf, pref, bal, del, rec, unb, rin, locks, gh>>

\* the unbonding period passes: every unbonding entry is paid out to its owner, redelegations finish
Mature(c) ==
    /\ bal' = [d \in Dels |-> NAdd(bal[d], UnbTotal(unb[d]))]
    /\ unb' = [d \in Dels |-> [v \in Vals |-> [n |-> 0, t |-> Z]]]
    /\ rin' = [d \in Dels |-> [v \in Vals |-> 0]]
    /\ ev' = c
    /\ UNCHANGED <<conf, pref, del, rec, pend, locks, gh>>

---------------------------------------------------------------------------
(* properties                                                               *)

\* S1 (shape): non-empty, no duplicates, existing validators, no negative weight
PrefShape == \A d \in Dels : pref[d] = <<>> \/
                 (NoDup(pref[d]) /\ PrefVals(pref[d]) \subseteq Vals /\ \A i \in 1..Len(pref[d]) : NLe(Z, pref[d][i].w))
\* S1 (weights)
WeightsPositive == \A d \in Dels : \A i \in 1..Len(pref[d]) : Pos(pref[d][i].w)
WeightsSumToOne == \A d \in Dels : pref[d] = <<>> \/ SumW(pref[d]) = WUnit
\* D3
NoEmptyRecord == \A d \in Dels : NoEmptyRec(d)
RecordsCoverStake == \A d \in Dels : \A v \in Vals : Pos(del[d][v]) => rec[d][v]
\* C1
Conservation == \A d \in Dels : FundsOf(bal, del, unb, locks, d) = gh.in[d]
NothingNegative == \A d \in Dels : NLe(Z, bal[d]) /\ \A v \in Vals : NLe(Z, del[d][v]) /\ NLe(Z, unb[d][v].t) /\ NLe(Z, pend[d][v])

SameHistory == conf' = conf            \* trace specifications concatenate histories with a reset step
Msgs == {"set", "delegate", "undel_old", "undelegate", "redelegate", "withdraw", "bonded"}
Signed == SameHistory /\ ev'.e \in Msgs

\* S4
PreferenceStable == [][SameHistory => \A d \in Dels :
                          pref'[d] # pref[d] => (ev'.e \in {"set", "redelegate"} /\ ev'.d = d /\ ev'.ok)]_vars
\* C2
OthersUntouched == [][Signed => \A o \in Dels \ {ev'.d} :
                          /\ pref'[o] = pref[o] /\ bal'[o] = bal[o] /\ del'[o] = del[o] /\ rec'[o] = rec[o]
                          /\ unb'[o] = unb[o] /\ rin'[o] = rin[o]
                          /\ \A i \in 1..Len(locks) : locks[i].owner = o => \E j \in 1..Len(locks') : locks'[j] = locks[i]]_vars
\* C3
RefusedChangesNothing == [][(Signed /\ ~ev'.ok) =>
                               (pref' = pref /\ bal' = bal /\ del' = del /\ rec' = rec /\ unb' = unb /\ rin' = rin
                                /\ pend' = pend /\ locks' = locks)]_vars
\* ---- "ALWAYS accepted" (S2, D1, U1, R1, W1, B1) and "EXACTLY" statements whose failure does not make the
\* ---- step impossible to follow: one step predicate each, so that a recorded execution can be monitored
SetAcceptable(d, p) == ListOK(p, TRUE) /\ TwoDigits(p) /\ SumW(p) = WUnit /\ ~SameList(p, pref[d])
DelegateAcceptable(d, x) == Pos(x) /\ BasisSound(d) /\ NLe(x, bal[d])
WithdrawAcceptable(d) == HasStake(d) /\ NoEmptyRec(d)
BondedAcceptable(d, id) == Eligible(d, id) /\ BasisSound(d)

SetPossibleStep == (ev'.e = "set" /\ SetAcceptable(ev'.d, ev'.prefs)) => ev'.ok
DelegatePossibleStep == (ev'.e = "delegate" /\ DelegateAcceptable(ev'.d, ev'.x)) => ev'.ok
UndelegatePossibleStep == (ev'.e = "undelegate" /\ UndelegateAcceptable(ev'.d, ev'.x)) => ev'.ok
RedelegatePossibleStep == (ev'.e = "redelegate" /\ RedelegateAcceptable(ev'.d, ev'.prefs)) => ev'.ok
WithdrawPossibleStep == (ev'.e = "withdraw" /\ WithdrawAcceptable(ev'.d)) => ev'.ok
BondedPossibleStep == (ev'.e = "bonded" /\ BondedAcceptable(ev'.d, ev'.lock)) => ev'.ok
\* U2 "exactly x"
UndelegateExactStep == (ev'.e = "undelegate" /\ ev'.ok) => NSub(Stake(ev'.d), SumN(del'[ev'.d])) = ev'.x
\* R2 "on target" (for a new list that satisfies S1; S1 covers the others)
RedelegateOnTargetStep ==
    (ev'.e = "redelegate" /\ ev'.ok /\ SumW(pref'[ev'.d]) = WUnit /\ \A i \in 1..Len(pref'[ev'.d]) : Pos(pref'[ev'.d][i].w)) =>
        OnTarget(ev'.d, pref'[ev'.d], del'[ev'.d], Cardinality(ExistingSet(ev'.d) \cup PrefVals(pref'[ev'.d])))

SetPossible == [][SameHistory => SetPossibleStep]_vars
DelegatePossible == [][SameHistory => DelegatePossibleStep]_vars
UndelegatePossible == [][SameHistory => UndelegatePossibleStep]_vars
RedelegatePossible == [][SameHistory => RedelegatePossibleStep]_vars
WithdrawPossible == [][SameHistory => WithdrawPossibleStep]_vars
BondedPossible == [][SameHistory => BondedPossibleStep]_vars
UndelegateExact == [][SameHistory => UndelegateExactStep]_vars
RedelegateOnTarget == [][SameHistory => RedelegateOnTargetStep]_vars

\* stake only moves by the calls that are meant to move it
StakeStable == [][SameHistory => \A d \in Dels :
                     del'[d] # del[d] => (ev'.d = d /\ ev'.ok /\ ev'.e \in {"delegate", "undelegate", "redelegate", "bonded", "stake", "unstake"})]_vars
=============================================================================
