-------------------------------- MODULE Mint --------------------------------
(***************************************************************************)
(* x/mint: the emission schedule and the allocation of every minted coin.   *)
(* Property C18.                                                            *)
(*                                                                         *)
(* One action per call of the epoch hook mint.Keeper.AfterEpochEnd for the  *)
(* mint epoch identifier, with consecutive epoch numbers:                   *)
(*   Skip(n)        n is before the configured start epoch: nothing happens;*)
(*   EpochEnd(n,o)  the provision is reduced when due, its integer part is  *)
(*                  minted and split; o carries the values the statement of *)
(*                  the property leaves to the implementation (the rounding *)
(*                  of the reduced provision, what the pool-incentives      *)
(*                  module does with its share in its AfterDistributeMinted-*)
(*                  Coin hook) and is constrained relationally;             *)
(*   EpochFail(n,o) the developer vesting account cannot cover the developer*)
(*                  share: the hook fails and leaves nothing behind;        *)
(*   Other          a hook call for another epoch identifier: nothing.      *)
(*                                                                         *)
(* Numbers are abstract (NAdd, NMul, ...): native integers at scale 10^2 in *)
(* the bounded model, BigNum at scale 10^18 on recorded executions.         *)
(* Decimals (provision, factor, proportions, weights) are raw integers at   *)
(* scale NScale.                                                            *)
(***************************************************************************)
EXTENDS Integers, Sequences

CONSTANTS NAdd(_, _), NSub(_, _), NMul(_, _), NLe(_, _), NZero, NOne, NScale

VARIABLES
    conf,     \* [id, start, period : Int, factor, ps, pp, pd, pc : Dec,
              \*  recv : Seq([w : Dec, to : 0..nrcv]) (to = 0: empty address = community pool),
              \*  nrcv : Nat, pi : "none" | "zero" | "gauges" | "mixed"]  (constant within a history)
    epoch,    \* number of the last epoch whose end was signalled
    prov,     \* epoch provision (Dec)
    lastRed,  \* last reduction epoch
    bal,      \* ledgers [mint, fee, pool, inc, comm, vest]: mint module account, fee collector
              \* (staking rewards), pool-incentives module account, incentives module account
              \* (gauges fed by pool-incentives), community pool, developer vesting account
    rcv,      \* Seq over the distinct developer reward receiver accounts: balance
    supply,   \* reported supply (bank supply with offset)
    offset,   \* supply offset
    gh        \* ghost: [reds : Seq(Int) reduction epochs, anchor : Int, emitted, supply0, k0 : Num,
              \*         fails : Nat, exact : BOOLEAN]

vars == <<conf, epoch, prov, lastRed, bal, rcv, supply, offset, gh>>

NLt(a, b) == ~NLe(b, a)
Add3(a, b, c) == NAdd(NAdd(a, b), c)

\* q = floor(n / d), d > 0, stated with products only
IsFloorDiv(q, n, d) == NLe(NMul(q, d), n) /\ NLt(n, NMul(NAdd(q, NOne), d))
\* q = floor(amount * ratio), ratio a Dec: "truncate each share"
IsShare(q, amount, ratio) == IsFloorDiv(q, NMul(amount, ratio), NScale)
\* np = p * f at scale NScale, rounded either way (the statement does not fix the rounding)
IsProduct(np, p, f) == LET pf == NMul(p, f)  ns == NMul(np, NScale)
                       IN  NLt(NSub(ns, pf), NScale) /\ NLt(NSub(pf, ns), NScale)

RECURSIVE SumWhere(_, _, _, _)
\* sum of pay[j] over the entries j >= i of recv that go to `to`
SumWhere(pay, recv, to, i) ==
    IF i > Len(recv) THEN NZero
    ELSE NAdd(IF recv[i].to = to THEN pay[i] ELSE NZero, SumWhere(pay, recv, to, i + 1))
RECURSIVE SumAll(_, _)
SumAll(s, i) == IF i > Len(s) THEN NZero ELSE NAdd(s[i], SumAll(s, i + 1))

LedgerSum == NAdd(Add3(bal.mint, bal.fee, bal.pool), Add3(bal.inc, bal.comm, SumAll(rcv, 1)))

Gh0(lr, sup, k) == [reds |-> <<>>, anchor |-> lr, emitted |-> NZero, supply0 |-> sup, k0 |-> k,
                    fails |-> 0, exact |-> TRUE]

InitWith(c, e0, p0, lr0, b0, r0, sup0, off0) ==
    /\ conf = c /\ epoch = e0 /\ prov = p0 /\ lastRed = lr0
    /\ bal = b0 /\ rcv = r0 /\ supply = sup0 /\ offset = off0
    /\ gh = Gh0(lr0, sup0, NSub(sup0, NAdd(Add3(b0.mint, b0.fee, b0.pool), Add3(b0.inc, b0.comm, SumAll(r0, 1)))))

---------------------------------------------------------------------------
(* the schedule *)
LastRedEff(n) == IF n = conf.start THEN n ELSE lastRed      \* the start epoch anchors the schedule
Due(n) == n >= conf.period + LastRedEff(n)

(* o = [np, minted, st, pl, dev, pay : Seq over conf.recv, x, y, kept]                      *)
(*   np      provision in force for this epoch                                              *)
(*   minted  its integer part; st / pl / dev: truncated staking, pool, developer shares      *)
(*   pay[j]  truncated share of the developer amount of weight entry j                       *)
(*   x, y    what the pool-incentives hook forwards to the community pool / to gauges        *)
(*   kept    developer rounding remainder left in the vesting account (the property wants 0)  *)
Shares(n, o) ==
    /\ IF Due(n) THEN IsProduct(o.np, prov, conf.factor) ELSE o.np = prov
    /\ IsFloorDiv(o.minted, o.np, NScale)
    /\ IsShare(o.st, o.minted, conf.ps)
    /\ IsShare(o.pl, o.minted, conf.pp)
    /\ IsShare(o.dev, o.minted, conf.pd)
    /\ Len(o.pay) = Len(conf.recv)
    /\ \A j \in 1..Len(conf.recv) : IsShare(o.pay[j], o.dev, conf.recv[j].w)

\* developer amount that reaches the community pool because the receiver address is empty
\* (no receivers at all: the whole developer share)
DevToCommunity(o) == IF conf.recv = <<>> THEN o.dev ELSE SumWhere(o.pay, conf.recv, 0, 1)
\* rounding remainder of the per-receiver truncation
DevDust(o) == IF conf.recv = <<>> THEN NZero ELSE NSub(o.dev, SumAll(o.pay, 1))

PoolHook(o) == LET p == NAdd(bal.pool, o.pl) IN
    /\ NLe(NZero, o.x) /\ NLe(NZero, o.y) /\ NLe(NAdd(o.x, o.y), p)
    /\ conf.pi \in {"none", "zero"} => (o.x = p /\ o.y = NZero)  \* no distribution records, or records of total weight zero: all to the community pool
    /\ conf.pi = "gauges" => o.x = NZero                 \* records for gauges only

Skip(n) ==
    /\ n = epoch + 1
    /\ n < conf.start
    /\ epoch' = n
    /\ UNCHANGED <<conf, prov, lastRed, bal, rcv, supply, offset, gh>>

Other == UNCHANGED vars

EpochEnd(n, o) ==
    /\ n = epoch + 1
    /\ n >= conf.start
    /\ Shares(n, o)
    /\ NLe(o.dev, bal.vest)
    /\ PoolHook(o)
    /\ o.kept \in {NZero, DevDust(o)}
    /\ epoch' = n
    /\ prov' = o.np
    /\ lastRed' = IF Due(n) THEN n ELSE LastRedEff(n)
    /\ LET rem == NSub(NSub(NSub(o.minted, o.st), o.pl), o.dev)       \* community pool takes the remainder
       IN  bal' = [mint |-> NSub(NAdd(bal.mint, o.minted), NAdd(NAdd(o.st, o.pl), NAdd(o.dev, rem))),
                   fee  |-> NAdd(bal.fee, o.st),
                   pool |-> NSub(NSub(NAdd(bal.pool, o.pl), o.x), o.y),
                   inc  |-> NAdd(bal.inc, o.y),
                   comm |-> NAdd(Add3(bal.comm, rem, DevToCommunity(o)), NAdd(NSub(DevDust(o), o.kept), o.x)),
                   vest |-> NAdd(NSub(bal.vest, o.dev), o.kept)]
    /\ rcv' = [k \in 1..Len(rcv) |-> NAdd(rcv[k], SumWhere(o.pay, conf.recv, k, 1))]
    /\ supply' = NSub(NAdd(supply, o.minted), o.kept)
    /\ offset' = NSub(NAdd(offset, o.dev), o.kept)
    /\ gh' = [gh EXCEPT !.reds = IF Due(n) THEN Append(@, n) ELSE @,
                        !.anchor = IF n = conf.start THEN n ELSE @,
                        !.emitted = NAdd(@, o.minted),
                        !.exact = @ /\ (Due(n) => NMul(o.np, NScale) = NMul(prov, conf.factor))]
    /\ UNCHANGED conf

EpochFail(n, o) ==
    /\ n = epoch + 1
    /\ n >= conf.start
    /\ Shares(n, o)
    /\ NLt(bal.vest, o.dev)
    /\ epoch' = n
    /\ gh' = [gh EXCEPT !.fails = @ + 1]
    /\ UNCHANGED <<conf, prov, lastRed, bal, rcv, supply, offset>>

---------------------------------------------------------------------------
(* properties *)
\* the mint account is empty after each epoch
MintEmpty == bal.mint = NZero

\* every minted coin is allocated: what the ledgers hold is what was put into circulation
Conservation == NSub(supply, LedgerSum) = gh.k0

\* the reported supply has grown by exactly the integer parts of the provisions
SupplyExact == supply = NAdd(gh.supply0, gh.emitted)

\* reductions happen exactly at anchor + k * period (anchor = the start epoch once it was seen)
Schedule == gh.fails = 0 =>
    /\ \A k \in 1..Len(gh.reds) : gh.reds[k] = gh.anchor + k * conf.period
    /\ epoch >= conf.start => epoch < lastRed + conf.period        \* a reduction is never overdue

SameHistory == conf' = conf      \* trace specs concatenate histories with a reset step
\* the provision changes only by a due reduction
ReductionOnlyWhenDue == [][ (SameHistory /\ (prov' # prov \/ Len(gh'.reds) # Len(gh.reds))) =>
                               /\ epoch' >= conf.period + lastRed
                               /\ epoch' # conf.start
                               /\ lastRed' = epoch'
                               /\ IsProduct(prov', prov, conf.factor) ]_vars
\* growth of the reported supply per epoch = integer part of the provision in force
GrowthIsMinted == [][ (SameHistory /\ epoch' # epoch /\ gh'.fails = gh.fails /\ epoch' >= conf.start) =>
                         IsFloorDiv(NSub(supply', supply), prov', NScale) ]_vars
NothingBeforeStart == [][ (SameHistory /\ epoch' < conf.start) =>
                             UNCHANGED <<prov, lastRed, bal, rcv, supply, offset>> ]_vars
=============================================================================
