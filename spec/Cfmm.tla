-------------------------------- MODULE Cfmm --------------------------------
(***************************************************************************)
(* Classic (x/gamm) pool mathematics: weighted "balancer" pools and          *)
(* "stableswap" pools.  Property C04: the pool mathematics never gives value *)
(* away.                                                                     *)
(*                                                                           *)
(* State: one pool                                                           *)
(*   pool = [kind : "bal" | "stab", n, w : Seq(Nat) (weights), sf : Seq(Nat)  *)
(*           (scaling factors), f (spread factor), x (exit fee) : raw         *)
(*           18-decimal integers, B : Seq(BigNum) (reserves), S : BigNum      *)
(*           (total shares)]                                                  *)
(*   ref  = [B, S] the reserves / shares at the start of the history          *)
(*   loss = the precision allowances granted so far (a rational, relative)    *)
(*   njoin = single-asset joins of a stableswap pool so far in the history    *)
(* One action per public entry point of the pool models; an action is a       *)
(* RELATION between the pool before, the arguments, the integer answer of     *)
(* the implementation and the pool after: the answer is never recomputed by   *)
(* transcribing the Go code, it is compared with the exact ideal.             *)
(*                                                                           *)
(* Balancer.  With integer weights the ideal results are                      *)
(*   swap exact in   out = Bo (1 - Y),  Y = (Bi/(Bi + a(1-f)))^(wi/wo)         *)
(*   swap exact out  in  = Bi (Y - 1)/(1-f),  Y = (Bo/(Bo - out))^(wo/wi)      *)
(*   join one asset  shares = S (Y - 1), Y = ((Bi + a phi)/Bi)^(wi/W)          *)
(*   join for shares in = Bi (Y - 1)/phi, Y = ((S + s)/S)^(W/wi)               *)
(*   exit one asset  shares in = S (1 - Y)/(1-x), Y = ((Bo - out/phi)/Bo)^(wo/W)*)
(* with phi = 1 - (1 - wi/W) f.  Y = base^(p/q) is irrational in general but   *)
(* Y <= c  <=>  base^p <= c^q: integer powers only, cross-multiplied in exact  *)
(* BigNum arithmetic.  The integer answer confines the implementation's value  *)
(* of Y to an interval (ylo, yhi]; the checks are                              *)
(*   one-sided (the heart of C04): the pool never gives away more than         *)
(*        Tau1 = p base^floor(e) + eps0      (p = powPrecision = 10^-8,         *)
(*        eps0 = (ceil(e)+2) max(1, base^floor(e)) 10^-18 for the 18-decimal    *)
(*        arithmetic around the power) in units of Y;                          *)
(*   agreement: it differs from the formula by at most                         *)
(*        Tau2 = 2 p base^floor(e) max(1, T(base)) + eps0, T = (1-base)/base    *)
(*        for base < 1 (the documented small-base caveat of osmomath.Pow: the   *)
(*        monotone tail of the series), 1 for the alternating series;          *)
(*   value per share: prod_k B_k^(w_k) / S^W does not fall when the one        *)
(*        quantity computed through the power is moved by the allowance.       *)
(* Calibration on the unchanged tree (python fractions/decimal mirror, 3.0e4   *)
(* successful balancer calls, reserves 1..1e30, weights 1..64, fees 0..0.95):  *)
(* worst one-sided deviation 0.50 Tau1 for every operation except the          *)
(* single-asset exit (tokens out -> shares in), where the series tail works    *)
(* AGAINST the pool: up to 7400 p observed (0.91 of p T(base)), see ExitOne.   *)
(* Worst agreement deviation 0.90 of p base^floor(e) max(1,T) (hence factor 2).*)
(*                                                                           *)
(* Stableswap.  The code's invariant on scaled reserves x_k = B_k/sf_k,        *)
(*   K = (prod_k x_k) (sum_k x_k^2)   ( = u x y (x^2 + y^2 + w) for a swap of   *)
(* x against y), in exact rationals, never decreases across a swap: no         *)
(* tolerance.  Proportional joins / exits (both kinds): shares minted          *)
(* <= S min_k(joined_k/B_k), tokens paid <= B_k s (1-x)/S, exactly.            *)
(*                                                                           *)
(* Sequences.  Balancer: at the spot prices of the start of the history        *)
(* (pi_k = w_k/B0_k) the value behind one share, (sum_k pi_k B_k)/S, never      *)
(* falls below its initial value by more than the allowances granted so far    *)
(* (weighted AM-GM: it is >= W V / V0-normalised, V the weighted product per   *)
(* share); what the passive holders cannot lose an actor cannot win.           *)
(* Stableswap: no history leaves the actor with more of something and less of  *)
(* nothing (exact).                                                            *)
(***************************************************************************)
EXTENDS Integers, Sequences, FiniteSets, TLC

B == INSTANCE BigNum

VARIABLES pool, ref, loss, njoin
vars == <<pool, ref, loss, njoin>>

\* name a requirement so that a rejected step says WHICH requirement failed
Req(name, cond) == IF cond THEN TRUE ELSE PrintT(<<"CHECK-FAILED", name>>) /\ FALSE

---------------------------------------------------------------------------
(* exact rationals <<n, d>> over BigNum, d > 0 *)
RNorm(r) == LET g == B!Gcd(r[1], r[2]) IN
            IF g.s = 0 \/ g = B!One THEN r ELSE <<B!QuoT(r[1], g), B!QuoT(r[2], g)>>
RInt(n)    == <<n, B!One>>
BI(k)      == B!OfInt(k)
RI(k)      == RInt(BI(k))
RZero      == RInt(B!Zero)
ROne       == RInt(B!One)
RAdd(p, q) == <<B!Add(B!Mul(p[1], q[2]), B!Mul(q[1], p[2])), B!Mul(p[2], q[2])>>
RSub(p, q) == <<B!Sub(B!Mul(p[1], q[2]), B!Mul(q[1], p[2])), B!Mul(p[2], q[2])>>
RMul(p, q) == <<B!Mul(p[1], q[1]), B!Mul(p[2], q[2])>>
RDiv(p, q) == IF q[1].s > 0 THEN <<B!Mul(p[1], q[2]), B!Mul(p[2], q[1])>>
                            ELSE <<B!Neg(B!Mul(p[1], q[2])), B!Neg(B!Mul(p[2], q[1]))>>    \* q # 0
RCmp(p, q) == B!Cmp(B!Mul(p[1], q[2]), B!Mul(q[1], p[2]))
RLe(p, q)  == RCmp(p, q) <= 0
RLt(p, q)  == RCmp(p, q) < 0
RPos(p)    == p[1].s > 0
RMax(p, q) == IF RLe(p, q) THEN q ELSE p
RPowInt(r, k) == <<B!Pow(r[1], k), B!Pow(r[2], k)>>            \* k >= 0
RCeilTo(r, k) == <<B!CeilDiv(B!Mul(r[1], B!Pow10(k)), r[2]), B!Pow10(k)>>   \* least multiple of 10^-k that is >= r
RDec(raw)  == <<raw, B!Pow10(18)>>      \* the 18-decimal fixed-point number with this raw integer

RECURSIVE Gcd(_, _)
Gcd(a, b) == IF b = 0 THEN a ELSE Gcd(b, a % b)

\* base^(p/q) <= c  and  >= c, for rationals base > 0, integers p >= 0, q >= 1
PowLe(base, p, q, c) == /\ c[1].s > 0
                        /\ B!Le(B!Mul(B!Pow(base[1], p), B!Pow(c[2], q)), B!Mul(B!Pow(c[1], q), B!Pow(base[2], p)))
PowGe(base, p, q, c) == \/ c[1].s <= 0
                        \/ B!Ge(B!Mul(B!Pow(base[1], p), B!Pow(c[2], q)), B!Mul(B!Pow(c[1], q), B!Pow(base[2], p)))

---------------------------------------------------------------------------
(* the precision contract of the fractional power (osmomath.Pow) *)
PowPrec == <<B!One, B!Pow10(8)>>        \* powPrecision = 10^-8
Ulp     == <<B!One, B!Pow10(18)>>

BasePowFloor(base, p, q) == IF p \div q = 0 THEN ROne ELSE RPowInt(base, p \div q)
Eps0(base, p, q) == RMul(RI(((p + q - 1) \div q) + 2), RMul(RMax(ROne, BasePowFloor(base, p, q)), Ulp))
TFactor(base) == IF RLt(base, ROne) THEN RMax(ROne, RDiv(RSub(ROne, base), base)) ELSE ROne

Tau1(base, p, q) == RCeilTo(RAdd(RMul(PowPrec, BasePowFloor(base, p, q)), Eps0(base, p, q)), 40)
Tau2(base, p, q) == RCeilTo(RAdd(RMul(RI(2), RMul(RMul(PowPrec, BasePowFloor(base, p, q)), TFactor(base))),
                                 Eps0(base, p, q)), 40)

---------------------------------------------------------------------------
(* the pool *)
Idx  == 1..pool.n
RECURSIVE SumW(_)
SumW(k) == IF k = 0 THEN 0 ELSE pool.w[k] + SumW(k - 1)
WSum == SumW(pool.n)
FeeR(raw) == RDec(raw)
OneMinus(raw) == RSub(ROne, RDec(raw))
\* phi = 1 - (1 - w_k/W) f : the part of a single-asset join / exit that is charged the spread factor
Phi(k, f) == RSub(ROne, RMul(RSub(ROne, <<BI(pool.w[k]), BI(WSum)>>), RDec(f)))

SeqEq(a, b) == Len(a) = Len(b) /\ \A k \in 1..Len(a) : B!Eq(a[k], b[k])
ZeroTol == [k \in Idx |-> RZero]

(* balancer: weighted product per share does not fall when the post-state is moved by the allowance: *)
(*   prod_k ((B'_k + tb_k)/B_k)^(w_k)  >=  ((S' - ts)/S)^W      (exponents divided by their gcd)      *)
RECURSIVE GcdOver(_, _)
GcdOver(S, acc) == IF S = {} THEN acc ELSE LET e == CHOOSE e \in S : TRUE IN GcdOver(S \ {e}, Gcd(e, acc))
RECURSIVE ProdChanged(_, _, _, _)
ProdChanged(k, post, tb, g) ==
    IF k = 0 THEN ROne
    ELSE IF B!Eq(post.B[k], pool.B[k]) /\ tb[k][1].s = 0 THEN ProdChanged(k - 1, post, tb, g)
    ELSE RMul(RPowInt(RDiv(RAdd(RInt(post.B[k]), tb[k]), RInt(pool.B[k])), pool.w[k] \div g),
              ProdChanged(k - 1, post, tb, g))
BalValuePerShareOK(post, tb, ts) ==
    LET ch   == {k \in Idx : ~(B!Eq(post.B[k], pool.B[k]) /\ tb[k][1].s = 0)}
        sch  == ~(B!Eq(post.S, pool.S) /\ ts[1].s = 0)
        g    == GcdOver({pool.w[k] : k \in ch} \cup (IF sch THEN {WSum} ELSE {}), 0)
        snew == RSub(RInt(post.S), ts)
    IN  \/ g = 0
        \/ ~RPos(snew)         \* the allowance exceeds the share supply: nothing is claimed
        \/ RLe(IF sch THEN RPowInt(RDiv(snew, RInt(pool.S)), WSum \div g) ELSE ROne, ProdChanged(pool.n, post, tb, g))

\* relative size of the allowance (what the value per share may have lost in this step)
RECURSIVE SumRel(_, _, _)
SumRel(k, post, tb) == IF k = 0 THEN RZero ELSE RAdd(RDiv(tb[k], RInt(post.B[k])), SumRel(k - 1, post, tb))
Allowance(post, tb, ts) == RCeilTo(RAdd(SumRel(pool.n, post, tb), RDiv(ts, RInt(post.S))), 40)

(* stableswap: K = prod_k x_k * sum_k x_k^2 on exactly scaled reserves x_k = B_k / sf_k *)
Sc(Bv, k) == <<Bv[k], BI(pool.sf[k])>>
RECURSIVE ProdSc(_, _), SumSq(_, _)
ProdSc(Bv, k) == IF k = 0 THEN ROne ELSE RMul(Sc(Bv, k), ProdSc(Bv, k - 1))
SumSq(Bv, k)  == IF k = 0 THEN RZero ELSE RAdd(RMul(Sc(Bv, k), Sc(Bv, k)), SumSq(Bv, k - 1))
KFull(Bv) == RMul(ProdSc(Bv, pool.n), SumSq(Bv, pool.n))
StabInvariantKept(post) == RLe(KFull(pool.B), KFull(post.B))
\* K is homogeneous of degree n + 2: K' / S'^(n+2) >= K / S^(n+2)
StabValuePerShareOK(post) ==
    LET d == pool.n + 2 IN
    RLe(RMul(KFull(pool.B), RInt(B!Pow(post.S, d))), RMul(KFull(post.B), RInt(B!Pow(pool.S, d))))

---------------------------------------------------------------------------
(* bookkeeping shapes *)
OnlyChanged(post, ks) == \A k \in Idx \ ks : B!Eq(post.B[k], pool.B[k])
WellFormed(post) == Len(post.B) = pool.n /\ (\A k \in Idx : post.B[k].s > 0) /\ post.S.s > 0

CommitJ(post, d, j) ==
    /\ pool' = [pool EXCEPT !.B = post.B, !.S = post.S]
    /\ loss' = RNorm(RAdd(loss, d))
    /\ njoin' = njoin + j
    /\ UNCHANGED ref
Commit(post, d) == CommitJ(post, d, 0)

---------------------------------------------------------------------------
(* SwapOutAmtGivenIn: a of asset i in (spread factor f), out of asset o paid.                              *)
(* One shape of the unchanged tree is reported instead of rejected (the check module turns it into a       *)
(* finding):                                                                                               *)
(*   swapIn:drains-entire-reserve   a balancer pool whose power underflows to 0 at 18 decimals pays out    *)
(*       the ENTIRE reserve of asset o (the formula never does: out < Bo), and the pool object keeps its   *)
(*       old balance of o (applySwap drops the zero coin), so its books no longer match what it paid.      *)
Note(shape, tag) == IF shape = "none" THEN TRUE ELSE PrintT(<<"KNOWN-SHAPE", shape, tag>>)
SwapIn(i, o, a, f, out, post, tag) ==
    LET Bi == pool.B[i]  Bo == pool.B[o]
        g == Gcd(pool.w[i], pool.w[o])  p == pool.w[i] \div g  q == pool.w[o] \div g
        base == RNorm(RDiv(RInt(Bi), RAdd(RInt(Bi), RMul(RInt(a), OneMinus(f)))))
        yhi == RSub(ROne, <<out, Bo>>)
        ylo == RSub(ROne, <<B!Add(out, B!One), Bo>>)
        tb == [ZeroTol EXCEPT ![o] = RCeilTo(RMul(RInt(Bo), Tau1(base, p, q)), 6)]
        drained == pool.kind = "bal" /\ B!Eq(out, Bo)
    IN  /\ Req("swapIn:arguments", i \in Idx /\ o \in Idx /\ i # o /\ a.s > 0 /\ out.s > 0)
        /\ IF drained
           THEN /\ Note("swapIn:drains-entire-reserve", tag)
                /\ Req("swapIn:bookkeeping(drained)", /\ WellFormed(post) /\ B!Eq(post.S, pool.S) /\ OnlyChanged(post, {i})
                                                      /\ B!Eq(post.B[i], B!Add(Bi, a)))
                \* even so the power must have been tiny: Y <= Tau1 (nothing of the agreement is waived)
                /\ Req("bal.swapIn:power-underflowed(drained)", PowLe(base, p, q, Tau1(base, p, q)))
                /\ Commit(post, RZero)
           ELSE /\ Req("swapIn:bookkeeping", /\ WellFormed(post) /\ B!Eq(post.S, pool.S) /\ OnlyChanged(post, {i, o})
                                              /\ B!Eq(post.B[i], B!Add(Bi, a)) /\ B!Eq(post.B[o], B!Sub(Bo, out)))
                /\ IF pool.kind = "bal"
                   THEN /\ Req("bal.swapIn:pays-at-most-formula-plus-precision", PowLe(base, p, q, RAdd(yhi, Tau1(base, p, q))))
                        /\ Req("bal.swapIn:agrees-with-formula", PowGe(base, p, q, RSub(ylo, Tau2(base, p, q))))
                        /\ Req("bal.swapIn:value-per-share", BalValuePerShareOK(post, tb, RZero))
                        /\ Commit(post, Allowance(post, tb, RZero))
                   ELSE /\ Req("stab.swapIn:invariant-never-decreases", StabInvariantKept(post))
                        /\ Commit(post, RZero)

(* SwapInAmtGivenOut: out of asset o wanted, in of asset i charged *)
SwapOut(i, o, out, f, in, post) ==
    LET Bi == pool.B[i]  Bo == pool.B[o]
        g == Gcd(pool.w[i], pool.w[o])  p == pool.w[o] \div g  q == pool.w[i] \div g
        base == RNorm(RDiv(RInt(Bo), RInt(B!Sub(Bo, out))))
        \* in = ceil(Bi (Yc - 1) / (1 - f))
        yhi == RAdd(ROne, RDiv(RMul(RInt(in), OneMinus(f)), RInt(Bi)))
        ylo == RAdd(ROne, RDiv(RMul(RInt(B!Sub(in, B!One)), OneMinus(f)), RInt(Bi)))
        tb == [ZeroTol EXCEPT ![i] = RCeilTo(RDiv(RMul(RInt(Bi), Tau1(base, p, q)), OneMinus(f)), 6)]
    IN  /\ Req("swapOut:arguments", i \in Idx /\ o \in Idx /\ i # o /\ in.s > 0 /\ out.s > 0 /\ B!Lt(out, Bo))
        /\ Req("swapOut:bookkeeping", /\ WellFormed(post) /\ B!Eq(post.S, pool.S) /\ OnlyChanged(post, {i, o})
                                       /\ B!Eq(post.B[i], B!Add(Bi, in)) /\ B!Eq(post.B[o], B!Sub(Bo, out)))
        /\ IF pool.kind = "bal"
           THEN /\ Req("bal.swapOut:charges-at-least-formula-minus-precision", PowLe(base, p, q, RAdd(yhi, Tau1(base, p, q))))
                /\ Req("bal.swapOut:agrees-with-formula", PowGe(base, p, q, RSub(ylo, Tau2(base, p, q))))
                /\ Req("bal.swapOut:value-per-share", BalValuePerShareOK(post, tb, RZero))
                /\ Commit(post, Allowance(post, tb, RZero))
           ELSE /\ Req("stab.swapOut:invariant-never-decreases", StabInvariantKept(post))
                /\ Commit(post, RZero)

(* JoinPool with one coin: a of asset i in, shares minted *)
JoinOne(i, a, f, shares, post) ==
    LET Bi == pool.B[i]  S == pool.S
        g == Gcd(pool.w[i], WSum)  p == pool.w[i] \div g  q == WSum \div g
        base == RNorm(RDiv(RAdd(RInt(Bi), RMul(RInt(a), Phi(i, f))), RInt(Bi)))
        \* shares = trunc(S (Yc - 1))
        ylo == RAdd(ROne, <<shares, S>>)
        yhi == RAdd(ROne, <<B!Add(shares, B!One), S>>)
        ts == RCeilTo(RMul(RInt(S), Tau1(base, p, q)), 6)
    IN  /\ Req("joinOne:arguments", i \in Idx /\ a.s > 0 /\ shares.s > 0)
        /\ Req("joinOne:bookkeeping", /\ WellFormed(post) /\ B!Eq(post.S, B!Add(S, shares)) /\ OnlyChanged(post, {i})
                                       /\ B!Eq(post.B[i], B!Add(Bi, a)))
        /\ IF pool.kind = "bal"
           THEN /\ Req("bal.joinOne:mints-at-most-formula-plus-precision", PowGe(base, p, q, RSub(ylo, Tau1(base, p, q))))
                /\ Req("bal.joinOne:agrees-with-formula", PowLe(base, p, q, RAdd(yhi, Tau2(base, p, q))))
                /\ Req("bal.joinOne:value-per-share", BalValuePerShareOK(post, ZeroTol, ts))
                /\ Commit(post, Allowance(post, ZeroTol, ts))
           ELSE \* no closed form: the code searches the share count whose exit + swap back (zero fee, simulated with the
                \* code's own integer roundings) returns the tokens put in.  Required here: at most the proportion of
                \* the one asset added; what the shares are worth is left to the sequence property NoFreeLunch.
                \* (A per-call bound on the invariant per share cannot be calibrated: on the unchanged tree the
                \* dilution ranges from one base unit to 6.5e5 units in pools holding a few units of some asset.)
                /\ Req("stab.joinOne:mints-at-most-the-asset-proportion", B!Le(B!Mul(shares, Bi), B!Mul(S, a)))
                /\ CommitJ(post, RZero, 1)

(* CalcTokenInShareAmountOut + IncreaseLiquidity: s shares wanted, in of asset i charged (balancer only) *)
JoinShares(i, s, f, in, post) ==
    LET Bi == pool.B[i]  S == pool.S
        g == Gcd(pool.w[i], WSum)  p == WSum \div g  q == pool.w[i] \div g
        base == <<B!Add(S, s), S>>
        phi == Phi(i, f)
        \* in = ceil(Bi (Yc - 1) / phi)
        yhi == RAdd(ROne, RDiv(RMul(RInt(in), phi), RInt(Bi)))
        ylo == RAdd(ROne, RDiv(RMul(RInt(B!Sub(in, B!One)), phi), RInt(Bi)))
        tb == [ZeroTol EXCEPT ![i] = RCeilTo(RDiv(RMul(RInt(Bi), Tau1(base, p, q)), phi), 6)]
    IN  /\ Req("joinShares:arguments", pool.kind = "bal" /\ i \in Idx /\ s.s > 0 /\ in.s > 0)
        /\ Req("joinShares:bookkeeping", /\ WellFormed(post) /\ B!Eq(post.S, B!Add(S, s)) /\ OnlyChanged(post, {i})
                                          /\ B!Eq(post.B[i], B!Add(Bi, in)))
        /\ Req("bal.joinShares:charges-at-least-formula-minus-precision", PowLe(base, p, q, RAdd(yhi, Tau1(base, p, q))))
        /\ Req("bal.joinShares:agrees-with-formula", PowGe(base, p, q, RSub(ylo, Tau2(base, p, q))))
        /\ Req("bal.joinShares:value-per-share", BalValuePerShareOK(post, tb, RZero))
        /\ Commit(post, Allowance(post, tb, RZero))

(* ExitSwapExactAmountOut: out of asset o wanted, shares burned (balancer only; the pool's own f and x).    *)
(* Shares are what the exiter PAYS, so the requirement is  sharesIn >= S (1 - Y - Tau1)/(1 - x).            *)
(* Two shapes of the unchanged tree are reported instead of rejected (the check module turns them into      *)
(* findings; they are violations of the statement unless listed as known):                                 *)
(*   exitOne:pow-tail    base < 1 here and the truncated series of osmomath.Pow OVER-estimates Y, i.e.      *)
(*                       UNDER-charges shares, by up to p T(base) >> p when more than half of the reserve   *)
(*                       is taken out; accepted only within the documented small-base bound Tau2;           *)
(*   exitOne:round-down  the share amount is truncated (TruncateInt) instead of rounded up.                 *)
ExitOne(o, out, sharesIn, post, tag) ==
    LET Bo == pool.B[o]  S == pool.S
        g == Gcd(pool.w[o], WSum)  p == pool.w[o] \div g  q == WSum \div g
        phi == Phi(o, pool.f)
        base == RNorm(RDiv(RSub(RInt(Bo), RDiv(RInt(out), phi)), RInt(Bo)))
        omx == OneMinus(pool.x)
        Y0(sh) == RSub(ROne, RDiv(RMul(RInt(sh), omx), RInt(S)))        \* the Y for which exactly sh shares are due
        t1 == Tau1(base, p, q)   t2 == Tau2(base, p, q)
        strict  == PowGe(base, p, q, RSub(Y0(sharesIn), t1))
        unit    == PowGe(base, p, q, RSub(Y0(B!Add(sharesIn, B!One)), t1))
        tail    == PowGe(base, p, q, RSub(Y0(sharesIn), t2))
        both    == PowGe(base, p, q, RSub(Y0(B!Add(sharesIn, B!One)), t2))
        shape   == IF strict THEN "none" ELSE IF unit THEN "exitOne:round-down" ELSE IF tail THEN "exitOne:pow-tail"
                   ELSE IF both THEN "exitOne:pow-tail+round-down" ELSE "reject"
        tused   == IF shape \in {"none", "exitOne:round-down"} THEN t1 ELSE t2
        ts == RAdd(RCeilTo(RDiv(RMul(RInt(S), tused), omx), 6), IF shape \in {"none", "exitOne:pow-tail"} THEN RZero ELSE ROne)
    IN  /\ Req("exitOne:arguments", pool.kind = "bal" /\ o \in Idx /\ out.s > 0 /\ sharesIn.s > 0 /\ B!Lt(out, Bo) /\ B!Lt(sharesIn, S))
        /\ Req("exitOne:bookkeeping", /\ WellFormed(post) /\ B!Eq(post.S, B!Sub(S, sharesIn)) /\ OnlyChanged(post, {o})
                                       /\ B!Eq(post.B[o], B!Sub(Bo, out)))
        /\ Req("exitOne:positive-base", RPos(base))
        /\ Req("bal.exitOne:burns-at-least-formula-minus-precision", shape # "reject")
        /\ Note(shape, tag)
        /\ Req("bal.exitOne:agrees-with-formula", PowLe(base, p, q, RAdd(Y0(B!Sub(sharesIn, B!One)), t2)))
        /\ Req("bal.exitOne:value-per-share", BalValuePerShareOK(post, ZeroTol, ts))
        /\ Commit(post, Allowance(post, ZeroTol, ts))

(* proportional part shared by both pool kinds *)
Joined(post, k) == B!Sub(post.B[k], pool.B[k])
ProportionalJoinOK(amts, shares, post) ==
    /\ Len(amts) = pool.n
    /\ \A k \in Idx : /\ Joined(post, k).s >= 0 /\ B!Le(Joined(post, k), amts[k])
                      \* shares / S <= joined_k / B_k : at most the proportional share count, at least the proportional tokens
                      /\ B!Le(B!Mul(shares, pool.B[k]), B!Mul(pool.S, Joined(post, k)))

(* JoinPoolNoSwap (both kinds) and the all-asset JoinPool of a stableswap pool: proportional only *)
JoinNoSwap(amts, shares, post) ==
    /\ Req("joinNoSwap:arguments", shares.s > 0)
    /\ Req("joinNoSwap:bookkeeping", WellFormed(post) /\ B!Eq(post.S, B!Add(pool.S, shares)))
    /\ Req("joinNoSwap:proportional-shares-and-tokens", ProportionalJoinOK(amts, shares, post))
    /\ IF pool.kind = "bal" THEN Req("bal.joinNoSwap:value-per-share", BalValuePerShareOK(post, ZeroTol, RZero))
                            ELSE Req("stab.joinNoSwap:value-per-share", StabValuePerShareOK(post))
    /\ Commit(post, RZero)

(* all-asset JoinPool of a balancer pool: proportional part, then one single-asset join per remaining coin *)
JoinAll(amts, f, shares, post) ==
    IF pool.kind = "stab" THEN JoinNoSwap(amts, shares, post)
    ELSE LET ts == RCeilTo(RMul(RMul(RInt(post.S), RI(pool.n)), RAdd(PowPrec, RMul(RI(3), Ulp))), 6) IN
         /\ Req("joinAll:arguments", shares.s > 0 /\ Len(amts) = pool.n)
         /\ Req("joinAll:bookkeeping", /\ WellFormed(post) /\ B!Eq(post.S, B!Add(pool.S, shares))
                                        /\ \A k \in Idx : Joined(post, k).s >= 0 /\ B!Le(Joined(post, k), amts[k]))
         /\ Req("bal.joinAll:value-per-share", BalValuePerShareOK(post, ZeroTol, ts))
         /\ Commit(post, Allowance(post, ZeroTol, ts))

(* ExitPool: s shares burned with exit fee x, every asset paid pro rata *)
Exit(s, x, post) ==
    /\ Req("exit:arguments", s.s > 0 /\ B!Lt(s, pool.S))
    /\ Req("exit:bookkeeping", WellFormed(post) /\ B!Eq(post.S, B!Sub(pool.S, s)))
    /\ Req("exit:pays-at-most-proportional-reserves",
           \A k \in Idx : LET paid == B!Sub(pool.B[k], post.B[k]) IN
                          /\ paid.s >= 0
                          /\ RLe(RInt(B!Mul(paid, pool.S)), RMul(RInt(B!Mul(pool.B[k], s)), OneMinus(x))))
    /\ IF pool.kind = "bal" THEN Req("bal.exit:value-per-share", BalValuePerShareOK(post, ZeroTol, RZero))
                            ELSE Req("stab.exit:value-per-share", StabValuePerShareOK(post))
    /\ Commit(post, RZero)

---------------------------------------------------------------------------
(* the sequence properties, evaluated in every state of a history *)

\* balancer: at the initial spot prices w_k/B0_k the value behind one share never falls below the initial
\* W/S0 by more than the allowances:   S0 * sum_k w_k B_k / B0_k  >=  W * S * (1 - loss)
RECURSIVE RefValue(_)
RefValue(k) == IF k = 0 THEN RZero ELSE RAdd(<<B!Mul(BI(pool.w[k]), pool.B[k]), ref.B[k]>>, RefValue(k - 1))
NoValueExtracted ==
    pool.kind = "bal" =>
        RLe(RMul(RInt(B!Mul(BI(WSum), pool.S)), RSub(ROne, loss)), RMul(RInt(ref.S), RefValue(pool.n)))

\* stableswap: the actor's net position (what left the pool, shares held) never dominates zero
FreeLunch ==
    LET tk(k) == B!Sub(ref.B[k], pool.B[k])
        sh    == B!Sub(pool.S, ref.S)
    IN  /\ \A k \in Idx : tk(k).s >= 0
        /\ sh.s >= 0
        /\ (sh.s > 0 \/ \E k \in Idx : tk(k).s > 0)
NoFreeLunch == pool.kind = "stab" => ~FreeLunch

(* One shape of the unchanged tree is reported by the trace spec instead of being rejected (the check module   *)
(* turns it into a finding):                                                                                  *)
(*   stab.joinOne-twice:free-lunch   after TWO single-asset joins the minted shares, exited together and      *)
(*       swapped back, return more than was put in: each join is priced by simulating "exit these shares and  *)
(*       swap back" with truncated exit amounts, so a share count whose claim on a scarce asset rounds to 0   *)
(*       units is minted as if that claim were worthless; two such claims add up to whole units.              *)
NoFreeLunchExceptKnown == (pool.kind = "stab" /\ njoin < 2) => ~FreeLunch
=============================================================================
