// Package apphelp is the shared base of the app-level recorders: a full
// OsmosisApp (apptesting.KeeperTestHelper), transaction-like execution of
// keeper calls and messages (branch + recover, written only on success, exactly
// what baseapp does for DeliverTx), and projections into the trace wire format.
package apphelp

import (
	"crypto/sha256"
	"fmt"
	"os"
	"runtime/debug"
	"sort"
	"testing"
	"time"

	sdk "github.com/cosmos/cosmos-sdk/types"

	"github.com/osmosis-labs/osmosis/osmomath"
	"github.com/osmosis-labs/osmosis/v31/app/apptesting"

	"verif/harness/tracelog"
)

// World wraps the test helper of the repository.
type World struct {
	apptesting.KeeperTestHelper
}

// New builds a fresh app (about 50 ms).
func New(t *testing.T) *World {
	w := &World{}
	w.SetT(t)
	w.Setup()
	return w
}

// Outcome of a transaction-like call.
type Outcome struct {
	OK       bool   `json:"ok"`
	Panicked bool   `json:"panicked,omitempty"`
	Err      string `json:"err,omitempty"`
}

// Try runs f on a branch of the current state under recover and commits the
// branch only when f returns nil.
func (w *World) Try(f func(ctx sdk.Context) error) (out Outcome) {
	cc, write := w.Ctx.CacheContext()
	func() {
		defer func() {
			if r := recover(); r != nil {
				out = Outcome{OK: false, Panicked: true, Err: fmt.Sprint(r)}
				if os.Getenv("VERIF_STACK") != "" {
					fmt.Printf("PANIC %v\n%s\n", r, debug.Stack())
				}
			}
		}()
		if err := f(cc); err != nil {
			out = Outcome{OK: false, Err: err.Error()}
			return
		}
		out = Outcome{OK: true}
	}()
	if out.OK {
		write()
	}
	return out
}

// Peek runs f on a branch that is always discarded (estimates, what-if drains).
func (w *World) Peek(f func(ctx sdk.Context) error) (out Outcome) {
	cc, _ := w.Ctx.CacheContext()
	func() {
		defer func() {
			if r := recover(); r != nil {
				out = Outcome{OK: false, Panicked: true, Err: fmt.Sprint(r)}
			}
		}()
		if err := f(cc); err != nil {
			out = Outcome{OK: false, Err: err.Error()}
			return
		}
		out = Outcome{OK: true}
	}()
	return out
}

// Msg delivers a message like a transaction: ValidateBasic (when the message
// has one), then the registered handler on a branch.
func (w *World) Msg(msg sdk.Msg) (res *sdk.Result, out Outcome) {
	if vb, ok := msg.(interface{ ValidateBasic() error }); ok {
		if err := vb.ValidateBasic(); err != nil {
			return nil, Outcome{OK: false, Err: "validate-basic: " + err.Error()}
		}
	}
	h := w.App.GetBaseApp().MsgServiceRouter().Handler(msg)
	if h == nil {
		panic(fmt.Sprintf("no handler for %T", msg))
	}
	out = w.Try(func(ctx sdk.Context) error {
		var err error
		res, err = h(ctx, msg)
		return err
	})
	return res, out
}

// AdvanceTime moves the block time forward and the height by one without running
// begin/end blockers (drivers call the module entry points they need explicitly).
func (w *World) AdvanceTime(d time.Duration) {
	w.Ctx = w.Ctx.WithBlockTime(w.Ctx.BlockTime().Add(d)).WithBlockHeight(w.Ctx.BlockHeight() + 1)
}

// Acct returns the i-th deterministic account address.
func Acct(i int) sdk.AccAddress {
	h := sha256.Sum256([]byte(fmt.Sprintf("verif-account-%d", i)))
	return sdk.AccAddress(h[:20])
}

// BigI / BigD / BigBD: wire form of Int, Dec (raw, scaled by 10^18), BigDec (raw, scaled by 10^36).
func BigI(x osmomath.Int) tracelog.Big { return tracelog.EncBig(x.BigInt()) }
func BigD(x osmomath.Dec) tracelog.Big { return tracelog.EncBig(x.BigInt()) }
func BigBD(x osmomath.BigDec) tracelog.Big {
	return tracelog.EncBig(x.BigInt())
}

// CoinsMap projects coins to denom -> amount.
func CoinsMap(cs sdk.Coins) map[string]tracelog.Big {
	m := map[string]tracelog.Big{}
	for _, c := range cs {
		m[c.Denom] = BigI(c.Amount)
	}
	return m
}

// Balances of an address, all denoms.
func (w *World) Balances(addr sdk.AccAddress) sdk.Coins {
	return w.App.BankKeeper.GetAllBalances(w.Ctx, addr)
}

// SortedKeys helps emitting maps deterministically.
func SortedKeys[V any](m map[string]V) []string {
	ks := make([]string, 0, len(m))
	for k := range m {
		ks = append(ks, k)
	}
	sort.Strings(ks)
	return ks
}
